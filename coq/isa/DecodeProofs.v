(** C04 — proofs about the decoder model that do not involve the encoder:
    format matching is independent of the order of the format list, the
    decoder never faults, table facts (by computation over the regenerated
    tables, lifted with forallb_forall). *)
From Coq Require Import NArith ZArith List String Bool Lia Permutation Sorted.
From Coq Require Import ZifyN ZifyBool.
From RecordUpdate Require Import RecordSet.
From VIsa Require Import InstTypes Decode.
From VGen Require Import FormatTable DecodeTable RegTable.
Import ListNotations.
Open Scope N_scope.

(* ------------------------------------------------------------------ generated tables: sanity *)

(** the Regs map has exactly the keys 0 .. reg_type_count-1 *)
Fixpoint nrange (k : nat) (from : N) : list N :=
  match k with O => [] | S k' => from :: nrange k' (from + 1) end.

Lemma reg_table_dense :
  map (fun e => fst (fst (fst e))) reg_table = nrange (N.to_nat reg_type_count) 0.
Proof. vm_compute. reflexivity. Qed.

Lemma fmt_eqb_eq a b : fmt_eqb a b = true <-> a = b.
Proof. split; [destruct a, b; simpl; congruence | intros ->; destruct b; reflexivity]. Qed.

Definition format_eqb (f g : format) : bool :=
  fmt_eqb (f_type f) (f_type g) && String.eqb (f_name f) (f_name g) && (f_enc f =? f_enc g)
  && (f_mask f =? f_mask g) && (f_size f =? f_size g) && (f_oplo f =? f_oplo g) && (f_ophi f =? f_ophi g).

Lemma format_eqb_eq f g : format_eqb f g = true -> f = g.
Proof.
  unfold format_eqb. rewrite !andb_true_iff. intros [[[[[[H1 H2] H3] H4] H5] H6] H7].
  apply fmt_eqb_eq in H1. apply String.eqb_eq in H2. apply N.eqb_eq in H3, H4, H5, H6, H7.
  destruct f, g; simpl in *; congruence.
Qed.

(* ------------------------------------------------------------------ format matching *)

Lemma land_lxor_distr a b c : N.land (N.lxor a b) c = N.lxor (N.land a c) (N.land b c).
Proof.
  apply N.bits_inj. intro n. rewrite N.land_spec, !N.lxor_spec, !N.land_spec.
  destruct (N.testbit a n), (N.testbit b n), (N.testbit c n); reflexivity.
Qed.

Lemma matches_iff f w : matches f w = true <-> N.land w (f_mask f) = N.land (f_enc f) (f_mask f).
Proof.
  unfold matches. rewrite N.eqb_eq, land_lxor_distr. split.
  - apply N.lxor_eq.
  - intros ->. apply N.lxor_nilpotent.
Qed.

(** two different formats (other than the VOP3b twin, which matchFormat skips)
    with the same mask have different encodings under that mask *)
Definition excl_check : bool :=
  forallb (fun f => forallb (fun g =>
     format_eqb f g || fmt_eqb (f_type f) VOP3b || fmt_eqb (f_type g) VOP3b
     || negb (f_mask f =? f_mask g)
     || negb (N.land (f_enc f) (f_mask f) =? N.land (f_enc g) (f_mask g))) format_table) format_table.

Lemma excl_check_true : excl_check = true.
Proof. vm_compute. reflexivity. Qed.

Lemma candidates_exclusive w f g :
  In f format_table -> In g format_table ->
  candidate w f = true -> candidate w g = true -> f_mask f = f_mask g -> f = g.
Proof.
  intros Hf Hg Cf Cg Hm.
  pose proof excl_check_true as E. unfold excl_check in E.
  rewrite forallb_forall in E. specialize (E f Hf). rewrite forallb_forall in E. specialize (E g Hg).
  unfold candidate in Cf, Cg. apply andb_true_iff in Cf, Cg. destruct Cf as [Nf Mf], Cg as [Ng Mg].
  apply negb_true_iff in Nf, Ng. rewrite Nf, Ng in E.
  apply matches_iff in Mf, Mg.
  rewrite !orb_true_iff in E. destruct E as [[[[E|E]|E]|E]|E]; try discriminate.
  - apply format_eqb_eq; exact E.
  - apply negb_true_iff, N.eqb_neq in E. contradiction.
  - apply negb_true_iff, N.eqb_neq in E. exfalso. apply E. rewrite <- Mf, <- Mg, Hm. reflexivity.
Qed.

Definition sorted_desc (fl : list format) : Prop :=
  StronglySorted (fun f g => f_mask g <= f_mask f) fl.

(** a possible formatList: any permutation of the table, sorted by mask, descending *)
Definition possible_format_list (fl : list format) : Prop :=
  Permutation fl format_table /\ sorted_desc fl.

Lemma find_sorted_top w fl x :
  (forall f, In f fl -> In f format_table) -> sorted_desc fl ->
  find (candidate w) fl = Some x ->
  In x fl /\ candidate w x = true /\
  forall y, In y fl -> candidate w y = true -> y = x \/ f_mask y < f_mask x.
Proof.
  intros Hin Hs. induction Hs as [|a l Hs IH Ha]; simpl; [discriminate|].
  destruct (candidate w a) eqn:Ca.
  - intros E. inversion E; subst x. split; [auto|]. split; [auto|].
    intros y [<-|Hy] Cy; [auto|].
    rewrite Forall_forall in Ha. specialize (Ha y Hy).
    destruct (N.eq_dec (f_mask y) (f_mask a)) as [e|ne]; [|right; lia].
    left. apply (candidates_exclusive w); auto. apply Hin; simpl; auto. apply Hin; simpl; auto.
  - intros E. destruct IH as (I1 & I2 & I3); auto. { intros f Hf; apply Hin; simpl; auto. }
    split; [auto|]. split; [auto|]. intros y [<-|Hy] Cy; [congruence|auto].
Qed.

Lemma find_candidate_order_independent w fl1 fl2 :
  possible_format_list fl1 -> possible_format_list fl2 ->
  find (candidate w) fl1 = find (candidate w) fl2.
Proof.
  intros [P1 S1] [P2 S2].
  assert (I1 : forall f, In f fl1 -> In f format_table) by (intros f; apply Permutation_in; auto).
  assert (I2 : forall f, In f fl2 -> In f format_table) by (intros f; apply Permutation_in; auto).
  assert (I12 : forall f, In f fl1 -> In f fl2).
  { intros f Hf. apply Permutation_in with format_table; [symmetry; auto | auto]. }
  assert (I21 : forall f, In f fl2 -> In f fl1).
  { intros f Hf. apply Permutation_in with format_table; [symmetry; auto | auto]. }
  destruct (find (candidate w) fl1) as [x1|] eqn:F1, (find (candidate w) fl2) as [x2|] eqn:F2; auto.
  - destruct (find_sorted_top w fl1 x1 I1 S1 F1) as (A1 & A2 & A3).
    destruct (find_sorted_top w fl2 x2 I2 S2 F2) as (B1 & B2 & B3).
    destruct (A3 x2 (I21 _ B1) B2) as [->|L1]; auto.
    destruct (B3 x1 (I12 _ A1) A2) as [->|L2]; auto. lia.
  - destruct (find_sorted_top w fl1 x1 I1 S1 F1) as (A1 & A2 & A3).
    pose proof (find_none _ _ F2 x1 (I12 _ A1)). congruence.
  - destruct (find_sorted_top w fl2 x2 I2 S2 F2) as (B1 & B2 & B3).
    pose proof (find_none _ _ F1 x2 (I21 _ B1)). congruence.
Qed.

Lemma match_format_order_independent w fl1 fl2 :
  possible_format_list fl1 -> possible_format_list fl2 ->
  match_format fl1 w = match_format fl2 w.
Proof.
  intros H1 H2. unfold match_format. rewrite (find_candidate_order_independent w fl1 fl2 H1 H2). reflexivity.
Qed.

(** the list the model uses (insertion sort of the table) is one of them *)
Lemma insert_desc_perm f l : Permutation (insert_desc f l) (f :: l).
Proof.
  induction l as [|g l IH]; simpl; [auto|].
  destruct (f_mask g <? f_mask f); [auto|].
  rewrite IH. apply perm_swap.
Qed.

Lemma insert_desc_sorted f l : sorted_desc l -> sorted_desc (insert_desc f l).
Proof.
  unfold sorted_desc. intros Hs. induction Hs as [|g l Hs IH Hg]; simpl.
  - constructor; constructor.
  - destruct (f_mask g <? f_mask f) eqn:E.
    + apply N.ltb_lt in E. constructor; [constructor; auto|].
      constructor; [lia|]. rewrite Forall_forall in *. intros y Hy. specialize (Hg y Hy). lia.
    + apply N.ltb_ge in E. constructor; [auto|].
      rewrite Forall_forall in *. intros y Hy.
      apply (Permutation_in _ (insert_desc_perm f l)) in Hy. destruct Hy as [<-|Hy]; auto.
Qed.

Lemma format_list_possible : possible_format_list format_list.
Proof.
  unfold format_list. split.
  - induction format_table as [|f l IH]; simpl; [auto|]. rewrite insert_desc_perm. auto.
  - induction format_table as [|f l IH]; simpl; [constructor|]. apply insert_desc_sorted; auto.
Qed.

Lemma decode_core_order_independent fl1 fl2 cdna3 len w0 w1 :
  possible_format_list fl1 -> possible_format_list fl2 ->
  decode_core fl1 cdna3 len w0 w1 = decode_core fl2 cdna3 len w0 w1.
Proof.
  intros H1 H2. unfold decode_core. rewrite (match_format_order_independent w0 fl1 fl2 H1 H2). reflexivity.
Qed.

(* ------------------------------------------------------------------ table facts *)

Definition needs_hi (t : fmt) : bool :=
  match t with SMEM | VOP3a | VOP3b | DS | FLAT => true | _ => false end.

Definition supported (t : fmt) : bool :=
  match t with
  | SOP2 | SMEM | VOP2 | VOP1 | FLAT | SOPP | VOPC | SOPC | VOP3a | VOP3b | SOP1 | SOPK | DS => true
  | _ => false
  end.

(** formats whose decoders read the second dword unconditionally are 8 bytes
    long; every format is 4 or 8 bytes long *)
Definition format_sizes_check : bool :=
  forallb (fun f => ((f_size f =? 4) || (f_size f =? 8)) && (negb (needs_hi (f_type f)) || (f_size f =? 8))
                    && (needs_hi (f_type f) || negb (supported (f_type f)) || (f_size f =? 4))) format_table.
Lemma format_sizes_true : format_sizes_check = true.
Proof. vm_compute. reflexivity. Qed.

Lemma format_size_facts f :
  In f format_table ->
  (f_size f = 4 \/ f_size f = 8) /\ (needs_hi (f_type f) = true -> f_size f = 8)
  /\ (needs_hi (f_type f) = false -> supported (f_type f) = true -> f_size f = 4).
Proof.
  intros Hf. pose proof format_sizes_true as E. unfold format_sizes_check in E.
  rewrite forallb_forall in E. specialize (E f Hf).
  destruct (needs_hi (f_type f)), (supported (f_type f)); simpl in E;
    rewrite ?andb_true_iff, ?orb_true_iff, ?N.eqb_eq in E; intuition (try discriminate; auto).
Qed.

(** every row of the decode table belongs to a format Decode has a case for *)
Definition rows_supported_check : bool := forallb (fun r => supported (r_fmt r)) decode_table.
Lemma rows_supported_true : rows_supported_check = true.
Proof. vm_compute. reflexivity. Qed.

Lemma lookup_some t op r : lookup t op = Some r -> In r decode_table /\ r_fmt r = t /\ r_opcode r = op.
Proof.
  unfold lookup. intros H. apply find_some in H. destruct H as [Hin H].
  apply andb_true_iff in H. destruct H as [H1 H2]. apply fmt_eqb_eq in H1. apply N.eqb_eq in H2. auto.
Qed.

Lemma lookup_supported t op r : lookup t op = Some r -> supported t = true.
Proof.
  intros H. apply lookup_some in H. destruct H as (Hin & <- & _).
  pose proof rows_supported_true as E. unfold rows_supported_check in E. rewrite forallb_forall in E. auto.
Qed.

Lemma format_of_in t f : format_of t = Some f -> In f format_table /\ f_type f = t.
Proof.
  unfold format_of. intros H. apply find_some in H. destruct H as [H1 H2]. apply fmt_eqb_eq in H2. auto.
Qed.

Lemma match_format_in fl w f :
  (forall g, In g fl -> In g format_table) -> match_format fl w = ROk f -> In f format_table.
Proof.
  intros Hin. unfold match_format. destruct (find (candidate w) fl) as [g|] eqn:F; [|discriminate].
  apply find_some in F. destruct F as [Fg _].
  destruct (fmt_eqb (f_type g) VOP3a && is_vop3b_opcode (retrieve_opcode g w)).
  - destruct (format_of VOP3b) eqn:E; [|discriminate]. intros H; inversion H; subst. apply format_of_in in E. tauto.
  - intros H; inversion H; subst. auto.
Qed.

Lemma format_of_vop3b_some : exists g, format_of VOP3b = Some g.
Proof. vm_compute. eexists. reflexivity. Qed.

Lemma match_format_no_fault fl w : match_format fl w <> RFault.
Proof.
  unfold match_format. destruct (find (candidate w) fl); [|discriminate].
  destruct (fmt_eqb (f_type f) VOP3a && is_vop3b_opcode (retrieve_opcode f w)); [|discriminate].
  destruct format_of_vop3b_some as [g ->]. discriminate.
Qed.

(* ------------------------------------------------------------------ no fault *)

Definition nofault {A} (m : res A) : Prop := m <> RFault.

Lemma nf_bind {A B} (m : res A) (f : A -> res B) :
  nofault m -> (forall a, m = ROk a -> nofault (f a)) -> nofault (bind m f).
Proof. unfold nofault. destruct m; simpl; auto; congruence. Qed.

Lemma nf_ok {A} (a : A) : nofault (ROk a).  Proof. discriminate. Qed.
Lemma nf_err {A} : nofault (@RErr A).  Proof. discriminate. Qed.
Lemma nf_notimpl {A} : nofault (@RNotImpl A).  Proof. discriminate. Qed.
Lemma nf_getop n : nofault (getop n).
Proof. unfold getop. destruct (get_operand n); discriminate. Qed.
Lemma nf_literal len w1 o sz lsz : nofault (literal len w1 o sz lsz).
Proof. unfold literal. destruct (is_lit o); [destruct (len <? 8)|]; discriminate. Qed.
Lemma nf_read_hi len w1 : 8 <= len -> nofault (read_hi len w1).
Proof. intros H. unfold read_hi. destruct (N.ltb_spec len 8); [lia|discriminate]. Qed.

#[local] Hint Resolve nf_ok nf_err nf_notimpl nf_getop nf_literal : nf.

Ltac nf_step :=
  match goal with
  | |- nofault (bind _ _) => apply nf_bind; [|intros ? ?]
  | |- nofault (let '(_, _) := ?p in _) => destruct p
  | |- nofault (if ?c then _ else _) => destruct c
  | |- nofault (match ?x with _ => _ end) => destruct x
  | |- nofault (ROk _) => apply nf_ok
  | |- nofault RErr => apply nf_err
  | |- nofault RNotImpl => apply nf_notimpl
  | |- nofault (getop _) => apply nf_getop
  | |- nofault (literal _ _ _ _ _) => apply nf_literal
  end.
Ltac nf := repeat nf_step; auto with nf.

Lemma nf_sop2 len w0 w1 i : nofault (decode_sop2 len w0 w1 i).
Proof. unfold decode_sop2. nf. Qed.
Lemma nf_vop1 len w0 w1 i : nofault (decode_vop1 len w0 w1 i).
Proof. unfold decode_vop1. nf. Qed.
Lemma nf_vopc len w0 w1 i : nofault (decode_vopc len w0 w1 i).
Proof. unfold decode_vopc. nf. Qed.
Lemma nf_sopc len w0 w1 i : nofault (decode_sopc len w0 w1 i).
Proof. unfold decode_sopc. nf. Qed.
Lemma nf_sop1 len w0 w1 i : nofault (decode_sop1 len w0 w1 i).
Proof. unfold decode_sop1. nf. Qed.
Lemma nf_sopk w0 i : nofault (decode_sopk w0 i).
Proof. unfold decode_sopk. nf. Qed.
Lemma nf_sopp w0 i : nofault (decode_sopp w0 i).
Proof. unfold decode_sopp. nf. Qed.
Lemma nf_smem len w0 w1 i : 8 <= len -> nofault (decode_smem len w0 w1 i).
Proof. intros H. unfold decode_smem. apply nf_bind; [apply nf_read_hi; auto|intros ? ?]. nf. Qed.
Lemma nf_flat c len w0 w1 i : 8 <= len -> nofault (decode_flat c len w0 w1 i).
Proof. intros H. unfold decode_flat, decode_flat_body. apply nf_bind; [apply nf_read_hi; auto|intros ? ?]. nf. Qed.
Lemma nf_ds len w0 w1 i : 8 <= len -> nofault (decode_ds len w0 w1 i).
Proof. intros H. unfold decode_ds, decode_ds_body. apply nf_bind; [apply nf_read_hi; auto|intros ? ?]. nf. Qed.
Lemma nf_vop3a len w0 w1 i : 8 <= len -> nofault (decode_vop3a len w0 w1 i).
Proof. intros H. unfold decode_vop3a, decode_vop3a_body. apply nf_bind; [apply nf_read_hi; auto|intros ? ?]. nf. Qed.
Lemma nf_vop3b len w0 w1 i : 8 <= len -> nofault (decode_vop3b len w0 w1 i).
Proof. intros H. unfold decode_vop3b, decode_vop3b_body. apply nf_bind; [apply nf_read_hi; auto|intros ? ?]. nf. Qed.

Lemma nf_vop2 len w0 w1 i : nofault (decode_vop2 len w0 w1 i).
Proof.
  unfold decode_vop2. apply nf_bind. { nf. }
  intros [[[j s0] sdwa] sz] _. apply nf_bind; [apply nf_literal|].
  intros [s0' sz'] _.
  destruct (is_madk (r_opcode (i_row i))); [destruct (len <? 8)|]; discriminate.
Qed.

Lemma decode_core_no_fault fl cdna3 len w0 w1 :
  (forall g, In g fl -> In g format_table) -> nofault (decode_core fl cdna3 len w0 w1).
Proof.
  intros Hin. unfold decode_core.
  destruct (len <? 4); [apply nf_err|].
  apply nf_bind; [apply match_format_no_fault|]. intros f Hf.
  apply match_format_in in Hf; auto.
  destruct (lookup (f_type f) (retrieve_opcode f w0)) as [r|] eqn:L; cbn [bind]; [|apply nf_err].
  apply lookup_supported in L.
  change (i_size (inst0 f r)) with (f_size f).
  destruct (N.ltb_spec len (f_size f)); [apply nf_err|].
  destruct (format_size_facts f Hf) as (_ & H8 & _).
  assert (H8' : needs_hi (f_type f) = true -> 8 <= len) by (intros E; rewrite <- (H8 E); auto).
  unfold dispatch. destruct (f_type f); try discriminate L;
    lazymatch goal with
    | |- nofault (decode_sop2 _ _ _ _) => apply nf_sop2
    | |- nofault (decode_vop1 _ _ _ _) => apply nf_vop1
    | |- nofault (decode_vopc _ _ _ _) => apply nf_vopc
    | |- nofault (decode_sopc _ _ _ _) => apply nf_sopc
    | |- nofault (decode_sop1 _ _ _ _) => apply nf_sop1
    | |- nofault (decode_sopk _ _) => apply nf_sopk
    | |- nofault (decode_sopp _ _) => apply nf_sopp
    | |- nofault (decode_vop2 _ _ _ _) => apply nf_vop2
    | |- nofault (decode_smem _ _ _ _) => apply nf_smem; apply H8'; reflexivity
    | |- nofault (decode_flat _ _ _ _ _) => apply nf_flat; apply H8'; reflexivity
    | |- nofault (decode_ds _ _ _ _) => apply nf_ds; apply H8'; reflexivity
    | |- nofault (decode_vop3a _ _ _ _) => apply nf_vop3a; apply H8'; reflexivity
    | |- nofault (decode_vop3b _ _ _ _) => apply nf_vop3b; apply H8'; reflexivity
    end.
Qed.

(* ------------------------------------------------------------------ reference table *)

Definition row_eqb (a b : row) : bool :=
  (r_opcode a =? r_opcode b) && fmt_eqb (r_fmt a) (r_fmt b) && String.eqb (r_name a) (r_name b)
  && (r_unit a =? r_unit b) && (r_dstw a =? r_dstw b) && (r_src0w a =? r_src0w b)
  && (r_src1w a =? r_src1w b) && (r_src2w a =? r_src2w b) && (r_sdstw a =? r_sdstw b).

Lemma row_eqb_eq a b : row_eqb a b = true -> a = b.
Proof.
  unfold row_eqb. rewrite !andb_true_iff. intros [[[[[[[[H1 H2] H3] H4] H5] H6] H7] H8] H9].
  apply N.eqb_eq in H1, H4, H5, H6, H7, H8, H9. apply fmt_eqb_eq in H2. apply String.eqb_eq in H3.
  destruct a, b; simpl in *; congruence.
Qed.
