(** C03 — binary32 conversion rows with content: the float range tests of the
    repaired v_cvt_u32_f32 / v_cvt_i32_f32 handlers against truncation and
    saturation on the integers (the manual's wording). *)
From Coq Require Import ZArith List Bool Lia ZifyBool Reals Lra.
Import ListNotations.
From Flocq Require Import Core.Zaux Core.Raux Core.Defs Core.FIX Core.Generic_fmt IEEE754.Binary IEEE754.Bits.
From VIsa Require Import IsaState IsaFloat ExecImpl ExecSpec ExecImplV ExecSpecV ExecImplF ExecSpecF ExecProofs ExecRows ExecVProofs ExecVRowsA ExecFRows.
Open Scope Z_scope.

Definition rv (x : Z) : R := B2R 24 128 (b32 x).
Ltac rv_const := unfold rv; match goal with |- B2R _ _ ?t = _ => let c := fresh in set (c := t); vm_compute in c; subst c end;
  unfold B2R, F2R;
  cbn [Fnum Fexp cond_Zopp bpow radix_val radix2 Z.pow_pos Pos.iter Z.mul Pos.mul Z.opp]; rewrite <- ?mult_IZR; reflexivity.
Lemma rv_0 : rv 0 = IZR 0. Proof. reflexivity. Qed.
Lemma rv_2p32 : rv 1333788672 = IZR 4294967296. Proof. rv_const. Qed.
Lemma rv_2p31 : rv 1325400064 = IZR 2147483648. Proof. rv_const. Qed.
Lemma rv_m2p31 : rv 3472883712 = IZR (-2147483648). Proof. rv_const. Qed.
Lemma trunc_R : forall f, Btrunc 24 128 f = Ztrunc (B2R 24 128 f).
Proof. intros. apply eq_IZR. rewrite Btrunc_correct by reflexivity. apply round_FIX_IZR. Qed.

Lemma cmp_fin : forall x c, is_finite 24 128 (b32 x) = true -> is_finite 24 128 (b32 c) = true ->
  f32_cmp x c = Some (Rcompare (rv x) (rv c)).
Proof. intros. unfold f32_cmp, rv. apply Bcompare_correct; assumption. Qed.

(** the bit test for infinity is Flocq's class *)
Lemma land31 : forall y, 0 <= y < W32 -> Z.land y 2147483647 = y mod 2147483648.
Proof. intros. change 2147483647 with (Z.ones 31). rewrite Z.land_ones by lia. reflexivity. Qed.
Lemma inf_bits : forall x s, 0 <= x < W32 -> b32 x = B754_infinity 24 128 s -> x = if s then 4286578688 else 2139095040.
Proof.
  intros x s Hx E. unfold b32 in E. rewrite Z.mod_small in E by (unfold W32 in *; lia).
  assert (H : bits_of_b32 (b32_of_bits x) = x) by (apply (bits_of_binary_float_of_bits 23 8); unfold W32 in *; try reflexivity; try lia).
  rewrite E in H. destruct s; vm_compute in H; lia.
Qed.
Lemma isinf_class : forall x, 0 <= x < W32 ->
  f32_isinf x = match b32 x with B754_infinity _ _ _ => true | _ => false end.
Proof.
  intros x Hx. unfold f32_isinf. rewrite Z.mod_small by (unfold W32 in *; lia). rewrite land31 by assumption.
  destruct (x mod 2147483648 =? 2139095040) eqn:E.
  - assert (x = 2139095040 \/ x = 4286578688) as [->| ->] by (unfold W32 in *; lia); reflexivity.
  - destruct (b32 x) eqn:Eb; try reflexivity. apply inf_bits in Eb; [|assumption]. destruct s; subst x; discriminate.
Qed.

Lemma ztrunc_pos_lt : forall r n, (0 <= r)%R -> (r < IZR n)%R -> 0 <= Ztrunc r < n.
Proof.
  intros r n H0 H1. rewrite Ztrunc_floor by assumption. split.
  - apply Zfloor_lub. exact H0.
  - apply lt_IZR. eapply Rle_lt_trans; [apply Zfloor_lb|exact H1].
Qed.
Lemma ztrunc_neg_gt : forall r n, (r <= 0)%R -> (IZR n < r)%R -> n < Ztrunc r <= 0.
Proof.
  intros r n H0 H1. rewrite Ztrunc_ceil by assumption. split.
  - apply lt_IZR. eapply Rlt_le_trans; [exact H1|apply Zceil_ub].
  - apply Zceil_glb. exact H0.
Qed.
Lemma ztrunc_ge : forall r n, (IZR n <= r)%R -> n <= Ztrunc r.
Proof. intros. rewrite <- (Ztrunc_IZR n). apply Ztrunc_le. assumption. Qed.
Lemma ztrunc_le : forall r n, (r <= IZR n)%R -> Ztrunc r <= n.
Proof. intros. rewrite <- (Ztrunc_IZR n). apply Ztrunc_le. assumption. Qed.

Lemma cvt_u32_eq : forall x, 0 <= x < W32 -> go_cvt_u32 x = cvt_u32_f32 x /\ 0 <= cvt_u32_f32 x < W32.
Proof.
  intros x Hx. unfold go_cvt_u32, cvt_u32_f32. rewrite (isinf_class x Hx).
  unfold f32_isnan, f32_le, f32_ge, f32_trunc.
  destruct (b32 x) as [s|s|s pl e0|s m e e0] eqn:Eb.
  - (* zero *) cbn [is_nan]. rewrite !cmp_fin by (rewrite ?Eb; reflexivity).
    rewrite rv_0. unfold rv at 1. rewrite Eb. cbn [B2R]. rewrite Rcompare_Eq by reflexivity.
    rewrite trunc_R. cbn [B2R]. rewrite Ztrunc_IZR. unfold W32. cbn. lia.
  - (* infinity *) cbn [is_nan]. apply inf_bits in Eb; [|assumption]. destruct s; subst x; vm_compute; (split; [reflexivity | split; [discriminate|reflexivity]]).
  - cbn [is_nan]. unfold W32; lia.
  - cbn [is_nan]. rewrite <- Eb. rewrite !cmp_fin by (rewrite ?Eb; reflexivity).
    rewrite rv_0, rv_2p32, trunc_R. fold (rv x). set (r := rv x).
    destruct (Rcompare_spec r 0) as [H|H|H].
    + pose proof (ztrunc_le r 0 (Rlt_le _ _ H)). unfold W32; lia.
    + rewrite H, Ztrunc_IZR. unfold W32; lia.
    + destruct (Rcompare_spec r 4294967296) as [H1|H1|H1].
      * pose proof (ztrunc_pos_lt r 4294967296 (Rlt_le _ _ H) H1). unfold W32; lia.
      * rewrite H1, Ztrunc_IZR. unfold W32; lia.
      * pose proof (ztrunc_ge r 4294967296 (Rlt_le _ _ H1)). unfold W32; lia.
Qed.

Lemma cvt_i32_eq : forall x, 0 <= x < W32 -> u32 (go_cvt_i32 x) = cvt_i32_f32 x mod W32.
Proof.
  intros x Hx. unfold go_cvt_i32, cvt_i32_f32. rewrite (isinf_class x Hx).
  unfold f32_isnan, f32_le, f32_ge, f32_trunc.
  destruct (b32 x) as [s|s|s pl e0|s m e e0] eqn:Eb.
  - cbn [is_nan]. rewrite !cmp_fin by (rewrite ?Eb; reflexivity).
    rewrite rv_2p31, rv_m2p31. unfold rv. rewrite Eb. cbn [B2R].
    rewrite Rcompare_Lt by lra. rewrite Rcompare_Gt by lra.
    rewrite trunc_R. cbn [B2R]. rewrite Ztrunc_IZR. reflexivity.
  - cbn [is_nan]. apply inf_bits in Eb; [|assumption]. destruct s; subst x; vm_compute; reflexivity.
  - cbn [is_nan]. reflexivity.
  - cbn [is_nan]. rewrite <- Eb. rewrite !cmp_fin by (rewrite ?Eb; reflexivity).
    rewrite rv_2p31, rv_m2p31, trunc_R. fold (rv x). set (r := rv x). unfold u32.
    destruct (Rcompare_spec r 2147483648) as [H|H|H].
    + destruct (Rcompare_spec r (-2147483648)) as [H1|H1|H1].
      * pose proof (ztrunc_le r (-2147483648) (Rlt_le _ _ H1)).
        replace (Z.max (-2147483648) (Z.min 2147483647 (Ztrunc r))) with (-2147483648) by lia. reflexivity.
      * rewrite H1, Ztrunc_IZR. reflexivity.
      * assert (-2147483648 <= Ztrunc r <= 2147483647).
        { destruct (Rle_lt_dec 0 r) as [P|P].
          - pose proof (ztrunc_pos_lt r 2147483648 P H). lia.
          - pose proof (ztrunc_neg_gt r (-2147483648) (Rlt_le _ _ P) H1). lia. }
        replace (Z.max (-2147483648) (Z.min 2147483647 (Ztrunc r))) with (Ztrunc r) by lia.
        rewrite Z.mod_mod by (unfold W32; lia). reflexivity.
    + rewrite H, Ztrunc_IZR. reflexivity.
    + pose proof (ztrunc_ge r 2147483648 (Rlt_le _ _ H)).
      replace (Z.max (-2147483648) (Z.min 2147483647 (Ztrunc r))) with 2147483647 by lia. reflexivity.
Qed.

Lemma go_cvt_u32_u : forall a, go_cvt_u32 (u32 a) = go_cvt_u32 a.
Proof. intros. unfold go_cvt_u32, f32_isnan, f32_le, f32_ge, f32_cmp, f32_trunc. rewrite !b32_u32. reflexivity. Qed.
Lemma go_cvt_i32_u : forall a, go_cvt_i32 (u32 a) = go_cvt_i32 a.
Proof. intros. unfold go_cvt_i32, f32_isnan, f32_le, f32_ge, f32_cmp, f32_trunc. rewrite !b32_u32. reflexivity. Qed.

Lemma r_x_vop1_7 : forall a, row_ok_f a F_VOP1 7.
Proof.
  intros a0; destruct a0; row_valf; rewrite <- go_cvt_u32_u;
    destruct (cvt_u32_eq (u32 a) (u32_range a)) as [E R]; rewrite E;
    rewrite (Z.mod_small _ W32) by assumption; apply u32_small; assumption.
Qed.
Lemma r_x_vop1_8 : forall a, row_ok_f a F_VOP1 8.
Proof. intros a0; destruct a0; row_valf; rewrite <- go_cvt_i32_u; apply cvt_i32_eq; apply u32_range. Qed.

(** roundToIntegral rows: both sides name the same binary32 operation; the row
    states the operand truncation and the destination wrap. *)
Lemma rint_u : forall md a, f32_rint md (u32 a) = f32_rint md a.
Proof. intros. unfold f32_rint. rewrite b32_u32. reflexivity. Qed.
Lemma rint_wrap : forall md a, u32 (f32_rint md a) = f32_rint md a.
Proof. intros; apply u32_small; unfold f32_rint; apply bits32_range. Qed.
Lemma rint_row : forall md a, u32 (f32_rint md a) = f32_rint md (u32 a) mod W32.
Proof. intros. rewrite rint_u. fold (u32 (f32_rint md a)). reflexivity. Qed.
Lemma r_x_vop1_28 : forall a, row_ok_f a F_VOP1 28.
Proof. intros a0; destruct a0; row_valf; apply rint_row. Qed.
Lemma r_x_vop1_30 : forall a, row_ok_f a F_VOP1 30.
Proof. intros a0; destruct a0; row_valf; apply rint_row. Qed.
(** the operation is not the identity and not the integer conversion: values *)
Example rint_values :
  f32_truncf 1075838976 = 1073741824 /\ f32_rndne 1075838976 = 1073741824 /\      (* 2.5 -> 2, 2 *)
  f32_truncf 1080033280 = 1077936128 /\ f32_rndne 1080033280 = 1082130432 /\      (* 3.5 -> 3, 4 *)
  f32_truncf 3204448256 = 2147483648 /\ f32_rndne 3204448256 = 2147483648 /\      (* -0.5 -> -0, -0 *)
  f32_rndne 3217031168 = 3221225472 /\ f32_truncf 2139095040 = 2139095040 /\      (* -1.5 -> -2; inf *)
  f32_truncf 1333788672 = 1333788672 /\ f32_rndne 1258291201 = 1258291201.        (* 2^32; 2^23+1 *)
Proof. vm_compute. repeat split. Qed.
