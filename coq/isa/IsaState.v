(** C03 — common architectural state of one wavefront, instruction view and
    integer helpers shared by the two transcriptions (ExecSpec: the ISA
    manuals; ExecImpl: the Go handlers).  Definitions only. *)
From Coq Require Import ZArith List Bool.
From RecordUpdate Require Import RecordSet.
Import RecordSetNotations.
Import ListNotations.
Open Scope Z_scope.

Definition W16 : Z := 65536.
Definition W32 : Z := 4294967296.
Definition W64 : Z := 18446744073709551616.

(** unsigned wrap *)
Definition u16 (x : Z) : Z := x mod W16.
Definition u32 (x : Z) : Z := x mod W32.
Definition u64 (x : Z) : Z := x mod W64.
(** two's-complement reading of the low bits (Go: int32(uint32(x)) etc.) *)
Definition sx (w x : Z) : Z := let y := x mod w in if y <? w / 2 then y else y - w.
Definition s16 := sx W16.
Definition s32 := sx W32.
Definition s64 := sx W64.
Definition b2z (b : bool) : Z := if b then 1 else 0.
Definition nz (x : Z) : Z := if x =? 0 then 0 else 1.
Definition hi32 (x : Z) : Z := x / W32.

Inductive arch := GCN3 | CDNA3.
Inductive format := F_SOP2 | F_SOP1 | F_SOPC | F_SOPK | F_SOPP
                  | F_VOP2 | F_VOP1 | F_VOPC | F_VOP3A | F_VOP3B | F_OTHER
                  | F_SMEM | F_FLAT | F_DS.

(** An instruction as the decoder delivers it: operand fields are the
    architectural operand codes (0-101 SGPR, 106/107 VCC halves, 124 M0,
    126/127 EXEC halves, 128-208 inline integers, 240-248 inline floats,
    251-253 VCCZ/EXECZ/SCC, 255 literal, 256-511 VGPR), -1 when absent. *)
Record inst := mkInst {
  i_fmt : format; i_op : Z;
  i_src0 : Z; i_src1 : Z; i_src2 : Z; i_dst : Z;
  i_simm : Z;   (* 16-bit immediate field, unsigned *)
  i_lit : Z     (* 32-bit literal following the instruction *)
}.

(** Architectural state.  [pc] is the address of the next instruction: the
    emulator advances PC past the instruction before calling the ALU. *)
Record state := mkState {
  sgpr : Z -> Z;            (* 32-bit scalar registers *)
  vgpr : Z -> Z -> Z;       (* lane -> register -> 32-bit value *)
  exec : Z; vcc : Z;        (* 64-bit masks *)
  scc : Z; m0 : Z; pc : Z;
  mem : Z -> Z; lds : Z -> Z  (* flat byte maps *)
}.
#[export] Instance eta_state : Settable _ :=
  settable! mkState <sgpr; vgpr; exec; vcc; scc; m0; pc; mem; lds>.

Definition upd (f : Z -> Z) (i v : Z) : Z -> Z := fun j => if j =? i then v else f j.
Definition upd2 (f : Z -> Z -> Z) (l i v : Z) : Z -> Z -> Z :=
  fun l' j => if (l' =? l) && (j =? i) then v else f l' j.

(** Extensional equality of states (register files are functions). *)
Definition state_eq (a b : state) : Prop :=
  (forall i, sgpr a i = sgpr b i) /\ (forall l r, vgpr a l r = vgpr b l r) /\
  exec a = exec b /\ vcc a = vcc b /\ scc a = scc b /\ m0 a = m0 b /\ pc a = pc b /\
  (forall x, mem a x = mem b x) /\ (forall x, lds a x = lds b x).

(** Well-formed: every register holds a value of its width. *)
Definition wf (s : state) : Prop :=
  (forall i, 0 <= sgpr s i < W32) /\ (forall l r, 0 <= vgpr s l r < W32) /\
  0 <= exec s < W64 /\ 0 <= vcc s < W64 /\ (scc s = 0 \/ scc s = 1) /\
  0 <= m0 s < W32 /\ 0 <= pc s < W64.

(** Inline float constants 240..248 as binary32 bit patterns
    (0.5 -0.5 1.0 -1.0 2.0 -2.0 4.0 -4.0 1/(2*pi)). *)
Definition inline_f32 (code : Z) : Z :=
  match code with
  | 240 => 1056964608 | 241 => 3204448256 | 242 => 1065353216 | 243 => 3212836864
  | 244 => 1073741824 | 245 => 3221225472 | 246 => 1082130432 | 247 => 3229614080
  | _ => 1042479491
  end.

Definition lanes : list Z := map Z.of_nat (seq 0 64).
Definition bit (m i : Z) : bool := Z.testbit m i.
