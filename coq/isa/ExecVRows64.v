(** C03 — rows with 64-bit operands: 64-bit compares, v_mad_u64_u32,
    v_lshlrev_b64, v_ashrrev_i64 (both ALUs). *)
From Coq Require Import ZArith List Bool Lia ZifyBool.
Import ListNotations.
From VIsa Require Import IsaState ExecImpl ExecSpec ExecImplV ExecSpecV ExecProofs ExecRows ExecVProofs ExecVRowsA ExecVProofs64.
Open Scope Z_scope.
Ltac Zify.zify_post_hook ::= Z.div_mod_to_equations.

Definition row_ok64 (m0 m1 m2 : omode) (a : arch) (f : format) (op : Z) : Prop :=
  forall d r, vdesc_of a f op = Some d -> vrow_of a f op = Some r -> vrel64 m0 m1 m2 d r.

Ltac v64_start := constructor; cbv [dst_ok64]; unfold_rows; cbv [mode_c mode_w marg];
  [ split; [reflexivity|lia] | repeat split; reflexivity | intros; reflexivity | split; reflexivity | exact I | try lia; auto
  | intros a b c cin Ha Hb Hc ].

Ltac open_row64 := intros d r Hd Hr;
  cbn [vdesc_of Z.leb Z.compare Pos.compare Pos.compare_cont andb CompOpp] in Hd;
  unfold x_cmp64, x_cmp_u, x_cmp, g_vop3a, c_vop3a, x_vop3_common in Hd;
  unfold vrow_of, vop3a_row, cmp_row in Hr;
  cbv beta iota in Hd, Hr; apply some_inj in Hd; apply some_inj in Hr; subst d r.
Ltac cmp64 := open_row64; v64_start; split; [exact I|];
  unfold signed, W64 in *; cbv beta iota; reflexivity.

Lemma r64_vopc : forall a op, In op [232; 233; 234; 235; 236; 237; 238; 239] -> row_ok64 M64 M64 M32 a F_VOPC op.
Proof.
  intros a op Hin. cbn [In] in Hin.
  repeat (destruct Hin as [<-|Hin]; [destruct a; cmp64|]). contradiction.
Qed.
Lemma r64_vop3a_233 : forall a, row_ok64 M64 M64 M32 a F_VOP3A 233.
Proof. intros a; destruct a; cmp64. Qed.

Lemma mad64_row : forall a b c, 0 <= c < W64 ->
  0 <= u64 (u32 a * u32 b + c) < W64 /\ u64 (u32 a * u32 b + c) = (u32 a * u32 b + c) mod W64.
Proof. intros. split; [unfold u64, W64; lia|reflexivity]. Qed.
Lemma r64_vop3a_488 : forall a, row_ok64 M32 M32 M64 a F_VOP3A 488.
Proof.
  intros a0; destruct a0; open_row; v64_start; (split; [eexists; split; [reflexivity|apply mad64_row; assumption]|reflexivity]).
Qed.

Lemma lshl64_row : forall a b,
  0 <= u64 (Z.shiftl b (Z.land a 63)) < W64 /\ u64 (Z.shiftl b (Z.land a 63)) = (b * 2 ^ (u32 a mod 64)) mod W64.
Proof.
  intros. split; [unfold u64, W64; lia|]. rewrite land63, Z.shiftl_mul_pow2 by apply m64.
  replace (a mod 64) with (u32 a mod 64) by (unfold u32, W32; lia). reflexivity.
Qed.
Lemma ashr64_row : forall a b, 0 <= b < W64 ->
  0 <= u64 (Z.shiftr (s64 b) (Z.land a 63)) < W64 /\
  u64 (Z.shiftr (s64 b) (Z.land a 63)) = (sg64 b / 2 ^ (u32 a mod 64)) mod W64.
Proof.
  intros a b Hb. split; [unfold u64, W64; lia|]. rewrite land63, Z.shiftr_div_pow2 by apply m64.
  replace (a mod 64) with (u32 a mod 64) by (unfold u32, W32; lia).
  unfold sg64, signed. rewrite <- (s64_signed b Hb). reflexivity.
Qed.
Lemma r64_vop3a_655 : forall a, row_ok64 M64lo M64 M32 a F_VOP3A 655.
Proof.
  intros a0; destruct a0; open_row; v64_start; (split; [eexists; split; [reflexivity|apply lshl64_row]|reflexivity]).
Qed.
Lemma r64_vop3a_657 : forall a, row_ok64 M64lo M64 M32 a F_VOP3A 657.
Proof.
  intros a0; destruct a0; open_row; v64_start; (split; [eexists; split; [reflexivity|apply ashr64_row; assumption]|reflexivity]).
Qed.
