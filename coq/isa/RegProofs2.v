(** C07, second part — register release, byte-level frame of the shared
    register files, exact panic characterisations, over-long data.
    Statements are collected in props/C07.v. *)
From Coq Require Import ZArith NArith List Bool Lia ZifyN ZifyNat ZifyBool PeanoNat.
From VIsa Require Import RegSpec RegModel RegProofs.
Import ListNotations.
Open Scope N_scope.
Ltac Zify.zify_post_hook ::= Z.div_mod_to_equations.

(** * which bytes of the shared files belong to a wavefront *)
Definition own_s (wv : wave) (a : N) : Prop := soff wv <= a < soff wv + 4 * nsgpr wv.
Definition own_v (wv : wave) (k a : N) : Prop :=
  k = simd wv /\ exists l, l < 64 /\ l * 1024 + voff wv <= a < l * 1024 + voff wv + 4 * nvgpr wv.

(** * register release *)

Lemma nth_zeros : forall n k, nth k (repeat 0 n) 0 = 0.
Proof. induction n; destruct k; cbn; auto. Qed.

Lemma mem_write_zeros : forall m off n a,
  mem_write m off (repeat 0 n) a = if (off <=? a) && (a <? off + N.of_nat n) then 0 else m a.
Proof.
  intros. unfold mem_write, lenN. rewrite repeat_length.
  destruct ((off <=? a) && (a <? off + N.of_nat n)); auto using nth_zeros.
Qed.

Lemma copy_tail_zeros : forall m len off n, off + N.of_nat n <= len ->
  copy_tail m len off (repeat 0 n) = Some (mem_write m off (repeat 0 n)).
Proof.
  intros. unfold copy_tail. replace (off <=? len) with true by lia.
  unfold firstnN. rewrite firstn_all2 by (rewrite repeat_length; lia). reflexivity.
Qed.

(** the 64-iteration loop over the lanes *)
Lemma reset_fold : forall vlen vo n k m,
  (forall i, i < N.of_nat k -> vo + 1024 * i + N.of_nat n <= vlen) ->
  exists m',
    fold_left (fun (acc : option mem) (i : N) =>
                 match acc with
                 | Some m => copy_tail m vlen (vo + 1024 * i) (repeat 0 n)
                 | None => None
                 end) (map N.of_nat (seq 0 k)) (Some m) = Some m' /\
    (forall a, (exists i, i < N.of_nat k /\ vo + 1024 * i <= a < vo + 1024 * i + N.of_nat n) -> m' a = 0) /\
    (forall a, (forall i, i < N.of_nat k -> ~ (vo + 1024 * i <= a < vo + 1024 * i + N.of_nat n)) -> m' a = m a).
Proof.
  intros vlen vo n k m. induction k as [|k IH]; intros Hb.
  - exists m. cbn. split; auto. split; auto. intros a [i [Hi _]]. lia.
  - destruct IH as [m1 [E [Z F]]]. { intros i Hi. apply Hb. lia. }
    rewrite seq_S, map_app, fold_left_app, E. cbn [plus map fold_left].
    rewrite copy_tail_zeros by (apply Hb; lia). eexists; split; [reflexivity|]. split.
    + intros a [i [Hi Ha]]. rewrite mem_write_zeros.
      destruct ((vo + 1024 * N.of_nat k <=? a) && (a <? vo + 1024 * N.of_nat k + N.of_nat n)) eqn:C; auto.
      apply Z. exists i. split; [|lia]. assert (i <> N.of_nat k) by (intros ->; lia). lia.
    + intros a Ha. rewrite mem_write_zeros.
      destruct ((vo + 1024 * N.of_nat k <=? a) && (a <? vo + 1024 * N.of_nat k + N.of_nat n)) eqn:C.
      * exfalso. apply (Ha (N.of_nat k)); lia.
      * apply F. intros i Hi. apply Ha. lia.
Qed.

(** what the release does to the storage, byte by byte *)
Lemma timing_reset_char : forall st nw w, layout_ok st nw -> w < nw ->
  exists st', timing_reset st w = (st', false) /\
    t_sp st' = t_sp st /\ t_waves st' = t_waves st /\ t_bpl st' = t_bpl st /\ t_vlen st' = t_vlen st /\
    t_slen st' = t_slen st /\ t_nsimd st' = t_nsimd st /\
    (forall a, own_s (t_waves st w) a -> t_sreg st' a = 0) /\
    (forall a, ~ own_s (t_waves st w) a -> t_sreg st' a = t_sreg st a) /\
    (forall k a, own_v (t_waves st w) k a -> t_vreg st' k a = 0) /\
    (forall k a, ~ own_v (t_waves st w) k a -> t_vreg st' k a = t_vreg st k a).
Proof.
  intros st nw w L Hw. destruct (L_in _ _ L w Hw) as [Ls [Lsimd Lv]].
  pose proof (L_bpl _ _ L) as Lb. pose proof (L_vlen _ _ L) as Lvl.
  set (wv := t_waves st w) in *. unfold timing_reset. fold wv. rewrite Lb.
  destruct (reset_fold (t_vlen st) (voff wv) (N.to_nat (nvgpr wv * 4)) 64 (t_vreg st (simd wv))) as [vm [Ef [Vz Vf]]].
  { intros i Hi. lia. }
  unfold nseq. change (N.to_nat 64) with 64%nat. rewrite Ef. replace (simd wv <? t_nsimd st) with true by lia.
  assert (HS1 : forall m a, own_s wv a -> mem_write m (soff wv) (repeat 0 (N.to_nat (nsgpr wv * 4))) a = 0).
  { intros m a Ha. unfold own_s in Ha. rewrite mem_write_zeros.
    replace ((soff wv <=? a) && (a <? soff wv + N.of_nat (N.to_nat (nsgpr wv * 4)))) with true by lia. reflexivity. }
  assert (HS2 : forall m a, ~ own_s wv a -> mem_write m (soff wv) (repeat 0 (N.to_nat (nsgpr wv * 4))) a = m a).
  { intros m a Ha. unfold own_s in Ha. rewrite mem_write_zeros.
    replace ((soff wv <=? a) && (a <? soff wv + N.of_nat (N.to_nat (nsgpr wv * 4)))) with false by lia. reflexivity. }
  assert (HV1 : forall k a, own_v wv k a -> wupd (t_vreg st) (simd wv) vm k a = 0).
  { intros k a [-> [l [Hl Ha]]]. unfold wupd. rewrite N.eqb_refl. apply Vz. exists l. lia. }
  assert (HV2 : forall k a, ~ own_v wv k a -> wupd (t_vreg st) (simd wv) vm k a = t_vreg st k a).
  { intros k a Hn. unfold wupd. destruct (k =? simd wv) eqn:Ek; auto. apply N.eqb_eq in Ek. subst k.
    apply Vf. intros i Hi Ha. apply Hn. split; auto. exists i. lia. }
  destruct (0 <? nvgpr wv) eqn:E0; destruct (0 <? nsgpr wv) eqn:E3;
    cbn [set_tvreg t_vreg t_sreg t_sp t_waves t_bpl t_vlen t_slen t_nsimd];
    try rewrite copy_tail_zeros by lia;
    (eexists; split; [reflexivity|]);
    cbn [set_tsreg set_tvreg t_vreg t_sreg t_sp t_waves t_bpl t_vlen t_slen t_nsimd];
    repeat split; auto;
    try (intros a Ha; unfold own_s in Ha; lia);
    try (intros k a [_ [l [_ Ha]]]; lia).
Qed.

Lemma view_mem_ext : forall m m' base n g c, view m base n g c ->
  (forall a, base <= a < base + 4 * n -> m' a = m a) -> view m' base n g c.
Proof.
  intros m m' base n g c Hv H j Hj. rewrite (mem_read_ext m m') by (intros; apply H; lia). auto.
Qed.

Lemma view_zero : forall m base n g c,
  (forall a, base <= a < base + 4 * n -> m a = 0) -> (forall j, j < n -> c (g j) = 0) -> view m base n g c.
Proof.
  intros m base n g c Hm Hc j Hj. rewrite Hc by auto.
  apply list_eq_nth. rewrite mem_read_length. reflexivity.
  intros k Hk. change (length (le_bytes 4 0)) with 4%nat in Hk.
  rewrite mem_read_nth by (change (N.to_nat 4) with 4%nat; lia). rewrite Hm by lia.
  destruct k as [|[|[|[|k]]]]; try reflexivity. lia.
Qed.

(** the release zeroes exactly the released wavefront's registers and leaves
    every cell of every co-resident wavefront unchanged *)
Lemma timing_reset_ok : forall st nw cs w, timing_R st nw cs -> w < nw ->
  exists st', timing_reset st w = (st', false) /\ t_waves st' = t_waves st /\
    timing_R st' nw (wupd cs w (reset_cells (nsgpr (t_waves st w)) (nvgpr (t_waves st w)) (cs w))).
Proof.
  intros st nw cs w [L Rs] Hw.
  destruct (timing_reset_char st nw w L Hw) as [st' [E [Sp [Wv [Bp [Vl [Sl [Ns [Sz [Sf [Vz Vf]]]]]]]]]]].
  exists st'. split; auto. split; auto. split.
  - apply (layout_ok_same st); auto.
  - intros w' Hw'. rewrite Sp, Wv. pose proof (Rs w' Hw') as R'.
    destruct (L_in _ _ L w Hw) as [Ls [Lsimd Lv]]. destruct (L_in _ _ L w' Hw') as [Ls' [Lsimd' Lv']].
    unfold wupd. destruct (w' =? w) eqn:Ew.
    + apply N.eqb_eq in Ew. subst w'. constructor; cbn [reset_cells]; try apply R'.
      * apply view_zero.
        -- intros a Ha. apply Sz. unfold own_s. lia.
        -- intros j Hj. unfold reset_cells. replace (j <? nsgpr (t_waves st w)) with true by lia. reflexivity.
      * intros l Hl. apply view_zero.
        -- intros a Ha. apply Vz. split; auto. exists l. lia.
        -- intros j Hj. unfold reset_cells. replace (l <? 64) with true by lia. replace (j <? nvgpr (t_waves st w)) with true by lia. reflexivity.
    + apply N.eqb_neq in Ew. destruct (L_disj _ _ L w w' Hw Hw' ltac:(congruence)) as [Ds Dv].
      constructor; try apply R'.
      * apply (view_mem_ext (t_sreg st)). apply R'. intros a Ha. apply Sf. unfold own_s. lia.
      * intros l Hl. apply (view_mem_ext (t_vreg st (simd (t_waves st w')))). apply R'; auto.
        intros a Ha. apply Vf. intros [Es [l2 [Hl2 Ha2]]]. lia.
Qed.

(** * histories with register releases *)

Definition twf_r (wv : N -> wave) (nw : N) (a : acc) : Prop :=
  a_w a < nw /\ (a_api a = AReset \/ wf_acc (fun w => nsgpr (wv w)) (fun w => nvgpr (wv w)) a).

Lemma timing_tstep_ok : forall st nw cs a, timing_R st nw cs -> twf_r (t_waves st) nw a ->
  let ns := fun w => nsgpr (t_waves st w) in let nv := fun w => nvgpr (t_waves st w) in
  snd (timing_step st a) = snd (tspec_step ns nv cs a) /\
  timing_R (fst (timing_step st a)) nw (fst (tspec_step ns nv cs a)) /\
  t_waves (fst (timing_step st a)) = t_waves st.
Proof.
  intros st nw cs a R [Hw [Hr|Hwf]] ns nv.
  - unfold timing_step, tspec_step. rewrite Hr.
    destruct (timing_reset_ok st nw cs (a_w a) R Hw) as [st' [E [Wv R']]]. rewrite E. cbn [fst snd]. auto.
  - assert (a_api a <> AReset) by (intros X; destruct Hwf as [_ Y]; rewrite X in Y; exact Y).
    unfold tspec_step. destruct (a_api a) eqn:Ea; try congruence; apply timing_step_ok; auto; split; auto.
Qed.

Lemma timing_trun_ok : forall h st nw cs, timing_R st nw cs -> Forall (twf_r (t_waves st) nw) h ->
  let ns := fun w => nsgpr (t_waves st w) in let nv := fun w => nvgpr (t_waves st w) in
  snd (timing_run st h) = snd (tspec_run ns nv cs h) /\ timing_R (fst (timing_run st h)) nw (fst (tspec_run ns nv cs h)) /\
  t_waves (fst (timing_run st h)) = t_waves st.
Proof.
  induction h as [|a rest IH]; intros st nw cs R Hwf ns nv; cbn [timing_run tspec_run].
  - auto.
  - inversion Hwf; subst. destruct (timing_tstep_ok st nw cs a R H1) as [Ho [R1 Wv]]. fold ns nv in Ho, R1.
    destruct (timing_step st a) as [s1 o]. destruct (tspec_step ns nv cs a) as [c1 o']. cbn [fst snd] in *.
    rewrite <- Wv in H2. destruct (IH s1 nw c1 R1 H2) as [Hos [R2 Wv2]].
    subst ns nv. rewrite Wv in *.
    destruct (timing_run s1 rest) as [s2 os]. destruct (tspec_run _ _ c1 rest) as [c2 os']. cbn [fst snd] in *.
    split; [congruence|]. split; assumption.
Qed.

(** * byte-level frame: an access of wavefront w touches only bytes of w's own allocation *)

Lemma firstnN_len : forall (n : N) (l : list N), lenN (firstnN n l) <= n.
Proof. intros. unfold lenN, firstnN. rewrite firstn_length. lia. Qed.

Lemma timing_write_reg_bytes : forall st nw w r cnt lane data, layout_ok st nw -> w < nw ->
  wf_operand (nsgpr (t_waves st w)) (nvgpr (t_waves st w)) r cnt lane = true ->
  (forall a, ~ own_s (t_waves st w) a -> t_sreg (fst (timing_write_reg st w r cnt lane data)) a = t_sreg st a) /\
  (forall k a, ~ own_v (t_waves st w) k a -> t_vreg (fst (timing_write_reg st w r cnt lane data)) k a = t_vreg st k a).
Proof.
  intros st nw w r cnt lane data L Hw Hwf. pose proof (L_bpl _ _ L) as Lb.
  unfold wf_operand in Hwf. apply andb_true_iff in Hwf. destruct Hwf as [Hs Hi].
  destruct r; cbn [wf_shape] in Hs; try discriminate; unfold timing_write_reg;
    try (repeat match goal with |- context [match ?x with _ => _ end] => destruct x end; cbn; auto; fail).
  - rewrite size_is_width. pose proof (width_pos cnt).
    destruct ((4 * width cnt <=? lenN data) && (i * 4 + soff (t_waves st w) + 4 * width cnt <=? t_slen st)); cbn [fst set_tsreg set_tvreg t_sreg t_vreg]; auto.
    split; auto. intros a Ha. unfold own_s in Ha. pose proof (firstnN_len (4 * width cnt) data).
    apply mem_write_out. lia.
  - rewrite size_is_width, Lb. pose proof (width_pos cnt).
    destruct ((simd (t_waves st w) <? t_nsimd st) && (4 * width cnt <=? lenN data) &&
              (i * 4 + lane * 1024 + voff (t_waves st w) + 4 * width cnt <=? t_vlen st)); cbn [fst set_tsreg set_tvreg t_sreg t_vreg]; auto.
    split; auto. intros k a Ha. unfold wupd. destruct (k =? simd (t_waves st w)) eqn:Ek; auto.
    apply N.eqb_eq in Ek. subst k. pose proof (firstnN_len (4 * width cnt) data).
    apply mem_write_out.
    destruct (N.lt_ge_cases a (i * 4 + lane * 1024 + voff (t_waves st w))); auto.
    destruct (N.lt_ge_cases a (i * 4 + lane * 1024 + voff (t_waves st w) + lenN (firstnN (4 * width cnt) data))); auto.
    exfalso. apply Ha. split; auto. exists lane. lia.
Qed.

Lemma timing_step_bytes : forall st nw cs a, timing_R st nw cs -> twf_r (t_waves st) nw a ->
  (forall b, ~ own_s (t_waves st (a_w a)) b -> t_sreg (fst (timing_step st a)) b = t_sreg st b) /\
  (forall k b, ~ own_v (t_waves st (a_w a)) k b -> t_vreg (fst (timing_step st a)) k b = t_vreg st k b).
Proof.
  intros st nw cs [w a r cnt lane] [L Rs] [Hw Hr]. cbn [a_w a_api a_reg a_cnt a_lane] in *.
  unfold timing_step. cbn [a_w a_api a_reg a_cnt a_lane].
  destruct a; cbn [fst]; auto.
  - destruct Hr as [|[Hwf _]]; [discriminate|]. cbn [a_w a_api a_reg a_cnt a_lane] in Hwf.
    pose proof (timing_write_reg_bytes st nw w r cnt lane data L Hw Hwf) as P.
    destruct (timing_write_reg st w r cnt lane data). exact P.
  - destruct Hr as [|[Hwf _]]; [discriminate|]. cbn [a_w a_api a_reg a_cnt a_lane] in Hwf.
    unfold timing_write_operand. destruct (num_bytes r cnt <=? 8); cbn [fst]; auto.
    pose proof (timing_write_reg_bytes st nw w r cnt lane (firstnN (num_bytes r cnt) (le_bytes 8 v)) L Hw Hwf) as P.
    destruct (timing_write_reg st w r cnt lane _). exact P.
  - destruct (timing_reset_char st nw w L Hw) as [st' [E [_ [_ [_ [_ [_ [_ [_ [Sf [_ Vf]]]]]]]]]]].
    rewrite E. cbn [fst]. auto.
Qed.

(** over a whole history: a byte that belongs to none of the wavefronts acting in
    the history — in particular every byte outside all allocations, and every
    byte of a wavefront that does not act — keeps its value *)
Lemma timing_run_bytes : forall h st nw cs, timing_R st nw cs -> Forall (twf_r (t_waves st) nw) h ->
  (forall b, (forall a, In a h -> ~ own_s (t_waves st (a_w a)) b) -> t_sreg (fst (timing_run st h)) b = t_sreg st b) /\
  (forall k b, (forall a, In a h -> ~ own_v (t_waves st (a_w a)) k b) -> t_vreg (fst (timing_run st h)) k b = t_vreg st k b).
Proof.
  induction h as [|a rest IH]; intros st nw cs R Hwf; cbn [timing_run].
  - auto.
  - inversion Hwf; subst. destruct (timing_tstep_ok st nw cs a R H1) as [_ [R1 Wv]].
    destruct (timing_step_bytes st nw cs a R H1) as [Bs Bv].
    destruct (timing_step st a) as [s1 o]. cbn [fst snd] in *. rewrite <- Wv in H2.
    destruct (IH s1 nw _ R1 H2) as [Is Iv]. rewrite Wv in Is, Iv.
    destruct (timing_run s1 rest) as [s2 os]. cbn [fst] in *. split.
    + intros b Hb. rewrite Is by (intros a0 Ha0; apply Hb; right; auto). apply Bs. apply Hb. left; auto.
    + intros k b Hb. rewrite Iv by (intros a0 Ha0; apply Hb; right; auto). apply Bv. apply Hb. left; auto.
Qed.

(** * exact panic characterisations (all states, all operands, all data) *)

Definition is_none {A} (o : option A) : bool := match o with None => true | Some _ => false end.

Ltac bash :=
  repeat match goal with
         | |- context [if ?b then _ else _] => destruct b eqn:?
         | |- context [match ?x with _ => _ end] => destruct x eqn:?
         end.

Lemma emu_read_reg_panics : forall s r cnt lane, is_none (emu_read_reg s r cnt lane) = emu_read_panics r cnt lane.
Proof.
  intros. destruct r; unfold emu_read_reg, emu_read_panics, emu_oob; bash; cbn [is_none]; try reflexivity; lia.
Qed.

Lemma emu_read_operand_panics : forall s r cnt lane, is_none (emu_read_operand s r cnt lane) = emu_readu_panics r cnt lane.
Proof.
  intros. destruct r; unfold emu_read_operand, emu_readu_panics, emu_oob, read_from_reg_file; bash; cbn [is_none]; try reflexivity; lia.
Qed.

Lemma emu_write_reg_panics : forall s r cnt lane data, snd (emu_write_reg s r cnt lane data) = emu_write_panics r cnt lane (lenN data).
Proof.
  intros. destruct r; unfold emu_write_reg, emu_write_panics, emu_oob, put_lo, put_hi, put_64, u32_of, u64_of;
    bash; cbn [fst snd]; try reflexivity; try lia; unfold lenN in *; cbn [length] in *; lia.
Qed.

Lemma lenN_firstnN_le_bytes : forall nb v, nb <= 8 -> lenN (firstnN nb (le_bytes 8 v)) = nb.
Proof. intros. unfold lenN, firstnN. rewrite firstn_length, le_bytes_length. lia. Qed.

Definition is_panic (o : obs) : bool := match o with OPanic => true | _ => false end.

Lemma emu_panics_exact : forall s a r cnt lane, is_panic (snd (emu_access s a r cnt lane)) = emu_panics a r cnt lane.
Proof.
  intros. destruct a; cbn [emu_access emu_panics snd].
  - rewrite <- (emu_read_reg_panics s). destruct (emu_read_reg s r cnt lane); reflexivity.
  - rewrite <- (emu_write_reg_panics s). destruct (emu_write_reg s r cnt lane data) as [s' []]; reflexivity.
  - rewrite <- (emu_read_operand_panics s). destruct (emu_read_operand s r cnt lane); reflexivity.
  - unfold emu_write_operand. destruct (num_bytes r cnt <=? 8) eqn:E.
    + replace (8 <? num_bytes r cnt) with false by lia. cbn [orb].
      rewrite <- (lenN_firstnN_le_bytes (num_bytes r cnt) v) at 2 by lia. rewrite <- (emu_write_reg_panics s).
      destruct (emu_write_reg s r cnt lane _) as [s' []]; reflexivity.
    + replace (8 <? num_bytes r cnt) with true by lia. reflexivity.
  - reflexivity.
Qed.

(** a panicking emulator access does not modify the register files, SCC or M0;
    only a too-short write to a 32-bit half of vcc/exec has already applied its mask *)
Lemma emu_panic_state : forall s a r cnt lane, is_panic (snd (emu_access s a r cnt lane)) = true ->
  let s' := fst (emu_access s a r cnt lane) in
  e_sreg s' = e_sreg s /\ e_vreg s' = e_vreg s /\ e_scc s' = e_scc s /\ e_m0 s' = e_m0 s /\
  (e_vcc s' = e_vcc s \/ e_vcc s' = keep_hi (e_vcc s) \/ e_vcc s' = keep_lo (e_vcc s)) /\
  (e_exec s' = e_exec s \/ e_exec s' = keep_hi (e_exec s) \/ e_exec s' = keep_lo (e_exec s)).
Proof.
  assert (W : forall s r cnt lane data, snd (emu_write_reg s r cnt lane data) = true ->
    let s' := fst (emu_write_reg s r cnt lane data) in
    e_sreg s' = e_sreg s /\ e_vreg s' = e_vreg s /\ e_scc s' = e_scc s /\ e_m0 s' = e_m0 s /\
    (e_vcc s' = e_vcc s \/ e_vcc s' = keep_hi (e_vcc s) \/ e_vcc s' = keep_lo (e_vcc s)) /\
    (e_exec s' = e_exec s \/ e_exec s' = keep_hi (e_exec s) \/ e_exec s' = keep_lo (e_exec s))).
  { intros s r cnt lane data. destruct r; unfold emu_write_reg, put_lo, put_hi, put_64; bash; cbn; intros; try discriminate; auto 10. }
  intros s a r cnt lane. destruct a; cbn [emu_access fst snd].
  - intros _. auto 10.
  - specialize (W s r cnt lane data). destruct (emu_write_reg s r cnt lane data) as [s' []]; cbn [fst snd] in *; auto; discriminate.
  - intros _. auto 10.
  - unfold emu_write_operand. destruct (num_bytes r cnt <=? 8).
    + specialize (W s r cnt lane (firstnN (num_bytes r cnt) (le_bytes 8 v))).
      destruct (emu_write_reg s r cnt lane _) as [s' []]; cbn [fst snd] in *; auto; discriminate.
    + cbn. auto 10.
  - discriminate.
Qed.

Lemma timing_read_reg_panics : forall st w r cnt lane,
  is_none (timing_read_reg st w r cnt lane) = timing_read_panics st w r cnt lane.
Proof.
  intros. destruct r; unfold timing_read_reg, timing_read_panics, timing_oob; bash; cbn [is_none]; try reflexivity; lia.
Qed.

Lemma timing_write_reg_panics : forall st w r cnt lane data,
  snd (timing_write_reg st w r cnt lane data) = timing_write_panics st w r cnt lane (lenN data).
Proof.
  intros. destruct r; unfold timing_write_reg, timing_write_panics, timing_oob, tput, u32_of;
    bash; cbn [fst snd]; try reflexivity; try lia; unfold lenN in *; cbn [length] in *; lia.
Qed.

Lemma fold_reset_none : forall vlen vo bpl zs l,
  fold_left (fun (acc : option mem) (i : N) =>
               match acc with Some m => copy_tail m vlen (vo + bpl * i) zs | None => None end) l None = None.
Proof. induction l; cbn; auto. Qed.

Lemma fold_reset_panics : forall vlen vo bpl zs l m,
  is_none (fold_left (fun (acc : option mem) (i : N) =>
               match acc with Some m => copy_tail m vlen (vo + bpl * i) zs | None => None end) l (Some m))
  = existsb (fun i => vlen <? vo + bpl * i) l.
Proof.
  induction l as [|i rest IH]; intros m; cbn [fold_left existsb]; auto.
  unfold copy_tail at 2. destruct (vo + bpl * i <=? vlen) eqn:E.
  - rewrite IH. replace (vlen <? vo + bpl * i) with false by lia. reflexivity.
  - rewrite fold_reset_none. replace (vlen <? vo + bpl * i) with true by lia. reflexivity.
Qed.

Lemma timing_reset_panics_exact : forall st w, snd (timing_reset st w) = timing_reset_panics st w.
Proof.
  intros. unfold timing_reset, timing_reset_panics. set (wv := t_waves st w).
  destruct (0 <? nvgpr wv) eqn:E0; cbn [andb orb].
  - destruct (simd wv <? t_nsimd st) eqn:E1; cbn [negb orb].
    + pose proof (fold_reset_panics (t_vlen st) (voff wv) (t_bpl st) (repeat 0 (N.to_nat (nvgpr wv * 4))) (nseq 64) (t_vreg st (simd wv))) as P.
      destruct (fold_left _ (nseq 64) (Some (t_vreg st (simd wv)))) as [vm|]; cbn [is_none] in P; rewrite <- P; cbn [orb].
      * destruct (0 <? nsgpr wv); cbn [andb]; [|reflexivity].
        unfold copy_tail. cbn [set_tvreg t_sreg t_slen]. destruct (soff wv <=? t_slen st) eqn:E2; cbn [snd]; lia.
      * reflexivity.
    + reflexivity.
  - destruct (0 <? nsgpr wv); cbn [andb]; [|reflexivity].
    unfold copy_tail. destruct (soff wv <=? t_slen st) eqn:E2; cbn [snd]; lia.
Qed.

Lemma timing_panics_exact : forall st a, is_panic (snd (timing_step st a)) = timing_panics st a.
Proof.
  intros st [w a r cnt lane]. unfold timing_step, timing_panics. cbn [a_w a_api a_reg a_cnt a_lane].
  destruct a; cbn [snd].
  - rewrite <- timing_read_reg_panics. destruct (timing_read_reg st w r cnt lane); reflexivity.
  - rewrite <- timing_write_reg_panics. destruct (timing_write_reg st w r cnt lane data) as [s' []]; reflexivity.
  - unfold timing_read_operand. rewrite <- timing_read_reg_panics. destruct (timing_read_reg st w r cnt lane); reflexivity.
  - unfold timing_write_operand. destruct (num_bytes r cnt <=? 8) eqn:E.
    + replace (8 <? num_bytes r cnt) with false by lia. cbn [orb].
      rewrite <- (lenN_firstnN_le_bytes (num_bytes r cnt) v) at 2 by lia. rewrite <- timing_write_reg_panics.
      destruct (timing_write_reg st w r cnt lane _) as [s' []]; reflexivity.
    + replace (8 <? num_bytes r cnt) with true by lia. reflexivity.
  - rewrite <- timing_reset_panics_exact. destruct (timing_reset st w) as [s' []]; reflexivity.
Qed.

(** a panicking access of the timing store (other than a register release) modifies nothing *)
Lemma timing_panic_state : forall st a, a_api a <> AReset -> is_panic (snd (timing_step st a)) = true ->
  fst (timing_step st a) = st.
Proof.
  intros st [w a r cnt lane] Hr. cbn [a_api] in Hr. unfold timing_step. cbn [a_w a_api a_reg a_cnt a_lane].
  assert (W : forall data, snd (timing_write_reg st w r cnt lane data) = true -> fst (timing_write_reg st w r cnt lane data) = st).
  { intros data. destruct r; unfold timing_write_reg; bash; cbn [fst snd]; intros; try discriminate; reflexivity. }
  destruct a; cbn [fst snd]; auto; try congruence.
  - specialize (W data). destruct (timing_write_reg st w r cnt lane data) as [s' []]; cbn [fst snd] in *; auto; discriminate.
  - unfold timing_write_operand. destruct (num_bytes r cnt <=? 8); auto.
    specialize (W (firstnN (num_bytes r cnt) (le_bytes 8 v))).
    destruct (timing_write_reg st w r cnt lane _) as [s' []]; cbn [fst snd] in *; auto; discriminate.
Qed.

(** * data longer than the operand: the surplus is ignored *)

Lemma skipn_firstn_add : forall (l : list N) n m, skipn n (firstn (n + m) l) = firstn m (skipn n l).
Proof.
  induction l as [|x r IH]; intros n m.
  - now rewrite firstn_nil, !skipn_nil, firstn_nil.
  - destruct n; cbn [plus skipn firstn]; auto.
Qed.

Lemma write_ids_prefix : forall ids c data,
  write_ids c ids (firstn (fold_right (fun c n => (cbytes c + n)%nat) O ids) data) = write_ids c ids data.
Proof.
  induction ids as [|id rest IH]; intros c data; cbn [write_ids fold_right]; auto.
  rewrite firstn_firstn. replace (Nat.min (cbytes id) (cbytes id + _)) with (cbytes id) by lia.
  rewrite skipn_firstn_add. apply IH.
Qed.

Lemma spec_write_prefix : forall c r cnt lane data,
  write_bytes c r cnt lane (firstn (op_bytes r cnt lane) data) = write_bytes c r cnt lane data.
Proof. intros. unfold write_bytes, op_bytes. apply write_ids_prefix. Qed.

Lemma u32_of_prefix : forall n data, (4 <= n)%nat -> (n <= length data)%nat -> u32_of (firstn n data) = u32_of data.
Proof.
  intros. unfold u32_of, lenN. rewrite firstn_length, firstn_firstn.
  replace (Nat.min 4 n) with 4%nat by lia. replace (Nat.min n (length data)) with n by lia.
  replace (4 <=? N.of_nat n) with true by lia. replace (4 <=? N.of_nat (length data)) with true by lia. reflexivity.
Qed.

Lemma u64_of_prefix : forall n data, (8 <= n)%nat -> (n <= length data)%nat -> u64_of (firstn n data) = u64_of data.
Proof.
  intros. unfold u64_of, lenN. rewrite firstn_length, firstn_firstn.
  replace (Nat.min 8 n) with 8%nat by lia. replace (Nat.min n (length data)) with n by lia.
  replace (8 <=? N.of_nat n) with true by lia. replace (8 <=? N.of_nat (length data)) with true by lia. reflexivity.
Qed.

Lemma firstnN_prefix : forall nb n (data : list N), N.to_nat nb = n -> firstnN nb (firstn n data) = firstnN nb data.
Proof. intros. unfold firstnN. rewrite H, firstn_firstn, Nat.min_id. reflexivity. Qed.

Lemma emu_write_overlong : forall s r cnt lane data, wf_shape r cnt = true ->
  (op_bytes r cnt lane <= length data)%nat ->
  emu_write_reg s r cnt lane (firstn (op_bytes r cnt lane) data) = emu_write_reg s r cnt lane data.
Proof.
  intros s r cnt lane data Hs Hl.
  destruct r; cbn [wf_shape] in Hs; try discriminate; unfold emu_write_reg.
  - rewrite op_bytes_S in *. rewrite num_bytes_dw by reflexivity. rewrite firstnN_prefix by lia. reflexivity.
  - rewrite op_bytes_V in *. rewrite num_bytes_dw by reflexivity. rewrite firstnN_prefix by lia. reflexivity.
  - cbn [op_bytes cells_of fold_right cbytes] in *. unfold put_64. now rewrite u64_of_prefix by lia.
  - unfold op_bytes in *. cbn [cells_of] in *. destruct (cnt <=? 1); cbn [fold_right cbytes] in *.
    + unfold put_lo. now rewrite u32_of_prefix by lia.
    + unfold put_64. now rewrite u64_of_prefix by lia.
  - rewrite Hs. cbn [op_bytes cells_of fold_right cbytes] in *. unfold put_hi. now rewrite u32_of_prefix by lia.
  - cbn [op_bytes cells_of fold_right cbytes] in *. unfold put_64. now rewrite u64_of_prefix by lia.
  - unfold op_bytes in *. cbn [cells_of] in *. destruct (cnt =? 2) eqn:E2; destruct (cnt <=? 1) eqn:E1; try lia; cbn [fold_right cbytes] in *.
    + unfold put_64. now rewrite u64_of_prefix by lia.
    + unfold put_lo. now rewrite u32_of_prefix by lia.
  - rewrite Hs. cbn [op_bytes cells_of fold_right cbytes] in *. unfold put_hi. now rewrite u32_of_prefix by lia.
  - cbn [op_bytes cells_of fold_right cbytes] in *. destruct data; cbn in *; [lia|reflexivity].
  - cbn [op_bytes cells_of fold_right cbytes] in *. now rewrite u32_of_prefix by lia.
Qed.

(** the 32-bit halves of vcc/exec: the timing store switches to a 64-bit write when
    it is handed 8 or more bytes, whatever RegCount says *)
Definition is_half (r : reg) (cnt : N) : bool :=
  match r with
  | RVccLo | RExecLo => cnt <=? 1
  | RVccHi | RExecHi => true
  | _ => false
  end.

Lemma tput_prefix4 : forall x h cnt data, cnt <= 1 -> (4 <= length data < 8)%nat ->
  tput x h cnt (firstn 4 data) = tput x h cnt data.
Proof.
  intros. unfold tput. rewrite u32_of_prefix by lia. unfold lenN. rewrite firstn_length.
  replace (2 <=? cnt) with false by lia. replace (8 <=? N.of_nat (Nat.min 4 (length data))) with false by lia.
  replace (8 <=? N.of_nat (length data)) with false by lia. reflexivity.
Qed.

Lemma tput_prefix8 : forall x h cnt data, (8 <= length data)%nat ->
  tput x h cnt (firstn 8 data) = tput x h cnt data.
Proof.
  intros. unfold tput, lenN. rewrite firstn_length. replace (Nat.min 8 (length data)) with 8%nat by lia.
  replace (8 <=? N.of_nat 8) with true by reflexivity. replace (8 <=? N.of_nat (length data)) with true by lia.
  rewrite !orb_true_r. rewrite !u64_padded_eq, firstn_firstn. reflexivity.
Qed.

Lemma timing_write_overlong : forall st w r cnt lane data, wf_shape r cnt = true ->
  (op_bytes r cnt lane <= length data)%nat -> (is_half r cnt = true -> (length data < 8)%nat) ->
  timing_write_reg st w r cnt lane (firstn (op_bytes r cnt lane) data) = timing_write_reg st w r cnt lane data.
Proof.
  intros st w r cnt lane data Hs Hl Hh.
  destruct r; cbn [wf_shape is_half] in *; try discriminate; unfold timing_write_reg.
  - rewrite op_bytes_S in *. rewrite size_is_width. rewrite firstnN_prefix by lia.
    unfold lenN. rewrite firstn_length. replace (Nat.min (4 * N.to_nat (width cnt)) (length data)) with (4 * N.to_nat (width cnt))%nat by lia.
    replace (4 * width cnt <=? N.of_nat (4 * N.to_nat (width cnt))) with true by lia.
    replace (4 * width cnt <=? N.of_nat (length data)) with true by lia. reflexivity.
  - rewrite op_bytes_V in *. rewrite size_is_width. rewrite firstnN_prefix by lia.
    unfold lenN. rewrite firstn_length. replace (Nat.min (4 * N.to_nat (width cnt)) (length data)) with (4 * N.to_nat (width cnt))%nat by lia.
    replace (4 * width cnt <=? N.of_nat (4 * N.to_nat (width cnt))) with true by lia.
    replace (4 * width cnt <=? N.of_nat (length data)) with true by lia. reflexivity.
  - cbn [op_bytes cells_of fold_right cbytes] in *. now rewrite tput_prefix8 by lia.
  - unfold op_bytes in *. cbn [cells_of] in *. destruct (cnt <=? 1) eqn:E; cbn [fold_right cbytes] in *.
    + rewrite tput_prefix4; [reflexivity | lia | split; [lia | apply Hh; first [reflexivity | assumption | lia]]].
    + now rewrite tput_prefix8 by lia.
  - cbn [op_bytes cells_of fold_right cbytes] in *. rewrite tput_prefix4; [reflexivity | lia | split; [lia | apply Hh; first [reflexivity | assumption | lia]]].
  - cbn [op_bytes cells_of fold_right cbytes] in *. now rewrite tput_prefix8 by lia.
  - unfold op_bytes in *. cbn [cells_of] in *. destruct (cnt <=? 1) eqn:E; cbn [fold_right cbytes] in *.
    + rewrite tput_prefix4; [reflexivity | lia | split; [lia | apply Hh; first [reflexivity | assumption | lia]]].
    + now rewrite tput_prefix8 by lia.
  - cbn [op_bytes cells_of fold_right cbytes] in *. rewrite tput_prefix4; [reflexivity | lia | split; [lia | apply Hh; first [reflexivity | assumption | lia]]].
  - cbn [op_bytes cells_of fold_right cbytes] in *. destruct data; cbn in *; [lia|reflexivity].
  - cbn [op_bytes cells_of fold_right cbytes] in *. now rewrite u32_of_prefix by lia.
Qed.

(** accesses whose written data may be longer than the operand *)
Definition wf_access_long (timing : bool) (ns nv : N) (a : api) (r : reg) (cnt lane : N) : Prop :=
  wf_operand ns nv r cnt lane = true /\
  match a with
  | AWrite data => (op_bytes r cnt lane <= length data)%nat /\ bytes_ok data /\
                   (timing = true -> is_half r cnt = true -> (length data < 8)%nat)
  | AWriteU v => (op_bytes r cnt lane <= 8)%nat /\ v < 2 ^ 64
  | AReset => False
  | _ => True
  end.

Definition wf_acc_long (timing : bool) (ns nv : N -> N) (a : acc) : Prop :=
  wf_access_long timing (ns (a_w a)) (nv (a_w a)) (a_api a) (a_reg a) (a_cnt a) (a_lane a).

(** truncate the data of a write to the operand's width *)
Definition norm_acc (a : acc) : acc :=
  match a_api a with
  | AWrite data => mkAcc (a_w a) (AWrite (firstn (op_bytes (a_reg a) (a_cnt a) (a_lane a)) data)) (a_reg a) (a_cnt a) (a_lane a)
  | _ => a
  end.

Lemma wf_operand_shape : forall ns nv r cnt lane, wf_operand ns nv r cnt lane = true -> wf_shape r cnt = true.
Proof. intros. unfold wf_operand in H. apply andb_true_iff in H. tauto. Qed.

Lemma norm_wf : forall t ns nv a, wf_acc_long t ns nv a -> wf_acc ns nv (norm_acc a).
Proof.
  intros t ns nv [w a r cnt lane] [Hwf Ha]. unfold wf_acc, norm_acc. cbn [a_w a_api a_reg a_cnt a_lane] in *.
  destruct a; cbn [a_w a_api a_reg a_cnt a_lane]; split; auto.
  - destruct Ha as [Hl [Hok _]]. split. rewrite firstn_length. lia. now apply bytes_ok_firstn.
Qed.

Lemma spec_step_norm : forall cs a, spec_step cs (norm_acc a) = spec_step cs a.
Proof.
  intros cs [w a r cnt lane]. unfold norm_acc. cbn [a_api]. destruct a; auto.
  unfold spec_step, spec_access. cbn [a_w a_api a_reg a_cnt a_lane]. now rewrite spec_write_prefix.
Qed.

Lemma emu_step_norm : forall ws ns nv a, wf_acc_long false ns nv a -> emu_step ws (norm_acc a) = emu_step ws a.
Proof.
  intros ws ns nv [w a r cnt lane] [Hwf Ha]. unfold norm_acc. cbn [a_w a_api a_reg a_cnt a_lane] in *. destruct a; auto.
  unfold emu_step, emu_access. cbn [a_w a_api a_reg a_cnt a_lane].
  rewrite emu_write_overlong; auto. eapply wf_operand_shape; eauto. tauto.
Qed.

Lemma timing_step_norm : forall st ns nv a, wf_acc_long true ns nv a -> timing_step st (norm_acc a) = timing_step st a.
Proof.
  intros st ns nv [w a r cnt lane] [Hwf Ha]. unfold norm_acc. cbn [a_w a_api a_reg a_cnt a_lane] in *. destruct a; auto.
  unfold timing_step. cbn [a_w a_api a_reg a_cnt a_lane].
  rewrite timing_write_overlong; auto. eapply wf_operand_shape; eauto. tauto. destruct Ha as [_ [_ H]]. auto.
Qed.

Lemma spec_run_norm : forall h cs, spec_run cs (map norm_acc h) = spec_run cs h.
Proof. induction h; intros; cbn [map spec_run]; auto. rewrite spec_step_norm. destruct (spec_step cs a). now rewrite IHh. Qed.

Lemma emu_run_norm : forall h ws ns nv, Forall (wf_acc_long false ns nv) h -> emu_run ws (map norm_acc h) = emu_run ws h.
Proof.
  induction h; intros ws ns nv H; cbn [map emu_run]; auto. inversion H; subst.
  rewrite (emu_step_norm ws ns nv) by auto. destruct (emu_step ws a). now rewrite (IHh _ ns nv).
Qed.

Lemma timing_run_norm : forall h st ns nv, Forall (wf_acc_long true ns nv) h -> timing_run st (map norm_acc h) = timing_run st h.
Proof.
  induction h; intros st ns nv H; cbn [map timing_run]; auto. inversion H; subst.
  rewrite (timing_step_norm st ns nv) by auto. destruct (timing_step st a). now rewrite (IHh _ ns nv).
Qed.

Lemma emu_run_ok_long : forall h ws cs, emu_world_R ws cs ->
  Forall (wf_acc_long false (fun _ => 102) (fun _ => 256)) h ->
  snd (emu_run ws h) = snd (spec_run cs h) /\ emu_world_R (fst (emu_run ws h)) (fst (spec_run cs h)).
Proof.
  intros h ws cs R H. rewrite <- (emu_run_norm h ws _ _ H), <- (spec_run_norm h cs).
  apply emu_run_ok; auto. apply Forall_forall. intros x Hx. apply in_map_iff in Hx. destruct Hx as [a [<- Ha]].
  rewrite Forall_forall in H. eapply norm_wf; eauto.
Qed.

Lemma norm_acc_w : forall a, a_w (norm_acc a) = a_w a.
Proof. intros [w a r cnt lane]. unfold norm_acc. cbn. destruct a; reflexivity. Qed.

Lemma timing_run_ok_long : forall h st nw cs, timing_R st nw cs ->
  Forall (fun a => a_w a < nw /\ wf_acc_long true (fun w => nsgpr (t_waves st w)) (fun w => nvgpr (t_waves st w)) a) h ->
  snd (timing_run st h) = snd (spec_run cs h) /\ timing_R (fst (timing_run st h)) nw (fst (spec_run cs h)).
Proof.
  intros h st nw cs R H.
  assert (H' : Forall (wf_acc_long true (fun w => nsgpr (t_waves st w)) (fun w => nvgpr (t_waves st w))) h)
    by (eapply Forall_impl; [|exact H]; cbv beta; tauto).
  rewrite <- (timing_run_norm h st _ _ H'), <- (spec_run_norm h cs).
  apply timing_run_ok; auto. apply Forall_forall. intros x Hx. apply in_map_iff in Hx. destruct Hx as [a [<- Ha]].
  rewrite Forall_forall in H. destruct (H a Ha) as [Hw Hl]. split. now rewrite norm_acc_w. eapply norm_wf; eauto.
Qed.

(** * the accessor is a pure view of the register files (no hidden state) *)

Lemma timing_read_is_view_s : forall st w i cnt lane,
  i * 4 + soff (t_waves st w) + 4 * width cnt <= t_slen st ->
  timing_read_reg st w (RS i) cnt lane = Some (mem_read (t_sreg st) (i * 4 + soff (t_waves st w)) (4 * width cnt)).
Proof.
  intros. unfold timing_read_reg. rewrite size_is_width, dlen_is_width by reflexivity.
  replace (i * 4 + soff (t_waves st w) + 4 * width cnt <=? t_slen st) with true by lia.
  unfold firstnN. rewrite firstn_all2 by (rewrite mem_read_length; lia). reflexivity.
Qed.

Lemma timing_read_is_view_v : forall st w i cnt lane,
  simd (t_waves st w) < t_nsimd st ->
  i * 4 + lane * t_bpl st + voff (t_waves st w) + 4 * width cnt <= t_vlen st ->
  timing_read_reg st w (RV i) cnt lane =
  Some (mem_read (t_vreg st (simd (t_waves st w))) (i * 4 + lane * t_bpl st + voff (t_waves st w)) (4 * width cnt)).
Proof.
  intros. unfold timing_read_reg. rewrite size_is_width, dlen_is_width by reflexivity.
  replace (simd (t_waves st w) <? t_nsimd st) with true by lia.
  replace (i * 4 + lane * t_bpl st + voff (t_waves st w) + 4 * width cnt <=? t_vlen st) with true by lia. cbn [andb].
  unfold firstnN. rewrite firstn_all2 by (rewrite mem_read_length; lia). reflexivity.
Qed.

(** whatever wrote the files — the accessor, a load reply, the dispatcher, a
    release —, a read returns what the wavefront's own bytes and special
    registers hold now: two states that agree there give the same answer *)
Lemma timing_read_only_storage : forall st1 st2 nw w r cnt lane,
  layout_ok st1 nw -> w < nw ->
  t_waves st2 w = t_waves st1 w -> t_slen st2 = t_slen st1 -> t_vlen st2 = t_vlen st1 ->
  t_nsimd st2 = t_nsimd st1 -> t_bpl st2 = t_bpl st1 -> t_sp st2 w = t_sp st1 w ->
  (forall a, own_s (t_waves st1 w) a -> t_sreg st2 a = t_sreg st1 a) ->
  (forall a, own_v (t_waves st1 w) (simd (t_waves st1 w)) a ->
             t_vreg st2 (simd (t_waves st1 w)) a = t_vreg st1 (simd (t_waves st1 w)) a) ->
  wf_operand (nsgpr (t_waves st1 w)) (nvgpr (t_waves st1 w)) r cnt lane = true ->
  timing_read_reg st2 w r cnt lane = timing_read_reg st1 w r cnt lane.
Proof.
  intros st1 st2 nw w r cnt lane L Hw Wv Sl Vl Ns Bp Sp Hs Hv Hwf.
  destruct (L_in _ _ L w Hw) as [Ls [Lsimd Lv]]. pose proof (L_bpl _ _ L) as Lb. pose proof (L_vlen _ _ L) as Lvl.
  unfold wf_operand in Hwf. apply andb_true_iff in Hwf. destruct Hwf as [Hsh Hi]. pose proof (width_pos cnt).
  destruct r; try (unfold timing_read_reg; rewrite Sp; reflexivity).
  - rewrite !timing_read_is_view_s by (rewrite ?Wv, ?Sl; lia). rewrite Wv. f_equal.
    apply mem_read_ext. intros a Ha. apply Hs. unfold own_s. lia.
  - rewrite !timing_read_is_view_v by (rewrite ?Wv, ?Vl, ?Ns, ?Bp, ?Lb; lia). rewrite Wv, Bp, Lb. f_equal.
    apply mem_read_ext. intros a Ha. apply Hv. split; auto. exists lane. lia.
  - reflexivity.
Qed.
