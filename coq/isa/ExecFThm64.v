(** C03 — theorem for the binary64 rows and the conversions that read or write
    a register pair (float tables, 64-bit glue). *)
From Coq Require Import ZArith List Bool Lia ZifyBool.
Import ListNotations.
From VIsa Require Import IsaState IsaFloat ExecImpl ExecSpec ExecImplV ExecSpecV ExecImplF ExecSpecF ExecProofs ExecRows ExecVProofs ExecVRowsA ExecVProofs64 ExecFRows ExecFRows64 ExecFThm.
Open Scope Z_scope.

(** v_cvt_f64_i32, v_cvt_f32_f64, v_cvt_f64_f32, v_add_f64, v_mul_f64 (both ALUs) *)
Definition frows64 : list (format * Z) :=
  [(F_VOP1, 4); (F_VOP1, 15); (F_VOP1, 16); (F_VOP3A, 640); (F_VOP3A, 641)].
Definition fmodes_of (f : format) (op : Z) : omode * omode * omode :=
  match f, op with
  | F_VOP1, 15 => (M64, M32, M32)
  | F_VOP1, _ => (M32, M32, M32)
  | _, _ => (M64, M64, M32)
  end.

Lemma row_agree_f64 : forall a f op m0 m1 m2, row_ok_f64 m0 m1 m2 a f op ->
  (exists d, vdesc_f a f op = Some d) -> (exists r, vrow_f a f op = Some r) ->
  ~ (f = F_VOP1 /\ op = 2) ->
  forall st i, i_fmt i = f -> i_op i = op -> wf st -> 0 <= i_lit i < W32 ->
    (forall d r, vdesc_f a f op = Some d -> vrow_f a f op = Some r -> vadm64 m0 m1 m2 d r i) -> agree_vf a st i.
Proof.
  intros a f op m0 m1 m2 Hok (d & Hd) (r & Hr) Hn st i Hf Ho Hwf Hl Hadm. subst f op.
  unfold agree_vf, exec_vector_f, exec_spec_vf. rewrite Hd, Hr.
  apply (vglue64_core st i d r m0 m1 m2); auto.
Qed.
Ltac row_case_f64 x L := eapply (row_agree_f64 _ _ _ _ _ _ L); eauto;
  [destruct x; eexists; reflexivity | destruct x; eexists; reflexivity
  | intros [E1 E2]; try discriminate E1; try discriminate E2].

Theorem float_agree64 : forall a st i, In (i_fmt i, i_op i) frows64 -> wf st -> 0 <= i_lit i < W32 ->
  (forall d r, vdesc_f a (i_fmt i) (i_op i) = Some d -> vrow_f a (i_fmt i) (i_op i) = Some r ->
     let '(m0, m1, m2) := fmodes_of (i_fmt i) (i_op i) in vadm64 m0 m1 m2 d r i) ->
  agree_vf a st i.
Proof.
  intros a st i Hin Hwf Hl Hadm.
  remember (i_fmt i) as f eqn:Ef. remember (i_op i) as op eqn:Eo. symmetry in Ef, Eo.
  unfold frows64 in Hin; cbn [In] in Hin.
  repeat (destruct Hin as [Hin|Hin]; [injection Hin as <- <-|]); try contradiction; cbn [fmodes_of] in Hadm.
  - row_case_f64 a (r_x_vop1_4 a).
  - row_case_f64 a (r_x_vop1_15 a).
  - row_case_f64 a (r_x_vop1_16 a).
  - row_case_f64 a (r_x_vop3a_640 a).
  - row_case_f64 a (r_x_vop3a_641 a).
Qed.

(** ** CDNA3 v_cvt_f64_u32: only the low dword of the binary64 result is written
    (amd/insts/decodetable.go gives the opcode DSTWidth 32, so WriteOperand
    stores 4 bytes).  Witness: lane 0 active, v0 = 1065353217, destination
    v3:v4 with v4 = 0 before: the manual's result has a non-zero high dword. *)
Definition cvt_f64_u32_witness : inst := mkInst F_VOP1 22 256 0 0 259 0 0.
Lemma c_cvt_f64_u32 : i_fmt cvt_f64_u32_witness = F_VOP1 /\ i_op cvt_f64_u32_witness = 22 /\ wf (fst0 0) /\
  ~ agree_vf CDNA3 (fst0 0) cvt_f64_u32_witness.
Proof.
  split; [reflexivity|split; [reflexivity|split; [apply wf_fst0; unfold W32; lia|]]].
  apply (vdiffers_not_agree _ _ _ 0 4). vm_compute. reflexivity.
Qed.
(** what does hold: the dword that is written is the low dword of the manual's result *)
Lemma c_cvt_f64_u32_low : forall d r, vdesc_f CDNA3 F_VOP1 22 = Some d -> vrow_f CDNA3 F_VOP1 22 = Some r ->
  forall a b c cin, exists v, fst (vd_f d a b c cin) = Some v /\ u32 v = r_val r (u32 a) b c cin mod W32.
Proof.
  intros d0 r0 Hd0 Hr0 a b c cin. revert d0 r0 Hd0 Hr0. open_rowf. cbn [vd_f r_val fst val]. eexists. split; [reflexivity|]. reflexivity.
Qed.
