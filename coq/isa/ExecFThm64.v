(** C03 — theorem for the binary64 rows and the conversions that read or write
    a register pair (float tables, 64-bit glue). *)
From Coq Require Import ZArith List Bool Lia ZifyBool.
Import ListNotations.
From VIsa Require Import IsaState IsaFloat ExecImpl ExecSpec ExecImplV ExecSpecV ExecImplF ExecSpecF ExecProofs ExecRows ExecVProofs ExecVRowsA ExecVProofs64 ExecFRows ExecFRows64 ExecFThm.
Open Scope Z_scope.

(** v_cvt_f64_i32, v_cvt_f32_f64, v_cvt_f64_f32, v_add_f64, v_mul_f64 (both ALUs),
    v_cvt_f64_u32 (implemented by the CDNA3 ALU only) *)
Definition frows64 (a : arch) : list (format * Z) :=
  match a with
  | GCN3 => [(F_VOP1, 4); (F_VOP1, 15); (F_VOP1, 16); (F_VOP3A, 640); (F_VOP3A, 641)]
  | CDNA3 => [(F_VOP1, 4); (F_VOP1, 15); (F_VOP1, 16); (F_VOP3A, 640); (F_VOP3A, 641); (F_VOP1, 22)]
  end.
Definition fmodes_of (f : format) (op : Z) : omode * omode * omode :=
  match f, op with
  | F_VOP1, 15 => (M64, M32, M32)
  | F_VOP1, _ => (M32, M32, M32)
  | _, _ => (M64, M64, M32)
  end.

Lemma row_agree_f64 : forall a f op m0 m1 m2, row_ok_f64 m0 m1 m2 a f op ->
  (exists d, vdesc_f a f op = Some d) -> (exists r, vrow_f a f op = Some r) ->
  ~ (f = F_VOP1 /\ op = 2) ->
  forall st i, i_fmt i = f -> i_op i = op -> wf st -> 0 <= i_lit i < W32 ->
    (forall d r, vdesc_f a f op = Some d -> vrow_f a f op = Some r -> vadm64 m0 m1 m2 d r i) -> agree_vf a st i.
Proof.
  intros a f op m0 m1 m2 Hok (d & Hd) (r & Hr) Hn st i Hf Ho Hwf Hl Hadm. subst f op.
  unfold agree_vf, exec_vector_f, exec_spec_vf. rewrite Hd, Hr.
  apply (vglue64_core st i d r m0 m1 m2); auto.
Qed.
Ltac row_case_f64 x L := eapply (row_agree_f64 _ _ _ _ _ _ L); eauto;
  [destruct x; eexists; reflexivity | destruct x; eexists; reflexivity
  | intros [E1 E2]; try discriminate E1; try discriminate E2].

Theorem float_agree64 : forall a st i, In (i_fmt i, i_op i) (frows64 a) -> wf st -> 0 <= i_lit i < W32 ->
  (forall d r, vdesc_f a (i_fmt i) (i_op i) = Some d -> vrow_f a (i_fmt i) (i_op i) = Some r ->
     let '(m0, m1, m2) := fmodes_of (i_fmt i) (i_op i) in vadm64 m0 m1 m2 d r i) ->
  agree_vf a st i.
Proof.
  intros a st i Hin Hwf Hl Hadm.
  remember (i_fmt i) as f eqn:Ef. remember (i_op i) as op eqn:Eo. symmetry in Ef, Eo.
  destruct a; unfold frows64 in Hin; cbn [In] in Hin;
    repeat (destruct Hin as [Hin|Hin]; [injection Hin as <- <-|]); try contradiction; cbn [fmodes_of] in Hadm.
  - row_case_f64 GCN3 (r_x_vop1_4 GCN3).
  - row_case_f64 GCN3 (r_x_vop1_15 GCN3).
  - row_case_f64 GCN3 (r_x_vop1_16 GCN3).
  - row_case_f64 GCN3 (r_x_vop3a_640 GCN3).
  - row_case_f64 GCN3 (r_x_vop3a_641 GCN3).
  - row_case_f64 CDNA3 (r_x_vop1_4 CDNA3).
  - row_case_f64 CDNA3 (r_x_vop1_15 CDNA3).
  - row_case_f64 CDNA3 (r_x_vop1_16 CDNA3).
  - row_case_f64 CDNA3 (r_x_vop3a_640 CDNA3).
  - row_case_f64 CDNA3 (r_x_vop3a_641 CDNA3).
  - eapply (row_agree_f64 _ _ _ _ _ _ r_c_vop1_22); eauto;
      [eexists; reflexivity | eexists; reflexivity | intros [E1 E2]; discriminate E2].
Qed.

(** ** CDNA3 v_cvt_f64_u32 before the repair: the decode table declared a 32-bit
    destination, WriteOperand stored only the low dword (descriptor with
    destination RegCount 0).  Witness kept: lane 0 active, v0 = 1065353217,
    destination v3:v4 with v4 = 0 before - the manual's high dword is non-zero. *)
Definition cvt_f64_u32_witness : inst := mkInst F_VOP1 22 256 0 0 259 0 0.
Definition vd_cvt_f64_u32_before_fix : vdesc :=
  mkV 1 0 0 0 0 CNone MNone (fun a _ _ _ => val (f64_of_Z (u32 a))).
Lemma c_cvt_f64_u32_before_fix :
  match run_d vd_cvt_f64_u32_before_fix (fst0 0) cvt_f64_u32_witness, exec_spec_vf CDNA3 (fst0 0) cvt_f64_u32_witness,
        exec_vector_f CDNA3 (fst0 0) cvt_f64_u32_witness with
  | Some s1, Some s2, Some s3 => vgpr s1 0 4 = 0 /\ vgpr s2 0 4 = 1104134144 /\ vgpr s3 0 4 = 1104134144
  | _, _, _ => False
  end.
Proof. vm_compute. repeat split; reflexivity. Qed.
