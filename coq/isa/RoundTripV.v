(** C04 — decode∘encode for VOPC, VOP1, VOP2 (incl. literal, madmk/madak, SDWA) and SMEM. *)
From Coq Require Import NArith ZArith List String Bool Lia.
From Coq Require Import ZifyN ZifyBool.
From RecordUpdate Require Import RecordSet.
From VIsa Require Import InstTypes Decode DecodeProofs Encode EncodeProofs RoundTrip.
From VGen Require Import FormatTable DecodeTable RegTable.
Import ListNotations.
Open Scope N_scope.

Lemma new_vreg_spec v c : v <= 255 -> new_vreg v v c = spec_vgpr v c.
Proof.
  intros H. unfold new_vreg, new_reg, spec_vgpr, regs_lookup.
  destruct (N.ltb_spec (R_V0 + v) reg_type_count); [reflexivity|]. unfold R_V0, reg_type_count in *. lia.
Qed.

Lemma new_sreg_spec v c : v <= 101 -> new_sreg v v c = mkOperand v OTReg (Some (R_S0 + v)) c 0 0%Z 0.
Proof.
  intros H. unfold new_sreg, new_reg, regs_lookup.
  destruct (N.ltb_spec (R_S0 + v) reg_type_count); [reflexivity|]. unfold R_S0, reg_type_count in *. lia.
Qed.

Lemma with_count_spec2 p c c' : with_count (spec_operand p c) c' = spec_operand p c'.
Proof. destruct p; reflexivity. Qed.

Lemma code_valid p n : opnd_wf p = true -> get_operand n = None -> code_of p <> n.
Proof. intros H Hn E. rewrite <- E, (get_operand_spec p H) in Hn. discriminate. Qed.

Theorem decode_encode_vopc c r s0 vsrc1 tail :
  wf (DVopc r s0 vsrc1) = true ->
  decode c (encode (DVopc r s0 vsrc1) ++ tail) = Ok (spec_inst c (DVopc r s0 vsrc1)) (dsize (DVopc r s0 vsrc1)).
Proof.
  cbn [wf]. unfold src9. rewrite !andb_true_iff. intros [[Hr Ha] Hv]. apply N.leb_le in Hv.
  pose proof (row_opcode_bound VOPC r 8 Hr eq_refl) as Hop.
  pose proof (opnd_code_bound s0 Ha) as Hab.
  set (fs := [(code_of s0, 9); (vsrc1, 8); (r_opcode r, 8); (62, 7)]).
  assert (Hok : fields_ok fs) by fok.
  apply decode_encode_wrap; unfold dsize; cbn [words fst snd]; fold fs.
  - exact (pack_bound fs Hok).
  - destruct (opnd_is_lit s0); intros w E; inversion E. apply lit_bound; auto.
  - intros len w1 Hlen Hw1.
    rewrite (core_of_row c len (pack fs) w1 r VOPC 25 62 Hr eq_refl).
    + cbn [dispatch]. unfold decode_vopc. cbv zeta. xfield Hok.
      rewrite (getop_code s0 Ha). cbn [bind]. rewrite literal_pre0.
      2: { intros EL. rewrite EL in *. split; [exact Hlen | apply Hw1; reflexivity]. }
      cbn [bind]. cbv beta iota. rewrite new_vreg_spec by exact Hv.
      change (i_row (inst0 (fmt_format VOPC) r)) with r.
      rewrite cnt64_spec. unfold cnt64 at 1.
      unfold spec_inst, base_inst, dsize. cbn [d_row words snd]. rowfmt Hr.
      unfold w64. destruct (r_src1w r =? 64), (opnd_is_lit s0); reflexivity.
    + rewrite (drop_div fs Hok 25 _ eq_refl). reflexivity.
    + opc VOPC 17 24 Hok.
    + opc VOPC 17 24 Hok.
    + change (f_size (fmt_format VOPC)) with 4. destruct (opnd_is_lit s0); flia.
    + destruct (opnd_is_lit s0); flia.
  - unfold spec_inst, base_inst, dsize. cbn [d_row words snd]. reflexivity.
Qed.

Theorem decode_encode_vop1 c r vdst s0 tail :
  wf (DVop1 r vdst s0) = true ->
  decode c (encode (DVop1 r vdst s0) ++ tail) = Ok (spec_inst c (DVop1 r vdst s0)) (dsize (DVop1 r vdst s0)).
Proof.
  cbn [wf]. unfold src9. rewrite !andb_true_iff. intros [[Hr Ha] Hv].
  pose proof (row_opcode_bound VOP1 r 8 Hr eq_refl) as Hop.
  pose proof (opnd_code_bound s0 Ha) as Hab.
  assert (Hvb : vdst <= 255) by (destruct (r_opcode r =? 2); flia).
  set (fs := [(code_of s0, 9); (r_opcode r, 8); (vdst, 8); (63, 7)]).
  assert (Hok : fields_ok fs) by fok.
  apply decode_encode_wrap; unfold dsize; cbn [words fst snd]; fold fs.
  - exact (pack_bound fs Hok).
  - destruct (opnd_is_lit s0); intros w E; inversion E. apply lit_bound; auto.
  - intros len w1 Hlen Hw1.
    rewrite (core_of_row c len (pack fs) w1 r VOP1 25 63 Hr eq_refl).
    + cbn [dispatch]. unfold decode_vop1. xfield Hok.
      change (i_row (inst0 (fmt_format VOP1) r)) with r. cbv zeta.
      rewrite (getop_code s0 Ha). cbn [bind]. rewrite literal_pre0.
      2: { intros EL. rewrite EL in *. split; [exact Hlen | apply Hw1; reflexivity]. }
      cbn [bind]. cbv beta iota. rewrite cnt64_spec.
      assert (Hd : (if r_opcode r =? 2 then getop vdst else getop (vdst + 256))
                   = ROk (if r_opcode r =? 2 then spec_operand (PS vdst) 0 else spec_operand (PV vdst) 0)).
      { destruct (r_opcode r =? 2).
        - apply (getop_code (PS vdst)). exact Hv.
        - rewrite N.add_comm. apply (getop_code (PV vdst)). exact Hv. }
      rewrite Hd. cbn [bind].
      unfold spec_inst, base_inst, dsize. cbn [d_row words snd]. rowfmt Hr.
      destruct (N.eqb_spec (r_opcode r) 2); rewrite cnt64_spec;
      destruct (N.eqb_spec (r_opcode r) 4), (N.eqb_spec (r_opcode r) 15), (N.eqb_spec (r_opcode r) 16);
        try (exfalso; flia); cbn [orb]; cbv iota;
        rewrite ?with_count_spec2; destruct (opnd_is_lit s0); reflexivity.
    + rewrite (drop_div fs Hok 25 _ eq_refl). reflexivity.
    + opc VOP1 9 16 Hok.
    + opc VOP1 9 16 Hok.
    + change (f_size (fmt_format VOP1)) with 4. destruct (opnd_is_lit s0); flia.
    + destruct (opnd_is_lit s0); flia.
  - unfold spec_inst, base_inst, dsize. cbn [d_row words snd]. reflexivity.
Qed.

Lemma nz_b2n b : nz (b2n b) = b.
Proof. destruct b; reflexivity. Qed.

Ltac xsub Hok :=
  repeat match goal with
  | |- context[extract_bits (pack ?fs) ?lo ?hi] =>
      rewrite (extract_field_sub fs lo hi _ _ _ Hok eq_refl eq_refl)
  end.

(** evaluate closed arithmetic left behind by sub-field extraction *)
Ltac closed_mods :=
  repeat match goal with
  | |- context[?a mod 2 ^ ?e] =>
      let v := eval vm_compute in (a mod 2 ^ e) in
      lazymatch v with
      | N0 => change (a mod 2 ^ e) with v
      | Npos _ => change (a mod 2 ^ e) with v
      end
  end.

Theorem decode_encode_vop2 c r vdst s0 vsrc1 k tail :
  wf (DVop2 r vdst s0 vsrc1 k) = true ->
  decode c (encode (DVop2 r vdst s0 vsrc1 k) ++ tail)
  = Ok (spec_inst c (DVop2 r vdst s0 vsrc1 k)) (dsize (DVop2 r vdst s0 vsrc1 k)).
Proof.
  cbn [wf]. unfold src9. rewrite !andb_true_iff. intros [[[[[Hr Ha] Hvd] Hv1] Hk] Hnl].
  apply N.leb_le in Hvd, Hv1. apply N.ltb_lt in Hk. apply negb_true_iff in Hnl.
  pose proof (row_opcode_bound VOP2 r 6 Hr eq_refl) as Hop.
  pose proof (opnd_code_bound s0 Ha) as Hab.
  set (fs := [(code_of s0, 9); (vsrc1, 8); (vdst, 8); (r_opcode r, 6); (0, 1)]).
  assert (Hok : fields_ok fs) by fok.
  apply decode_encode_wrap; unfold dsize; cbn [words fst snd]; fold fs.
  - exact (pack_bound fs Hok).
  - destruct (opnd_is_lit s0), (is_madk (r_opcode r)); intros w E; inversion E; subst; auto; apply lit_bound; auto.
  - intros len w1 Hlen Hw1.
    rewrite (core_of_row c len (pack fs) w1 r VOP2 25 (r_opcode r) Hr eq_refl).
    + cbn [dispatch]. unfold decode_vop2. cbv zeta. xfield Hok.
      change (i_row (inst0 (fmt_format VOP2) r)) with r.
      destruct (N.eqb_spec (code_of s0) 249) as [E249|_].
      { exfalso. exact (code_valid s0 249 Ha eq_refl E249). }
      rewrite (getop_code s0 Ha). cbn [bind]. cbv beta iota. rewrite literal_pre0.
      2: { intros EL. rewrite EL in *. split; [exact Hlen | apply Hw1; reflexivity]. }
      cbn [bind andb]. cbv beta iota. rewrite !new_vreg_spec by assumption.
      unfold spec_inst, base_inst, dsize. cbn [d_row words snd]. rowfmt Hr.
      destruct (is_madk (r_opcode r)) eqn:Em.
      * rewrite andb_true_r in Hnl. rewrite Hnl in *.
        destruct (N.ltb_spec len 8); [flia|]. rewrite (Hw1 k eq_refl). reflexivity.
      * destruct (opnd_is_lit s0); reflexivity.
    + rewrite (drop_div fs Hok 25 _ eq_refl). cbn [pack]. pow2. flia.
    + opc VOP2 25 30 Hok.
    + opc VOP2 25 30 Hok.
    + change (f_size (fmt_format VOP2)) with 4. destruct (opnd_is_lit s0), (is_madk (r_opcode r)); flia.
    + destruct (opnd_is_lit s0), (is_madk (r_opcode r)); flia.
  - unfold spec_inst, base_inst, dsize. cbn [d_row words snd]. destruct (is_madk (r_opcode r)); reflexivity.
Qed.

Lemma sdwa_sel_mask k : k <= 6 -> sdwa_sel k = sel_mask k.
Proof.
  intros H. assert (k = 0 \/ k = 1 \/ k = 2 \/ k = 3 \/ k = 4 \/ k = 5 \/ k = 6) as E by flia.
  destruct E as [->|[->|[->|[->|[->|[->| ->]]]]]]; reflexivity.
Qed.

Lemma sdwa_unused_id k : k <= 2 -> sdwa_unused k = k.
Proof.
  intros H. assert (k = 0 \/ k = 1 \/ k = 2) as E by flia. destruct E as [->|[->| ->]]; reflexivity.
Qed.

Theorem decode_encode_vop2_sdwa c r vdst vsrc0 vsrc1 dst_sel dst_unused src0_sel src1_sel s1 tail :
  let d := DVop2Sdwa r vdst vsrc0 vsrc1 dst_sel dst_unused src0_sel src1_sel false s1 in
  wf d = true -> decode c (encode d ++ tail) = Ok (spec_inst c d) (dsize d).
Proof.
  intros d. subst d. cbn [wf]. rewrite !andb_true_iff.
  intros [[[[[[[[[[Hr Hm] Hvd] Hv0] Hv1] Hds] Hdu] Hs0] Hs1] _] Hsg].
  apply N.leb_le in Hvd, Hv0, Hv1, Hds, Hdu, Hs0, Hs1. apply negb_true_iff in Hm.
  pose proof (row_opcode_bound VOP2 r 6 Hr eq_refl) as Hop.
  set (fs := [(249, 9); (vsrc1, 8); (vdst, 8); (r_opcode r, 6); (0, 1)]).
  set (gs := [(vsrc0, 8); (dst_sel, 3); (dst_unused, 2); (0, 3); (src0_sel, 3); (0, 4);
              (b2n false, 1); (src1_sel, 3); (0, 4); (b2n s1, 1)]).
  assert (Hok : fields_ok fs) by fok.
  assert (Hgk : fields_ok gs) by (unfold gs; destruct s1; fok).
  apply decode_encode_wrap; unfold dsize; cbn [words fst snd]; fold fs; fold gs.
  - exact (pack_bound fs Hok).
  - intros w E; inversion E. exact (pack_bound gs Hgk).
  - intros len w1 Hlen Hw1. rewrite (Hw1 _ eq_refl). clear Hw1.
    rewrite (core_of_row c len (pack fs) (pack gs) r VOP2 25 (r_opcode r) Hr eq_refl).
    + cbn [dispatch]. unfold decode_vop2. cbv zeta. xfield Hok.
      change (i_row (inst0 (fmt_format VOP2) r)) with r.
      change (249 =? 249) with true. cbv iota.
      destruct (N.ltb_spec len 8); [flia|].
      xfield Hgk. xsub Hgk. closed_mods.
      change (nz 0) with false. cbn [orb]. cbv iota. cbn [bind]. cbv beta iota.
      rewrite !nz_b2n.
      rewrite (new_vreg_spec vsrc0) by assumption.
      unfold literal. cbn [is_lit spec_vgpr with_count o_type]. cbv iota. cbn [bind]. cbv beta iota.
      rewrite Hm. cbn [andb]. rewrite !new_vreg_spec by assumption.
      rewrite !sdwa_sel_mask, sdwa_unused_id by assumption.
      unfold spec_inst, base_inst, dsize. cbn [d_row words snd]. rowfmt Hr.
      destruct s1.
      * cbn [negb orb] in Hsg. apply N.leb_le in Hsg. rewrite new_sreg_spec by assumption. reflexivity.
      * reflexivity.
    + rewrite (drop_div fs Hok 25 _ eq_refl). cbn [pack]. pow2. flia.
    + opc VOP2 25 30 Hok.
    + opc VOP2 25 30 Hok.
    + change (f_size (fmt_format VOP2)) with 4. flia.
    + flia.
  - unfold spec_inst, base_inst, dsize. cbn [d_row words snd]. reflexivity.
Qed.

Theorem decode_encode_smem c r data sbase glc imm offset tail :
  let d := DSmem r data sbase glc imm offset in
  wf d = true -> decode c (encode d ++ tail) = Ok (spec_inst c d) (dsize d).
Proof.
  intros d. subst d. cbn [wf]. unfold sdst7. rewrite !andb_true_iff.
  intros [[[[Hr [Hd1 Hd2]] Hsb] Hof] Him]. apply N.leb_le in Hsb. apply N.ltb_lt in Hof.
  pose proof (row_opcode_bound SMEM r 8 Hr eq_refl) as Hop.
  pose proof (code_bound_sdst data Hd1 Hd2) as Hdb.
  set (fs := [(sbase, 6); (code_of data, 7); (0, 3); (b2n glc, 1); (b2n imm, 1); (r_opcode r, 8); (48, 6)]).
  set (gs := [(offset, 20); (0, 12)]).
  assert (Hok : fields_ok fs) by (unfold fs; destruct glc, imm; fok).
  assert (Hgk : fields_ok gs) by fok.
  apply decode_encode_wrap; unfold dsize; cbn [words fst snd]; fold fs; fold gs.
  - exact (pack_bound fs Hok).
  - intros w E; inversion E. exact (pack_bound gs Hgk).
  - intros len w1 Hlen Hw1. rewrite (Hw1 _ eq_refl). clear Hw1.
    rewrite (core_of_row c len (pack fs) (pack gs) r SMEM 26 48 Hr eq_refl).
    + cbn [dispatch]. unfold decode_smem, read_hi.
      destruct (N.ltb_spec len 8); [flia|]. cbn [bind]. xfield Hok. xfield Hgk.
      change (i_row (inst0 (fmt_format SMEM) r)) with r.
      rewrite (getop_code data Hd1). cbn [bind]. rewrite literal_pre0.
      2: { rewrite (sdst_nolit data Hd2). discriminate. }
      cbn [bind]. cbv beta iota. rewrite (sdst_nolit data Hd2). rewrite !nz_b2n.
      rewrite N.shiftl_mul_pow2, N.pow_1_r, (N.mul_comm sbase 2).
      rewrite (new_sreg_spec (2 * sbase)) by flia.
      unfold spec_inst, base_inst, dsize. cbn [d_row words snd]. rowfmt Hr.
      destruct (smem_cnt (r_opcode r)); rewrite ?with_count_spec2; destruct imm.
      all: try reflexivity.
      all: cbn [orb] in Him; apply N.leb_le in Him; rewrite new_sreg_spec by assumption; reflexivity.
    + rewrite (drop_div fs Hok 26 _ eq_refl). reflexivity.
    + opc SMEM 18 25 Hok.
    + opc SMEM 18 25 Hok.
    + change (f_size (fmt_format SMEM)) with 8. flia.
    + flia.
  - unfold spec_inst, base_inst, dsize. cbn [d_row words snd]. reflexivity.
Qed.
