(** C03 — the memory rows covered by the impl_eq_spec_* theorems of the memory part. *)
From Coq Require Import ZArith List Bool.
Import ListNotations.
From VIsa Require Import IsaState ExecImplM ExecSpecM ExecMProofs ExecMFlat ExecMDs.
Open Scope Z_scope.

Definition flat_load_ops : list Z := [16; 17; 18; 20; 21; 22; 23].
Definition flat_store_ops : list Z := [28; 29; 30; 31].
Definition mrows (a : arch) : list (format * Z) :=
  map (pair F_SMEM) [0; 1; 2; 3; 4] ++ map (pair F_FLAT) (flat_load_ops ++ flat_store_ops) ++
  map (pair F_DS) ([13; 14; 54; 55; 78; 118; 119] ++ match a with CDNA3 => [223; 255] | GCN3 => [] end).

Lemma flat_load_row_some : forall op, In op flat_load_ops -> exists k val, flat_load_row op = Some (k, val).
Proof. intros op H. unfold flat_load_ops in H. cbn [In] in H. repeat (destruct H as [<-|H]; [do 2 eexists; reflexivity|]). contradiction. Qed.
Lemma flat_store_row_some : forall op, In op flat_store_ops -> exists k, flat_store_row op = Some k.
Proof. intros op H. unfold flat_store_ops in H. cbn [In] in H. repeat (destruct H as [<-|H]; [eexists; reflexivity|]). contradiction. Qed.
