(** C03 — IEEE-754 binary32 operations on bit patterns, through Flocq.  The same
    functions are used by the transcription of the manuals (the operation the
    manual names) and by the transcription of the Go handlers (Go float32
    arithmetic is IEEE round-to-nearest-even on amd64: ADDSS/SUBSS/MULSS, no
    fused contraction at GOAMD64=v1; math.Float32frombits/Float32bits are bit
    casts).  NaN payloads are not part of the model: Flocq's choice and the
    hardware's differ, and the correspondence compares NaN results as a class.
    Definitions only. *)
From Coq Require Import ZArith Bool.
From Flocq Require Import IEEE754.Binary IEEE754.Bits IEEE754.BinarySingleNaN.
Open Scope Z_scope.

Definition b32 (x : Z) : binary32 := b32_of_bits (x mod 4294967296).
Definition f32_add (x y : Z) : Z := bits_of_b32 (b32_plus mode_NE (b32 x) (b32 y)).
Definition f32_sub (x y : Z) : Z := bits_of_b32 (b32_minus mode_NE (b32 x) (b32 y)).
Definition f32_mul (x y : Z) : Z := bits_of_b32 (b32_mult mode_NE (b32 x) (b32 y)).
(** single rounding of x*y+z *)
Definition f32_fma (x y z : Z) : Z :=
  bits_of_b32 (Binary.Bfma 24 128 eq_refl eq_refl (fun _ _ _ => default_nan_pl32) mode_NE (b32 x) (b32 y) (b32 z)).
(** two roundings: RN(RN(x*y) + z) *)
Definition f32_mad (x y z : Z) : Z := f32_add (f32_mul x y) z.
(** sign manipulations are bit operations (Go: -f, math.Abs) *)
Definition f32_neg (x : Z) : Z := Z.lxor (x mod 4294967296) 2147483648.
Definition f32_abs (x : Z) : Z := Z.land (x mod 4294967296) 2147483647.
Definition f32_isnan (x : Z) : bool := Binary.is_nan 24 128 (b32 x).
Definition f32_cmp (x y : Z) : option comparison := Binary.Bcompare 24 128 (b32 x) (b32 y).
Definition f32_lt (x y : Z) : bool := match f32_cmp x y with Some Lt => true | _ => false end.
Definition f32_gt (x y : Z) : bool := match f32_cmp x y with Some Gt => true | _ => false end.
Definition f32_eq (x y : Z) : bool := match f32_cmp x y with Some Eq => true | _ => false end.
Definition f32_le (x y : Z) : bool := match f32_cmp x y with Some Lt | Some Eq => true | _ => false end.
Definition f32_ge (x y : Z) : bool := match f32_cmp x y with Some Gt | Some Eq => true | _ => false end.
Definition f32_unord (x y : Z) : bool := match f32_cmp x y with None => true | _ => false end.
Definition f32_iszero (x : Z) : bool := Z.land (x mod 4294967296) 2147483647 =? 0.
(** integer -> float (round to nearest even), float -> integer (toward zero) *)
Definition f32_of_Z (z : Z) : Z :=
  bits_of_b32 (Binary.binary_normalize 24 128 eq_refl eq_refl mode_NE z 0 false).
Definition f32_trunc (x : Z) : Z := Binary.Btrunc 24 128 (b32 x).
Definition f32_isinf (x : Z) : bool := Z.land (x mod 4294967296) 2147483647 =? 2139095040.
