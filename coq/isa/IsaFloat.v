(** C03 — IEEE-754 binary32 operations on bit patterns, through Flocq.  The same
    functions are used by the transcription of the manuals (the operation the
    manual names) and by the transcription of the Go handlers (Go float32
    arithmetic is IEEE round-to-nearest-even on amd64: ADDSS/SUBSS/MULSS, no
    fused contraction at GOAMD64=v1; math.Float32frombits/Float32bits are bit
    casts).  NaN payloads are not part of the model: Flocq's choice and the
    hardware's differ, and the correspondence compares NaN results as a class.
    Definitions only. *)
From Coq Require Import ZArith Bool.
From Flocq Require Import IEEE754.Binary IEEE754.Bits IEEE754.BinarySingleNaN.
Open Scope Z_scope.

Definition b32 (x : Z) : binary32 := b32_of_bits (x mod 4294967296).
Definition f32_add (x y : Z) : Z := bits_of_b32 (b32_plus mode_NE (b32 x) (b32 y)).
Definition f32_sub (x y : Z) : Z := bits_of_b32 (b32_minus mode_NE (b32 x) (b32 y)).
Definition f32_mul (x y : Z) : Z := bits_of_b32 (b32_mult mode_NE (b32 x) (b32 y)).
(** single rounding of x*y+z *)
Definition f32_fma (x y z : Z) : Z :=
  bits_of_b32 (Binary.Bfma 24 128 eq_refl eq_refl (fun _ _ _ => default_nan_pl32) mode_NE (b32 x) (b32 y) (b32 z)).
(** two roundings: RN(RN(x*y) + z) *)
Definition f32_mad (x y z : Z) : Z := f32_add (f32_mul x y) z.
(** sign manipulations are bit operations (Go: -f, math.Abs) *)
Definition f32_neg (x : Z) : Z := Z.lxor (x mod 4294967296) 2147483648.
Definition f32_abs (x : Z) : Z := Z.land (x mod 4294967296) 2147483647.
Definition f32_isnan (x : Z) : bool := Binary.is_nan 24 128 (b32 x).
Definition f32_cmp (x y : Z) : option comparison := Binary.Bcompare 24 128 (b32 x) (b32 y).
Definition f32_lt (x y : Z) : bool := match f32_cmp x y with Some Lt => true | _ => false end.
Definition f32_gt (x y : Z) : bool := match f32_cmp x y with Some Gt => true | _ => false end.
Definition f32_eq (x y : Z) : bool := match f32_cmp x y with Some Eq => true | _ => false end.
Definition f32_le (x y : Z) : bool := match f32_cmp x y with Some Lt | Some Eq => true | _ => false end.
Definition f32_ge (x y : Z) : bool := match f32_cmp x y with Some Gt | Some Eq => true | _ => false end.
Definition f32_unord (x y : Z) : bool := match f32_cmp x y with None => true | _ => false end.
Definition f32_iszero (x : Z) : bool := Z.land (x mod 4294967296) 2147483647 =? 0.
(** integer -> float (round to nearest even), float -> integer (toward zero) *)
Definition f32_of_Z (z : Z) : Z :=
  bits_of_b32 (Binary.binary_normalize 24 128 eq_refl eq_refl mode_NE z 0 false).
Definition f32_trunc (x : Z) : Z := Binary.Btrunc 24 128 (b32 x).
Definition f32_isinf (x : Z) : bool := Z.land (x mod 4294967296) 2147483647 =? 2139095040.

(** roundToIntegral in the binary32 format (IEEE 754 5.9): the result is the
    integral value nearest to x in the given direction, as a binary32 number
    with the sign of x; infinities are returned unchanged, NaN gives NaN.
    Go: float32(math.Trunc(float64(x))) / float32(math.RoundToEven(float64(x)))
    - the widening is exact, the binary64 operation returns an integral value
    of at most 24 significant bits, so the narrowing is exact as well (trusted,
    replayed on the corner grid on every run). *)
Definition f32_rint (md : mode) (x : Z) : Z :=
  bits_of_b32 (Binary.Bnearbyint 24 128 eq_refl unop_nan_pl32 md (b32 x)).
Definition f32_truncf (x : Z) : Z := f32_rint mode_ZR x.
Definition f32_rndne (x : Z) : Z := f32_rint mode_NE x.

(** ** binary64 (a register pair holds the bit pattern) and format conversions.
    convertFormat (IEEE 754 5.4.2): zeros and infinities keep their sign, NaN
    gives NaN, a finite value is rounded to nearest even in the target format
    (exact when widening). *)
Definition b64 (x : Z) : binary64 := b64_of_bits (x mod 18446744073709551616).
Definition f64_add (x y : Z) : Z := bits_of_b64 (b64_plus mode_NE (b64 x) (b64 y)).
Definition f64_mul (x y : Z) : Z := bits_of_b64 (b64_mult mode_NE (b64 x) (b64 y)).
Definition f64_of_Z (z : Z) : Z :=
  bits_of_b64 (Binary.binary_normalize 53 1024 eq_refl eq_refl mode_NE z 0 false).
Definition f64_isnan (x : Z) : bool := Binary.is_nan 53 1024 (b64 x).
Definition conv_32_64 (x : binary32) : binary64 :=
  match x with
  | Binary.B754_zero _ _ s => Binary.B754_zero 53 1024 s
  | Binary.B754_infinity _ _ s => Binary.B754_infinity 53 1024 s
  | Binary.B754_nan _ _ _ _ _ => proj1_sig default_nan_pl64
  | Binary.B754_finite _ _ s m e _ =>
      Binary.binary_normalize 53 1024 eq_refl eq_refl mode_NE (if s then Z.neg m else Z.pos m) e s
  end.
Definition conv_64_32 (x : binary64) : binary32 :=
  match x with
  | Binary.B754_zero _ _ s => Binary.B754_zero 24 128 s
  | Binary.B754_infinity _ _ s => Binary.B754_infinity 24 128 s
  | Binary.B754_nan _ _ _ _ _ => proj1_sig default_nan_pl32
  | Binary.B754_finite _ _ s m e _ =>
      Binary.binary_normalize 24 128 eq_refl eq_refl mode_NE (if s then Z.neg m else Z.pos m) e s
  end.
Definition f64_of_f32 (x : Z) : Z := bits_of_b64 (conv_32_64 (b32 x)).
Definition f32_of_f64 (x : Z) : Z := bits_of_b32 (conv_64_32 (b64 x)).
