(** C04 — basic types shared by the generated tables (coq/gen/FormatTable.v,
    DecodeTable.v) and the hand-written decoder model (Decode.v).
    Definitions only. *)
From Coq Require Import NArith List String Bool.
Import ListNotations.
Open Scope N_scope.

(** insts.FormatType (amd/insts/format.go).  The numeric values of the Go
    constants are regenerated into VGen.FormatTable.format_type_ids. *)
Inductive fmt :=
| SOP2 | SOPK | SOP1 | SOPC | SOPP | SMEM | VOP2 | VOP1 | VOP3a | VOP3b | VOPC
| VINTRP | DS | MUBUF | MTBUF | MIMG | EXP | FLAT.

Definition fmt_eqb (a b : fmt) : bool :=
  match a, b with
  | SOP2, SOP2 | SOPK, SOPK | SOP1, SOP1 | SOPC, SOPC | SOPP, SOPP | SMEM, SMEM
  | VOP2, VOP2 | VOP1, VOP1 | VOP3a, VOP3a | VOP3b, VOP3b | VOPC, VOPC
  | VINTRP, VINTRP | DS, DS | MUBUF, MUBUF | MTBUF, MTBUF | MIMG, MIMG
  | EXP, EXP | FLAT, FLAT => true
  | _, _ => false
  end.

(** insts.Format *)
Record format := mkFormat {
  f_type : fmt;
  f_name : string;
  f_enc : N;
  f_mask : N;
  f_size : N;      (* ByteSizeExLiteral *)
  f_oplo : N;
  f_ophi : N
}.

(** insts.InstType without the ID field (assigned in map-iteration order,
    never read). *)
Record row := mkRow {
  r_name : string;
  r_opcode : N;
  r_fmt : fmt;
  r_unit : N;
  r_dstw : N;
  r_src0w : N;
  r_src1w : N;
  r_src2w : N;
  r_sdstw : N
}.
