(** C04 — an encoder written from the bit layouts of the GCN3 / CDNA3 ISA
    manuals (microcode formats, chapter 13 "Instruction Formats"), independent of the
    decoder: fields are listed least-significant first with their widths and
    packed arithmetically; operand codes come from the manuals' operand
    tables.  [spec_inst] says which insts.Inst a description denotes.
    Definitions only (proofs: EncodeProofs.v). *)
From Coq Require Import NArith ZArith List String Bool.
From RecordUpdate Require Import RecordSet.
From VIsa Require Import InstTypes Decode.
From VGen Require Import FormatTable DecodeTable RegTable.
Import ListNotations.
Open Scope N_scope.

(** fields (value, width), least significant first *)
Fixpoint pack (fs : list (N * N)) : N :=
  match fs with
  | [] => 0
  | (v, k) :: r => v + 2 ^ k * pack r
  end.

Definition bytes_of_word (w : N) : list N :=
  [w mod 256; (w / 256) mod 256; (w / 65536) mod 256; (w / 16777216) mod 256].

Definition b2n (b : bool) : N := if b then 1 else 0.

(* ------------------------------------------------------------------ operands *)

Inductive opnd :=
| PS (i : N)           (* s0 .. s101 *)
| PV (i : N)           (* v0 .. v255 *)
| PSpecial (code : N)  (* flat_scratch, xnack_mask, vcc, tba, tma, ttmp0-10, m0, exec, vccz, execz, scc *)
| PInt (v : Z)         (* inline integer -16 .. 64 *)
| PFloat (code : N)    (* inline float 240 .. 248 *)
| PLit (v : N).        (* 32-bit literal in the following dword *)

(** operand code (ISA manual, "SSRC/SRC operand" tables) *)
Definition code_of (p : opnd) : N :=
  match p with
  | PS i => i
  | PV i => 256 + i
  | PSpecial c => c
  | PInt v => if (0 <=? v)%Z then 128 + Z.to_N v else 192 + Z.to_N (- v)
  | PFloat c => c
  | PLit _ => 255
  end.

Definition special_reg (c : N) : option N :=
  if c =? 102 then Some R_FlatSratchLo else if c =? 103 then Some R_FlatSratchHi
  else if c =? 104 then Some R_XnackMaskLo else if c =? 105 then Some R_XnackMaskHi
  else if c =? 106 then Some R_VCCLO else if c =? 107 then Some R_VCCHI
  else if c =? 108 then Some R_TbaLo else if c =? 109 then Some R_TbaHi
  else if c =? 110 then Some R_TmaLo else if c =? 111 then Some R_TmaHi
  else if (112 <=? c) && (c <=? 122) then Some (R_Timp0 + (c - 112))
  else if c =? 124 then Some R_M0
  else if c =? 126 then Some R_EXECLO else if c =? 127 then Some R_EXECHI
  else if c =? 251 then Some R_VCCZ else if c =? 252 then Some R_EXECZ
  else if c =? 253 then Some R_SCC
  else None.

Definition float_bits (c : N) : option N :=
  if c =? 240 then Some F_0_5 else if c =? 241 then Some F_m0_5
  else if c =? 242 then Some F_1 else if c =? 243 then Some F_m1
  else if c =? 244 then Some F_2 else if c =? 245 then Some F_m2
  else if c =? 246 then Some F_4 else if c =? 247 then Some F_m4
  else if c =? 248 then Some F_inv2pi else None.

Definition opnd_wf (p : opnd) : bool :=
  match p with
  | PS i => i <=? 101
  | PV i => i <=? 255
  | PSpecial c => match special_reg c with Some _ => true | None => false end
  | PInt v => ((-16 <=? v) && (v <=? 64))%Z
  | PFloat c => match float_bits c with Some _ => true | None => false end
  | PLit v => v <? 4294967296
  end.

(** scalar operands (8-bit source / 7-bit destination fields) *)
Definition opnd_scalar (p : opnd) : bool := match p with PV _ => false | _ => true end.
Definition opnd_sdst (p : opnd) : bool :=
  match p with
  | PS _ => true
  | PSpecial c => c <=? 127
  | _ => false
  end.
Definition opnd_is_lit (p : opnd) : bool := match p with PLit _ => true | _ => false end.
Definition lit_value (p : opnd) : N := match p with PLit v => v | _ => 0 end.

(** the insts.Operand an operand description denotes, with register count [c] *)
Definition spec_operand (p : opnd) (c : N) : operand :=
  match p with
  | PS i => mkOperand i OTReg (Some (R_S0 + i)) c 0 0%Z 0
  | PV i => mkOperand (256 + i) OTReg (Some (R_V0 + i)) c 0 0%Z 0
  | PSpecial k => mkOperand k OTReg (special_reg k) c 0 0%Z 0
  | PInt v => mkOperand (code_of p) OTInt None c 0 v 0
  | PFloat k => mkOperand k OTFloat None c (match float_bits k with Some b => b | None => 0 end) 0%Z 0
  | PLit v => mkOperand 255 OTLit None c 0 0%Z v
  end.

(** a VGPR named by a raw 8-bit field (VSRC1, VDST of VOP2/VOPC/...): the decoder
    records the field value as the operand code *)
Definition spec_vgpr (i c : N) : operand := mkOperand i OTReg (Some (R_V0 + i)) c 0 0%Z 0.

(* ------------------------------------------------------------------ descriptions *)

Inductive desc :=
| DSop2 (r : row) (dst s0 s1 : opnd)
| DSopk (r : row) (dst : opnd) (simm : N)
| DSop1 (r : row) (dst s0 : opnd)
| DSopc (r : row) (s0 s1 : opnd)
| DSopp (r : row) (simm : N)
| DSmem (r : row) (data : opnd) (sbase : N) (glc imm : bool) (offset : N)
| DVop1 (r : row) (vdst : N) (s0 : opnd)
| DVop2 (r : row) (vdst : N) (s0 : opnd) (vsrc1 : N) (k : N)
| DVop2Sdwa (r : row) (vdst vsrc0 vsrc1 dst_sel dst_unused src0_sel src1_sel : N) (s0 s1 : bool)
| DVopc (r : row) (s0 : opnd) (vsrc1 : N)
| DVop3a (r : row) (vdst abs opsel : N) (clamp : bool) (s0 s1 s2 : opnd) (omod neg : N)
| DVop3b (r : row) (vdst sdst : N) (clamp : bool) (s0 s1 s2 : opnd) (omod neg : N)
| DDs (r : row) (offset0 offset1 : N) (gds : bool) (addr data0 data1 vdst : N)
| DFlat (r : row) (offset : N) (glc slc : bool) (addr data saddr : N) (tfe : bool) (vdst : N).

Definition d_row (d : desc) : row :=
  match d with
  | DSop2 r _ _ _ | DSopk r _ _ | DSop1 r _ _ | DSopc r _ _ | DSopp r _
  | DSmem r _ _ _ _ _ | DVop1 r _ _ | DVop2 r _ _ _ _ | DVop2Sdwa r _ _ _ _ _ _ _ _ _
  | DVopc r _ _ | DVop3a r _ _ _ _ _ _ _ _ _ | DVop3b r _ _ _ _ _ _ _ _
  | DDs r _ _ _ _ _ _ _ | DFlat r _ _ _ _ _ _ _ _ => r
  end.

(** first dword, optional second dword.  Encoding constants (ISA manual):
    SOP2 10, SOPK 1011, SOP1 101111101, SOPC 101111110, SOPP 101111111,
    SMEM 110000, VOP2 0, VOP1 0111111, VOPC 0111110, VOP3 110100, DS 110110,
    FLAT 110111. *)
Definition words (d : desc) : N * option N :=
  match d with
  | DSop2 r dst s0 s1 =>
      (pack [(code_of s0, 8); (code_of s1, 8); (code_of dst, 7); (r_opcode r, 7); (2, 2)],
       if opnd_is_lit s0 then Some (lit_value s0)
       else if opnd_is_lit s1 then Some (lit_value s1) else None)
  | DSopk r dst simm =>
      (pack [(simm, 16); (code_of dst, 7); (r_opcode r, 5); (11, 4)], None)
  | DSop1 r dst s0 =>
      (pack [(code_of s0, 8); (r_opcode r, 8); (code_of dst, 7); (381, 9)],
       if opnd_is_lit s0 then Some (lit_value s0) else None)
  | DSopc r s0 s1 =>
      (pack [(code_of s0, 8); (code_of s1, 8); (r_opcode r, 7); (382, 9)],
       if opnd_is_lit s0 then Some (lit_value s0)
       else if opnd_is_lit s1 then Some (lit_value s1) else None)
  | DSopp r simm =>
      (pack [(simm, 16); (r_opcode r, 7); (383, 9)], None)
  | DSmem r data sbase glc imm offset =>
      (pack [(sbase, 6); (code_of data, 7); (0, 3); (b2n glc, 1); (b2n imm, 1); (r_opcode r, 8); (48, 6)],
       Some (pack [(offset, 20); (0, 12)]))
  | DVop1 r vdst s0 =>
      (pack [(code_of s0, 9); (r_opcode r, 8); (vdst, 8); (63, 7)],
       if opnd_is_lit s0 then Some (lit_value s0) else None)
  | DVop2 r vdst s0 vsrc1 k =>
      (pack [(code_of s0, 9); (vsrc1, 8); (vdst, 8); (r_opcode r, 6); (0, 1)],
       if opnd_is_lit s0 then Some (lit_value s0)
       else if is_madk (r_opcode r) then Some k else None)
  | DVop2Sdwa r vdst vsrc0 vsrc1 dst_sel dst_unused src0_sel src1_sel s0 s1 =>
      (pack [(249, 9); (vsrc1, 8); (vdst, 8); (r_opcode r, 6); (0, 1)],
       Some (pack [(vsrc0, 8); (dst_sel, 3); (dst_unused, 2); (0, 3); (src0_sel, 3); (0, 4);
                   (b2n s0, 1); (src1_sel, 3); (0, 4); (b2n s1, 1)]))
  | DVopc r s0 vsrc1 =>
      (pack [(code_of s0, 9); (vsrc1, 8); (r_opcode r, 8); (62, 7)],
       if opnd_is_lit s0 then Some (lit_value s0) else None)
  | DVop3a r vdst abs opsel clamp s0 s1 s2 omod neg =>
      (pack [(vdst, 8); (abs, 3); (opsel, 4); (b2n clamp, 1); (r_opcode r, 10); (52, 6)],
       Some (pack [(code_of s0, 9); (code_of s1, 9); (code_of s2, 9); (omod, 2); (neg, 3)]))
  | DVop3b r vdst sdst clamp s0 s1 s2 omod neg =>
      (pack [(vdst, 8); (sdst, 7); (b2n clamp, 1); (r_opcode r, 10); (52, 6)],
       Some (pack [(code_of s0, 9); (code_of s1, 9); (code_of s2, 9); (omod, 2); (neg, 3)]))
  | DDs r offset0 offset1 gds addr data0 data1 vdst =>
      (pack [(offset0, 8); (offset1, 8); (b2n gds, 1); (r_opcode r, 8); (0, 1); (54, 6)],
       Some (pack [(addr, 8); (data0, 8); (data1, 8); (vdst, 8)]))
  | DFlat r offset glc slc addr data saddr tfe vdst =>
      (pack [(offset, 13); (0, 3); (b2n glc, 1); (b2n slc, 1); (r_opcode r, 7); (0, 1); (55, 6)],
       Some (pack [(addr, 8); (data, 8); (saddr, 7); (b2n tfe, 1); (vdst, 8)]))
  end.

Definition encode (d : desc) : list N :=
  let '(w0, w1) := words d in
  bytes_of_word w0 ++ match w1 with Some w => bytes_of_word w | None => [] end.

Definition dsize (d : desc) : N :=
  match snd (words d) with Some _ => 8 | None => 4 end.

(* ------------------------------------------------------------------ the instruction a description denotes *)

Definition fmt_format (t : fmt) : format :=
  match format_of t with Some f => f | None => mkFormat t "" 0 0 0 0 0 end.

Definition base_inst (d : desc) : inst :=
  let i := inst0 (fmt_format (r_fmt (d_row d))) (d_row d) in
  mkInst (i_fmt i) (i_row i) (dsize d) None None None None None None None None None None None None
         0 0 0 0 0 0 0 false false false false false false 0 0
         false 0 0 0 false false false 0 false false false false false.

Definition w64 (w : N) : N := if w =? 64 then 2 else 0.

(** VGPRs occupied by a DS data operand of the given width *)
Definition regs_of_width (w : N) : N :=
  if w =? 64 then 2 else if w =? 96 then 3 else if w =? 128 then 4 else 1.

(** DS instructions with two separate 8-bit offsets (ISA, LDS/GDS table):
    ds_write2[st64]_b32/b64, ds_wrxchg2[st64]_rtn_b32/b64, ds_read2[st64]_b32/b64;
    all others have one 16-bit offset offset1:offset0 *)
Definition ds_dual_offset (op : N) : bool :=
  existsb (N.eqb op) [14; 15; 46; 47; 55; 56; 78; 79; 110; 111; 119; 120].

(** SDWA selectors as byte/word masks: BYTE_0..3, WORD_0..1, DWORD *)
Definition sel_mask (k : N) : N :=
  nth (N.to_nat k) [255; 65280; 16711680; 4278190080; 65535; 4294901760; 4294967295] 0.

(** a 7-bit scalar destination code as an operand description *)
Definition sdst_opnd (c : N) : opnd := if c <=? 101 then PS c else PSpecial c.

Import RecordSetNotations.

(** The insts.Inst a description denotes.  Register counts: SOP2 "…64"
    mnemonics use register pairs; SOP1/VOP1/VOP3 follow the widths of the table
    row; VOP1 conversions 4, 15, 16 (f64 on one side) are pairs on that side;
    SMEM/FLAT by opcode (smem_cnt, flat_cnt); DS by width.  [cdna3] only
    matters for the address register count of FLAT. *)
Definition spec_inst (cdna3 : bool) (d : desc) : inst :=
  let b := base_inst d in
  match d with
  | DSop2 r dst s0 s1 =>
      let c := if contains "64" (r_name r) then 2 else 0 in
      b <| i_src0 := Some (spec_operand s0 c) |> <| i_src1 := Some (spec_operand s1 c) |>
        <| i_dst := Some (spec_operand dst c) |>
  | DSopk r dst simm =>
      b <| i_simm16 := Some (new_int 0 (Z.of_N simm)) |> <| i_dst := Some (spec_operand dst 0) |>
  | DSop1 r dst s0 =>
      b <| i_src0 := Some (spec_operand s0 (w64 (r_src0w r))) |>
        <| i_dst := Some (spec_operand dst (w64 (r_dstw r))) |>
  | DSopc r s0 s1 =>
      b <| i_src0 := Some (spec_operand s0 0) |> <| i_src1 := Some (spec_operand s1 0) |>
  | DSopp r simm =>
      let b := b <| i_simm16 := Some (new_int 0 (Z.of_N simm)) |> in
      if r_opcode r =? 12
      then b <| i_vmcnt := simm mod 16 |> <| i_lkgmcnt := (simm / 256) mod 32 |>
      else b
  | DSmem r data sbase glc imm offset =>
      b <| i_glc := glc |> <| i_imm := imm |>
        <| i_base := Some (mkOperand (2 * sbase) OTReg (Some (R_S0 + 2 * sbase)) 2 0 0%Z 0) |>
        <| i_data := Some (spec_operand data (match smem_cnt (r_opcode r) with Some c => c | None => 0 end)) |>
        <| i_offset := Some (if imm then new_int 0 (Z.of_N offset)
                             else mkOperand offset OTReg (Some (R_S0 + offset)) 1 0 0%Z 0) |>
  | DVop1 r vdst s0 =>
      let c0 := if r_opcode r =? 15 then 2 else w64 (r_src0w r) in
      let cd := if (r_opcode r =? 4) || (r_opcode r =? 16) then 2 else w64 (r_dstw r) in
      b <| i_src0 := Some (spec_operand s0 c0) |>
        <| i_dst := Some (if r_opcode r =? 2 then spec_operand (PS vdst) cd
                          else spec_operand (PV vdst) cd) |>
  | DVop2 r vdst s0 vsrc1 k =>
      let b := b <| i_src0 := Some (spec_operand s0 0) |> <| i_src1 := Some (spec_vgpr vsrc1 0) |>
                 <| i_dst := Some (spec_vgpr vdst 0) |> in
      if is_madk (r_opcode r)
      then b <| i_imm := true |> <| i_src2 := Some (mkOperand 0 OTLit None 0 0 0%Z k) |>
      else b
  | DVop2Sdwa r vdst vsrc0 vsrc1 dst_sel dst_unused src0_sel src1_sel s0 s1 =>
      b <| i_sdwa := true |>
        <| i_dst_sel := sel_mask dst_sel |> <| i_dst_unused := dst_unused |>
        <| i_src0_sel := sel_mask src0_sel |> <| i_src1_sel := sel_mask src1_sel |>
        <| i_src0 := Some (if s0 then mkOperand vsrc0 OTReg (Some (R_S0 + vsrc0)) 0 0 0%Z 0
                           else spec_vgpr vsrc0 0) |>
        <| i_src1 := Some (if s1 then mkOperand vsrc1 OTReg (Some (R_S0 + vsrc1)) 0 0 0%Z 0
                           else spec_vgpr vsrc1 0) |>
        <| i_dst := Some (spec_vgpr vdst 0) |>
  | DVopc r s0 vsrc1 =>
      (* 64-bit compares (v_cmp_*_f64/_i64/_u64): both operands are register pairs *)
      b <| i_src0 := Some (spec_operand s0 (w64 (r_src0w r))) |>
        <| i_src1 := Some (spec_vgpr vsrc1 (w64 (r_src1w r))) |>
  | DVop3a r vdst abs opsel clamp s0 s1 s2 omod neg =>
      let op := r_opcode r in
      let b := b <| i_dst := Some (if op <=? 255 then spec_operand (PS vdst) (w64 (r_dstw r))
                                   else spec_vgpr vdst (w64 (r_dstw r))) |>
                 <| i_abs := abs |>
                 <| i_src0_abs := N.testbit abs 0 |> <| i_src1_abs := N.testbit abs 1 |>
                 <| i_src2_abs := N.testbit abs 2 |>
                 <| i_clamp := clamp |>
                 <| i_src0 := Some (spec_operand s0 (w64 (r_src0w r))) |>
                 <| i_src1 := Some (spec_operand s1 (w64 (r_src1w r))) |>
                 <| i_src2 := if r_src2w r =? 0 then None else Some (spec_operand s2 (w64 (r_src2w r))) |>
                 <| i_omod := omod |> <| i_neg := neg |>
                 <| i_src0_neg := N.testbit neg 0 |> <| i_src1_neg := N.testbit neg 1 |>
                 <| i_src2_neg := N.testbit neg 2 |> in
      (* VOP3P: op_sel[2:0] in bits 11-13, op_sel_hi[2] in bit 14, op_sel_hi[1:0] in the OMOD bits *)
      if op =? 944 then b <| i_opsel := opsel mod 8 |> <| i_opselhi := omod + 4 * (opsel / 8) |>
      else if (945 <=? op) && (op <=? 946) then b <| i_opsel := opsel mod 4 |> <| i_opselhi := omod |>
      else b
  | DVop3b r vdst sdst clamp s0 s1 s2 omod neg =>
      let op := r_opcode r in
      b <| i_dst := if 255 <? op then Some (spec_vgpr vdst (if r_dstw r =? 64 then 2 else 1)) else None |>
        <| i_sdst := Some (spec_operand (sdst_opnd sdst) (w64 (r_sdstw r))) |>
        <| i_clamp := clamp |>
        <| i_src0 := Some (spec_operand s0 (w64 (r_src0w r))) |>
        <| i_src1 := Some (spec_operand s1 (w64 (r_src1w r))) |>
        <| i_src2 := if (255 <? op) && (0 <? r_src2w r) then Some (spec_operand s2 (w64 (r_src2w r))) else None |>
        <| i_omod := omod |> <| i_neg := neg |>
  | DDs r offset0 offset1 gds addr data0 data1 vdst =>
      b <| i_offset0 := if ds_dual_offset (r_opcode r) then offset0 else offset0 + 256 * offset1 |>
        <| i_offset1 := offset1 |>
        <| i_gds := gds |>
        <| i_addr := Some (spec_vgpr addr 1) |>
        <| i_data := if 0 <? r_src0w r then Some (spec_vgpr data0 (regs_of_width (r_src0w r))) else None |>
        <| i_data1 := if 0 <? r_src1w r then Some (spec_vgpr data1 (regs_of_width (r_src1w r))) else None |>
        <| i_dst := if 0 <? r_dstw r then Some (spec_vgpr vdst (regs_of_width (r_dstw r))) else None |>
  | DFlat r offset glc slc addr data saddr tfe vdst =>
      let c := match flat_cnt (r_opcode r) with Some c => c | None => 0 end in
      (* 13-bit signed offset, sign-extended to 32 bits; SADDR 0x7F = off (and 0 on GCN3):
         the address is a VGPR pair, otherwise one VGPR holds an offset *)
      let pair := if cdna3 then saddr =? 127 else (saddr =? 127) || (saddr =? 0) in
      b <| i_offset0 := if 4096 <=? offset then offset + 4294959104 else offset |>
        <| i_slc := slc |> <| i_glc := glc |> <| i_tfe := tfe |>
        <| i_saddr := Some (new_int 0 (Z.of_N saddr)) |>
        <| i_addr := Some (spec_vgpr addr (if pair then 2 else 1)) |>
        <| i_dst := Some (spec_vgpr vdst c) |>
        <| i_data := Some (spec_vgpr data c) |>
  end.

(* ------------------------------------------------------------------ well-formed descriptions *)

Definition row_ok (t : fmt) (r : row) : bool :=
  fmt_eqb (r_fmt r) t &&
  match lookup t (r_opcode r) with
  | Some r' => (r_opcode r' =? r_opcode r) && String.eqb (r_name r') (r_name r)
               && (r_unit r' =? r_unit r) && (r_dstw r' =? r_dstw r) && (r_src0w r' =? r_src0w r)
               && (r_src1w r' =? r_src1w r) && (r_src2w r' =? r_src2w r) && (r_sdstw r' =? r_sdstw r)
               && fmt_eqb (r_fmt r') (r_fmt r)
  | None => false
  end.

Definition src8 (p : opnd) : bool := opnd_wf p && opnd_scalar p.   (* SSRC, 8 bits *)
Definition src9 (p : opnd) : bool := opnd_wf p.                    (* SRC, 9 bits *)
Definition sdst7 (p : opnd) : bool := opnd_wf p && opnd_sdst p.    (* SDST, 7 bits *)
Definition src9nl (p : opnd) : bool := opnd_wf p && negb (opnd_is_lit p).  (* VOP3: no literal *)

Definition wf (d : desc) : bool :=
  match d with
  | DSop2 r dst s0 s1 =>
      row_ok SOP2 r && sdst7 dst && src8 s0 && src8 s1 && negb (opnd_is_lit s0 && opnd_is_lit s1)
  | DSopk r dst simm => row_ok SOPK r && sdst7 dst && (simm <? 65536)
  | DSop1 r dst s0 => row_ok SOP1 r && sdst7 dst && src8 s0
  | DSopc r s0 s1 => row_ok SOPC r && src8 s0 && src8 s1 && negb (opnd_is_lit s0 && opnd_is_lit s1)
  | DSopp r simm => row_ok SOPP r && (simm <? 65536)
  | DSmem r data sbase glc imm offset =>
      row_ok SMEM r && sdst7 data && (sbase <=? 50) && (offset <? 1048576) && (imm || (offset <=? 101))
  | DVop1 r vdst s0 =>
      row_ok VOP1 r && src9 s0 && (if r_opcode r =? 2 then vdst <=? 101 else vdst <=? 255)
  | DVop2 r vdst s0 vsrc1 k =>
      row_ok VOP2 r && src9 s0 && (vdst <=? 255) && (vsrc1 <=? 255) && (k <? 4294967296)
      && negb (opnd_is_lit s0 && is_madk (r_opcode r))
  | DVop2Sdwa r vdst vsrc0 vsrc1 dst_sel dst_unused src0_sel src1_sel s0 s1 =>
      row_ok VOP2 r && negb (is_madk (r_opcode r)) && (vdst <=? 255) && (vsrc0 <=? 255) && (vsrc1 <=? 255)
      && (dst_sel <=? 6) && (dst_unused <=? 2) && (src0_sel <=? 6) && (src1_sel <=? 6)
      && (negb s0 || (vsrc0 <=? 101)) && (negb s1 || (vsrc1 <=? 101))
  | DVopc r s0 vsrc1 => row_ok VOPC r && src9 s0 && (vsrc1 <=? 255)
  | DVop3a r vdst abs opsel clamp s0 s1 s2 omod neg =>
      row_ok VOP3a r && (if r_opcode r <=? 255 then vdst <=? 101 else vdst <=? 255)
      && (abs <? 8) && (opsel <? 16) && src9nl s0 && src9nl s1 && src9nl s2 && (omod <? 4) && (neg <? 8)
  | DVop3b r vdst sdst clamp s0 s1 s2 omod neg =>
      row_ok VOP3b r && (vdst <=? 255) && sdst7 (sdst_opnd sdst)
      && src9nl s0 && src9nl s1 && src9nl s2 && (omod <? 4) && (neg <? 8)
  | DDs r offset0 offset1 gds addr data0 data1 vdst =>
      row_ok DS r && (offset0 <=? 255) && (offset1 <=? 255) && (addr <=? 255) && (data0 <=? 255)
      && (data1 <=? 255) && (vdst <=? 255)
  | DFlat r offset glc slc addr data saddr tfe vdst =>
      row_ok FLAT r && (offset <? 8192) && (addr <=? 255) && (data <=? 255) && (saddr <=? 127) && (vdst <=? 255)
  end.

(** the SDWA dword: the decoder reads the "SRC0 is an SGPR" flag from bit 30;
    the GFX9 layout (and [words]) has it in bit 23.  decode∘encode holds for
    SDWA descriptions whose SRC0 is a VGPR. *)
Definition wf_sdwa_s0_vgpr (d : desc) : bool :=
  match d with
  | DVop2Sdwa _ _ _ _ _ _ _ _ s0 _ => negb s0
  | _ => true
  end.
