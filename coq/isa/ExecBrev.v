(** C03 — bit reversal: the 32-iteration loops of s_brev_b32 / v_bfrev_b32
    compute D[31-j] = S0[j]. *)
From Coq Require Import ZArith List Bool Lia ZifyBool.
Import ListNotations.
From VIsa Require Import IsaState ExecImpl ExecSpec ExecImplV ExecSpecV ExecProofs ExecRows ExecVProofs ExecVRowsA.
Open Scope Z_scope.

Definition xbit (x k : Z) : Z := (x / 2 ^ k) mod 2.
Lemma xbit_range : forall x k, 0 <= xbit x k < 2. Proof. intros; unfold xbit; lia. Qed.

Lemma brev_term : forall x k, 0 <= k -> Z.shiftr (Z.land x (Z.shiftl 1 k)) k = xbit x k.
Proof.
  intros x k Hk. rewrite Z.shiftr_land, Z.shiftl_mul_pow2, Z.mul_1_l by lia.
  rewrite (Z.shiftr_div_pow2 (2 ^ k)), Z.div_same by (try lia; apply Z.pow_nonzero; lia).
  rewrite Z.shiftr_div_pow2 by lia. change 1 with (Z.ones 1). rewrite Z.land_ones by lia. reflexivity.
Qed.

Lemma brev_impl_sum : forall x,
  brev_impl x = fold_left (fun acc i => acc + xbit x (31 - i) * 2 ^ i) (lanes_upto 32) 0.
Proof.
  intros x. unfold brev_impl. change (map Z.of_nat (seq 0 32)) with (lanes_upto 32).
  set (p := fun i => xbit x (31 - i) =? 1).
  transitivity (fold_left (fm_impl p) (lanes_upto 32) 0).
  - apply fold_ext_in. intros m i Hi. apply in_lanes_upto in Hi. unfold fm_impl, p.
    rewrite brev_term by lia. pose proof (xbit_range x (31 - i)).
    destruct (xbit x (31 - i) =? 1) eqn:E.
    + replace (xbit x (31 - i)) with 1 by lia. reflexivity.
    + replace (xbit x (31 - i)) with 0 by lia. rewrite Z.shiftl_0_l, Z.lor_0_r. reflexivity.
  - destruct (mask_impl_spec p 32) as [M _]. rewrite M.
    apply fold_ext_in. intros m i Hi. unfold fm_spec, p. pose proof (xbit_range x (31 - i)).
    destruct (xbit x (31 - i) =? 1) eqn:E; [replace (xbit x (31 - i)) with 1 by lia|replace (xbit x (31 - i)) with 0 by lia]; lia.
Qed.

Lemma brev_impl_spec : forall x, brev_impl x = brev32 x.
Proof.
  intros x. rewrite brev_impl_sum. unfold brev32, lanes_upto.
  cbv [seq map fold_left Z.of_nat Pos.of_succ_nat Pos.succ]. cbv beta.
  repeat match goal with
  | |- context [(x / 2 ^ ?k) mod 2] => change ((x / 2 ^ k) mod 2) with (xbit x k)
  end.
  repeat match goal with
  | |- context [Zpos ?p - ?c] => let v := eval compute in (Zpos p - c) in change (Zpos p - c) with v
  end.
  repeat match goal with
  | |- context [2 ^ ?c] => let v := eval compute in (2 ^ c) in change (2 ^ c) with v
  end.
  repeat match goal with |- context [xbit x ?k] => let v := fresh "b" in generalize (xbit x k); intro v end.
  lia.
Qed.

(** s_brev_b32, both ALUs *)
Lemma brev_sop1 : forall a, val_ok1 a 8.
Proof.
  intros a. split; [reflexivity|]. split; [reflexivity|]. split; [reflexivity|].
  do 2 eexists. split; [reflexivity|]. split; [reflexivity|]. split; [reflexivity|]. split; [reflexivity|].
  intros st x Hscc Hx. destruct a; unfold h1, c_sop1, g_sop1, dres; cbv beta iota;
    do 2 eexists; (split; [reflexivity|]);
    cbv [f_scc bin scc_same wrap]; rewrite brev_impl_spec; split; reflexivity.
Qed.

Theorem sop1_brev_agree : forall a st i, i_op i = 8 -> wf st -> i_fmt i = F_SOP1 -> 0 <= i_lit i < W32 ->
  adm32 true (i_src0 i) -> admd32 (i_dst i) -> agree a st i.
Proof.
  intros a st i Ho Hwf Hf Hl H0 Hd. apply (glue_sop1_32 a st i); auto. rewrite Ho. apply brev_sop1.
Qed.

(** v_bfrev_b32, both ALUs *)
Lemma bfrev_row : forall a, u32 (brev_impl (u32 a)) = brev32 (u32 a) mod W32.
Proof. intros. rewrite brev_impl_spec. reflexivity. Qed.
Lemma r_g_vop1_44 : row_ok GCN3 F_VOP1 44. Proof. row_val. apply bfrev_row. Qed.
Lemma r_c_vop1_44 : row_ok CDNA3 F_VOP1 44. Proof. row_val. apply bfrev_row. Qed.
