(** C03 — concrete inputs on which the Go handlers (ExecImpl) leave a state
    different from the one the manuals prescribe (ExecSpec).  Every witness is
    also a corpus case replayed on the real ALUs by ./check C03. *)
From Coq Require Import ZArith List Bool Lia ZifyBool.
Import ListNotations.
From VIsa Require Import IsaState ExecImpl ExecSpec ExecProofs.
Open Scope Z_scope.

(** a refutation: a well-formed state and an instruction of the named format
    and opcode with covered operand kinds on which implementation and manual
    disagree *)
Definition refuted (a : arch) (f : format) (op : Z) (wide : bool) : Prop :=
  exists st i, wf st /\ i_fmt i = f /\ i_op i = op /\ 0 <= i_lit i < W32 /\
    (i_src0 i = -1 \/ adm32 wide (i_src0 i) \/ adm64 (i_src0 i)) /\
    (i_src1 i = -1 \/ adm32 wide (i_src1 i)) /\
    (admd32 (i_dst i) \/ admd64 (i_dst i)) /\ ~ agree a st i.

Ltac refute st i :=
  exists st, i; split; [apply wf_wst; [reflexivity| auto | unfold W64; lia | unfold W64; lia]|];
  split; [reflexivity|]; split; [reflexivity|]; split; [unfold W32; cbn; lia|];
  split; [cbn; unfold adm32, adm64; lia|]; split; [cbn; unfold adm32; lia|];
  split; [cbn; unfold admd32, admd64; lia|];
  apply differs_not_agree; vm_compute; reflexivity.

Definition i2 (op s0 s1 d : Z) := mkInst F_SOP2 op s0 s1 (-1) d 0 0.
Definition i1 (op s0 d : Z) := mkInst F_SOP1 op s0 (-1) (-1) d 0 0.
Definition ik (op k d : Z) := mkInst F_SOPK op (-1) (-1) (-1) d k 0.

(** GCN3 ALU, SOP2 *)
Lemma g_sub_u32 : refuted GCN3 F_SOP2 1 false.      (* SCC never cleared *)
Proof. refute (wst [(0, 5); (1, 3)] 1 0 0) (i2 1 0 1 2). Qed.
Lemma g_add_i32 : refuted GCN3 F_SOP2 2 false.      (* SCC = unsigned carry instead of signed overflow *)
Proof. refute (wst [(0, 2147483647); (1, 1)] 0 0 0) (i2 2 0 1 2). Qed.
Lemma g_addc_u32 : refuted GCN3 F_SOP2 4 false.     (* carry wrong when S0+S1+SCC = 2^32-1 *)
Proof. refute (wst [(0, 4294967295); (1, 0)] 0 0 0) (i2 4 0 1 2). Qed.
Lemma g_min_i32 : refuted GCN3 F_SOP2 6 false.      (* SCC never cleared *)
Proof. refute (wst [(0, 5); (1, 3)] 1 0 0) (i2 6 0 1 2). Qed.
Lemma g_min_u32 : refuted GCN3 F_SOP2 7 false.
Proof. refute (wst [(0, 5); (1, 3)] 1 0 0) (i2 7 0 1 2). Qed.
Lemma g_max_i32 : refuted GCN3 F_SOP2 8 false.
Proof. refute (wst [(0, 3); (1, 5)] 1 0 0) (i2 8 0 1 2). Qed.
Lemma g_max_u32 : refuted GCN3 F_SOP2 9 false.
Proof. refute (wst [(0, 3); (1, 5)] 1 0 0) (i2 9 0 1 2). Qed.
Lemma g_ashr_i32 : refuted GCN3 F_SOP2 32 false.    (* shift amount not masked to S1[4:0] *)
Proof. refute (wst [(0, 1073741824); (1, 32)] 0 0 0) (i2 32 0 1 2). Qed.
Lemma g_mul_i32 : refuted GCN3 F_SOP2 36 false.     (* writes SCC on overflow *)
Proof. refute (wst [(0, 65536); (1, 65536)] 0 0 0) (i2 36 0 1 2). Qed.
Lemma g_bfe_i32 : refuted GCN3 F_SOP2 38 false.     (* no sign extension *)
Proof. refute (wst [(0, 240); (1, 262148)] 0 0 0) (i2 38 0 1 2). Qed.
(** GCN3 ALU, SOP1 / SOPK *)
Lemma g_not_b32 : refuted GCN3 F_SOP1 4 false.      (* SCC from the 64-bit complement, never cleared *)
Proof. refute (wst [(0, 4294967295)] 0 0 0) (i1 4 0 2). Qed.
Lemma g_getpc : refuted GCN3 F_SOP1 28 false.       (* PC of the next instruction + 4 *)
Proof. refute (wst [] 0 0 0) (i1 28 0 2). Qed.
Lemma g_cmpk_eq : refuted GCN3 F_SOPK 2 false.      (* compares the low 16 bits only *)
Proof. refute (wst [(2, 65541)] 0 0 0) (ik 2 5 2). Qed.
Lemma g_cmpk_lg : refuted GCN3 F_SOPK 3 false.
Proof. refute (wst [(2, 65541)] 0 0 0) (ik 3 5 2). Qed.
(** CDNA3 ALU *)
Lemma c_bfe_i32 : refuted CDNA3 F_SOP2 38 false.    (* offset+width > 32 on a negative source *)
Proof. refute (wst [(0, 2147483648); (1, 2097156)] 0 0 0) (i2 38 0 1 2). Qed.
Lemma c_not_b32 : refuted CDNA3 F_SOP1 4 false.
Proof. refute (wst [(0, 4294967295)] 0 0 0) (i1 4 0 2). Qed.
Lemma c_abs_i32 : refuted CDNA3 F_SOP1 48 false.    (* SCC = (S0 < 0) instead of (D != 0) *)
Proof. refute (wst [(0, 5)] 0 0 0) (i1 48 0 2). Qed.
Lemma c_movk : refuted CDNA3 F_SOPK 0 false.        (* immediate zero- instead of sign-extended *)
Proof. refute (wst [] 0 0 0) (ik 0 65535 2). Qed.
Lemma c_cmovk : refuted CDNA3 F_SOPK 1 false.
Proof. refute (wst [] 1 0 0) (ik 1 65535 2). Qed.
(** operands that ReadOperand delivers with 64 bits (wide) *)
Lemma g_lshr_b32_wide : refuted GCN3 F_SOP2 30 true. (* s_lshr_b32 s2, -1, 1 *)
Proof. refute (wst [] 0 0 0) (i2 30 193 129 2). Qed.
Lemma g_sub_u32_wide : refuted GCN3 F_SOP2 1 true.
Proof. refute (wst [(1, 4294967295)] 0 0 0) (i2 1 1 193 2). Qed.
Lemma c_min_u32_wide : refuted CDNA3 F_SOP2 7 true.  (* s_min_u32 s2, vcc_lo, s1 *)
Proof. refute (wst [(1, 5)] 0 4294967297 0) (i2 7 106 1 2). Qed.
Lemma c_mul_hi_wide : refuted CDNA3 F_SOP2 44 true.  (* s_mul_hi_u32 s2, -1, s1 *)
Proof. refute (wst [(1, 2)] 0 0 0) (i2 44 193 1 2). Qed.

(** VCC_HI as a 32-bit source is read as the whole VCC (low half is used);
    EXEC_HI as a source and EXEC_LO as a 32-bit destination panic *)
Definition operand_refuted (a : arch) (s0 d : Z) : Prop :=
  exists st, wf st /\ ~ agree a st (i1 0 s0 d).
Ltac orefute st :=
  exists st; split; [apply wf_wst; [reflexivity| auto | unfold W64; lia | unfold W64; lia]|];
  apply differs_not_agree; vm_compute; reflexivity.
Lemma g_vcc_hi_src : operand_refuted GCN3 107 2. Proof. orefute (wst [] 0 4294967298 0). Qed.
Lemma c_vcc_hi_src : operand_refuted CDNA3 107 2. Proof. orefute (wst [] 0 4294967298 0). Qed.
Lemma g_exec_hi_src : operand_refuted GCN3 127 2. Proof. orefute (wst [] 0 0 4294967298). Qed.
Lemma c_exec_hi_src : operand_refuted CDNA3 127 2. Proof. orefute (wst [] 0 0 4294967298). Qed.
Lemma g_exec_lo_dst : operand_refuted GCN3 0 126. Proof. orefute (wst [(0, 7)] 0 0 0). Qed.
Lemma c_exec_lo_dst : operand_refuted CDNA3 0 126. Proof. orefute (wst [(0, 7)] 0 0 0). Qed.
