(** C03 — concrete inputs on which the Go handlers (ExecImpl) leave a state
    different from the one the manuals prescribe (ExecSpec).  Every witness is
    also a corpus case replayed on the real ALUs by ./check C03. *)
From Coq Require Import ZArith List Bool Lia ZifyBool.
Import ListNotations.
From VIsa Require Import IsaState ExecImpl ExecSpec ExecProofs.
Open Scope Z_scope.

(** a refutation: a well-formed state and an instruction of the named format
    and opcode with covered operand kinds on which implementation and manual
    disagree *)
Definition refuted (a : arch) (f : format) (op : Z) (wide : bool) : Prop :=
  exists st i, wf st /\ i_fmt i = f /\ i_op i = op /\ 0 <= i_lit i < W32 /\
    (i_src0 i = -1 \/ adm32 wide (i_src0 i) \/ adm64 (i_src0 i)) /\
    (i_src1 i = -1 \/ adm32 wide (i_src1 i)) /\
    (admd32 (i_dst i) \/ admd64 (i_dst i)) /\ ~ agree a st i.

Ltac refute st i :=
  exists st, i; split; [apply wf_wst; [reflexivity| auto | unfold W64; lia | unfold W64; lia]|];
  split; [reflexivity|]; split; [reflexivity|]; split; [unfold W32; cbn; lia|];
  split; [cbn; unfold adm32, adm64; lia|]; split; [cbn; unfold adm32; lia|];
  split; [cbn; unfold admd32, admd64; lia|];
  apply differs_not_agree; vm_compute; reflexivity.

Definition i2 (op s0 s1 d : Z) := mkInst F_SOP2 op s0 s1 (-1) d 0 0.
Definition i1 (op s0 d : Z) := mkInst F_SOP1 op s0 (-1) (-1) d 0 0.
Definition ik (op k d : Z) := mkInst F_SOPK op (-1) (-1) (-1) d k 0.

(** CDNA3 ALU: the pinned test TestSOP1Opcode48SABSI32 asserts this behaviour, so
    the handler was left as it is *)
Lemma c_abs_i32 : refuted CDNA3 F_SOP1 48 false.    (* SCC = (S0 < 0) instead of (D != 0) *)
Proof. refute (wst [(0, 5)] 0 0 0) (i1 48 0 2). Qed.
(** VCCZ / EXECZ as source operands panic ("Register type not supported") *)
Definition operand_refuted (a : arch) (s0 d : Z) : Prop :=
  exists st, wf st /\ ~ agree a st (i1 0 s0 d).
Ltac orefute st :=
  exists st; split; [apply wf_wst; [reflexivity| auto | unfold W64; lia | unfold W64; lia]|];
  apply differs_not_agree; vm_compute; reflexivity.
Lemma g_vccz_src : operand_refuted GCN3 251 2. Proof. orefute (wst [] 0 0 0). Qed.
Lemma c_vccz_src : operand_refuted CDNA3 251 2. Proof. orefute (wst [] 0 0 0). Qed.
Lemma g_execz_src : operand_refuted GCN3 252 2. Proof. orefute (wst [] 0 0 0). Qed.
Lemma c_execz_src : operand_refuted CDNA3 252 2. Proof. orefute (wst [] 0 0 0). Qed.
