(** C03 — DS (LDS) reads and writes: handler loop = manual. *)
From Coq Require Import ZArith List Bool Lia ZifyBool.
From RecordUpdate Require Import RecordSet.
Import RecordSetNotations.
Import ListNotations.
From VIsa Require Import IsaState ExecImpl ExecSpec ExecImplV ExecSpecV ExecProofs ExecRows ExecVProofs ExecImplM ExecSpecM ExecMProofs ExecMFlat.
Open Scope Z_scope.
Ltac Zify.zify_post_hook ::= Z.div_mod_to_equations.

Lemma ds_addr_ok : forall st s i l off, vrange_ok (i_src0 i) 1 = true -> (forall j, vgpr s l j = vgpr st l j) ->
  ds_addr s i l off = Some (ds_ea st i l off).
Proof.
  intros st s i l off Hr Hv. unfold ds_addr, rdvk. unfold vrange_ok in Hr. rewrite Hr.
  unfold rdv. replace ((256 <=? i_src0 i) && (i_src0 i <=? 511)) with true by lia.
  change (1 <=? 1) with true. cbv beta iota. cbn [bind]. rewrite Hv. unfold ds_ea, u32.
  rewrite Zplus_mod_idemp_l. reflexivity.
Qed.

Lemma inside_lane : forall st lsz ea n l, ds_inside st lsz ea n = true -> In l lanes -> bit (exec st) l = true ->
  in_lds lsz (ea l) n = true.
Proof.
  intros st lsz ea n l H Hl Hb. unfold ds_inside in H. rewrite forallb_forall in H.
  rewrite <- lanes_seq in H. specialize (H l Hl). rewrite (active_bit st l Hl), Hb in H. exact H.
Qed.

Lemma ds_words_ok : forall st s a k, (forall x, lds s x = lds st x) -> 0 <= k ->
  ds_words (lds s) a (4 * k) = lds_dwords st a k /\ Z.of_nat (length (lds_dwords st a k)) = k.
Proof.
  intros st s a k Hl Hk. unfold ds_words, lds_dwords. replace (4 * k / 4) with k by lia. split.
  - apply map_ext. intros j. rewrite ld4_dword_lds. unfold dword_at. rewrite !Hl. reflexivity.
  - rewrite map_length, seq_length. lia.
Qed.

(** ** one-address reads: ds_read_b32 / b64 / b128 *)
Theorem ds_read_agree : forall a lsz st i k, i_fmt i = F_DS ->
  In (i_op i, k) [(54, 1); (118, 2); (255, 4)] -> (i_op i = 255 -> a = CDNA3) ->
  vrange_ok (i_src0 i) 1 = true -> vrange_ok (i_dst i) k = true ->
  ds_inside st lsz (fun l => ds_ea st i l (ds_off0 i)) (4 * k) = true ->
  agree_m a lsz st i.
Proof.
  intros a lsz st i k Hf Hin Harch Ha Hd Hin_lds.
  assert (Hk : 0 <= k) by (cbn [In] in Hin; repeat (destruct Hin as [Hin|Hin]; [injection Hin as _ <-; lia|]); contradiction).
  assert (Hops : (cdna3_only_ds (i_op i) && match a with GCN3 => true | CDNA3 => false end) = false /\
                 ds_write1 (i_op i) = None /\ ds_write2 (i_op i) = None /\ ds_read1 (i_op i) = Some (4 * k, true) /\
                 ds_row a (i_op i) = Some (DsRead k)).
  { cbn [In] in Hin. destruct Hin as [Hin|[Hin|[Hin|[]]]]; injection Hin as E1 E2; rewrite <- E1 in *; rewrite <- E2.
    - repeat split; reflexivity.
    - repeat split; reflexivity.
    - rewrite (Harch eq_refl). repeat split; reflexivity. }
  destruct Hops as (H0 & H1 & H2 & H3 & H4).
  unfold agree_m, exec_mem, exec_spec_mem. rewrite Hf. unfold x_ds, spec_ds. rewrite H0, H1, H2, H3, H4, Ha, Hd, Hin_lds.
  cbn [negb andb].
  set (W := fun l => lds_dwords st (ds_ea st i l (ds_off0 i)) k).
  destruct (load_mloop (exec st)
      (fun l s => bind (ds_addr s i l (off0 i)) (fun ad =>
         if negb (in_lds lsz ad (4 * k)) then None else wrk s l (i_dst i) (ds_words (lds s) ad (4 * k))))
      st (i_dst i - 256) W (fun l => In l lanes /\ bit (exec st) l = true)) as (s' & HL & HS & HV).
  { intros l s [Hl Hb] Hag. rewrite (ds_addr_ok st s i l _ Ha (proj2 Hag)). cbn [bind].
    change (off0 i) with (ds_off0 i).
    rewrite (inside_lane st lsz _ _ l Hin_lds Hl Hb). cbn [negb].
    destruct Hag as ((_&_&_&_&_&_&_&Hlds) & _).
    destruct (ds_words_ok st s (ds_ea st i l (ds_off0 i)) k Hlds Hk) as [Hw Hlen]. rewrite Hw.
    apply (wrk_ok _ _ _ _ k Hd Hlen). }
  { intros l Hl Hb. split; assumption. }
  rewrite HL. do 2 eexists. split; [reflexivity|]. split; [reflexivity|].
  apply load_finish; [exact HS| |exact HV].
  intros l. apply (ds_words_ok st st _ k (fun x => eq_refl) Hk).
Qed.

(** ** two-address reads: ds_read2_b32 / ds_read2_b64 *)
Theorem ds_read2_agree : forall a lsz st i k, i_fmt i = F_DS ->
  In (i_op i, k) [(55, 1); (119, 2)] ->
  vrange_ok (i_src0 i) 1 = true -> vrange_ok (i_dst i) (2 * k) = true ->
  ds_inside st lsz (fun l => ds_ea st i l (ds_off0 i * (4 * k))) (4 * k) = true ->
  ds_inside st lsz (fun l => ds_ea st i l (ds_off1 i * (4 * k))) (4 * k) = true ->
  agree_m a lsz st i.
Proof.
  intros a lsz st i k Hf Hin Ha Hd Hi0 Hi1.
  assert (Hk : 0 <= k) by (cbn [In] in Hin; repeat (destruct Hin as [Hin|Hin]; [injection Hin as _ <-; lia|]); contradiction).
  assert (Hops : (cdna3_only_ds (i_op i) && match a with GCN3 => true | CDNA3 => false end) = false /\
                 ds_write1 (i_op i) = None /\ ds_write2 (i_op i) = None /\ ds_read1 (i_op i) = None /\
                 ds_read2 (i_op i) = Some (4 * k) /\ ds_row a (i_op i) = Some (DsRead2 k)).
  { cbn [In] in Hin. destruct Hin as [Hin|[Hin|[]]]; injection Hin as E1 E2; rewrite <- E1 in *; rewrite <- E2;
      repeat split; reflexivity. }
  destruct Hops as (H0 & H1 & H2 & H3 & H4 & H5).
  unfold agree_m, exec_mem, exec_spec_mem. rewrite Hf. unfold x_ds, spec_ds. rewrite H0, H1, H2, H3, H4, H5, Ha, Hd, Hi0, Hi1.
  cbn [negb andb].
  set (W := fun l => lds_dwords st (ds_ea st i l (ds_off0 i * (4 * k))) k ++ lds_dwords st (ds_ea st i l (ds_off1 i * (4 * k))) k).
  destruct (load_mloop (exec st)
      (fun l s => bind (ds_addr s i l (off0 i * (4 * k))) (fun ad0 => bind (ds_addr s i l (off1 i * (4 * k))) (fun ad1 =>
         if negb (in_lds lsz ad0 (4 * k) && in_lds lsz ad1 (4 * k)) then None
         else wrk s l (i_dst i) (ds_words (lds s) ad0 (4 * k) ++ ds_words (lds s) ad1 (4 * k)))))
      st (i_dst i - 256) W (fun l => In l lanes /\ bit (exec st) l = true)) as (s' & HL & HS & HV).
  { intros l s [Hl Hb] Hag. rewrite !(ds_addr_ok st s i l _ Ha (proj2 Hag)). cbn [bind].
    change (off0 i) with (ds_off0 i). change (off1 i) with (ds_off1 i).
    rewrite (inside_lane st lsz _ _ l Hi0 Hl Hb), (inside_lane st lsz _ _ l Hi1 Hl Hb). cbn [negb andb].
    destruct Hag as ((_&_&_&_&_&_&_&Hlds) & _).
    destruct (ds_words_ok st s (ds_ea st i l (ds_off0 i * (4 * k))) k Hlds Hk) as [Hw0 Hl0].
    destruct (ds_words_ok st s (ds_ea st i l (ds_off1 i * (4 * k))) k Hlds Hk) as [Hw1 Hl1].
    rewrite Hw0, Hw1. apply (wrk_ok _ _ _ _ (2 * k) Hd). rewrite app_length. lia. }
  { intros l Hl Hb. split; assumption. }
  rewrite HL. do 2 eexists. split; [reflexivity|]. split; [reflexivity|].
  apply load_finish; [exact HS| |exact HV].
  intros l. unfold W. rewrite app_length.
  pose proof (proj2 (ds_words_ok st st (ds_ea st i l (ds_off0 i * (4 * k))) k (fun x => eq_refl) Hk)).
  pose proof (proj2 (ds_words_ok st st (ds_ea st i l (ds_off1 i * (4 * k))) k (fun x => eq_refl) Hk)). lia.
Qed.

(** ** writes *)
Lemma b4_length : forall vs, length (flat_map b4 vs) = (4 * length vs)%nat.
Proof. induction vs as [|v t IH]; [reflexivity|]. cbn [flat_map b4 app length]. rewrite IH. lia. Qed.
Lemma vregs_length : forall st l r k, 0 <= k -> length (vregs st l r k) = Z.to_nat k.
Proof. intros. unfold vregs. rewrite map_length, seq_length. reflexivity. Qed.

Theorem ds_write_agree : forall a lsz st i k, i_fmt i = F_DS ->
  In (i_op i, k) [(13, 1); (223, 4)] -> (i_op i = 223 -> a = CDNA3) ->
  vrange_ok (i_src0 i) 1 = true -> vrange_ok (i_src1 i) k = true ->
  ds_inside st lsz (fun l => ds_ea st i l (ds_off0 i)) (4 * k) = true ->
  agree_m a lsz st i.
Proof.
  intros a lsz st i k Hf Hin Harch Ha Hd Hin_lds.
  assert (Hk : 0 < k) by (cbn [In] in Hin; repeat (destruct Hin as [Hin|Hin]; [injection Hin as _ <-; lia|]); contradiction).
  assert (Hops : (cdna3_only_ds (i_op i) && match a with GCN3 => true | CDNA3 => false end) = false /\
                 ds_write1 (i_op i) = Some (4 * k) /\ ds_row a (i_op i) = Some (DsWrite k)).
  { cbn [In] in Hin. destruct Hin as [Hin|[Hin|[]]]; injection Hin as E1 E2; rewrite <- E1 in *; rewrite <- E2.
    - repeat split; reflexivity.
    - rewrite (Harch eq_refl). repeat split; reflexivity. }
  destruct Hops as (H0 & H1 & H4).
  unfold agree_m, exec_mem, exec_spec_mem. rewrite Hf. unfold x_ds, spec_ds. rewrite H0, H1, H4, Ha, Hd, Hin_lds.
  cbn [negb andb].
  replace (4 * k <? 4) with false by lia. replace (4 * k / 4) with k by lia.
  set (Wm := fun l m => wr_bytes idz m (ds_ea st i l (ds_off0 i)) (flat_map b4 (vregs st l (i_src1 i - 256) k))).
  destruct (store_mloop (exec st)
      (fun l s => bind (ds_addr s i l (off0 i)) (fun ad =>
         if negb (in_lds lsz ad (4 * k)) then None else
         bind (reg_bytes s l (i_src1 i) k) (fun bs =>
         Some (s <| lds := wr_bytes idz (lds s) ad (firstn (Z.to_nat (4 * k)) bs) |>))))
      st false Wm (fun l => In l lanes /\ bit (exec st) l = true)) as (s' & HL & HS & HM).
  { intros l s [Hl Hb] (A1&A2&_). rewrite (ds_addr_ok st s i l _ Ha (A2 l)). cbn [bind].
    change (off0 i) with (ds_off0 i). rewrite (inside_lane st lsz _ _ l Hin_lds Hl Hb). cbn [negb].
    rewrite (reg_bytes_ok st s l _ k A2 Hd). cbn [bind].
    rewrite firstn_all2 by (rewrite b4_length, vregs_length by lia; lia). reflexivity. }
  { intros l Hl Hb. split; assumption. }
  rewrite HL. do 2 eexists. split; [reflexivity|]. split; [reflexivity|].
  destruct HS as (A1&A2&A3&A4&A5&A6&A7&A8). cbn [getsp negb] in A8, HM.
  repeat split; cbn [sgpr vgpr exec vcc scc m0 pc mem lds set]; auto.
  intros x. rewrite HM. unfold store_lanes. rewrite <- lanes_seq.
  apply fold_pw; [|reflexivity].
  intros l m m' Hl Hm y. rewrite (active_bit st l Hl). destruct (bit (exec st) l); [|apply Hm].
  unfold Wm. rewrite wr_bytes_wrb. apply wrb_set; [reflexivity|exact Hm].
Qed.

Theorem ds_write2_agree : forall a lsz st i k, i_fmt i = F_DS ->
  In (i_op i, k) [(14, 1); (78, 2)] ->
  vrange_ok (i_src0 i) 1 = true -> vrange_ok (i_src1 i) k = true -> vrange_ok (i_src2 i) k = true ->
  ds_inside st lsz (fun l => ds_ea st i l (ds_off0 i * (4 * k))) (4 * k) = true ->
  ds_inside st lsz (fun l => ds_ea st i l (ds_off1 i * (4 * k))) (4 * k) = true ->
  agree_m a lsz st i.
Proof.
  intros a lsz st i k Hf Hin Ha Hd1 Hd2 Hi0 Hi1.
  assert (Hk : 0 < k) by (cbn [In] in Hin; repeat (destruct Hin as [Hin|Hin]; [injection Hin as _ <-; lia|]); contradiction).
  assert (Hops : (cdna3_only_ds (i_op i) && match a with GCN3 => true | CDNA3 => false end) = false /\
                 ds_write1 (i_op i) = None /\ ds_write2 (i_op i) = Some (4 * k) /\ ds_row a (i_op i) = Some (DsWrite2 k)).
  { cbn [In] in Hin. destruct Hin as [Hin|[Hin|[]]]; injection Hin as E1 E2; rewrite <- E1 in *; rewrite <- E2;
      repeat split; reflexivity. }
  destruct Hops as (H0 & H1 & H2 & H4).
  unfold agree_m, exec_mem, exec_spec_mem. rewrite Hf. unfold x_ds, spec_ds. rewrite H0, H1, H2, H4, Ha, Hd1, Hd2, Hi0, Hi1.
  cbn [negb andb].
  replace (4 * k / 4) with k by lia.
  set (Wm := fun l m => wr_bytes idz (wr_bytes idz m (ds_ea st i l (ds_off0 i * (4 * k))) (flat_map b4 (vregs st l (i_src1 i - 256) k)))
                                 (ds_ea st i l (ds_off1 i * (4 * k))) (flat_map b4 (vregs st l (i_src2 i - 256) k))).
  destruct (store_mloop (exec st)
      (fun l s => bind (ds_addr s i l (off0 i * (4 * k))) (fun ad0 => bind (ds_addr s i l (off1 i * (4 * k))) (fun ad1 =>
         if negb (in_lds lsz ad0 (4 * k) && in_lds lsz ad1 (4 * k)) then None else
         bind (reg_bytes s l (i_src1 i) k) (fun b0 => bind (reg_bytes s l (i_src2 i) k) (fun b1 =>
         Some (s <| lds := wr_bytes idz (wr_bytes idz (lds s) ad0 b0) ad1 b1 |>))))))
      st false Wm (fun l => In l lanes /\ bit (exec st) l = true)) as (s' & HL & HS & HM).
  { intros l s [Hl Hb] (A1&A2&_). rewrite !(ds_addr_ok st s i l _ Ha (A2 l)). cbn [bind].
    change (off0 i) with (ds_off0 i). change (off1 i) with (ds_off1 i).
    rewrite (inside_lane st lsz _ _ l Hi0 Hl Hb), (inside_lane st lsz _ _ l Hi1 Hl Hb). cbn [negb andb].
    rewrite (reg_bytes_ok st s l _ k A2 Hd1), (reg_bytes_ok st s l _ k A2 Hd2). cbn [bind]. reflexivity. }
  { intros l Hl Hb. split; assumption. }
  rewrite HL. do 2 eexists. split; [reflexivity|]. split; [reflexivity|].
  destruct HS as (A1&A2&A3&A4&A5&A6&A7&A8). cbn [getsp negb] in A8, HM.
  repeat split; cbn [sgpr vgpr exec vcc scc m0 pc mem lds set]; auto.
  intros x. rewrite HM. rewrite <- lanes_seq.
  apply fold_pw; [|reflexivity].
  intros l m m' Hl Hm y. rewrite (active_bit st l Hl). destruct (bit (exec st) l); [|apply Hm].
  unfold Wm. rewrite !wr_bytes_wrb. apply wrb_set; [reflexivity|].
  intros z. apply wrb_set; [reflexivity|exact Hm].
Qed.
