(** C03 — vector rows proved by the generic arithmetic tactic (part 5). *)
From Coq Require Import ZArith List Bool Lia ZifyBool.
Import ListNotations.
From VIsa Require Import IsaState ExecImpl ExecSpec ExecImplV ExecSpecV ExecProofs ExecRows ExecVProofs ExecVRowsA.
Open Scope Z_scope.
Ltac Zify.zify_post_hook ::= Z.div_mod_to_equations.

Lemma r_g_vop2_14 : row_ok GCN3 F_VOP2 14. Proof. try_row. Qed.
Lemma r_g_vop2_26 : row_ok GCN3 F_VOP2 26. Proof. try_row. Qed.
Lemma r_g_vopc_193 : row_ok GCN3 F_VOPC 193. Proof. try_row. Qed.
Lemma r_g_vopc_202 : row_ok GCN3 F_VOPC 202. Proof. try_row. Qed.
Lemma r_g_vop3a_195 : row_ok GCN3 F_VOP3A 195. Proof. try_row. Qed.
Lemma r_g_vop3a_204 : row_ok GCN3 F_VOP3A 204. Proof. try_row. Qed.
Lemma r_g_vop3b_281 : row_ok GCN3 F_VOP3B 281. Proof. try_row. Qed.
Lemma r_c_vop2_0 : row_ok CDNA3 F_VOP2 0. Proof. try_row. Qed.
Lemma r_c_vop2_25 : row_ok CDNA3 F_VOP2 25. Proof. try_row. Qed.
Lemma r_c_vop2_52 : row_ok CDNA3 F_VOP2 52. Proof. try_row. Qed.
Lemma r_c_vopc_196 : row_ok CDNA3 F_VOPC 196. Proof. try_row. Qed.
Lemma r_c_vopc_204 : row_ok CDNA3 F_VOPC 204. Proof. try_row. Qed.
Lemma r_c_vop3a_198 : row_ok CDNA3 F_VOP3A 198. Proof. try_row. Qed.
Lemma r_c_vop3a_206 : row_ok CDNA3 F_VOP3A 206. Proof. try_row. Qed.
Lemma r_c_vop3b_282 : row_ok CDNA3 F_VOP3B 282. Proof. try_row. Qed.
