(** C04 — bytes beyond the reported size never influence the result, and the
    reported size lies within the buffer. *)
From Coq Require Import NArith ZArith List String Bool Lia Permutation.
From Coq Require Import ZifyN ZifyBool ZifyNat.
From RecordUpdate Require Import RecordSet.
From VIsa Require Import InstTypes Decode DecodeProofs.
From VGen Require Import FormatTable DecodeTable RegTable.
Import ListNotations.
Open Scope N_scope.

(** [f len w1] (a format's decode function applied to everything else) gives
    the same instruction for any other buffer that is at least as long as the
    reported size and agrees on the second dword when that dword is inside *)
Definition stable (f : N -> N -> res inst) : Prop :=
  forall len w1 i, f len w1 = ROk i ->
    forall len' w1', i_size i <= len' -> (8 <= i_size i -> w1' = w1) -> f len' w1' = ROk i.

(** ... and the reported size is within the buffer, at least [m] *)
Definition sized (m : N) (f : N -> N -> res inst) : Prop :=
  forall len w1 i, m <= len -> f len w1 = ROk i ->
    m <= i_size i <= len /\ (i_size i = m \/ i_size i = m + 4).

Lemma ROk_size (a b : inst) : ROk a = ROk b -> i_size b = i_size a.
Proof. intros H. injection H as ->. reflexivity. Qed.

Lemma literal_inv len w1 o sz lsz o' sz' :
  literal len w1 o sz lsz = ROk (o', sz') ->
  (is_lit o = false /\ o' = o /\ sz' = sz)
  \/ (is_lit o = true /\ 8 <= len /\ o' = set o_lit (fun _ => w1) o /\ sz' = lsz).
Proof.
  unfold literal. destruct (is_lit o).
  - destruct (N.ltb_spec len 8) as [|G]; [discriminate|]. intros E; inversion E; subst. right. auto.
  - intros E; inversion E; subst. left. auto.
Qed.

Lemma literal_nolit len w1 o sz lsz : is_lit o = false -> literal len w1 o sz lsz = ROk (o, sz).
Proof. unfold literal. intros ->. reflexivity. Qed.

Lemma literal_lit len w1 o sz lsz :
  is_lit o = true -> 8 <= len -> literal len w1 o sz lsz = ROk (set o_lit (fun _ => w1) o, lsz).
Proof. unfold literal. intros -> H. destruct (N.ltb_spec len 8); [lia|reflexivity]. Qed.

(** replay one literal block of the first run in the second run *)
Ltac run_literals len' w1' :=
  repeat (first [ rewrite (literal_nolit len' w1') by assumption
                | rewrite (literal_lit len' w1') by (try assumption; lia) ];
          cbn [bind]).

Ltac replay_literal L :=
  apply literal_inv in L;
  destruct L as [(?Hl & ? & ?) | (?Hl & ?H8 & ? & ?)]; subst.


Lemma stable_sopk w0 i0 : stable (fun _ _ => decode_sopk w0 i0).
Proof. intros len w1 i H len' w1' _ _. exact H. Qed.
Lemma stable_sopp w0 i0 : stable (fun _ _ => decode_sopp w0 i0).
Proof. intros len w1 i H len' w1' _ _. exact H. Qed.

Lemma sized_sopk w0 i0 (Hsz : i_size i0 = 4) : sized 4 (fun _ _ => decode_sopk w0 i0).
Proof.
  intros len w1 i Hlen. unfold decode_sopk. destruct (getop _); cbn [bind]; try discriminate.
  intros H; rewrite (ROk_size _ _ H). change (i_size (set i_dst _ (set i_simm16 _ i0))) with (i_size i0). lia.
Qed.
Lemma sized_sopp w0 i0 (Hsz : i_size i0 = 4) : sized 4 (fun _ _ => decode_sopp w0 i0).
Proof.
  intros len w1 i Hlen. unfold decode_sopp. cbv zeta.
  destruct (_ =? 12); intros H; rewrite (ROk_size _ _ H);
    match goal with |- context[i_size ?x] => change (i_size x) with (i_size i0) end; lia.
Qed.

Lemma stable_sized_sopc w0 i0 (Hsz : i_size i0 = 4) (Hlsz : lit_size i0 = 8) :
  stable (fun len w1 => decode_sopc len w0 w1 i0) /\ sized 4 (fun len w1 => decode_sopc len w0 w1 i0).
Proof.
  split.
  - intros len w1 i H len' w1' Hs Hw. revert H. unfold decode_sopc. rewrite Hsz, Hlsz.
    destruct (getop (extract_bits w0 0 7)) as [a| | |]; cbn [bind]; try discriminate.
    destruct (literal len w1 a 4 8) as [[o1 s1]| | |] eqn:L1; cbn [bind]; try discriminate.
    destruct (getop (extract_bits w0 8 15)) as [b| | |]; cbn [bind]; try discriminate.
    destruct (literal len w1 b s1 8) as [[o2 s2]| | |] eqn:L2; cbn [bind]; try discriminate.
    intros H. assert (Es : i_size i = s2) by (inversion H; reflexivity). rewrite Es in Hs, Hw. clear Es.
    replay_literal L1; replay_literal L2; run_literals len' w1';
      rewrite ?(Hw ltac:(lia)); exact H.
  - intros len w1 i Hlen. unfold decode_sopc. rewrite Hsz, Hlsz.
    destruct (getop (extract_bits w0 0 7)) as [a| | |]; cbn [bind]; try discriminate.
    destruct (literal len w1 a 4 8) as [[o1 s1]| | |] eqn:L1; cbn [bind]; try discriminate.
    destruct (getop (extract_bits w0 8 15)) as [b| | |]; cbn [bind]; try discriminate.
    destruct (literal len w1 b s1 8) as [[o2 s2]| | |] eqn:L2; cbn [bind]; try discriminate.
    intros H. assert (Es : i_size i = s2) by (inversion H; reflexivity). rewrite Es.
    replay_literal L1; replay_literal L2; lia.
Qed.

Lemma stable_sized_sop2 w0 i0 (Hsz : i_size i0 = 4) (Hlsz : lit_size i0 = 8) :
  stable (fun len w1 => decode_sop2 len w0 w1 i0) /\ sized 4 (fun len w1 => decode_sop2 len w0 w1 i0).
Proof.
  split.
  - intros len w1 i H len' w1' Hs Hw. revert H. unfold decode_sop2. cbv zeta. rewrite Hsz, Hlsz.
    destruct (getop (extract_bits w0 0 7)) as [a| | |]; cbn [bind]; try discriminate.
    destruct (literal len w1 a 4 8) as [[o1 s1]| | |] eqn:L1; cbn [bind]; try discriminate.
    destruct (getop (extract_bits w0 8 15)) as [b| | |]; cbn [bind]; try discriminate.
    destruct (literal len w1 b s1 8) as [[o2 s2]| | |] eqn:L2; cbn [bind]; try discriminate.
    destruct (getop (extract_bits w0 16 22)) as [d| | |]; cbn [bind]; try discriminate.
    intros H. assert (Es : i_size i = s2) by (destruct (contains _ _); inversion H; reflexivity).
    rewrite Es in Hs, Hw. clear Es.
    replay_literal L1; replay_literal L2; run_literals len' w1';
      rewrite ?(Hw ltac:(lia)); exact H.
  - intros len w1 i Hlen. unfold decode_sop2. cbv zeta. rewrite Hsz, Hlsz.
    destruct (getop (extract_bits w0 0 7)) as [a| | |]; cbn [bind]; try discriminate.
    destruct (literal len w1 a 4 8) as [[o1 s1]| | |] eqn:L1; cbn [bind]; try discriminate.
    destruct (getop (extract_bits w0 8 15)) as [b| | |]; cbn [bind]; try discriminate.
    destruct (literal len w1 b s1 8) as [[o2 s2]| | |] eqn:L2; cbn [bind]; try discriminate.
    destruct (getop (extract_bits w0 16 22)) as [d| | |]; cbn [bind]; try discriminate.
    intros H. assert (Es : i_size i = s2) by (destruct (contains _ _); inversion H; reflexivity).
    rewrite Es. replay_literal L1; replay_literal L2; lia.
Qed.

Lemma is_lit_cnt64 w o : is_lit (cnt64 w o) = is_lit o.
Proof. unfold cnt64. destruct (w =? 64); reflexivity. Qed.

Lemma stable_sized_sop1 w0 i0 (Hsz : i_size i0 = 4) (Hlsz : lit_size i0 = 8) :
  stable (fun len w1 => decode_sop1 len w0 w1 i0) /\ sized 4 (fun len w1 => decode_sop1 len w0 w1 i0).
Proof.
  split.
  - intros len w1 i H len' w1' Hs Hw. revert H. unfold decode_sop1. cbv zeta. rewrite Hsz, Hlsz.
    destruct (getop (extract_bits w0 0 7)) as [a| | |]; cbn [bind]; try discriminate.
    destruct (getop (extract_bits w0 16 22)) as [d| | |]; cbn [bind]; try discriminate.
    destruct (literal len w1 _ 4 8) as [[o1 s1]| | |] eqn:L1; cbn [bind]; try discriminate.
    intros H. assert (Es : i_size i = s1) by (inversion H; reflexivity).
    rewrite Es in Hs, Hw. clear Es.
    replay_literal L1; run_literals len' w1'; rewrite ?(Hw ltac:(lia)); exact H.
  - intros len w1 i Hlen. unfold decode_sop1. cbv zeta. rewrite Hsz, Hlsz.
    destruct (getop (extract_bits w0 0 7)) as [a| | |]; cbn [bind]; try discriminate.
    destruct (getop (extract_bits w0 16 22)) as [d| | |]; cbn [bind]; try discriminate.
    destruct (literal len w1 _ 4 8) as [[o1 s1]| | |] eqn:L1; cbn [bind]; try discriminate.
    intros H. assert (Es : i_size i = s1) by (inversion H; reflexivity).
    rewrite Es. replay_literal L1; lia.
Qed.

Lemma stable_sized_vopc w0 i0 (Hsz : i_size i0 = 4) (Hlsz : lit_size i0 = 8) :
  stable (fun len w1 => decode_vopc len w0 w1 i0) /\ sized 4 (fun len w1 => decode_vopc len w0 w1 i0).
Proof.
  split.
  - intros len w1 i H len' w1' Hs Hw. revert H. unfold decode_vopc. cbv zeta. rewrite Hsz, Hlsz.
    destruct (getop (extract_bits w0 0 8)) as [a| | |]; cbn [bind]; try discriminate.
    destruct (literal len w1 _ 4 8) as [[o1 s1]| | |] eqn:L1; cbn [bind]; try discriminate.
    intros H. assert (Es : i_size i = s1) by (inversion H; reflexivity).
    rewrite Es in Hs, Hw. clear Es.
    replay_literal L1; run_literals len' w1'; rewrite ?(Hw ltac:(lia)); exact H.
  - intros len w1 i Hlen. unfold decode_vopc. cbv zeta. rewrite Hsz, Hlsz.
    destruct (getop (extract_bits w0 0 8)) as [a| | |]; cbn [bind]; try discriminate.
    destruct (literal len w1 _ 4 8) as [[o1 s1]| | |] eqn:L1; cbn [bind]; try discriminate.
    intros H. assert (Es : i_size i = s1) by (inversion H; reflexivity).
    rewrite Es. replay_literal L1; lia.
Qed.

Lemma stable_sized_vop1 w0 i0 (Hsz : i_size i0 = 4) (Hlsz : lit_size i0 = 8) :
  stable (fun len w1 => decode_vop1 len w0 w1 i0) /\ sized 4 (fun len w1 => decode_vop1 len w0 w1 i0).
Proof.
  split.
  - intros len w1 i H len' w1' Hs Hw. revert H. unfold decode_vop1. cbv zeta. rewrite Hsz, Hlsz.
    destruct (getop (extract_bits w0 0 8)) as [a| | |]; cbn [bind]; try discriminate.
    destruct (literal len w1 _ 4 8) as [[o1 s1]| | |] eqn:L1; cbn [bind]; try discriminate.
    match goal with |- context[bind ?m _] => destruct m as [d| | |]; cbn [bind]; try discriminate end.
    intros H.
    assert (Es : i_size i = s1).
    { revert H. match goal with |- context[let '(_, _) := ?p in _] => destruct p end.
      intros H; inversion H; reflexivity. }
    rewrite Es in Hs, Hw. clear Es.
    replay_literal L1; run_literals len' w1'; rewrite ?(Hw ltac:(lia)); exact H.
  - intros len w1 i Hlen. unfold decode_vop1. cbv zeta. rewrite Hsz, Hlsz.
    destruct (getop (extract_bits w0 0 8)) as [a| | |]; cbn [bind]; try discriminate.
    destruct (literal len w1 _ 4 8) as [[o1 s1]| | |] eqn:L1; cbn [bind]; try discriminate.
    match goal with |- context[bind ?m _] => destruct m as [d| | |]; cbn [bind]; try discriminate end.
    intros H.
    assert (Es : i_size i = s1).
    { revert H. match goal with |- context[let '(_, _) := ?p in _] => destruct p end.
      intros H; inversion H; reflexivity. }
    rewrite Es. replay_literal L1; lia.
Qed.

(* ------------------------------------------------------------------ VOP2 *)


Lemma stable_sized_vop2 w0 i0 (Hsz : i_size i0 = 4) (Hlsz : lit_size i0 = 8) :
  stable (fun len w1 => decode_vop2 len w0 w1 i0) /\ sized 4 (fun len w1 => decode_vop2 len w0 w1 i0).
Proof.
  assert (Core : forall len w1 i, decode_vop2 len w0 w1 i0 = ROk i ->
            (i_size i = 4 /\ forall len' w1', decode_vop2 len' w0 w1' i0 = ROk i)
            \/ (i_size i = 8 /\ 8 <= len /\ forall len', 8 <= len' -> decode_vop2 len' w0 w1 i0 = ROk i)).
  { intros len w1 i. unfold decode_vop2, literal. cbv zeta. rewrite Hsz, Hlsz.
    destruct (extract_bits w0 0 8 =? 249).
    - destruct (N.ltb_spec len 8) as [|Hl8]; [discriminate|].
      match goal with |- context[if ?c then RNotImpl else _] => destruct c eqn:Eni end; [discriminate|].
      cbn [bind]. cbv beta iota.
      change (is_lit (new_vreg (extract_bits w1 0 7) (extract_bits w1 0 7) 0)) with false. cbv iota. cbn [bind]. cbv beta iota.
      destruct (is_madk _).
      + intros H. right. split; [rewrite (ROk_size _ _ H); reflexivity|]. split; [exact Hl8|].
        intros len' H8'. destruct (N.ltb_spec len' 8); [lia|]. exact H.
      + intros H. right. split; [rewrite (ROk_size _ _ H); reflexivity|]. split; [exact Hl8|].
        intros len' H8'. destruct (N.ltb_spec len' 8); [lia|]. exact H.
    - destruct (getop (extract_bits w0 0 8)) as [a| | |]; cbn [bind]; try discriminate. cbv beta iota.
      destruct (is_lit a).
      + destruct (N.ltb_spec len 8) as [|Hl8]; [discriminate|]. cbn [bind]. cbv beta iota. cbn [andb].
        destruct (is_madk _); intros H; right; (split; [rewrite (ROk_size _ _ H); reflexivity|]); (split; [exact Hl8|]);
          intros len' H8'; destruct (N.ltb_spec len' 8); try lia; exact H.
      + cbn [bind]. cbv beta iota. cbn [andb].
        destruct (is_madk _).
        * destruct (N.ltb_spec len 8) as [|Hl8]; [discriminate|].
          intros H; right; (split; [rewrite (ROk_size _ _ H); reflexivity|]); (split; [exact Hl8|]);
          intros len' H8'; destruct (N.ltb_spec len' 8); try lia; exact H.
        * intros H. left. split; [rewrite (ROk_size _ _ H); reflexivity|]. intros len' w1'. exact H. }
  split.
  - intros len w1 i H len' w1' Hs Hw.
    destruct (Core len w1 i H) as [[E4 A]|(E8 & _ & A)]; [apply A|].
    rewrite (Hw ltac:(lia)). apply A. lia.
  - intros len w1 i Hlen H. destruct (Core len w1 i H) as [[E4 A]|(E8 & L8 & A)]; lia.
Qed.

(* ------------------------------------------------------------------ 8-byte formats *)

Lemma read_hi_ok len w1 hi : read_hi len w1 = ROk hi -> 8 <= len /\ hi = w1.
Proof. unfold read_hi. destruct (N.ltb_spec len 8) as [|G]; [discriminate|]. intros E; inversion E; auto. Qed.

Lemma read_hi_ge len w1 : 8 <= len -> read_hi len w1 = ROk w1.
Proof. intros H. unfold read_hi. destruct (N.ltb_spec len 8); [lia|reflexivity]. Qed.

(** a decoder that reads the second dword first and then no longer looks at the
    buffer, and leaves the size at 8 *)
Lemma stable_sized_hi (body : N -> res inst) :
  (forall hi i, body hi = ROk i -> i_size i = 8) ->
  stable (fun len w1 => hi <- read_hi len w1 ;; body hi)
  /\ sized 8 (fun len w1 => hi <- read_hi len w1 ;; body hi).
Proof.
  intros Hb. split.
  - intros len w1 i H len' w1' Hs Hw.
    destruct (read_hi len w1) as [hi| | |] eqn:R; cbn [bind] in H; try discriminate.
    apply read_hi_ok in R. destruct R as [H8 ->].
    pose proof (Hb _ _ H) as E. rewrite E in *. rewrite (Hw ltac:(lia)).
    rewrite read_hi_ge by exact Hs. exact H.
  - intros len w1 i Hlen H.
    destruct (read_hi len w1) as [hi| | |] eqn:R; cbn [bind] in H; try discriminate.
    rewrite (Hb _ _ H). lia.
Qed.

(** [m] leaves the size of [i0] untouched *)
Definition keeps (n : N) (m : res inst) : Prop := forall i, m = ROk i -> i_size i = n.

Lemma keeps_bind {A} n (m : res A) f : (forall a, keeps n (f a)) -> keeps n (bind m f).
Proof. intros H i. destruct m; cbn [bind]; try discriminate. apply H. Qed.
Lemma keeps_ok n j : i_size j = n -> keeps n (ROk j).
Proof. intros H i E. rewrite (ROk_size _ _ E). exact H. Qed.
Lemma keeps_err n : keeps n RErr.  Proof. intros i; discriminate. Qed.

Ltac keeps_step :=
  match goal with
  | |- keeps _ (bind _ _) => apply keeps_bind; intros ?
  | |- keeps _ (if ?c then _ else _) => destruct c
  | |- keeps _ (ROk _) => apply keeps_ok; try reflexivity;
      repeat match goal with |- context[if ?c then _ else _] => destruct c end; reflexivity
  | |- keeps _ RErr => apply keeps_err
  end.

Lemma keeps_ds w0 hi i0 : keeps (i_size i0) (decode_ds_body w0 hi i0).
Proof. unfold decode_ds_body. cbv zeta. repeat keeps_step. Qed.
Lemma keeps_flat c w0 hi i0 : keeps (i_size i0) (decode_flat_body c w0 hi i0).
Proof. unfold decode_flat_body. cbv zeta. repeat keeps_step. Qed.
Lemma keeps_vop3a w0 hi i0 : keeps (i_size i0) (decode_vop3a_body w0 hi i0).
Proof. unfold decode_vop3a_body. cbv zeta. repeat keeps_step. Qed.
Lemma keeps_vop3b w0 hi i0 : keeps (i_size i0) (decode_vop3b_body w0 hi i0).
Proof. unfold decode_vop3b_body. cbv zeta. repeat keeps_step. Qed.

(* ------------------------------------------------------------------ SMEM *)

Lemma get_operand_lit n o : get_operand n = Some o -> is_lit o = true -> n = 255.
Proof.
  unfold get_operand.
  repeat match goal with
  | |- context[if ?c then _ else _] =>
      destruct c eqn:?; [ try (intros E; inversion E; subst; intros; try discriminate) | ]
  end; try discriminate.
  apply N.eqb_eq. assumption.
Qed.

Lemma extract_bits_lt w lo hi : lo <= hi -> extract_bits w lo hi < 2 ^ (hi - lo + 1).
Proof.
  intros H. unfold extract_bits.
  rewrite N.shiftl_1_l, <- N.pred_sub, <- N.ones_equiv.
  rewrite N.shiftr_land, N.shiftr_shiftl_l by lia.
  rewrite N.sub_diag, N.shiftl_0_r, N.land_ones. apply N.mod_lt. apply N.pow_nonzero. lia.
Qed.

Lemma stable_sized_smem w0 i0 (Hsz : i_size i0 = 8) (Hlsz : lit_size i0 = 12) :
  stable (fun len w1 => decode_smem len w0 w1 i0) /\ sized 8 (fun len w1 => decode_smem len w0 w1 i0).
Proof.
  assert (Hnl : forall a, getop (extract_bits w0 6 12) = ROk a -> is_lit a = false).
  { intros a. unfold getop. destruct (get_operand (extract_bits w0 6 12)) as [o|] eqn:G; [|discriminate].
    intros E; inversion E; subst. destruct (is_lit a) eqn:L; [|reflexivity].
    pose proof (get_operand_lit _ _ G L) as E255. pose proof (extract_bits_lt w0 6 12 ltac:(lia)) as B.
    rewrite E255 in B. vm_compute in B. discriminate. }
  split.
  - intros len w1 i H len' w1' Hs Hw. revert H. unfold decode_smem. cbv zeta. rewrite Hsz, Hlsz.
    destruct (read_hi len w1) as [hi| | |] eqn:R; cbn [bind]; try discriminate.
    apply read_hi_ok in R. destruct R as [H8 ->].
    destruct (getop (extract_bits w0 6 12)) as [a| | |] eqn:G; cbn [bind]; try discriminate.
    pose proof (Hnl a eq_refl) as La.
    rewrite !literal_nolit by exact La. cbn [bind]. cbv beta iota.
    intros H. assert (Es : i_size i = 8) by (rewrite (ROk_size _ _ H); reflexivity).
    rewrite Es in *. rewrite (Hw ltac:(lia)). rewrite read_hi_ge by exact Hs. cbn [bind]. exact H.
  - intros len w1 i Hlen. unfold decode_smem. cbv zeta. rewrite Hsz, Hlsz.
    destruct (read_hi len w1) as [hi| | |] eqn:R; cbn [bind]; try discriminate.
    destruct (getop (extract_bits w0 6 12)) as [a| | |] eqn:G; cbn [bind]; try discriminate.
    pose proof (Hnl a eq_refl) as La.
    rewrite !literal_nolit by exact La. cbn [bind]. cbv beta iota.
    intros H. rewrite (ROk_size _ _ H).
    match goal with |- context[i_size ?x] => change (i_size x) with 8 end. lia.
Qed.

(* ------------------------------------------------------------------ Decode *)

Lemma dispatch_stable_sized t c w0 f r :
  In f format_table -> f_type f = t -> supported t = true ->
  stable (fun len w1 => dispatch t c len w0 w1 (inst0 f r))
  /\ sized (f_size f) (fun len w1 => dispatch t c len w0 w1 (inst0 f r)).
Proof.
  intros Hf Ht Hsup. destruct (format_size_facts f Hf) as (_ & H8 & H4). rewrite Ht in H8, H4.
  assert (Hl : lit_size (inst0 f r) = f_size f + 4) by reflexivity.
  assert (Hs : i_size (inst0 f r) = f_size f) by reflexivity.
  destruct t; try discriminate Hsup; cbn [dispatch needs_hi] in *;
    try (specialize (H4 eq_refl eq_refl); rewrite H4 in *);
    try (specialize (H8 eq_refl); rewrite H8 in *).
  - apply stable_sized_sop2; assumption.
  - split; [apply stable_sopk | apply sized_sopk; assumption].
  - apply stable_sized_sop1; assumption.
  - apply stable_sized_sopc; assumption.
  - split; [apply stable_sopp | apply sized_sopp; assumption].
  - apply stable_sized_smem; assumption.
  - apply stable_sized_vop2; assumption.
  - apply stable_sized_vop1; assumption.
  - apply (stable_sized_hi (fun hi => decode_vop3a_body w0 hi (inst0 f r))).
    intros hi i E. rewrite (keeps_vop3a _ _ _ _ E). exact Hs.
  - apply (stable_sized_hi (fun hi => decode_vop3b_body w0 hi (inst0 f r))).
    intros hi i E. rewrite (keeps_vop3b _ _ _ _ E). exact Hs.
  - apply stable_sized_vopc; assumption.
  - apply (stable_sized_hi (fun hi => decode_ds_body w0 hi (inst0 f r))).
    intros hi i E. rewrite (keeps_ds _ _ _ _ E). exact Hs.
  - apply (stable_sized_hi (fun hi => decode_flat_body c w0 hi (inst0 f r))).
    intros hi i E. rewrite (keeps_flat _ _ _ _ _ E). exact Hs.
Qed.

Lemma decode_core_stable_sized fl c w0 :
  (forall g, In g fl -> In g format_table) ->
  stable (fun len w1 => decode_core fl c len w0 w1)
  /\ (forall len w1 i, 4 <= len -> decode_core fl c len w0 w1 = ROk i ->
        4 <= i_size i <= len /\ (i_size i = 4 \/ i_size i = 8 \/ i_size i = 12)).
Proof.
  intros Hfl.
  assert (Core : forall len w1 i, decode_core fl c len w0 w1 = ROk i ->
     exists f r, In f format_table /\ supported (f_type f) = true /\ match_format fl w0 = ROk f
       /\ lookup (f_type f) (retrieve_opcode f w0) = Some r /\ 4 <= len /\ f_size f <= len
       /\ dispatch (f_type f) c len w0 w1 (inst0 f r) = ROk i).
  { intros len w1 i. unfold decode_core.
    destruct (N.ltb_spec len 4) as [|H4]; [discriminate|].
    destruct (match_format fl w0) as [f| | |] eqn:M; cbn [bind]; try discriminate.
    destruct (lookup (f_type f) (retrieve_opcode f w0)) as [r|] eqn:L; cbn [bind]; [|discriminate].
    change (i_size (inst0 f r)) with (f_size f).
    destruct (N.ltb_spec len (f_size f)) as [|Hs]; [discriminate|]. intros D.
    exists f, r. repeat split; auto.
    - eapply match_format_in; eauto.
    - eapply lookup_supported; eauto. }
  split.
  - intros len w1 i H len' w1' Hs Hw.
    destruct (Core _ _ _ H) as (f & r & Hf & Hsup & M & L & H4 & Hfs & D).
    destruct (dispatch_stable_sized (f_type f) c w0 f r Hf eq_refl Hsup) as [St Sz].
    pose proof (Sz len w1 i Hfs D) as [[B1 B2] B3].
    destruct (format_size_facts f Hf) as ([E|E] & _ & _).
    + unfold decode_core. destruct (N.ltb_spec len' 4); [lia|]. rewrite M. cbn [bind]. rewrite L. cbn [bind].
      change (i_size (inst0 f r)) with (f_size f). destruct (N.ltb_spec len' (f_size f)); [lia|].
      apply (St len w1 i D); assumption.
    + unfold decode_core. destruct (N.ltb_spec len' 4); [lia|]. rewrite M. cbn [bind]. rewrite L. cbn [bind].
      change (i_size (inst0 f r)) with (f_size f). destruct (N.ltb_spec len' (f_size f)); [lia|].
      apply (St len w1 i D); assumption.
  - intros len w1 i Hlen H.
    destruct (Core _ _ _ H) as (f & r & Hf & Hsup & M & L & H4 & Hfs & D).
    destruct (dispatch_stable_sized (f_type f) c w0 f r Hf eq_refl Hsup) as [St Sz].
    pose proof (Sz len w1 i Hfs D) as [[B1 B2] B3].
    destruct (format_size_facts f Hf) as ([E|E] & _ & _); lia.
Qed.

(* ------------------------------------------------------------------ byte strings *)

Lemma nth_skipn {A} k : forall (l : list A) j d, nth j (skipn k l) d = nth (k + j) l d.
Proof. induction k as [|k IH]; intros [|a l] j d; simpl; auto. destruct j; reflexivity. Qed.

Lemma nth_firstn_eq {A} (l l' : list A) k j d :
  firstn k l = firstn k l' -> (j < k)%nat -> (k <= List.length l)%nat -> (k <= List.length l')%nat ->
  nth j l d = nth j l' d.
Proof.
  intros E Hj Hl Hl'.
  rewrite <- (firstn_skipn k l), <- (firstn_skipn k l').
  rewrite !app_nth1 by (rewrite firstn_length; lia). rewrite E. reflexivity.
Qed.

Lemma le32_firstn b b' k :
  firstn k b = firstn k b' -> (4 <= k)%nat -> (k <= List.length b)%nat -> (k <= List.length b')%nat ->
  le32 b = le32 b'.
Proof.
  intros E Hk Hl Hl'. unfold le32.
  rewrite (nth_firstn_eq b b' k 0 0 E), (nth_firstn_eq b b' k 1 0 E),
          (nth_firstn_eq b b' k 2 0 E), (nth_firstn_eq b b' k 3 0 E) by lia. reflexivity.
Qed.

Lemma le32_skip_firstn b b' k :
  firstn k b = firstn k b' -> (8 <= k)%nat -> (k <= List.length b)%nat -> (k <= List.length b')%nat ->
  le32 (skipn 4 b) = le32 (skipn 4 b').
Proof.
  intros E Hk Hl Hl'. unfold le32. rewrite !nth_skipn.
  rewrite (nth_firstn_eq b b' k _ 0 E), (nth_firstn_eq b b' k (4 + 1) 0 E),
          (nth_firstn_eq b b' k (4 + 2) 0 E), (nth_firstn_eq b b' k (4 + 3) 0 E) by lia. reflexivity.
Qed.

Lemma decode_ok_core fl c b i n :
  decode_with fl c b = Ok i n ->
  decode_core fl c (N.of_nat (List.length b)) (le32 b) (le32 (skipn 4 b)) = ROk i /\ n = i_size i.
Proof.
  unfold decode_with. destruct (decode_core _ _ _ _ _); simpl; intros H; inversion H; auto.
Qed.

Lemma prefix_independent fl c b b' i n :
  (forall g, In g fl -> In g format_table) ->
  decode_with fl c b = Ok i n ->
  firstn (N.to_nat n) b = firstn (N.to_nat n) b' -> n <= N.of_nat (List.length b') ->
  decode_with fl c b' = Ok i n.
Proof.
  intros Hfl H E Hl'. apply decode_ok_core in H. destruct H as [H ->].
  destruct (decode_core_stable_sized fl c (le32 b) Hfl) as [St Sz].
  assert (H4 : 4 <= N.of_nat (List.length b)).
  { revert H. unfold decode_core. destruct (N.ltb_spec (N.of_nat (List.length b)) 4); [discriminate|]. auto. }
  destruct (Sz _ _ _ H4 H) as [[S4 Sl] _].
  assert (W0 : le32 b' = le32 b).
  { symmetry. apply (le32_firstn b b' (N.to_nat (i_size i))); auto; lia. }
  unfold decode_with. rewrite W0.
  rewrite (St _ _ _ H (N.of_nat (List.length b')) (le32 (skipn 4 b'))); [reflexivity | exact Hl' |].
  intros H8. symmetry. apply (le32_skip_firstn b b' (N.to_nat (i_size i))); auto; lia.
Qed.

Lemma size_within_buffer fl c b i n :
  (forall g, In g fl -> In g format_table) ->
  decode_with fl c b = Ok i n -> 4 <= n <= N.of_nat (List.length b).
Proof.
  intros Hfl H. apply decode_ok_core in H. destruct H as [H ->].
  destruct (decode_core_stable_sized fl c (le32 b) Hfl) as [St Sz].
  assert (H4 : 4 <= N.of_nat (List.length b)).
  { revert H. unfold decode_core. destruct (N.ltb_spec (N.of_nat (List.length b)) 4); [discriminate|]. auto. }
  exact (proj1 (Sz _ _ _ H4 H)).
Qed.
