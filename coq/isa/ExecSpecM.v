(** C03 — ExecSpec, memory part: SMEM / FLAT (GLOBAL) / DS as the GCN3 and
    CDNA3 manuals describe them, over the byte maps [mem] and [lds].

    Address computation.
    - SMEM: ADDR = SGPR[SBASE*2 .. +1] + OFFSET (immediate or SGPR), the two
      low bits are ignored (dword aligned access).
    - FLAT, CDNA3 (gfx9 GLOBAL encoding): SADDR = 0x7F ("off"):
      ADDR = VGPR[ADDR .. +1] + sext(offset13); otherwise
      ADDR = SGPR[SADDR .. +1] + zext(VGPR[ADDR]) + sext(offset13).
    - FLAT, GCN3 (gfx8): ADDR = VGPR[ADDR .. +1]; the offset and SADDR bits
      are reserved and must be zero.
    - DS: LDS_ADDR = VGPR[ADDR] + offset (16 bits), for the two-address forms
      VGPR[ADDR] + offset0 * size and VGPR[ADDR] + offset1 * size.
    Only lanes whose EXEC bit is set access memory or write registers.
    Decisions of this transcription: (i) when two lanes of one store write the
    same byte the manuals do not name a winner; lanes are applied in
    increasing order. (ii) An LDS access beyond the allocation [lsz] is
    outside the specified subset (hardware drops it / returns 0; the emulator
    panics).  (iii) Register ranges running past v255 / s101 are unspecified.
    Definitions only. *)
From Coq Require Import ZArith List Bool.
From RecordUpdate Require Import RecordSet.
Import RecordSetNotations.
Import ListNotations.
From VIsa Require Import IsaState ExecSpec ExecSpecV.
Open Scope Z_scope.

Definition MEM (st : state) (x : Z) : Z := mem st (x mod W64).
Definition dword_at (m : Z -> Z) (a : Z) : Z := m a + m (a + 1) * 2 ^ 8 + m (a + 2) * 2 ^ 16 + m (a + 3) * 2 ^ 24.
Definition sext8 (x : Z) : Z := let y := x mod 256 in if y <? 128 then y else y - 256.

(** store one dword, little endian; [norm] is the address space's wrap *)
Definition set_dword (norm : Z -> Z) (m : Z -> Z) (a v : Z) : Z -> Z :=
  upd (upd (upd (upd m (norm a) (v mod 256)) (norm (a + 1)) (v / 2 ^ 8 mod 256))
           (norm (a + 2)) (v / 2 ^ 16 mod 256)) (norm (a + 3)) (v / 2 ^ 24 mod 256).
Fixpoint set_dwords (norm : Z -> Z) (m : Z -> Z) (a : Z) (vs : list Z) : Z -> Z :=
  match vs with
  | [] => m
  | v :: t => set_dwords norm (set_dword norm m a v) (a + 4) t
  end.
Definition wrap64 (x : Z) : Z := x mod W64.
Definition nowrap (x : Z) : Z := x.

(** registers VGPR[r .. r+k-1] of lane l *)
Definition vregs (st : state) (l r k : Z) : list Z := map (fun j => vgpr st l (r + Z.of_nat j)) (seq 0 (Z.to_nat k)).
Definition vrange_ok (code k : Z) : bool := (256 <=? code) && (code - 256 + k <=? 256).

(** the VGPR file after a load of [k] dwords per active lane *)
Definition load_vgpr (st : state) (d k : Z) (val : Z -> list Z) : Z -> Z -> Z := fun l j =>
  if active st l && (d <=? j) && (j <? d + k) then nth (Z.to_nat (j - d)) (val l) 0 else vgpr st l j.
(** memory after a store: lanes in increasing order *)
Definition store_lanes (st : state) (norm : Z -> Z) (m0 : Z -> Z) (ea : Z -> Z) (val : Z -> list Z) : Z -> Z :=
  fold_left (fun m l => if active st l then set_dwords norm m (ea l) (val l) else m) (map Z.of_nat (seq 0 64)) m0.

(** * FLAT / GLOBAL *)
Definition flat_ok (a : arch) (i : inst) : bool :=
  match a with
  | CDNA3 =>
      (-4096 <=? i_simm i) && (i_simm i <? 4096) &&
      (if i_src2 i =? 127 then vrange_ok (i_src0 i) 2
       else (0 <=? i_src2 i) && (i_src2 i <=? 100) && vrange_ok (i_src0 i) 1)
  | GCN3 => (i_simm i =? 0) && (i_src2 i =? 0) && vrange_ok (i_src0 i) 2
  end.
Definition flat_ea (a : arch) (st : state) (i : inst) (l : Z) : Z :=
  let v := i_src0 i - 256 in
  match a with
  | CDNA3 =>
      if i_src2 i =? 127 then (vgpr st l v + W32 * vgpr st l (v + 1) + i_simm i) mod W64
      else (sgpr st (i_src2 i) + W32 * sgpr st (i_src2 i + 1) + vgpr st l v + i_simm i) mod W64
  | GCN3 => vgpr st l v + W32 * vgpr st l (v + 1)
  end.
(** loads: number of destination registers and their values *)
Definition flat_load_row (op : Z) : option (Z * ((Z -> Z) -> Z -> list Z)) :=
  match op with
  | 16 => Some (1, fun m a => [m a])                                   (* FLAT_LOAD_UBYTE: zero extended *)
  | 17 => Some (1, fun m a => [sext8 (m a) mod W32])                   (* FLAT_LOAD_SBYTE *)
  | 18 => Some (1, fun m a => [m a + m (a + 1) * 2 ^ 8])               (* FLAT_LOAD_USHORT *)
  | 20 => Some (1, fun m a => [dword_at m a])
  | 21 => Some (2, fun m a => [dword_at m a; dword_at m (a + 4)])
  | 22 => Some (3, fun m a => [dword_at m a; dword_at m (a + 4); dword_at m (a + 8)])
  | 23 => Some (4, fun m a => [dword_at m a; dword_at m (a + 4); dword_at m (a + 8); dword_at m (a + 12)])
  | _ => None
  end.
Definition flat_store_row (op : Z) : option Z :=
  match op with 28 => Some 1 | 29 => Some 2 | 30 => Some 3 | 31 => Some 4 | _ => None end.

Definition spec_flat (a : arch) (st : state) (i : inst) : option state :=
  if negb (flat_ok a i) then None else
  match flat_load_row (i_op i), flat_store_row (i_op i) with
  | Some (k, val), _ =>
      if vrange_ok (i_dst i) k
      then Some (st <| vgpr := load_vgpr st (i_dst i - 256) k (fun l => val (MEM st) (flat_ea a st i l)) |>)
      else None
  | None, Some k =>
      if vrange_ok (i_src1 i) k
      then Some (st <| mem := store_lanes st wrap64 (mem st) (flat_ea a st i) (fun l => vregs st l (i_src1 i - 256) k) |>)
      else None
  | None, None => None
  end.

(** * DS *)
Definition ds_ea (st : state) (i : inst) (l off : Z) : Z := (vgpr st l (i_src0 i - 256) + off) mod W32.
Definition ds_off0 (i : inst) : Z := i_simm i mod 65536.
Definition ds_off1 (i : inst) : Z := i_simm i / 65536.
Definition lds_dwords (st : state) (a k : Z) : list Z := map (fun j => dword_at (lds st) (a + 4 * Z.of_nat j)) (seq 0 (Z.to_nat k)).
(** every active lane stays inside the allocation *)
Definition ds_inside (st : state) (lsz : Z) (ea : Z -> Z) (n : Z) : bool :=
  forallb (fun l => negb (active st l) || (ea l + n <=? lsz)) (map Z.of_nat (seq 0 64)).

Inductive ds_kind := DsRead (k : Z) | DsRead2 (k : Z) | DsWrite (k : Z) | DsWrite2 (k : Z) | DsWriteB8.
Definition ds_row (a : arch) (op : Z) : option ds_kind :=
  match op with
  | 13 => Some (DsWrite 1) | 14 => Some (DsWrite2 1) | 30 => Some DsWriteB8
  | 54 => Some (DsRead 1) | 55 => Some (DsRead2 1)
  | 78 => Some (DsWrite2 2) | 118 => Some (DsRead 2) | 119 => Some (DsRead2 2)
  | 223 => match a with CDNA3 => Some (DsWrite 4) | GCN3 => None end
  | 255 => match a with CDNA3 => Some (DsRead 4) | GCN3 => None end
  | _ => None
  end.

Definition spec_ds (a : arch) (lsz : Z) (st : state) (i : inst) : option state :=
  if negb (vrange_ok (i_src0 i) 1) then None else
  match ds_row a (i_op i) with
  | None => None
  | Some (DsRead k) =>
      let ea := fun l => ds_ea st i l (ds_off0 i) in
      if vrange_ok (i_dst i) k && ds_inside st lsz ea (4 * k)
      then Some (st <| vgpr := load_vgpr st (i_dst i - 256) k (fun l => lds_dwords st (ea l) k) |>) else None
  | Some (DsRead2 k) =>
      let ea0 := fun l => ds_ea st i l (ds_off0 i * (4 * k)) in
      let ea1 := fun l => ds_ea st i l (ds_off1 i * (4 * k)) in
      if vrange_ok (i_dst i) (2 * k) && ds_inside st lsz ea0 (4 * k) && ds_inside st lsz ea1 (4 * k)
      then Some (st <| vgpr := load_vgpr st (i_dst i - 256) (2 * k)
                                 (fun l => lds_dwords st (ea0 l) k ++ lds_dwords st (ea1 l) k) |>) else None
  | Some (DsWrite k) =>
      let ea := fun l => ds_ea st i l (ds_off0 i) in
      if vrange_ok (i_src1 i) k && ds_inside st lsz ea (4 * k)
      then Some (st <| lds := store_lanes st nowrap (lds st) ea (fun l => vregs st l (i_src1 i - 256) k) |>) else None
  | Some (DsWrite2 k) =>
      let ea0 := fun l => ds_ea st i l (ds_off0 i * (4 * k)) in
      let ea1 := fun l => ds_ea st i l (ds_off1 i * (4 * k)) in
      if vrange_ok (i_src1 i) k && vrange_ok (i_src2 i) k && ds_inside st lsz ea0 (4 * k) && ds_inside st lsz ea1 (4 * k)
      then Some (st <| lds :=
             fold_left (fun m l => if active st l
                                   then set_dwords nowrap (set_dwords nowrap m (ea0 l) (vregs st l (i_src1 i - 256) k))
                                                   (ea1 l) (vregs st l (i_src2 i - 256) k)
                                   else m) (map Z.of_nat (seq 0 64)) (lds st) |>) else None
  | Some DsWriteB8 =>
      let ea := fun l => ds_ea st i l (ds_off0 i) in
      if vrange_ok (i_src1 i) 1 && ds_inside st lsz ea 1
      then Some (st <| lds := fold_left (fun m l => if active st l then upd m (ea l) (vgpr st l (i_src1 i - 256) mod 256) else m)
                                        (map Z.of_nat (seq 0 64)) (lds st) |>) else None
  end.

(** * SMEM *)
Definition smem_row (op : Z) : option Z :=
  match op with 0 => Some 1 | 1 => Some 2 | 2 => Some 4 | 3 => Some 8 | 4 => Some 16 | _ => None end.
Definition spec_smem (st : state) (i : inst) : option state :=
  match smem_row (i_op i) with
  | None => None
  | Some k =>
      let b := i_src0 i in
      if negb ((0 <=? b) && (b <=? 100) && (0 <=? i_dst i) && (i_dst i + k <=? 102)) then None else
      obind (if i_src1 i =? 255 then Some (i_lit i)
             else if (0 <=? i_src1 i) && (i_src1 i <=? 101) then Some (sgpr st (i_src1 i)) else None) (fun off =>
      let ea := (sgpr st b + W32 * sgpr st (b + 1) + off) mod W64 in
      let ea := ea - ea mod 4 in
      Some (st <| sgpr := fun j => if (i_dst i <=? j) && (j <? i_dst i + k)
                                   then dword_at (MEM st) (ea + 4 * (j - i_dst i)) else sgpr st j |>))
  end.

Definition exec_spec_mem (a : arch) (lsz : Z) (st : state) (i : inst) : option state :=
  match i_fmt i with
  | F_SMEM => spec_smem st i
  | F_FLAT => spec_flat a st i
  | F_DS => spec_ds a lsz st i
  | _ => None
  end.
