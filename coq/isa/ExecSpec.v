(** C03 — ExecSpec: what the GCN3 ("Graphics Core Next Architecture,
    Generation 3", ch. 12 instruction descriptions) and CDNA3 ISA manuals
    prescribe, per opcode, as rows built from a few combinators.  Operands are
    architectural values: a 32-bit operation sees 32 bits of whatever it
    names (VCC_LO is the low half of VCC, VCC_HI the high half, inline
    constants -1..-16 are 32-bit two's complement), a 64-bit operation sees 64
    bits (inline integers sign-extended, literals zero-extended).
    [pc st] is the address of the instruction after the current one.
    Written independently of ExecImpl; definitions only. *)
From Coq Require Import ZArith List Bool.
From RecordUpdate Require Import RecordSet.
Import RecordSetNotations.
Import ListNotations.
From VIsa Require Import IsaState.
Open Scope Z_scope.

(** * Operand values *)
Definition src32 (st : state) (code lit : Z) : option Z :=
  if (0 <=? code) && (code <=? 101) then Some (sgpr st code)
  else if code =? 106 then Some (vcc st mod W32)
  else if code =? 107 then Some (vcc st / W32)
  else if code =? 124 then Some (m0 st)
  else if code =? 126 then Some (exec st mod W32)
  else if code =? 127 then Some (exec st / W32)
  else if (128 <=? code) && (code <=? 192) then Some (code - 128)
  else if (193 <=? code) && (code <=? 208) then Some (W32 - (code - 192))
  else if (240 <=? code) && (code <=? 248) then Some (inline_f32 code)
  else if code =? 251 then Some (if vcc st =? 0 then 1 else 0)
  else if code =? 252 then Some (if exec st =? 0 then 1 else 0)
  else if code =? 253 then Some (scc st)
  else if code =? 255 then Some lit
  else None.

Definition src64 (st : state) (code lit : Z) : option Z :=
  if (0 <=? code) && (code <=? 100) then Some (sgpr st code + W32 * sgpr st (code + 1))
  else if code =? 106 then Some (vcc st)
  else if code =? 126 then Some (exec st)
  else if (128 <=? code) && (code <=? 192) then Some (code - 128)
  else if (193 <=? code) && (code <=? 208) then Some (W64 - (code - 192))
  else if code =? 255 then Some lit
  else None.

Inductive width := B32 | B64.
Definition src (w : width) := match w with B32 => src32 | B64 => src64 end.

(** * Scalar destination *)
Definition dst32 (st : state) (code v : Z) : option state :=
  if (0 <=? code) && (code <=? 101) then Some (st <| sgpr := upd (sgpr st) code v |>)
  else if code =? 106 then Some (st <| vcc := (vcc st / W32) * W32 + v |>)
  else if code =? 107 then Some (st <| vcc := v * W32 + vcc st mod W32 |>)
  else if code =? 124 then Some (st <| m0 := v |>)
  else if code =? 126 then Some (st <| exec := (exec st / W32) * W32 + v |>)
  else if code =? 127 then Some (st <| exec := v * W32 + exec st mod W32 |>)
  else None.

Definition dst64 (st : state) (code v : Z) : option state :=
  if (0 <=? code) && (code <=? 100)
  then Some (st <| sgpr := upd (upd (sgpr st) code (v mod W32)) (code + 1) (v / W32) |>)
  else if code =? 106 then Some (st <| vcc := v |>)
  else if code =? 126 then Some (st <| exec := v |>)
  else None.
Definition dst (w : width) := match w with B32 => dst32 | B64 => dst64 end.

(** * Rows.  A SOP2/SOP1/SOPC row gives operand width, destination width, the
    destination value (if any) and the new SCC as functions of S0, S1 and the
    incoming SCC.  All arithmetic is on mathematical integers with the wrap to
    the destination width stated in the row. *)
Record row := mkRow {
  w_src : width; w_dst : width;
  f_dst : option (Z -> Z -> Z -> Z);       (* S0 S1 SCC -> D *)
  f_scc : Z -> Z -> Z -> Z -> Z            (* S0 S1 SCC D -> SCC' (D = 0 when no destination) *)
}.

Definition signed (w : width) (x : Z) : Z :=
  match w with B32 => if x <? W32 / 2 then x else x - W32 | B64 => if x <? W64 / 2 then x else x - W64 end.
Definition wrap (w : width) (x : Z) : Z := match w with B32 => x mod W32 | B64 => x mod W64 end.
Definition bits (w : width) : Z := match w with B32 => 32 | B64 => 64 end.
Definition ones (w : width) : Z := match w with B32 => W32 - 1 | B64 => W64 - 1 end.
Definition scc_same (_ _ c _ : Z) : Z := c.
Definition scc_nonzero (_ _ _ d : Z) : Z := if d =? 0 then 0 else 1.

(** D = f S0 S1, SCC unchanged *)
Definition bin (w : width) (f : Z -> Z -> Z) : row :=
  mkRow w w (Some (fun a b _ => wrap w (f a b))) scc_same.
(** D = f S0 S1, SCC = (D != 0) *)
Definition bin_nz (w : width) (f : Z -> Z -> Z) : row :=
  mkRow w w (Some (fun a b _ => wrap w (f a b))) scc_nonzero.
(** D = S0 + S1 + cin (unsigned), SCC = carry out; cin = SCC or 0 *)
Definition add_carry (use_scc : bool) : row :=
  mkRow B32 B32 (Some (fun a b c => (a + b + (if use_scc then c else 0)) mod W32))
        (fun a b c _ => if a + b + (if use_scc then c else 0) >=? W32 then 1 else 0).
(** D = S0 - S1 - bin (unsigned), SCC = borrow out *)
Definition sub_borrow (use_scc : bool) : row :=
  mkRow B32 B32 (Some (fun a b c => (a - b - (if use_scc then c else 0)) mod W32))
        (fun a b c _ => if b + (if use_scc then c else 0) >? a then 1 else 0).
(** signed add/sub: SCC = signed overflow *)
Definition arith_ovf (f : Z -> Z -> Z) : row :=
  mkRow B32 B32 (Some (fun a b _ => (f (signed B32 a) (signed B32 b)) mod W32))
        (fun a b _ _ => let r := f (signed B32 a) (signed B32 b) in
                        if (r <? - (W32 / 2)) || (r >=? W32 / 2) then 1 else 0).
(** min/max: D = S0 if it wins else S1; SCC = 1 iff S0 is selected *)
Definition pick (sgn : bool) (wins : Z -> Z -> bool) : row :=
  let v := fun x => if sgn then signed B32 x else x in
  mkRow B32 B32 (Some (fun a b _ => if wins (v a) (v b) then a else b))
        (fun a b _ _ => if wins (v a) (v b) then 1 else 0).
(** D = SCC ? S0 : S1 *)
Definition sel (w : width) : row :=
  mkRow w w (Some (fun a b c => if c =? 1 then a else b)) scc_same.
(** shifts: amount = S1[4:0] (32-bit) or S1[5:0] (64-bit); SCC = (D != 0) *)
Definition amount (w : width) (s1 : Z) : Z := s1 mod (bits w).
Definition shl (w : width) : row :=
  mkRow w w (Some (fun a b _ => wrap w (a * 2 ^ amount w b))) scc_nonzero.
Definition lshr (w : width) : row :=
  mkRow w w (Some (fun a b _ => a / 2 ^ amount w b)) scc_nonzero.
Definition ashr (w : width) : row :=
  mkRow w w (Some (fun a b _ => wrap w (signed w a / 2 ^ amount w b))) scc_nonzero.
(** bit-field extract: offset = S1[4:0], width = S1[22:16]; the field is taken
    from S0 (sign-extended upwards for the signed form) and, for the signed
    form, sign-extended from its top bit *)
Definition bfe_off (s1 : Z) : Z := s1 mod 32.
Definition bfe_width (s1 : Z) : Z := (s1 / 65536) mod 128.
Definition bfe32 (sgn : bool) : row :=
  mkRow B32 B32
    (Some (fun a b _ =>
       let w := bfe_width b in
       let x := if sgn then signed B32 a else a in
       let field := (x / 2 ^ bfe_off b) mod 2 ^ w in
       if w =? 0 then 0
       else if sgn && (2 ^ (w - 1) <=? field) then (field - 2 ^ w) mod W32
       else field mod W32))
    scc_nonzero.
(** compare: no destination, SCC = relation *)
Definition cmp (sgn : bool) (rel : Z -> Z -> bool) : row :=
  let v := fun x => if sgn then signed B32 x else x in
  mkRow B32 B32 None (fun a b _ _ => if rel (v a) (v b) then 1 else 0).

Definition lnot (w : width) (x : Z) : Z := ones w - x.

(** ** SOP2 (opcode numbers of the GCN3/VI and gfx9 encodings coincide) *)
Definition sop2_row (a : arch) (op : Z) : option row :=
  match op with
  | 0 => Some (add_carry false)                         (* S_ADD_U32 *)
  | 1 => Some (sub_borrow false)                        (* S_SUB_U32 *)
  | 2 => Some (arith_ovf Z.add)                         (* S_ADD_I32 *)
  | 3 => Some (arith_ovf Z.sub)                         (* S_SUB_I32 *)
  | 4 => Some (add_carry true)                          (* S_ADDC_U32 *)
  | 5 => Some (sub_borrow true)                         (* S_SUBB_U32 *)
  | 6 => Some (pick true Z.ltb)                         (* S_MIN_I32 *)
  | 7 => Some (pick false Z.ltb)                        (* S_MIN_U32 *)
  | 8 => Some (pick true Z.gtb)                         (* S_MAX_I32 *)
  | 9 => Some (pick false Z.gtb)                        (* S_MAX_U32 *)
  | 10 => Some (sel B32) | 11 => Some (sel B64)         (* S_CSELECT *)
  | 12 => Some (bin_nz B32 Z.land) | 13 => Some (bin_nz B64 Z.land)
  | 14 => Some (bin_nz B32 Z.lor)  | 15 => Some (bin_nz B64 Z.lor)
  | 16 => Some (bin_nz B32 Z.lxor) | 17 => Some (bin_nz B64 Z.lxor)
  | 18 => Some (bin_nz B32 (fun x y => Z.land x (lnot B32 y)))   (* S_ANDN2 *)
  | 19 => Some (bin_nz B64 (fun x y => Z.land x (lnot B64 y)))
  | 20 => Some (bin_nz B32 (fun x y => Z.lor x (lnot B32 y)))    (* S_ORN2 *)
  | 21 => Some (bin_nz B64 (fun x y => Z.lor x (lnot B64 y)))
  | 28 => Some (shl B32) | 29 => Some (shl B64)
  | 30 => Some (lshr B32) | 31 => Some (lshr B64)
  | 32 => Some (ashr B32) | 33 => Some (ashr B64)
  | 34 => Some (bin B32 (fun x y => (2 ^ (x mod 32) - 1) * 2 ^ (y mod 32)))  (* S_BFM_B32 *)
  | 36 => Some (bin B32 (fun x y => signed B32 x * signed B32 y))           (* S_MUL_I32: SCC unchanged *)
  | 37 => Some (bfe32 false) | 38 => Some (bfe32 true)
  | 44 => match a with CDNA3 => Some (bin B32 (fun x y => (x * y) / W32)) | GCN3 => None end  (* S_MUL_HI_U32 *)
  | _ => None
  end.

(** bit reversal: D[31 - j] = S0[j] *)
Definition brev32 (x : Z) : Z :=
  fold_left (fun acc j => acc + ((x / 2 ^ j) mod 2) * 2 ^ (31 - j)) (map Z.of_nat (seq 0 32)) 0.

(** ** SOP1 rows with one source; the *_SAVEEXEC family and S_GETPC are below *)
Definition sop1_row (op : Z) : option row :=
  match op with
  | 0 => Some (bin B32 (fun x _ => x)) | 1 => Some (bin B64 (fun x _ => x))   (* S_MOV *)
  | 4 => Some (bin_nz B32 (fun x _ => lnot B32 x))                          (* S_NOT_B32 *)
  | 8 => Some (bin B32 (fun x _ => brev32 x))                               (* S_BREV_B32 *)
  | 48 => Some (bin_nz B32 (fun x _ => Z.abs (signed B32 x)))               (* S_ABS_I32 *)
  | _ => None
  end.

(** S_<op>_SAVEEXEC_B64: D = EXEC; EXEC = S0 <op> EXEC; SCC = (EXEC != 0) *)
Definition saveexec_fn (op : Z) : option (Z -> Z -> Z) :=
  match op with
  | 32 => Some Z.land | 33 => Some Z.lor | 34 => Some Z.lxor
  | 35 => Some (fun s e => Z.land s (lnot B64 e))
  | 36 => Some (fun s e => Z.lor s (lnot B64 e))
  | 37 => Some (fun s e => lnot B64 (Z.land s e))
  | 38 => Some (fun s e => lnot B64 (Z.lor s e))
  | 39 => Some (fun s e => lnot B64 (Z.lxor s e))
  | _ => None
  end.

Definition sopc_row (a : arch) (op : Z) : option row :=
  match op with
  | 0 => Some (cmp true Z.eqb) | 1 => Some (cmp true (fun x y => negb (x =? y)))
  | 2 => Some (cmp true Z.gtb) | 3 => Some (cmp true Z.geb)
  | 4 => Some (cmp true Z.ltb) | 5 => Some (cmp true Z.leb)
  | 6 => Some (cmp false Z.eqb) | 7 => Some (cmp false (fun x y => negb (x =? y)))
  | 8 => Some (cmp false Z.gtb) | 9 => Some (cmp false Z.geb)
  | 10 => Some (cmp false Z.ltb) | 11 => Some (cmp false Z.leb)
  | _ => None
  end.

Definition simm_sext (k : Z) : Z := if k <? 32768 then k else k - 65536.   (* signext(SIMM16) *)

Definition set_scc_pc (st : state) (c p : Z) : state := st <| scc := c |> <| pc := p |>.

Definition run_row (st : state) (r : row) (s0 s1 dcode : Z) : option state :=
  match f_dst r with
  | Some f =>
      let d := f s0 s1 (scc st) in
      match dst (w_dst r) st dcode d with
      | Some st' => Some (st' <| scc := f_scc r s0 s1 (scc st) d |>)
      | None => None
      end
  | None => Some (st <| scc := f_scc r s0 s1 (scc st) 0 |>)
  end.

Definition obind {A B} (o : option A) (f : A -> option B) : option B :=
  match o with Some x => f x | None => None end.

(** [exec_spec a st i = None]: the instruction (opcode or operand combination)
    is outside the specified subset. *)
Definition exec_spec (a : arch) (st : state) (i : inst) : option state :=
  match i_fmt i with
  | F_SOP2 =>
      obind (sop2_row a (i_op i)) (fun r =>
      obind (src (w_src r) st (i_src0 i) (i_lit i)) (fun s0 =>
      obind (src (w_src r) st (i_src1 i) (i_lit i)) (fun s1 =>
      run_row st r s0 s1 (i_dst i))))
  | F_SOP1 =>
      if i_op i =? 28 then dst64 st (i_dst i) (pc st)         (* S_GETPC_B64: address of the next instruction *)
      else match saveexec_fn (i_op i) with
      | Some f =>
          obind (src64 st (i_src0 i) (i_lit i)) (fun s0 =>
          let e' := f s0 (exec st) in
          obind (dst64 st (i_dst i) (exec st)) (fun st' =>
          Some (st' <| exec := e' |> <| scc := if e' =? 0 then 0 else 1 |>)))
      | None =>
          obind (sop1_row (i_op i)) (fun r =>
          obind (src (w_src r) st (i_src0 i) (i_lit i)) (fun s0 =>
          run_row st r s0 0 (i_dst i)))
      end
  | F_SOPC =>
      obind (sopc_row a (i_op i)) (fun r =>
      obind (src32 st (i_src0 i) (i_lit i)) (fun s0 =>
      obind (src32 st (i_src1 i) (i_lit i)) (fun s1 =>
      run_row st r s0 s1 (-1))))
  | F_SOPK =>
      let k := simm_sext (i_simm i mod 65536) in
      match i_op i with
      | 0 => dst32 st (i_dst i) (k mod W32)                                   (* S_MOVK_I32 *)
      | 1 => if scc st =? 1 then dst32 st (i_dst i) (k mod W32) else Some st  (* S_CMOVK_I32 *)
      | 2 => obind (src32 st (i_dst i) 0) (fun d =>
               Some (st <| scc := if signed B32 d =? k then 1 else 0 |>))      (* S_CMPK_EQ_I32 *)
      | 3 => obind (src32 st (i_dst i) 0) (fun d =>
               Some (st <| scc := if signed B32 d =? k then 0 else 1 |>))      (* S_CMPK_LG_I32 *)
      | 15 => obind (src32 st (i_dst i) 0) (fun d =>
               dst32 st (i_dst i) ((signed B32 d * k) mod W32))               (* S_MULK_I32 *)
      | _ => None
      end
  | F_SOPP =>
      let target := (pc st + simm_sext (i_simm i mod 65536) * 4) mod W64 in
      let br (taken : bool) := Some (if taken then st <| pc := target |> else st) in
      match i_op i with
      | 0 | 12 => Some st                          (* S_NOP, S_WAITCNT: no architectural effect *)
      | 2 => br true                               (* S_BRANCH *)
      | 4 => br (scc st =? 0) | 5 => br (scc st =? 1)
      | 6 => br (vcc st =? 0) | 7 => br (negb (vcc st =? 0))
      | 8 => br (exec st =? 0) | 9 => br (negb (exec st =? 0))
      | _ => None
      end
  | _ => None
  end.
