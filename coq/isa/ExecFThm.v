(** C03 — binary32 theorem and the refutations of the fused operations. *)
From Coq Require Import ZArith List Bool Lia ZifyBool.
Import ListNotations.
From VIsa Require Import IsaState IsaFloat ExecImpl ExecSpec ExecImplV ExecSpecV ExecImplF ExecSpecF ExecProofs ExecRows ExecVProofs ExecVRowsA ExecFRows ExecFCvt ExecVThm.
Open Scope Z_scope.

Definition frows (a : arch) : list (format * Z) :=
  match a with
  | GCN3 => [(F_VOP2, 1); (F_VOP2, 2); (F_VOP2, 3); (F_VOP2, 5); (F_VOP2, 22); (F_VOP2, 24); (F_VOP1, 5); (F_VOP1, 6); (F_VOP1, 7); (F_VOP1, 8); (F_VOP1, 28); (F_VOP1, 30);
             (F_VOPC, 65); (F_VOPC, 66); (F_VOPC, 67); (F_VOPC, 68); (F_VOPC, 69); (F_VOPC, 70);
             (F_VOPC, 73); (F_VOPC, 74); (F_VOPC, 75); (F_VOPC, 76); (F_VOPC, 77); (F_VOPC, 78);
             (F_VOP3A, 65); (F_VOP3A, 68); (F_VOP3A, 77); (F_VOP3A, 78); (F_VOP3A, 258); (F_VOP3A, 449)]
  | CDNA3 => [(F_VOP2, 1); (F_VOP2, 2); (F_VOP2, 3); (F_VOP2, 5); (F_VOP1, 5); (F_VOP1, 6); (F_VOP1, 7); (F_VOP1, 8); (F_VOP1, 28); (F_VOP1, 30);
              (F_VOPC, 65); (F_VOPC, 66); (F_VOPC, 67); (F_VOPC, 68); (F_VOPC, 69); (F_VOPC, 70); (F_VOPC, 75); (F_VOPC, 78);
              (F_VOP3A, 65); (F_VOP3A, 67); (F_VOP3A, 68); (F_VOP3A, 70); (F_VOP3A, 78);
              (F_VOP3A, 258); (F_VOP3A, 261); (F_VOP3A, 449)]
  end.

Ltac inl := cbn [In]; tauto.

(** the complete vector model (float table first) against the complete spec *)
Definition agree_vf (a : arch) (st : state) (i : inst) : Prop :=
  exists s1 s2, exec_vector_f a st i = Some s1 /\ exec_spec_vf a st i = Some s2 /\ state_eq s1 s2.

Lemma row_agree_f : forall a f op, row_ok_f a f op ->
  (exists d, vdesc_f a f op = Some d) -> (exists r, vrow_f a f op = Some r) ->
  forall st i, i_fmt i = f -> i_op i = op -> wf st -> 0 <= i_lit i < W32 ->
    (forall d r, vdesc_f a f op = Some d -> vrow_f a f op = Some r -> vadm d r i) -> agree_vf a st i.
Proof.
  intros a f op Hok (d & Hd) (r & Hr) st i Hf Ho Hwf Hl Hadm. subst f op.
  unfold agree_vf, exec_vector_f, exec_spec_vf. rewrite Hd, Hr.
  apply vglue_core; auto.
Qed.
Ltac row_case L ::= eapply (row_agree_f _ _ _ L); eauto; [eexists; reflexivity | eexists; reflexivity].

(** on the integer rows the complete model is the integer model, so the
    integer theorems speak about the model the differential check evaluates *)
Lemma full_is_int : forall a st i, vdesc_f a (i_fmt i) (i_op i) = None -> vrow_f a (i_fmt i) (i_op i) = None ->
  (agree_vf a st i <-> agree_v a st i).
Proof. intros a st i H1 H2. unfold agree_vf, agree_v, exec_vector_f, exec_spec_vf. rewrite H1, H2. tauto. Qed.
Lemma int_rows_not_float : forall a f op, In (f, op) ((F_VOP1, 2) :: vrows a ++ vrows64) ->
  vdesc_f a f op = None /\ vrow_f a f op = None.
Proof.
  intros a f op Hin. destruct a; unfold vrows, vrows64 in Hin; cbn [In app] in Hin;
    repeat (destruct Hin as [Hin|Hin]; [injection Hin as <- <-; split; reflexivity|]); contradiction.
Qed.

Theorem float_agree : forall a st i, In (i_fmt i, i_op i) (frows a) -> wf st -> 0 <= i_lit i < W32 ->
  (forall d r, vdesc_f a (i_fmt i) (i_op i) = Some d -> vrow_f a (i_fmt i) (i_op i) = Some r -> vadm d r i) ->
  agree_vf a st i.
Proof.
  intros a st i Hin Hwf Hl Hadm.
  remember (i_fmt i) as f eqn:Ef. remember (i_op i) as op eqn:Eo. symmetry in Ef, Eo.
  destruct a; unfold frows in Hin; cbn [In] in Hin;
    repeat (destruct Hin as [Hin|Hin]; [injection Hin as <- <-|]); try contradiction.
  - row_case (r_x_vop2_1 GCN3). - row_case (r_x_vop2_2 GCN3). - row_case (r_x_vop2_3 GCN3).
  - row_case (r_x_vop2_5 GCN3). - row_case r_g_vop2_22. - row_case r_g_vop2_24.
  - row_case (r_x_vop1_5 GCN3). - row_case (r_x_vop1_6 GCN3).
  - row_case (r_x_vop1_7 GCN3). - row_case (r_x_vop1_8 GCN3). - row_case (r_x_vop1_28 GCN3). - row_case (r_x_vop1_30 GCN3).
  - row_case (r_g_vopc_f 65 ltac:(inl)). - row_case (r_g_vopc_f 66 ltac:(inl)). - row_case (r_g_vopc_f 67 ltac:(inl)).
  - row_case (r_g_vopc_f 68 ltac:(inl)). - row_case (r_g_vopc_f 69 ltac:(inl)). - row_case (r_g_vopc_f 70 ltac:(inl)).
  - row_case (r_g_vopc_f 73 ltac:(inl)). - row_case (r_g_vopc_f 74 ltac:(inl)). - row_case (r_g_vopc_f 75 ltac:(inl)).
  - row_case (r_g_vopc_f 76 ltac:(inl)). - row_case (r_g_vopc_f 77 ltac:(inl)). - row_case (r_g_vopc_f 78 ltac:(inl)).
  - row_case (r_g_vop3a_f 65 ltac:(inl)). - row_case (r_g_vop3a_f 68 ltac:(inl)). - row_case (r_g_vop3a_f 77 ltac:(inl)). - row_case (r_g_vop3a_f 78 ltac:(inl)).
  - row_case (r_x_vop3a_258 GCN3). - row_case (r_x_vop3a_449 GCN3).
  - row_case (r_x_vop2_1 CDNA3). - row_case (r_x_vop2_2 CDNA3). - row_case (r_x_vop2_3 CDNA3).
  - row_case (r_x_vop2_5 CDNA3). - row_case (r_x_vop1_5 CDNA3). - row_case (r_x_vop1_6 CDNA3).
  - row_case (r_x_vop1_7 CDNA3). - row_case (r_x_vop1_8 CDNA3). - row_case (r_x_vop1_28 CDNA3). - row_case (r_x_vop1_30 CDNA3).
  - row_case (r_c_vopc_f 65 ltac:(inl)). - row_case (r_c_vopc_f 66 ltac:(inl)). - row_case (r_c_vopc_f 67 ltac:(inl)).
  - row_case (r_c_vopc_f 68 ltac:(inl)). - row_case (r_c_vopc_f 69 ltac:(inl)). - row_case (r_c_vopc_f 70 ltac:(inl)).
  - row_case (r_c_vopc_f 75 ltac:(inl)). - row_case (r_c_vopc_f 78 ltac:(inl)).
  - row_case (r_c_vop3a_f 65 ltac:(inl)). - row_case (r_c_vop3a_f 67 ltac:(inl)). - row_case (r_c_vop3a_f 68 ltac:(inl)).
  - row_case (r_c_vop3a_f 70 ltac:(inl)). - row_case (r_c_vop3a_f 78 ltac:(inl)).
  - row_case (r_x_vop3a_258 CDNA3). - row_case r_c_vop3a_261. - row_case (r_x_vop3a_449 CDNA3).
Qed.

(** ** the CDNA3 fused operations are computed with two roundings *)
(** witness: lane 0 active; a = b = 1 + 2^-23, c = -RN(a*b): the fused result is
    the rounding error of the product (2^-46), the handler returns +0 *)
Definition fst0 (dstv : Z) : state :=
  mkState (fun _ => 0)
          (fun l r => if l =? 0 then (if r =? 0 then 1065353217 else if r =? 1 then 1065353217
                                      else if r =? 2 then 3212836866 else if r =? 3 then dstv else 0) else 0)
          1 0 0 0 1024 (fun _ => 0) (fun _ => 0).
Definition vdiffers (a : arch) (st : state) (i : inst) (l r : Z) : bool :=
  match exec_vector_f a st i, exec_spec_vf a st i with
  | Some s1, Some s2 => negb (vgpr s1 l r =? vgpr s2 l r)
  | _, _ => false
  end.
Lemma vdiffers_not_agree : forall a st i l r, vdiffers a st i l r = true -> ~ agree_vf a st i.
Proof.
  intros a st i l r H (s1 & s2 & H1 & H2 & (_ & E & _)). unfold vdiffers in H. rewrite H1, H2, E in H.
  rewrite Z.eqb_refl in H. discriminate.
Qed.
Lemma wf_fst0 : forall d, 0 <= d < W32 -> wf (fst0 d).
Proof.
  intros d Hd. unfold wf, fst0; cbn [sgpr vgpr exec vcc scc m0 pc].
  repeat match goal with |- _ /\ _ => split end; try (unfold W32, W64; lia).
  intros; repeat case_if; unfold W32 in *; lia.
Qed.
Definition fused_refuted (f : format) (op : Z) (i : inst) (dstv : Z) : Prop :=
  i_fmt i = f /\ i_op i = op /\ wf (fst0 dstv) /\ ~ agree_vf CDNA3 (fst0 dstv) i.
Lemma c_fma_f32 : fused_refuted F_VOP3A 459 (mkInst F_VOP3A 459 256 257 258 259 0 0) 0.
Proof. split; [reflexivity|split; [reflexivity|split; [apply wf_fst0; unfold W32; lia|]]]. apply (vdiffers_not_agree _ _ _ 0 3). vm_compute. reflexivity. Qed.
Lemma c_fmac_f32 : fused_refuted F_VOP2 59 (mkInst F_VOP2 59 256 257 259 259 0 0) 3212836866.
Proof. split; [reflexivity|split; [reflexivity|split; [apply wf_fst0; unfold W32; lia|]]]. apply (vdiffers_not_agree _ _ _ 0 3). vm_compute. reflexivity. Qed.
Lemma c_fmaak_f32 : fused_refuted F_VOP2 24 (mkInst F_VOP2 24 256 257 255 259 0 3212836866) 0.
Proof. split; [reflexivity|split; [reflexivity|split; [apply wf_fst0; unfold W32; lia|]]]. apply (vdiffers_not_agree _ _ _ 0 3). vm_compute. reflexivity. Qed.
Lemma c_fmamk_f32 : fused_refuted F_VOP2 23 (mkInst F_VOP2 23 256 258 255 259 0 1065353217) 0.
Proof. split; [reflexivity|split; [reflexivity|split; [apply wf_fst0; unfold W32; lia|]]]. apply (vdiffers_not_agree _ _ _ 0 3). vm_compute. reflexivity. Qed.
