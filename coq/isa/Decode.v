(** C04 — executable model of insts.Disassembler.Decode
    (amd/insts/disassembler.go, operand.go, format.go) over the tables that the
    translator regenerates from format.go / decodetable.go / reg.go.
    Definitions only (proofs: DecodeProofs.v).

    The model follows the code *with the three repairs of branch work-c04*
    (getOperand errors are returned, buffers shorter than four bytes are
    rejected, extractBit shifts).  Go panics are the outcome [Fault]; the
    log.Panicf("... is not implemented") diagnostics of the SDWA path are the
    outcome [NotImpl]. *)
From Coq Require Import NArith ZArith List String Ascii Bool.
From RecordUpdate Require Import RecordSet.
From VIsa Require Import InstTypes.
From VGen Require Import FormatTable DecodeTable RegTable.
Import ListNotations.
Import RecordSetNotations.
Open Scope N_scope.

(* ------------------------------------------------------------------ results *)

Inductive res (A : Type) : Type :=
| ROk (a : A)
| RErr          (* Decode returns (nil, err) *)
| RNotImpl      (* log.Panicf("... is not implemented") *)
| RFault.       (* any other Go run-time panic *)
Arguments ROk {A} a.
Arguments RErr {A}.
Arguments RNotImpl {A}.
Arguments RFault {A}.

Definition bind {A B} (m : res A) (f : A -> res B) : res B :=
  match m with
  | ROk a => f a
  | RErr => RErr
  | RNotImpl => RNotImpl
  | RFault => RFault
  end.
Notation "x <- m ;; k" := (bind m (fun x => k)) (at level 61, m at next level, right associativity).
Notation "' p <- m ;; k" := (bind m (fun p => k)) (at level 61, p pattern, m at next level, right associativity).

(* ------------------------------------------------------------------ operands *)

Inductive otype := OTInvalid | OTReg | OTFloat | OTInt | OTLit.

Definition otype_id (t : otype) : N :=
  match t with OTInvalid => 0 | OTReg => 1 | OTFloat => 2 | OTInt => 3 | OTLit => 4 end.

(** insts.Operand.  [o_reg]: the RegType of the *Reg, [None] for a nil
    pointer.  [o_float]: IEEE-754 binary64 bit pattern. *)
Record operand := mkOperand {
  o_code : N;
  o_type : otype;
  o_reg : option N;
  o_count : N;
  o_float : N;
  o_int : Z;
  o_lit : N
}.
#[export] Instance eta_operand : Settable _ :=
  settable! mkOperand <o_code; o_type; o_reg; o_count; o_float; o_int; o_lit>.

(** Regs[k]: the map has exactly the keys 0 .. reg_type_count-1
    (DecodeProofs.reg_table_dense checks this on the generated table). *)
Definition regs_lookup (k : N) : option N :=
  if k <? reg_type_count then Some k else None.

Definition new_reg (code regtype count : N) : operand :=
  mkOperand code OTReg (regs_lookup regtype) count 0 0%Z 0.
Definition new_sreg (code index count : N) : operand := new_reg code (R_S0 + index) count.
Definition new_vreg (code index count : N) : operand := new_reg code (R_V0 + index) count.
Definition new_int (code : N) (v : Z) : operand := mkOperand code OTInt None 0 0 v 0.
Definition new_float (code bits : N) : operand := mkOperand code OTFloat None 0 bits 0%Z 0.
Definition lit_operand (code : N) : operand := mkOperand code OTLit None 0 0 0%Z 0.

(* float64 bit patterns of the inline constants *)
Definition F_0_5 : N := 4602678819172646912.      (* 0x3FE0000000000000 *)
Definition F_m0_5 : N := 13826050856027422720.    (* 0xBFE0000000000000 *)
Definition F_1 : N := 4607182418800017408.        (* 0x3FF0000000000000 *)
Definition F_m1 : N := 13830554455654793216.      (* 0xBFF0000000000000 *)
Definition F_2 : N := 4611686018427387904.        (* 0x4000000000000000 *)
Definition F_m2 : N := 13835058055282163712.      (* 0xC000000000000000 *)
Definition F_4 : N := 4616189618054758400.        (* 0x4010000000000000 *)
Definition F_m4 : N := 13839561654909534208.      (* 0xC010000000000000 *)
Definition F_inv2pi : N := 4594902181429758083.   (* 0x3FC45F306DC9C883 = 1.0/(2.0*math.Pi) *)

(** insts.getOperand; [None] = (nil, error). *)
Definition get_operand (num : N) : option operand :=
  if num <=? 101 then Some (new_sreg num num 0)
  else if num =? 102 then Some (new_reg num R_FlatSratchLo 0)
  else if num =? 103 then Some (new_reg num R_FlatSratchHi 0)
  else if num =? 104 then Some (new_reg num R_XnackMaskLo 0)
  else if num =? 105 then Some (new_reg num R_XnackMaskHi 0)
  else if num =? 106 then Some (new_reg num R_VCCLO 0)
  else if num =? 107 then Some (new_reg num R_VCCHI 0)
  else if num =? 108 then Some (new_reg num R_TbaLo 0)
  else if num =? 109 then Some (new_reg num R_TbaHi 0)
  else if num =? 110 then Some (new_reg num R_TmaLo 0)
  else if num =? 111 then Some (new_reg num R_TmaHi 0)
  else if (112 <=? num) && (num <? 123) then Some (new_reg num (R_Timp0 + (num - 112)) 0)
  else if num =? 124 then Some (new_reg num R_M0 0)
  else if num =? 126 then Some (new_reg num R_EXECLO 0)
  else if num =? 127 then Some (new_reg num R_EXECHI 0)
  else if (128 <=? num) && (num <=? 192) then Some (new_int num (Z.of_N num - 128))
  else if (193 <=? num) && (num <=? 208) then Some (new_int num (192 - Z.of_N num))
  else if num =? 240 then Some (new_float num F_0_5)
  else if num =? 241 then Some (new_float num F_m0_5)
  else if num =? 242 then Some (new_float num F_1)
  else if num =? 243 then Some (new_float num F_m1)
  else if num =? 244 then Some (new_float num F_2)
  else if num =? 245 then Some (new_float num F_m2)
  else if num =? 246 then Some (new_float num F_4)
  else if num =? 247 then Some (new_float num F_m4)
  else if num =? 248 then Some (new_float num F_inv2pi)
  else if num =? 251 then Some (new_reg num R_VCCZ 0)
  else if num =? 252 then Some (new_reg num R_EXECZ 0)
  else if num =? 253 then Some (new_reg num R_SCC 0)
  else if num =? 255 then Some (lit_operand num)
  else if (256 <=? num) && (num <=? 511) then Some (new_vreg num (num - 256) 0)
  else None.

(** repaired code: a getOperand error is returned by the decode function *)
Definition getop (num : N) : res operand :=
  match get_operand num with Some o => ROk o | None => RErr end.

Definition is_lit (o : operand) : bool :=
  match o_type o with OTLit => true | _ => false end.

Definition with_count (o : operand) (c : N) : operand := o <| o_count := c |>.

(* ------------------------------------------------------------------ instruction *)

Record inst := mkInst {
  i_fmt : format;
  i_row : row;
  i_size : N;
  i_src0 : option operand;
  i_src1 : option operand;
  i_src2 : option operand;
  i_dst : option operand;
  i_sdst : option operand;
  i_addr : option operand;
  i_data : option operand;
  i_data1 : option operand;
  i_base : option operand;
  i_offset : option operand;
  i_simm16 : option operand;
  i_saddr : option operand;
  i_abs : N;
  i_omod : N;
  i_neg : N;
  i_opsel : N;
  i_opselhi : N;
  i_offset0 : N;
  i_offset1 : N;
  i_slc : bool;
  i_glc : bool;
  i_tfe : bool;
  i_imm : bool;
  i_clamp : bool;
  i_gds : bool;
  i_vmcnt : N;
  i_lkgmcnt : N;
  i_sdwa : bool;
  i_dst_sel : N;
  i_dst_unused : N;
  i_src0_sel : N;
  i_src0_sext : bool;
  i_src0_neg : bool;
  i_src0_abs : bool;
  i_src1_sel : N;
  i_src1_sext : bool;
  i_src1_neg : bool;
  i_src1_abs : bool;
  i_src2_neg : bool;
  i_src2_abs : bool
}.
#[export] Instance eta_inst : Settable _ :=
  settable! mkInst <i_fmt; i_row; i_size; i_src0; i_src1; i_src2; i_dst; i_sdst; i_addr; i_data; i_data1;
    i_base; i_offset; i_simm16; i_saddr; i_abs; i_omod; i_neg; i_opsel; i_opselhi; i_offset0; i_offset1;
    i_slc; i_glc; i_tfe; i_imm; i_clamp; i_gds; i_vmcnt; i_lkgmcnt; i_sdwa; i_dst_sel; i_dst_unused;
    i_src0_sel; i_src0_sext; i_src0_neg; i_src0_abs; i_src1_sel; i_src1_sext; i_src1_neg; i_src1_abs;
    i_src2_neg; i_src2_abs>.

(** new(Inst) with Format, InstType and ByteSize set *)
Definition inst0 (f : format) (r : row) : inst :=
  mkInst f r (f_size f) None None None None None None None None None None None None
         0 0 0 0 0 0 0 false false false false false false 0 0
         false 0 0 0 false false false 0 false false false false false.

(* ------------------------------------------------------------------ bits *)

(** extractBits: mask := ((1 << (hi-lo+1)) - 1) << lo (uint64);
    (uint64(number) & mask) >> lo *)
Definition extract_bits (w lo hi : N) : N :=
  N.shiftr (N.land w (N.shiftl (N.shiftl 1 (hi - lo + 1) - 1) lo)) lo.

(** extractBit after the repair: (number >> bitPosition) & 1 *)
Definition extract_bit (w pos : N) : N := N.land (N.shiftr w pos) 1.

Definition nz (x : N) : bool := negb (x =? 0).

(** little-endian 32-bit read of the first four bytes of a list *)
Definition le32 (b : list N) : N :=
  nth 0 b 0 + 256 * nth 1 b 0 + 65536 * nth 2 b 0 + 16777216 * nth 3 b 0.

(* strings.Contains *)
Fixpoint prefixb (p s : string) : bool :=
  match p with
  | EmptyString => true
  | String c p' => match s with
                   | EmptyString => false
                   | String d s' => Ascii.eqb c d && prefixb p' s'
                   end
  end.
Fixpoint contains (sub s : string) : bool :=
  prefixb sub s || match s with EmptyString => false | String _ s' => contains sub s' end.

(* ------------------------------------------------------------------ format matching *)

Definition matches (f : format) (w : N) : bool :=
  N.land (N.lxor w (f_enc f)) (f_mask f) =? 0.

Definition retrieve_opcode (f : format) (w : N) : N := extract_bits w (f_oplo f) (f_ophi f).

Definition is_vop3b_opcode (op : N) : bool :=
  (op =? 281) || (op =? 282) || (op =? 283) || (op =? 284) || (op =? 285) || (op =? 286)
  || (op =? 480) || (op =? 481).

(** FormatTable[t] (a Go map: nil when absent) *)
Definition format_of (t : fmt) : option format :=
  find (fun f => fmt_eqb (f_type f) t) format_table.

(** initFormatList ranges over the FormatTable *map* (unspecified order) and
    sorts by mask, descending, with sort.Slice (not stable).  Any list [fl]
    that is a permutation of the table sorted that way is a possible
    formatList; [format_list] is one of them (insertion sort of the generated
    table).  C04.format_match_unambiguous: the choice does not matter. *)
Fixpoint insert_desc (f : format) (l : list format) : list format :=
  match l with
  | [] => [f]
  | g :: l' => if f_mask g <? f_mask f then f :: l else g :: insert_desc f l'
  end.
Definition format_list : list format := fold_right insert_desc [] format_table.

Definition candidate (w : N) (f : format) : bool :=
  negb (fmt_eqb (f_type f) VOP3b) && matches f w.

Definition match_format (fl : list format) (w : N) : res format :=
  match find (candidate w) fl with
  | None => RErr
  | Some f =>
      if fmt_eqb (f_type f) VOP3a && is_vop3b_opcode (retrieve_opcode f w) then
        match format_of VOP3b with
        | Some g => ROk g
        | None => RFault        (* nil *Format returned without an error *)
        end
      else ROk f
  end.

Definition lookup (t : fmt) (op : N) : option row :=
  find (fun r => fmt_eqb (r_fmt r) t && (r_opcode r =? op)) decode_table.

(* ------------------------------------------------------------------ per-format decoders *)

(** the recurring block
      if o.OperandType == LiteralConstant { d.countLiteralDword(inst)
        if len(buf) < 8 { return error }; o.LiteralConstant = buf[4:8] } *)
Definition literal (len w1 : N) (o : operand) (size lsize : N) : res (operand * N) :=
  if is_lit o then
    if len <? 8 then RErr else ROk (o <| o_lit := w1 |>, lsize)
  else ROk (o, size).

(** countLiteralDword: inst.ByteSize = inst.Format.ByteSizeExLiteral + 4 (the
    dword after the instruction word is counted once, however many fields refer
    to it) *)
Definition lit_size (i : inst) : N := f_size (i_fmt i) + 4.

(** binary.LittleEndian.Uint32(buf[4:]) — panics when fewer than 8 bytes *)
Definition read_hi (len w1 : N) : res N := if len <? 8 then RFault else ROk w1.

Definition cnt64 (width : N) (o : operand) : operand :=
  if width =? 64 then with_count o 2 else o.

Definition decode_sop2 (len w0 w1 : N) (i : inst) : res inst :=
  let r := i_row i in
  s0 <- getop (extract_bits w0 0 7) ;;
  '(s0, sz) <- literal len w1 s0 (i_size i) (lit_size i) ;;
  s1 <- getop (extract_bits w0 8 15) ;;
  '(s1, sz) <- literal len w1 s1 sz (lit_size i) ;;
  d <- getop (extract_bits w0 16 22) ;;
  let i := i <| i_size := sz |> in
  if contains "64" (r_name r) then
    ROk (i <| i_src0 := Some (with_count s0 2) |> <| i_src1 := Some (with_count s1 2) |>
           <| i_dst := Some (with_count d 2) |>)
  else ROk (i <| i_src0 := Some s0 |> <| i_src1 := Some s1 |> <| i_dst := Some d |>).

Definition decode_vop1 (len w0 w1 : N) (i : inst) : res inst :=
  let r := i_row i in
  s0 <- getop (extract_bits w0 0 8) ;;
  '(s0, sz) <- literal len w1 s0 (i_size i) (lit_size i) ;;
  let s0 := cnt64 (r_src0w r) s0 in
  let dv := extract_bits w0 17 24 in
  d <- (if r_opcode r =? 2 then getop dv else getop (dv + 256)) ;;
  let d := cnt64 (r_dstw r) d in
  let '(s0, d) :=
    if r_opcode r =? 4 then (s0, with_count d 2)
    else if r_opcode r =? 15 then (with_count s0 2, d)
    else if r_opcode r =? 16 then (s0, with_count d 2)
    else (s0, d) in
  ROk (i <| i_size := sz |> <| i_src0 := Some s0 |> <| i_dst := Some d |>).

(** the seven-way selector switches of the SDWA path; other values leave the
    zero value *)
Definition sdwa_sel (v : N) : N :=
  if v =? 0 then 255 else if v =? 1 then 65280 else if v =? 2 then 16711680
  else if v =? 3 then 4278190080 else if v =? 4 then 65535 else if v =? 5 then 4294901760
  else if v =? 6 then 4294967295 else 0.
Definition sdwa_unused (v : N) : N :=
  if v =? 0 then 0 else if v =? 1 then 1 else if v =? 2 then 2 else 0.

Definition is_madk (op : N) : bool := (op =? 23) || (op =? 36) || (op =? 24) || (op =? 37).

Definition decode_vop2 (len w0 w1 : N) (i : inst) : res inst :=
  let r := i_row i in
  let lsz := lit_size i in
  let operand_bits := extract_bits w0 0 8 in
  let sd := w1 in
  let src0_bits := extract_bits sd 0 7 in
  (* first block: the SDWA dword or an ordinary SRC0; yields the instruction so
     far, inst.Src0, inst.IsSdwa and inst.ByteSize *)
  '(i, s0, sdwa, sz) <-
     (if operand_bits =? 249 then
        if len <? 8 then RErr
        else
          if nz (extract_bits sd 13 13) || nz (extract_bits sd 19 19) || nz (extract_bits sd 20 20)
             || nz (extract_bits sd 21 21) || nz (extract_bits sd 27 27) || nz (extract_bits sd 28 28)
             || nz (extract_bits sd 29 29)
          then RNotImpl
          else ROk (i <| i_sdwa := true |>
                      <| i_dst_sel := sdwa_sel (extract_bits sd 8 10) |>
                      <| i_dst_unused := sdwa_unused (extract_bits sd 11 12) |>
                      <| i_src0_sel := sdwa_sel (extract_bits sd 16 18) |>
                      <| i_src1_sel := sdwa_sel (extract_bits sd 24 26) |>,
                    new_vreg src0_bits src0_bits 0, true, lsz)
      else
        s0 <- getop operand_bits ;;
        ROk (i, s0, false, i_size i)) ;;
  '(s0, sz) <- literal len w1 s0 sz (lsz) ;;
  let bits := extract_bits w0 9 16 in
  let s1 := if sdwa && nz (extract_bits sd 31 31) then new_sreg bits bits 0 else new_vreg bits bits 0 in
  let s0 := if sdwa && nz (extract_bits sd 30 30) then new_sreg src0_bits src0_bits 0 else s0 in
  let dbits := extract_bits w0 17 24 in
  let i := i <| i_src0 := Some s0 |> <| i_src1 := Some s1 |> <| i_dst := Some (new_vreg dbits dbits 0) |> in
  if is_madk (r_opcode r) then
    if len <? 8 then RErr
    else ROk (i <| i_imm := true |> <| i_size := lsz |>
                <| i_src2 := Some (lit_operand 0 <| o_lit := w1 |>) |>)
  else ROk (i <| i_size := sz |>).

Definition flat_cnt (op : N) : option N :=
  if (op =? 21) || (op =? 29) || ((80 <=? op) && (op <=? 93)) then Some 2
  else if (op =? 22) || (op =? 30) then Some 3
  else if (op =? 23) || (op =? 31) then Some 4
  else None.

Definition decode_flat_body (cdna3 : bool) (w0 hi : N) (i : inst) : res inst :=
  let raw := extract_bits w0 0 12 in
  let off := if nz (N.land raw 4096) then N.lor raw 4294959104 else raw in
  let bits := extract_bits hi 0 7 in
  let saddr := extract_bits hi 16 22 in
  let acnt :=
    if cdna3 then (if negb (saddr =? 127) then 1 else 2)
    else (if negb (saddr =? 127) && negb (saddr =? 0) then 1 else 2) in
  let dbits := extract_bits hi 24 31 in
  let tbits := extract_bits hi 8 15 in
  let c := match flat_cnt (r_opcode (i_row i)) with Some c => c | None => 0 end in
  ROk (i <| i_offset0 := off |>
         <| i_slc := nz (extract_bits w0 17 17) |>
         <| i_glc := nz (extract_bits w0 16 16) |>
         <| i_tfe := nz (extract_bits hi 23 23) |>
         <| i_saddr := Some (new_int 0 (Z.of_N saddr)) |>
         <| i_addr := Some (new_vreg bits bits acnt) |>
         <| i_dst := Some (new_vreg dbits dbits c) |>
         <| i_data := Some (new_vreg tbits tbits c) |>).

Definition decode_flat (cdna3 : bool) (len w0 w1 : N) (i : inst) : res inst :=
  hi <- read_hi len w1 ;;
  decode_flat_body cdna3 w0 hi i.

Definition smem_cnt (op : N) : option N :=
  if op =? 0 then Some 1
  else if (op =? 1) || (op =? 9) || (op =? 17) || (op =? 25) then Some 2
  else if (op =? 2) || (op =? 10) || (op =? 18) || (op =? 26) then Some 4
  else if (op =? 3) || (op =? 11) || (op =? 19) || (op =? 27) then Some 8
  else if (op =? 4) || (op =? 12) || (op =? 20) || (op =? 28) then Some 16
  else None.

Definition decode_smem (len w0 w1 : N) (i : inst) : res inst :=
  hi <- read_hi len w1 ;;
  let imm := nz (extract_bits w0 17 17) in
  let sbase := N.shiftl (extract_bits w0 0 5) 1 in
  dt <- getop (extract_bits w0 6 12) ;;
  '(dt, sz) <- literal len w1 dt (i_size i) (lit_size i) ;;
  let dt := match smem_cnt (r_opcode (i_row i)) with Some c => with_count dt c | None => dt end in
  let obits := extract_bits hi 0 19 in
  ROk (i <| i_glc := nz (extract_bits w0 16 16) |>
         <| i_imm := imm |>
         <| i_base := Some (new_sreg sbase sbase 2) |>
         <| i_data := Some dt |>
         <| i_size := sz |>
         <| i_offset := Some (if imm then new_int 0 (Z.of_N obits) else new_sreg obits obits 1) |>).

Definition decode_sopp (w0 : N) (i : inst) : res inst :=
  let r := i_row i in
  let v := extract_bits w0 0 15 in
  let i := i <| i_simm16 := Some (new_int 0 (Z.of_N v)) |> in
  if r_opcode r =? 12 then
    ROk (i <| i_vmcnt := extract_bits v 0 3 |> <| i_lkgmcnt := extract_bits v 8 12 |>)
  else ROk i.

Definition decode_vopc (len w0 w1 : N) (i : inst) : res inst :=
  let r := i_row i in
  s0 <- getop (extract_bits w0 0 8) ;;
  '(s0, sz) <- literal len w1 s0 (i_size i) (lit_size i) ;;
  let s0 := cnt64 (r_src0w r) s0 in
  let bits := extract_bits w0 9 16 in
  let s1 := cnt64 (r_src1w r) (new_vreg bits bits 0) in
  ROk (i <| i_size := sz |> <| i_src0 := Some s0 |> <| i_src1 := Some s1 |>).

Definition decode_sopc (len w0 w1 : N) (i : inst) : res inst :=
  s0 <- getop (extract_bits w0 0 7) ;;
  '(s0, sz) <- literal len w1 s0 (i_size i) (lit_size i) ;;
  s1 <- getop (extract_bits w0 8 15) ;;
  '(s1, sz) <- literal len w1 s1 sz (lit_size i) ;;
  ROk (i <| i_size := sz |> <| i_src0 := Some s0 |> <| i_src1 := Some s1 |>).

Definition decode_vop3b_body (w0 hi : N) (i : inst) : res inst :=
  let r := i_row i in
  let i :=
    if 255 <? r_opcode r then
      let db := extract_bits w0 0 7 in
      i <| i_dst := Some (cnt64 (r_dstw r) (new_vreg db db 1)) |>
    else i in
  sd <- getop (extract_bits w0 8 14) ;;
  let sd := cnt64 (r_sdstw r) sd in
  s0 <- getop (extract_bits hi 0 8) ;;
  let s0 := cnt64 (r_src0w r) s0 in
  s1 <- getop (extract_bits hi 9 17) ;;
  let s1 := cnt64 (r_src1w r) s1 in
  s2 <- (if (255 <? r_opcode r) && (0 <? r_src2w r) then
           s2 <- getop (extract_bits hi 18 26) ;; ROk (Some (cnt64 (r_src2w r) s2))
         else ROk None) ;;
  ROk (i <| i_sdst := Some sd |> <| i_clamp := nz (extract_bits w0 15 15) |>
         <| i_src0 := Some s0 |> <| i_src1 := Some s1 |> <| i_src2 := s2 |>
         <| i_omod := extract_bits hi 27 28 |> <| i_neg := extract_bits hi 29 31 |>).

Definition decode_vop3b (len w0 w1 : N) (i : inst) : res inst :=
  hi <- read_hi len w1 ;;
  decode_vop3b_body w0 hi i.

Definition decode_vop3a_body (w0 hi : N) (i : inst) : res inst :=
  let r := i_row i in
  let bits := extract_bits w0 0 7 in
  d <- (if r_opcode r <=? 255 then getop bits else ROk (new_vreg bits bits 0)) ;;
  let d := cnt64 (r_dstw r) d in
  let abs := extract_bits w0 8 10 in
  s0 <- getop (extract_bits hi 0 8) ;;
  let s0 := cnt64 (r_src0w r) s0 in
  s1 <- getop (extract_bits hi 9 17) ;;
  let s1 := cnt64 (r_src1w r) s1 in
  s2 <- (if negb (r_src2w r =? 0) then
           s2 <- getop (extract_bits hi 18 26) ;; ROk (Some (cnt64 (r_src2w r) s2))
         else ROk None) ;;
  let neg := extract_bits hi 29 31 in
  let i := i <| i_dst := Some d |> <| i_abs := abs |>
             <| i_src0_abs := nz (N.land abs 1) |> <| i_src1_abs := nz (N.land abs 2) |>
             <| i_src2_abs := nz (N.land abs 4) |>
             <| i_clamp := nz (extract_bits w0 15 15) |>
             <| i_src0 := Some s0 |> <| i_src1 := Some s1 |> <| i_src2 := s2 |>
             <| i_omod := extract_bits hi 27 28 |> <| i_neg := neg |>
             <| i_src0_neg := nz (N.land neg 1) |> <| i_src1_neg := nz (N.land neg 2) |>
             <| i_src2_neg := nz (N.land neg 4) |> in
  if r_opcode r =? 944 then
    ROk (i <| i_opsel := extract_bits w0 11 13 |>
           <| i_opselhi := N.lor (extract_bits hi 27 28) (N.shiftl (extract_bits w0 14 14) 2) |>)
  else if (945 <=? r_opcode r) && (r_opcode r <=? 946) then
    ROk (i <| i_opsel := extract_bits w0 11 12 |> <| i_opselhi := extract_bits hi 27 28 |>)
  else ROk i.

Definition decode_vop3a (len w0 w1 : N) (i : inst) : res inst :=
  hi <- read_hi len w1 ;;
  decode_vop3a_body w0 hi i.

Definition decode_sop1 (len w0 w1 : N) (i : inst) : res inst :=
  let r := i_row i in
  s0 <- getop (extract_bits w0 0 7) ;;
  let s0 := cnt64 (r_src0w r) s0 in
  d <- getop (extract_bits w0 16 22) ;;
  let d := cnt64 (r_dstw r) d in
  '(s0, sz) <- literal len w1 s0 (i_size i) (lit_size i) ;;
  ROk (i <| i_size := sz |> <| i_src0 := Some s0 |> <| i_dst := Some d |>).

Definition decode_sopk (w0 : N) (i : inst) : res inst :=
  d <- getop (extract_bits w0 16 22) ;;
  ROk (i <| i_simm16 := Some (new_int 0 (Z.of_N (extract_bits w0 0 15))) |> <| i_dst := Some d |>).

Definition ds_two_offsets (op : N) : bool :=
  (op =? 14) || (op =? 15) || (op =? 46) || (op =? 47) || (op =? 55) || (op =? 56)
  || (op =? 78) || (op =? 79) || (op =? 110) || (op =? 111) || (op =? 119) || (op =? 120).

Definition cnt_from_width (w : N) : N :=
  if w =? 64 then 2 else if w =? 96 then 3 else if w =? 128 then 4 else 1.

Definition decode_ds_body (w0 hi : N) (i : inst) : res inst :=
  let r := i_row i in
  let o0 := extract_bits w0 0 7 in
  let o1 := extract_bits w0 8 15 in
  let o0 := if ds_two_offsets (r_opcode r) then o0 else o0 + N.shiftl o1 8 in
  let ab := extract_bits hi 0 7 in
  let vr (lo hi' w : N) := let b := extract_bits hi lo hi' in Some (new_vreg b b (cnt_from_width w)) in
  ROk (i <| i_offset0 := o0 |> <| i_offset1 := o1 |>
         <| i_gds := nz (extract_bit w0 16) |>
         <| i_addr := Some (new_vreg ab ab 1) |>
         <| i_data := if 0 <? r_src0w r then vr 8 15 (r_src0w r) else None |>
         <| i_data1 := if 0 <? r_src1w r then vr 16 23 (r_src1w r) else None |>
         <| i_dst := if 0 <? r_dstw r then vr 24 31 (r_dstw r) else None |>).

Definition decode_ds (len w0 w1 : N) (i : inst) : res inst :=
  hi <- read_hi len w1 ;;
  decode_ds_body w0 hi i.

(* ------------------------------------------------------------------ Decode *)

Inductive outcome :=
| Ok (i : inst) (size : N)
| Err
| NotImpl
| Fault.

(** Decode on: the length of the buffer, its first dword and its second dword
    ([w1] is only looked at behind a length test). [fl] = d.formatList. *)
(** the switch on format.FormatType at the end of Decode *)
Definition dispatch (t : fmt) (cdna3 : bool) (len w0 w1 : N) (i : inst) : res inst :=
  match t with
  | SOP2 => decode_sop2 len w0 w1 i
  | SMEM => decode_smem len w0 w1 i
  | VOP2 => decode_vop2 len w0 w1 i
  | VOP1 => decode_vop1 len w0 w1 i
  | FLAT => decode_flat cdna3 len w0 w1 i
  | SOPP => decode_sopp w0 i
  | VOPC => decode_vopc len w0 w1 i
  | SOPC => decode_sopc len w0 w1 i
  | VOP3a => decode_vop3a len w0 w1 i
  | VOP3b => decode_vop3b len w0 w1 i
  | SOP1 => decode_sop1 len w0 w1 i
  | SOPK => decode_sopk w0 i
  | DS => decode_ds len w0 w1 i
  | _ => RFault     (* log.Panicf("unabkle to decode instruction type") *)
  end.

Definition decode_core (fl : list format) (cdna3 : bool) (len w0 w1 : N) : res inst :=
  if len <? 4 then RErr else
  f <- match_format fl w0 ;;
  let op := retrieve_opcode f w0 in
  r <- match lookup (f_type f) op with Some r => ROk r | None => RErr end ;;
  let i := inst0 f r in
  if len <? i_size i then RErr else
  dispatch (f_type f) cdna3 len w0 w1 i.

Definition to_outcome (r : res inst) : outcome :=
  match r with
  | ROk i => Ok i (i_size i)
  | RErr => Err
  | RNotImpl => NotImpl
  | RFault => Fault
  end.

Definition decode_with (fl : list format) (cdna3 : bool) (buf : list N) : outcome :=
  to_outcome (decode_core fl cdna3 (N.of_nat (List.length buf)) (le32 buf) (le32 (skipn 4 buf))).

Definition decode (cdna3 : bool) (buf : list N) : outcome := decode_with format_list cdna3 buf.

(* ------------------------------------------------------------------ sequential decode of a kernel *)

(** Decode from the entry until the end of the code (given as dwords); result
    (number of instructions, status): status 0 = the code was consumed exactly,
    1 = an instruction was not decodable, 2 = a reported size ran past the end
    or is not a positive multiple of four, 3 = out of fuel. *)
Fixpoint seq_decode (fuel : nat) (cdna3 : bool) (ws : list N) (count : N) : N * N :=
  match fuel with
  | O => (count, 3)
  | S fuel' =>
      match ws with
      | [] => (count, 0)
      | w0 :: rest =>
          match decode_core format_list cdna3 (4 * N.of_nat (List.length ws)) w0 (hd 0 rest) with
          | ROk i =>
              let n := i_size i in
              if (n =? 0) || negb (n mod 4 =? 0) || (4 * N.of_nat (List.length ws) <? n) then (count, 2)
              else seq_decode fuel' cdna3 (skipn (N.to_nat (n / 4)) ws) (count + 1)
          | _ => (count, 1)
          end
      end
  end.

(* ------------------------------------------------------------------ observations (correspondence) *)

Definition zb (b : bool) : Z := if b then 1%Z else 0%Z.
Definition zn (n : N) : Z := Z.of_N n.

Definition fmt_id (t : fmt) : Z :=
  match find (fun p => fmt_eqb (fst p) t) format_type_ids with
  | Some p => zn (snd p)
  | None => (-1)%Z
  end.

Definition flat_operand (o : option operand) : list Z :=
  match o with
  | None => [0; 0; 0; 0; 0; 0; 0; 0]%Z
  | Some o => [1%Z; zn (o_code o); zn (otype_id (o_type o));
               match o_reg o with Some k => zn k | None => (-1)%Z end;
               zn (o_count o); zn (o_float o); o_int o; zn (o_lit o)]
  end.

(** every field of insts.Inst (except PC and InstType.ID) as integers, in the
    order used by harness/cmd/c04 *)
Definition flat_inst (i : inst) : list Z :=
  let f := i_fmt i in let r := i_row i in
  [fmt_id (f_type f); zn (f_enc f); zn (f_mask f); zn (f_size f); zn (f_oplo f); zn (f_ophi f);
   zn (r_opcode r); fmt_id (r_fmt r); zn (r_unit r); zn (r_dstw r); zn (r_src0w r); zn (r_src1w r);
   zn (r_src2w r); zn (r_sdstw r); zn (i_size i)]
  ++ flat_operand (i_src0 i) ++ flat_operand (i_src1 i) ++ flat_operand (i_src2 i)
  ++ flat_operand (i_dst i) ++ flat_operand (i_sdst i) ++ flat_operand (i_addr i)
  ++ flat_operand (i_data i) ++ flat_operand (i_data1 i) ++ flat_operand (i_base i)
  ++ flat_operand (i_offset i) ++ flat_operand (i_simm16 i) ++ flat_operand (i_saddr i)
  ++ [zn (i_abs i); zn (i_omod i); zn (i_neg i); zn (i_opsel i); zn (i_opselhi i);
      zn (i_offset0 i); zn (i_offset1 i); zb (i_slc i); zb (i_glc i); zb (i_tfe i); zb (i_imm i);
      zb (i_clamp i); zb (i_gds i); zn (i_vmcnt i); zn (i_lkgmcnt i); zb (i_sdwa i);
      zn (i_dst_sel i); zn (i_dst_unused i); zn (i_src0_sel i); zb (i_src0_sext i);
      zb (i_src0_neg i); zb (i_src0_abs i); zn (i_src1_sel i); zb (i_src1_sext i);
      zb (i_src1_neg i); zb (i_src1_abs i); zb (i_src2_neg i); zb (i_src2_abs i)].
