(** C04 — the regenerated decode table still contains every row of the committed
    reference snapshot (same opcode, format, mnemonic, unit and widths). *)
From Coq Require Import NArith List String Bool.
From VIsa Require Import InstTypes Decode DecodeProofs RefTable.
From VGen Require Import DecodeTable.
Import ListNotations.
Open Scope N_scope.

Definition ref_check : bool :=
  forallb (fun r => match lookup (r_fmt r) (r_opcode r) with
                    | Some r' => row_eqb r' r
                    | None => false
                    end) ref_table.

Lemma ref_check_true : ref_check = true.
Proof. vm_compute. reflexivity. Qed.

Lemma ref_rows_present r :
  In r ref_table -> lookup (r_fmt r) (r_opcode r) = Some r /\ In r decode_table.
Proof.
  intros H. pose proof ref_check_true as E. unfold ref_check in E. rewrite forallb_forall in E.
  specialize (E r H). destruct (lookup (r_fmt r) (r_opcode r)) as [r'|] eqn:L; [|discriminate].
  apply row_eqb_eq in E. subst r'. split; [reflexivity|]. apply lookup_some in L. tauto.
Qed.

(** rows of the current table that the reference does not know (new, unreviewed) *)
Definition unreviewed_rows : list row :=
  filter (fun r => negb (existsb (row_eqb r) ref_table)) decode_table.
