(** C03 — ExecSpec, vector part: per-lane rows of the integer VOP2 / VOP1 / VOPC
    / VOP3a / VOP3b instructions as the GCN3 (VI) and CDNA3 (gfx9 encoding)
    manuals describe them.  A row gives, on architectural operand values of one
    lane (32 bits of a 32-bit operand, 64 bits of a 64-bit one), the value
    written to the lane's VGPR destination and the lane's bit of the mask
    result (carry / borrow / compare).  The frame is part of the statement:
    lanes whose EXEC bit is clear keep their VGPRs; the mask destination (VCC,
    an SGPR pair) receives 0 in the positions of inactive lanes; nothing else
    changes.  [r_dom]: where the transcription is sure of the manual (outside,
    [exec_spec_v] is undefined and the monitor is silent).
    Not modelled: SDWA/DPP, abs/neg/clamp/omod (must be zero), the 16-bit
    opcodes, v_movrel*, and the carry-out SGPR pair of v_mad_u64_u32 (the
    repository decodes it as VOP3a).  Written independently of ExecImplV;
    definitions only. *)
From Coq Require Import ZArith List Bool.
From RecordUpdate Require Import RecordSet.
Import RecordSetNotations.
Import ListNotations.
From VIsa Require Import IsaState ExecSpec.
Open Scope Z_scope.

Definition is_vgpr (code : Z) : bool := (256 <=? code) && (code <=? 511).
Definition lane_ok (l : Z) : bool := (0 <=? l) && (l <? 64).
Definition active (st : state) (l : Z) : bool := lane_ok l && Z.testbit (exec st) l.

(** operand value of lane [l] *)
Definition vsrc (w : width) (st : state) (code lit l : Z) : option Z :=
  if is_vgpr code then
    match w with
    | B32 => Some (vgpr st l (code - 256))
    | B64 => if code <=? 510 then Some (vgpr st l (code - 256) + W32 * vgpr st l (code - 255)) else None
    end
  else src w st code lit.

(** the mask whose bit l is [p l] (l = 0..63) *)
Definition mask_of (p : Z -> bool) : Z :=
  fold_left (fun m l => if p l then m + 2 ^ l else m) (map Z.of_nat (seq 0 64)) 0.

Inductive mask_src := SNone | SVcc | SSrc2.
Inductive mask_dst := DNone | DVcc | DDst | DSdst.

Record vrow := mkVR {
  r_n : Z;                                  (* number of sources *)
  r_w0 : width; r_w1 : width; r_w2 : width;
  r_dw : option width;                      (* VGPR destination width, None: no VGPR destination *)
  r_cin : mask_src; r_mask : mask_dst;
  r_val : Z -> Z -> Z -> bool -> Z;         (* S0 S1 S2 cin -> D (already wrapped to the destination width) *)
  r_flag : Z -> Z -> Z -> bool -> bool;     (* mask bit of the lane *)
  r_dom : Z -> Z -> Z -> bool
}.

Definition all3 (_ _ _ : Z) : bool := true.
Definition nof (_ _ _ : Z) (_ : bool) : bool := false.
Definition sg (x : Z) : Z := signed B32 x.
Definition sg64 (x : Z) : Z := signed B64 x.
Definition sext16 (x : Z) : Z := let y := x mod 65536 in if y <? 32768 then y else y - 65536.
Definition sext24 (x : Z) : Z := let y := x mod 16777216 in if y <? 8388608 then y else y - 16777216.

(** two 32-bit sources, 32-bit VGPR destination, no masks *)
Definition op2 (f : Z -> Z -> Z) : vrow :=
  mkVR 2 B32 B32 B32 (Some B32) SNone DNone (fun a b _ _ => f a b mod W32) nof all3.
Definition op3 (f : Z -> Z -> Z -> Z) : vrow :=
  mkVR 3 B32 B32 B32 (Some B32) SNone DNone (fun a b c _ => f a b c mod W32) nof all3.
Definition op1 (f : Z -> Z) : vrow :=
  mkVR 1 B32 B32 B32 (Some B32) SNone DNone (fun a _ _ _ => f a mod W32) nof all3.
(** add/sub family: D = f S0 S1 cin (mod 2^32), mask bit = g S0 S1 cin *)
Definition arith (cin : mask_src) (out : mask_dst) (n : Z)
                 (f : Z -> Z -> Z -> Z) (g : Z -> Z -> Z -> bool) : vrow :=
  mkVR n B32 B32 B64 (Some B32) cin out
       (fun a b _ c => f a b (if c then 1 else 0) mod W32)
       (fun a b _ c => g a b (if c then 1 else 0)) all3.
Definition compare (w : width) (out : mask_dst) (sgn : bool) (rel : Z -> Z -> bool) : vrow :=
  let v := fun x => if sgn then signed w x else x in
  mkVR 2 w w B32 None SNone out (fun _ _ _ _ => 0) (fun a b _ _ => rel (v a) (v b)) all3.

Definition add_f (a b c : Z) := a + b + c.
Definition add_c (a b c : Z) := a + b + c >=? W32.
Definition sub_f (a b c : Z) := a - b - c.
Definition sub_c (a b c : Z) := b + c >? a.
Definition subrev_f (a b c : Z) := b - a - c.
Definition subrev_c (a b c : Z) := a + c >? b.
Definition no_c (f : Z -> Z -> Z -> Z) (a b _ : Z) := f a b 0.
Definition no_cb (g : Z -> Z -> Z -> bool) (a b _ : Z) := g a b 0.

Definition bfe_u (s0 s1 s2 : Z) : Z := (s0 / 2 ^ (s1 mod 32)) mod 2 ^ (s2 mod 32).
Definition bfe_s (s0 s1 s2 : Z) : Z :=
  let w := s2 mod 32 in
  let field := (sg s0 / 2 ^ (s1 mod 32)) mod 2 ^ w in
  if w =? 0 then 0 else if 2 ^ (w - 1) <=? field then field - 2 ^ w else field.
Definition min_3 (a b c : Z) := Z.min (Z.min a b) c.
Definition max_3 (a b c : Z) := Z.max (Z.max a b) c.
Definition med_3 (a b c : Z) := Z.max (Z.min a b) (Z.min (Z.max a b) c).
Definition ffbh32 (x : Z) : Z := if x =? 0 then -1 else 31 - Z.log2 x.

(** integer compares, opcode numbers shared by VOPC and VOP3a *)
Definition cmp_row (out : mask_dst) (op : Z) : option vrow :=
  match op with
  | 164 => Some (mkVR 2 B32 B32 B32 None SNone out (fun _ _ _ _ => 0)
                   (fun a b _ _ => sext16 a >? sext16 b) all3)                       (* V_CMP_GT_I16 *)
  | 193 => Some (compare B32 out true Z.ltb) | 194 => Some (compare B32 out true Z.eqb)
  | 195 => Some (compare B32 out true Z.leb) | 196 => Some (compare B32 out true Z.gtb)
  | 197 => Some (compare B32 out true (fun x y => negb (x =? y)))
  | 198 => Some (compare B32 out true Z.geb)
  | 201 => Some (compare B32 out false Z.ltb) | 202 => Some (compare B32 out false Z.eqb)
  | 203 => Some (compare B32 out false Z.leb) | 204 => Some (compare B32 out false Z.gtb)
  | 205 => Some (compare B32 out false (fun x y => negb (x =? y)))
  | 206 => Some (compare B32 out false Z.geb)
  | 232 => Some (compare B64 out false (fun _ _ => false))
  | 233 => Some (compare B64 out false Z.ltb) | 234 => Some (compare B64 out false Z.eqb)
  | 235 => Some (compare B64 out false Z.leb) | 236 => Some (compare B64 out false Z.gtb)
  | 237 => Some (compare B64 out false (fun x y => negb (x =? y)))
  | 238 => Some (compare B64 out false Z.geb)
  | 239 => Some (compare B64 out false (fun _ _ => true))
  | _ => None
  end.

Definition vop2_row (a : arch) (op : Z) : option vrow :=
  match op with
  | 0 => Some (mkVR 2 B32 B32 B32 (Some B32) SVcc DNone (fun a b _ c => if c then b else a) nof all3)  (* V_CNDMASK_B32 *)
  | 6 => Some (op2 (fun x y => sext24 x * sext24 y))                    (* V_MUL_I32_I24 *)
  | 8 => Some (op2 (fun x y => (x mod 16777216) * (y mod 16777216)))    (* V_MUL_U32_U24 *)
  | 12 => Some (op2 (fun x y => Z.min (sg x) (sg y))) | 13 => Some (op2 (fun x y => Z.max (sg x) (sg y)))
  | 14 => Some (op2 Z.min) | 15 => Some (op2 Z.max)
  | 16 => Some (op2 (fun x y => y / 2 ^ (x mod 32)))                    (* V_LSHRREV_B32 *)
  | 17 => Some (op2 (fun x y => sg y / 2 ^ (x mod 32)))                 (* V_ASHRREV_I32 *)
  | 18 => Some (op2 (fun x y => y * 2 ^ (x mod 32)))                    (* V_LSHLREV_B32 *)
  | 19 => Some (op2 Z.land) | 20 => Some (op2 Z.lor) | 21 => Some (op2 Z.lxor)
  | 25 => Some (arith SNone DVcc 2 (no_c add_f) (no_cb add_c))          (* V_ADD_U32 / V_ADD_CO_U32 *)
  | 26 => Some (arith SNone DVcc 2 (no_c sub_f) (no_cb sub_c))
  | 27 => Some (arith SNone DVcc 2 (no_c subrev_f) (no_cb subrev_c))
  | 28 => Some (arith SVcc DVcc 2 add_f add_c)                          (* V_ADDC_U32 *)
  | 29 => Some (arith SVcc DVcc 2 sub_f sub_c)                          (* V_SUBB_U32 *)
  | 30 => Some (arith SVcc DVcc 2 subrev_f subrev_c)                    (* V_SUBBREV_U32 *)
  | 38 => match a with CDNA3 => Some (op2 (fun x y => (x mod 65536 + y mod 65536) mod 65536)) | GCN3 => None end  (* gfx9 V_ADD_U16: high half zero *)
  | 42 => match a with CDNA3 => Some (op2 (fun x y => ((y mod 65536) * 2 ^ (x mod 16)) mod 65536)) | GCN3 => None end
  | 52 => match a with CDNA3 => Some (op2 Z.add) | GCN3 => None end     (* gfx9 V_ADD_U32: no carry-out *)
  | 53 => match a with CDNA3 => Some (op2 Z.sub) | GCN3 => None end
  | 54 => match a with CDNA3 => Some (op2 (fun x y => y - x)) | GCN3 => None end
  | _ => None
  end.

Definition vop1_row (a : arch) (op : Z) : option vrow :=
  match op with
  | 1 => Some (op1 (fun x => x))                                        (* V_MOV_B32 *)
  | 43 => Some (op1 (fun x => W32 - 1 - x))                             (* V_NOT_B32 *)
  | 44 => Some (op1 brev32)                                             (* V_BFREV_B32 *)
  | 45 => Some (op1 ffbh32)                                             (* V_FFBH_U32 *)
  | _ => None
  end.

Definition gfx9_only (a : arch) (r : vrow) : option vrow :=
  match a with CDNA3 => Some r | GCN3 => None end.

Definition vop3a_row (a : arch) (op : Z) : option vrow :=
  match op with
  | 256 => Some (mkVR 3 B32 B32 B64 (Some B32) SSrc2 DNone (fun a b _ c => if c then b else a) nof all3)
  | 276 => Some (op2 Z.lor)
  | 450 => Some (op3 (fun x y z => sext24 x * sext24 y + sg z))          (* V_MAD_I32_I24 *)
  | 451 => Some (op3 (fun x y z => (x mod 16777216) * (y mod 16777216) + z))  (* V_MAD_U32_U24 *)
  | 456 => Some (op3 bfe_u) | 457 => Some (op3 bfe_s)
  | 458 => Some (op3 (fun x y z => Z.lor (Z.land x y) (Z.land (W32 - 1 - x) z)))   (* V_BFI_B32 *)
  | 462 => Some (op3 (fun x y z => (x * W32 + y) / 2 ^ (z mod 32)))               (* V_ALIGNBIT_B32 *)
  | 465 => Some (op3 (fun x y z => min_3 (sg x) (sg y) (sg z))) | 466 => Some (op3 min_3)
  | 468 => Some (op3 (fun x y z => max_3 (sg x) (sg y) (sg z))) | 469 => Some (op3 max_3)
  | 471 => Some (op3 (fun x y z => med_3 (sg x) (sg y) (sg z))) | 472 => Some (op3 med_3)
  | 488 => Some (mkVR 3 B32 B32 B64 (Some B64) SNone DNone                         (* V_MAD_U64_U32, D only *)
                   (fun x y z _ => (x * y + z) mod W64) nof all3)
  | 509 => gfx9_only a (op3 (fun x y z => x * 2 ^ (y mod 32) + z))                 (* V_LSHL_ADD_U32 *)
  | 510 => gfx9_only a (op3 (fun x y z => (x + y) * 2 ^ (z mod 32)))               (* V_ADD_LSHL_U32 *)
  | 511 => gfx9_only a (op3 (fun x y z => x + y + z))                              (* V_ADD3_U32 *)
  | 512 => gfx9_only a (op3 (fun x y z => Z.lor ((x * 2 ^ (y mod 32)) mod W32) z)) (* V_LSHL_OR_B32 *)
  | 520 => gfx9_only a (mkVR 3 B64 B32 B64 (Some B64) SNone DNone                  (* V_LSHL_ADD_U64 *)
                   (fun x y z _ => (x * 2 ^ (y mod 8) + z) mod W64) nof
                   (fun _ y _ => y mod 64 <? 8))
  | 645 => Some (op2 Z.mul)                                                        (* V_MUL_LO_U32 *)
  | 646 => Some (op2 (fun x y => x * y / W32))                                     (* V_MUL_HI_U32 *)
  | 647 => Some (op2 (fun x y => sg x * sg y / W32))                               (* V_MUL_HI_I32 *)
  | 655 => Some (mkVR 2 B32 B64 B32 (Some B64) SNone DNone (fun x y _ _ => (y * 2 ^ (x mod 64)) mod W64) nof all3)
  | 656 => Some (mkVR 2 B32 B64 B32 (Some B64) SNone DNone (fun x y _ _ => y / 2 ^ (x mod 64)) nof all3)
  | 657 => Some (mkVR 2 B32 B64 B32 (Some B64) SNone DNone (fun x y _ _ => (sg64 y / 2 ^ (x mod 64)) mod W64) nof all3)
  | _ => cmp_row DDst op
  end.

Definition vop3b_row (a : arch) (op : Z) : option vrow :=
  match op with
  | 281 => Some (arith SNone DSdst 2 (no_c add_f) (no_cb add_c))
  | 282 => Some (arith SNone DSdst 2 (no_c sub_f) (no_cb sub_c))
  | 283 => Some (arith SNone DSdst 2 (no_c subrev_f) (no_cb subrev_c))
  | 284 => Some (arith SSrc2 DSdst 3 add_f add_c)
  | 285 => Some (arith SSrc2 DSdst 3 sub_f sub_c)
  | 286 => Some (arith SSrc2 DSdst 3 subrev_f subrev_c)
  | _ => None
  end.

Definition vrow_of (a : arch) (f : format) (op : Z) : option vrow :=
  match f with
  | F_VOP2 => vop2_row a op | F_VOP1 => vop1_row a op | F_VOPC => cmp_row DVcc op
  | F_VOP3A => vop3a_row a op | F_VOP3B => vop3b_row a op
  | _ => None
  end.

Definition oget (o : option Z) : Z := match o with Some x => x | None => 0 end.
Definition isS (o : option Z) : bool := match o with Some _ => true | None => false end.

(** first active lane (lowest set EXEC bit), lane 0 if EXEC is zero *)
Definition first_active (st : state) : Z :=
  match find (fun l => Z.testbit (exec st) l) (map Z.of_nat (seq 0 64)) with Some l => l | None => 0 end.

(** per-lane ingredients of a row applied to an instruction *)
Definition sp_s0 (r : vrow) (st : state) (i : inst) (l : Z) : option Z :=
  vsrc (r_w0 r) st (i_src0 i) (i_lit i) l.
Definition sp_s1 (r : vrow) (st : state) (i : inst) (l : Z) : option Z :=
  if 2 <=? r_n r then vsrc (r_w1 r) st (i_src1 i) (i_lit i) l else Some 0.
Definition sp_s2 (r : vrow) (st : state) (i : inst) (l : Z) : option Z :=
  if 3 <=? r_n r then vsrc (r_w2 r) st (i_src2 i) (i_lit i) l else Some 0.
Definition sp_cin (r : vrow) (st : state) (i : inst) (l : Z) : bool :=
  match r_cin r with
  | SNone => false
  | SVcc => Z.testbit (vcc st) l
  | SSrc2 => Z.testbit (oget (sp_s2 r st i l)) l
  end.
Definition sp_ok (r : vrow) (st : state) (i : inst) (l : Z) : bool :=
  isS (sp_s0 r st i l) && isS (sp_s1 r st i l) && isS (sp_s2 r st i l) &&
  r_dom r (oget (sp_s0 r st i l)) (oget (sp_s1 r st i l)) (oget (sp_s2 r st i l)).
Definition sp_val (r : vrow) (st : state) (i : inst) (l : Z) : Z :=
  r_val r (oget (sp_s0 r st i l)) (oget (sp_s1 r st i l)) (oget (sp_s2 r st i l)) (sp_cin r st i l).
Definition sp_flag (r : vrow) (st : state) (i : inst) (l : Z) : bool :=
  r_flag r (oget (sp_s0 r st i l)) (oget (sp_s1 r st i l)) (oget (sp_s2 r st i l)) (sp_cin r st i l).
(** the VGPR file after the instruction: active lanes receive the row's value in
    the destination register(s), everything else is unchanged *)
Definition sp_vgpr (r : vrow) (w : width) (st : state) (i : inst) : Z -> Z -> Z := fun l x =>
  let d := i_dst i - 256 in
  if active st l then
    (if x =? d then match w with B32 => sp_val r st i l | B64 => sp_val r st i l mod W32 end
     else if (match w with B32 => false | B64 => x =? d + 1 end) then sp_val r st i l / W32
     else vgpr st l x)
  else vgpr st l x.

(** the effect of one row *)
Definition run_r (r : vrow) (st : state) (i : inst) : option state :=
  if negb (forallb (fun l => negb (active st l) || sp_ok r st i l) (map Z.of_nat (seq 0 64))) then None
  else
  let m := mask_of (fun l => active st l && sp_flag r st i l) in
  let st1 :=
    match r_dw r with
    | None => Some st
    | Some w =>
        if is_vgpr (i_dst i) && (match w with B32 => true | B64 => i_dst i <=? 510 end)
        then Some (st <| vgpr := sp_vgpr r w st i |>)
        else None
    end in
  obind st1 (fun st1 =>
  match r_mask r with
  | DNone => Some st1
  | DVcc => Some (st1 <| vcc := m |>)
  | DDst => dst64 st1 (i_dst i) m
  | DSdst => dst64 st1 (i_simm i) m
  end).

Definition exec_spec_vgen (a : arch) (st : state) (i : inst) : option state :=
  obind (vrow_of a (i_fmt i) (i_op i)) (fun r => run_r r st i).

Definition exec_spec_v (a : arch) (st : state) (i : inst) : option state :=
  match i_fmt i, i_op i with
  | F_VOP1, 2 =>                                         (* V_READFIRSTLANE_B32 *)
      obind (vsrc B32 st (i_src0 i) (i_lit i) (first_active st)) (fun v => dst32 st (i_dst i) v)
  | _, _ => exec_spec_vgen a st i
  end.
