(** C03 — ExecSpec, binary32 part: the floating point rows of the manuals over
    Flocq's IEEE 754 binary32.  Kept apart from ExecSpecV (see ExecImplF).
    Definitions only. *)
From Coq Require Import ZArith List Bool.
From RecordUpdate Require Import RecordSet.
Import RecordSetNotations.
Import ListNotations.
From VIsa Require Import IsaState ExecSpec IsaFloat ExecSpecV.
Open Scope Z_scope.

(** binary32 rows.  The arithmetic is the IEEE operation the manual names, with
    round-to-nearest-even and denormals kept (the MODE-dependent flushing of
    v_mac/v_mad is not modelled).  v_min/v_max are specified where the manuals
    leave no doubt: no NaN operand and not two zeros of opposite sign.  Float ->
    integer conversions truncate toward zero and saturate; NaN gives 0. *)
Definition fop2 (f : Z -> Z -> Z) : vrow :=
  mkVR 2 B32 B32 B32 (Some B32) SNone DNone (fun a b _ _ => f a b mod W32) nof all3.
Definition fop3 (f : Z -> Z -> Z -> Z) : vrow :=
  mkVR 3 B32 B32 B32 (Some B32) SNone DNone (fun a b c _ => f a b c mod W32) nof all3.
Definition fcompare (out : mask_dst) (rel : Z -> Z -> bool) : vrow :=
  mkVR 2 B32 B32 B32 None SNone out (fun _ _ _ _ => 0) (fun a b _ _ => rel a b) all3.
Definition minmax_dom (a b _ : Z) : bool :=
  negb (f32_isnan a) && negb (f32_isnan b) && negb (f32_iszero a && f32_iszero b && negb (a =? b)).
Definition f32_min (a b : Z) : Z := if f32_lt b a then b else a.
Definition f32_max (a b : Z) : Z := if f32_gt b a then b else a.
Definition cvt_u32_f32 (a : Z) : Z :=
  if f32_isnan a then 0
  else if f32_isinf a then (if a <? 2147483648 then 4294967295 else 0)
  else Z.max 0 (Z.min 4294967295 (f32_trunc a)).
Definition cvt_i32_f32 (a : Z) : Z :=
  if f32_isnan a then 0
  else if f32_isinf a then (if a <? 2147483648 then 2147483647 else -2147483648)
  else Z.max (-2147483648) (Z.min 2147483647 (f32_trunc a)).
Definition fcmp_row (out : mask_dst) (op : Z) : option vrow :=
  let lg := fun a b => f32_lt a b || f32_gt a b in
  match op with
  | 64 => Some (fcompare out (fun _ _ => false))
  | 65 => Some (fcompare out f32_lt) | 66 => Some (fcompare out f32_eq) | 67 => Some (fcompare out f32_le)
  | 68 => Some (fcompare out f32_gt) | 69 => Some (fcompare out lg) | 70 => Some (fcompare out f32_ge)
  | 71 => Some (fcompare out (fun a b => negb (f32_unord a b)))   (* V_CMP_O_F32 *)
  | 72 => Some (fcompare out f32_unord)                           (* V_CMP_U_F32 *)
  | 73 => Some (fcompare out (fun a b => negb (f32_ge a b)))      (* NGE: true if unordered *)
  | 74 => Some (fcompare out (fun a b => negb (lg a b)))
  | 75 => Some (fcompare out (fun a b => negb (f32_gt a b)))
  | 76 => Some (fcompare out (fun a b => negb (f32_le a b)))
  | 77 => Some (fcompare out (fun a b => negb (f32_eq a b)))
  | 78 => Some (fcompare out (fun a b => negb (f32_lt a b)))
  | 79 => Some (fcompare out (fun _ _ => true))
  | _ => None
  end.


Definition fvop2_row (a : arch) (op : Z) : option vrow :=
  match op with
  | 1 => Some (fop2 f32_add) | 2 => Some (fop2 f32_sub) | 3 => Some (fop2 (fun x y => f32_sub y x))
  | 5 => Some (fop2 f32_mul)
  | 10 => Some (mkVR 2 B32 B32 B32 (Some B32) SNone DNone (fun a b _ _ => f32_min a b) nof minmax_dom)
  | 11 => Some (mkVR 2 B32 B32 B32 (Some B32) SNone DNone (fun a b _ _ => f32_max a b) nof minmax_dom)
  | 22 => match a with GCN3 => Some (fop3 (fun x y d => f32_add d (f32_mul x y))) | CDNA3 => None end  (* V_MAC_F32: D = S0*S1 + D, two roundings *)
  | 23 => match a with
          | GCN3 => Some (fop3 (fun x y k => f32_add (f32_mul x k) y))                                 (* V_MADMK_F32 *)
          | CDNA3 => Some (fop3 (fun x y k => f32_fma x k y)) end                                      (* V_FMAMK_F32: fused *)
  | 24 => match a with
          | GCN3 => Some (fop3 (fun x y k => f32_add (f32_mul x y) k))                                 (* V_MADAK_F32 *)
          | CDNA3 => Some (fop3 (fun x y k => f32_fma x y k)) end                                      (* V_FMAAK_F32 *)
  | 59 => match a with CDNA3 => Some (fop3 (fun x y d => f32_fma x y d)) | GCN3 => None end           (* V_FMAC_F32 *)
  | _ => None
  end.
Definition fvop1_row (op : Z) : option vrow :=
  match op with
  | 4 => Some (mkVR 1 B32 B32 B32 (Some B64) SNone DNone (fun a _ _ _ => f64_of_Z (sg a)) nof all3)   (* V_CVT_F64_I32: exact *)
  | 15 => Some (mkVR 1 B64 B32 B32 (Some B32) SNone DNone (fun a _ _ _ => f32_of_f64 a) nof all3)     (* V_CVT_F32_F64: round to nearest even *)
  | 16 => Some (mkVR 1 B32 B32 B32 (Some B64) SNone DNone (fun a _ _ _ => f64_of_f32 a) nof all3)     (* V_CVT_F64_F32: exact *)
  | 22 => Some (mkVR 1 B32 B32 B32 (Some B64) SNone DNone (fun a _ _ _ => f64_of_Z a) nof all3)       (* V_CVT_F64_U32: exact *)
  | 5 => Some (op1 (fun x => f32_of_Z (sg x)))                          (* V_CVT_F32_I32 *)
  | 6 => Some (op1 f32_of_Z)                                            (* V_CVT_F32_U32 *)
  | 7 => Some (op1 cvt_u32_f32)                                         (* V_CVT_U32_F32 *)
  | 8 => Some (op1 cvt_i32_f32)                                         (* V_CVT_I32_F32 *)
  | 28 => Some (op1 f32_truncf)                               (* V_TRUNC_F32: integer part, toward zero *)
  | 30 => Some (op1 f32_rndne)                               (* V_RNDNE_F32: nearest integer, ties to even *)
  | _ => None
  end.
Definition fvop3a_row (op : Z) : option vrow :=
  match op with
  | 258 => Some (fop2 f32_sub) | 261 => Some (fop2 f32_mul)
  | 449 => Some (fop3 (fun x y z => f32_add (f32_mul x y) z))                        (* V_MAD_F32: two roundings *)
  | 459 => Some (fop3 f32_fma)                                                       (* V_FMA_F32: one rounding *)
  | 640 => Some (mkVR 2 B64 B64 B32 (Some B64) SNone DNone (fun a b _ _ => f64_add a b) nof all3)   (* V_ADD_F64 *)
  | 641 => Some (mkVR 2 B64 B64 B32 (Some B64) SNone DNone (fun a b _ _ => f64_mul a b) nof all3)   (* V_MUL_F64 *)
  | _ => fcmp_row DDst op
  end.

Definition vrow_f (a : arch) (f : format) (op : Z) : option vrow :=
  match f with
  | F_VOP2 => fvop2_row a op | F_VOP1 => fvop1_row op | F_VOPC => fcmp_row DVcc op
  | F_VOP3A => fvop3a_row op
  | _ => None
  end.

Definition exec_spec_vf (a : arch) (st : state) (i : inst) : option state :=
  match vrow_f a (i_fmt i) (i_op i) with
  | Some r => run_r r st i
  | None => exec_spec_v a st i
  end.
