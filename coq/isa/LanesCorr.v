(** Transcription of representative vector handlers of amd/emu (GCN3) and
    amd/emu/cdna3 as per-lane functions for the combinator of Lanes.v, and the
    checker that replays cases recorded by harness/cmd/c06 through [seq_loop].
    Go quirks are kept: 64-bit values of scalar/constant operands where the
    handler does not truncate, what WriteOperand truncates, wrap-around.
    Definitions only. *)
From Coq Require Import List NArith Bool Arith.
From Coq Require Import ZArith.
From VIsa Require Import Lanes.
From VIsa Require IsaState ExecImpl ExecImplV.
Import ListNotations.
Open Scope N_scope.

Definition B64 : N := 18446744073709551616.

(** ** Operand access as emu.Wavefront implements it *)

Inductive opnd := ONone | OV (r cnt : nat) | OS (r cnt : nat) | OC (v : N) | OVcc.

(** ReadOperand: 4 bytes when RegCount < 2, otherwise 8 *)
Definition rd (u : nat -> N) (rw : row) (o : opnd) : N :=
  match o with
  | OV r c => if Nat.ltb c 2 then rw r else rw r + B32 * rw (S r)
  | OS r c => if Nat.ltb c 2 then u r else u r + B32 * u (S r)
  | OC v => v
  | _ => 0
  end.

(** WriteOperand to a VGPR: the low 4 (RegCount < 2) or 8 bytes of the value *)
Definition wr (o : opnd) (v : N) : list (nat * N) :=
  match o with
  | OV r c => if Nat.ltb c 2 then [(r, v mod B32)] else [(r, v mod B32); (S r, (v / B32) mod B32)]
  | _ => []
  end.

Definition ocnt (o : opnd) : nat := match o with OV _ c => c | OS _ c => c | _ => 0 end.
Definition oreg (o : opnd) : nat := match o with OV r _ => r | OS r _ => r | _ => 0 end.

Definition byte_of (w : N) (k : nat) : N := (w / 2 ^ (8 * N.of_nat k)) mod 256.

(** ReadOperandBytes(op, lane, n): min(n, 4*max(RegCount,1)) bytes of the registers *)
Definition reg_bytes (rw : row) (o : opnd) (n : nat) : list N :=
  let nb := Nat.min n (4 * Nat.max (ocnt o) 1) in
  map (fun k => byte_of (rw (oreg o + Nat.div k 4)%nat) (Nat.modulo k 4)) (seq 0 nb).

Definition word_of (bs : list N) (k : nat) : N :=
  nth (4 * k) bs 0 + 256 * nth (4 * k + 1) bs 0 + 65536 * nth (4 * k + 2) bs 0 + 16777216 * nth (4 * k + 3) bs 0.

(** WriteOperandBytes(op, lane, data) with len(data) a multiple of 4 *)
Definition wr_bytes (o : opnd) (bs : list N) : list (nat * N) :=
  match o with
  | OV r c => let nr := Nat.min (Nat.div (length bs) 4) (Nat.max c 1) in
              map (fun k => ((r + k)%nat, word_of bs k)) (seq 0 nr)
  | _ => []
  end.

Definition addr_seq (a : N) (n : nat) : list N := map (fun k => a + N.of_nat k) (seq 0 n).
Definition ld (m : mem) (a : N) (n : nat) : list N := map m (addr_seq a n).
Definition st_list (a : N) (bs : list N) : list (N * N) := combine (addr_seq a (length bs)) bs.

Record ops := mkOps {
  o_dst : opnd; o_sdst : opnd; o_s0 : opnd; o_s1 : opnd; o_s2 : opnd;
  o_addr : opnd; o_data : opnd; o_data1 : opnd; o_off0 : N; o_off1 : N; o_saddr : option nat
}.

(** flatAddrWithScalar of alu_flat.go / cdna3/flat.go *)
Definition sext32 (x : N) : N := if N.leb 2147483648 x then x + (B64 - B32) else x.
Definition flat_addr (o : ops) (u : nat -> N) (rw : row) : N :=
  let a := rd u rw (o_addr o) in
  let a := match o_saddr o with Some s => (pair_val u s + a mod B32) mod B64 | None => a end in
  if N.eqb (o_off0 o) 0 then a else (a + sext32 (o_off0 o)) mod B64.

Definition ds_addr (o : ops) (u : nat -> N) (rw : row) (off : N) : N :=
  ((rd u rw (o_addr o)) mod B32 + off) mod B32.

(** ** The transcribed handlers *)

(** post-processing of FLAT load data *)
Inductive ldkind := LdRaw | LdU8 | LdS8 | LdU16.

Inductive hid :=
(* own transcriptions of integer ALU handlers (after the C03 fixes on main the
   GCN3 and CDNA3 variants of these agree, except where two ids are given) *)
| H_mov | H_not | H_add_co | H_sub_co_gcn3 | H_addc
| H_cndmask | H_cndmask_e64 | H_lshlrev | H_and
| H_cmp_lt_u32 | H_cmp_eq_u32 | H_cmp_lt_u32_e64 | H_cmp_eq_u32_e64
| H_mad_u64_u32 | H_add3 | H_add_co_e64 | H_addc_e64
| H_lshlrev_b16 | H_add_u16 | H_cmp_gt_i16
(* any row of the C03 builder's table ExecImplV.vdesc_of, used through [desc] *)
| H_v (a : IsaState.arch) (f : IsaState.format) (op : Z)
(* memory and LDS handlers; [n] = bytes moved, [w] = element width of the "2" forms *)
| H_flat_load (n : nat) (k : ldkind)
| H_flat_store (n : nat)
| H_ds_read (n : nat) (useoff : bool)
| H_ds_read2 (w : nat)
| H_ds_write (n : nat)
| H_ds_write2 (w : nat).

Definition b2n (b : bool) : N := if b then 1 else 0.

(** value written to the destination (if any) and mask bit (if any) of an ALU
    handler from the three source values and the lane's input bit *)
Definition alu_core (h : hid) (a b c : N) (mb : bool) : option N * option bool :=
  let a32 := a mod B32 in let b32 := b mod B32 in let c32 := c mod B32 in
  match h with
  | H_mov => (Some a, None)
  | H_not => (Some (B32 - 1 - a32), None)
  | H_add_co | H_add_co_e64 => (Some ((a32 + b32) mod B32), Some (N.leb B32 (a32 + b32)))
  | H_sub_co_gcn3 => (Some ((a32 + B32 - b32) mod B32), Some (N.ltb a32 b32))
  | H_addc | H_addc_e64 =>
      let r := a32 + b32 + b2n mb in (Some (r mod B32), Some (N.leb B32 r))
  | H_cndmask | H_cndmask_e64 => (Some (if mb then b else a), None)
  | H_lshlrev => (Some ((b32 * 2 ^ (a32 mod 32)) mod B32), None)
  | H_and => (Some (N.land a b), None)
  | H_cmp_lt_u32 | H_cmp_lt_u32_e64 => (None, Some (N.ltb a32 b32))
  | H_cmp_eq_u32 | H_cmp_eq_u32_e64 => (None, Some (N.eqb a32 b32))
  | H_mad_u64_u32 => (Some ((a32 * b32 + c) mod B64), None)
  | H_add3 => (Some ((a32 + b32 + c32) mod B32), None)
  | H_lshlrev_b16 => (Some (((b mod 65536) * 2 ^ (a mod 16)) mod 65536), None)
  | H_add_u16 => (Some ((a mod 65536 + b mod 65536) mod 65536), None)
  | H_cmp_gt_i16 =>  (* int16(a) > int16(b): compare after flipping the sign bit *)
      (None, Some (N.ltb ((b mod 65536 + 32768) mod 65536) ((a mod 65536 + 32768) mod 65536)))
  | _ => (None, None)
  end.

(** WriteOperand of a Z value (two's complement wrap, as ExecImplV.wrvn) *)
Definition wrz (o : opnd) (v : Z) : list (nat * N) :=
  match o with
  | OV r c => if Nat.ltb c 2 then [(r, Z.to_N (v mod 4294967296)%Z)]
              else [(r, Z.to_N (v mod 4294967296)%Z); (S r, Z.to_N ((v / 4294967296) mod 4294967296)%Z)]
  | _ => []
  end.

(** a row of ExecImplV as a per-lane function *)
Definition v_core (d : ExecImplV.vdesc) (o : ops) : lane_fn := fun u g l li =>
  let rw := li_row li in
  let r := ExecImplV.vd_f d (Z.of_N (rd u rw (o_s0 o))) (Z.of_N (rd u rw (o_s1 o))) (Z.of_N (rd u rw (o_s2 o))) (li_bit li) in
  mkLO (if Z.ltb (ExecImplV.vd_dc d) 0 then [] else match fst r with Some v => wrz (o_dst o) v | None => [] end)
       (match ExecImplV.vd_mask d with ExecImplV.MNone => None | _ => Some (snd r) end) [] [] [] [].

Definition is_mem (h : hid) : bool :=
  match h with H_flat_load _ _ | H_ds_read _ _ | H_ds_read2 _ => true | _ => false end.

Definition sext8 (b : N) : N := if N.leb 128 b then b + 4294967040 else b.
Definition word_bytes (w : N) : list N := map (byte_of w) (seq 0 4).
Definition ld_post (k : ldkind) (bs : list N) : list N :=
  match k with
  | LdRaw => bs
  | LdU8 => [nth 0 bs 0; 0; 0; 0]
  | LdS8 => word_bytes (sext8 (nth 0 bs 0))
  | LdU16 => [nth 0 bs 0; nth 1 bs 0; 0; 0]
  end.

Definition hfn (h : hid) (o : ops) : lane_fn := fun u g l li =>
  let rw := li_row li in
  match h with
  | H_flat_load n k =>
      let a := flat_addr o u rw in
      mkLO (wr_bytes (o_dst o) (ld_post k (ld g a n))) None [] [] (addr_seq a n) []
  | H_flat_store n =>
      mkLO [] None (st_list (flat_addr o u rw) (reg_bytes rw (o_data o) n)) [] [] []
  | H_ds_read n useoff =>
      let a := ds_addr o u rw (if useoff then o_off0 o else 0) in
      mkLO (wr_bytes (o_dst o) (ld l a n)) None [] [] [] (addr_seq a n)
  | H_ds_read2 w =>
      let a0 := ds_addr o u rw (o_off0 o * N.of_nat w) in
      let a1 := ds_addr o u rw (o_off1 o * N.of_nat w) in
      mkLO (wr_bytes (o_dst o) (ld l a0 w ++ ld l a1 w)) None [] [] [] (addr_seq a0 w ++ addr_seq a1 w)
  | H_ds_write n =>
      mkLO [] None [] (st_list (ds_addr o u rw (o_off0 o)) (reg_bytes rw (o_data o) n)) [] []
  | H_ds_write2 w =>
      mkLO [] None [] (st_list (ds_addr o u rw (o_off0 o * N.of_nat w)) (reg_bytes rw (o_data o) w) ++
                       st_list (ds_addr o u rw (o_off1 o * N.of_nat w)) (reg_bytes rw (o_data1 o) w)) [] []
  | H_v a f op =>
      match ExecImplV.vdesc_of a f op with
      | Some d => v_core d o u g l li
      | None => mkLO [] None [] [] [] []
      end
  | _ =>
      let r := alu_core h (rd u rw (o_s0 o)) (rd u rw (o_s1 o)) (rd u rw (o_s2 o)) (li_bit li) in
      mkLO (match fst r with Some v => wr (o_dst o) v | None => [] end) (snd r) [] [] [] []
  end.

Definition msrc_of (x : opnd) : msrc := match x with OS n _ => MSgpr n | OVcc => MVcc | _ => MNone end.
Definition mdst_of (x : opnd) : mdst := match x with OS n _ => DSgpr n | OVcc => DVcc | _ => DNone end.

Definition hsrc (h : hid) (o : ops) : msrc :=
  match h with
  | H_addc | H_cndmask => MVcc
  | H_cndmask_e64 | H_addc_e64 => msrc_of (o_s2 o)
  | H_v a f op =>
      match ExecImplV.vdesc_of a f op with
      | Some d => match ExecImplV.vd_cin d with
                  | ExecImplV.CNone => MNone | ExecImplV.CVcc => MVcc | ExecImplV.CSrc2 => msrc_of (o_s2 o) end
      | None => MNone
      end
  | _ => MNone
  end.

Definition hdst (h : hid) (o : ops) : mdst :=
  match h with
  | H_add_co | H_sub_co_gcn3 | H_addc | H_cmp_lt_u32 | H_cmp_eq_u32 | H_cmp_gt_i16 => DVcc
  | H_cmp_lt_u32_e64 | H_cmp_eq_u32_e64 => mdst_of (o_dst o)
  | H_add_co_e64 | H_addc_e64 => mdst_of (o_sdst o)
  | H_v a f op =>
      match ExecImplV.vdesc_of a f op with
      | Some d => match ExecImplV.vd_mask d with
                  | ExecImplV.MNone => DNone | ExecImplV.MVcc => DVcc
                  | ExecImplV.MDst => mdst_of (o_dst o) | ExecImplV.MSdst => mdst_of (o_sdst o) end
      | None => DNone
      end
  | _ => DNone
  end.

(** every handler of both ALUs now reads its carry-in from a snapshot and
    starts its mask accumulator at 0 (inactive lanes end up cleared) *)
Definition hdesc (h : hid) (o : ops) : desc := mkD (hfn h o) (hsrc h o) false (hdst h o) false.

Definition modelled (h : hid) : bool :=
  match h with H_v a f op => match ExecImplV.vdesc_of a f op with Some _ => true | None => false end | _ => true end.

(** ** Recorded cases *)

Record icase := mkCase {
  c_h : hid;
  c_dst : opnd; c_sdst : opnd; c_s0 : opnd; c_s1 : opnd; c_s2 : opnd; c_addr : opnd; c_data : opnd; c_data1 : opnd;
  c_off0 : N; c_off1 : N; c_saddr : option nat;
  c_exec : N; c_vcc : N; c_sgpr : list N; c_vgpr : list (list N); c_mem : list (N * N); c_lds : list N;
  e_exec : N; e_vcc : N; e_sgpr : list N; e_vgpr : list (list N); e_mem : list (N * N); e_lds : list N
}.

Fixpoint assoc (l : list (N * N)) (a : N) : N :=
  match l with [] => 0 | (k, v) :: t => if N.eqb k a then v else assoc t a end.

Definition case_ops (c : icase) : ops :=
  mkOps (c_dst c) (c_sdst c) (c_s0 c) (c_s1 c) (c_s2 c) (c_addr c) (c_data c) (c_data1 c) (c_off0 c) (c_off1 c) (c_saddr c).

Definition case_state (c : icase) : vstate :=
  mkV (fun l r => nth r (nth l (c_vgpr c) []) 0) (fun r => nth r (c_sgpr c) 0)
      (c_exec c) (c_vcc c) 0 0 (assoc (c_mem c)) (fun a => nth (N.to_nat a) (c_lds c) 0) [].

Definition NV : nat := 12.
Definition NS : nat := 32.

Definition rows_of (st : vstate) : list (list N) := map (fun l => map (vgpr st l) (seq 0 NV)) (seq 0 NL).
Definition list_eqb (a b : list N) : bool := Nat.eqb (length a) (length b) && forallb (fun p => N.eqb (fst p) (snd p)) (combine a b).

(** 0 = agreement; otherwise the first component that differs *)
Definition check_case (c : icase) : N :=
  if negb (modelled (c_h c)) then 99 else
  let r := seq_loop (hdesc (c_h c) (case_ops c)) (case_state c) in
  if negb (Nat.eqb (length (e_vgpr c)) NL && forallb (fun p => list_eqb (fst p) (snd p)) (combine (rows_of r) (e_vgpr c))) then 1
  else if negb (list_eqb (map (sgpr r) (seq 0 NS)) (e_sgpr c)) then 2
  else if negb (N.eqb (exec r) (e_exec c) && N.eqb (vcc r) (e_vcc c)) then 3
  else if negb (forallb (fun p => N.eqb (gmem r (fst p)) (snd p)) (e_mem c)) then 4
  else if negb (forallb (fun x => a_lds x || negb (a_wr x) || existsb (fun p => N.eqb (fst p) (a_addr x)) (e_mem c)) (trace r)) then 5
  else if negb (list_eqb (map (fun k => lds r (N.of_nat k)) (seq 0 (length (e_lds c)))) (e_lds c)) then 6
  else 0.

Fixpoint mism_from (k : nat) (cs : list icase) : list (nat * N) :=
  match cs with
  | [] => []
  | c :: t => let x := check_case c in (if N.eqb x 0 then [] else [(k, x)]) ++ mism_from (S k) t
  end.
Definition mismatches (cs : list icase) : list (nat * N) := mism_from 0 cs.
