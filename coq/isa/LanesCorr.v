(** Transcription of representative vector handlers of amd/emu (GCN3) and
    amd/emu/cdna3 as per-lane functions for the combinator of Lanes.v, and the
    checker that replays cases recorded by harness/cmd/c06 through [seq_loop].
    Go quirks are kept: 64-bit values of scalar/constant operands where the
    handler does not truncate, what WriteOperand truncates, wrap-around.
    Definitions only. *)
From Coq Require Import List NArith Bool Arith.
From Coq Require Import ZArith.
From VIsa Require Import Lanes.
From VIsa Require IsaState ExecImpl ExecImplV.
Import ListNotations.
Open Scope N_scope.

Definition B64 : N := 18446744073709551616.

(** ** Operand access as emu.Wavefront implements it *)

Inductive opnd := ONone | OV (r cnt : nat) | OS (r cnt : nat) | OC (v : N) | OVcc.

(** ReadOperand: 4 bytes when RegCount < 2, otherwise 8 *)
Definition rd (u : nat -> N) (rw : row) (o : opnd) : N :=
  match o with
  | OV r c => if Nat.ltb c 2 then rw r else rw r + B32 * rw (S r)
  | OS r c => if Nat.ltb c 2 then u r else u r + B32 * u (S r)
  | OC v => v
  | _ => 0
  end.

(** WriteOperand to a VGPR: the low 4 (RegCount < 2) or 8 bytes of the value *)
Definition wr (o : opnd) (v : N) : list (nat * N) :=
  match o with
  | OV r c => if Nat.ltb c 2 then [(r, v mod B32)] else [(r, v mod B32); (S r, (v / B32) mod B32)]
  | _ => []
  end.

Definition ocnt (o : opnd) : nat := match o with OV _ c => c | OS _ c => c | _ => 0 end.
Definition oreg (o : opnd) : nat := match o with OV r _ => r | OS r _ => r | _ => 0 end.

Definition byte_of (w : N) (k : nat) : N := (w / 2 ^ (8 * N.of_nat k)) mod 256.

(** ReadOperandBytes(op, lane, n): min(n, 4*max(RegCount,1)) bytes of the registers *)
Definition reg_bytes (rw : row) (o : opnd) (n : nat) : list N :=
  let nb := Nat.min n (4 * Nat.max (ocnt o) 1) in
  map (fun k => byte_of (rw (oreg o + Nat.div k 4)%nat) (Nat.modulo k 4)) (seq 0 nb).

Definition word_of (bs : list N) (k : nat) : N :=
  nth (4 * k) bs 0 + 256 * nth (4 * k + 1) bs 0 + 65536 * nth (4 * k + 2) bs 0 + 16777216 * nth (4 * k + 3) bs 0.

(** WriteOperandBytes(op, lane, data) with len(data) a multiple of 4 *)
Definition wr_bytes (o : opnd) (bs : list N) : list (nat * N) :=
  match o with
  | OV r c => let nr := Nat.min (Nat.div (length bs) 4) (Nat.max c 1) in
              map (fun k => ((r + k)%nat, word_of bs k)) (seq 0 nr)
  | _ => []
  end.

Definition addr_seq (a : N) (n : nat) : list N := map (fun k => a + N.of_nat k) (seq 0 n).
Definition ld (m : mem) (a : N) (n : nat) : list N := map m (addr_seq a n).
Definition st_list (a : N) (bs : list N) : list (N * N) := combine (addr_seq a (length bs)) bs.

Record ops := mkOps {
  o_dst : opnd; o_sdst : opnd; o_s0 : opnd; o_s1 : opnd; o_s2 : opnd;
  o_addr : opnd; o_data : opnd; o_data1 : opnd; o_off0 : N; o_off1 : N; o_saddr : option nat
}.

(** flatAddrWithScalar of alu_flat.go / cdna3/flat.go *)
Definition sext32 (x : N) : N := if N.leb 2147483648 x then x + (B64 - B32) else x.
Definition flat_addr (o : ops) (u : nat -> N) (rw : row) : N :=
  let a := rd u rw (o_addr o) in
  let a := match o_saddr o with Some s => (pair_val u s + a mod B32) mod B64 | None => a end in
  if N.eqb (o_off0 o) 0 then a else (a + sext32 (o_off0 o)) mod B64.

Definition ds_addr (o : ops) (u : nat -> N) (rw : row) (off : N) : N :=
  ((rd u rw (o_addr o)) mod B32 + off) mod B32.

(** ** The transcribed handlers *)

(** post-processing of FLAT load data *)
Inductive ldkind := LdRaw | LdU8 | LdS8 | LdU16.

(** IEEE-754 binary32 on bit patterns: what Go's float32 [<], [==], [>] compute
    (NaN compares false with everything, -0 = +0) *)
Definition f32_exp (x : N) : N := (x / 8388608) mod 256.
Definition f32_frac (x : N) : N := x mod 8388608.
Definition f32_sign (x : N) : bool := N.leb 2147483648 x.
Definition f32_nan (x : N) : bool := N.eqb (f32_exp x) 255 && negb (N.eqb (f32_frac x) 0).
Definition f32_key (x : N) : Z := if f32_sign x then (- Z.of_N (x - 2147483648))%Z else Z.of_N x.
Definition f32_ord (a b : N) : bool := negb (f32_nan a) && negb (f32_nan b).
Definition f32_lt (a b : N) : bool := f32_ord a b && Z.ltb (f32_key a) (f32_key b).
Definition f32_eq (a b : N) : bool := f32_ord a b && Z.eqb (f32_key a) (f32_key b).
Definition f32_le (a b : N) : bool := f32_ord a b && Z.leb (f32_key a) (f32_key b).

(** the conditions exactly as the Go handlers spell them *)
Inductive fcmp := FLt | FEq | FLe | FGt | FLg | FGe | FNge | FNlg | FNgt | FNle | FNeq | FNlt.
Definition fcmp_eval (c : fcmp) (a b : N) : bool :=
  match c with
  | FLt => f32_lt a b | FEq => f32_eq a b | FLe => f32_le a b
  | FGt => f32_lt b a | FLg => f32_lt a b || f32_lt b a | FGe => f32_le b a
  | FNge => negb (f32_le b a) | FNlg => negb (f32_lt a b || f32_lt b a)
  | FNgt => negb (f32_lt b a) | FNle => negb (f32_le a b)
  | FNeq => negb (f32_eq a b) | FNlt => negb (f32_lt a b)
  end.

(** applyF32Modifier on uint32(val): abs goes through float64 (math.Abs), which
    clears the sign and quiets a signalling NaN; neg flips the sign bit *)
Definition f32_mod (ab ng idx x : N) : N :=
  let x := x mod B32 in
  let x := if N.testbit ab idx
           then (let y := x mod 2147483648 in if f32_nan y then N.lor y 4194304 else y) else x in
  if N.testbit ng idx then (if f32_sign x then x - 2147483648 else x + 2147483648) else x.

(** class number 0..9 of v_cmp_class_f32 *)
Definition f32_class (q : bool) (x : N) : N :=
  let s := f32_sign x in let e := f32_exp x in let f := f32_frac x in
  if f32_nan x then (if q || N.testbit f 22 then 1 else 0)
  else if N.eqb e 255 then (if s then 2 else 9)
  else if N.eqb e 0 then (if N.eqb f 0 then (if s then 5 else 6) else (if s then 4 else 7))
  else (if s then 3 else 8).

(** unsigned integer -> IEEE float with [mb] fraction bits and exponent bias
    [bias], rounded to nearest even (what CVTSI2SS / CVTSI2SD do; exact when the
    magnitude has at most mb+1 significant bits); a carry out of the fraction
    increments the exponent by plain addition *)
Definition int2f (mb bias m : N) : N :=
  if N.eqb m 0 then 0 else
  let e := N.log2 m in
  if N.leb e mb then (e + bias) * 2 ^ mb + (m * 2 ^ (mb - e) - 2 ^ mb)
  else let sh := e - mb in
       let q := m / 2 ^ sh in let r := m mod 2 ^ sh in let half := 2 ^ (sh - 1) in
       let q' := if N.ltb half r || (N.eqb r half && N.odd q) then q + 1 else q in
       (e + bias) * 2 ^ mb + (q' - 2 ^ mb).
(** the same for int32(x): sign bit [sb] and the magnitude *)
Definition sint2f (mb bias sb x32 : N) : N :=
  if N.leb 2147483648 x32 then sb + int2f mb bias (B32 - x32) else int2f mb bias x32.

(** math.Min / math.Max through float64 and back: the infinity that decides is
    tested before the NaN test, every NaN result is the default quiet NaN, of two
    zeros the negative (Min) / positive (Max) one wins *)
Definition f32_zero (x : N) : bool := N.eqb (x mod 2147483648) 0.
Definition go_fmin32 (a b : N) : N :=
  if N.eqb a 4286578688 || N.eqb b 4286578688 then 4286578688
  else if f32_nan a || f32_nan b then 2143289344
  else if f32_zero a && f32_zero b then N.lor a b
  else if f32_lt a b then a else b.
Definition go_fmax32 (a b : N) : N :=
  if N.eqb a 2139095040 || N.eqb b 2139095040 then 2139095040
  else if f32_nan a || f32_nan b then 2143289344
  else if f32_zero a && f32_zero b then N.land a b
  else if f32_lt b a then a else b.
(** float32(math.Trunc(float64(x))): a NaN comes back quieted, |x| < 1 gives the
    signed zero, otherwise the fraction bits below the binary point are cleared *)
Definition go_ftrunc32 (x : N) : N :=
  let e := f32_exp x in
  if f32_nan x then N.lor x 4194304
  else if N.eqb e 255 then x
  else if N.ltb e 127 then (if f32_sign x then 2147483648 else 0)
  else if N.leb 150 e then x
  else let k := 150 - e in (x / 2 ^ k) * 2 ^ k.

(** float32 -> float64 -> float32 round trip of a value that is only moved: a
    signalling NaN comes back quiet *)
Definition f32_quiet (x : N) : N := if f32_nan x then N.lor x 4194304 else x.
(** the order of slices.Sort on floats: x < y, or x is a NaN and y is not *)
Definition sort_less (x y : N) : bool := f32_lt x y || (f32_nan x && negb (f32_nan y)).
(** insertion sort of three elements as slices.Sort runs it (n <= 12), element 1 *)
Definition go_fmed3 (a b c : N) : N :=
  let a := f32_quiet a in let b := f32_quiet b in let c := f32_quiet c in
  let p := if sort_less b a then b else a in
  let q := if sort_less b a then a else b in
  if sort_less c q then (if sort_less c p then p else c) else q.
(** float64(float32): exact; denormals are normalised, a NaN keeps its payload
    in the top fraction bits and becomes quiet *)
Definition go_f64_of_f32 (x : N) : N :=
  let s := if f32_sign x then 9223372036854775808 else 0 in
  let e := f32_exp x in let f := f32_frac x in
  if N.eqb e 255 then s + 2047 * 4503599627370496 + f * 536870912 + (if N.eqb f 0 then 0 else N.land (N.lnot (f * 536870912) 52) 2251799813685248)
  else if N.eqb e 0 then
    (if N.eqb f 0 then s else let l := N.log2 f in s + (l + 874) * 4503599627370496 + (f * 2 ^ (52 - l) - 4503599627370496))
  else s + (e + 896) * 4503599627370496 + f * 536870912.

Inductive hid :=
(* own transcriptions of integer ALU handlers (after the C03 fixes on main the
   GCN3 and CDNA3 variants of these agree, except where two ids are given) *)
| H_mov | H_not | H_add_co | H_sub_co_gcn3 | H_addc
| H_cndmask | H_cndmask_e64 | H_lshlrev | H_and
| H_cmp_lt_u32 | H_cmp_eq_u32 | H_cmp_lt_u32_e64 | H_cmp_eq_u32_e64
| H_mad_u64_u32 | H_add3 | H_add_co_e64 | H_addc_e64
| H_lshlrev_b16 | H_add_u16 | H_cmp_gt_i16
(* float handlers expressed on bit patterns (second round): the 12 f32 compares of
   VOPC and their VOP3a forms ([ab]/[ng] = the abs / neg fields of the VOP3a
   word, 0 for VOPC; [e64] = the mask goes to the SGPR pair / VCC named by Dst),
   v_cmp_class_f32 ([q] = every NaN counts as quiet: the CDNA3 VOPC form) and
   the GCN3 v_min_f32 / v_max_f32 (compare and select, no arithmetic) *)
| H_fcmp (c : fcmp) (ab ng : N) (e64 : bool)
| H_fclass (q : bool) (ab ng : N) (e64 : bool)
| H_fmin_gcn3 | H_fmax_gcn3
(* v_min3_f32 / v_max3_f32 of both ALUs (compare and select with abs / neg) and
   the integer -> float conversions (one IEEE rounding to nearest even):
   v_cvt_f32_i32, v_cvt_f32_u32, v_cvt_f32_ubyte0, v_cvt_f64_i32, v_cvt_f64_u32 *)
| H_fmin3 (ab ng : N) | H_fmax3 (ab ng : N)
| H_cvt_f32_i32 | H_cvt_f32_u32 | H_cvt_f32_ubyte0 | H_cvt_f64_i32 | H_cvt_f64_u32
(* CDNA3 v_min_f32 / v_max_f32 (math.Min / math.Max on the float64 images) and
   v_trunc_f32 of both ALUs (math.Trunc on the float64 image) *)
| H_fmin_cdna3 | H_fmax_cdna3 | H_ftrunc
(* v_med3_f32 of both ALUs (sort.Float64s of the three float64 images, element 1)
   and v_cvt_f64_f32 of both ALUs (exact widening, 64-bit destination) *)
| H_fmed3 (ab ng : N) | H_cvt_f64_f32
(* any row of the C03 builder's table ExecImplV.vdesc_of, used through [desc] *)
| H_v (a : IsaState.arch) (f : IsaState.format) (op : Z)
(* memory and LDS handlers; [n] = bytes moved, [w] = element width of the "2" forms *)
| H_flat_load (n : nat) (k : ldkind)
| H_flat_store (n : nat)
| H_ds_read (n : nat) (useoff : bool)
| H_ds_read2 (w : nat)
| H_ds_write (n : nat)
| H_ds_write2 (w : nat).

Definition b2n (b : bool) : N := if b then 1 else 0.

(** value written to the destination (if any) and mask bit (if any) of an ALU
    handler from the three source values and the lane's input bit *)
Definition alu_core (h : hid) (a b c : N) (mb : bool) : option N * option bool :=
  let a32 := a mod B32 in let b32 := b mod B32 in let c32 := c mod B32 in
  match h with
  | H_mov => (Some a, None)
  | H_not => (Some (B32 - 1 - a32), None)
  | H_add_co | H_add_co_e64 => (Some ((a32 + b32) mod B32), Some (N.leb B32 (a32 + b32)))
  | H_sub_co_gcn3 => (Some ((a32 + B32 - b32) mod B32), Some (N.ltb a32 b32))
  | H_addc | H_addc_e64 =>
      let r := a32 + b32 + b2n mb in (Some (r mod B32), Some (N.leb B32 r))
  | H_cndmask | H_cndmask_e64 => (Some (if mb then b else a), None)
  | H_lshlrev => (Some ((b32 * 2 ^ (a32 mod 32)) mod B32), None)
  | H_and => (Some (N.land a b), None)
  | H_cmp_lt_u32 | H_cmp_lt_u32_e64 => (None, Some (N.ltb a32 b32))
  | H_cmp_eq_u32 | H_cmp_eq_u32_e64 => (None, Some (N.eqb a32 b32))
  | H_mad_u64_u32 => (Some ((a32 * b32 + c) mod B64), None)
  | H_add3 => (Some ((a32 + b32 + c32) mod B32), None)
  | H_lshlrev_b16 => (Some (((b mod 65536) * 2 ^ (a mod 16)) mod 65536), None)
  | H_add_u16 => (Some ((a mod 65536 + b mod 65536) mod 65536), None)
  | H_cmp_gt_i16 =>  (* int16(a) > int16(b): compare after flipping the sign bit *)
      (None, Some (N.ltb ((b mod 65536 + 32768) mod 65536) ((a mod 65536 + 32768) mod 65536)))
  | H_fcmp c ab ng _ => (None, Some (fcmp_eval c (f32_mod ab ng 0 a) (f32_mod ab ng 1 b)))
  | H_fclass q ab ng _ => (None, Some (N.testbit b32 (f32_class q (f32_mod ab ng 0 a))))
  | H_fmin3 ab ng =>
      let x := f32_mod ab ng 0 a in let y := f32_mod ab ng 1 b in let z := f32_mod ab ng 2 c in
      let d := if f32_lt y x then y else x in (Some (if f32_lt z d then z else d), None)
  | H_fmax3 ab ng =>
      let x := f32_mod ab ng 0 a in let y := f32_mod ab ng 1 b in let z := f32_mod ab ng 2 c in
      let d := if f32_lt x y then y else x in (Some (if f32_lt d z then z else d), None)
  | H_cvt_f32_i32 => (Some (sint2f 23 127 2147483648 a32), None)
  | H_cvt_f32_u32 => (Some (int2f 23 127 a32), None)
  | H_cvt_f32_ubyte0 => (Some (int2f 23 127 (a mod 256)), None)
  | H_cvt_f64_i32 => (Some (sint2f 52 1023 9223372036854775808 a32), None)
  | H_cvt_f64_u32 => (Some (int2f 52 1023 a32), None)
  | H_fmin_cdna3 => (Some (go_fmin32 a32 b32), None)
  | H_fmax_cdna3 => (Some (go_fmax32 a32 b32), None)
  | H_ftrunc => (Some (go_ftrunc32 a32), None)
  | H_fmed3 ab ng => (Some (go_fmed3 (f32_mod ab ng 0 a) (f32_mod ab ng 1 b) (f32_mod ab ng 2 c)), None)
  | H_cvt_f64_f32 => (Some (go_f64_of_f32 a32), None)
  | H_fmin_gcn3 => (Some (if f32_lt b32 a32 then b32 else a32), None)
  | H_fmax_gcn3 => (Some (if f32_lt a32 b32 then b32 else a32), None)
  | _ => (None, None)
  end.

(** WriteOperand of a Z value (two's complement wrap, as ExecImplV.wrvn) *)
Definition wrz (o : opnd) (v : Z) : list (nat * N) :=
  match o with
  | OV r c => if Nat.ltb c 2 then [(r, Z.to_N (v mod 4294967296)%Z)]
              else [(r, Z.to_N (v mod 4294967296)%Z); (S r, Z.to_N ((v / 4294967296) mod 4294967296)%Z)]
  | _ => []
  end.

(** a row of ExecImplV as a per-lane function *)
Definition v_core (d : ExecImplV.vdesc) (o : ops) : lane_fn := fun u g l li =>
  let rw := li_row li in
  let r := ExecImplV.vd_f d (Z.of_N (rd u rw (o_s0 o))) (Z.of_N (rd u rw (o_s1 o))) (Z.of_N (rd u rw (o_s2 o))) (li_bit li) in
  mkLO (if Z.ltb (ExecImplV.vd_dc d) 0 then [] else match fst r with Some v => wrz (o_dst o) v | None => [] end)
       (match ExecImplV.vd_mask d with ExecImplV.MNone => None | _ => Some (snd r) end) [] [] [] [].

Definition is_mem (h : hid) : bool :=
  match h with H_flat_load _ _ | H_ds_read _ _ | H_ds_read2 _ => true | _ => false end.

Definition sext8 (b : N) : N := if N.leb 128 b then b + 4294967040 else b.
Definition word_bytes (w : N) : list N := map (byte_of w) (seq 0 4).
Definition ld_post (k : ldkind) (bs : list N) : list N :=
  match k with
  | LdRaw => bs
  | LdU8 => [nth 0 bs 0; 0; 0; 0]
  | LdS8 => word_bytes (sext8 (nth 0 bs 0))
  | LdU16 => [nth 0 bs 0; nth 1 bs 0; 0; 0]
  end.

Definition hfn (h : hid) (o : ops) : lane_fn := fun u g l li =>
  let rw := li_row li in
  match h with
  | H_flat_load n k =>
      let a := flat_addr o u rw in
      mkLO (wr_bytes (o_dst o) (ld_post k (ld g a n))) None [] [] (addr_seq a n) []
  | H_flat_store n =>
      mkLO [] None (st_list (flat_addr o u rw) (reg_bytes rw (o_data o) n)) [] [] []
  | H_ds_read n useoff =>
      let a := ds_addr o u rw (if useoff then o_off0 o else 0) in
      mkLO (wr_bytes (o_dst o) (ld l a n)) None [] [] [] (addr_seq a n)
  | H_ds_read2 w =>
      let a0 := ds_addr o u rw (o_off0 o * N.of_nat w) in
      let a1 := ds_addr o u rw (o_off1 o * N.of_nat w) in
      mkLO (wr_bytes (o_dst o) (ld l a0 w ++ ld l a1 w)) None [] [] [] (addr_seq a0 w ++ addr_seq a1 w)
  | H_ds_write n =>
      mkLO [] None [] (st_list (ds_addr o u rw (o_off0 o)) (reg_bytes rw (o_data o) n)) [] []
  | H_ds_write2 w =>
      mkLO [] None [] (st_list (ds_addr o u rw (o_off0 o * N.of_nat w)) (reg_bytes rw (o_data o) w) ++
                       st_list (ds_addr o u rw (o_off1 o * N.of_nat w)) (reg_bytes rw (o_data1 o) w)) [] []
  | H_v a f op =>
      match ExecImplV.vdesc_of a f op with
      | Some d => v_core d o u g l li
      | None => mkLO [] None [] [] [] []
      end
  | _ =>
      let r := alu_core h (rd u rw (o_s0 o)) (rd u rw (o_s1 o)) (rd u rw (o_s2 o)) (li_bit li) in
      mkLO (match fst r with Some v => wr (o_dst o) v | None => [] end) (snd r) [] [] [] []
  end.

Definition msrc_of (x : opnd) : msrc := match x with OS n _ => MSgpr n | OVcc => MVcc | _ => MNone end.
Definition mdst_of (x : opnd) : mdst := match x with OS n _ => DSgpr n | OVcc => DVcc | _ => DNone end.

Definition hsrc (h : hid) (o : ops) : msrc :=
  match h with
  | H_addc | H_cndmask => MVcc
  | H_cndmask_e64 | H_addc_e64 => msrc_of (o_s2 o)
  | H_v a f op =>
      match ExecImplV.vdesc_of a f op with
      | Some d => match ExecImplV.vd_cin d with
                  | ExecImplV.CNone => MNone | ExecImplV.CVcc => MVcc | ExecImplV.CSrc2 => msrc_of (o_s2 o) end
      | None => MNone
      end
  | _ => MNone
  end.

Definition hdst (h : hid) (o : ops) : mdst :=
  match h with
  | H_add_co | H_sub_co_gcn3 | H_addc | H_cmp_lt_u32 | H_cmp_eq_u32 | H_cmp_gt_i16 => DVcc
  | H_cmp_lt_u32_e64 | H_cmp_eq_u32_e64 => mdst_of (o_dst o)
  | H_fcmp _ _ _ e64 | H_fclass _ _ _ e64 => if e64 then mdst_of (o_dst o) else DVcc
  | H_add_co_e64 | H_addc_e64 => mdst_of (o_sdst o)
  | H_v a f op =>
      match ExecImplV.vdesc_of a f op with
      | Some d => match ExecImplV.vd_mask d with
                  | ExecImplV.MNone => DNone | ExecImplV.MVcc => DVcc
                  | ExecImplV.MDst => mdst_of (o_dst o) | ExecImplV.MSdst => mdst_of (o_sdst o) end
      | None => DNone
      end
  | _ => DNone
  end.

(** every handler of both ALUs now reads its carry-in from a snapshot and
    starts its mask accumulator at 0 (inactive lanes end up cleared) *)
Definition hdesc (h : hid) (o : ops) : desc := mkD (hfn h o) (hsrc h o) false (hdst h o) false.

Definition modelled (h : hid) : bool :=
  match h with H_v a f op => match ExecImplV.vdesc_of a f op with Some _ => true | None => false end | _ => true end.

(** ** Recorded cases *)

Record icase := mkCase {
  c_h : hid;
  c_dst : opnd; c_sdst : opnd; c_s0 : opnd; c_s1 : opnd; c_s2 : opnd; c_addr : opnd; c_data : opnd; c_data1 : opnd;
  c_off0 : N; c_off1 : N; c_saddr : option nat;
  c_exec : N; c_vcc : N; c_sgpr : list N; c_vgpr : list (list N); c_mem : list (N * N); c_lds : list N;
  e_exec : N; e_vcc : N; e_sgpr : list N; e_vgpr : list (list N); e_mem : list (N * N); e_lds : list N
}.

Fixpoint assoc (l : list (N * N)) (a : N) : N :=
  match l with [] => 0 | (k, v) :: t => if N.eqb k a then v else assoc t a end.

Definition case_ops (c : icase) : ops :=
  mkOps (c_dst c) (c_sdst c) (c_s0 c) (c_s1 c) (c_s2 c) (c_addr c) (c_data c) (c_data1 c) (c_off0 c) (c_off1 c) (c_saddr c).

Definition case_state (c : icase) : vstate :=
  mkV (fun l r => nth r (nth l (c_vgpr c) []) 0) (fun r => nth r (c_sgpr c) 0)
      (c_exec c) (c_vcc c) 0 0 (assoc (c_mem c)) (fun a => nth (N.to_nat a) (c_lds c) 0) [].

Definition NV : nat := 12.
Definition NS : nat := 32.

Definition rows_of (st : vstate) : list (list N) := map (fun l => map (vgpr st l) (seq 0 NV)) (seq 0 NL).
Definition list_eqb (a b : list N) : bool := Nat.eqb (length a) (length b) && forallb (fun p => N.eqb (fst p) (snd p)) (combine a b).

(** 0 = agreement; otherwise the first component that differs *)
Definition check_case (c : icase) : N :=
  if negb (modelled (c_h c)) then 99 else
  let r := seq_loop (hdesc (c_h c) (case_ops c)) (case_state c) in
  if negb (Nat.eqb (length (e_vgpr c)) NL && forallb (fun p => list_eqb (fst p) (snd p)) (combine (rows_of r) (e_vgpr c))) then 1
  else if negb (list_eqb (map (sgpr r) (seq 0 NS)) (e_sgpr c)) then 2
  else if negb (N.eqb (exec r) (e_exec c) && N.eqb (vcc r) (e_vcc c)) then 3
  else if negb (forallb (fun p => N.eqb (gmem r (fst p)) (snd p)) (e_mem c)) then 4
  else if negb (forallb (fun x => a_lds x || negb (a_wr x) || existsb (fun p => N.eqb (fst p) (a_addr x)) (e_mem c)) (trace r)) then 5
  else if negb (list_eqb (map (fun k => lds r (N.of_nat k)) (seq 0 (length (e_lds c)))) (e_lds c)) then 6
  else 0.

Fixpoint mism_from (k : nat) (cs : list icase) : list (nat * N) :=
  match cs with
  | [] => []
  | c :: t => let x := check_case c in (if N.eqb x 0 then [] else [(k, x)]) ++ mism_from (S k) t
  end.
Definition mismatches (cs : list icase) : list (nat * N) := mism_from 0 cs.
