(** C03 — proofs for the vector part: the sequential lane loop of the Go
    handlers computes the lane-wise map the manuals describe (inactive lanes
    untouched, mask bit l from lane l), and the per-row value lemmas. *)
From Coq Require Import ZArith List Bool Lia ZifyBool FinFun.
From RecordUpdate Require Import RecordSet.
Import RecordSetNotations.
Import ListNotations.
From VIsa Require Import IsaState ExecImpl ExecSpec ExecImplV ExecSpecV ExecProofs ExecRows.
Open Scope Z_scope.
Ltac Zify.zify_post_hook ::= Z.div_mod_to_equations.

(** ** the lane list *)
Definition lanes_upto (n : nat) : list Z := map Z.of_nat (seq 0 n).
Lemma lanes_eq : lanes = lanes_upto 64. Proof. reflexivity. Qed.

Lemma in_lanes_upto : forall n l, In l (lanes_upto n) <-> 0 <= l < Z.of_nat n.
Proof.
  intros n l. unfold lanes_upto. rewrite in_map_iff. split.
  - intros (k & <- & Hk). apply in_seq in Hk. lia.
  - intros H. exists (Z.to_nat l). split; [lia|]. apply in_seq. lia.
Qed.
Lemma nodup_lanes_upto : forall n, NoDup (lanes_upto n).
Proof.
  intros n. unfold lanes_upto. apply Injective_map_NoDup.
  - intros x y H. lia.
  - apply seq_NoDup.
Qed.
Lemma in_lanes : forall l, In l lanes <-> 0 <= l < 64.
Proof. intros l. rewrite lanes_eq, in_lanes_upto. lia. Qed.

Definition memz (l : Z) (ls : list Z) : bool := existsb (Z.eqb l) ls.
Lemma memz_in : forall l ls, memz l ls = true <-> In l ls.
Proof.
  intros l ls. unfold memz. rewrite existsb_exists. split.
  - intros (x & Hx & E). apply Z.eqb_eq in E. subst; auto.
  - intros H. exists l. split; auto. apply Z.eqb_refl.
Qed.
Lemma memz_lanes : forall l, memz l lanes = lane_ok l.
Proof.
  intros l. unfold lane_ok. destruct (memz l lanes) eqn:E.
  - apply memz_in, in_lanes in E. lia.
  - destruct ((0 <=? l) && (l <? 64)) eqn:E2; auto.
    assert (In l lanes) by (apply in_lanes; lia). apply memz_in in H. congruence.
Qed.

(** ** the accumulated mask: lor of distinct powers of two = their sum *)
Lemma lor_pow2 : forall m k, 0 <= k -> 0 <= m < 2 ^ k -> Z.lor m (2 ^ k) = m + 2 ^ k.
Proof.
  intros m k Hk Hm.
  assert (Hl : Z.land m (2 ^ k) = 0).
  { apply Z.bits_inj'. intros n Hn. rewrite Z.land_spec, Z.bits_0, Z.pow2_bits_eqb by lia.
    destruct (Z.eqb_spec k n) as [->|]; [|apply andb_false_r].
    rewrite andb_true_r. destruct (Z.eq_dec m 0) as [->|Hz]; [apply Z.bits_0|].
    apply Z.bits_above_log2; [lia|]. apply Z.log2_lt_pow2; lia. }
  rewrite Z.add_nocarry_lxor by exact Hl. symmetry. apply Z.lxor_lor. exact Hl.
Qed.

Definition fm_impl (p : Z -> bool) (m l : Z) : Z := if p l then Z.lor m (Z.shiftl 1 l) else m.
Definition fm_spec (p : Z -> bool) (m l : Z) : Z := if p l then m + 2 ^ l else m.

Lemma mask_impl_spec : forall p n,
  fold_left (fm_impl p) (lanes_upto n) 0 = fold_left (fm_spec p) (lanes_upto n) 0 /\
  0 <= fold_left (fm_spec p) (lanes_upto n) 0 < 2 ^ Z.of_nat n.
Proof.
  intros p n. induction n as [|n [IH1 IH2]].
  - cbn. lia.
  - unfold lanes_upto in *. rewrite seq_S, map_app, !fold_left_app. cbn [map fold_left Nat.add].
    rewrite IH1. set (m := fold_left (fm_spec p) (map Z.of_nat (seq 0 n)) 0) in *.
    unfold fm_impl, fm_spec. rewrite Z.shiftl_mul_pow2, Z.mul_1_l by lia.
    replace (2 ^ Z.of_nat (S n)) with (2 * 2 ^ Z.of_nat n)
      by (rewrite Nat2Z.inj_succ, Z.pow_succ_r by lia; reflexivity).
    destruct (p (Z.of_nat n)); [rewrite lor_pow2 by lia|]; split; lia.
Qed.

Lemma mask_of_fold : forall p, mask_of p = fold_left (fm_spec p) lanes 0.
Proof. reflexivity. Qed.

(** ** the sequential loop is a lane-wise map *)
Definition scal_agree (st s : state) : Prop :=
  (forall i, sgpr s i = sgpr st i) /\ exec s = exec st /\ vcc s = vcc st /\ scc s = scc st /\
  m0 s = m0 st /\ pc s = pc st /\ (forall x, mem s x = mem st x) /\ (forall x, lds s x = lds st x).
Definition lane_agree (st s : state) (l : Z) : Prop :=
  scal_agree st s /\ forall r, vgpr s l r = vgpr st l r.

Definition newv (d dcnt : Z) (ov : option Z) (old : Z -> Z) (r : Z) : Z :=
  match ov with
  | Some v => if r =? d - 256 then u32 v
              else if (2 <=? dcnt) && (r =? d - 255) then u32 (v / W32) else old r
  | None => old r
  end.

Definition vbody (e d dcnt : Z) (g : lane_fn) (acc : option (state * Z)) (l : Z) : option (state * Z) :=
  match acc with
  | None => None
  | Some (s, m) =>
      if bit e l then
        match g l s with
        | None => None
        | Some (ov, b) =>
            match (match ov with Some v => wrvn s d dcnt v l | None => Some s end) with
            | None => None
            | Some s' => Some (s', if b then Z.lor m (Z.shiftl 1 l) else m)
            end
        end
      else Some (s, m)
  end.

Lemma vloop_fold : forall e d dcnt g st, vloop e d dcnt g st = fold_left (vbody e d dcnt g) lanes (Some (st, 0)).
Proof. reflexivity. Qed.

Lemma scal_agree_refl : forall st, scal_agree st st.
Proof. intros; repeat split; auto. Qed.

Lemma wrvn_char : forall s d dcnt v l, is_vgpr d = true ->
  exists s', wrvn s d dcnt v l = Some s' /\ scal_agree s s' /\
    (forall l' r, vgpr s' l' r = if l' =? l then newv d dcnt (Some v) (vgpr s l') r else vgpr s l' r).
Proof.
  intros s d dcnt v l Hd. unfold wrvn. unfold is_vgpr in Hd. rewrite Hd.
  destruct (dcnt <=? 1) eqn:Ec; eexists; (split; [reflexivity|]); (split; [repeat split; reflexivity|]);
    intros l' r; cbn; unfold upd2, newv.
  - replace (2 <=? dcnt) with false by lia. cbn [andb].
    destruct (l' =? l); cbn [andb]; [destruct (r =? d - 256); reflexivity|reflexivity].
  - replace (2 <=? dcnt) with true by lia. cbn [andb].
    destruct (l' =? l); cbn [andb]; [|reflexivity].
    destruct (r =? d - 255) eqn:E1, (r =? d - 256) eqn:E2; try reflexivity. lia.
Qed.

Section Loop.
  Context (e d dcnt : Z) (g : lane_fn) (st : state) (valof : Z -> option Z) (flagof : Z -> bool).
  Context (Hd : forall l v, valof l = Some v -> is_vgpr d = true).
  Context (Hg : forall l s, lane_agree st s l -> g l s = Some (valof l, flagof l)).

  Lemma vloop_gen : forall ls s m, NoDup ls -> scal_agree st s ->
    (forall l, In l ls -> forall r, vgpr s l r = vgpr st l r) ->
    exists s', fold_left (vbody e d dcnt g) ls (Some (s, m)) =
                 Some (s', fold_left (fm_impl (fun l => bit e l && flagof l)) ls m) /\
      scal_agree st s' /\
      forall l r, vgpr s' l r =
        if memz l ls && bit e l then newv d dcnt (valof l) (vgpr s l) r else vgpr s l r.
  Proof.
    induction ls as [|a t IH]; intros s m Hnd Hs Hv.
    - exists s. cbn. repeat split; auto; apply Hs.
    - inversion Hnd as [|? ? Hna Hnt]; subst.
      cbn [fold_left]. unfold vbody at 2. unfold fm_impl at 2.
      destruct (bit e a) eqn:Ea.
      + rewrite (Hg a s) by (split; [exact Hs|intros r; apply Hv; left; reflexivity]).
        cbn [andb].
        assert (Hw : exists s1, (match valof a with Some v => wrvn s d dcnt v a | None => Some s end) = Some s1 /\
                  scal_agree s s1 /\
                  forall l' r, vgpr s1 l' r = if l' =? a then newv d dcnt (valof a) (vgpr s l') r else vgpr s l' r).
        { destruct (valof a) as [v|] eqn:Ev.
          - apply wrvn_char. exact (Hd a v Ev).
          - exists s. split; [reflexivity|]. split; [apply scal_agree_refl|].
            intros l' r. unfold newv. destruct (l' =? a); reflexivity. }
        destruct Hw as (s1 & Hw1 & Hw2 & Hw3). rewrite Hw1.
        assert (Hs1 : scal_agree st s1).
        { destruct Hs as (A1&A2&A3&A4&A5&A6&A7&A8). destruct Hw2 as (B1&B2&B3&B4&B5&B6&B7&B8).
          repeat split; intros; congruence. }
        destruct (IH s1 (if flagof a then Z.lor m (Z.shiftl 1 a) else m) Hnt Hs1) as (s' & F & S' & V').
        { intros l Hl r. rewrite Hw3. destruct (l =? a) eqn:E; [apply Z.eqb_eq in E; subst; contradiction|].
          apply Hv. right; exact Hl. }
        exists s'. split; [exact F|]. split; [exact S'|].
        intros l r. rewrite V'. cbn [memz existsb]. fold (memz l t).
        destruct (l =? a) eqn:E.
        * apply Z.eqb_eq in E. subst l.
          assert (memz a t = false).
          { destruct (memz a t) eqn:M; auto. apply memz_in in M. contradiction. }
          rewrite H. cbn [orb andb]. rewrite Ea, Hw3, Z.eqb_refl. reflexivity.
        * cbn [orb].
          assert (Hl : forall r', vgpr s1 l r' = vgpr s l r') by (intros r'; rewrite Hw3, E; reflexivity).
          unfold newv. rewrite !Hl. destruct (memz l t && bit e l); [|reflexivity].
          destruct (valof l); reflexivity.
      + cbn [andb].
        destruct (IH s m Hnt Hs) as (s' & F & S' & V').
        { intros l Hl r. apply Hv. right; exact Hl. }
        exists s'. split; [exact F|]. split; [exact S'|].
        intros l r. rewrite V'. cbn [memz existsb]. fold (memz l t).
        destruct (l =? a) eqn:E; [|reflexivity].
        apply Z.eqb_eq in E. subst l. rewrite Ea. rewrite !andb_false_r. reflexivity.
  Qed.
End Loop.

(** ** operand reads at a lane *)
Lemma rd_agree : forall st s c cnt lit, scal_agree st s -> rd s c cnt lit = rd st c cnt lit.
Proof.
  intros st s c cnt lit (A1&A2&A3&A4&A5&_). unfold rd. rewrite !A1, A2, A3, A4, A5. reflexivity.
Qed.
Lemma rdv_agree : forall st s c cnt lit l, lane_agree st s l -> rdv s c cnt lit l = rdv st c cnt lit l.
Proof.
  intros st s c cnt lit l (Hs & Hv). unfold rdv. rewrite !Hv, (rd_agree st s) by exact Hs. reflexivity.
Qed.

Definition admv (c : Z) : Prop := is_vgpr c = true \/ adm32 true c.

Lemma rdv32_ok : forall st c lit l, wf st -> 0 <= lit < W32 -> admv c ->
  exists a, rdv st c 0 lit l = Some a /\ vsrc B32 st c lit l = Some (u32 a) /\ 0 <= a < W64.
Proof.
  intros st c lit l Hwf Hl [Hc|Hc].
  - unfold rdv, vsrc. unfold is_vgpr in *. rewrite Hc. cbn [Z.leb].
    destruct Hwf as (_&Hv&_). pose proof (Hv l (c - 256)) as Hr.
    eexists. split; [reflexivity|]. rewrite (u32_small _ Hr). split; [reflexivity|unfold W32, W64 in *; lia].
  - destruct (rd32_ok st true c lit Hwf Hl Hc) as (a & H1 & H2 & H3 & _).
    exists a. unfold rdv, vsrc, is_vgpr.
    assert (E : (256 <=? c) && (c <=? 511) = false) by (unfold adm32 in Hc; lia).
    rewrite E. cbn [src]. auto.
Qed.

Lemma rdv64_ok : forall st c lit l, wf st -> 0 <= lit < W32 -> adm64 c ->
  exists a, rdv st c 2 lit l = Some a /\ vsrc B64 st c lit l = Some a /\ 0 <= a < W64.
Proof.
  intros st c lit l Hwf Hl Hc. destruct (rd64_ok st c lit Hwf Hl Hc) as (a & H1 & H2 & H3).
  exists a. unfold rdv, vsrc, is_vgpr.
  assert (E : (256 <=? c) && (c <=? 511) = false) by (unfold adm64 in Hc; lia).
  rewrite E. cbn [src]. auto.
Qed.

(** writing the mask result: implementation on a state equal to the manual's *)
Lemma wr64_eq : forall s1 s2 d v, state_eq s1 s2 -> admd64 d ->
  exists x y, wr s1 d 2 v = Some x /\ dst64 s2 d (u64 v) = Some y /\ state_eq x y.
Proof.
  intros s1 s2 d v (E1&E2&E3&E4&E5&E6&E7&E8&E9) H. unfold admd64 in H. unfold wr, dst64.
  repeat case_if; do 2 eexists; (split; [reflexivity|split; [reflexivity|]]);
    repeat split; cbn; intros; auto.
  all: unfold upd; repeat case_if; auto; unfold u32, u64, W32, W64; lia.
Qed.

Lemma fold_ext_in : forall (f g : Z -> Z -> Z) ls m,
  (forall m l, In l ls -> f m l = g m l) -> fold_left f ls m = fold_left g ls m.
Proof.
  intros f g ls. induction ls as [|a t IH]; intros m H; [reflexivity|].
  cbn. rewrite H by (left; reflexivity). apply IH. intros; apply H; right; auto.
Qed.

(** ** relation between a handler descriptor and a manual row (32-bit class) *)
Definition cin_ok (d : vdesc) (r : vrow) : Prop :=
  match vd_cin d, r_cin r with
  | CNone, SNone | CVcc, SVcc => vd_n d = 3 -> vd_c2 d = 0 /\ r_w2 r = B32
  | CSrc2, SSrc2 => vd_c2 d = 2 /\ r_w2 r = B64 /\ vd_n d = 3
  | _, _ => False
  end.
Definition mask_ok (d : vdesc) (r : vrow) : Prop :=
  match vd_mask d, r_mask r with
  | MNone, DNone | MVcc, DVcc | MDst, DDst | MSdst, DSdst => True
  | _, _ => False
  end.
Definition dst_ok (d : vdesc) (r : vrow) : Prop :=
  match r_dw r with
  | Some B32 => 0 <= vd_dc d <= 1
  | Some B64 => False
  | None => vd_dc d = -1
  end.
Definition c2arg (r : vrow) (c : Z) : Z := match r_cin r with SSrc2 => c | _ => u32 c end.

Record vrel (d : vdesc) (r : vrow) : Prop := mkRel {
  rel_n : vd_n d = r_n r /\ 1 <= vd_n d <= 3;
  rel_c : vd_c0 d = 0 /\ vd_c1 d = 0 /\ r_w0 r = B32 /\ r_w1 r = B32;
  rel_dom : forall a b c, r_dom r a b c = true;
  rel_cin : cin_ok d r; rel_mask : mask_ok d r; rel_dst : dst_ok d r;
  rel_val : forall a b c cin, 0 <= a < W64 -> 0 <= b < W64 -> 0 <= c < W64 ->
    (match r_dw r with
     | Some _ => exists v, fst (vd_f d a b c cin) = Some v /\ u32 v = r_val r (u32 a) (u32 b) (c2arg r c) cin
     | None => True end) /\
    snd (vd_f d a b c cin) = r_flag r (u32 a) (u32 b) (c2arg r c) cin
}.

Definition agree_v (a : arch) (st : state) (i : inst) : Prop :=
  exists s1 s2, exec_vector a st i = Some s1 /\ exec_spec_v a st i = Some s2 /\ state_eq s1 s2.

(** admissible operands of a vector instruction with descriptor d / row r *)
Definition vadm (d : vdesc) (r : vrow) (i : inst) : Prop :=
  admv (i_src0 i) /\ (2 <= vd_n d -> admv (i_src1 i)) /\
  (3 <= vd_n d -> match vd_cin d with CSrc2 => adm64 (i_src2 i) | _ => admv (i_src2 i) end) /\
  (match r_dw r with Some _ => is_vgpr (i_dst i) = true | None => True end) /\
  (match r_mask r with DDst => admd64 (i_dst i) | DSdst => admd64 (i_simm i) | _ => True end).

Lemma exec_vector_eq : forall a st i, ~ (i_fmt i = F_VOP1 /\ i_op i = 2) ->
  exec_vector a st i = exec_vector_gen a st i.
Proof.
  intros a st i H. unfold exec_vector.
  destruct (i_fmt i); try reflexivity.
  destruct (i_op i) as [|p|p]; try reflexivity.
  destruct p as [p|p|]; try reflexivity. destruct p; try reflexivity.
  exfalso; apply H; auto.
Qed.
Lemma exec_spec_v_eq : forall a st i, ~ (i_fmt i = F_VOP1 /\ i_op i = 2) ->
  exec_spec_v a st i = exec_spec_vgen a st i.
Proof.
  intros a st i H. unfold exec_spec_v.
  destruct (i_fmt i); try reflexivity.
  destruct (i_op i) as [|p|p]; try reflexivity.
  destruct p as [p|p|]; try reflexivity. destruct p; try reflexivity.
  exfalso; apply H; auto.
Qed.

Lemma rd_pack32 : forall st c lit l, wf st -> 0 <= lit < W32 -> admv c ->
  rdv st c 0 lit l = Some (oget (rdv st c 0 lit l)) /\
  vsrc B32 st c lit l = Some (u32 (oget (rdv st c 0 lit l))) /\ 0 <= oget (rdv st c 0 lit l) < W64.
Proof.
  intros st c lit l Hwf Hl Hc. destruct (rdv32_ok st c lit l Hwf Hl Hc) as (a & H1 & H2 & H3).
  rewrite H1. cbn [oget]. auto.
Qed.
Lemma rd_pack64 : forall st c lit l, wf st -> 0 <= lit < W32 -> adm64 c ->
  rdv st c 2 lit l = Some (oget (rdv st c 2 lit l)) /\
  vsrc B64 st c lit l = Some (oget (rdv st c 2 lit l)) /\ 0 <= oget (rdv st c 2 lit l) < W64.
Proof.
  intros st c lit l Hwf Hl Hc. destruct (rdv64_ok st c lit l Hwf Hl Hc) as (a & H1 & H2 & H3).
  rewrite H1. cbn [oget]. auto.
Qed.

Section Glue.
  Context (a : arch) (st : state) (i : inst) (d : vdesc) (r : vrow).
  Context (Hd : vdesc_of a (i_fmt i) (i_op i) = Some d).
  Context (Hr : vrow_of a (i_fmt i) (i_op i) = Some r).
  Context (Hrel : vrel d r).
  Context (Hnr : ~ (i_fmt i = F_VOP1 /\ i_op i = 2)).
  Context (Hwf : wf st).
  Context (Hlit : 0 <= i_lit i < W32).
  Context (Hadm : vadm d r i).

  Let A (l : Z) := oget (rdv st (i_src0 i) 0 (i_lit i) l).
  Let B (l : Z) := if 2 <=? vd_n d then oget (rdv st (i_src1 i) 0 (i_lit i) l) else 0.
  Let C (l : Z) := if 3 <=? vd_n d then oget (rdv st (i_src2 i) (vd_c2 d) (i_lit i) l) else 0.
  Let cin (l : Z) := match vd_cin d with CNone => false | CVcc => bit (vcc st) l | CSrc2 => bit (C l) l end.
  Let valof (l : Z) := if vd_dc d <? 0 then None else fst (vd_f d (A l) (B l) (C l) (cin l)).
  Let flagof (l : Z) := snd (vd_f d (A l) (B l) (C l) (cin l)).

  Lemma glue_reads : forall l,
    rdv st (i_src0 i) (vd_c0 d) (i_lit i) l = Some (A l) /\
    (if 2 <=? vd_n d then rdv st (i_src1 i) (vd_c1 d) (i_lit i) l else Some 0) = Some (B l) /\
    (if 3 <=? vd_n d then rdv st (i_src2 i) (vd_c2 d) (i_lit i) l else Some 0) = Some (C l) /\
    vsrc (r_w0 r) st (i_src0 i) (i_lit i) l = Some (u32 (A l)) /\
    (if 2 <=? r_n r then vsrc (r_w1 r) st (i_src1 i) (i_lit i) l else Some 0) = Some (u32 (B l)) /\
    (if 3 <=? r_n r then vsrc (r_w2 r) st (i_src2 i) (i_lit i) l else Some 0) = Some (c2arg r (C l)) /\
    0 <= A l < W64 /\ 0 <= B l < W64 /\ 0 <= C l < W64.
  Proof.
    intros l. destruct Hrel as [[Hn Hn13] (Hc0 & Hc1 & Hw0 & Hw1) _ Hcin _ _ _].
    destruct Hadm as (H0 & H1 & H2 & _).
    rewrite <- Hn, Hc0, Hc1, Hw0, Hw1. unfold A, B, C.
    destruct (rd_pack32 st (i_src0 i) (i_lit i) l Hwf Hlit H0) as (P1 & P2 & P3).
    rewrite P1 at 1. rewrite P2.
    assert (Q1 : (if 2 <=? vd_n d then rdv st (i_src1 i) 0 (i_lit i) l else Some 0) =
                 Some (if 2 <=? vd_n d then oget (rdv st (i_src1 i) 0 (i_lit i) l) else 0) /\
                 (if 2 <=? vd_n d then vsrc B32 st (i_src1 i) (i_lit i) l else Some 0) =
                 Some (u32 (if 2 <=? vd_n d then oget (rdv st (i_src1 i) 0 (i_lit i) l) else 0)) /\
                 0 <= (if 2 <=? vd_n d then oget (rdv st (i_src1 i) 0 (i_lit i) l) else 0) < W64).
    { destruct (2 <=? vd_n d) eqn:E.
      - destruct (rd_pack32 st (i_src1 i) (i_lit i) l Hwf Hlit (H1 ltac:(lia))) as (R1 & R2 & R3).
        rewrite R1 at 1. auto.
      - repeat split; unfold W64; lia. }
    destruct Q1 as (Q1 & Q2 & Q3).
    assert (Q4 : (if 3 <=? vd_n d then rdv st (i_src2 i) (vd_c2 d) (i_lit i) l else Some 0) =
                 Some (if 3 <=? vd_n d then oget (rdv st (i_src2 i) (vd_c2 d) (i_lit i) l) else 0) /\
                 (if 3 <=? vd_n d then vsrc (r_w2 r) st (i_src2 i) (i_lit i) l else Some 0) =
                 Some (c2arg r (if 3 <=? vd_n d then oget (rdv st (i_src2 i) (vd_c2 d) (i_lit i) l) else 0)) /\
                 0 <= (if 3 <=? vd_n d then oget (rdv st (i_src2 i) (vd_c2 d) (i_lit i) l) else 0) < W64).
    { unfold cin_ok, c2arg in *. destruct (3 <=? vd_n d) eqn:E.
      - specialize (H2 ltac:(lia)).
        destruct (vd_cin d), (r_cin r); try contradiction.
        + destruct (Hcin ltac:(lia)) as [K1 K2]. rewrite K1, K2.
          destruct (rd_pack32 st (i_src2 i) (i_lit i) l Hwf Hlit H2) as (R1 & R2 & R3). rewrite R1 at 1. auto.
        + destruct (Hcin ltac:(lia)) as [K1 K2]. rewrite K1, K2.
          destruct (rd_pack32 st (i_src2 i) (i_lit i) l Hwf Hlit H2) as (R1 & R2 & R3). rewrite R1 at 1. auto.
        + destruct Hcin as (K1 & K2 & K3). rewrite K1, K2.
          destruct (rd_pack64 st (i_src2 i) (i_lit i) l Hwf Hlit H2) as (R1 & R2 & R3). rewrite R1 at 1. auto.
      - destruct (r_cin r); repeat split; try reflexivity; unfold W64; lia. }
    destruct Q4 as (Q4 & Q5 & Q6).
    repeat split; auto; try lia.
  Qed.

  Lemma glue_lane : forall l s, lane_agree st s l -> lane_of d st i l s = Some (valof l, flagof l).
  Proof.
    intros l s Hl. unfold lane_of. rewrite !(rdv_agree st s _ _ _ _ Hl).
    destruct (glue_reads l) as (R0 & R1 & R2 & _).
    rewrite R0. cbn [bind]. rewrite R1. cbn [bind]. rewrite R2. cbn [bind]. reflexivity.
  Qed.

  Lemma glue_loop : exists s',
    vloop (exec st) (i_dst i) (vd_dc d) (lane_of d st i) st =
      Some (s', fold_left (fm_impl (fun l => bit (exec st) l && flagof l)) lanes 0) /\
    scal_agree st s' /\
    forall l x, vgpr s' l x =
      if memz l lanes && bit (exec st) l then newv (i_dst i) (vd_dc d) (valof l) (vgpr st l) x else vgpr st l x.
  Proof.
    rewrite vloop_fold.
    apply (vloop_gen (exec st) (i_dst i) (vd_dc d) (lane_of d st i) st valof flagof).
    - intros l v Hv. unfold valof in Hv. destruct Hrel as [_ _ _ _ _ Hdst _]. destruct Hadm as (_&_&_&Hvd&_).
      unfold dst_ok in Hdst. destruct (r_dw r) as [[|]|]; auto; try contradiction.
      rewrite Hdst in Hv. cbn in Hv. discriminate.
    - exact glue_lane.
    - rewrite lanes_eq. apply nodup_lanes_upto.
    - apply scal_agree_refl.
    - reflexivity.
  Qed.

  Lemma glue_spec_reads : forall l,
    sp_s0 r st i l = Some (u32 (A l)) /\ sp_s1 r st i l = Some (u32 (B l)) /\
    sp_s2 r st i l = Some (c2arg r (C l)) /\ sp_cin r st i l = cin l.
  Proof.
    intros l. destruct (glue_reads l) as (_ & _ & _ & R3 & R4 & R5 & _).
    unfold sp_s0, sp_s1, sp_s2, sp_cin. rewrite R3, R4. repeat split; auto.
    unfold sp_s2. rewrite R5. cbn [oget]. unfold cin, c2arg.
    destruct Hrel as [_ _ _ Hcin _ _ _]. unfold cin_ok in Hcin.
    destruct (vd_cin d), (r_cin r); try contradiction; reflexivity.
  Qed.

  Lemma glue_flag : forall l, sp_flag r st i l = flagof l /\ sp_ok r st i l = true /\
    (forall w, r_dw r = Some w -> exists v, valof l = Some v /\ u32 v = sp_val r st i l) /\
    (r_dw r = None -> valof l = None).
  Proof.
    intros l. destruct (glue_spec_reads l) as (S0 & S1 & S2 & SC).
    destruct (glue_reads l) as (_ & _ & _ & _ & _ & _ & RA & RB & RC).
    destruct Hrel as [_ _ Hdom _ _ Hdst Hval].
    destruct (Hval (A l) (B l) (C l) (cin l) RA RB RC) as [V1 V2].
    unfold sp_flag, sp_ok, sp_val. rewrite S0, S1, S2, SC. cbn [oget isS andb].
    split; [symmetry; exact V2|]. split; [apply Hdom|]. unfold valof, dst_ok in *. split.
    - intros w Hw. rewrite Hw in *. destruct w; [|contradiction].
      replace (vd_dc d <? 0) with false by lia. exact V1.
    - intros Hw. rewrite Hw in Hdst. rewrite Hdst. reflexivity.
  Qed.

  Lemma glue_mask :
    fold_left (fm_impl (fun l => bit (exec st) l && flagof l)) lanes 0 =
      mask_of (fun l => active st l && sp_flag r st i l) /\
    0 <= mask_of (fun l => active st l && sp_flag r st i l) < W64.
  Proof.
    rewrite mask_of_fold. rewrite lanes_eq.
    destruct (mask_impl_spec (fun l => bit (exec st) l && flagof l) 64) as [M1 M2].
    rewrite M1.
    assert (E : fold_left (fm_spec (fun l => bit (exec st) l && flagof l)) (lanes_upto 64) 0 =
                fold_left (fm_spec (fun l => active st l && sp_flag r st i l)) (lanes_upto 64) 0).
    { apply fold_ext_in. intros m l Hl. unfold fm_spec.
      destruct (glue_flag l) as (F & _). rewrite F. unfold active, lane_ok, bit.
      apply in_lanes_upto in Hl. replace ((0 <=? l) && (l <? 64)) with true by lia. reflexivity. }
    rewrite <- E. split; [reflexivity|]. rewrite W64_pow. exact M2.
  Qed.

  Definition spec_st1 : option state :=
    match r_dw r with
    | None => Some st
    | Some w => if is_vgpr (i_dst i) && (match w with B32 => true | B64 => i_dst i <=? 510 end)
                then Some (st <| vgpr := sp_vgpr r w st i |>) else None
    end.

  Lemma glue_st1 : forall s', scal_agree st s' ->
    (forall l x, vgpr s' l x =
      if memz l lanes && bit (exec st) l then newv (i_dst i) (vd_dc d) (valof l) (vgpr st l) x else vgpr st l x) ->
    exists st1, spec_st1 = Some st1 /\ state_eq s' st1.
  Proof.
    intros s' HS HV. unfold spec_st1.
    destruct HS as (A1&A2&A3&A4&A5&A6&A7&A8).
    destruct Hadm as (_&_&_&Hvd&_). destruct Hrel as [_ _ _ _ _ Hdst _]. unfold dst_ok in Hdst.
    destruct (r_dw r) as [w|] eqn:Ew.
    - destruct w; [|contradiction]. rewrite Hvd. cbn [andb]. eexists. split; [reflexivity|].
      repeat split; cbn [vgpr sgpr exec vcc scc m0 pc mem lds set]; auto.
      intros l x. rewrite HV, memz_lanes. unfold sp_vgpr, active, bit.
      destruct (lane_ok l && Z.testbit (exec st) l); [|reflexivity].
      destruct (glue_flag l) as (_ & _ & K & _). destruct (K B32 Ew) as (v & Kv & Ku).
      rewrite Kv. unfold newv. replace (2 <=? vd_dc d) with false by lia. cbn [andb].
      destruct (x =? i_dst i - 256); [exact Ku|reflexivity].
    - exists st. split; [reflexivity|]. repeat split; auto. intros l x. rewrite HV.
      destruct (glue_flag l) as (_ & _ & _ & K). rewrite (K Ew). unfold newv.
      destruct (memz l lanes && bit (exec st) l); reflexivity.
  Qed.

  Lemma glue_ok : forallb (fun l => negb (active st l) || sp_ok r st i l) (map Z.of_nat (seq 0 64)) = true.
  Proof. apply forallb_forall. intros l _. destruct (glue_flag l) as (_ & K & _). rewrite K. apply orb_true_r. Qed.

  Lemma glue_finish : forall s' st1 m, 0 <= m < W64 -> state_eq s' st1 ->
    exists s1 s2,
      match vd_mask d with
      | MNone => Some s' | MVcc => Some (s' <| vcc := m |>)
      | MDst => wr s' (i_dst i) 2 m | MSdst => wr s' (i_simm i) 2 m end = Some s1 /\
      match r_mask r with
      | DNone => Some st1 | DVcc => Some (st1 <| vcc := m |>)
      | DDst => dst64 st1 (i_dst i) m | DSdst => dst64 st1 (i_simm i) m end = Some s2 /\
      state_eq s1 s2.
  Proof.
    intros s' st1 m HMr Heq.
    destruct Hrel as [_ _ _ _ Hmask _ _]. unfold mask_ok in Hmask.
    destruct Hadm as (_&_&_&_&Hmd).
    destruct (vd_mask d), (r_mask r); try contradiction.
    - do 2 eexists. split; [reflexivity|split; [reflexivity|exact Heq]].
    - do 2 eexists. split; [reflexivity|split; [reflexivity|]].
      destruct Heq as (E2&E3&E4&E5&E6&E7&E8&E9&E10).
      repeat split; cbn [vgpr sgpr exec vcc scc m0 pc mem lds set]; auto.
    - destruct (wr64_eq s' st1 (i_dst i) m Heq Hmd) as (x & y & W1 & W2 & W3).
      unfold u64 in W2. rewrite (Z.mod_small _ _ HMr) in W2. rewrite W1, W2.
      do 2 eexists. split; [reflexivity|split; [reflexivity|exact W3]].
    - destruct (wr64_eq s' st1 (i_simm i) m Heq Hmd) as (x & y & W1 & W2 & W3).
      unfold u64 in W2. rewrite (Z.mod_small _ _ HMr) in W2. rewrite W1, W2.
      do 2 eexists. split; [reflexivity|split; [reflexivity|exact W3]].
  Qed.

  Theorem vglue_core : exists s1 s2, run_d d st i = Some s1 /\ run_r r st i = Some s2 /\ state_eq s1 s2.
  Proof.
    unfold run_d, run_r.
    destruct glue_loop as (s' & HL & HS & HV). rewrite HL, glue_ok. cbn [negb].
    destruct glue_mask as [HM HMr]. rewrite HM.
    destruct (glue_st1 s' HS HV) as (st1 & E1 & Heq).
    fold spec_st1. rewrite E1. cbn [obind].
    exact (glue_finish s' st1 _ HMr Heq).
  Qed.

  Theorem vglue : agree_v a st i.
  Proof.
    unfold agree_v. rewrite (exec_vector_eq a st i Hnr), (exec_spec_v_eq a st i Hnr).
    unfold exec_vector_gen, exec_spec_vgen. rewrite Hd, Hr. cbn [obind].
    exact vglue_core.
  Qed.
End Glue.
