(** C03 — proofs for the memory part: the sequential lane loops of the
    SMEM / FLAT / DS handlers compute the lane-wise effect the manuals
    describe. *)
From Coq Require Import ZArith List Bool Lia ZifyBool.
From RecordUpdate Require Import RecordSet.
Import RecordSetNotations.
Import ListNotations.
From VIsa Require Import IsaState ExecImpl ExecSpec ExecImplV ExecSpecV ExecProofs ExecRows ExecVProofs ExecImplM ExecSpecM.
Open Scope Z_scope.
Ltac Zify.zify_post_hook ::= Z.div_mod_to_equations.

Definition agree_m (a : arch) (lsz : Z) (st : state) (i : inst) : Prop :=
  exists s1 s2, exec_mem a lsz st i = Some s1 /\ exec_spec_mem a lsz st i = Some s2 /\ state_eq s1 s2.

(** ** lists of dwords *)
Lemma nth_map_seq : forall (f : nat -> Z) k n, (n < k)%nat -> nth n (map f (seq 0 k)) 0 = f n.
Proof.
  intros f k n H. rewrite (nth_indep _ 0 (f 0%nat)) by (rewrite map_length, seq_length; exact H).
  rewrite (map_nth f (seq 0 k) 0%nat n), seq_nth by exact H. reflexivity.
Qed.
Lemma ld4_dword : forall st a, ld4 (gmem st) a = dword_at (MEM st) a.
Proof.
  intros. unfold ld4, dword_at, gmem, MEM, u64.
  change (2 ^ 8) with 256. change (2 ^ 16) with 65536. change (2 ^ 24) with 16777216. ring.
Qed.
Lemma ld4_dword_lds : forall m a, ld4 m a = dword_at m a.
Proof.
  intros. unfold ld4, dword_at.
  change (2 ^ 8) with 256. change (2 ^ 16) with 65536. change (2 ^ 24) with 16777216. ring.
Qed.

(** ** the loop *)
Definition mbody (e : Z) (f : Z -> state -> option state) (acc : option state) (l : Z) : option state :=
  match acc with None => None | Some s => if bit e l then f l s else Some s end.
Lemma mloop_fold : forall e f st, mloop e f st = fold_left (mbody e f) lanes (Some st).
Proof. reflexivity. Qed.

Definition newk (r : Z) (ws : list Z) (old : Z -> Z) (j : Z) : Z :=
  if (r <=? j) && (j <? r + Z.of_nat (length ws)) then nth (Z.to_nat (j - r)) ws 0 else old j.
Lemma updk_char : forall f l r ws l' j,
  updk f l r ws l' j = if l' =? l then newk r ws (f l') j else f l' j.
Proof.
  intros. unfold updk, newk. destruct (l' =? l) eqn:E; cbn [andb]; [|reflexivity].
  apply Z.eqb_eq in E. subst. reflexivity.
Qed.

Section LoadLoop.
  Context (e : Z) (f : Z -> state -> option state) (st : state) (r : Z) (W : Z -> list Z) (P : Z -> Prop).
  Context (Hf : forall l s, P l -> lane_agree st s l -> f l s = Some (s <| vgpr := updk (vgpr s) l r (W l) |>)).

  Lemma load_loop : forall ls s, NoDup ls -> scal_agree st s -> (forall l, In l ls -> bit e l = true -> P l) ->
    (forall l, In l ls -> forall j, vgpr s l j = vgpr st l j) ->
    exists s', fold_left (mbody e f) ls (Some s) = Some s' /\ scal_agree st s' /\
      forall l j, vgpr s' l j = if memz l ls && bit e l then newk r (W l) (vgpr s l) j else vgpr s l j.
  Proof.
    induction ls as [|a t IH]; intros s Hnd Hs HP Hv.
    - exists s. cbn. repeat split; auto; apply Hs.
    - inversion Hnd as [|? ? Hna Hnt]; subst.
      assert (HPt : forall l, In l t -> bit e l = true -> P l) by (intros l Hl; apply HP; right; exact Hl).
      cbn [fold_left]. unfold mbody at 2.
      destruct (bit e a) eqn:Ea.
      + rewrite (Hf a s (HP a (or_introl eq_refl) Ea)) by (split; [exact Hs|intros j; apply Hv; left; reflexivity]).
        set (s1 := s <| vgpr := updk (vgpr s) a r (W a) |>).
        assert (Hs1 : scal_agree st s1) by (destruct Hs as (A1&A2&A3&A4&A5&A6&A7&A8); repeat split; assumption).
        assert (Hv1 : forall l' j, vgpr s1 l' j = if l' =? a then newk r (W a) (vgpr s l') j else vgpr s l' j)
          by (intros; unfold s1; cbn [vgpr set]; apply updk_char).
        destruct (IH s1 Hnt Hs1 HPt) as (s' & F & S' & V').
        { intros l Hl j. rewrite Hv1. destruct (l =? a) eqn:E; [apply Z.eqb_eq in E; subst; contradiction|].
          apply Hv. right; exact Hl. }
        exists s'. split; [exact F|]. split; [exact S'|].
        intros l j. rewrite V'. cbn [memz existsb]. fold (memz l t).
        destruct (l =? a) eqn:E.
        * apply Z.eqb_eq in E. subst l.
          assert (memz a t = false) by (destruct (memz a t) eqn:M; auto; apply memz_in in M; contradiction).
          rewrite H. cbn [orb andb]. rewrite Ea, Hv1, Z.eqb_refl. reflexivity.
        * cbn [orb].
          assert (Hl : forall j', vgpr s1 l j' = vgpr s l j') by (intros j'; rewrite Hv1, E; reflexivity).
          unfold newk. rewrite !Hl. reflexivity.
      + destruct (IH s Hnt Hs HPt) as (s' & F & S' & V').
        { intros l Hl j. apply Hv. right; exact Hl. }
        exists s'. split; [exact F|]. split; [exact S'|].
        intros l j. rewrite V'. cbn [memz existsb]. fold (memz l t).
        destruct (l =? a) eqn:E; [|reflexivity].
        apply Z.eqb_eq in E. subst l. rewrite Ea. rewrite !andb_false_r. reflexivity.
  Qed.

  Lemma load_mloop : (forall l, In l lanes -> bit e l = true -> P l) -> exists s', mloop e f st = Some s' /\ scal_agree st s' /\
      forall l j, vgpr s' l j = if lane_ok l && bit e l then newk r (W l) (vgpr st l) j else vgpr st l j.
  Proof.
    intros HP. rewrite mloop_fold.
    destruct (load_loop lanes st) as (s' & F & S' & V').
    - rewrite lanes_eq. apply nodup_lanes_upto.
    - apply scal_agree_refl.
    - exact HP.
    - reflexivity.
    - exists s'. split; [exact F|]. split; [exact S'|]. intros l j. rewrite V', memz_lanes. reflexivity.
  Qed.
End LoadLoop.

(** stores: registers are not touched, the byte map of one space is folded *)
Definition getsp (sel : bool) (s : state) : Z -> Z := if sel then mem s else lds s.
Definition setsp (sel : bool) (s : state) (m : Z -> Z) : state := if sel then s <| mem := m |> else s <| lds := m |>.
Definition reg_agree (sel : bool) (st s : state) : Prop :=
  (forall i, sgpr s i = sgpr st i) /\ (forall l j, vgpr s l j = vgpr st l j) /\ exec s = exec st /\ vcc s = vcc st /\
  scc s = scc st /\ m0 s = m0 st /\ pc s = pc st /\ (forall x, getsp (negb sel) s x = getsp (negb sel) st x).
Lemma reg_agree_refl : forall sel st, reg_agree sel st st.
Proof. intros; repeat split; auto. Qed.

Section StoreLoop.
  Context (e : Z) (f : Z -> state -> option state) (st : state) (sel : bool) (Wm : Z -> (Z -> Z) -> (Z -> Z)) (P : Z -> Prop).
  Context (Hf : forall l s, P l -> reg_agree sel st s -> f l s = Some (setsp sel s (Wm l (getsp sel s)))).

  Lemma store_loop : forall ls s, reg_agree sel st s -> (forall l, In l ls -> bit e l = true -> P l) ->
    exists s', fold_left (mbody e f) ls (Some s) = Some s' /\ reg_agree sel st s' /\
      getsp sel s' = fold_left (fun m l => if bit e l then Wm l m else m) ls (getsp sel s).
  Proof.
    induction ls as [|a t IH]; intros s Hs HP.
    - exists s. cbn. auto.
    - assert (HPt : forall l, In l t -> bit e l = true -> P l) by (intros l Hl; apply HP; right; exact Hl).
      cbn [fold_left]. unfold mbody at 2. destruct (bit e a) eqn:Ea.
      + rewrite (Hf a s (HP a (or_introl eq_refl) Ea) Hs).
        set (s1 := setsp sel s (Wm a (getsp sel s))).
        assert (Hs1 : reg_agree sel st s1).
        { destruct Hs as (A1&A2&A3&A4&A5&A6&A7&A8). unfold s1, setsp. destruct sel; repeat split; assumption. }
        destruct (IH s1 Hs1 HPt) as (s' & F & S' & M'). exists s'. split; [exact F|]. split; [exact S'|].
        rewrite M'. unfold s1, setsp, getsp. destruct sel; reflexivity.
      + destruct (IH s Hs HPt) as (s' & F & S' & M'). exists s'. auto.
  Qed.
  Lemma store_mloop : (forall l, In l lanes -> bit e l = true -> P l) -> exists s', mloop e f st = Some s' /\ reg_agree sel st s' /\
      getsp sel s' = fold_left (fun m l => if bit e l then Wm l m else m) lanes (getsp sel st).
  Proof. intros HP. rewrite mloop_fold. apply store_loop; [apply reg_agree_refl|exact HP]. Qed.
End StoreLoop.

(** pointwise comparison of two folds of byte maps *)
Lemma fold_pw : forall (F G : (Z -> Z) -> Z -> (Z -> Z)) ls m m',
  (forall l m m', In l ls -> (forall x, m x = m' x) -> forall x, F m l x = G m' l x) ->
  (forall x, m x = m' x) -> forall x, fold_left F ls m x = fold_left G ls m' x.
Proof.
  induction ls as [|a t IH]; intros m m' H Hm x; cbn [fold_left]; [apply Hm|].
  apply IH.
  - intros l m1 m2 Hl. apply H. right; exact Hl.
  - intros y. apply H; [left; reflexivity|exact Hm].
Qed.
Lemma upd_pw : forall f g i i' v v', i = i' -> v = v' -> (forall x, f x = g x) -> forall x, upd f i v x = upd g i' v' x.
Proof. intros; subst. unfold upd. destruct (x =? i'); auto. Qed.

(** ** SMEM *)
Theorem smem_agree : forall a lsz st i k, i_fmt i = F_SMEM ->
  In (i_op i, k) [(0, 1); (1, 2); (2, 4); (3, 8); (4, 16)] ->
  0 <= i_src0 i <= 100 -> 0 <= i_dst i -> i_dst i + k <= 102 ->
  (i_src1 i = 255 \/ 0 <= i_src1 i <= 101) -> agree_m a lsz st i.
Proof.
  intros a lsz st i k Hf Hin Hb Hd0 Hd1 Ho.
  assert (Hk' : smem_cnt (i_op i) = Some k /\ smem_row (i_op i) = Some k /\ 0 < k <= 16).
  { cbn [In] in Hin. repeat (destruct Hin as [Hin|Hin]; [injection Hin as E1 E2; rewrite <- E1, <- E2; repeat split; try reflexivity; lia|]).
    contradiction. }
  destruct Hk' as (Hk & Hr & Hkr).
  unfold agree_m, exec_mem, exec_spec_mem. rewrite Hf. unfold x_smem, spec_smem. rewrite Hk, Hr.
  replace ((0 <=? i_src0 i) && (i_src0 i <=? 100)) with true by lia. cbn [bind].
  unfold rd at 1. replace ((0 <=? i_src0 i) && (i_src0 i <=? 101)) with true by lia.
  replace (2 <=? 1) with false by reflexivity. replace (i_src0 i =? 101) with false by lia. cbn [bind].
  replace (negb (true && (0 <=? i_dst i) && (i_dst i + k <=? 102))) with false by lia.
  assert (Hoff : exists off,
    (if i_src1 i =? 255 then Some (i_lit i)
     else if (0 <=? i_src1 i) && (i_src1 i <=? 101) then rd st (i_src1 i) 1 0 else None) = Some off /\
    (if i_src1 i =? 255 then Some (i_lit i)
     else if (0 <=? i_src1 i) && (i_src1 i <=? 101) then Some (sgpr st (i_src1 i)) else None) = Some off).
  { destruct (i_src1 i =? 255) eqn:E; [eexists; split; reflexivity|].
    replace ((0 <=? i_src1 i) && (i_src1 i <=? 101)) with true by lia.
    unfold rd. replace ((0 <=? i_src1 i) && (i_src1 i <=? 101)) with true by lia. cbn. eexists; split; reflexivity. }
  destruct Hoff as (off & O1 & O2). rewrite O1, O2. cbn [bind obind].
  unfold wrs. rewrite map_length, seq_length, Z2Nat.id by lia.
  replace ((0 <=? i_dst i) && (i_dst i + k <=? 102)) with true by lia.
  do 2 eexists. split; [reflexivity|]. split; [reflexivity|].
  repeat split; cbn [sgpr vgpr exec vcc scc m0 pc mem lds set]; auto.
  intros j. destruct ((i_dst i <=? j) && (j <? i_dst i + k)) eqn:E; [|reflexivity].
  rewrite nth_map_seq by lia. rewrite ld4_dword, Z2Nat.id by lia. unfold u64. reflexivity.
Qed.
