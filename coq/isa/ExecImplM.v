(** C03 — ExecImpl, memory part: the SMEM / FLAT / DS handlers of both ALUs
    (amd/emu/alu.go runSMEM, alu_flat.go, aluds.go; amd/emu/cdna3/sop.go,
    flat.go, ds.go) over the byte maps [mem] and [lds] of the common state.

    Instruction fields.  FLAT: src0 = ADDR VGPR code, src1 = DATA VGPR code,
    src2 = the SADDR field (0..127), dst = VDST VGPR code, simm = the decoded
    offset (signed).  DS: src0 = ADDR, src1 = DATA0, src2 = DATA1, dst = VDST,
    simm = offset0 + 65536 * offset1 as the decoder leaves them (for the
    one-address forms offset0 already holds the 16-bit offset and offset1 its
    high byte).  SMEM: src0 = SBASE SGPR code, src1 = offset SGPR code or 255
    with the immediate in [i_lit], dst = SDATA code.

    The storage accessor is a byte map addressed modulo 2^64 (its page walk
    is C05's subject); the LDS is a byte slice of [lsz] bytes: an access
    outside it panics.  Register slices that would run past v255 / s101 are
    outside the model (None).  Definitions only. *)
From Coq Require Import ZArith List Bool.
From RecordUpdate Require Import RecordSet.
Import RecordSetNotations.
Import ListNotations.
From VIsa Require Import IsaState ExecImpl.
Open Scope Z_scope.

(** the sequential lane loop of the memory handlers: EXEC is read before it *)
Definition mloop (e : Z) (f : Z -> state -> option state) (st : state) : option state :=
  fold_left (fun acc l =>
    match acc with
    | None => None
    | Some s => if bit e l then f l s else Some s
    end) lanes (Some st).

(** little-endian dword at [a] of a byte accessor *)
Definition ld4 (m : Z -> Z) (a : Z) : Z :=
  m a + 256 * m (a + 1) + 65536 * m (a + 2) + 16777216 * m (a + 3).
Definition byte_of (v k : Z) : Z := (v / 256 ^ k) mod 256.
(** storageAccessor.Read / Write: byte i of the buffer lives at addr + i (uint64) *)
Definition gmem (st : state) : Z -> Z := fun x => mem st (u64 x).

(** WriteOperandBytes of a VGPR operand: the buffer, as dwords, lands in
    consecutive registers of the lane *)
Definition updk (f : Z -> Z -> Z) (l r : Z) (ws : list Z) : Z -> Z -> Z :=
  fun l' j => if (l' =? l) && (r <=? j) && (j <? r + Z.of_nat (length ws))
              then nth (Z.to_nat (j - r)) ws 0 else f l' j.
Definition wrk (s : state) (l d : Z) (ws : list Z) : option state :=
  if (256 <=? d) && (d - 256 + Z.of_nat (length ws) <=? 256)
  then Some (s <| vgpr := updk (vgpr s) l (d - 256) ws |>) else None.

(** ReadOperandBytes of a VGPR operand with [k] registers: 4k bytes *)
Definition reg_bytes (s : state) (l d k : Z) : option (list Z) :=
  if (256 <=? d) && (d - 256 + k <=? 256) then
    Some (flat_map (fun j => let v := vgpr s l (d - 256 + Z.of_nat j) in
                             [byte_of v 0; byte_of v 1; byte_of v 2; byte_of v 3]) (seq 0 (Z.to_nat k)))
  else None.
(** copy of a buffer to consecutive bytes *)
Definition wr_bytes (norm : Z -> Z) (m : Z -> Z) (a : Z) (bs : list Z) : Z -> Z :=
  fold_left (fun m kb => upd m (norm (a + Z.of_nat (fst kb))) (snd kb)) (combine (seq 0 (length bs)) bs) m.
Definition idz (x : Z) : Z := x.

(** VGPR read of the address operand (RegCount 1 or 2) *)
Definition rdvk (s : state) (code cnt l : Z) : option Z :=
  if (256 <=? code) && (code - 256 + cnt <=? 256) then rdv s code cnt 0 l else None.

(** * FLAT / GLOBAL *)
Definition has_saddr (a : arch) (sa : Z) : bool :=
  match a with
  | CDNA3 => negb (sa =? 127)
  | GCN3 => negb (sa =? 127) && negb (sa =? 0)
  end.
(** flatPrecomputeScalarBase *)
Definition flat_base (a : arch) (st : state) (i : inst) : option (bool * Z) :=
  if has_saddr a (i_src2 i) then
    bind (if (0 <=? i_src2 i) && (i_src2 i <=? 100) then rd st (i_src2 i) 2 0 else None) (fun b => Some (true, b))
  else Some (false, 0).
(** flatAddrWithScalar *)
Definition flat_addr (hb : bool * Z) (s : state) (i : inst) (l : Z) : option Z :=
  bind (rdvk s (i_src0 i) (if fst hb then 1 else 2) l) (fun v =>
    let a1 := if fst hb then u64 (snd hb + Z.land v 4294967295) else v in
    Some (if i_simm i =? 0 then a1 else u64 (a1 + i_simm i))).

Definition flat_load_words (op : Z) (m : Z -> Z) (a : Z) : option (list Z) :=
  match op with
  | 16 => Some [m a]                                   (* buf[0], other bytes cleared *)
  | 17 => Some [u32 (sx 256 (m a))]                    (* uint32(int32(int8(buf[0]))) *)
  | 18 => Some [m a + 256 * m (a + 1)]
  | 20 => Some [ld4 m a]
  | 21 => Some [ld4 m a; ld4 m (a + 4)]
  | 22 => Some [ld4 m a; ld4 m (a + 4); ld4 m (a + 8)]
  | 23 => Some [ld4 m a; ld4 m (a + 4); ld4 m (a + 8); ld4 m (a + 12)]
  | _ => None
  end.
Definition flat_store_regs (op : Z) : option Z :=
  match op with 28 => Some 1 | 29 => Some 2 | 30 => Some 3 | 31 => Some 4 | _ => None end.

Definition x_flat (a : arch) (st : state) (i : inst) : option state :=
  bind (flat_base a st i) (fun hb =>
  match flat_store_regs (i_op i) with
  | Some k =>
      mloop (exec st) (fun l s =>
        bind (flat_addr hb s i l) (fun ad =>
        bind (reg_bytes s l (i_src1 i) k) (fun bs =>
        Some (s <| mem := wr_bytes u64 (mem s) ad bs |>)))) st
  | None =>
      mloop (exec st) (fun l s =>
        bind (flat_addr hb s i l) (fun ad =>
        bind (flat_load_words (i_op i) (gmem s) ad) (fun ws => wrk s l (i_dst i) ws))) st
  end).

(** * DS *)
Definition ds_addr (s : state) (i : inst) (l off : Z) : option Z :=
  bind (rdvk s (i_src0 i) 1 l) (fun v => Some (u32 (u32 v + off))).
Definition in_lds (lsz a n : Z) : bool := a + n <=? lsz.
Definition off0 (i : inst) : Z := i_simm i mod 65536.
Definition off1 (i : inst) : Z := i_simm i / 65536.

(** one-address and two-address forms: (scale, bytes per access) *)
Definition ds_write1 (op : Z) : option Z :=         (* bytes *)
  match op with 13 => Some 4 | 30 => Some 1 | 223 => Some 16 | _ => None end.
Definition ds_write2 (op : Z) : option Z :=
  match op with 14 => Some 4 | 78 => Some 8 | _ => None end.
Definition ds_read1 (op : Z) : option (Z * bool) :=  (* bytes, offset used *)
  match op with 54 => Some (4, true) | 118 => Some (8, true) | 255 => Some (16, true) | _ => None end.
Definition ds_read2 (op : Z) : option Z :=
  match op with 55 => Some 4 | 119 => Some 8 | _ => None end.
Definition ds_words (m : Z -> Z) (a n : Z) : list Z :=
  map (fun j => ld4 m (a + 4 * Z.of_nat j)) (seq 0 (Z.to_nat (n / 4))).
Definition cdna3_only_ds (op : Z) : bool := (op =? 223) || (op =? 255).

Definition x_ds (a : arch) (lsz : Z) (st : state) (i : inst) : option state :=
  let op := i_op i in
  if cdna3_only_ds op && match a with GCN3 => true | CDNA3 => false end then None else
  match ds_write1 op, ds_write2 op, ds_read1 op, ds_read2 op with
  | Some n, _, _, _ =>
      mloop (exec st) (fun l s =>
        bind (ds_addr s i l (off0 i)) (fun ad =>
        if negb (in_lds lsz ad n) then None else
        bind (reg_bytes s l (i_src1 i) (if n <? 4 then 1 else n / 4)) (fun bs =>
        Some (s <| lds := wr_bytes idz (lds s) ad (firstn (Z.to_nat n) bs) |>)))) st
  | _, Some n, _, _ =>
      mloop (exec st) (fun l s =>
        bind (ds_addr s i l (off0 i * n)) (fun ad0 =>
        bind (ds_addr s i l (off1 i * n)) (fun ad1 =>
        if negb (in_lds lsz ad0 n && in_lds lsz ad1 n) then None else
        bind (reg_bytes s l (i_src1 i) (n / 4)) (fun b0 =>
        bind (reg_bytes s l (i_src2 i) (n / 4)) (fun b1 =>
        Some (s <| lds := wr_bytes idz (wr_bytes idz (lds s) ad0 b0) ad1 b1 |>)))))) st
  | _, _, Some (n, useoff), _ =>
      mloop (exec st) (fun l s =>
        bind (ds_addr s i l (if useoff then off0 i else 0)) (fun ad =>
        if negb (in_lds lsz ad n) then None else wrk s l (i_dst i) (ds_words (lds s) ad n))) st
  | _, _, _, Some n =>
      mloop (exec st) (fun l s =>
        bind (ds_addr s i l (off0 i * n)) (fun ad0 =>
        bind (ds_addr s i l (off1 i * n)) (fun ad1 =>
        if negb (in_lds lsz ad0 n && in_lds lsz ad1 n) then None else
        wrk s l (i_dst i) (ds_words (lds s) ad0 n ++ ds_words (lds s) ad1 n)))) st
  | _, _, _, _ => None
  end.

(** * SMEM: s_load_dword(x2,x4,x8,x16) *)
Definition smem_cnt (op : Z) : option Z :=
  match op with 0 => Some 1 | 1 => Some 2 | 2 => Some 4 | 3 => Some 8 | 4 => Some 16 | _ => None end.
(** WriteOperandBytes of an SGPR operand: copy into the scalar register file *)
Definition wrs (s : state) (d : Z) (ws : list Z) : option state :=
  if (0 <=? d) && (d + Z.of_nat (length ws) <=? 102) then
    Some (s <| sgpr := fun j => if (d <=? j) && (j <? d + Z.of_nat (length ws))
                               then nth (Z.to_nat (j - d)) ws 0 else sgpr s j |>)
  else None.
Definition x_smem (st : state) (i : inst) : option state :=
  match smem_cnt (i_op i) with
  | None => None
  | Some k =>
      bind (if (0 <=? i_src0 i) && (i_src0 i <=? 100) then rd st (i_src0 i) 2 0 else None) (fun base =>
      bind (if i_src1 i =? 255 then Some (i_lit i)
            else if (0 <=? i_src1 i) && (i_src1 i <=? 101) then rd st (i_src1 i) 1 0 else None) (fun off =>
      let ad := u64 (base + off) - u64 (base + off) mod 4 in          (* (base+offset) &^ 3 *)
      wrs st (i_dst i) (map (fun j => ld4 (gmem st) (ad + 4 * Z.of_nat j)) (seq 0 (Z.to_nat k)))))
  end.

Definition exec_mem (a : arch) (lsz : Z) (st : state) (i : inst) : option state :=
  match i_fmt i with
  | F_SMEM => x_smem st i
  | F_FLAT => x_flat a st i
  | F_DS => x_ds a lsz st i
  | _ => None
  end.
