(** C04 — evaluation of recorded harness cases by the model (correspondence).
    Definitions only. *)
From Coq Require Import NArith ZArith List String Bool.
From VIsa Require Import InstTypes Decode Encode.
Import ListNotations.
Open Scope N_scope.

(** what the real insts.Disassembler.Decode did *)
Inductive expect :=
| XOk (fname iname : string) (flat : list Z)
| XErr
| XNotImpl
| XFault.

Inductive case :=
(** one Decode call on [bytes]; [d]: the description the bytes were produced
    from by the harness' own byte emitter (if any) *)
| CWord (cdna3 : bool) (bytes : list N) (d : option desc) (e : expect)
(** sequential decode of a shipped kernel given as dwords: number of decoded
    instructions and final status (see Decode.seq_decode) *)
| CKernel (cdna3 : bool) (ws : list N) (count status : N).

Fixpoint zlist_eqb (a b : list Z) : bool :=
  match a, b with
  | [], [] => true
  | x :: a', y :: b' => Z.eqb x y && zlist_eqb a' b'
  | _, _ => false
  end.
Fixpoint nlist_eqb (a b : list N) : bool :=
  match a, b with
  | [], [] => true
  | x :: a', y :: b' => N.eqb x y && nlist_eqb a' b'
  | _, _ => false
  end.

Definition outcome_matches (o : outcome) (e : expect) : bool :=
  match o, e with
  | Ok i n, XOk fn nm flat =>
      String.eqb (f_name (i_fmt i)) fn && String.eqb (r_name (i_row i)) nm
      && zlist_eqb (flat_inst i) flat && (n =? i_size i)
  | Err, XErr => true
  | NotImpl, XNotImpl => true
  | Fault, XFault => true
  | _, _ => false
  end.

Definition outcome_eqb (a b : outcome) : bool :=
  match a, b with
  | Ok i n, Ok j m => zlist_eqb (flat_inst i) (flat_inst j) && (n =? m)
                      && String.eqb (r_name (i_row i)) (r_name (i_row j))
  | Err, Err | NotImpl, NotImpl | Fault, Fault => true
  | _, _ => false
  end.

(** 0 = agreement; 1 = the model decodes differently from the implementation;
    2 = the Coq encoder and the harness' byte emitter disagree; 3 = the model
    does not decode the encoding of a well-formed description to the
    instruction it denotes (a sampled instance of C04.decode_encode);
    4 = sequential decode of a kernel differs *)
Definition check_case (c : case) : N :=
  match c with
  | CWord cdna3 bytes d e =>
      let o := decode cdna3 bytes in
      if negb (outcome_matches o e) then 1
      else match d with
           | None => 0
           | Some d =>
               let eb := encode d in
               if negb (nlist_eqb (firstn (List.length eb) bytes) eb) then 2
               else if wf d && wf_sdwa_s0_vgpr d then
                 (if outcome_eqb o (Ok (spec_inst cdna3 d) (dsize d)) then 0 else 3)
               else 0
           end
  | CKernel cdna3 ws count status =>
      let '(c', s') := seq_decode (S (List.length ws)) cdna3 ws 0 in
      if (c' =? count) && (s' =? status) then 0 else 4
  end.

Fixpoint mismatches_from (k : nat) (cs : list case) : list (nat * N) :=
  match cs with
  | [] => []
  | c :: r => let v := check_case c in
              if v =? 0 then mismatches_from (S k) r else (k, v) :: mismatches_from (S k) r
  end.
Definition mismatches (cs : list case) : list (nat * N) := mismatches_from 0 cs.

(** rows are named in case files by (format, opcode) *)
Definition row_of (t : fmt) (op : N) : row :=
  match lookup t op with Some r => r | None => mkRow "" op t 0 0 0 0 0 0 end.
