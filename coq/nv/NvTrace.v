(** Executable model of the accel-sim trace reader of the NVIDIA platform:
    nvidia/tracereader/reader.go (ReadTrace, readTraceHeader, readThreadblocks,
    goToNextlineWithPrefixIncludingNow, moveScannerToNextLine, extractInst,
    updateInstMemoryPart), trace.go (updateTraceHeaderParam) and
    nvidiaconfig/register.go (NewRegister).  Definitions only; the proofs are
    in NvTraceProofs.v.

    Level of detail.
    - The fields of an instruction line are modelled as the *character strings*
      that strings.Fields hands to the scanners.  The scanners themselves
      (fmt.Sscanf with the verbs x and d into int32/int64, strconv.Atoi, the
      register table lookup) are modelled character by character.
    - A file is a list of lines.  Lines are classified (header / blank / other /
      thread block / warp / insts / instruction); the prefix tests of the
      reader are evaluated on the class.  Assumption on the line type: the text
      of an [LOther] or [LInst] line does not start with "-", "thread block",
      "warp" or "insts", header keys and string values contain no "=", and
      tokens contain no white space.
    - A Go panic (index out of range, slice bounds, logrus Panic) is the parse
      result [None]. *)
From Coq Require Import List ZArith NArith String Ascii Bool.
From RecordUpdate Require Import RecordSet.
Import ListNotations RecordSetNotations.
Local Open Scope Z_scope.

(* ------------------------------------------------------------------ *)
(** * Characters, digit strings *)

(** value of a character as a digit: 0-9, a-f, A-F (the digit sets of fmt's
    scanner for the verbs d and x are exactly the characters whose value is
    below the base) *)
Definition digit_val (c : ascii) : option N :=
  let n := N_of_ascii c in
  if ((48 <=? n) && (n <=? 57))%N then Some (n - 48)%N
  else if ((97 <=? n) && (n <=? 102))%N then Some (n - 87)%N
  else if ((65 <=? n) && (n <=? 70))%N then Some (n - 55)%N
  else None.

(** lower-case digit character, as printed by %x / %d *)
Definition digit_char (d : N) : ascii :=
  ascii_of_N (if (d <? 10)%N then 48 + d else 87 + d)%N.

Fixpoint str_of_digits (ds : list N) : string :=
  match ds with
  | [] => EmptyString
  | d :: r => String (digit_char d) (str_of_digits r)
  end.

Definition eval_digits (base : N) (ds : list N) : N :=
  fold_left (fun a d => (a * base + d)%N) ds 0%N.

(** most significant digit first; [fuel] bounds the number of digits *)
Fixpoint digits_fuel (base : N) (fuel : nat) (n : N) : list N :=
  match fuel with
  | O => []
  | S f => if (n <? base)%N then [n]
           else digits_fuel base f (n / base)%N ++ [(n mod base)%N]
  end.

Definition digits (base : N) (n : N) : list N :=
  digits_fuel base (S (N.to_nat (N.log2 n))) n.

Definition numstr (base : N) (n : N) : string := str_of_digits (digits base n).

(** "%0<w>x" *)
Definition hexstr (w : nat) (n : N) : string :=
  str_of_digits (repeat 0%N (w - List.length (digits 16 n)) ++ digits 16 n).

(** "%d" *)
Definition decstr (z : Z) : string :=
  if z <? 0 then String "-"%char (numstr 10 (Z.to_N (- z))) else numstr 10 (Z.to_N z).

(** "0x%x" *)
Definition addrstr (a : Z) : string := String "0"%char (String "x"%char (numstr 16 (Z.to_N a))).

(** "R%d" *)
Definition regstr (r : Z) : string := String "R"%char (decstr r).

(* ------------------------------------------------------------------ *)
(** * The scanners *)

(** longest prefix of digits of the base, and the rest (ss.scanNumber) *)
Fixpoint span_digits (base : N) (s : string) : list N * string :=
  match s with
  | EmptyString => ([], EmptyString)
  | String c r =>
      match digit_val c with
      | Some d => if (d <? base)%N
                  then let (ds, r') := span_digits base r in (d :: ds, r')
                  else ([], s)
      | None => ([], s)
      end
  end.

(** one optional sign: (negative?, rest) *)
Definition strip_sign (s : string) : bool * string :=
  match s with
  | String c r => if Ascii.eqb c "-"%char then (true, r)
                  else if Ascii.eqb c "+"%char then (false, r) else (false, s)
  | EmptyString => (false, s)
  end.

Definition fits (bits : Z) (z : Z) : bool :=
  (- 2 ^ (bits - 1) <=? z) && (z <? 2 ^ (bits - 1)).

(** fmt's scanInt for the verbs d (base 10) and x (base 16) into an integer of
    [bits] bits: optional sign, at least one digit, stops at the first
    character that is no digit of the base (so "0x12" scans as 0 with rest
    "x12"), strconv.ParseInt range error beyond 64 bits, "integer overflow"
    beyond [bits].  Result: value and unread rest; [None] = scan error. *)
Definition scan_int (base : N) (bits : Z) (s : string) : option (Z * string) :=
  let (neg, r) := strip_sign s in
  let (ds, rest) := span_digits base r in
  match ds with
  | [] => None
  | _ :: _ =>
      let v := Z.of_N (eval_digits base ds) in
      let z := if neg then - v else v in
      if fits 64 z && fits bits z then Some (z, rest) else None
  end.

(** [fmt.Sscanf(tok, "%x" | "%d", &field)] with the error ignored and [field]
    holding its zero value before: a failed scan leaves 0. *)
Definition sscanf (base : N) (bits : Z) (s : string) : Z :=
  match scan_int base bits s with Some (z, _) => z | None => 0 end.

Definition clamp64 (z : Z) : Z :=
  if z <? - 2 ^ 63 then - 2 ^ 63 else if 2 ^ 63 <=? z then 2 ^ 63 - 1 else z.

(** [v, _ := strconv.Atoi(s)]: optional sign, then decimal digits only up to
    the end of the string; syntax error gives 0, range error gives the
    clamped value (the error is dropped by the caller). *)
Definition atoi (s : string) : Z :=
  let (neg, r) := strip_sign s in
  let (ds, rest) := span_digits 10 r in
  match ds, rest with
  | _ :: _, EmptyString =>
      let v := Z.of_N (eval_digits 10 ds) in clamp64 (if neg then - v else v)
  | _, _ => 0
  end.

(** parseHexAddress: an optional "0x" / "0X", then strconv.ParseUint(_, 16, 64):
    hexadecimal digits only up to the end of the token (no sign), at least
    one; a syntax or range error gives 0; the uint64 is converted to int64. *)
Definition strip_0x (s : string) : string :=
  match s with
  | String c (String d r) =>
      if Ascii.eqb c "0"%char && (Ascii.eqb d "x"%char || Ascii.eqb d "X"%char) then r else s
  | _ => s
  end.

Definition parse_addr (s : string) : Z :=
  let (ds, rest) := span_digits 16 (strip_0x s) in
  match ds, rest with
  | _ :: _, EmptyString =>
      let v := Z.of_N (eval_digits 16 ds) in
      if v <? 2 ^ 64 then (if v <? 2 ^ 63 then v else v - 2 ^ 64) else 0
  | _, _ => 0
  end.

(** Go conversion int -> int32 *)
Definition wrap32 (z : Z) : Z := (z + 2 ^ 31) mod 2 ^ 32 - 2 ^ 31.

(** nvidiaconfig.registerTable: "R0".."R254" and the zero register "R255"
    (regID; isZero is regID = 255, rawText is the key) *)
Definition reg_ids : list Z := map Z.of_nat (seq 0 256).
Definition reg_table : list (string * Z) := map (fun r => (regstr r, r)) reg_ids.

Fixpoint lookup (s : string) (t : list (string * Z)) : option Z :=
  match t with
  | [] => None
  | (k, v) :: r => if String.eqb s k then Some v else lookup s r
  end.

(** NewRegister: [None] = logrus Panic("Unknown register") *)
Definition new_register (s : string) : option Z := lookup s reg_table.

(* ------------------------------------------------------------------ *)
(** * The serialised structure *)

Definition dim3 : Type := Z * Z * Z.

(** the three address-compression forms of the format *)
Inductive maddr :=
| MList (addrs : list Z)                 (* 0: one address per active thread *)
| MStride (base stride : Z)              (* 1: base and stride *)
| MDelta (base : Z) (deltas : list Z).   (* 2: base and deltas *)

Record inst := mkInst {
  i_pc : Z;
  i_mask : Z;
  i_dests : list Z;               (* register numbers *)
  i_op : string;
  i_srcs : list Z;
  i_mem : option (Z * maddr);     (* width <> 0 and address info; None = width 0 *)
  i_imm : Z
}.

Record warp := mkWarp { w_id : Z; w_insts : list inst }.
Record tblock := mkBlock { b_id : dim3; b_warps : list warp }.

Record header := mkHeader {
  h_name : string; h_kid : Z; h_grid : dim3; h_block : dim3;
  h_shmem : Z; h_nregs : Z; h_binver : Z; h_stream : Z;
  h_shbase : Z; h_localbase : Z;
  h_nvbit : string; h_tracer : string; h_lineinfo : bool
}.
#[export] Instance eta_header : Settable _ := settable! mkHeader
  <h_name; h_kid; h_grid; h_block; h_shmem; h_nregs; h_binver; h_stream;
   h_shbase; h_localbase; h_nvbit; h_tracer; h_lineinfo>.

Record kernel := mkKernel { k_hdr : header; k_blocks : list tblock }.

(** what Go's zero-valued KernelFileHeader holds *)
Definition header0 : header :=
  mkHeader EmptyString 0 (0, 0, 0) (0, 0, 0) 0 0 0 0 0 0 EmptyString EmptyString false.

(* ------------------------------------------------------------------ *)
(** * Printing an instruction line (the list of its fields) *)

Definition mem_toks (m : option (Z * maddr)) : list string :=
  match m with
  | None => [decstr 0]
  | Some (w, MList addrs) => [decstr w; decstr 0] ++ map addrstr addrs
  | Some (w, MStride b s) => [decstr w; decstr 1; addrstr b; decstr s]
  | Some (w, MDelta b ds) => [decstr w; decstr 2; addrstr b] ++ map decstr ds
  end.

(** PC mask dest_num [dests] opcode src_num [srcs] mem_width [compress base ...] immediate *)
Definition print_inst (i : inst) : list string :=
  [hexstr 4 (Z.to_N (i_pc i)); hexstr 8 (Z.to_N (i_mask i));
   decstr (Z.of_nat (List.length (i_dests i)))]
  ++ map regstr (i_dests i)
  ++ [i_op i; decstr (Z.of_nat (List.length (i_srcs i)))]
  ++ map regstr (i_srcs i)
  ++ mem_toks (i_mem i)
  ++ [decstr (i_imm i)].

(* ------------------------------------------------------------------ *)
(** * Parsing an instruction line: extractInst / updateInstMemoryPart *)

(** tracereader.Instruction, field by field.  Registers are represented by
    their regID. *)
Record pinst := mkP {
  p_tb : dim3;              (* threadblockID *)
  p_warp : Z;               (* warpID *)
  p_pc : Z;                 (* PC int32 *)
  p_mask : Z;               (* Mask int64 *)
  p_destnum : Z;            (* DestNum int32 *)
  p_dests : list Z;         (* DestRegs *)
  p_op : option string;     (* OpCode *Opcode: nil = None, else its String() *)
  p_srcnum : Z;             (* SrcNum int32 *)
  p_srcs : list Z;          (* SrcRegs *)
  p_memwidth : Z;           (* MemWidth int32 *)
  p_compress : Z;           (* AddressCompress int32 *)
  p_memaddr : Z;            (* MemAddress int64 *)
  p_addrs : list Z;         (* MemAddresses []int64 *)
  p_suffix1 : Z;            (* MemAddressSuffix1 int32 *)
  p_suffix2 : list Z;       (* MemAddressSuffix2 []int32 *)
  p_imm : Z                 (* Immediate int64 *)
}.

Definition zlen {A} (l : list A) : Z := Z.of_nat (List.length l).

(** elems[i]; [None] = index out of range *)
Definition nthz {A} (l : list A) (i : Z) : option A :=
  if (0 <=? i) && (i <? zlen l) then nth_error l (Z.to_nat i) else None.

(** elems[i:]; [None] = slice bounds out of range *)
Definition dropz {A} (l : list A) (i : Z) : option (list A) :=
  if (0 <=? i) && (i <=? zlen l) then Some (skipn (Z.to_nat i) l) else None.

Fixpoint mapM {A B} (f : A -> option B) (l : list A) : option (list B) :=
  match l with
  | [] => Some []
  | a :: r => match f a with
              | None => None
              | Some b => match mapM f r with None => None | Some bs => Some (b :: bs) end
              end
  end.

(** for k := 0; k < cnt; k++ { regs = append(regs, NewRegister(elems[start+k])) }.
    Every index start..start+cnt-1 is read unless an earlier step panics, so
    the loop panics as soon as one of them is out of range or one of the
    tokens is not in the table. *)
Definition scan_regs (elems : list string) (start cnt : Z) : option (list Z) :=
  if cnt <=? 0 then Some []
  else if (0 <=? start) && (start + cnt <=? zlen elems)
       then mapM new_register (firstn (Z.to_nat cnt) (skipn (Z.to_nat start) elems))
       else None.

(** memory part of the record: MemWidth AddressCompress MemAddress MemAddresses
    Suffix1 Suffix2 Immediate *)
Definition mempart : Type := Z * Z * Z * list Z * Z * list Z * Z.

Definition parse_mem (elems : list string) : option mempart :=
  match nthz elems 0 with
  | None => None
  | Some m0 =>
      let w := sscanf 10 32 m0 in
      let imm := atoi (last elems EmptyString) in
      if w =? 0 then Some (w, 0, 0, [], 0, [], imm)
      else
        match nthz elems 1 with
        | None => None
        | Some m1 =>
            let c := sscanf 10 32 m1 in
            if c =? 0 then
              (* elems[2 : len(elems)-1] *)
              if 2 <=? zlen elems - 1
              then let addrs := map parse_addr
                                    (firstn (List.length elems - 1 - 2) (skipn 2 elems)) in
                   Some (w, c, hd 0 addrs, addrs, 0, [], imm)
              else None
            else
              match nthz elems 2 with
              | None => None
              | Some m2 =>
                  let a := parse_addr m2 in
                  if c =? 1 then
                    match nthz elems 3 with
                    | Some m3 => Some (w, c, a, [], sscanf 10 32 m3, [], imm)
                    | None => None
                    end
                  else if c =? 2 then
                    (* elems[3 : len(elems)-1] *)
                    if 3 <=? zlen elems - 1
                    then Some (w, c, a, [], 0,
                               map (fun s => wrap32 (atoi s))
                                   (firstn (List.length elems - 1 - 3) (skipn 3 elems)), imm)
                    else None
                  else Some (w, c, a, [], 0, [], imm)
              end
        end
  end.

Definition parse_inst (elems : list string) : option pinst :=
  match nthz elems 0, nthz elems 1, nthz elems 2 with
  | Some e0, Some e1, Some e2 =>
      let pc := sscanf 16 32 e0 in
      let mask := sscanf 16 64 e1 in
      let dn := sscanf 10 32 e2 in
      match scan_regs elems 3 dn with
      | None => None
      | Some dests =>
          (* NewOpcode never panics; OpCode.String() is the token *)
          match nthz elems (3 + dn), nthz elems (4 + dn) with
          | Some op, Some es =>
              let sn := sscanf 10 32 es in
              match scan_regs elems (4 + dn + 1) sn with
              | None => None
              | Some srcs =>
                  match dropz elems (5 + dn + sn) with
                  | None => None
                  | Some rest =>
                      match parse_mem rest with
                      | None => None
                      | Some (w, c, a, addrs, s1, s2, imm) =>
                          Some (mkP (0, 0, 0) 0 pc mask dn dests (Some op) sn srcs
                                    w c a addrs s1 s2 imm)
                      end
                  end
              end
          | _, _ => None
          end
      end
  | _, _, _ => None
  end.

(* ------------------------------------------------------------------ *)
(** * Lines of a trace file *)

(** value of a header line, by the way it is printed *)
Inductive hval :=
| HStr (s : string)        (* %s *)
| HInt (z : Z)             (* %d *)
| HDim (x y z : Z)         (* (%d,%d,%d) *)
| HAddr (a : Z).           (* 0x%016x *)

Inductive line :=
| LHeader (key : list string) (v : hval)  (* "-" key words " = " value *)
| LBlank
| LOther (toks : list string)             (* "#traces format ...", "#BEGIN_TB", "#END_TB" *)
| LTb (x y z : Z)                         (* "thread block = x,y,z" *)
| LWarp (n : Z)                           (* "warp = n" *)
| LInsts (n : Z)                          (* "insts = n" *)
| LInst (toks : list string).

Definition sapp := String.append.

(** text of the value after strings.TrimSpace *)
Definition hval_str (v : hval) : string :=
  match v with
  | HStr s => s
  | HInt z => decstr z
  | HDim x y z =>
      String "("%char (sapp (decstr x) (String ","%char (sapp (decstr y)
        (String ","%char (sapp (decstr z) (String ")"%char EmptyString))))))
  | HAddr a => String "0"%char (String "x"%char (hexstr 16 (Z.to_N a)))
  end.

(** strings.Fields of the text of a line (what extractInst sees when the
    instruction loop lands on it) *)
Definition line_toks (l : line) : list string :=
  match l with
  | LHeader key v =>
      match key with
      | [] => [String "-"%char EmptyString]
      | k0 :: kr => String "-"%char k0 :: kr
      end ++ [String "="%char EmptyString; hval_str v]
  | LBlank => []
  | LOther toks => toks
  | LTb x y z =>
      ["thread"; "block"; "=";
       sapp (decstr x) (String ","%char (sapp (decstr y) (String ","%char (decstr z))))]%string
  | LWarp n => ["warp"; "="; decstr n]%string
  | LInsts n => ["insts"; "="; decstr n]%string
  | LInst toks => toks
  end.

(** kernelScanner.Text() == "" *)
Definition is_blank (l : line) : bool :=
  match l with
  | LBlank | LOther [] | LInst [] => true
  | _ => false
  end.

Definition is_tb (l : line) : bool := match l with LTb _ _ _ => true | _ => false end.
Definition is_warp (l : line) : bool := match l with LWarp _ => true | _ => false end.
Definition is_insts (l : line) : bool := match l with LInsts _ => true | _ => false end.

(* ------------------------------------------------------------------ *)
(** * Printing a kernel *)

Definition key_name := ["kernel"; "name"]%string.
Definition key_kid := ["kernel"; "id"]%string.
Definition key_grid := ["grid"; "dim"]%string.
Definition key_block := ["block"; "dim"]%string.
Definition key_shmem := ["shmem"]%string.
Definition key_nregs := ["nregs"]%string.
Definition key_binver := ["binary"; "version"]%string.
Definition key_stream := ["cuda"; "stream"; "id"]%string.
Definition key_shbase := ["shmem"; "base_addr"]%string.
Definition key_localbase := ["local"; "mem"; "base_addr"]%string.
Definition key_nvbit := ["nvbit"; "version"]%string.
Definition key_tracer := ["accelsim"; "tracer"; "version"]%string.
Definition key_lineinfo := ["enable"; "lineinfo"]%string.

Definition hdim (d : dim3) : hval := let '(x, y, z) := d in HDim x y z.

Definition print_header (h : header) : list line :=
  [LHeader key_name (HStr (h_name h));
   LHeader key_kid (HInt (h_kid h));
   LHeader key_grid (hdim (h_grid h));
   LHeader key_block (hdim (h_block h));
   LHeader key_shmem (HInt (h_shmem h));
   LHeader key_nregs (HInt (h_nregs h));
   LHeader key_binver (HInt (h_binver h));
   LHeader key_stream (HInt (h_stream h));
   LHeader key_shbase (HAddr (h_shbase h));
   LHeader key_localbase (HAddr (h_localbase h));
   LHeader key_nvbit (HStr (h_nvbit h));
   LHeader key_tracer (HStr (h_tracer h));
   LHeader key_lineinfo (HInt (if h_lineinfo h then 1 else 0))].

Definition format_line : line :=
  LOther ["#traces"; "format"; "="; "[line_num]"; "PC"; "mask"; "dest_num"; "[reg_dests]";
          "opcode"; "src_num"; "[reg_srcs]"; "mem_width"; "[adrrescompress?]";
          "[mem_addresses]"; "immediate"]%string.
Definition begin_tb : line := LOther ["#BEGIN_TB"%string].
Definition end_tb : line := LOther ["#END_TB"%string].

Definition print_warp (w : warp) : list line :=
  [LWarp (w_id w); LInsts (zlen (w_insts w))]
  ++ map (fun i => LInst (print_inst i)) (w_insts w)
  ++ [LBlank].

Definition print_block (b : tblock) : list line :=
  let '(x, y, z) := b_id b in
  [begin_tb; LBlank; LTb x y z; LBlank]
  ++ List.concat (map print_warp (b_warps b))
  ++ [end_tb; LBlank].

Definition print_blocks (bs : list tblock) : list line := List.concat (map print_block bs).

(** layout of nvidia/data/simple-trace-example/kernel-1.traceg *)
Definition print_kernel (k : kernel) : list line :=
  print_header (k_hdr k)
  ++ [LBlank; format_line; LBlank; LBlank; LBlank]
  ++ print_blocks (k_blocks k).

(* ------------------------------------------------------------------ *)
(** * Parsing a kernel file: the scanner state machine *)

(** scanner state: kernelScanner.Text() and the lines not yet scanned.
    Before the first Scan and after a failed Scan the text is "". *)
Definition sstate : Type := line * list line.

(** moveScannerToNextLine on the unread lines: the first non-blank line *)
Fixpoint next_nonblank (rest : list line) : option sstate :=
  match rest with
  | [] => None
  | l :: r => if is_blank l then next_nonblank r else Some (l, r)
  end.

Definition eof : sstate := (LBlank, []).

Definition move_next (st : sstate) : bool * sstate :=
  match next_nonblank (snd st) with
  | Some st' => (true, st')
  | None => (false, eof)
  end.

(** the loop of goToNextlineWithPrefixIncludingNow *)
Fixpoint seek (pfx : line -> bool) (rest : list line) : option sstate :=
  match rest with
  | [] => None
  | l :: r => if is_blank l then seek pfx r
              else if pfx l then Some (l, r) else seek pfx r
  end.

Definition goto_prefix (pfx : line -> bool) (st : sstate) : bool * sstate :=
  if pfx (fst st) then (true, st)
  else match seek pfx (snd st) with
       | Some st' => (true, st')
       | None => (false, eof)
       end.

(** fmt.Sscanf(value, "(%d,%d,%d)", ...) with the error checked: all three
    numbers and the closing parenthesis must be there (white space inside the
    value is not modelled) *)
Definition expect (c : ascii) (s : string) : option string :=
  match s with
  | String c' r => if Ascii.eqb c c' then Some r else None
  | EmptyString => None
  end.

Definition scan_dim3 (s : string) : option dim3 :=
  match expect "("%char s with None => None | Some r0 =>
  match scan_int 10 32 r0 with None => None | Some (x, r1) =>
  match expect ","%char r1 with None => None | Some r2 =>
  match scan_int 10 32 r2 with None => None | Some (y, r3) =>
  match expect ","%char r3 with None => None | Some r4 =>
  match scan_int 10 32 r4 with None => None | Some (z, r5) =>
  match expect ")"%char r5 with None => None | Some _ => Some (x, y, z)
  end end end end end end end.

Definition is_char (cs : list ascii) (c : ascii) : bool := existsb (Ascii.eqb c) cs.

(** fmt.Sscanf(value, "%v", &int64) with the error checked: optional sign,
    base prefix 0x / 0b / 0o / 0 (octal), strconv.ParseInt(tok, 0, 64).
    Underscore digit separators are not modelled. *)
Definition scan_v64 (s : string) : option Z :=
  let (neg, r) := strip_sign s in
  let fin (base : N) (need : bool) (t : string) : option Z :=
    let (ds, _) := span_digits base t in
    match ds, need with
    | [], true => None
    | _, _ => let v := Z.of_N (eval_digits base ds) in
              let z := if neg then - v else v in
              if fits 64 z then Some z else None
    end in
  match r with
  | String c r1 =>
      if Ascii.eqb c "0"%char then
        match r1 with
        | String c1 r2 =>
            if is_char ["x"; "X"]%char c1 then fin 16%N true r2
            else if is_char ["b"; "B"]%char c1 then fin 2%N true r2
            else if is_char ["o"; "O"]%char c1 then fin 8%N true r2
            else fin 8%N false r1
        | EmptyString => Some 0
        end
      else fin 10%N true r
  | EmptyString => None
  end.

Definition key_text (key : list string) : string := String.concat " "%string key.

Definition header_keys : list (list string) :=
  [key_name; key_kid; key_grid; key_block; key_shmem; key_nregs; key_binver; key_stream;
   key_shbase; key_localbase; key_nvbit; key_tracer; key_lineinfo].

Fixpoint index_of (s : string) (l : list string) (i : nat) : option nat :=
  match l with
  | [] => None
  | k :: r => if String.eqb s k then Some i else index_of s r (S i)
  end.

(** which case of the switch in updateTraceHeaderParam a key selects *)
Definition key_index (key : list string) : option nat :=
  index_of (key_text key) (map key_text header_keys) 0.

(** updateTraceHeaderParam; [None] = Panic (unknown key or scan error) *)
Definition update_header (key : list string) (v : hval) (h : header) : option header :=
  let s := hval_str v in
  let d32 (f : Z -> header) : option header :=
    match scan_int 10 32 s with Some (z, _) => Some (f z) | None => None end in
  let d3 (f : dim3 -> header) : option header :=
    match scan_dim3 s with Some d => Some (f d) | None => None end in
  let v64 (f : Z -> header) : option header :=
    match scan_v64 s with Some z => Some (f z) | None => None end in
  match key_index key with
  | Some 0%nat => Some (h <| h_name := s |>)
  | Some 1%nat => d32 (fun z => h <| h_kid := z |>)
  | Some 2%nat => d3 (fun d => h <| h_grid := d |>)
  | Some 3%nat => d3 (fun d => h <| h_block := d |>)
  | Some 4%nat => d32 (fun z => h <| h_shmem := z |>)
  | Some 5%nat => d32 (fun z => h <| h_nregs := z |>)
  | Some 6%nat => d32 (fun z => h <| h_binver := z |>)
  | Some 7%nat => d32 (fun z => h <| h_stream := z |>)
  | Some 8%nat => v64 (fun z => h <| h_shbase := z |>)
  | Some 9%nat => v64 (fun z => h <| h_localbase := z |>)
  | Some 10%nat => Some (h <| h_nvbit := s |>)
  | Some 11%nat => Some (h <| h_tracer := s |>)
  | Some 12%nat => Some (h <| h_lineinfo := String.eqb s "1"%string |>)
  | _ => None
  end.

(** readTraceHeader: header lines up to the first non-blank line that is no
    header line; that line stays the scanner's current text *)
Fixpoint read_header (rest : list line) (h : header) : option (header * sstate) :=
  match rest with
  | [] => Some (h, eof)
  | l :: r =>
      if is_blank l then read_header r h
      else match l with
           | LHeader key v =>
               match update_header key v h with
               | None => None
               | Some h' => read_header r h'
               end
           | _ => Some (h, (l, r))
           end
  end.

(** Sscanf into an int32 that held 0 *)
Definition into32 (z : Z) : Z := if fits 32 z then z else 0.

(** fmt.Sscanf(text, "thread block = %d,%d,%d", ...): stops at the first number
    that does not fit *)
Definition tb_id (l : line) : dim3 :=
  match l with
  | LTb x y z =>
      if fits 32 x then
        if fits 32 y then
          if fits 32 z then (x, y, z) else (x, y, 0)
        else (x, 0, 0)
      else (0, 0, 0)
  | _ => (0, 0, 0)
  end.

Definition warp_id (l : line) : Z := match l with LWarp n => into32 n | _ => 0 end.
Definition insts_count (l : line) : Z := match l with LInsts n => into32 n | _ => 0 end.

Definition pwarp : Type := Z * Z * list pinst.     (* id, InstsCount, Instructions *)
Definition pblock : Type := dim3 * list pwarp.     (* id, Warps *)

Definition stamp (tb : dim3) (wid : Z) (p : pinst) : pinst :=
  mkP tb wid (p_pc p) (p_mask p) (p_destnum p) (p_dests p) (p_op p) (p_srcnum p) (p_srcs p)
      (p_memwidth p) (p_compress p) (p_memaddr p) (p_addrs p) (p_suffix1 p) (p_suffix2 p) (p_imm p).

(** for j := 0; j < InstsCount; j++ { if !moveScannerToNextLine() { Panic };
    extractInst(Text()) }.  Every iteration scans a line or panics, so
    [fuel] = 1 + number of unread lines is never exhausted before a panic. *)
Fixpoint read_insts (fuel : nat) (cnt : Z) (tb : dim3) (wid : Z) (st : sstate)
  : option (list pinst * sstate) :=
  if cnt <=? 0 then Some ([], st)
  else match fuel with
       | O => None
       | S f =>
           let (ok, st') := move_next st in
           if negb ok then None      (* Panic("Cannot find instruction line") *)
           else
             match parse_inst (line_toks (fst st')) with
             | None => None
             | Some p =>
                 match read_insts f (cnt - 1) tb wid st' with
                 | None => None
                 | Some (ps, st'') => Some (stamp tb wid p :: ps, st'')
                 end
             end
       end.

(** the inner loop of readThreadblocks (one thread block) *)
Fixpoint read_warps (fuel : nat) (tb : dim3) (st : sstate) : option (list pwarp * sstate) :=
  match fuel with
  | O => Some ([], st)
  | S f =>
      let (ok, st1) := move_next st in
      if negb ok then Some ([], st1)
      else if is_warp (fst st1) then
        let wid := warp_id (fst st1) in
        let (found, st2) := goto_prefix is_insts st1 in
        if negb found then None       (* Panic("Cannot find insts line") *)
        else
          let cnt := insts_count (fst st2) in
          match read_insts (S (List.length (snd st2))) cnt tb wid st2 with
          | None => None
          | Some (ps, st3) =>
              match read_warps f tb st3 with
              | None => None
              | Some (ws, st4) => Some ((wid, cnt, ps) :: ws, st4)
              end
          end
      else Some ([], st1)
  end.

(** the outer loop of readThreadblocks *)
Fixpoint read_blocks (fuel : nat) (st : sstate) : option (list pblock) :=
  match fuel with
  | O => Some []
  | S f =>
      let (found, st1) := goto_prefix is_tb st in
      if negb found then Some []
      else
        let id := tb_id (fst st1) in
        match read_warps (S (List.length (snd st1))) id st1 with
        | None => None
        | Some (ws, st2) =>
            match read_blocks f st2 with
            | None => None
            | Some bs => Some ((id, ws) :: bs)
            end
        end
  end.

(** ReadTrace on the lines of the kernel file.  Every iteration of the two
    outer loops scans at least one line or ends the loop, so a fuel of
    2 + number of lines is never exhausted. *)
Definition parse_kernel (ls : list line) : option (header * list pblock) :=
  match read_header ls header0 with
  | None => None
  | Some (h, st) =>
      match read_blocks (S (S (List.length ls))) st with
      | None => None
      | Some bs => Some (h, bs)
      end
  end.

(** A trace directory: kernelslist.g names kernel files (Memcpy entries carry no
    file); benchmark.BenchmarkBuilder calls ReadTrace on each of them in turn.
    ReadTrace keeps nothing between calls (its only package-level variable, the
    scanner, is re-created from the file at the start of every call), so the
    result for a directory is the reader applied to each file on its own. *)
Definition parse_dir (files : list (list line)) : list (option (header * list pblock)) :=
  map parse_kernel files.

(* ------------------------------------------------------------------ *)
(** * Checker for the correspondence harness *)

Fixpoint list_eqb {A} (eq : A -> A -> bool) (a b : list A) : bool :=
  match a, b with
  | [], [] => true
  | x :: a', y :: b' => eq x y && list_eqb eq a' b'
  | _, _ => false
  end.

Definition dim3_eqb (a b : dim3) : bool :=
  let '(a1, a2, a3) := a in let '(b1, b2, b3) := b in
  (a1 =? b1) && (a2 =? b2) && (a3 =? b3).

Definition opt_str_eqb (a b : option string) : bool :=
  match a, b with
  | None, None => true
  | Some x, Some y => String.eqb x y
  | _, _ => false
  end.

(** number (1-based) of the first field in which two records differ, 0 if none *)
Definition pinst_diff (a b : pinst) : Z :=
  if negb (dim3_eqb (p_tb a) (p_tb b)) then 1
  else if negb (p_warp a =? p_warp b) then 2
  else if negb (p_pc a =? p_pc b) then 3
  else if negb (p_mask a =? p_mask b) then 4
  else if negb (p_destnum a =? p_destnum b) then 5
  else if negb (list_eqb Z.eqb (p_dests a) (p_dests b)) then 6
  else if negb (opt_str_eqb (p_op a) (p_op b)) then 7
  else if negb (p_srcnum a =? p_srcnum b) then 8
  else if negb (list_eqb Z.eqb (p_srcs a) (p_srcs b)) then 9
  else if negb (p_memwidth a =? p_memwidth b) then 10
  else if negb (p_compress a =? p_compress b) then 11
  else if negb (p_memaddr a =? p_memaddr b) then 12
  else if negb (list_eqb Z.eqb (p_addrs a) (p_addrs b)) then 13
  else if negb (p_suffix1 a =? p_suffix1 b) then 14
  else if negb (list_eqb Z.eqb (p_suffix2 a) (p_suffix2 b)) then 15
  else if negb (p_imm a =? p_imm b) then 16
  else 0.

Definition pinst_eqb (a b : pinst) : bool := pinst_diff a b =? 0.

Definition header_eqb (a b : header) : bool :=
  String.eqb (h_name a) (h_name b) && (h_kid a =? h_kid b)
  && dim3_eqb (h_grid a) (h_grid b) && dim3_eqb (h_block a) (h_block b)
  && (h_shmem a =? h_shmem b) && (h_nregs a =? h_nregs b)
  && (h_binver a =? h_binver b) && (h_stream a =? h_stream b)
  && (h_shbase a =? h_shbase b) && (h_localbase a =? h_localbase b)
  && String.eqb (h_nvbit a) (h_nvbit b) && String.eqb (h_tracer a) (h_tracer b)
  && Bool.eqb (h_lineinfo a) (h_lineinfo b).

Fixpoint first_inst_diff (a b : list pinst) : Z :=
  match a, b with
  | [], [] => 0
  | x :: a', y :: b' => let d := pinst_diff x y in
                        if d =? 0 then first_inst_diff a' b' else d
  | _, _ => 17
  end.

Definition pwarp_skel (w : pwarp) : Z * Z * Z := let '(id, c, ps) := w in (id, c, zlen ps).
Definition skel3_eqb (a b : Z * Z * Z) : bool := dim3_eqb a b.

Definition pblock_skel_eqb (a b : pblock) : bool :=
  dim3_eqb (fst a) (fst b) && list_eqb skel3_eqb (map pwarp_skel (snd a)) (map pwarp_skel (snd b)).

Definition all_insts (bs : list pblock) : list pinst :=
  List.concat (map (fun b : pblock => List.concat (map (fun w : pwarp => snd w) (snd b))) bs).

(** what the real reader did *)
Inductive obs :=
| OCrash
| OParsed (h : header) (bs : list pblock).

(** a case: a kernel structure (the file is [print_kernel] of it) or an
    arbitrary list of lines, and the observation *)
Inductive case :=
| CK (k : kernel) (o : obs)
| CL (ls : list line) (o : obs).

Definition case_lines (c : case) : list line :=
  match c with CK k _ => print_kernel k | CL ls _ => ls end.
Definition case_obs (c : case) : obs := match c with CK _ o => o | CL _ o => o end.

(** 0 = model and reader agree; 1 = only one of them crashed; 2 = header;
    3 = thread-block / warp skeleton; 100 + f = field f of some instruction *)
Definition check_case (c : case) : Z :=
  match parse_kernel (case_lines c), case_obs c with
  | None, OCrash => 0
  | None, OParsed _ _ => 1
  | Some _, OCrash => 1
  | Some (h, bs), OParsed h' bs' =>
      if negb (header_eqb h h') then 2
      else if negb (list_eqb pblock_skel_eqb bs bs') then 3
      else let d := first_inst_diff (all_insts bs) (all_insts bs') in
           if d =? 0 then 0 else 100 + d
  end.

Fixpoint mismatches_from (i : Z) (cs : list case) : list (Z * Z) :=
  match cs with
  | [] => []
  | c :: r => let d := check_case c in
              if d =? 0 then mismatches_from (i + 1) r
              else (i, d) :: mismatches_from (i + 1) r
  end.

(** positions (0-based) of the cases on which model and reader differ, with
    the detail code of [check_case] *)
Definition trace_mismatches (cs : list case) : list (Z * Z) := mismatches_from 0 cs.

(** short constructors for generated case files *)
Definition I := mkInst.
Definition P := mkP.
Definition W := mkWarp.
Definition B := mkBlock.
Definition H := mkHeader.
Definition K := mkKernel.
