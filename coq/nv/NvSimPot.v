(** Potential of work items and of nodes; a tick either changes nothing or
    lowers the potential of its node (case analysis of the Go Tick functions). *)
From Coq Require Import List NArith ZArith Bool Arith Lia.
From VNv Require Import NvSim NvSimProofs NvSimWake.
Import ListNotations.
Open Scope Z_scope.

(** * potential of a work item: the number of steps it can still cause *)
Fixpoint pot (x : item) : Z :=
  match x with
  | Item n sub => Z.of_N n + 6 + (fix go (l : list item) : Z :=
                                    match l with [] => 0 | y :: r => pot y + go r end) sub
  end.
Fixpoint sumz {A} (f : A -> Z) (l : list A) : Z :=
  match l with [] => 0 | x :: r => f x + sumz f r end.
Lemma pot_eq n sub : pot (Item n sub) = Z.of_N n + 6 + sumz pot sub.
Proof. simpl. f_equal. induction sub; simpl; auto. rewrite IHsub; auto. Qed.
Lemma sumz_app {A} (f : A -> Z) a b : sumz f (a ++ b) = sumz f a + sumz f b.
Proof. induction a; simpl; auto. rewrite IHa; lia. Qed.

Lemma pot_ge : forall x, 6 <= pot x.
Proof.
  fix F 1. intros [n sub]. rewrite pot_eq.
  assert (0 <= sumz pot sub).
  { induction sub as [|y r IH]; simpl; [lia|]. pose proof (F y). lia. }
  lia.
Qed.

Lemma sumz_pot_nonneg l : 0 <= sumz pot l.
Proof. induction l; simpl; [lia|]. pose proof (pot_ge a). lia. Qed.

Lemma pot_isub it : pot it = Z.of_N (icount it) + 6 + sumz pot (isub it).
Proof. destruct it. apply pot_eq. Qed.

Definition zlen {A} (l : list A) : Z := Z.of_nat (length l).

(** potential of a node *)
Definition phi (k : kind) (n : node) : Z :=
  sumz pot (undisp n) + sumz (fun x => pot (snd x) - 1) (dn_out n) + sumz (fun x => pot x - 2) (up_in n)
  + 3 * Z.max 0 (fin n) + 3 * Z.min 1 (Z.max 0 (unfin n))
  + (match k with KSub => Z.max 0 (unfin n) | _ => 0 end)
  + 2 * zlen (up_out n) + zlen (dn_in n).

Lemma zlen_cons {A} (x : A) l : zlen (x :: l) = 1 + zlen l.
Proof. unfold zlen. simpl length. lia. Qed.
Lemma zlen_app {A} (a b : list A) : zlen (a ++ b) = zlen a + zlen b.
Proof. unfold zlen. rewrite app_length. lia. Qed.
Lemma zlen_nil {A} : zlen (@nil A) = 0.
Proof. reflexivity. Qed.
Lemma sumz_cons {A} (f : A -> Z) x l : sumz f (x :: l) = f x + sumz f l.
Proof. reflexivity. Qed.
Lemma sumz_nil {A} (f : A -> Z) : sumz f [] = 0.
Proof. reflexivity. Qed.

Ltac pot_norm :=
  unfold phi; cbn [undisp unfin fin free total rlog up_in up_out dn_in dn_out];
  repeat match goal with
         | E : _ = [] |- _ => rewrite E in *
         | E : _ = _ :: _ |- _ => rewrite E in *
         end;
  repeat first [ rewrite <- app_comm_cons | rewrite sumz_app | rewrite zlen_app | rewrite sumz_cons
               | rewrite zlen_cons | rewrite sumz_nil ]; cbn [snd fst];
  change (zlen (@nil nat)) with 0 in *; change (zlen (@nil item)) with 0 in *;
  change (zlen (@nil (nat * item))) with 0 in *;
  repeat match goal with
         | H : (_ =? _) = true |- _ => apply Z.eqb_eq in H
         | H : (_ =? _) = false |- _ => apply Z.eqb_neq in H
         end.

Lemma tick_pot k u n n' pr e :
  tick_node true k u n = (n', pr, e) -> 0 <= fin n -> 0 <= unfin n ->
  (n' = n /\ pr = false /\ e = eff0) \/ phi k n' + 1 <= phi k n.
Proof.
  intros H Hf Hu. destruct k; simpl in H;
    unfold tick_driver, tick_mid, tick_sub, op_seq, op_report, op_dispatch, op_recv_mid, op_recv_leaf,
      op_done, op_run in H; simpl in H; split_tick H;
    first [ left; repeat split; reflexivity
          | right; pot_norm;
            repeat match goal with
                   | i : item |- _ =>
                       lazymatch goal with
                       | _ : pot i = _ |- _ => fail
                       | _ => pose proof (pot_isub i); pose proof (N2Z.is_nonneg (icount i));
                              pose proof (sumz_pot_nonneg (isub i))
                       end
                   end;
            lia ].
Qed.

