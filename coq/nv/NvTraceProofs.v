(** Proofs about the trace reader model VNv.NvTrace: parsing a printed
    instruction line / kernel file returns exactly the serialised structure
    (round trip and injectivity of parse o print), for the reader as repaired
    in the worktree: addresses with 0x prefix, opcode kept, uncompressed
    address lists kept, registers R0..R255. *)
From Coq Require Import List ZArith NArith String Ascii Bool Lia.
From VNv Require Import NvTrace.
Import ListNotations.
Local Open Scope Z_scope.

(* ------------------------------------------------------------------ *)
(** * Digit strings *)

Lemma lt16_cases (d : N) : (d < 16)%N ->
  In d [0;1;2;3;4;5;6;7;8;9;10;11;12;13;14;15]%N.
Proof.
  intros H. simpl.
  assert (d = 0 \/ d = 1 \/ d = 2 \/ d = 3 \/ d = 4 \/ d = 5 \/ d = 6 \/ d = 7 \/ d = 8 \/
          d = 9 \/ d = 10 \/ d = 11 \/ d = 12 \/ d = 13 \/ d = 14 \/ d = 15)%N by lia.
  intuition auto.
Qed.

Lemma digit_val_char (d : N) : (d < 16)%N -> digit_val (digit_char d) = Some d.
Proof.
  intros H. apply lt16_cases in H. simpl in H.
  repeat (destruct H as [H | H]; [subst d; reflexivity |]). contradiction.
Qed.

Lemma digit_char_not_sign (d : N) : (d < 16)%N ->
  Ascii.eqb (digit_char d) "-" = false /\ Ascii.eqb (digit_char d) "+" = false.
Proof.
  intros H. apply lt16_cases in H. simpl in H.
  repeat (destruct H as [H | H]; [subst d; split; reflexivity |]). contradiction.
Qed.

Lemma eval_digits_app base l d :
  eval_digits base (l ++ [d]) = (eval_digits base l * base + d)%N.
Proof. unfold eval_digits. rewrite fold_left_app. reflexivity. Qed.

Lemma eval_digits_cons0 base l : eval_digits base (0%N :: l) = eval_digits base l.
Proof. reflexivity. Qed.

Lemma eval_digits_zeros base k l : eval_digits base (repeat 0%N k ++ l) = eval_digits base l.
Proof. induction k; simpl; auto. Qed.

Lemma digits_fuel_eval base : (2 <= base)%N -> forall fuel n,
  (n < 2 ^ N.of_nat fuel)%N -> eval_digits base (digits_fuel base fuel n) = n.
Proof.
  intros Hb. induction fuel as [|f IH]; intros n Hn.
  - simpl in Hn. assert (n = 0)%N by lia. subst. reflexivity.
  - simpl. destruct (n <? base)%N eqn:E.
    + unfold eval_digits. simpl. lia.
    + apply N.ltb_ge in E. rewrite eval_digits_app. rewrite IH.
      * rewrite N.mul_comm. symmetry. apply N.div_mod. lia.
      * rewrite Nat2N.inj_succ, N.pow_succ_r' in Hn.
        apply N.div_lt_upper_bound; [lia|].
        eapply N.lt_le_trans; [exact Hn|].
        apply N.mul_le_mono_r. exact Hb.
Qed.

Lemma digits_fuel_lt base : (0 < base)%N -> forall fuel n,
  Forall (fun d => (d < base)%N) (digits_fuel base fuel n).
Proof.
  intros Hb. induction fuel as [|f IH]; intros n; simpl.
  - constructor.
  - destruct (n <? base)%N eqn:E.
    + constructor; [apply N.ltb_lt; exact E | constructor].
    + apply Forall_app. split; [apply IH|].
      constructor; [apply N.mod_lt; lia | constructor].
Qed.

Lemma digits_fuel_nonempty base f n : digits_fuel base (S f) n <> [].
Proof.
  simpl. destruct (n <? base)%N; [discriminate|].
  intros H. apply app_eq_nil in H. destruct H; discriminate.
Qed.

Lemma digits_eval base n : (2 <= base)%N -> eval_digits base (digits base n) = n.
Proof.
  intros Hb. unfold digits. apply digits_fuel_eval; auto.
  rewrite Nat2N.inj_succ, N2Nat.id.
  destruct n as [|p]; [reflexivity|].
  apply N.log2_spec. lia.
Qed.

Lemma digits_lt base n : (0 < base)%N -> Forall (fun d => (d < base)%N) (digits base n).
Proof. intros. apply digits_fuel_lt; auto. Qed.

Lemma digits_nonempty base n : digits base n <> [].
Proof. apply digits_fuel_nonempty. Qed.

(** the rest of the input does not start with a digit of the base *)
Definition nodigit (base : N) (rest : string) : bool :=
  match rest with
  | EmptyString => true
  | String c _ => match digit_val c with Some d => negb (d <? base)%N | None => true end
  end.

Lemma sapp_nil_r s : sapp s EmptyString = s.
Proof. unfold sapp. induction s; simpl; congruence. Qed.

Lemma span_digits_str base ds rest :
  (base <= 16)%N -> Forall (fun d => (d < base)%N) ds -> nodigit base rest = true ->
  span_digits base (sapp (str_of_digits ds) rest) = (ds, rest).
Proof.
  intros Hb Hds Hr. induction Hds as [|d ds Hd Hds IH].
  - simpl. destruct rest as [|c r]; [reflexivity|].
    simpl in *. destruct (digit_val c) as [v|]; [|reflexivity].
    destruct (v <? base)%N; [discriminate | reflexivity].
  - simpl. rewrite digit_val_char by lia.
    apply N.ltb_lt in Hd. rewrite Hd.
    fold (sapp (str_of_digits ds) rest). rewrite IH. reflexivity.
Qed.

(* ------------------------------------------------------------------ *)
(** * The scanners on printed numbers *)

Lemma strip_sign_digits d ds rest : (d < 16)%N ->
  strip_sign (sapp (str_of_digits (d :: ds)) rest) = (false, sapp (str_of_digits (d :: ds)) rest).
Proof.
  intros H. simpl. destruct (digit_char_not_sign d H) as [E1 E2]. rewrite E1, E2. reflexivity.
Qed.

Lemma scan_int_digits base bits ds rest :
  (base <= 16)%N -> ds <> [] -> Forall (fun d => (d < base)%N) ds -> nodigit base rest = true ->
  fits 64 (Z.of_N (eval_digits base ds)) && fits bits (Z.of_N (eval_digits base ds)) = true ->
  scan_int base bits (sapp (str_of_digits ds) rest) = Some (Z.of_N (eval_digits base ds), rest).
Proof.
  intros Hb Hne Hds Hr Hf. destruct ds as [|d ds]; [congruence|].
  unfold scan_int. rewrite strip_sign_digits.
  2:{ inversion Hds; subst. lia. }
  rewrite span_digits_str by auto. rewrite Hf. reflexivity.
Qed.

Lemma fits_weaken bits z : 1 <= bits <= 64 -> fits bits z = true -> fits 64 z = true.
Proof.
  unfold fits. intros Hb H. apply andb_prop in H. destruct H as [H1 H2].
  apply Z.leb_le in H1. apply Z.ltb_lt in H2.
  assert (2 ^ (bits - 1) <= 2 ^ (64 - 1)) by (apply Z.pow_le_mono_r; lia).
  apply andb_true_intro. split; [apply Z.leb_le | apply Z.ltb_lt]; lia.
Qed.

Lemma scan_int_numstr base bits n rest :
  (2 <= base <= 16)%N -> 1 <= bits <= 64 -> nodigit base rest = true ->
  fits bits (Z.of_N n) = true ->
  scan_int base bits (sapp (numstr base n) rest) = Some (Z.of_N n, rest).
Proof.
  intros Hb Hbits Hr Hf. unfold numstr.
  rewrite scan_int_digits; try rewrite digits_eval; auto; try lia.
  - apply digits_nonempty.
  - apply digits_lt. lia.
  - rewrite Hf, (fits_weaken bits); auto.
Qed.

Lemma scan_int_decstr bits z rest :
  1 <= bits <= 64 -> nodigit 10 rest = true -> fits bits z = true ->
  scan_int 10 bits (sapp (decstr z) rest) = Some (z, rest).
Proof.
  intros Hbits Hr Hf. unfold decstr. destruct (z <? 0) eqn:E.
  - apply Z.ltb_lt in E.
    unfold scan_int. simpl strip_sign.
    fold (sapp (numstr 10 (Z.to_N (- z))) rest). unfold numstr.
    rewrite span_digits_str; auto; try lia.
    2:{ apply digits_lt. lia. }
    destruct (digits 10 (Z.to_N (- z))) eqn:D; [exfalso; eapply digits_nonempty; eauto|].
    rewrite <- D, digits_eval by lia. rewrite Z2N.id by lia.
    replace (- - z) with z by lia. rewrite Hf, (fits_weaken bits); auto.
  - apply Z.ltb_ge in E. rewrite scan_int_numstr; auto; try lia.
    + rewrite Z2N.id by lia. reflexivity.
    + rewrite Z2N.id by lia. exact Hf.
Qed.

Lemma sscanf_decstr bits z : 1 <= bits <= 64 -> fits bits z = true ->
  sscanf 10 bits (decstr z) = z.
Proof.
  intros. unfold sscanf. rewrite <- (sapp_nil_r (decstr z)).
  rewrite scan_int_decstr; auto.
Qed.

Lemma sscanf_hexstr bits w z : 1 <= bits <= 64 -> 0 <= z < 2 ^ (bits - 1) ->
  sscanf 16 bits (hexstr w (Z.to_N z)) = z.
Proof.
  intros Hb Hz. unfold sscanf, hexstr.
  rewrite <- (sapp_nil_r (str_of_digits _)).
  assert (E: eval_digits 16 (repeat 0%N (w - List.length (digits 16 (Z.to_N z))) ++ digits 16 (Z.to_N z))
             = Z.to_N z) by (rewrite eval_digits_zeros; apply digits_eval; lia).
  rewrite scan_int_digits; auto; try lia.
  - intros H. apply app_eq_nil in H. destruct H as [_ H]. revert H. apply digits_nonempty.
  - apply Forall_app. split; [|apply digits_lt; lia].
    apply Forall_forall. intros x Hx. apply repeat_spec in Hx. subst. lia.
  - rewrite E, Z2N.id by lia.
    assert (F: fits bits z = true).
    { unfold fits. apply andb_true_intro. split; [apply Z.leb_le | apply Z.ltb_lt]; lia. }
    rewrite F, (fits_weaken bits); auto.
Qed.

(** the quirk: the verb x stops at the "x" of a 0x-prefixed address *)
Lemma sscanf_addrstr bits a : sscanf 16 bits (addrstr a) = 0.
Proof.
  unfold sscanf, scan_int, addrstr. simpl. destruct (fits bits 0); reflexivity.
Qed.

Lemma clamp64_fits z : fits 64 z = true -> clamp64 z = z.
Proof.
  unfold fits, clamp64. intros H. apply andb_prop in H. destruct H as [H1 H2].
  apply Z.leb_le in H1. apply Z.ltb_lt in H2. change (64 - 1) with 63 in *.
  destruct (z <? - 2 ^ 63) eqn:E1; [apply Z.ltb_lt in E1; lia|].
  destruct (2 ^ 63 <=? z) eqn:E2; [apply Z.leb_le in E2; lia|]. reflexivity.
Qed.

Lemma atoi_decstr z : fits 64 z = true -> atoi (decstr z) = z.
Proof.
  intros Hf. unfold atoi, decstr. destruct (z <? 0) eqn:E.
  - apply Z.ltb_lt in E. simpl strip_sign.
    rewrite <- (sapp_nil_r (numstr 10 _)). unfold numstr.
    rewrite span_digits_str; auto; try lia.
    2:{ apply digits_lt. lia. }
    destruct (digits 10 (Z.to_N (- z))) eqn:D; [exfalso; eapply digits_nonempty; eauto|].
    rewrite <- D, digits_eval by lia. rewrite Z2N.id by lia.
    replace (- - z) with z by lia. apply clamp64_fits. exact Hf.
  - apply Z.ltb_ge in E. unfold numstr.
    destruct (digits 10 (Z.to_N z)) as [|d ds] eqn:D; [exfalso; eapply digits_nonempty; eauto|].
    assert (Hlt: Forall (fun d => (d < 10)%N) (d :: ds)) by (rewrite <- D; apply digits_lt; lia).
    rewrite <- (sapp_nil_r (str_of_digits (d :: ds))).
    rewrite strip_sign_digits by (inversion Hlt; subst; lia).
    rewrite span_digits_str; auto; try lia.
    rewrite <- D, digits_eval by lia. rewrite Z2N.id by lia. apply clamp64_fits. exact Hf.
Qed.

Lemma wrap32_fits z : fits 32 z = true -> wrap32 z = z.
Proof.
  unfold fits, wrap32. intros H. apply andb_prop in H. destruct H as [H1 H2].
  apply Z.leb_le in H1. apply Z.ltb_lt in H2. change (32 - 1) with 31 in *.
  rewrite Z.mod_small; lia.
Qed.

Lemma new_register_regstr r : In r reg_ids -> new_register (regstr r) = Some r.
Proof.
  intros H.
  assert (A: forallb (fun r => match new_register (regstr r) with
                               | Some r' => r' =? r | None => false end) reg_ids = true)
    by (vm_compute; reflexivity).
  rewrite forallb_forall in A. specialize (A r H).
  destruct (new_register (regstr r)); [|discriminate].
  apply Z.eqb_eq in A. congruence.
Qed.

(* ------------------------------------------------------------------ *)
(** * Indexing into appended token lists *)

Lemma zlen_app {A} (l1 l2 : list A) : zlen (l1 ++ l2) = zlen l1 + zlen l2.
Proof. unfold zlen. rewrite app_length. lia. Qed.

Lemma zlen_cons {A} (a : A) l : zlen (a :: l) = 1 + zlen l.
Proof. unfold zlen. simpl List.length. lia. Qed.

Lemma zlen_nonneg {A} (l : list A) : 0 <= zlen l.
Proof. unfold zlen. lia. Qed.

Lemma zlen_map {A B} (f : A -> B) l : zlen (map f l) = zlen l.
Proof. unfold zlen. rewrite map_length. reflexivity. Qed.

Ltac zl := unfold zlen; repeat (rewrite ?app_length, ?map_length; simpl List.length); lia.

Lemma nthz_at {A} (l1 : list A) x l2 i : i = zlen l1 -> nthz (l1 ++ x :: l2) i = Some x.
Proof.
  intros ->. unfold nthz. rewrite zlen_app, zlen_cons.
  pose proof (zlen_nonneg l1). pose proof (zlen_nonneg l2).
  replace ((0 <=? zlen l1) && (zlen l1 <? zlen l1 + (1 + zlen l2))) with true
    by (symmetry; apply andb_true_intro; split; [apply Z.leb_le | apply Z.ltb_lt]; lia).
  unfold zlen. rewrite Nat2Z.id. rewrite nth_error_app2 by lia.
  rewrite Nat.sub_diag. reflexivity.
Qed.

Lemma dropz_at {A} (l1 l2 : list A) i : i = zlen l1 -> dropz (l1 ++ l2) i = Some l2.
Proof.
  intros ->. unfold dropz. rewrite zlen_app.
  pose proof (zlen_nonneg l1). pose proof (zlen_nonneg l2).
  replace ((0 <=? zlen l1) && (zlen l1 <=? zlen l1 + zlen l2)) with true
    by (symmetry; apply andb_true_intro; split; apply Z.leb_le; lia).
  unfold zlen. rewrite Nat2Z.id. rewrite skipn_app, skipn_all, Nat.sub_diag. reflexivity.
Qed.

Lemma firstn_exact {A} (l1 l2 : list A) n : n = List.length l1 -> firstn n (l1 ++ l2) = l1.
Proof.
  intros ->. rewrite firstn_app, firstn_all, Nat.sub_diag. simpl. apply app_nil_r.
Qed.

Lemma scan_regs_at pre D post i n :
  i = zlen pre -> n = zlen D ->
  scan_regs (pre ++ D ++ post) i n = mapM new_register D.
Proof.
  intros -> ->. unfold scan_regs.
  pose proof (zlen_nonneg pre). pose proof (zlen_nonneg D). pose proof (zlen_nonneg post).
  destruct (zlen D <=? 0) eqn:E.
  - apply Z.leb_le in E. destruct D as [|x D]; [reflexivity|]. rewrite zlen_cons in E. pose proof (zlen_nonneg D). lia.
  - rewrite !zlen_app.
    replace ((0 <=? zlen pre) && (zlen pre + zlen D <=? zlen pre + (zlen D + zlen post))) with true
      by (symmetry; apply andb_true_intro; split; apply Z.leb_le; lia).
    unfold zlen. rewrite !Nat2Z.id.
    rewrite skipn_app, skipn_all, Nat.sub_diag. simpl.
    rewrite firstn_exact by reflexivity. reflexivity.
Qed.

Lemma mapM_regstr rs : Forall (fun r => In r reg_ids) rs ->
  mapM new_register (map regstr rs) = Some rs.
Proof.
  induction 1 as [|r rs Hr _ IH]; [reflexivity|].
  simpl. rewrite new_register_regstr by exact Hr. rewrite IH. reflexivity.
Qed.

(** extractInst on a line of the shape
    a b c D.. op d S.. rest  with c = len D and d = len S *)
Lemma parse_inst_shape a b c (D : list string) op d (S : list string) rest :
  sscanf 10 32 c = zlen D -> sscanf 10 32 d = zlen S ->
  parse_inst (a :: b :: c :: D ++ op :: d :: S ++ rest) =
  match mapM new_register D with
  | None => None
  | Some dr =>
      match mapM new_register S with
      | None => None
      | Some sr =>
          match parse_mem rest with
          | None => None
          | Some (w, cm, ad, addrs, s1, s2, imm) =>
              Some (mkP (0, 0, 0) 0 (sscanf 16 32 a) (sscanf 16 64 b) (zlen D) dr (Some op)
                        (zlen S) sr w cm ad addrs s1 s2 imm)
          end
      end
  end.
Proof.
  intros Hc Hd. unfold parse_inst.
  set (elems := a :: b :: c :: D ++ op :: d :: S ++ rest).
  assert (E0: nthz elems 0 = Some a) by (apply (nthz_at [] a); reflexivity).
  assert (E1: nthz elems 1 = Some b) by (apply (nthz_at [a] b); reflexivity).
  assert (E2: nthz elems 2 = Some c) by (apply (nthz_at [a; b] c); reflexivity).
  rewrite E0, E1, E2, Hc.
  assert (R1: scan_regs elems 3 (zlen D) = mapM new_register D).
  { change elems with ([a; b; c] ++ D ++ (op :: d :: S ++ rest)).
    apply scan_regs_at; reflexivity. }
  rewrite R1. destruct (mapM new_register D) as [dr|]; [|reflexivity].
  assert (EO: nthz elems (3 + zlen D) = Some op).
  { change elems with ((a :: b :: c :: D) ++ op :: d :: S ++ rest).
    apply nthz_at. zl. }
  assert (E3: nthz elems (4 + zlen D) = Some d).
  { replace elems with ((a :: b :: c :: D ++ [op]) ++ d :: S ++ rest)
      by (unfold elems; simpl; rewrite <- app_assoc; reflexivity).
    apply nthz_at. zl. }
  rewrite EO, E3, Hd.
  assert (R2: scan_regs elems (4 + zlen D + 1) (zlen S) = mapM new_register S).
  { replace elems with ((a :: b :: c :: D ++ [op; d]) ++ S ++ rest)
      by (unfold elems; simpl; rewrite <- app_assoc; reflexivity).
    apply scan_regs_at; [zl | reflexivity]. }
  rewrite R2. destruct (mapM new_register S) as [sr|]; [|reflexivity].
  assert (R3: dropz elems (5 + zlen D + zlen S) = Some rest).
  { replace elems with ((a :: b :: c :: D ++ [op; d] ++ S) ++ rest)
      by (unfold elems; simpl; rewrite <- !app_assoc; reflexivity).
    apply dropz_at. zl. }
  rewrite R3. reflexivity.
Qed.

(* ------------------------------------------------------------------ *)
(** * Instruction level round trip *)

Definition fitsb32 (z : Z) : bool := fits 32 z.

(** an address the reader's int64 field holds without wrap-around *)
Definition addr_ok (a : Z) : bool := (0 <=? a) && (a <? 2 ^ 63).

Definition valid_memb (m : option (Z * maddr)) : bool :=
  match m with
  | None => true
  | Some (w, a) =>
      negb (w =? 0) && fits 32 w &&
      match a with
      | MList l => forallb addr_ok l
      | MStride b s => addr_ok b && fits 32 s
      | MDelta b ds => addr_ok b && forallb fitsb32 ds
      end
  end.

(** R0 .. R255 *)
Definition in_table (r : Z) : bool := (0 <=? r) && (r <=? 255).

(** white space in the sense of strings.Fields (ASCII) *)
Definition is_space (c : ascii) : bool :=
  let n := N_of_ascii c in ((n =? 32) || ((9 <=? n) && (n <=? 13)))%N.

Fixpoint no_space (s : string) : bool :=
  match s with
  | EmptyString => true
  | String c r => negb (is_space c) && no_space r
  end.

(** the opcode is one field of the line: not empty, no white space *)
Definition op_ok (s : string) : bool :=
  negb (match s with EmptyString => true | _ => false end) && no_space s.

(** An instruction the format can carry and whose numbers fit the Go fields:
    0 <= PC < 2^31 (int32), 0 <= Mask < 2^63 (int64), registers R0..R255,
    fewer than 2^31 registers per list, opcode a non-empty token, memory
    width a non-zero int32 (width 0 is written as "no memory part"),
    addresses in 0 .. 2^63-1 (int64), stride and deltas int32, immediate
    int64.  An uncompressed address list may be empty. *)
Definition validb (i : inst) : bool :=
  (0 <=? i_pc i) && (i_pc i <? 2 ^ 31) &&
  (0 <=? i_mask i) && (i_mask i <? 2 ^ 63) &&
  forallb in_table (i_dests i) && forallb in_table (i_srcs i) &&
  (zlen (i_dests i) <? 2 ^ 31) && (zlen (i_srcs i) <? 2 ^ 31) &&
  valid_memb (i_mem i) && fits 64 (i_imm i) && op_ok (i_op i).

Definition valid (i : inst) : Prop := validb i = true.

Definition exp_mem (m : option (Z * maddr)) (imm : Z) : mempart :=
  match m with
  | None => (0, 0, 0, [], 0, [], imm)
  | Some (w, MList l) => (w, 0, hd 0 l, l, 0, [], imm)
  | Some (w, MStride b s) => (w, 1, b, [], s, [], imm)
  | Some (w, MDelta b ds) => (w, 2, b, [], 0, ds, imm)
  end.

(** the record extractInst builds from the printed line of [i]: every field
    of [i] is in it - the opcode text, the base address (modes 1, 2) or the
    first address and the whole address list (mode 0) included *)
Definition expected (i : inst) : pinst :=
  let '(w, c, a, addrs, s1, s2, imm) := exp_mem (i_mem i) (i_imm i) in
  mkP (0, 0, 0) 0 (i_pc i) (i_mask i) (zlen (i_dests i)) (i_dests i) (Some (i_op i))
      (zlen (i_srcs i)) (i_srcs i) w c a addrs s1 s2 imm.

Lemma in_table_In r : in_table r = true -> In r reg_ids.
Proof.
  unfold in_table. intros H. apply andb_prop in H. destruct H as [H1 H2].
  apply Z.leb_le in H1, H2. unfold reg_ids. apply in_map_iff.
  exists (Z.to_nat r). split; [lia|]. apply in_seq. lia.
Qed.

Lemma forallb_in_table rs : forallb in_table rs = true -> Forall (fun r => In r reg_ids) rs.
Proof.
  intros H. apply Forall_forall. intros r Hr. rewrite forallb_forall in H.
  apply in_table_In. auto.
Qed.

Lemma fits32_len n : 0 <= n -> n <? 2 ^ 31 = true -> fits 32 n = true.
Proof.
  intros H0 H. apply Z.ltb_lt in H. unfold fits. change (32 - 1) with 31.
  apply andb_true_intro. split; [apply Z.leb_le | apply Z.ltb_lt]; lia.
Qed.

Lemma map_atoi_decstr ds : forallb fitsb32 ds = true ->
  map (fun s => wrap32 (atoi s)) (map decstr ds) = ds.
Proof.
  induction ds as [|d ds IH]; [reflexivity|]. simpl. intros H.
  apply andb_prop in H. destruct H as [H1 H2]. unfold fitsb32 in H1.
  rewrite atoi_decstr by (apply (fits_weaken 32); [lia | exact H1]).
  rewrite wrap32_fits by exact H1. rewrite IH by exact H2. reflexivity.
Qed.

(** the repaired address scanner reads a printed address back *)
Lemma parse_addr_addrstr a : addr_ok a = true -> parse_addr (addrstr a) = a.
Proof.
  unfold addr_ok. intros H. apply andb_prop in H. destruct H as [H1 H2].
  apply Z.leb_le in H1. apply Z.ltb_lt in H2.
  unfold parse_addr, addrstr. simpl strip_0x. unfold numstr.
  rewrite <- (sapp_nil_r (str_of_digits _)).
  rewrite span_digits_str; auto; try lia.
  2:{ apply digits_lt. lia. }
  destruct (digits 16 (Z.to_N a)) eqn:D; [exfalso; eapply digits_nonempty; eauto|].
  rewrite <- D, digits_eval by lia. rewrite Z2N.id by lia.
  replace (a <? 2 ^ 64) with true by (symmetry; apply Z.ltb_lt; lia).
  replace (a <? 2 ^ 63) with true by (symmetry; apply Z.ltb_lt; lia).
  reflexivity.
Qed.

Lemma map_parse_addr l : forallb addr_ok l = true -> map parse_addr (map addrstr l) = l.
Proof.
  induction l as [|a l IH]; [reflexivity|]. simpl. intros H.
  apply andb_prop in H. destruct H as [H1 H2].
  rewrite parse_addr_addrstr by exact H1. rewrite IH by exact H2. reflexivity.
Qed.

Lemma fits_0 b : 1 <= b -> fits b 0 = true.
Proof.
  intros Hb. unfold fits. assert (0 < 2 ^ (b - 1)) by (apply Z.pow_pos_nonneg; lia).
  apply andb_true_intro. split; [apply Z.leb_le | apply Z.ltb_lt]; lia.
Qed.

Lemma last_snoc {A} (l : list A) x d : last (l ++ [x]) d = x.
Proof. apply last_last. Qed.

Lemma parse_mem_print m imm :
  valid_memb m = true -> fits 64 imm = true ->
  parse_mem (mem_toks m ++ [decstr imm]) = Some (exp_mem m imm).
Proof.
  intros Hm Hi.
  assert (F0: forall b, 1 <= b <= 64 -> sscanf 10 b (decstr 0) = 0)
    by (intros; apply sscanf_decstr; auto; apply fits_0; lia).
  destruct m as [[w a]|].
  - simpl in Hm. apply andb_prop in Hm. destruct Hm as [Hm Ha].
    apply andb_prop in Hm. destruct Hm as [Hw0 Hw].
    apply negb_true_iff in Hw0.
    destruct a as [l | b s | b ds].
    + (* uncompressed list *)
      unfold parse_mem. simpl mem_toks. simpl app.
      set (elems := decstr w :: decstr 0 :: map addrstr l ++ [decstr imm]).
      assert (E0: nthz elems 0 = Some (decstr w)) by (apply (nthz_at [] (decstr w)); reflexivity).
      assert (E1: nthz elems 1 = Some (decstr 0)) by (apply (nthz_at [decstr w] (decstr 0)); reflexivity).
      rewrite E0, E1. rewrite sscanf_decstr by (auto; lia). rewrite Hw0.
      rewrite F0 by lia. change (0 =? 0) with true. cbv iota.
      assert (L: zlen elems = 3 + zlen l) by (unfold elems; zl).
      pose proof (zlen_nonneg l).
      replace (2 <=? zlen elems - 1) with true by (symmetry; apply Z.leb_le; lia).
      replace (last elems EmptyString) with (decstr imm).
      2:{ unfold elems. symmetry.
          change (decstr w :: decstr 0 :: map addrstr l ++ [decstr imm])
            with ((decstr w :: decstr 0 :: map addrstr l) ++ [decstr imm]).
          apply last_snoc. }
      rewrite atoi_decstr by exact Hi.
      replace (firstn (List.length elems - 1 - 2) (skipn 2 elems)) with (map addrstr l).
      2:{ unfold elems. simpl skipn. symmetry. apply firstn_exact.
          simpl List.length. rewrite app_length, !map_length. simpl. lia. }
      rewrite map_parse_addr by exact Ha. reflexivity.
    + (* base + stride *)
      apply andb_prop in Ha. destruct Ha as [Hb Hs].
      unfold parse_mem. simpl mem_toks. simpl app.
      set (elems := [decstr w; decstr 1; addrstr b; decstr s; decstr imm]).
      assert (E0: nthz elems 0 = Some (decstr w)) by reflexivity.
      assert (E1: nthz elems 1 = Some (decstr 1)) by reflexivity.
      assert (E2: nthz elems 2 = Some (addrstr b)) by reflexivity.
      assert (E3: nthz elems 3 = Some (decstr s)) by reflexivity.
      rewrite E0, E1, E2, E3. rewrite !sscanf_decstr by (auto; try lia; reflexivity).
      rewrite Hw0, parse_addr_addrstr by exact Hb.
      change (last elems EmptyString) with (decstr imm).
      rewrite atoi_decstr by exact Hi. reflexivity.
    + (* base + deltas *)
      apply andb_prop in Ha. destruct Ha as [Hb Hd].
      unfold parse_mem. simpl mem_toks. simpl app.
      set (elems := decstr w :: decstr 2 :: addrstr b :: map decstr ds ++ [decstr imm]).
      assert (E0: nthz elems 0 = Some (decstr w)) by (apply (nthz_at [] (decstr w)); reflexivity).
      assert (E1: nthz elems 1 = Some (decstr 2)) by (apply (nthz_at [decstr w] (decstr 2)); reflexivity).
      assert (E2: nthz elems 2 = Some (addrstr b))
        by (apply (nthz_at [decstr w; decstr 2] (addrstr b)); reflexivity).
      rewrite E0, E1, E2. rewrite !sscanf_decstr by (auto; try lia; reflexivity).
      rewrite Hw0, parse_addr_addrstr by exact Hb.
      change (2 =? 0) with false. change (2 =? 1) with false. change (2 =? 2) with true. cbv iota.
      assert (L: zlen elems = 4 + zlen ds) by (unfold elems; zl).
      pose proof (zlen_nonneg ds).
      replace (3 <=? zlen elems - 1) with true by (symmetry; apply Z.leb_le; lia).
      replace (last elems EmptyString) with (decstr imm).
      2:{ unfold elems. symmetry.
          change (decstr w :: decstr 2 :: addrstr b :: map decstr ds ++ [decstr imm])
            with ((decstr w :: decstr 2 :: addrstr b :: map decstr ds) ++ [decstr imm]).
          apply last_snoc. }
      rewrite atoi_decstr by exact Hi.
      replace (firstn (List.length elems - 1 - 3) (skipn 3 elems)) with (map decstr ds).
      2:{ unfold elems. simpl skipn. symmetry. apply firstn_exact.
          simpl List.length. rewrite app_length, !map_length. simpl. lia. }
      rewrite map_atoi_decstr by exact Hd. reflexivity.
  - unfold parse_mem. simpl mem_toks. simpl app.
    set (elems := [decstr 0; decstr imm]).
    assert (E0: nthz elems 0 = Some (decstr 0)) by reflexivity.
    rewrite E0, F0 by lia.
    change (last elems EmptyString) with (decstr imm).
    rewrite atoi_decstr by exact Hi. reflexivity.
Qed.

(** Parsing the printed line of a valid instruction returns [expected i],
    the record that holds every field of [i]. *)
Theorem parse_print_roundtrip : forall i, valid i -> parse_inst (print_inst i) = Some (expected i).
Proof.
  intros i. unfold valid, validb. intros H.
  repeat (apply andb_prop in H; let H' := fresh "V" in destruct H as [H H']).
  rename H into Vpc0.
  apply Z.leb_le in Vpc0. apply Z.ltb_lt in V8. apply Z.leb_le in V7. apply Z.ltb_lt in V6.
  apply forallb_in_table in V5. apply forallb_in_table in V4.
  unfold print_inst. simpl app.
  rewrite parse_inst_shape.
  - rewrite !mapM_regstr by assumption.
    rewrite parse_mem_print by assumption.
    unfold expected. destruct (exp_mem (i_mem i) (i_imm i)) as [[[[[[w c] a] addrs] s1] s2] imm].
    rewrite !zlen_map.
    rewrite sscanf_hexstr by (change (32 - 1) with 31; lia).
    rewrite sscanf_hexstr by (change (64 - 1) with 63; lia).
    reflexivity.
  - rewrite zlen_map. apply sscanf_decstr; [lia|]. apply fits32_len; [apply zlen_nonneg | assumption].
  - rewrite zlen_map. apply sscanf_decstr; [lia|]. apply fits32_len; [apply zlen_nonneg | assumption].
Qed.

(* ------------------------------------------------------------------ *)
(** * Exactness: the parsed record determines the serialised instruction *)

Lemma valid_mem_of i : valid i -> valid_memb (i_mem i) = true.
Proof.
  unfold valid, validb. intros H.
  repeat (apply andb_prop in H; let H' := fresh "V" in destruct H as [H H']).
  assumption.
Qed.

Lemma expected_inj i j :
  valid_memb (i_mem i) = true -> valid_memb (i_mem j) = true ->
  expected i = expected j -> i = j.
Proof.
  destruct i as [pc mk ds op ss m im], j as [pc' mk' ds' op' ss' m' im'].
  unfold expected. cbn [i_pc i_mask i_dests i_op i_srcs i_mem i_imm].
  intros Vi Vj H.
  destruct m as [[w [l | b s | b dl]]|], m' as [[w' [l' | b' s' | b' dl']]|];
    cbn [exp_mem] in H; inversion H; subst; try reflexivity;
    cbn [valid_memb] in Vi, Vj;
    try (rewrite Z.eqb_refl in Vi; discriminate Vi);
    try (rewrite Z.eqb_refl in Vj; discriminate Vj).
Qed.

(** parse o print is injective on valid instructions *)
Theorem parse_print_exact : forall i j, valid i -> valid j ->
  parse_inst (print_inst i) = parse_inst (print_inst j) -> i = j.
Proof.
  intros i j Vi Vj H.
  rewrite (parse_print_roundtrip _ Vi), (parse_print_roundtrip _ Vj) in H.
  injection H as H. apply expected_inj; auto using valid_mem_of.
Qed.

(** the hypotheses of the round trip hold for non-trivial instructions, and
    the conclusion is what one reads off the sample file *)
Example roundtrip_example :
  let i := mkInst 160 4294967295 [4; 255] "LDG.E" [4; 31; 200]
                  (Some (4, MDelta 140397977996800 [4; -8; 2147483647])) (-3) in
  valid i /\
  print_inst i = ["00a0"; "ffffffff"; "2"; "R4"; "R255"; "LDG.E"; "3"; "R4"; "R31"; "R200";
                  "4"; "2"; "0x7fb0f39b0e00"; "4"; "-8"; "2147483647"; "-3"]%string /\
  parse_inst (print_inst i) =
    Some (mkP (0, 0, 0) 0 160 4294967295 2 [4; 255] (Some "LDG.E"%string) 3 [4; 31; 200] 4 2
              140397977996800 [] 0 [4; -8; 2147483647] (-3)).
Proof. repeat split; vm_compute; reflexivity. Qed.

Example roundtrip_example_list :
  let i := mkInst 240 65535 [] "STG.E" [6; 9]
                  (Some (4, MList [140397978197504; 140397978197508; 0])) 0 in
  valid i /\
  parse_inst (print_inst i) =
    Some (mkP (0, 0, 0) 0 240 65535 0 [] (Some "STG.E"%string) 2 [6; 9] 4 0
              140397978197504 [140397978197504; 140397978197508; 0] 0 [] 0).
Proof. repeat split; vm_compute; reflexivity. Qed.

(* ------------------------------------------------------------------ *)
(** * File level: the scanner state machine on a printed kernel *)

Definition fits3 (d : dim3) : bool :=
  let '(x, y, z) := d in fits 32 x && fits 32 y && fits 32 z.

Definition valid_warpb (w : warp) : bool :=
  fits 32 (w_id w) && (zlen (w_insts w) <? 2 ^ 31) && forallb validb (w_insts w).

Definition valid_blockb (b : tblock) : bool :=
  fits3 (b_id b) && forallb valid_warpb (b_warps b).

Definition valid_headerb (h : header) : bool :=
  fits 32 (h_kid h) && fits3 (h_grid h) && fits3 (h_block h) &&
  fits 32 (h_shmem h) && fits 32 (h_nregs h) && fits 32 (h_binver h) && fits 32 (h_stream h) &&
  (0 <=? h_shbase h) && (h_shbase h <? 2 ^ 63) &&
  (0 <=? h_localbase h) && (h_localbase h <? 2 ^ 63).

(** every number fits the Go field it is read into; any number of blocks,
    warps per block (also none) and instructions per warp (also none) *)
Definition valid_kernelb (k : kernel) : bool :=
  valid_headerb (k_hdr k) && forallb valid_blockb (k_blocks k).

Definition valid_kernel (k : kernel) : Prop := valid_kernelb k = true.

Definition expected_warp (tb : dim3) (w : warp) : pwarp :=
  (w_id w, zlen (w_insts w), map (fun i => stamp tb (w_id w) (expected i)) (w_insts w)).

Definition expected_block (b : tblock) : pblock :=
  (b_id b, map (expected_warp (b_id b)) (b_warps b)).

Lemma is_blank_inst i : is_blank (LInst (print_inst i)) = false.
Proof. reflexivity. Qed.

Lemma move_next_nonblank c l r : is_blank l = false -> move_next (c, l :: r) = (true, (l, r)).
Proof. intros H. unfold move_next. simpl. rewrite H. reflexivity. Qed.

Lemma move_next_blank c r : move_next (c, LBlank :: r) = move_next (c, r).
Proof. reflexivity. Qed.

Lemma read_insts_step f cnt tb wid st :
  read_insts (S f) cnt tb wid st =
  if cnt <=? 0 then Some ([], st)
  else let (ok, st') := move_next st in
       if negb ok then None
       else
         match parse_inst (line_toks (fst st')) with
         | None => None
         | Some p => match read_insts f (cnt - 1) tb wid st' with
                     | None => None
                     | Some (ps, st'') => Some (stamp tb wid p :: ps, st'')
                     end
         end.
Proof. reflexivity. Qed.

Lemma read_insts_print tb wid : forall (is : list inst) fuel cur tail,
  (List.length is <= fuel)%nat -> forallb validb is = true ->
  exists c, read_insts fuel (zlen is) tb wid
              (cur, map (fun i => LInst (print_inst i)) is ++ tail)
            = Some (map (fun i => stamp tb wid (expected i)) is, (c, tail)).
Proof.
  induction is as [|i is IH]; intros fuel cur tail Hf Hv.
  - exists cur. destruct fuel; reflexivity.
  - destruct fuel as [|f]; [simpl in Hf; lia|].
    simpl in Hv. apply andb_prop in Hv. destruct Hv as [Hi Hv].
    rewrite read_insts_step.
    pose proof (zlen_nonneg is).
    replace (zlen (i :: is) <=? 0) with false by (symmetry; apply Z.leb_gt; rewrite zlen_cons; lia).
    simpl map. simpl app.
    rewrite move_next_nonblank by apply is_blank_inst.
    simpl negb. cbv iota. simpl fst. simpl line_toks.
    rewrite parse_print_roundtrip by exact Hi.
    replace (zlen (i :: is) - 1) with (zlen is) by (rewrite zlen_cons; lia).
    destruct (IH f (LInst (print_inst i)) tail) as [c Hc]; [simpl in Hf; lia | exact Hv |].
    rewrite Hc. exists c. reflexivity.
Qed.

Lemma read_warps_step f tb st :
  read_warps (S f) tb st =
  let (ok, st1) := move_next st in
  if negb ok then Some ([], st1)
  else if is_warp (fst st1) then
    let wid := warp_id (fst st1) in
    let (found, st2) := goto_prefix is_insts st1 in
    if negb found then None
    else
      let cnt := insts_count (fst st2) in
      match read_insts (S (List.length (snd st2))) cnt tb wid st2 with
      | None => None
      | Some (ps, st3) =>
          match read_warps f tb st3 with
          | None => None
          | Some (ws, st4) => Some ((wid, cnt, ps) :: ws, st4)
          end
      end
  else Some ([], st1).
Proof. reflexivity. Qed.

Lemma read_warps_blank f tb c r :
  read_warps (S f) tb (c, LBlank :: r) = read_warps (S f) tb (c, r).
Proof. rewrite !read_warps_step. rewrite move_next_blank. reflexivity. Qed.

Lemma into32_fits z : fits 32 z = true -> into32 z = z.
Proof. unfold into32. intros ->. reflexivity. Qed.

Lemma print_warp_shape w rest :
  print_warp w ++ rest =
  LWarp (w_id w) :: LInsts (zlen (w_insts w)) ::
    map (fun i => LInst (print_inst i)) (w_insts w) ++ LBlank :: rest.
Proof. unfold print_warp. simpl. rewrite <- app_assoc. reflexivity. Qed.

Lemma read_warps_print tb : forall (ws : list warp) fuel cur l X,
  (List.length ws < fuel)%nat -> is_blank l = false -> is_warp l = false ->
  forallb valid_warpb ws = true ->
  read_warps fuel tb (cur, List.concat (map print_warp ws) ++ l :: X)
  = Some (map (expected_warp tb) ws, (l, X)).
Proof.
  induction ws as [|w ws IH]; intros fuel cur l X Hf Hb Hw Hv.
  - destruct fuel as [|f]; [lia|].
    rewrite read_warps_step. simpl List.concat. simpl app.
    rewrite move_next_nonblank by exact Hb. simpl negb. cbv iota. simpl fst. rewrite Hw.
    reflexivity.
  - destruct fuel as [|f]; [lia|].
    simpl in Hv. apply andb_prop in Hv. destruct Hv as [Hw1 Hv].
    unfold valid_warpb in Hw1. apply andb_prop in Hw1. destruct Hw1 as [Hw1 Hwi].
    apply andb_prop in Hw1. destruct Hw1 as [Hid Hlen].
    change (List.concat (map print_warp (w :: ws)))
      with (print_warp w ++ List.concat (map print_warp ws)).
    change (map (expected_warp tb) (w :: ws))
      with (expected_warp tb w :: map (expected_warp tb) ws).
    rewrite <- app_assoc. rewrite print_warp_shape.
    rewrite read_warps_step.
    rewrite move_next_nonblank by reflexivity.
    simpl negb. cbv iota. simpl fst. simpl is_warp. cbv iota.
    unfold goto_prefix. simpl fst. simpl is_insts. cbv iota. simpl snd. simpl seek.
    cbv iota. simpl negb. cbv iota beta zeta. simpl fst. simpl snd.
    unfold warp_id, insts_count.
    rewrite (into32_fits (w_id w)) by exact Hid.
    rewrite (into32_fits (zlen (w_insts w))) by (apply fits32_len; [apply zlen_nonneg | exact Hlen]).
    destruct (read_insts_print tb (w_id w) (w_insts w)
                (S (List.length (map (fun i => LInst (print_inst i)) (w_insts w) ++
                                 LBlank :: List.concat (map print_warp ws) ++ l :: X)))
                (LInsts (zlen (w_insts w)))
                (LBlank :: List.concat (map print_warp ws) ++ l :: X)) as [c Hc].
    { rewrite app_length, map_length. lia. }
    { exact Hwi. }
    rewrite Hc.
    destruct f as [|f]; [simpl in Hf; lia|].
    rewrite read_warps_blank.
    rewrite IH by (solve [auto | simpl in Hf; lia]).
    reflexivity.
Qed.

Lemma read_blocks_step f st :
  read_blocks (S f) st =
  let (found, st1) := goto_prefix is_tb st in
  if negb found then Some []
  else
    let id := tb_id (fst st1) in
    match read_warps (S (List.length (snd st1))) id st1 with
    | None => None
    | Some (ws, st2) =>
        match read_blocks f st2 with
        | None => None
        | Some bs => Some ((id, ws) :: bs)
        end
    end.
Proof. reflexivity. Qed.

Lemma read_blocks_blank f c r : is_tb c = false ->
  read_blocks (S f) (c, LBlank :: r) = read_blocks (S f) (c, r).
Proof.
  intros H. rewrite !read_blocks_step. unfold goto_prefix. simpl fst. rewrite H. reflexivity.
Qed.

Lemma print_warps_length ws : (List.length ws <= List.length (List.concat (map print_warp ws)))%nat.
Proof.
  induction ws as [|w ws IH]; [simpl; lia|].
  change (List.concat (map print_warp (w :: ws)))
    with (print_warp w ++ List.concat (map print_warp ws)).
  remember (List.concat (map print_warp ws)) as R.
  rewrite app_length. unfold print_warp. rewrite !app_length. simpl List.length. lia.
Qed.

Lemma print_blocks_length bs : (List.length bs <= List.length (print_blocks bs))%nat.
Proof.
  unfold print_blocks. induction bs as [|b bs IH]; [simpl; lia|].
  change (List.concat (map print_block (b :: bs)))
    with (print_block b ++ List.concat (map print_block bs)).
  remember (List.concat (map print_block bs)) as R.
  rewrite app_length. unfold print_block.
  destruct (b_id b) as [[x y] z]. rewrite !app_length. simpl List.length. lia.
Qed.

Lemma tb_id_fits x y z : fits3 (x, y, z) = true -> tb_id (LTb x y z) = (x, y, z).
Proof.
  simpl. intros H. apply andb_prop in H. destruct H as [H Hz].
  apply andb_prop in H. destruct H as [Hx Hy]. rewrite Hx, Hy, Hz. reflexivity.
Qed.

Lemma read_blocks_print : forall (bs : list tblock) fuel cur,
  (List.length bs < fuel)%nat -> is_tb cur = false ->
  forallb valid_blockb bs = true ->
  read_blocks fuel (cur, print_blocks bs) = Some (map expected_block bs).
Proof.
  induction bs as [|b bs IH]; intros fuel cur Hf Hc Hv.
  - destruct fuel as [|f]; [lia|]. rewrite read_blocks_step.
    unfold goto_prefix. simpl fst. rewrite Hc. reflexivity.
  - destruct fuel as [|f]; [lia|].
    simpl in Hv. apply andb_prop in Hv. destruct Hv as [Hb Hv].
    unfold valid_blockb in Hb. apply andb_prop in Hb. destruct Hb as [Hid Hws].
    change (print_blocks (b :: bs)) with (print_block b ++ print_blocks bs).
    change (map expected_block (b :: bs)) with (expected_block b :: map expected_block bs).
    unfold expected_block at 1.
    unfold print_block. destruct (b_id b) as [[x y] z] eqn:Eid.
    rewrite <- !app_assoc. simpl app.
    rewrite read_blocks_step. unfold goto_prefix. simpl fst. rewrite Hc.
    simpl snd. simpl seek. cbv iota. simpl negb. cbv iota beta zeta. simpl fst. simpl snd.
    rewrite tb_id_fits by exact Hid.
    rewrite read_warps_blank.
    rewrite read_warps_print; auto.
    2:{ pose proof (print_warps_length (b_warps b)). simpl List.length.
        rewrite app_length. lia. }
    destruct f as [|f]; [simpl in Hf; lia|].
    rewrite read_blocks_blank by reflexivity.
    rewrite IH by (solve [auto | simpl in Hf; lia]).
    reflexivity.
Qed.

(* ------------------------------------------------------------------ *)
(** * The header *)

Arguments scan_int : simpl never.
Arguments decstr : simpl never.
Arguments hexstr : simpl never.
Arguments sapp : simpl never.
Arguments span_digits : simpl never.

Lemma scan_dim3_print x y z : fits3 (x, y, z) = true ->
  scan_dim3 (hval_str (HDim x y z)) = Some (x, y, z).
Proof.
  simpl fits3. intros H. apply andb_prop in H. destruct H as [H Hz].
  apply andb_prop in H. destruct H as [Hx Hy].
  unfold scan_dim3, hval_str. simpl expect. cbv iota beta.
  rewrite scan_int_decstr by (auto; lia). simpl expect. cbv iota beta.
  rewrite scan_int_decstr by (auto; lia). simpl expect. cbv iota beta.
  rewrite scan_int_decstr by (auto; lia). simpl expect. cbv iota beta.
  reflexivity.
Qed.

Lemma scan_v64_print a : 0 <= a < 2 ^ 63 -> scan_v64 (hval_str (HAddr a)) = Some a.
Proof.
  intros Ha. unfold scan_v64, hval_str. simpl strip_sign. cbv iota beta.
  simpl Ascii.eqb. cbv iota. simpl is_char. cbv iota.
  unfold hexstr. rewrite <- (sapp_nil_r (str_of_digits _)).
  rewrite span_digits_str; auto; try lia.
  2:{ apply Forall_app. split; [|apply digits_lt; lia].
      apply Forall_forall. intros x Hx. apply repeat_spec in Hx. subst. lia. }
  rewrite eval_digits_zeros, digits_eval by lia. rewrite Z2N.id by lia.
  assert (F: fits 64 a = true).
  { unfold fits. change (64 - 1) with 63.
    apply andb_true_intro. split; [apply Z.leb_le | apply Z.ltb_lt]; lia. }
  destruct (repeat 0%N (16 - List.length (digits 16 (Z.to_N a))) ++ digits 16 (Z.to_N a)) eqn:E.
  - apply app_eq_nil in E. destruct E as [_ E]. exfalso. revert E. apply digits_nonempty.
  - rewrite F. reflexivity.
Qed.

Lemma read_header_step k v r h :
  read_header (LHeader k v :: r) h =
  match update_header k v h with None => None | Some h' => read_header r h' end.
Proof. reflexivity. Qed.

Lemma scan_d32_print z : fits 32 z = true ->
  scan_int 10 32 (hval_str (HInt z)) = Some (z, EmptyString).
Proof.
  intros H. unfold hval_str. rewrite <- (sapp_nil_r (decstr z)).
  apply scan_int_decstr; auto. lia.
Qed.

Lemma lineinfo_print (b : bool) :
  String.eqb (hval_str (HInt (if b then 1 else 0))) "1"%string = b.
Proof. destruct b; reflexivity. Qed.

Lemma read_header_print h rest :
  valid_headerb h = true ->
  read_header (print_header h ++ LBlank :: format_line :: rest) header0
  = Some (h, (format_line, rest)).
Proof.
  destruct h as [name kid grid block shmem nregs binver stream shbase lbase nvbit tracer li].
  unfold valid_headerb.
  cbn [h_name h_kid h_grid h_block h_shmem h_nregs h_binver h_stream h_shbase h_localbase
       h_nvbit h_tracer h_lineinfo].
  intros H.
  do 10 (apply andb_prop in H; let H' := fresh "V" in destruct H as [H H']).
  apply Z.leb_le in V2, V0. apply Z.ltb_lt in V1, V.
  destruct grid as [[gx gy] gz]. destruct block as [[bx by_] bz].
  unfold print_header. simpl app.
  cbn [h_name h_kid h_grid h_block h_shmem h_nregs h_binver h_stream h_shbase h_localbase
       h_nvbit h_tracer h_lineinfo hdim].
  rewrite read_header_step. unfold update_header at 1.
  change (key_index key_name) with (Some 0%nat). cbv iota beta zeta.
  rewrite read_header_step. unfold update_header at 1.
  change (key_index key_kid) with (Some 1%nat). cbv iota beta zeta.
  rewrite scan_d32_print by assumption.
  rewrite read_header_step. unfold update_header at 1.
  change (key_index key_grid) with (Some 2%nat). cbv iota beta zeta.
  rewrite scan_dim3_print by assumption.
  rewrite read_header_step. unfold update_header at 1.
  change (key_index key_block) with (Some 3%nat). cbv iota beta zeta.
  rewrite scan_dim3_print by assumption.
  rewrite read_header_step. unfold update_header at 1.
  change (key_index key_shmem) with (Some 4%nat). cbv iota beta zeta.
  rewrite scan_d32_print by assumption.
  rewrite read_header_step. unfold update_header at 1.
  change (key_index key_nregs) with (Some 5%nat). cbv iota beta zeta.
  rewrite scan_d32_print by assumption.
  rewrite read_header_step. unfold update_header at 1.
  change (key_index key_binver) with (Some 6%nat). cbv iota beta zeta.
  rewrite scan_d32_print by assumption.
  rewrite read_header_step. unfold update_header at 1.
  change (key_index key_stream) with (Some 7%nat). cbv iota beta zeta.
  rewrite scan_d32_print by assumption.
  rewrite read_header_step. unfold update_header at 1.
  change (key_index key_shbase) with (Some 8%nat). cbv iota beta zeta.
  rewrite scan_v64_print by lia.
  rewrite read_header_step. unfold update_header at 1.
  change (key_index key_localbase) with (Some 9%nat). cbv iota beta zeta.
  rewrite scan_v64_print by lia.
  rewrite read_header_step. unfold update_header at 1.
  change (key_index key_nvbit) with (Some 10%nat). cbv iota beta zeta.
  rewrite read_header_step. unfold update_header at 1.
  change (key_index key_tracer) with (Some 11%nat). cbv iota beta zeta.
  rewrite read_header_step. unfold update_header at 1.
  change (key_index key_lineinfo) with (Some 12%nat). cbv iota beta zeta.
  rewrite lineinfo_print.
  reflexivity.
Qed.

(* ------------------------------------------------------------------ *)
(** * File level round trip *)

(** Parsing the printed file of a kernel returns the header, and for every
    thread block its id, for every warp its id, its instruction count and the
    parsed record of every instruction (stamped with block and warp id) - for
    any number of blocks, of warps per block and of instructions per warp,
    none included. *)
Theorem parse_print_kernel_roundtrip (k : kernel) :
  valid_kernel k ->
  parse_kernel (print_kernel k) = Some (k_hdr k, map expected_block (k_blocks k)).
Proof.
  unfold valid_kernel, valid_kernelb. intros H. apply andb_prop in H. destruct H as [Hh Hb].
  unfold parse_kernel, print_kernel.
  change ([LBlank; format_line; LBlank; LBlank; LBlank] ++ print_blocks (k_blocks k))
    with (LBlank :: format_line :: LBlank :: LBlank :: LBlank :: print_blocks (k_blocks k)).
  rewrite read_header_print by exact Hh.
  match goal with |- context [read_blocks (S (S ?n))] =>
    assert (Hn: (List.length (print_blocks (k_blocks k)) <= n)%nat)
      by (rewrite app_length; simpl List.length; lia);
    revert Hn; generalize n
  end.
  intros n Hn.
  rewrite !read_blocks_blank by reflexivity.
  rewrite read_blocks_print; auto.
  pose proof (print_blocks_length (k_blocks k)). lia.
Qed.

(** ** parse o print is injective on valid kernels *)

Lemma map_inj_Forall {A B} (f g : A -> B) (P : A -> Prop) :
  (forall x y, P x -> P y -> f x = g y -> x = y) ->
  forall l l', Forall P l -> Forall P l' -> map f l = map g l' -> l = l'.
Proof.
  intros Hf. induction l as [|x l IH]; intros [|y l'] Hl Hl' H; simpl in H; try discriminate.
  - reflexivity.
  - inversion Hl; subst. inversion Hl'; subst. injection H as E1 E2.
    f_equal; auto.
Qed.

Lemma forallb_Forall {A} (f : A -> bool) l : forallb f l = true -> Forall (fun x => f x = true) l.
Proof. intros H. apply Forall_forall. rewrite forallb_forall in H. exact H. Qed.

Lemma stamp_expected_inj tb w tb' w' i j :
  stamp tb w (expected i) = stamp tb' w' (expected j) -> expected i = expected j.
Proof.
  unfold expected.
  destruct (exp_mem (i_mem i) (i_imm i)) as [[[[[[a1 a2] a3] a4] a5] a6] a7].
  destruct (exp_mem (i_mem j) (i_imm j)) as [[[[[[b1 b2] b3] b4] b5] b6] b7].
  unfold stamp. simpl. intros H. inversion H. reflexivity.
Qed.

Lemma expected_warp_inj tb tb' w w' :
  valid_warpb w = true -> valid_warpb w' = true ->
  expected_warp tb w = expected_warp tb' w' -> w = w'.
Proof.
  unfold valid_warpb, expected_warp. destruct w as [id is], w' as [id' is']. simpl.
  intros V V' H.
  apply andb_prop in V. destruct V as [_ V]. apply andb_prop in V'. destruct V' as [_ V'].
  injection H as Hid _ Hm. subst id'. f_equal.
  eapply (map_inj_Forall _ _ (fun i => validb i = true)); [| apply forallb_Forall; exact V
                                                         | apply forallb_Forall; exact V' | exact Hm].
  intros x y Vx Vy E. apply stamp_expected_inj in E.
  apply expected_inj; auto using valid_mem_of.
Qed.

Lemma expected_block_inj b b' :
  valid_blockb b = true -> valid_blockb b' = true ->
  expected_block b = expected_block b' -> b = b'.
Proof.
  unfold valid_blockb, expected_block. destruct b as [id ws], b' as [id' ws']. simpl.
  intros V V' H.
  apply andb_prop in V. destruct V as [_ V]. apply andb_prop in V'. destruct V' as [_ V'].
  injection H as Hid Hm. subst id'. f_equal.
  eapply (map_inj_Forall _ _ (fun w => valid_warpb w = true)); [| apply forallb_Forall; exact V
                                                              | apply forallb_Forall; exact V' | exact Hm].
  intros x y Vx Vy E. eapply expected_warp_inj; eauto.
Qed.

Theorem parse_print_kernel_exact : forall k1 k2, valid_kernel k1 -> valid_kernel k2 ->
  parse_kernel (print_kernel k1) = parse_kernel (print_kernel k2) -> k1 = k2.
Proof.
  intros k1 k2 V1 V2 H.
  rewrite (parse_print_kernel_roundtrip _ V1), (parse_print_kernel_roundtrip _ V2) in H.
  injection H as Hh Hb.
  unfold valid_kernel, valid_kernelb in V1, V2.
  apply andb_prop in V1. destruct V1 as [_ V1]. apply andb_prop in V2. destruct V2 as [_ V2].
  destruct k1 as [h1 b1], k2 as [h2 b2]. simpl in *. subst h2. f_equal.
  eapply (map_inj_Forall _ _ (fun b => valid_blockb b = true)); [| apply forallb_Forall; exact V1
                                                               | apply forallb_Forall; exact V2 | exact Hb].
  intros x y Vx Vy E. apply expected_block_inj; auto.
Qed.

(** the hypotheses are satisfiable by a kernel with a block of three warps
    (one of them empty) and a block without warps *)
Example kernel_roundtrip_example :
  let i1 := mkInst 160 4294967295 [4] "LDG.E" [4] (Some (4, MStride 140397977996800 4)) 0 in
  let i2 := mkInst 176 65535 [] "STG.E" [6; 9] (Some (4, MList [140397978197504; 140397978197508])) (-1) in
  let i3 := mkInst 256 4294967295 [] "EXIT" [] None 0 in
  let h := mkHeader "_Z9vectorAddPKfS0_Pfi" 1 (196, 1, 1) (256, 1, 1) 0 12 80 0
                    140399142240256 140399108685824 "1.7" "5" false in
  let k := mkKernel h [mkBlock (0, 0, 0) [mkWarp 0 [i1; i2; i3]; mkWarp 1 []; mkWarp 2 [i3]];
                       mkBlock (1, 0, 0) []] in
  valid_kernel k /\
  (List.length (print_kernel k) = 43%nat) /\
  exists w0 w2,
    (parse_kernel (print_kernel k) = Some (h, [((0, 0, 0), [(0, 3, w0); (1, 0, []); (2, 1, w2)]);
                                               ((1, 0, 0), [])])) /\
    (map p_pc w0 = [160; 176; 256]) /\ (map p_warp w2 = [2]).
Proof.
  repeat split; try (vm_compute; reflexivity).
  eexists. eexists. split; [vm_compute; reflexivity|]. split; reflexivity.
Qed.

(** A whole kernel list - any number of launches, launches that share kernel
    name and launch configuration included - parses launch by launch to what
    was serialised for THAT launch; reading other files before or after does
    not matter. *)
Theorem parse_dir_roundtrip (ks : list kernel) :
  Forall valid_kernel ks ->
  parse_dir (map print_kernel ks) = map (fun k => Some (k_hdr k, map expected_block (k_blocks k))) ks.
Proof.
  unfold parse_dir. induction 1 as [|k r V _ IH]; simpl; [reflexivity|].
  rewrite (parse_print_kernel_roundtrip k V), IH. reflexivity.
Qed.

Theorem parse_dir_independent (before after : list (list line)) (f : list line) :
  nth (List.length before) (parse_dir (before ++ f :: after)) None = parse_kernel f.
Proof.
  unfold parse_dir. rewrite map_app. rewrite app_nth2 by (rewrite map_length; auto).
  rewrite map_length, Nat.sub_diag. reflexivity.
Qed.
