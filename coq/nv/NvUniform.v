(** The uniform platform of the Go builders - D devices, each with S SMs, each
    with C sub-cores, numbered breadth first - is a well-formed topology with
    the three levels GPU / SM / sub-core, for all D, S, C >= 1. *)
From Coq Require Import List NArith ZArith Bool Arith Lia.
From VNv Require Import NvSim NvSimProofs NvSimWake NvSimThm NvSimPot NvSimTerm.
Import ListNotations.
Open Scope nat_scope.

Lemma nth_map_seq {A} (f : nat -> A) a len g d :
  g < len -> nth g (map f (seq a len)) d = f (a + g).
Proof.
  intros L. rewrite nth_indep with (d' := f 0) by (rewrite map_length, seq_length; auto).
  rewrite map_nth. rewrite seq_nth; auto.
Qed.

Lemma nth_repeat_nil {A} n p : nth p (repeat (@nil A) n) [] = [].
Proof. revert p; induction n; destruct p; simpl; auto. Qed.

Lemma existsb_seq u a len : existsb (Nat.eqb u) (seq a len) = true <-> a <= u < a + len.
Proof.
  rewrite existsb_exists. split.
  - intros (x & Hx & E). apply Nat.eqb_eq in E. subst. apply in_seq in Hx. lia.
  - intros H. exists u. split; [apply in_seq; lia | apply Nat.eqb_refl].
Qed.

Lemma find_parent_at l u : forall k p,
  p < length l -> existsb (Nat.eqb u) (nth p l []) = true ->
  (forall q, q < p -> existsb (Nat.eqb u) (nth q l []) = false) ->
  find_parent l u k = k + p.
Proof.
  induction l as [|ks r IH]; intros k p L E N; simpl in L; [lia|].
  destruct p; simpl in *.
  - rewrite E. lia.
  - rewrite (N 0) by lia. rewrite (IH (S k) p); try lia; auto.
    intros q Hq. apply (N (S q)). lia.
Qed.

Section Uniform.
  Variables D M C : nat.
  Hypothesis HD : 1 <= D.
  Hypothesis HS : 1 <= M.
  Hypothesis HC : 1 <= C.

  Let T := uniform_topo D M C.
  Let n := 1 + D + D * M + D * M * C.

  Lemma uk_length : length (uniform_kids D M C) = n.
  Proof.
    unfold uniform_kids, n. rewrite !app_length, !map_length, !seq_length, repeat_length. simpl. lia.
  Qed.

  Lemma size_uniform : sizeT T = n.
  Proof. unfold sizeT, T, uniform_topo, topo_of_kids; simpl. apply uk_length. Qed.

  Lemma kidsT_uniform p : kidsT T p = nth p (uniform_kids D M C) [].
  Proof. reflexivity. Qed.

  Lemma kids_root : kidsT T 0 = seq 1 D.
  Proof. reflexivity. Qed.

  Lemma kids_gpu g : g < D -> kidsT T (1 + g) = seq (1 + D + g * M) M.
  Proof.
    intros L. rewrite kidsT_uniform. unfold uniform_kids. simpl.
    rewrite app_nth1 by (rewrite map_length, seq_length; auto).
    rewrite nth_map_seq by auto. reflexivity.
  Qed.

  Lemma kids_sm m : m < D * M -> kidsT T (1 + D + m) = seq (1 + D + D * M + m * C) C.
  Proof.
    intros L. rewrite kidsT_uniform. unfold uniform_kids.
    replace (1 + D + m) with (Datatypes.S (D + m)) by lia. simpl.
    rewrite app_nth2 by (rewrite map_length, seq_length; lia).
    rewrite map_length, seq_length. replace (D + m - D) with m by lia.
    rewrite app_nth1 by (rewrite map_length, seq_length; auto).
    rewrite nth_map_seq by auto. reflexivity.
  Qed.

  Lemma kids_leaf p : 1 + D + D * M <= p -> kidsT T p = [].
  Proof.
    intros L. rewrite kidsT_uniform. unfold uniform_kids.
    destruct p; [lia|]. simpl.
    rewrite app_nth2 by (rewrite map_length, seq_length; lia).
    rewrite map_length, seq_length.
    rewrite app_nth2 by (rewrite map_length, seq_length; lia).
    rewrite map_length, seq_length. apply nth_repeat_nil.
  Qed.

  (** every node number falls into one of the four classes *)
  Lemma node_class p :
    p = 0 \/ (exists g, g < D /\ p = 1 + g) \/ (exists m, m < D * M /\ p = 1 + D + m) \/ 1 + D + D * M <= p.
  Proof.
    destruct (Nat.eq_dec p 0); auto. right.
    destruct (Nat.le_gt_cases p D).
    - left. exists (p - 1). lia.
    - right. destruct (Nat.le_gt_cases (1 + D + D * M) p); auto.
      left. exists (p - 1 - D). lia.
  Qed.

  (** membership in a children list, as intervals *)
  Lemma in_kids p c : In c (kidsT T p) ->
    (p = 0 /\ 1 <= c <= D) \/
    (exists g, g < D /\ p = 1 + g /\ 1 + D + g * M <= c < 1 + D + g * M + M) \/
    (exists m, m < D * M /\ p = 1 + D + m /\ 1 + D + D * M + m * C <= c < 1 + D + D * M + m * C + C).
  Proof.
    destruct (node_class p) as [->|[(g & Lg & ->)|[(m & Lm & ->)|L]]].
    - rewrite kids_root, in_seq. left; lia.
    - rewrite kids_gpu, in_seq by auto. right; left. exists g. lia.
    - rewrite kids_sm, in_seq by auto. right; right. exists m. lia.
    - rewrite kids_leaf by auto. intros [].
  Qed.

  Lemma existsb_kids p c : existsb (Nat.eqb c) (kidsT T p) = true <-> In c (kidsT T p).
  Proof.
    rewrite existsb_exists. split.
    - intros (x & Hx & E). apply Nat.eqb_eq in E. subst; auto.
    - intros H. exists c. split; auto. apply Nat.eqb_refl.
  Qed.

  Lemma sm_bound g j : g < D -> j < M -> g * M + j < D * M.
  Proof. intros. nia. Qed.
  Lemma sub_bound m j : m < D * M -> j < C -> m * C + j < D * M * C.
  Proof. intros. nia. Qed.

  Lemma kid_lt p c : In c (kidsT T p) -> p < c /\ c < n.
  Proof.
    intros H. apply in_kids in H. unfold n.
    destruct H as [(-> & H)|[(g & Lg & -> & H)|(m & Lm & -> & H)]].
    - lia.
    - pose proof (sm_bound g (c - (1 + D + g * M)) Lg ltac:(lia)). nia.
    - pose proof (sub_bound m (c - (1 + D + D * M + m * C)) Lm ltac:(lia)). nia.
  Qed.

  (** children lists are pairwise disjoint and ordered *)
  Lemma gpu_range g c : g < D -> 1 + D + g * M <= c < 1 + D + g * M + M ->
    1 + D <= c < 1 + D + D * M /\ (c - (1 + D)) / M = g.
  Proof.
    intros Lg H. pose proof (sm_bound g (c - (1 + D + g * M)) Lg ltac:(lia)). split; [lia|].
    symmetry. apply (Nat.div_unique _ _ _ (c - (1 + D + g * M))); lia.
  Qed.
  Lemma sm_range m c : m < D * M -> 1 + D + D * M + m * C <= c < 1 + D + D * M + m * C + C ->
    1 + D + D * M <= c /\ (c - (1 + D + D * M)) / C = m.
  Proof.
    intros Lm H. split; [lia|].
    symmetry. apply (Nat.div_unique _ _ _ (c - (1 + D + D * M + m * C))); lia.
  Qed.

  Lemma kids_disjoint p q c : In c (kidsT T p) -> In c (kidsT T q) -> p = q.
  Proof.
    intros Hp Hq. apply in_kids in Hp. apply in_kids in Hq.
    destruct Hp as [(Ep & Hp)|[(g & Lg & Ep & Hp)|(m & Lm & Ep & Hp)]];
      destruct Hq as [(Eq & Hq)|[(g' & Lg' & Eq & Hq)|(m' & Lm' & Eq & Hq)]]; subst p q; auto;
      try (pose proof (gpu_range g c Lg Hp)); try (pose proof (gpu_range g' c Lg' Hq));
      try (pose proof (sm_range m c Lm Hp)); try (pose proof (sm_range m' c Lm' Hq)); lia.
  Qed.

  Lemma parentT_uniform u : u < n ->
    parentT T u = find_parent (uniform_kids D M C) u 0.
  Proof.
    intros L. unfold parentT, T, uniform_topo, topo_of_kids; cbn [t_parent].
    rewrite uk_length. rewrite nth_map_seq by auto. reflexivity.
  Qed.

  Lemma parent_of_kid p c : In c (kidsT T p) -> parentT T c = p.
  Proof.
    intros H. destruct (kid_lt p c H) as (A & B).
    rewrite parentT_uniform by auto.
    rewrite (find_parent_at _ c 0 p); auto.
    - rewrite uk_length. lia.
    - rewrite <- kidsT_uniform. apply existsb_kids; auto.
    - intros q Hq. rewrite <- kidsT_uniform.
      destruct (existsb (Nat.eqb c) (kidsT T q)) eqn:E; auto.
      apply existsb_kids in E. pose proof (kids_disjoint _ _ _ H E). lia.
  Qed.

  Lemma has_parent u : 0 < u < n -> exists p, In u (kidsT T p).
  Proof.
    intros Hu. destruct (node_class u) as [->|[(g & Lg & ->)|[(m & Lm & ->)|L]]]; [lia| | |].
    - exists 0. rewrite kids_root, in_seq. lia.
    - exists (1 + m / M). assert (m / M < D) by (apply Nat.div_lt_upper_bound; lia).
      rewrite kids_gpu, in_seq by auto.
      pose proof (Nat.mul_div_le m M ltac:(lia)). pose proof (Nat.mul_succ_div_gt m M ltac:(lia)). nia.
    - unfold n in Hu. set (j := u - (1 + D + D * M)).
      exists (1 + D + j / C). assert (j / C < D * M) by (apply Nat.div_lt_upper_bound; subst j; nia).
      rewrite kids_sm, in_seq by auto.
      pose proof (Nat.mul_div_le j C ltac:(lia)). pose proof (Nat.mul_succ_div_gt j C ltac:(lia)). subst j. nia.
  Qed.

  (** kinds by class *)
  Lemma kindT_uniform u : u < n ->
    kindT T u = kind_of_depth
      (if Nat.eqb u 0 then 0
       else if Nat.eqb (parentT T u) 0 then 1
            else if Nat.eqb (parentT T (parentT T u)) 0 then 2 else 3).
  Proof.
    intros L. unfold kindT, T, uniform_topo, topo_of_kids; cbn [t_kind].
    rewrite uk_length. rewrite nth_map_seq by auto. reflexivity.
  Qed.

  Lemma kind_root_u : kindT T 0 = KDriver.
  Proof. rewrite kindT_uniform by (unfold n; lia). reflexivity. Qed.

  Lemma kind_gpu g : g < D -> kindT T (1 + g) = KGpu.
  Proof.
    intros L. assert (I : In (1 + g) (kidsT T 0)) by (rewrite kids_root, in_seq; lia).
    rewrite kindT_uniform by (apply (kid_lt 0); auto).
    rewrite (parent_of_kid 0) by auto. reflexivity.
  Qed.

  Lemma kind_sm m : m < D * M -> kindT T (1 + D + m) = KSm.
  Proof.
    intros L. destruct (has_parent (1 + D + m)) as (p & I). { unfold n. nia. }
    pose proof (in_kids _ _ I) as [(-> & H)|[(g & Lg & -> & H)|(m' & Lm' & -> & H)]]; try lia.
    - rewrite kindT_uniform by (apply (kid_lt _ _ I)).
      rewrite (parent_of_kid _ _ I).
      assert (I0 : In (1 + g) (kidsT T 0)) by (rewrite kids_root, in_seq; lia).
      rewrite (parent_of_kid _ _ I0). reflexivity.
  Qed.

  Lemma kind_sub u : 1 + D + D * M <= u -> kindT T u = KSub.
  Proof.
    intros L. destruct (Nat.lt_ge_cases u n) as [Lu|G].
    2:{ unfold kindT. apply nth_overflow. unfold T, uniform_topo, topo_of_kids; cbn [t_kind].
        rewrite map_length, seq_length, uk_length. auto. }
    destruct (has_parent u) as (p & I); [lia|].
    pose proof (in_kids _ _ I) as [(-> & H)|[(g & Lg & -> & H)|(m' & Lm' & -> & H)]]; try lia.
    - exfalso. pose proof (sm_bound g (u - (1 + D + g * M)) Lg ltac:(lia)). nia.
    - rewrite kindT_uniform by auto. rewrite (parent_of_kid _ _ I).
      destruct (has_parent (1 + D + m')) as (p2 & I2). { unfold n. nia. }
      rewrite (parent_of_kid _ _ I2).
      pose proof (in_kids _ _ I2) as [(-> & H2)|[(g & Lg & -> & H2)|(m2 & Lm2 & -> & H2)]]; try lia;
        try (exfalso; nia).
      destruct u; [lia|reflexivity].
  Qed.

  Theorem uniform_topo_wf : wf_topo T /\ has_kids T /\ three_levels T.
  Proof.
    split; [|split].
    - constructor.
      + intros p c H. destruct (kid_lt p c H). rewrite size_uniform. split; [|split]; auto.
        apply parent_of_kid; auto.
      + intros p. destruct (node_class p) as [->|[(g & Lg & ->)|[(m & Lm & ->)|L]]].
        * rewrite kids_root. apply seq_NoDup.
        * rewrite kids_gpu by auto. apply seq_NoDup.
        * rewrite kids_sm by auto. apply seq_NoDup.
        * rewrite kids_leaf by auto. constructor.
      + intros u Hu. rewrite size_uniform in Hu. destruct (has_parent u Hu) as (p & I).
        rewrite (parent_of_kid _ _ I). auto.
      + apply kind_root_u.
      + intros u Hu. destruct (node_class u) as [->|[(g & Lg & ->)|[(m & Lm & ->)|L]]]; [lia| | |].
        * rewrite kind_gpu by auto. discriminate.
        * rewrite kind_sm by auto. discriminate.
        * rewrite kind_sub by auto. discriminate.
      + intros u K. destruct (node_class u) as [->|[(g & Lg & ->)|[(m & Lm & ->)|L]]].
        * rewrite kind_root_u in K. discriminate.
        * rewrite kind_gpu in K by auto. discriminate.
        * rewrite kind_sm in K by auto. discriminate.
        * apply kids_leaf; auto.
      + rewrite size_uniform. unfold n. lia.
    - intros u Lu K. destruct (node_class u) as [->|[(g & Lg & ->)|[(m & Lm & ->)|L]]].
      + rewrite kids_root. destruct D; [lia|discriminate].
      + rewrite kids_gpu by auto. destruct M; [lia|discriminate].
      + rewrite kids_sm by auto. destruct C; [lia|discriminate].
      + rewrite kind_sub in K by auto. congruence.
    - assert (L1 : forall u, In u (level_nodes T 1) -> exists g, g < D /\ u = 1 + g).
      { simpl. rewrite app_nil_r, kids_root. intros u H. apply in_seq in H. exists (u - 1). lia. }
      assert (L2 : forall u, In u (level_nodes T 2) -> exists m, m < D * M /\ u = 1 + D + m).
      { intros u H. change (level_nodes T 2) with (flat_map (kidsT T) (level_nodes T 1)) in H.
        apply in_flat_map in H. destruct H as (p & Hp & Hu). destruct (L1 p Hp) as (g & Lg & ->).
        rewrite kids_gpu, in_seq in Hu by auto. exists (u - 1 - D).
        pose proof (sm_bound g (u - (1 + D + g * M)) Lg ltac:(lia)). lia. }
      split; [|split].
      + intros u H. destruct (L1 u H) as (g & Lg & ->). apply kind_gpu; auto.
      + intros u H. destruct (L2 u H) as (m & Lm & ->). apply kind_sm; auto.
      + intros u H. change (level_nodes T 3) with (flat_map (kidsT T) (level_nodes T 2)) in H.
        apply in_flat_map in H. destruct H as (p & Hp & Hu). destruct (L2 p Hp) as (m & Lm & ->).
        rewrite kids_sm, in_seq in Hu by auto. apply kind_sub. lia.
  Qed.
End Uniform.

(** The whole property on the platforms the Go builders can produce. *)
Theorem uniform_property (D M C : nat) trace es s :
  1 <= D -> 1 <= M -> 1 <= C ->
  let T := uniform_topo D M C in
  runs T (init T trace) es s ->
  (Z.of_nat (length es) <= mu T (init T trace))%Z /\
  (level_total T s 2 <= Z.of_nat (n_warps trace))%Z /\
  (level_total T s 3 <= Z.of_nat (n_insts trace))%Z /\
  ((forall e, enabled s e = false) ->
   (forall u, u < sizeT T -> idle_node T (nd s u) u) /\
   level_total T s 2 = Z.of_nat (n_warps trace) /\ level_total T s 3 = Z.of_nat (n_insts trace)).
Proof.
  intros HD HM HC T R. destruct (uniform_topo_wf D M C HD HM HC) as (W & HK & TL). fold T in W, HK, TL.
  destruct (terminates_thm T trace es s W HK R) as (B & I).
  destruct (counts_thm T trace es s W TL R) as (C2 & C3 & CE).
  split; [|split; [|split]]; auto.
  intros St. split; [apply I; auto|]. apply CE; auto. apply stuck_quiescent; auto.
Qed.
