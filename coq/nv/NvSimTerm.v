(** Every run of the model NvSim.v is finite: a measure that decreases with
    every event the engine handles. *)
From Coq Require Import List NArith ZArith Bool Arith Lia.
From VNv Require Import NvSim NvSimProofs NvSimWake NvSimPot.
Import ListNotations.
Open Scope Z_scope.

(** * the measure *)

Fixpoint Phi_from (T : topo) (i : nat) (ns : list node) : Z :=
  match ns with [] => 0 | n :: r => phi (kindT T i) n + Phi_from T (S i) r end.
Definition Phi (T : topo) (ns : list node) : Z := Phi_from T O ns.

Lemma Phi_from_setl T i ns u n' : (u < length ns)%nat ->
  Phi_from T i (setl u n' ns) = Phi_from T i ns - phi (kindT T (i + u)) (nth u ns dnode) + phi (kindT T (i + u)) n'.
Proof.
  revert i u. induction ns; intros i u L; simpl in L; [lia|].
  destruct u; unfold setl; simpl.
  - rewrite Nat.add_0_r. lia.
  - fold (setl u n' ns). rewrite IHns by lia. replace (S i + u)%nat with (i + S u)%nat by lia. lia.
Qed.

Lemma Phi_setl T ns u n' : (u < length ns)%nat ->
  Phi T (setl u n' ns) = Phi T ns - phi (kindT T u) (getn ns u) + phi (kindT T u) n'.
Proof. intros. unfold Phi. rewrite Phi_from_setl; auto. Qed.

Lemma sumz_nonneg {A} (f : A -> Z) l : (forall x, 0 <= f x) -> 0 <= sumz f l.
Proof. intros H. induction l; simpl; [lia|]. pose proof (H a). lia. Qed.

Lemma phi_nonneg k n : 0 <= phi k n.
Proof.
  unfold phi, zlen.
  pose proof (sumz_pot_nonneg (undisp n)).
  pose proof (sumz_nonneg (fun x : nat * item => pot (snd x) - 1) (dn_out n) ltac:(intros x; pose proof (pot_ge (snd x)); lia)).
  pose proof (sumz_nonneg (fun x : item => pot x - 2) (up_in n) ltac:(intros x; pose proof (pot_ge x); lia)).
  destruct k; lia.
Qed.

Lemma Phi_nonneg T ns : 0 <= Phi T ns.
Proof.
  unfold Phi. generalize O. induction ns; intros i; simpl; [lia|].
  pose proof (phi_nonneg (kindT T i) a). pose proof (IHns (S i)). lia.
Qed.

Fixpoint cntb (l : list bool) : Z :=
  match l with [] => 0 | b :: r => (if b then 1 else 0) + cntb r end.
Definition flagsum (s : sys) : Z := cntb (cur s) + 2 * cntb (nxt s) + cntb (cpend s).
Definition mu (T : topo) (s : sys) : Z := (4 * Z.of_nat (sizeT T) + 1) * Phi T (nodes s) + flagsum s.

Lemma cntb_cons b r : cntb (b :: r) = (if b then 1 else 0) + cntb r.
Proof. reflexivity. Qed.

Lemma cntb_bounds l : 0 <= cntb l <= Z.of_nat (length l).
Proof.
  induction l; [simpl; lia|]. rewrite cntb_cons. change (length (a :: l)) with (S (length l)).
  destruct a; lia.
Qed.

Lemma cntb_clear l u : nth u l false = true -> cntb (setl u false l) = cntb l - 1.
Proof.
  revert u; induction l; destruct u; cbn [nth]; try discriminate; intros H.
  - subst. unfold setl; cbn [upd]. rewrite !cntb_cons. lia.
  - unfold setl; cbn [upd]. fold (setl u false l). rewrite !cntb_cons, IHl; auto. lia.
Qed.

Lemma cntb_all_false l : forallb negb l = true -> cntb l = 0.
Proof.
  induction l; auto. cbn [forallb]. rewrite cntb_cons. intros H. apply andb_prop in H. destruct H as [A B].
  destruct a; try discriminate. rewrite IHl; auto.
Qed.
Lemma cntb_exists l : existsb (fun b => b) l = true -> 1 <= cntb l.
Proof.
  induction l; cbn [existsb]; try discriminate. rewrite cntb_cons. pose proof (cntb_bounds l).
  destruct a; cbn [orb]; [lia|]. intros H'; specialize (IHl H'). lia.
Qed.
Lemma cntb_map_false (l : list bool) : cntb (map (fun _ => false) l) = 0.
Proof. induction l; auto. Qed.

Lemma flagsum_bounds T s : sinv T s -> 0 <= flagsum s <= 4 * Z.of_nat (sizeT T).
Proof.
  intros [(L1 & L2 & L3) _ _]. unfold flagsum.
  pose proof (cntb_bounds (cur s)). pose proof (cntb_bounds (nxt s)). pose proof (cntb_bounds (cpend s)).
  rewrite L1, L2, L3 in *. lia.
Qed.

(** counters of every node are non-negative *)
Lemma node_nonneg T ns u : wf_topo T -> dinv T ns -> (u < sizeT T)%nat ->
  0 <= fin (getn ns u) /\ 0 <= unfin (getn ns u).
Proof.
  intros W D L. destruct (Nat.eq_dec u 0) as [->|N].
  - destruct (d_root T ns D) as (-> & _). split; [lia|].
    assert (K : kindT T 0 <> KSub) by (rewrite (w_root T W); discriminate).
    pose proof (d_link T ns D 0%nat L K) as LK. rewrite (k_unfin _ _ _ LK).
    pose proof (NoDup_incl_length (k_nodup _ _ _ LK) (k_incl _ _ _ LK)). lia.
  - destruct (parent_link T ns u W D L N) as (I & _ & LP). apply (k_kid _ _ _ LP u I).
Qed.

Lemma apply_eff0 T u nx cp : apply_eff T u eff0 nx cp = (nx, cp).
Proof. reflexivity. Qed.

Lemma mu_tick T s u : wf_topo T -> inv T s -> enabled s (Tick u) = true ->
  mu T (step_tick true T s u) + 1 <= mu T s.
Proof.
  intros W I En. pose proof I as [D S].
  pose proof (enabled_tick_lt T s u S En) as L.
  pose proof (inv_step T s (Tick u) W I En) as [D' S']. simpl in D', S'.
  pose proof (flagsum_bounds T _ S') as FB'. pose proof (flagsum_bounds T _ S) as FB.
  revert D' S' FB'. unfold step_tick, nd. fold (getn (nodes s) u).
  destruct (tick_node true (kindT T u) u (getn (nodes s) u)) as [[n' pr] e] eqn:TN.
  destruct (node_nonneg T _ u W D L) as (Hf & Hu).
  destruct (tick_pot _ _ _ _ _ _ TN Hf Hu) as [(-> & -> & ->)|PH].
  - rewrite apply_eff0. intros _ _ _. unfold mu, flagsum; simpl.
    unfold getn. rewrite setl_same. rewrite cntb_clear by (simpl in En; auto). lia.
  - destruct (apply_eff T u e (if pr then setl u true (nxt s) else nxt s) (cpend s)) as [nx' cp'].
    intros D' S' FB'. unfold mu in *. cbn [nodes] in *.
    rewrite Phi_setl by (rewrite (d_len T _ D); auto).
    pose proof (Phi_nonneg T (nodes s)). nia.
Qed.

Lemma mu_adv T s : inv T s -> enabled s Adv = true -> mu T (step_adv s) + 1 <= mu T s.
Proof.
  intros [D S] En. simpl in En. apply andb_prop in En. destruct En as [A B].
  unfold mu, flagsum, step_adv; cbn [nodes cur nxt cpend].
  rewrite (cntb_all_false _ A), cntb_map_false. pose proof (cntb_exists _ B). lia.
Qed.

(** a forwarded message lowers the potential by one *)
Lemma Phi_down_step T ns p c it rest :
  wf_topo T -> dinv T ns -> dn_out (getn ns p) = (c, it) :: rest ->
  Phi T (upd p (set_dn_out rest) (upd c (push_up_in it) ns)) = Phi T ns - 1.
Proof.
  intros W D E. destruct (dinv_down_step T ns p c it rest W D E) as (_ & Ic & Lp & ->).
  destruct (w_kids T W p c Ic) as (Lpc & Lc & _). pose proof (d_len T _ D) as LN.
  rewrite Phi_setl by (rewrite setl_length; lia).
  rewrite Phi_setl by lia.
  rewrite (getn_setl ns c _ p) by lia. rewrite fupd_other by lia.
  unfold phi, set_dn_out, push_up_in; cbn [undisp unfin fin free total rlog up_in up_out dn_in dn_out].
  rewrite E, sumz_app. cbn [sumz snd]. destruct (kindT T p), (kindT T c); lia.
Qed.

Lemma Phi_up_step T ns p c m rest :
  wf_topo T -> dinv T ns -> In c (kidsT T p) -> up_out (getn ns c) = m :: rest ->
  Phi T (upd c (set_up_out rest) (upd p (push_dn_in m) ns)) = Phi T ns - 1.
Proof.
  intros W D Ic E. destruct (dinv_up_step T ns p c m rest W D Ic E) as (_ & ->).
  destruct (w_kids T W p c Ic) as (Lpc & Lc & _). pose proof (d_len T _ D) as LN.
  rewrite Phi_setl by (rewrite setl_length; lia).
  rewrite Phi_setl by lia.
  rewrite (getn_setl ns c _ p) by lia. rewrite fupd_other by lia.
  unfold phi, set_up_out, push_dn_in, zlen; cbn [undisp unfin fin free total rlog up_in up_out dn_in dn_out].
  rewrite E, app_length. cbn [length]. destruct (kindT T p), (kindT T c); lia.
Qed.

Definition b2z (b : bool) : Z := if b then 1 else 0.
Definition lmeas (T : topo) (st : loop_st) : Z := Phi T (fst (fst st)) + b2z (snd st).

Lemma lmeas_fwd_down T fuel p st :
  wf_topo T -> dinv T (fst (fst st)) -> lmeas T (fwd_down fuel p st) <= lmeas T st.
Proof.
  intros W. revert st. induction fuel; intros [[ns nx] pr] D; simpl in *; [lia|].
  destruct (dn_out (nth p ns dnode)) as [|[c it] rest] eqn:E; [lia|].
  destruct (full (up_in (nth c ns dnode))) eqn:F; [lia|].
  eapply Z.le_trans; [apply IHfuel|].
  - simpl. apply (dinv_down_step T ns p c it rest W D E).
  - unfold lmeas; simpl.
    change (Phi T (upd p (set_dn_out rest) (upd c (push_up_in it) ns)) + 1 <= Phi T ns + b2z pr).
    rewrite (Phi_down_step T ns p c it rest W D E). destruct pr; simpl; lia.
Qed.

Lemma lmeas_fwd_up T fuel c p st :
  wf_topo T -> In c (kidsT T p) -> dinv T (fst (fst st)) -> lmeas T (fwd_up fuel c p st) <= lmeas T st.
Proof.
  intros W Ic. revert st. induction fuel; intros [[ns nx] pr] D; simpl in *; [lia|].
  destruct (up_out (nth c ns dnode)) as [|m rest] eqn:E; [lia|].
  destruct (full (dn_in (nth p ns dnode))) eqn:F; [lia|].
  eapply Z.le_trans; [apply IHfuel|].
  - simpl. apply (dinv_up_step T ns p c m rest W D Ic E).
  - unfold lmeas; simpl.
    change (Phi T (upd c (set_up_out rest) (upd p (push_dn_in m) ns)) + 1 <= Phi T ns + b2z pr).
    rewrite (Phi_up_step T ns p c m rest W D Ic E). destruct pr; simpl; lia.
Qed.

Lemma mu_conn T s p : wf_topo T -> inv T s -> enabled s (Conn p) = true ->
  mu T (step_conn T s p) + 1 <= mu T s.
Proof.
  intros W I En. pose proof I as [D SI].
  pose proof (inv_step T s (Conn p) W I En) as [D' S']. simpl in D', S'.
  pose proof (flagsum_bounds T _ S') as FB'. pose proof (flagsum_bounds T _ SI) as FB.
  revert D' S' FB'. unfold step_conn.
  set (ks := kidsT T p). set (len := S (length ks)). set (r := nth p (crr s) 0%nat).
  set (f := fun st i => fwd_port p ks ((i + r) mod len)%nat st).
  assert (CI0 : cinv T s p (nodes s, nxt s, false)).
  { destruct SI as [(L1 & L2 & L3) SC SK]. constructor; simpl; auto. intros v; split; auto. }
  assert (FOLD : forall l st, cinv T s p st -> cinv T s p (fold_left f l st) /\ lmeas T (fold_left f l st) <= lmeas T st).
  { induction l; simpl; intros st CI; [split; auto; lia|].
    assert (CI' : cinv T s p (f st a)) by (apply cinv_fwd_port; auto).
    destruct (IHl _ CI') as (A & B). split; auto.
    eapply Z.le_trans; [apply B|].
    unfold f, fwd_port. destruct ((a + r) mod len)%nat.
    - apply lmeas_fwd_down; auto. apply (ci_d _ _ _ _ CI).
    - destruct (nth_error ks n) eqn:Q; [|lia].
      apply lmeas_fwd_up; auto. { eapply nth_error_In; eauto. } apply (ci_d _ _ _ _ CI). }
  destruct (FOLD (seq 0 len) _ CI0) as (CI & LM).
  destruct (fold_left f (seq 0 len) (nodes s, nxt s, false)) as [[ns nx] pr].
  unfold lmeas in LM; simpl in LM.
  intros D' S' FB'. unfold mu in *. cbn [nodes] in *.
  destruct pr.
  - simpl in LM. pose proof (Phi_nonneg T ns). nia.
  - destruct (ci_np _ _ _ _ CI eq_refl) as (E1 & E2). simpl in E1, E2. subst ns nx.
    unfold flagsum in *. cbn [cur nxt cpend] in *.
    rewrite cntb_clear by (simpl in En; auto). lia.
Qed.

Theorem mu_step T s e : wf_topo T -> inv T s -> enabled s e = true ->
  mu T (step1 true T s e) + 1 <= mu T s.
Proof.
  intros W I En. destruct e; simpl.
  - apply mu_adv; auto.
  - apply mu_tick; auto.
  - apply mu_conn; auto.
Qed.

Lemma mu_nonneg T s : sinv T s -> 0 <= mu T s.
Proof.
  intros S. unfold mu. pose proof (Phi_nonneg T (nodes s)). pose proof (flagsum_bounds T s S). nia.
Qed.

(** every run is finite, with a bound that depends only on the platform size and the trace *)
Theorem runs_bounded T s es s' : wf_topo T -> inv T s -> runs T s es s' ->
  Z.of_nat (length es) <= mu T s.
Proof.
  intros W I R. induction R.
  - simpl. apply mu_nonneg. apply I.
  - pose proof (mu_step T s e W I H). pose proof (IHR (inv_step T s e W I H)).
    change (length (e :: es)) with (S (length es)). lia.
Qed.

(** a state in which the engine has no event to handle has empty queues *)
Lemma all_false_forallb (l : list bool) : (forall u, nth u l false = false) -> forallb negb l = true.
Proof.
  induction l; intros H; auto. cbn [forallb]. pose proof (H O) as H0. cbn [nth] in H0. subst a.
  cbn [negb andb]. apply IHl. intros u. apply (H (S u)).
Qed.

Lemma existsb_false_forallb (l : list bool) : existsb (fun b => b) l = false -> forallb negb l = true.
Proof.
  induction l; auto. cbn [existsb forallb]. intros H. apply orb_false_elim in H. destruct H as [-> H].
  cbn [negb andb]. auto.
Qed.

Lemma stuck_quiescent s : (forall e, enabled s e = false) -> quiescent s = true.
Proof.
  intros H. unfold quiescent.
  assert (A : forallb negb (cur s) = true) by (apply all_false_forallb; intros u; apply (H (Tick u))).
  assert (C : forallb negb (cpend s) = true) by (apply all_false_forallb; intros u; apply (H (Conn u))).
  pose proof (H Adv) as B. cbn [enabled] in B. rewrite A in B. cbn [andb] in B.
  rewrite A, C, (existsb_false_forallb _ B). reflexivity.
Qed.

(** termination: every run is finite (bounded by a function of the platform size
    and the trace alone), and a run that cannot be extended ends idle *)
Theorem terminates_thm T trace es s :
  wf_topo T -> has_kids T -> runs T (init T trace) es s ->
  Z.of_nat (length es) <= mu T (init T trace) /\
  ((forall e, enabled s e = false) -> forall u, (u < sizeT T)%nat -> idle_node T (nd s u) u).
Proof.
  intros W HK R. split.
  - eapply runs_bounded; eauto. apply inv_init; auto.
  - intros St. apply quiescent_idle; auto.
    + apply (inv_runs T _ _ _ W (inv_init T trace W) R).
    + apply stuck_quiescent; auto.
Qed.
