(** The statements about the NVIDIA simulation model that props/C20.v exports,
    assembled from NvSimProofs.v and NvSimWake.v. *)
From Coq Require Import List NArith ZArith Bool Arith Lia.
From VNv Require Import NvSim NvSimProofs NvSimWake.
Import ListNotations.
Open Scope Z_scope.

(** every queue of the engine is empty -> every buffer is empty *)
Lemma quiescent_all_delivered T s :
  wf_topo T -> has_kids T -> inv T s -> quiescent s = true -> all_delivered T (nodes s).
Proof.
  intros W HK I Q v. destruct (Nat.lt_ge_cases v (sizeT T)) as [L|G].
  - destruct (quiescent_idle T s W HK I Q v L) as (A & _ & _ & B & _ & _ & C & _). unfold nd in *. auto.
  - unfold getn. rewrite nth_overflow; [simpl; auto|]. destruct I as [D _]. rewrite (d_len T _ D). auto.
Qed.

Theorem conservation_thm T trace es s :
  wf_topo T -> runs T (init T trace) es s ->
  (forall d f, (received T (nodes s) f (S d) <= sumf f (level_items d trace))%nat) /\
  (forall d f, all_delivered T (nodes s) -> nonleaf_upto T d ->
               received T (nodes s) f (S d) = sumf f (level_items d trace)) /\
  (forall u, total (nd s u) = total_of (kindT T u) (rlog (nd s u))).
Proof.
  intros W R.
  pose proof (inv_runs T _ _ _ W (inv_init T trace W) R) as [D S].
  pose proof (root_items_runs T _ _ _ W (dinv_init T trace W) R) as RI.
  rewrite root_items_init in RI by auto.
  split; [|split].
  - intros d f. rewrite <- RI. apply received_le; auto.
  - intros d f A NL. rewrite <- RI. apply received_eq; auto.
  - intros u. apply (d_total T _ D u).
Qed.

(** the weight of the warps / instructions of a trace *)
Definition n_warps (tr : list item) : nat := sumf (fun b => length (isub b)) (level_items 1 tr).
Definition n_insts (tr : list item) : nat := sumf (fun w => N.to_nat (icount w)) (level_items 2 tr).

Lemma tot_sm_sumf l : tot_sm l = Z.of_nat (sumf (fun b => length (isub b)) l).
Proof. induction l; simpl; auto. rewrite IHl. lia. Qed.
Lemma tot_leaf_sumf l : tot_leaf l = Z.of_nat (sumf (fun w => N.to_nat (icount w)) l).
Proof. induction l; simpl; auto. rewrite IHl. lia. Qed.

(** sum of a statistics counter over the nodes of a level *)
Definition level_total (T : topo) (s : sys) (d : nat) : Z :=
  fold_right (fun u a => total (nd s u) + a) 0 (level_nodes T d).

(** the platform has the three levels of the Go builders *)
Definition three_levels (T : topo) : Prop :=
  (forall u, In u (level_nodes T 1) -> kindT T u = KGpu) /\
  (forall u, In u (level_nodes T 2) -> kindT T u = KSm) /\
  (forall u, In u (level_nodes T 3) -> kindT T u = KSub).

Lemma level_total_sumf T s d k (g : item -> nat) :
  (forall u, In u (level_nodes T d) -> kindT T u = k) ->
  (forall l, total_of k l = Z.of_nat (sumf g l)) ->
  (forall u, total (nd s u) = total_of (kindT T u) (rlog (nd s u))) ->
  level_total T s d = Z.of_nat (received T (nodes s) g d).
Proof.
  intros HK HG HT. unfold level_total, received.
  induction (level_nodes T d) as [|u l IH]; simpl; auto.
  rewrite IH by (intros; apply HK; right; auto).
  rewrite HT, (HK u) by (left; auto). rewrite HG. unfold nd, getn. lia.
Qed.

Theorem counts_thm T trace es s :
  wf_topo T -> three_levels T -> runs T (init T trace) es s ->
  level_total T s 2 <= Z.of_nat (n_warps trace) /\
  level_total T s 3 <= Z.of_nat (n_insts trace) /\
  (has_kids T -> quiescent s = true ->
   level_total T s 2 = Z.of_nat (n_warps trace) /\ level_total T s 3 = Z.of_nat (n_insts trace)).
Proof.
  intros W (K1 & K2 & K3) R.
  destruct (conservation_thm T trace es s W R) as (LE & EQ & TOT).
  assert (E2 : level_total T s 2 = Z.of_nat (received T (nodes s) (fun b => length (isub b)) 2))
    by (apply (level_total_sumf T s 2 KSm); auto; apply tot_sm_sumf).
  assert (E3 : level_total T s 3 = Z.of_nat (received T (nodes s) (fun w => N.to_nat (icount w)) 3))
    by (apply (level_total_sumf T s 3 KSub); auto; apply tot_leaf_sumf).
  split; [|split].
  - rewrite E2. apply inj_le. apply LE.
  - rewrite E3. apply inj_le. apply LE.
  - intros HK Q.
    pose proof (inv_runs T _ _ _ W (inv_init T trace W) R) as I.
    pose proof (quiescent_all_delivered T s W HK I Q) as A.
    assert (NL : nonleaf_upto T 2).
    { intros d' p Hd Hp. destruct d' as [|[|[|]]]; try lia.
      - destruct Hp as [<-|[]]. rewrite (w_root T W). discriminate.
      - rewrite (K1 p Hp). discriminate.
      - rewrite (K2 p Hp). discriminate. }
    rewrite E2, E3. split; f_equal; apply EQ; auto.
    intros d' p Hd. apply NL. lia.
Qed.

Theorem quiescent_thm T trace es s :
  wf_topo T -> has_kids T -> runs T (init T trace) es s -> quiescent s = true ->
  forall u, (u < sizeT T)%nat -> idle_node T (nd s u) u.
Proof.
  intros W HK R Q. apply quiescent_idle; auto.
  apply (inv_runs T _ _ _ W (inv_init T trace W) R).
Qed.

(** the boolean run check is the relation [runs] *)
Lemma run_ok_runs T s es : run_ok true T s es = true -> runs T s es (run true T s es).
Proof.
  revert s; induction es; simpl; intros s H.
  - constructor.
  - apply andb_prop in H. destruct H as [A B]. constructor; auto.
Qed.
