(** Proofs about the model NvSim.v (repaired code, [fx = true]):
    data invariants (free lists, counters, one token per busy unit,
    conservation of work), wake-up invariants (a unit that has something to do
    has a tick queued or is waited for), what a state with empty event queues
    looks like, and a bound on the length of every run. *)
From Coq Require Import List NArith ZArith Bool Arith Lia Permutation.
From VNv Require Import NvSim.
Import ListNotations.
Open Scope Z_scope.

(** * Part A: lists *)

Lemma upd_length {A} i f (l : list A) : length (upd i f l) = length l.
Proof. revert i; induction l; destruct i; simpl; auto. Qed.

Lemma nth_upd_same {A} i f (l : list A) d : (i < length l)%nat -> nth i (upd i f l) d = f (nth i l d).
Proof. revert i; induction l; destruct i; simpl; intros; try lia; auto. apply IHl; lia. Qed.

Lemma nth_upd_other {A} i j f (l : list A) d : i <> j -> nth j (upd i f l) d = nth j l d.
Proof. revert i j; induction l; destruct i, j; simpl; intros; try congruence; auto. Qed.

Lemma upd_upd {A} i f g (l : list A) : upd i g (upd i f l) = upd i (fun x => g (f x)) l.
Proof. revert i; induction l; destruct i; simpl; intros; f_equal; auto. Qed.

Lemma setl_length {A} i v (l : list A) : length (setl i v l) = length l.
Proof. apply upd_length. Qed.
Lemma nth_setl_same {A} i v (l : list A) d : (i < length l)%nat -> nth i (setl i v l) d = v.
Proof. intros; unfold setl; rewrite nth_upd_same; auto. Qed.
Lemma nth_setl_other {A} i j v (l : list A) d : i <> j -> nth j (setl i v l) d = nth j l d.
Proof. apply nth_upd_other. Qed.
Lemma setl_setl {A} i v w (l : list A) : setl i w (setl i v l) = setl i w l.
Proof. unfold setl; rewrite upd_upd; auto. Qed.

Lemma nth_setl_true i j l : nth j l false = true -> nth j (setl i true l) false = true.
Proof.
  intros. destruct (Nat.eq_dec i j).
  - subst. destruct (Nat.lt_ge_cases j (length l)).
    + rewrite nth_setl_same; auto.
    + rewrite nth_overflow in H; [discriminate | lia].
  - rewrite nth_setl_other; auto.
Qed.

Lemma set_many_length is l : length (set_many is l) = length l.
Proof. induction is; simpl; auto. rewrite setl_length; auto. Qed.
Lemma set_many_mono is l j : nth j l false = true -> nth j (set_many is l) false = true.
Proof. induction is; simpl; auto. intros; apply nth_setl_true; auto. Qed.
Lemma set_many_in is l j : In j is -> (j < length l)%nat -> nth j (set_many is l) false = true.
Proof.
  induction is; simpl; [tauto|]. intros [->|H] L.
  - rewrite nth_setl_same; auto. rewrite set_many_length; auto.
  - apply nth_setl_true; auto.
Qed.

(** sums *)
Fixpoint sumf {A} (f : A -> nat) (l : list A) : nat :=
  match l with [] => O | x :: r => (f x + sumf f r)%nat end.
Lemma sumf_app {A} (f : A -> nat) a b : sumf f (a ++ b) = (sumf f a + sumf f b)%nat.
Proof. induction a; simpl; auto. rewrite IHa; lia. Qed.
Lemma sumf_flat_map {A B} (g : A -> list B) (f : B -> nat) l :
  sumf f (flat_map g l) = sumf (fun x => sumf f (g x)) l.
Proof. induction l; simpl; auto. rewrite sumf_app, IHl; auto. Qed.
Lemma sumf_ext {A} (f g : A -> nat) l : (forall x, In x l -> f x = g x) -> sumf f l = sumf g l.
Proof. induction l; simpl; auto. Qed.
Lemma sumf_map {A B} (h : A -> B) (f : B -> nat) l : sumf f (map h l) = sumf (fun x => f (h x)) l.
Proof. induction l; simpl; auto. Qed.

(** sum over the children of a function of the child's number *)
Lemma sumk_upd (ks : list nat) (g g' : nat -> nat) c :
  NoDup ks -> In c ks -> (forall d, d <> c -> g' d = g d) ->
  (sumf g' ks + g c = sumf g ks + g' c)%nat.
Proof.
  induction ks; simpl; [tauto|]. intros ND [->|I] E; inversion ND; subst.
  - assert (sumf g' ks = sumf g ks) as ->; [|lia].
    apply sumf_ext. intros x Hx. apply E. intros ->; tauto.
  - rewrite (E a). 2:{ intros ->; tauto. } specialize (IHks H2 I E). lia.
Qed.
Lemma sumk_same (ks : list nat) (g g' : nat -> nat) :
  (forall d, In d ks -> g' d = g d) -> sumf g' ks = sumf g ks.
Proof. apply sumf_ext. Qed.

(** counting messages *)
Definition count_dst (c : nat) (l : list (nat * item)) : nat :=
  length (filter (fun x => Nat.eqb (fst x) c) l).
Definition count_id (c : nat) (l : list nat) : nat := length (filter (Nat.eqb c) l).

Lemma count_dst_app c a b : count_dst c (a ++ b) = (count_dst c a + count_dst c b)%nat.
Proof. unfold count_dst; rewrite filter_app, app_length; auto. Qed.
Lemma count_id_app c a b : count_id c (a ++ b) = (count_id c a + count_id c b)%nat.
Proof. unfold count_id; rewrite filter_app, app_length; auto. Qed.
Lemma count_id_pos c l : In c l -> (1 <= count_id c l)%nat.
Proof.
  unfold count_id; induction l; simpl; [tauto|]. intros [->|H].
  - rewrite Nat.eqb_refl; simpl; lia.
  - specialize (IHl H). destruct (c =? a)%nat; simpl; lia.
Qed.

Lemma NoDup_incl_lt (l ks : list nat) c :
  NoDup l -> incl l ks -> In c ks -> ~ In c l -> (length l < length ks)%nat.
Proof.
  intros ND I Ic Nc.
  assert (length (c :: l) <= length ks)%nat; [|simpl in *; lia].
  apply NoDup_incl_length. { constructor; auto. }
  intros x [->|Hx]; auto.
Qed.

Lemma NoDup_app_intro_c20 (l : list nat) c : NoDup l -> ~ In c l -> NoDup (l ++ [c]).
Proof.
  induction l; simpl; intros ND N.
  - repeat constructor; auto.
  - inversion ND; subst. constructor.
    + intros H. apply in_app_or in H. destruct H as [|[->|[]]]; tauto.
    + apply IHl; tauto.
Qed.

(** * Part B: one parent, its connection, its children *)

Definition hold (n : node) : Z := fin n + (if 0 <? unfin n then 1 else 0).

Definition tokens (P C : node) (c : nat) : Z :=
  Z.of_nat (count_dst c (dn_out P)) + Z.of_nat (length (up_in C)) + hold C
  + Z.of_nat (length (up_out C)) + Z.of_nat (count_id c (dn_in P)).

Definition expect (c : nat) (fr : list nat) : Z := if in_dec Nat.eq_dec c fr then 0 else 1.

Record link_ok (ks : list nat) (P : node) (U : nat -> node) : Prop := {
  k_nodup : NoDup (free P);
  k_incl : incl (free P) ks;
  k_unfin : unfin P = Z.of_nat (length (undisp P)) + Z.of_nat (length ks) - Z.of_nat (length (free P));
  k_tok : forall c, In c ks -> tokens P (U c) c = expect c (free P);
  k_dst : forall x, In x (dn_out P) -> In (fst x) ks;
  k_src : forall c, In c (dn_in P) -> In c ks;
  k_kid : forall c, In c ks ->
      (forall m, In m (up_out (U c)) -> m = c) /\ 0 <= fin (U c) /\ 0 <= unfin (U c);
  k_cons : forall f : item -> nat,
      (sumf f (undisp P) + sumf f (map snd (dn_out P))
       + sumf (fun c => sumf f (up_in (U c)) + sumf f (rlog (U c))) ks
       = sumf f (flat_map isub (rlog P)))%nat
}.

(** the fields of the parent / of a child the link looks at *)
Definition lv_eq (a b : node) : Prop :=
  undisp a = undisp b /\ unfin a = unfin b /\ free a = free b /\ dn_in a = dn_in b
  /\ dn_out a = dn_out b /\ rlog a = rlog b.
Definition uv_eq (a b : node) : Prop :=
  up_in a = up_in b /\ up_out a = up_out b /\ fin a = fin b /\ unfin a = unfin b /\ rlog a = rlog b.

Lemma lv_eq_refl a : lv_eq a a. Proof. repeat split. Qed.
Lemma uv_eq_refl a : uv_eq a a. Proof. repeat split. Qed.

Lemma link_ok_ext ks P P' U U' :
  lv_eq P P' -> (forall c, In c ks -> uv_eq (U c) (U' c)) ->
  link_ok ks P U -> link_ok ks P' U'.
Proof.
  intros (e1 & e2 & e3 & e4 & e5 & e6) HU [].
  constructor; try (rewrite <- ?e1, <- ?e2, <- ?e3, <- ?e4, <- ?e5, <- ?e6; auto; fail).
  - intros c Hc. destruct (HU c Hc) as (u1 & u2 & u3 & u4 & u5).
    unfold tokens, hold. rewrite <- e3, <- e4, <- e5, <- u1, <- u2, <- u3, <- u4.
    apply k_tok0; auto.
  - intros c Hc. destruct (HU c Hc) as (u1 & u2 & u3 & u4 & u5).
    rewrite <- u2, <- u3, <- u4. auto.
  - intros f. rewrite <- e1, <- e5, <- e6, <- k_cons0. f_equal.
    apply sumf_ext. intros c Hc. destruct (HU c Hc) as (u1 & u2 & u3 & u4 & u5).
    rewrite u1, u5; auto.
Qed.

Lemma hold_nonneg n : 0 <= fin n -> 0 <= hold n.
Proof. unfold hold; destruct (0 <? unfin n); lia. Qed.

Lemma expect_cases c fr : expect c fr = 0 /\ In c fr \/ expect c fr = 1 /\ ~ In c fr.
Proof. unfold expect; destruct (in_dec Nat.eq_dec c fr); auto. Qed.

Lemma tokens_nonneg ks P U c : link_ok ks P U -> In c ks ->
  0 <= hold (U c).
Proof. intros L I. apply hold_nonneg. apply (k_kid _ _ _ L c I). Qed.

Lemma expect_in c fr : In c fr -> expect c fr = 0.
Proof. unfold expect; destruct (in_dec Nat.eq_dec c fr); tauto. Qed.
Lemma expect_notin c fr : ~ In c fr -> expect c fr = 1.
Proof. unfold expect; destruct (in_dec Nat.eq_dec c fr); tauto. Qed.
Lemma expect_iff c fr fr' : (In c fr <-> In c fr') -> expect c fr = expect c fr'.
Proof.
  intros H. destruct (expect_cases c fr) as [[E I]|[E I]]; rewrite E; symmetry;
    [apply expect_in | apply expect_notin]; tauto.
Qed.
Global Opaque expect.

Lemma count_dst_one c d it : count_dst d [(c, it)] = if Nat.eqb c d then 1%nat else 0%nat.
Proof. unfold count_dst; simpl. destruct (c =? d)%nat; auto. Qed.
Lemma count_dst_cons c d it l :
  count_dst d ((c, it) :: l) = ((if Nat.eqb c d then 1 else 0) + count_dst d l)%nat.
Proof. unfold count_dst; simpl. destruct (c =? d)%nat; auto. Qed.
Lemma count_id_cons c d l : count_id d (c :: l) = ((if Nat.eqb d c then 1 else 0) + count_id d l)%nat.
Proof. unfold count_id; simpl. destruct (d =? c)%nat; auto. Qed.
Lemma count_id_one c d : count_id d [c] = if Nat.eqb d c then 1%nat else 0%nat.
Proof. unfold count_id; simpl. destruct (d =? c)%nat; auto. Qed.

(** ** the parent changes *)

Lemma own_dispatch ks P U c fr it ud P' :
  free P = c :: fr -> undisp P = it :: ud ->
  undisp P' = ud -> unfin P' = unfin P -> free P' = fr -> dn_in P' = dn_in P ->
  dn_out P' = dn_out P ++ [(c, it)] -> rlog P' = rlog P ->
  link_ok ks P U -> link_ok ks P' U.
Proof.
  intros F Ud e1 e2 e3 e4 e5 e6 [].
  rewrite F in k_nodup0, k_incl0, k_unfin0, k_tok0. rewrite Ud in k_unfin0, k_cons0.
  assert (NoDup fr /\ ~ In c fr) as [ND NI] by (inversion k_nodup0; auto).
  constructor; rewrite ?e1, ?e2, ?e3, ?e4, ?e5, ?e6; auto.
  - intros x Hx; apply k_incl0; right; auto.
  - rewrite k_unfin0; simpl length; lia.
  - intros d Hd. specialize (k_tok0 d Hd). unfold tokens in *.
    rewrite e4, e5, count_dst_app, count_dst_one.
    destruct (Nat.eq_dec c d) as [E|N];
      [subst d; rewrite Nat.eqb_refl | rewrite (proj2 (Nat.eqb_neq c d) N)].
    + rewrite expect_in in k_tok0 by (left; auto). rewrite expect_notin by auto. lia.
    + rewrite <- (expect_iff d (c :: fr) fr); [lia|]. simpl; intuition congruence.
  - intros x Hx. apply in_app_or in Hx. destruct Hx as [Hx|[<-|[]]]; auto.
    simpl. apply k_incl0; left; auto.
  - intros f. rewrite <- k_cons0. rewrite map_app, sumf_app. simpl. lia.
Qed.

Lemma own_recv ks P U it P' :
  undisp P' = undisp P ++ isub it -> unfin P' = unfin P + Z.of_nat (length (isub it)) ->
  free P' = free P -> dn_in P' = dn_in P -> dn_out P' = dn_out P -> rlog P' = rlog P ++ [it] ->
  link_ok ks P U -> link_ok ks P' U.
Proof.
  intros e1 e2 e3 e4 e5 e6 [].
  constructor; rewrite ?e1, ?e2, ?e3, ?e4, ?e5, ?e6; auto.
  - rewrite app_length, k_unfin0. lia.
  - intros d Hd. unfold tokens. rewrite e4, e5. apply k_tok0; auto.
  - intros f. rewrite flat_map_app, !sumf_app, <- k_cons0. simpl. rewrite app_nil_r. lia.
Qed.

Lemma own_done ks P U c rest P' :
  dn_in P = c :: rest ->
  undisp P' = undisp P -> unfin P' = unfin P - 1 -> free P' = free P ++ [c] -> dn_in P' = rest ->
  dn_out P' = dn_out P -> rlog P' = rlog P ->
  link_ok ks P U -> link_ok ks P' U /\ In c ks /\ ~ In c (free P).
Proof.
  intros D e1 e2 e3 e4 e5 e6 L. pose proof L as [].
  assert (Ic : In c ks) by (apply k_src0; rewrite D; left; auto).
  assert (Nc : ~ In c (free P)).
  { pose proof (k_tok0 c Ic) as Hk. pose proof (tokens_nonneg _ _ _ c L Ic).
    destruct (expect_cases c (free P)) as [[E I]|[E N]]; auto.
    unfold tokens in Hk. rewrite D, count_id_cons, Nat.eqb_refl, E in Hk. lia. }
  split; [|split]; auto.
  constructor; rewrite ?e1, ?e2, ?e3, ?e4, ?e5, ?e6; auto.
  - apply NoDup_app_intro_c20; auto.
  - intros x Hx. apply in_app_or in Hx. destruct Hx as [Hx|[<-|[]]]; auto.
  - rewrite app_length, k_unfin0. simpl. lia.
  - intros d Hd. specialize (k_tok0 d Hd). unfold tokens in *. rewrite e4, e5.
    rewrite D, count_id_cons in k_tok0.
    destruct (Nat.eq_dec d c) as [E|N];
      [subst d; rewrite Nat.eqb_refl in k_tok0 | rewrite (proj2 (Nat.eqb_neq d c) N) in k_tok0].
    + rewrite expect_notin in k_tok0 by auto. rewrite expect_in by (apply in_or_app; right; left; auto). lia.
    + rewrite <- (expect_iff d (free P) (free P ++ [c])); [lia|].
      rewrite in_app_iff; simpl; intuition congruence.
  - intros x Hx. apply k_src0. rewrite D. right; auto.
Qed.

(** ** a child changes *)

Definition fupd (U : nat -> node) (u : nat) (n' : node) : nat -> node :=
  fun c => if Nat.eqb c u then n' else U c.
Lemma fupd_same U u n' : fupd U u n' u = n'.
Proof. unfold fupd; rewrite Nat.eqb_refl; auto. Qed.
Lemma fupd_other U u n' c : c <> u -> fupd U u n' c = U c.
Proof. unfold fupd; intros; rewrite (proj2 (Nat.eqb_neq c u)); auto. Qed.

Definition kid_mass (n : node) : Z := Z.of_nat (length (up_in n)) + hold n + Z.of_nat (length (up_out n)).

Lemma kid_update ks P U u n' :
  NoDup ks -> In u ks -> link_ok ks P U ->
  kid_mass n' = kid_mass (U u) ->
  (forall m, In m (up_out n') -> m = u) -> 0 <= fin n' -> 0 <= unfin n' ->
  (forall f : item -> nat, (sumf f (up_in n') + sumf f (rlog n') = sumf f (up_in (U u)) + sumf f (rlog (U u)))%nat) ->
  link_ok ks P (fupd U u n').
Proof.
  intros ND Iu [] M Hm Hf Hu Hc.
  constructor; auto.
  - intros c Hc'. destruct (Nat.eq_dec c u) as [->|N].
    + rewrite fupd_same. rewrite <- (k_tok0 u Iu). unfold tokens, kid_mass in *. lia.
    + rewrite fupd_other; auto.
  - intros c Hc'. destruct (Nat.eq_dec c u) as [->|N].
    + rewrite fupd_same. auto.
    + rewrite fupd_other; auto.
  - intros f. rewrite <- k_cons0.
    pose proof (sumk_upd ks (fun c => sumf f (up_in (U c)) + sumf f (rlog (U c)))%nat
                         (fun c => sumf f (up_in (fupd U u n' c)) + sumf f (rlog (fupd U u n' c)))%nat
                         u ND Iu) as S.
    simpl in S. rewrite fupd_same in S. specialize (Hc f).
    assert (forall d, d <> u ->
              (sumf f (up_in (fupd U u n' d)) + sumf f (rlog (fupd U u n' d)) =
               sumf f (up_in (U d)) + sumf f (rlog (U d)))%nat) as E.
    { intros d Hd. rewrite fupd_other; auto. }
    specialize (S E). lia.
Qed.

(** what the link tells about a child that has a work item in its incoming buffer *)
Lemma kid_has_input ks P U u it rest :
  link_ok ks P U -> In u ks -> up_in (U u) = it :: rest ->
  rest = [] /\ fin (U u) = 0 /\ unfin (U u) = 0 /\ up_out (U u) = [].
Proof.
  intros L I E. pose proof L as [].
  pose proof (k_tok0 u I) as Hk. destruct (k_kid0 u I) as (_ & Hf & Hu).
  unfold tokens, hold in Hk. rewrite E in Hk. simpl length in Hk.
  destruct (expect_cases u (free P)) as [[X _]|[X _]]; rewrite X in Hk;
    destruct (0 <? unfin (U u)) eqn:Q; try apply Z.ltb_lt in Q; try apply Z.ltb_ge in Q;
    destruct rest; simpl in *; destruct (up_out (U u)); simpl in *; try lia;
    repeat split; auto; lia.
Qed.

(** ** the connection moves a message *)

Lemma link_fwd_down ks P U c it rest P' C' :
  NoDup ks -> link_ok ks P U ->
  dn_out P = (c, it) :: rest ->
  undisp P' = undisp P -> unfin P' = unfin P -> free P' = free P -> dn_in P' = dn_in P ->
  dn_out P' = rest -> rlog P' = rlog P ->
  up_in C' = up_in (U c) ++ [it] -> up_out C' = up_out (U c) -> fin C' = fin (U c) ->
  unfin C' = unfin (U c) -> rlog C' = rlog (U c) ->
  link_ok ks P' (fupd U c C') /\ In c ks.
Proof.
  intros ND L D e1 e2 e3 e4 e5 e6 c1 c2 c3 c4 c5. pose proof L as [].
  assert (Ic : In c ks) by (apply (k_dst0 (c, it)); rewrite D; left; auto).
  split; auto.
  constructor; rewrite ?e1, ?e2, ?e3, ?e4, ?e5, ?e6; auto.
  - intros d Hd. specialize (k_tok0 d Hd). unfold tokens, hold in *. rewrite e4, e5.
    rewrite D, count_dst_cons in k_tok0.
    destruct (Nat.eq_dec d c) as [->|N].
    + rewrite fupd_same, c1, c2, c3, c4, app_length. rewrite Nat.eqb_refl in k_tok0. simpl length. lia.
    + rewrite fupd_other; auto. rewrite (proj2 (Nat.eqb_neq c d)) in k_tok0; auto.
  - intros x Hx. apply k_dst0. rewrite D; right; auto.
  - intros d Hd. destruct (Nat.eq_dec d c) as [->|N].
    + rewrite fupd_same, c2, c3, c4. auto.
    + rewrite fupd_other; auto.
  - intros f. rewrite <- k_cons0. rewrite D. simpl.
    pose proof (sumk_upd ks (fun c => sumf f (up_in (U c)) + sumf f (rlog (U c)))%nat
                         (fun d => sumf f (up_in (fupd U c C' d)) + sumf f (rlog (fupd U c C' d)))%nat
                         c ND Ic) as S.
    simpl in S. rewrite fupd_same, c1, c5, sumf_app in S. simpl in S.
    assert (forall d, d <> c ->
              (sumf f (up_in (fupd U c C' d)) + sumf f (rlog (fupd U c C' d)) =
               sumf f (up_in (U d)) + sumf f (rlog (U d)))%nat) as E.
    { intros d Hd. rewrite fupd_other; auto. }
    specialize (S E). lia.
Qed.

Lemma link_fwd_up ks P U c m rest P' C' :
  NoDup ks -> In c ks -> link_ok ks P U ->
  up_out (U c) = m :: rest ->
  undisp P' = undisp P -> unfin P' = unfin P -> free P' = free P -> dn_in P' = dn_in P ++ [m] ->
  dn_out P' = dn_out P -> rlog P' = rlog P ->
  up_in C' = up_in (U c) -> up_out C' = rest -> fin C' = fin (U c) ->
  unfin C' = unfin (U c) -> rlog C' = rlog (U c) ->
  link_ok ks P' (fupd U c C').
Proof.
  intros ND Ic L D e1 e2 e3 e4 e5 e6 c1 c2 c3 c4 c5. pose proof L as [].
  assert (m = c) as -> by (apply (k_kid0 c Ic); rewrite D; left; auto).
  constructor; rewrite ?e1, ?e2, ?e3, ?e4, ?e5, ?e6; auto.
  - intros d Hd. specialize (k_tok0 d Hd). unfold tokens, hold in *. rewrite e4, e5, count_id_app, count_id_one.
    destruct (Nat.eq_dec d c) as [->|N].
    + rewrite fupd_same, c1, c2, c3, c4. rewrite D in k_tok0. rewrite Nat.eqb_refl. simpl length in *. lia.
    + rewrite fupd_other; auto. rewrite (proj2 (Nat.eqb_neq d c)); auto. lia.
  - intros x Hx. apply in_app_or in Hx. destruct Hx as [Hx|[<-|[]]]; auto.
  - intros d Hd. destruct (Nat.eq_dec d c) as [->|N].
    + rewrite fupd_same, c2, c3, c4. destruct (k_kid0 c Ic) as (A & B & C0). repeat split; auto.
      intros x Hx. apply A. rewrite D; right; auto.
    + rewrite fupd_other; auto.
  - intros f. rewrite <- k_cons0. f_equal.
    apply sumf_ext. intros d Hd. destruct (Nat.eq_dec d c) as [->|N].
    + rewrite fupd_same, c1, c5; auto.
    + rewrite fupd_other; auto.
Qed.

(** * Part C: the whole platform, data invariant *)

Record wf_topo (T : topo) : Prop := {
  w_kids : forall p c, In c (kidsT T p) -> (p < c)%nat /\ (c < sizeT T)%nat /\ parentT T c = p;
  w_nodup : forall p, NoDup (kidsT T p);
  w_par : forall u, (0 < u < sizeT T)%nat -> In u (kidsT T (parentT T u));
  w_root : kindT T 0 = KDriver;
  w_nonroot : forall u, (0 < u)%nat -> kindT T u <> KDriver;
  w_leaf : forall u, kindT T u = KSub -> kidsT T u = [];
  w_size : (0 < sizeT T)%nat
}.

Definition getn (ns : list node) (u : nat) : node := nth u ns dnode.

Definition root_ok (n : node) : Prop := fin n = 0 /\ up_in n = [] /\ up_out n = [].
Definition leaf_ok (n : node) : Prop := undisp n = [] /\ dn_in n = [] /\ dn_out n = [] /\ free n = [].

(** the statistics counters are functions of the ghost log *)
Fixpoint tot_sm (l : list item) : Z :=
  match l with [] => 0 | x :: r => Z.of_nat (length (isub x)) + tot_sm r end.
Fixpoint tot_leaf (l : list item) : Z :=
  match l with [] => 0 | x :: r => Z.of_N (icount x) + tot_leaf r end.
Lemma tot_sm_app a b : tot_sm (a ++ b) = tot_sm a + tot_sm b.
Proof. induction a; simpl; auto. rewrite IHa; lia. Qed.
Lemma tot_leaf_app a b : tot_leaf (a ++ b) = tot_leaf a + tot_leaf b.
Proof. induction a; simpl; auto. rewrite IHa; lia. Qed.
Definition total_of (k : kind) (l : list item) : Z :=
  match k with KSm => tot_sm l | KSub => tot_leaf l | _ => 0 end.
Definition total_ok (k : kind) (n : node) : Prop := total n = total_of k (rlog n).

Record dinv (T : topo) (ns : list node) : Prop := {
  d_len : length ns = sizeT T;
  d_link : forall p, (p < sizeT T)%nat -> kindT T p <> KSub ->
                     link_ok (kidsT T p) (getn ns p) (getn ns);
  d_root : root_ok (getn ns 0);
  d_leaf : forall u, kindT T u = KSub -> leaf_ok (getn ns u);
  d_total : forall u, total_ok (kindT T u) (getn ns u)
}.

Lemma getn_setl ns u n' c : (u < length ns)%nat -> getn (setl u n' ns) c = fupd (getn ns) u n' c.
Proof.
  intros L. unfold getn, fupd. destruct (Nat.eqb_spec c u) as [->|N].
  - apply nth_setl_same; auto.
  - apply nth_setl_other; auto.
Qed.

Lemma setl_same {A} u (l : list A) d : setl u (nth u l d) l = l.
Proof. revert u; induction l; destruct u; simpl; auto. unfold setl in *; simpl. f_equal; auto. Qed.

Lemma upd_as_setl {A} u f (l : list A) d : upd u f l = setl u (f (nth u l d)) l.
Proof.
  revert u; induction l; destruct u; simpl; auto. unfold setl in *; simpl. f_equal; auto.
Qed.

Lemma kid_parent_nonleaf T p c : wf_topo T -> In c (kidsT T p) -> kindT T p <> KSub.
Proof. intros W I E. rewrite (w_leaf T W p E) in I. destruct I. Qed.

Lemma not_own_kid T u : wf_topo T -> ~ In u (kidsT T u).
Proof. intros W I. apply (w_kids T W) in I. lia. Qed.

(** replacing one node *)
Lemma dinv_set T ns u n' :
  wf_topo T -> dinv T ns -> (u < sizeT T)%nat ->
  (kindT T u <> KSub -> link_ok (kidsT T u) n' (getn ns)) ->
  (u <> O -> link_ok (kidsT T (parentT T u)) (getn ns (parentT T u)) (fupd (getn ns) u n')) ->
  (u = O -> root_ok n') ->
  (kindT T u = KSub -> leaf_ok n') ->
  total_ok (kindT T u) n' ->
  dinv T (setl u n' ns).
Proof.
  intros W D Lu Hown Hpar Hroot Hleaf Htot. pose proof D as [].
  assert (Lu' : (u < length ns)%nat) by lia.
  constructor.
  - rewrite setl_length; auto.
  - intros p Lp Kp.
    destruct (Nat.eq_dec p u) as [->|Npu].
    + eapply link_ok_ext; [| |apply (Hown Kp)].
      * rewrite getn_setl, fupd_same; auto. apply lv_eq_refl.
      * intros c Hc. rewrite getn_setl; auto. rewrite fupd_other. apply uv_eq_refl.
        intros ->. eapply not_own_kid; eauto.
    + destruct (in_dec Nat.eq_dec u (kidsT T p)) as [I|NI].
      * destruct (w_kids T W p u I) as (A & B & C0). subst p.
        assert (u <> O) by lia.
        eapply link_ok_ext; [| |apply (Hpar H)].
        -- rewrite getn_setl, fupd_other; auto. apply lv_eq_refl.
        -- intros c Hc. rewrite getn_setl; auto. apply uv_eq_refl.
      * eapply link_ok_ext; [| |apply (d_link0 p Lp Kp)].
        -- rewrite getn_setl, fupd_other; auto. apply lv_eq_refl.
        -- intros c Hc. rewrite getn_setl; auto. rewrite fupd_other. apply uv_eq_refl.
           intros ->; tauto.
  - rewrite getn_setl; auto. destruct (Nat.eq_dec u 0) as [->|N].
    + rewrite fupd_same; auto.
    + rewrite fupd_other; auto.
  - intros v Kv. rewrite getn_setl; auto. destruct (Nat.eq_dec v u) as [->|N].
    + rewrite fupd_same; auto.
    + rewrite fupd_other; auto.
  - intros v. rewrite getn_setl; auto. destruct (Nat.eq_dec v u) as [->|N].
    + rewrite fupd_same; auto.
    + rewrite fupd_other; auto.
Qed.

(** facts about a non-root node seen from its parent *)
Lemma parent_link T ns u :
  wf_topo T -> dinv T ns -> (u < sizeT T)%nat -> u <> O ->
  In u (kidsT T (parentT T u)) /\ NoDup (kidsT T (parentT T u)) /\
  link_ok (kidsT T (parentT T u)) (getn ns (parentT T u)) (getn ns).
Proof.
  intros W D L N. assert (I : In u (kidsT T (parentT T u))) by (apply (w_par T W); lia).
  split; auto. split. { apply (w_nodup T W). }
  apply (d_link T ns D).
  - destruct (w_kids T W _ _ I). lia.
  - eapply kid_parent_nonleaf; eauto.
Qed.

Definition napply (ns : list node) (u : nat) (op : node -> res) : list node :=
  setl u (fst (fst (op (getn ns u)))) ns.

Lemma napply_seq ns u a b : (u < length ns)%nat ->
  napply ns u (op_seq a b) = napply (napply ns u a) u b.
Proof.
  intros L. unfold napply, op_seq.
  destruct (a (getn ns u)) as [[n1 p1] e1] eqn:A. simpl.
  replace (getn (setl u n1 ns) u) with n1 by (unfold getn; rewrite nth_setl_same; auto).
  destruct (b n1) as [[n2 p2] e2]. simpl. rewrite setl_setl; auto.
Qed.

Lemma napply_length ns u op : length (napply ns u op) = length ns.
Proof. apply setl_length. Qed.

Lemma dinv_report T ns u :
  wf_topo T -> dinv T ns -> (u < sizeT T)%nat -> u <> O -> dinv T (napply ns u (op_report u)).
Proof.
  intros W D L N. unfold napply, op_report.
  destruct (fin (getn ns u) =? 0) eqn:F; simpl. { unfold getn; rewrite setl_same; auto. }
  destruct (full (up_out (getn ns u))) eqn:Fu; simpl. { unfold getn; rewrite setl_same; auto. }
  apply Z.eqb_neq in F.
  destruct (parent_link T ns u W D L N) as (I & ND & LP).
  apply dinv_set; auto; simpl.
  - intros K. eapply link_ok_ext; [| |apply (d_link T ns D u L K)].
    + repeat split.
    + intros; apply uv_eq_refl.
  - intros _. destruct (k_kid _ _ _ LP u I) as (A & B & C0).
    apply kid_update; auto; simpl.
    + unfold kid_mass, hold; simpl. rewrite app_length; simpl. lia.
    + intros m Hm. apply in_app_or in Hm. destruct Hm as [Hm|[<-|[]]]; auto.
    + lia.
  - tauto.
  - intros K. apply (d_leaf T ns D u K).
  - unfold total_ok; simpl. apply (d_total T ns D u).
Qed.

Lemma dinv_dispatch T ns u ret :
  wf_topo T -> dinv T ns -> (u < sizeT T)%nat -> kindT T u <> KSub ->
  dinv T (napply ns u (op_dispatch ret)).
Proof.
  intros W D L K. unfold napply, op_dispatch.
  destruct (free (getn ns u)) as [|c fr] eqn:F; simpl. { unfold getn; rewrite setl_same; auto. }
  destruct (undisp (getn ns u)) as [|it ud] eqn:Ud; simpl. { unfold getn; rewrite setl_same; auto. }
  destruct (full (dn_out (getn ns u))) eqn:Fu; simpl. { unfold getn; rewrite setl_same; auto. }
  apply dinv_set; auto; simpl.
  - intros _. eapply own_dispatch; eauto. apply (d_link T ns D u L K).
  - intros N. destruct (parent_link T ns u W D L N) as (I & ND & LP).
    eapply link_ok_ext; [apply lv_eq_refl| |apply LP].
    intros d Hd. destruct (Nat.eq_dec d u) as [->|Nd].
    + rewrite fupd_same. repeat split.
    + rewrite fupd_other; auto. apply uv_eq_refl.
  - intros ->. apply (d_root T ns D).
  - tauto.
  - unfold total_ok; simpl. apply (d_total T ns D u).
Qed.

Lemma dinv_recv_mid T ns u counts :
  wf_topo T -> dinv T ns -> (u < sizeT T)%nat -> u <> O -> kindT T u <> KSub ->
  counts = match kindT T u with KSm => true | _ => false end ->
  dinv T (napply ns u (op_recv_mid true counts)).
Proof.
  intros W D L N K Hc. unfold napply, op_recv_mid.
  destruct (up_in (getn ns u)) as [|it rest] eqn:E; simpl. { unfold getn; rewrite setl_same; auto. }
  destruct (parent_link T ns u W D L N) as (I & ND & LP).
  destruct (kid_has_input _ _ _ u it rest LP I E) as (-> & F0 & U0 & O0).
  apply dinv_set; auto; simpl.
  - intros _. eapply own_recv; [..|apply (d_link T ns D u L K)]; reflexivity.
  - intros _. apply kid_update; auto; simpl.
    + unfold kid_mass, hold; simpl. rewrite E, F0, U0, O0. simpl.
      destruct (isub it); simpl; lia.
    + rewrite O0. intros m [].
    + rewrite F0, U0. destruct (isub it); simpl; lia.
    + rewrite U0. lia.
    + intros f. rewrite E, sumf_app. simpl. lia.
  - tauto.
  - tauto.
  - pose proof (d_total T ns D u) as Ht. pose proof (w_nonroot T W u ltac:(lia)) as Hr.
    unfold total_ok in *; simpl. subst counts.
    destruct (kindT T u); try congruence; simpl in *; rewrite ?tot_sm_app; simpl; lia.
Qed.

Lemma dinv_recv_leaf T ns u :
  wf_topo T -> dinv T ns -> (u < sizeT T)%nat -> u <> O -> kindT T u = KSub ->
  dinv T (napply ns u (op_recv_leaf true)).
Proof.
  intros W D L N K. unfold napply, op_recv_leaf.
  destruct (up_in (getn ns u)) as [|it rest] eqn:E; simpl. { unfold getn; rewrite setl_same; auto. }
  destruct (parent_link T ns u W D L N) as (I & ND & LP).
  destruct (kid_has_input _ _ _ u it rest LP I E) as (-> & F0 & U0 & O0).
  apply dinv_set; auto; simpl.
  - tauto.
  - intros _. apply kid_update; auto; simpl.
    + unfold kid_mass, hold; simpl. rewrite E, F0, U0, O0. simpl.
      destruct (icount it); simpl; lia.
    + rewrite O0. intros m [].
    + rewrite F0. destruct (icount it); simpl; lia.
    + lia.
    + intros f. rewrite E, sumf_app. simpl. lia.
  - tauto.
  - intros _. apply (d_leaf T ns D u K).
  - pose proof (d_total T ns D u) as Ht. unfold total_ok in *; simpl. rewrite K in *. simpl in *.
    rewrite tot_leaf_app. simpl. lia.
Qed.

Lemma dinv_done T ns u cf :
  wf_topo T -> dinv T ns -> (u < sizeT T)%nat -> kindT T u <> KSub -> cf = negb (Nat.eqb u 0) ->
  dinv T (napply ns u (op_done cf)).
Proof.
  intros W D L K ->. unfold napply, op_done.
  destruct (dn_in (getn ns u)) as [|c rest] eqn:E; simpl. { unfold getn; rewrite setl_same; auto. }
  pose proof (d_link T ns D u L K) as LO.
  match goal with |- dinv T (setl u ?n ns) => set (n' := n) end.
  destruct (own_done (kidsT T u) (getn ns u) (getn ns) c rest n' E eq_refl eq_refl eq_refl eq_refl
                     eq_refl eq_refl LO) as (LO' & Ic & Nc).
  apply dinv_set; auto; subst n'; simpl.
  - intros N. destruct (parent_link T ns u W D L N) as (I & ND & LP).
    destruct (k_kid _ _ _ LP u I) as (A & B & C0).
    assert (1 <= unfin (getn ns u)).
    { rewrite (k_unfin _ _ _ LO).
      pose proof (NoDup_incl_lt _ _ c (k_nodup _ _ _ LO) (k_incl _ _ _ LO) Ic Nc). lia. }
    rewrite (proj2 (Nat.eqb_neq u 0) N). simpl.
    apply kid_update; auto; simpl.
    + unfold kid_mass, hold; simpl.
      destruct (unfin (getn ns u) - 1 =? 0) eqn:Q;
        [apply Z.eqb_eq in Q|apply Z.eqb_neq in Q];
        destruct (0 <? unfin (getn ns u) - 1) eqn:Q2;
        try apply Z.ltb_lt in Q2; try apply Z.ltb_ge in Q2;
        destruct (0 <? unfin (getn ns u)) eqn:Q3;
        try apply Z.ltb_lt in Q3; try apply Z.ltb_ge in Q3; lia.
    + destruct (unfin (getn ns u) - 1 =? 0); lia.
    + lia.
  - intros ->. simpl. apply (d_root T ns D).
  - tauto.
  - unfold total_ok; simpl. apply (d_total T ns D u).
Qed.

Lemma dinv_run T ns u :
  wf_topo T -> dinv T ns -> (u < sizeT T)%nat -> u <> O -> kindT T u = KSub ->
  dinv T (napply ns u op_run).
Proof.
  intros W D L N K. unfold napply, op_run.
  destruct (unfin (getn ns u) =? 0) eqn:E; simpl. { unfold getn; rewrite setl_same; auto. }
  apply Z.eqb_neq in E.
  destruct (parent_link T ns u W D L N) as (I & ND & LP).
  destruct (k_kid _ _ _ LP u I) as (A & B & C0).
  apply dinv_set; auto; simpl.
  - tauto.
  - intros _. apply kid_update; auto; simpl.
    + unfold kid_mass, hold; simpl.
      destruct (unfin (getn ns u) - 1 =? 0) eqn:Q;
        [apply Z.eqb_eq in Q|apply Z.eqb_neq in Q];
        destruct (0 <? unfin (getn ns u) - 1) eqn:Q2;
        try apply Z.ltb_lt in Q2; try apply Z.ltb_ge in Q2;
        destruct (0 <? unfin (getn ns u)) eqn:Q3;
        try apply Z.ltb_lt in Q3; try apply Z.ltb_ge in Q3; lia.
    + destruct (unfin (getn ns u) - 1 =? 0); lia.
    + lia.
  - tauto.
  - intros _. apply (d_leaf T ns D u K).
  - unfold total_ok; simpl. apply (d_total T ns D u).
Qed.

Lemma upd_overflow {A} u f (l : list A) : (length l <= u)%nat -> upd u f l = l.
Proof. revert u; induction l; destruct u; simpl; intros; auto; try lia. f_equal; apply IHl; lia. Qed.

Lemma kind_root T u : wf_topo T -> kindT T u = KDriver -> u = O.
Proof. intros W K. destruct u; auto. exfalso. apply (w_nonroot T W (S u)); auto; lia. Qed.

Lemma nodes_step_tick fx T s u :
  nodes (step_tick fx T s u) = napply (nodes s) u (tick_node fx (kindT T u) u).
Proof.
  unfold step_tick, napply, nd, getn.
  destruct (tick_node fx (kindT T u) u (nth u (nodes s) dnode)) as [[n' pr] e].
  destruct (apply_eff T u e (if pr then setl u true (nxt s) else nxt s) (cpend s)). reflexivity.
Qed.

Lemma dinv_tick T s u :
  wf_topo T -> dinv T (nodes s) -> dinv T (nodes (step_tick true T s u)).
Proof.
  intros W D. rewrite nodes_step_tick.
  destruct (Nat.lt_ge_cases u (sizeT T)) as [L|G].
  2:{ unfold napply, setl. rewrite upd_overflow; auto. rewrite (d_len T _ D); auto. }
  assert (Ll : (u < length (nodes s))%nat) by (rewrite (d_len T _ D); auto).
  destruct (kindT T u) eqn:K; simpl; unfold tick_driver, tick_mid, tick_sub.
  - assert (u = O) by (eapply kind_root; eauto). subst u.
    rewrite napply_seq; auto.
    apply (dinv_done T _ O _ W); try congruence; try (rewrite ?napply_length; auto).
    apply dinv_dispatch; auto; congruence.
  - assert (u <> O) by (intros ->; rewrite (w_root T W) in K; discriminate).
    rewrite !napply_seq; rewrite ?napply_length; auto.
    apply dinv_done; auto; try congruence; [|rewrite (proj2 (Nat.eqb_neq u 0)); auto].
    apply dinv_recv_mid; auto; try congruence; try (rewrite K; reflexivity).
    apply dinv_dispatch; auto; try congruence.
    apply dinv_report; auto.
  - assert (u <> O) by (intros ->; rewrite (w_root T W) in K; discriminate).
    rewrite !napply_seq; rewrite ?napply_length; auto.
    apply dinv_done; auto; try congruence; [|rewrite (proj2 (Nat.eqb_neq u 0)); auto].
    apply dinv_recv_mid; auto; try congruence; try (rewrite K; reflexivity).
    apply dinv_dispatch; auto; try congruence.
    apply dinv_report; auto.
  - assert (u <> O) by (intros ->; rewrite (w_root T W) in K; discriminate).
    rewrite !napply_seq; rewrite ?napply_length; auto.
    apply dinv_recv_leaf; auto.
    apply dinv_run; auto.
    apply dinv_report; auto.
Qed.

(** replacing a parent and one of its children (a message moved between them) *)
Lemma dinv_set2 T ns p c P' C' :
  wf_topo T -> dinv T ns -> In c (kidsT T p) ->
  lv_eq (getn ns c) C' -> uv_eq (getn ns p) P' ->
  link_ok (kidsT T p) P' (fupd (getn ns) c C') ->
  (p = O -> root_ok P') -> (kindT T c = KSub -> leaf_ok C') ->
  total P' = total (getn ns p) -> total C' = total (getn ns c) ->
  dinv T (setl p P' (setl c C' ns)).
Proof.
  intros W D I LV UV LK HR HL TP TC. pose proof D as [].
  destruct (w_kids T W p c I) as (Lpc & Lc & Par).
  assert (G : forall q, getn (setl p P' (setl c C' ns)) q = fupd (fupd (getn ns) c C') p P' q).
  { intros q. rewrite getn_setl by (rewrite setl_length; lia).
    unfold fupd at 1 2. destruct (q =? p)%nat; auto. rewrite getn_setl by lia. auto. }
  constructor.
  - rewrite !setl_length; auto.
  - intros q Lq Kq. destruct (Nat.eq_dec q p) as [->|Nq].
    + eapply link_ok_ext; [| |apply LK].
      * rewrite G, fupd_same. apply lv_eq_refl.
      * intros d Hd. rewrite G. rewrite (fupd_other _ p P' d). apply uv_eq_refl.
        intros ->. eapply not_own_kid; eauto.
    + eapply link_ok_ext; [| |apply (d_link0 q Lq Kq)].
      * rewrite G, fupd_other by auto. destruct (Nat.eq_dec q c) as [->|Nc].
        -- rewrite fupd_same; auto.
        -- rewrite fupd_other by auto. apply lv_eq_refl.
      * intros d Hd. rewrite G. destruct (Nat.eq_dec d p) as [->|Np].
        -- rewrite fupd_same; auto.
        -- rewrite fupd_other by auto. rewrite fupd_other. apply uv_eq_refl.
           intros ->. destruct (w_kids T W q c Hd) as (_ & _ & X). congruence.
  - rewrite G. destruct (Nat.eq_dec p 0) as [->|N].
    + rewrite fupd_same; auto.
    + rewrite fupd_other by auto. rewrite fupd_other by lia. auto.
  - intros v Kv. rewrite G. destruct (Nat.eq_dec v p) as [->|N].
    + exfalso. rewrite (w_leaf T W p Kv) in I. destruct I.
    + rewrite fupd_other by auto. destruct (Nat.eq_dec v c) as [->|N2].
      * rewrite fupd_same; auto.
      * rewrite fupd_other; auto.
  - intros v. rewrite G. unfold total_ok. destruct (Nat.eq_dec v p) as [->|N].
    + rewrite fupd_same. destruct UV as (_ & _ & _ & _ & <-). rewrite TP. apply d_total0.
    + rewrite fupd_other by auto. destruct (Nat.eq_dec v c) as [->|N2].
      * rewrite fupd_same. destruct LV as (_ & _ & _ & _ & _ & <-). rewrite TC. apply d_total0.
      * rewrite fupd_other; auto. apply d_total0.
Qed.

Definition loop_st := (list node * list bool * bool)%type.

Definition push_up_in (it : item) (C : node) : node :=
  mkNode (undisp C) (unfin C) (fin C) (free C) (total C) (rlog C) (up_in C ++ [it]) (up_out C) (dn_in C) (dn_out C).
Definition set_dn_out (rest : list (nat * item)) (P : node) : node :=
  mkNode (undisp P) (unfin P) (fin P) (free P) (total P) (rlog P) (up_in P) (up_out P) (dn_in P) rest.
Definition push_dn_in (m : nat) (P : node) : node :=
  mkNode (undisp P) (unfin P) (fin P) (free P) (total P) (rlog P) (up_in P) (up_out P) (dn_in P ++ [m]) (dn_out P).
Definition set_up_out (rest : list nat) (C : node) : node :=
  mkNode (undisp C) (unfin C) (fin C) (free C) (total C) (rlog C) (up_in C) rest (dn_in C) (dn_out C).

Lemma dinv_down_step T ns p c it rest :
  wf_topo T -> dinv T ns -> dn_out (getn ns p) = (c, it) :: rest ->
  dinv T (upd p (set_dn_out rest) (upd c (push_up_in it) ns))
  /\ In c (kidsT T p) /\ (p < sizeT T)%nat /\
  upd p (set_dn_out rest) (upd c (push_up_in it) ns)
  = setl p (set_dn_out rest (getn ns p)) (setl c (push_up_in it (getn ns c)) ns).
Proof.
  intros W D E.
  destruct (Nat.lt_ge_cases p (sizeT T)) as [Lp|Gp].
  2:{ exfalso. unfold getn in *. rewrite nth_overflow in E; [discriminate|]. rewrite (d_len T _ D); auto. }
  assert (Kp : kindT T p <> KSub).
  { intros K. destruct (d_leaf T ns D p K) as (_ & _ & X & _). congruence. }
  pose proof (d_link T ns D p Lp Kp) as LK.
  assert (Ic : In c (kidsT T p)) by (apply (k_dst _ _ _ LK (c, it)); rewrite E; left; auto).
  destruct (w_kids T W p c Ic) as (Lpc & Lc & Par).
  assert (EQ : upd p (set_dn_out rest) (upd c (push_up_in it) ns)
               = setl p (set_dn_out rest (getn ns p)) (setl c (push_up_in it (getn ns c)) ns)).
  { rewrite (upd_as_setl c _ ns dnode), (upd_as_setl p _ _ dnode).
    rewrite nth_setl_other by lia. reflexivity. }
  split; [|split; [|split]]; auto. rewrite EQ.
  apply dinv_set2; auto.
  - repeat split.
  - repeat split.
  - eapply proj1. eapply link_fwd_down with (P := getn ns p) (U := getn ns) (it := it) (rest := rest);
      [apply (w_nodup T W) | exact LK | exact E | reflexivity ..].
  - intros ->. apply (d_root T ns D).
  - intros K. apply (d_leaf T ns D c K).
Qed.

Lemma dinv_up_step T ns p c m rest :
  wf_topo T -> dinv T ns -> In c (kidsT T p) -> up_out (getn ns c) = m :: rest ->
  dinv T (upd c (set_up_out rest) (upd p (push_dn_in m) ns)) /\
  upd c (set_up_out rest) (upd p (push_dn_in m) ns)
  = setl p (push_dn_in m (getn ns p)) (setl c (set_up_out rest (getn ns c)) ns).
Proof.
  intros W D Ic E.
  destruct (w_kids T W p c Ic) as (Lpc & Lc & Par).
  assert (Kp : kindT T p <> KSub) by (eapply kid_parent_nonleaf; eauto).
  assert (Lp : (p < sizeT T)%nat) by lia.
  pose proof (d_link T ns D p Lp Kp) as LK.
  assert (L1 : (p < length ns)%nat) by (rewrite (d_len T _ D); auto).
  assert (L2 : (c < length ns)%nat) by (rewrite (d_len T _ D); auto).
  assert (EQ : upd c (set_up_out rest) (upd p (push_dn_in m) ns)
               = setl p (push_dn_in m (getn ns p)) (setl c (set_up_out rest (getn ns c)) ns)).
  { rewrite (upd_as_setl p _ ns dnode), (upd_as_setl c _ _ dnode).
    rewrite nth_setl_other by lia.
    unfold setl. apply nth_ext with (d := dnode) (d' := dnode).
    - rewrite !upd_length; auto.
    - intros i _. destruct (Nat.eq_dec i p) as [E1|N1]; destruct (Nat.eq_dec i c) as [E2|N2];
        try subst i; try lia.
      + rewrite nth_upd_other by lia. rewrite !nth_upd_same; auto. rewrite upd_length; auto.
      + rewrite nth_upd_same by (rewrite upd_length; auto). rewrite nth_upd_other by lia.
        rewrite nth_upd_same; auto.
      + rewrite !nth_upd_other; auto. }
  split; auto. rewrite EQ.
  apply dinv_set2; auto.
  - repeat split.
  - repeat split.
  - eapply link_fwd_up with (P := getn ns p) (U := getn ns) (m := m) (rest := rest);
      [apply (w_nodup T W) | exact Ic | exact LK | exact E | reflexivity ..].
  - intros ->. apply (d_root T ns D).
  - intros K. apply (d_leaf T ns D c K).
Qed.

Lemma dinv_fwd_down T fuel p st :
  wf_topo T -> dinv T (fst (fst st)) -> dinv T (fst (fst (fwd_down fuel p st))).
Proof.
  intros W. revert st. induction fuel; intros [[ns nx] pr] D; simpl in *; auto.
  destruct (dn_out (nth p ns dnode)) as [|[c it] rest] eqn:E; simpl; auto.
  destruct (full (up_in (nth c ns dnode))) eqn:F; simpl; auto.
  apply IHfuel. simpl. apply (dinv_down_step T ns p c it rest W D E).
Qed.

Lemma dinv_fwd_up T fuel c p st :
  wf_topo T -> In c (kidsT T p) -> dinv T (fst (fst st)) -> dinv T (fst (fst (fwd_up fuel c p st))).
Proof.
  intros W Ic. revert st. induction fuel; intros [[ns nx] pr] D; simpl in *; auto.
  destruct (up_out (nth c ns dnode)) as [|m rest] eqn:E; simpl; auto.
  destruct (full (dn_in (nth p ns dnode))) eqn:F; simpl; auto.
  apply IHfuel. simpl. apply (dinv_up_step T ns p c m rest W D Ic E).
Qed.

Lemma dinv_fwd_port T p j st :
  wf_topo T -> dinv T (fst (fst st)) -> dinv T (fst (fst (fwd_port p (kidsT T p) j st))).
Proof.
  intros W D. destruct j; simpl.
  - apply dinv_fwd_down; auto.
  - destruct (nth_error (kidsT T p) j) eqn:E; auto.
    apply dinv_fwd_up; auto. eapply nth_error_In; eauto.
Qed.

Lemma dinv_conn T s p :
  wf_topo T -> dinv T (nodes s) -> dinv T (nodes (step_conn T s p)).
Proof.
  intros W D. unfold step_conn.
  set (f := fun st i => fwd_port p (kidsT T p) ((i + nth p (crr s) 0%nat) mod S (length (kidsT T p)))%nat st).
  assert (forall l st, dinv T (fst (fst st)) -> dinv T (fst (fst (fold_left f l st)))) as H.
  { induction l; simpl; auto. intros st Hst. apply IHl. unfold f. apply dinv_fwd_port; auto. }
  specialize (H (seq 0 (S (length (kidsT T p)))) (nodes s, nxt s, false) D).
  destruct (fold_left f (seq 0 (S (length (kidsT T p)))) (nodes s, nxt s, false)) as [[ns nx] pr].
  simpl in *. auto.
Qed.

Theorem dinv_step T s e : wf_topo T -> dinv T (nodes s) -> dinv T (nodes (step1 true T s e)).
Proof.
  intros W D. destruct e; simpl; auto.
  - apply dinv_tick; auto.
  - apply dinv_conn; auto.
Qed.

(** * Part D: the initial state *)

Lemma getn_init T trace u : (u < sizeT T)%nat -> getn (nodes (init T trace)) u = init_node T trace u.
Proof.
  intros L. unfold getn, init; simpl.
  rewrite nth_indep with (d' := init_node T trace O) by (rewrite map_length, seq_length; auto).
  rewrite map_nth with (d := O). rewrite seq_nth; auto.
Qed.

Lemma sumf_zero {A} (l : list A) : sumf (fun _ => O) l = O.
Proof. induction l; simpl; auto. Qed.

Lemma dinv_init T trace : wf_topo T -> dinv T (nodes (init T trace)).
Proof.
  intros W. constructor.
  - unfold init; simpl. rewrite map_length, seq_length; auto.
  - intros p Lp Kp.
    assert (HK : forall c, In c (kidsT T p) -> getn (nodes (init T trace)) c =
                                             mkNode [] 0 0 (kidsT T c) 0 [] [] [] [] []).
    { intros c Hc. destruct (w_kids T W p c Hc) as (A & B & _). rewrite getn_init; auto.
      destruct c; [lia|reflexivity]. }
    rewrite (getn_init T trace p Lp).
    assert (HP : exists ud rl, init_node T trace p = mkNode ud (Z.of_nat (length ud)) 0 (kidsT T p) 0 rl [] [] [] []
                               /\ flat_map isub rl = ud).
    { destruct p; simpl.
      - exists trace, [Item 0 trace]; split; auto. simpl. apply app_nil_r.
      - exists [], []; split; auto. }
    destruct HP as (ud & rl & -> & Hrl).
    remember (getn (nodes (init T trace))) as G eqn:EG. clear EG.
    constructor; simpl; auto.
    + apply (w_nodup T W).
    + apply incl_refl.
    + lia.
    + intros c Hc. rewrite expect_in by auto. unfold tokens, hold. rewrite (HK c Hc). simpl. reflexivity.
    + intros x [].
    + intros c [].
    + intros c Hc. rewrite (HK c Hc). simpl. repeat split; try lia.
    + intros f. rewrite Hrl.
      replace (sumf (fun c : nat => (sumf f (up_in (G c)) + sumf f (rlog (G c)))%nat) (kidsT T p))
        with O; [lia|].
      symmetry. rewrite <- (sumf_zero (kidsT T p)). apply sumf_ext.
      intros c Hc. rewrite (HK c Hc). reflexivity.
  - rewrite getn_init by (apply (w_size T W)). simpl. repeat split.
  - intros u K. destruct (Nat.lt_ge_cases u (sizeT T)) as [L|G].
    + rewrite getn_init; auto. pose proof (w_leaf T W u K) as E.
      destruct u; simpl; rewrite ?E.
      * rewrite (w_root T W) in K. discriminate.
      * repeat split.
    + unfold getn. rewrite nth_overflow. { repeat split. }
      unfold init; simpl. rewrite map_length, seq_length; auto.
  - intros u. destruct (Nat.lt_ge_cases u (sizeT T)) as [L|G].
    + rewrite getn_init; auto. unfold total_ok. destruct u; simpl.
      * rewrite (w_root T W). reflexivity.
      * destruct (kindT T (S u)); reflexivity.
    + unfold getn. rewrite nth_overflow.
      * unfold total_ok. simpl. destruct (kindT T u); reflexivity.
      * unfold init; simpl. rewrite map_length, seq_length; auto.
Qed.

Inductive reach (T : topo) (s0 : sys) : sys -> Prop :=
| reach_refl : reach T s0 s0
| reach_step s e : reach T s0 s -> reach T s0 (step1 true T s e).

Theorem dinv_reach T trace s : wf_topo T -> reach T (init T trace) s -> dinv T (nodes s).
Proof.
  intros W R. induction R.
  - apply dinv_init; auto.
  - apply dinv_step; auto.
Qed.

(** * Part E: what a tick does to one node (case analysis of the Go Tick functions) *)

Definition grows {A} (old new : list A) (flag : bool) : Prop :=
  new = old \/ exists m, new = old ++ [m] /\ (old = [] -> flag = true).
Definition shrinks {A} (old new : list A) (flag : bool) : Prop :=
  new = old \/ exists x, old = x :: new /\ (just_freed new = true -> flag = true).

(** the summary used by the wake-up invariants *)
Record tick_facts (k : kind) (u : nat) (n n' : node) (pr : bool) (e : eff) : Prop := {
  tf_uo : grows (up_out n) (up_out n') (e_send_up e);
  tf_do : grows (dn_out n) (dn_out n') (e_send_dn e);
  tf_ui : shrinks (up_in n) (up_in n') (e_avail_up e);
  tf_di : shrinks (dn_in n) (dn_in n') (e_avail_dn e);
  tf_ui_np : pr = false -> k <> KDriver -> up_in n' = [];
  tf_di_np : pr = false -> k <> KSub -> dn_in n' = [];
  tf_fin_np : pr = false -> k <> KDriver -> fin n' = 0 \/ full (up_out n') = true;
  tf_run_np : pr = false -> k = KSub -> unfin n' = 0;
  tf_disp_np : pr = false -> k <> KSub ->
      undisp n' = [] \/ free n' = [] \/ full (dn_out n') = true
      \/ exists c, free n = c :: free n';
  tf_leaf : k = KSub -> undisp n' = undisp n /\ free n' = free n /\ dn_out n' = dn_out n /\ dn_in n' = dn_in n;
  tf_root : k = KDriver -> up_in n' = up_in n /\ up_out n' = up_out n /\ fin n' = fin n /\ rlog n' = rlog n
}.

Ltac split_tick H :=
  repeat match type of H with
         | context [if ?x then _ else _] => destruct x eqn:?; simpl in H
         | context [match ?x with [] => _ | _ :: _ => _ end] => destruct x eqn:?; simpl in H
         end;
  inversion H; clear H; subst.

Ltac rw_cases :=
  simpl; repeat match goal with
                | E : _ = [] |- _ => rewrite E
                | E : _ = _ :: _ |- _ => rewrite E
                end.

Ltac solve_grows :=
  rw_cases;
  first [ left; reflexivity
        | right; eexists; split; [reflexivity | let E := fresh in intros E; simpl; rewrite ?E; reflexivity] ].
Ltac solve_shrinks :=
  rw_cases;
  first [ left; reflexivity
        | right; eexists; split;
          [ reflexivity
          | let J := fresh in intros J; simpl in *; rewrite ?J; auto using orb_true_r, orb_true_l ] ].
Ltac solve_np :=
  let P := fresh in let Q := fresh in
  intros P Q; simpl in *; try discriminate; try congruence;
  first [ reflexivity | assumption
        | left; (assumption || (apply Z.eqb_eq; assumption))
        | right; assumption
        | right; left; assumption
        | right; right; left; assumption
        | right; right; right; eexists; reflexivity
        | right; right; right; eexists; eassumption
        | (apply Z.eqb_eq; assumption) ].

Lemma tick_node_facts k u n n' pr e : tick_node true k u n = (n', pr, e) -> tick_facts k u n n' pr e.
Proof.
  intros H. destruct k; simpl in H;
    unfold tick_driver, tick_mid, tick_sub, op_seq, op_report, op_dispatch, op_recv_mid, op_recv_leaf,
      op_done, op_run in H; simpl in H; split_tick H;
    (constructor; [solve_grows | solve_grows | solve_shrinks | solve_shrinks
                  | solve_np | solve_np | solve_np | solve_np | solve_np
                  | intros; try discriminate; simpl; auto
                  | intros; try discriminate; simpl; auto ]).
Qed.

