(** Executable model of the NVIDIA trace-driven simulation
    (nvidia/driver/driver.go, gpu/gpu.go, sm/sm.go, subcore/subcore.go, wired
    by their builders, started by runner.Run) under akita's event engine.

    The platform is a tree of ticking components: the driver (node 0), its
    GPUs, their SMs, their sub-cores.  Every non-leaf owns one akita
    direct connection to its children.  Each component is a record of exactly
    the counters, work queues and free lists of the Go struct plus its port
    buffers (capacity 4 each, sim.NewPort(comp, 4, 4, ...)).

      field      Driver                   GPU                          SM                         Subcore
      undisp     undispatchedKernels      undispatchedThreadblocks     undispatchedWarps          -
      unfin      unfinishedKernelsCount   unfinishedThreadblocksCount  unfinishedWarpsCount       unfinishedInstsCount
      fin        -                        finishedKernelsCount         finishedThreadblocksCount  finishedWarpsCount
      free       freeDevices              freeSMs                      freeSubcores               -
      total      -                        -                            warpsCount                 instsCount
      up_*       -                        toDriver in/out              toGPU in/out               toSM in/out
      dn_*       toDevices in/out         toSMs in/out                 toSubcores in/out          -

    [rlog] is a ghost log (never read by a transition).

    The event engine is the environment: it picks a component tick, a
    connection tick or the move to the next cycle.  [cur]/[nxt] are the tick
    events queued for a component for the current / the next cycle
    (TickScheduler.TickLater), [cpend] the (single) queued tick of a
    connection (TickNow / TickLater of a secondary ticking component).

    Definitions only; proofs are in NvSimProofs.v.  [fx] selects the repaired
    code ([true]: a unit whose unfinished count is still 0 after unpacking a
    work item reports it finished at once) or the original code ([false]). *)
From Coq Require Import List NArith ZArith Bool Arith.
Import ListNotations.
Open Scope Z_scope.

(** A work item: a warp ([n] = InstructionsCount, no sub-items), a thread
    block (sub-items = warps) or a kernel (sub-items = thread blocks). *)
Inductive item := Item (n : N) (sub : list item).
Definition icount (x : item) : N := let 'Item n _ := x in n.
Definition isub (x : item) : list item := let 'Item _ s := x in s.

Inductive kind := KDriver | KGpu | KSm | KSub.

Record node := mkNode {
  undisp : list item;          (* work not yet sent to a child *)
  unfin : Z;                   (* unfinished...Count (int64) *)
  fin : Z;                     (* finished...Count: completions not yet reported *)
  free : list nat;             (* free children (node numbers), FIFO *)
  total : Z;                   (* warpsCount / instsCount *)
  rlog : list item;            (* ghost: work items received, in order *)
  up_in : list item;           (* port to the parent: incoming buffer *)
  up_out : list nat;           (* port to the parent: outgoing completion messages (sender id) *)
  dn_in : list nat;            (* port to the children: incoming completion messages *)
  dn_out : list (nat * item)   (* port to the children: outgoing work (destination, item) *)
}.

Definition dnode : node := mkNode [] 0 0 [] 0 [] [] [] [] [].

Definition PORT_CAP : nat := 4.
(** [!buf.CanPush()] *)
Definition full {A} (b : list A) : bool := (PORT_CAP <=? length b)%nat.
(** after a Pop: [buf.Size() == buf.Capacity()-1] *)
Definition just_freed {A} (rest : list A) : bool := (length rest =? PORT_CAP - 1)%nat.
Definition is_empty {A} (b : list A) : bool := match b with [] => true | _ => false end.

(** Notifications a tick sends to the rest of the system. *)
Record eff := mkEff {
  e_send_up : bool;   (* Send on the upper port found its buffer empty: conn.NotifySend *)
  e_send_dn : bool;
  e_avail_up : bool;  (* RetrieveIncoming on the upper port freed a full buffer: conn.NotifyAvailable *)
  e_avail_dn : bool
}.
Definition eff0 := mkEff false false false false.
Definition eff_or (a b : eff) :=
  mkEff (e_send_up a || e_send_up b) (e_send_dn a || e_send_dn b)
        (e_avail_up a || e_avail_up b) (e_avail_dn a || e_avail_dn b).

Definition res := (node * bool * eff)%type.

(** reportFinishedWarps / reportFinishedKernels (SM, GPU) *)
Definition op_report (u : nat) (n : node) : res :=
  if fin n =? 0 then (n, false, eff0)
  else if full (up_out n) then (n, false, eff0)
  else (mkNode (undisp n) (unfin n) (fin n - 1) (free n) (total n) (rlog n)
               (up_in n) (up_out n ++ [u]) (dn_in n) (dn_out n),
        true, mkEff (is_empty (up_out n)) false false false).

(** dispatchKernelsToDevices (returns true on success) /
    dispatchThreadblocksToSMs, dispatchThreadblocksToSubcores (return false even on success) *)
Definition op_dispatch (ret : bool) (n : node) : res :=
  match free n, undisp n with
  | c :: fr, it :: ud =>
      if full (dn_out n) then (n, false, eff0)
      else (mkNode ud (unfin n) (fin n) fr (total n) (rlog n)
                   (up_in n) (up_out n) (dn_in n) (dn_out n ++ [(c, it)]),
            ret, mkEff false (is_empty (dn_out n)) false false)
  | _, _ => (n, false, eff0)
  end.

(** GPU.processDriverInput / SM.processGPUInput *)
Definition op_recv_mid (fx counts : bool) (n : node) : res :=
  match up_in n with
  | [] => (n, false, eff0)
  | it :: rest =>
      let k := Z.of_nat (length (isub it)) in
      let unf := unfin n + k in
      (mkNode (undisp n ++ isub it) unf
              (if fx && (unf =? 0) then fin n + 1 else fin n) (free n)
              (if counts then total n + k else total n) (rlog n ++ [it])
              rest (up_out n) (dn_in n) (dn_out n),
       true, mkEff false false (just_freed rest) false)
  end.

(** Subcore.processSMInput *)
Definition op_recv_leaf (fx : bool) (n : node) : res :=
  match up_in n with
  | [] => (n, false, eff0)
  | it :: rest =>
      let k := Z.of_N (icount it) in
      (mkNode (undisp n) k
              (if fx && (k =? 0) then fin n + 1 else fin n) (free n)
              (total n + k) (rlog n ++ [it])
              rest (up_out n) (dn_in n) (dn_out n),
       true, mkEff false false (just_freed rest) false)
  end.

(** Driver.processDevicesInput (count_fin = false) / GPU.processSMsInput, SM.processSubcoresInput *)
Definition op_done (count_fin : bool) (n : node) : res :=
  match dn_in n with
  | [] => (n, false, eff0)
  | c :: rest =>
      let unf := unfin n - 1 in
      (mkNode (undisp n) unf
              (if count_fin && (unf =? 0) then fin n + 1 else fin n) (free n ++ [c])
              (total n) (rlog n)
              (up_in n) (up_out n) rest (dn_out n),
       true, mkEff false false false (just_freed rest))
  end.

(** Subcore.run *)
Definition op_run (n : node) : res :=
  if unfin n =? 0 then (n, false, eff0)
  else
    let unf := unfin n - 1 in
    (mkNode (undisp n) unf (if unf =? 0 then fin n + 1 else fin n) (free n) (total n) (rlog n)
            (up_in n) (up_out n) (dn_in n) (dn_out n),
     true, eff0).

(** [madeProgress = a() || madeProgress] in program order *)
Definition op_seq (a b : node -> res) (n : node) : res :=
  let '(n1, p1, e1) := a n in
  let '(n2, p2, e2) := b n1 in
  (n2, p1 || p2, eff_or e1 e2).

Definition tick_driver : node -> res :=
  op_seq (op_dispatch true) (op_done false).
Definition tick_mid (fx counts : bool) (u : nat) : node -> res :=
  op_seq (op_report u) (op_seq (op_dispatch false) (op_seq (op_recv_mid fx counts) (op_done true))).
Definition tick_sub (fx : bool) (u : nat) : node -> res :=
  op_seq (op_report u) (op_seq op_run (op_recv_leaf fx)).

Definition tick_node (fx : bool) (k : kind) (u : nat) : node -> res :=
  match k with
  | KDriver => tick_driver
  | KGpu => tick_mid fx false u
  | KSm => tick_mid fx true u
  | KSub => tick_sub fx u
  end.

(** ** The system *)

Record topo := mkTopo {
  t_kind : list kind;
  t_parent : list nat;
  t_kids : list (list nat)      (* in plug-in order *)
}.
Definition kindT (T : topo) (u : nat) : kind := nth u (t_kind T) KSub.
Definition parentT (T : topo) (u : nat) : nat := nth u (t_parent T) O.
Definition kidsT (T : topo) (u : nat) : list nat := nth u (t_kids T) [].
Definition sizeT (T : topo) : nat := length (t_kids T).

Record sys := mkSys {
  nodes : list node;
  cur : list bool;     (* tick queued for this cycle *)
  nxt : list bool;     (* tick queued for the next cycle *)
  cpend : list bool;   (* tick of the connection below node i queued *)
  crr : list nat       (* directconnection nextPortID of the connection below node i *)
}.

Definition nd (s : sys) (u : nat) : node := nth u (nodes s) dnode.

Fixpoint upd {A} (i : nat) (f : A -> A) (l : list A) : list A :=
  match l, i with
  | [], _ => []
  | x :: t, O => f x :: t
  | x :: t, S j => x :: upd j f t
  end.
Definition setl {A} (i : nat) (v : A) (l : list A) : list A := upd i (fun _ => v) l.
Definition set_many (is : list nat) (l : list bool) : list bool :=
  fold_right (fun i acc => setl i true acc) l is.
Definition remove_nat (u : nat) (l : list nat) : list nat :=
  filter (fun x => negb (Nat.eqb x u)) l.

(** What the notifications of a tick of [u] do to the tick queues. *)
Definition apply_eff (T : topo) (u : nat) (e : eff) (nx cp : list bool) : list bool * list bool :=
  let p := parentT T u in
  let cp := if e_send_up e then setl p true cp else cp in
  let cp := if e_send_dn e then setl u true cp else cp in
  let '(nx, cp) := if e_avail_up e
                   then (set_many (p :: remove_nat u (kidsT T p)) nx, setl p true cp)
                   else (nx, cp) in
  if e_avail_dn e then (set_many (kidsT T u) nx, setl u true cp) else (nx, cp).

(** TickingComponent.Handle *)
Definition step_tick (fx : bool) (T : topo) (s : sys) (u : nat) : sys :=
  let '(n', prog, e) := tick_node fx (kindT T u) u (nd s u) in
  let nx := if prog then setl u true (nxt s) else nxt s in
  let '(nx, cp) := apply_eff T u e nx (cpend s) in
  mkSys (setl u n' (nodes s)) (setl u false (cur s)) nx cp (crr s).

(** directconnection forwardMany on the parent's port: work items travel down. *)
Fixpoint fwd_down (fuel p : nat) (st : list node * list bool * bool) : list node * list bool * bool :=
  match fuel with
  | O => st
  | S k =>
      let '(ns, nx, prog) := st in
      match dn_out (nth p ns dnode) with
      | [] => st
      | (c, it) :: rest =>
          let C := nth c ns dnode in
          if full (up_in C) then st
          else
            let nx := if is_empty (up_in C) then setl c true nx else nx in
            let ns := upd c (fun C => mkNode (undisp C) (unfin C) (fin C) (free C) (total C) (rlog C)
                                             (up_in C ++ [it]) (up_out C) (dn_in C) (dn_out C)) ns in
            let ns := upd p (fun P => mkNode (undisp P) (unfin P) (fin P) (free P) (total P) (rlog P)
                                             (up_in P) (up_out P) (dn_in P) rest) ns in
            let nx := if just_freed rest then setl p true nx else nx in
            fwd_down k p (ns, nx, true)
      end
  end.

(** forwardMany on a child's port: completion messages travel up. *)
Fixpoint fwd_up (fuel c p : nat) (st : list node * list bool * bool) : list node * list bool * bool :=
  match fuel with
  | O => st
  | S k =>
      let '(ns, nx, prog) := st in
      match up_out (nth c ns dnode) with
      | [] => st
      | m :: rest =>
          let P := nth p ns dnode in
          if full (dn_in P) then st
          else
            let nx := if is_empty (dn_in P) then setl p true nx else nx in
            let ns := upd p (fun P => mkNode (undisp P) (unfin P) (fin P) (free P) (total P) (rlog P)
                                             (up_in P) (up_out P) (dn_in P ++ [m]) (dn_out P)) ns in
            let ns := upd c (fun C => mkNode (undisp C) (unfin C) (fin C) (free C) (total C) (rlog C)
                                             (up_in C) rest (dn_in C) (dn_out C)) ns in
            let nx := if just_freed rest then setl c true nx else nx in
            fwd_up k c p (ns, nx, true)
      end
  end.

(** ports of the connection below [p] in plug-in order: the parent's, then the children's *)
Definition fwd_port (p : nat) (ks : list nat) (j : nat) (st : list node * list bool * bool) :=
  match j with
  | O => fwd_down (length (dn_out (nth p (fst (fst st)) dnode))) p st
  | S j' => match nth_error ks j' with
            | Some c => fwd_up (length (up_out (nth c (fst (fst st)) dnode))) c p st
            | None => st
            end
  end.

(** directconnection middleware Tick + TickingComponent.Handle *)
Definition step_conn (T : topo) (s : sys) (p : nat) : sys :=
  let ks := kidsT T p in
  let len := S (length ks) in
  let r := nth p (crr s) O in
  let '(ns, nx, prog) :=
    fold_left (fun st i => fwd_port p ks ((i + r) mod len)%nat st) (seq 0 len) (nodes s, nxt s, false) in
  mkSys ns (cur s) nx (setl p prog (cpend s)) (setl p ((r + 1) mod len)%nat (crr s)).

(** the engine's clock reaches the next cycle of the components *)
Definition step_adv (s : sys) : sys :=
  mkSys (nodes s) (nxt s) (map (fun _ => false) (nxt s)) (cpend s) (crr s).

Inductive ev := Adv | Tick (u : nat) | Conn (p : nat).

(** an event the engine can have at the head of its queue *)
Definition enabled (s : sys) (e : ev) : bool :=
  match e with
  | Adv => forallb negb (cur s) && existsb (fun b => b) (nxt s)
  | Tick u => nth u (cur s) false
  | Conn p => nth p (cpend s) false
  end.

Definition step1 (fx : bool) (T : topo) (s : sys) (e : ev) : sys :=
  match e with
  | Adv => step_adv s
  | Tick u => step_tick fx T s u
  | Conn p => step_conn T s p
  end.

(** ** Observations (what the harness reads from the real components) *)

Definition enc (z : Z) : N := Z.to_N (z + 1000).
Definition nlen {A} (l : list A) : N := N.of_nat (length l).
(** uint64 arithmetic of the harness *)
Definition mix (h : N) (x : N) : N := ((h * 41 + x) mod 18446744073709551616)%N.

Definition node_digest (n : node) : N :=
  fold_left mix
    ([enc (unfin n); enc (fin n); nlen (undisp n); nlen (free n); enc (total n);
      nlen (up_in n); nlen (up_out n); nlen (dn_in n); nlen (dn_out n)] ++ map N.of_nat (free n)) 0%N.

Definition conn_digest (T : topo) (s : sys) (p : nat) : N :=
  fold_left (fun h c => mix (mix h (nlen (up_in (nd s c)))) (nlen (up_out (nd s c))))
            (kidsT T p) (mix (nlen (dn_in (nd s p))) (nlen (dn_out (nd s p)))).

Definition obs_of (T : topo) (s : sys) (e : ev) : N :=
  match e with
  | Adv => 0%N
  | Tick u => node_digest (nd s u)
  | Conn p => conn_digest T s p
  end.

Definition step (fx : bool) (T : topo) (s : sys) (e : ev) : sys * N :=
  let s' := step1 fx T s e in (s', obs_of T s' e).

Fixpoint run (fx : bool) (T : topo) (s : sys) (es : list ev) : sys :=
  match es with
  | [] => s
  | e :: r => run fx T (step1 fx T s e) r
  end.

(** ** Initial state: runner.Run has handed every kernel to Driver.RunKernel
    and called Driver.TickLater().  The driver's ghost log holds one pseudo item
    whose sub-items are the kernels. *)

Definition init_node (T : topo) (trace : list item) (u : nat) : node :=
  match u with
  | O => mkNode trace (Z.of_nat (length trace)) 0 (kidsT T u) 0 [Item 0 trace] [] [] [] []
  | _ => mkNode [] 0 0 (kidsT T u) 0 [] [] [] [] []
  end.

Definition init (T : topo) (trace : list item) : sys :=
  let n := sizeT T in
  mkSys (map (init_node T trace) (seq 0 n))
        (repeat false n)
        (map (fun u => Nat.eqb u 0) (seq 0 n))
        (repeat false n)
        (repeat O n).

(** nothing left in the engine's queues *)
Definition quiescent (s : sys) : bool :=
  forallb negb (cur s) && forallb negb (nxt s) && forallb negb (cpend s).

(** ** Traces and platform shapes *)

Definition warp_of (n : N) : item := Item n [].
Definition block_of (ws : list N) : item := Item 0 (map warp_of ws).
Definition kernel_of (bs : list (list N)) : item := Item 0 (map block_of bs).
Definition trace_of (ks : list (list (list N))) : list item := map kernel_of ks.

Fixpoint find_parent (kids : list (list nat)) (u : nat) (p : nat) : nat :=
  match kids with
  | [] => O
  | ks :: r => if existsb (Nat.eqb u) ks then p else find_parent r u (S p)
  end.

Definition kind_of_depth (d : nat) : kind :=
  match d with O => KDriver | 1%nat => KGpu | 2%nat => KSm | _ => KSub end.

(** topology from the children lists (node 0 = driver); kinds by depth *)
Definition topo_of_kids (kids : list (list nat)) : topo :=
  let n := length kids in
  let par := map (fun u => find_parent kids u O) (seq 0 n) in
  let depth u :=
      if Nat.eqb u 0 then O
      else let p1 := nth u par O in
           if Nat.eqb p1 0 then 1%nat
           else let p2 := nth p1 par O in
                if Nat.eqb p2 0 then 2%nat else 3%nat in
  mkTopo (map (fun u => kind_of_depth (depth u)) (seq 0 n)) par kids.

(** the uniform platform: D devices x S SMs x C sub-cores, numbered breadth first *)
Definition uniform_kids (D S C : nat) : list (list nat) :=
  [seq 1 D]
  ++ map (fun g => seq (1 + D + g * S) S) (seq 0 D)
  ++ map (fun m => seq (1 + D + D * S + m * C) C) (seq 0 (D * S))
  ++ repeat [] (D * S * C).
Definition uniform_topo (D S C : nat) : topo := topo_of_kids (uniform_kids D S C).

(** ** Checker used by the correspondence run *)

Definition ev_of_code (c : nat) : ev :=
  match c with
  | O => Adv
  | S c' => if Nat.even c' then Tick (Nat.div2 c') else Conn (Nat.div2 c')
  end.

Record case := mkcase {
  c_kids : list (list nat);
  c_trace : list (list (list N));
  c_events : list nat;
  c_obs : list N;        (* one digest per non-Adv event *)
  c_final : list N;      (* digest of every node when the engine stopped *)
  c_stopped : bool       (* the engine ran out of events (no time-out, no panic) *)
}.

(** 0 = agreement; 1000+i = event i was not enabled in the model;
    2000+i = observation after event i differs; 1 = final states differ;
    2 = engine stopped but the model still has queued events; 3 = observation list length;
    4 (added by [check_case_wf] below) = the platform is not a well-formed tree *)
Fixpoint replay (fx : bool) (T : topo) (s : sys) (es : list nat) (os : list N) (i : N) : sys * N :=
  match es with
  | [] => (s, match os with [] => 0%N | _ => 3%N end)
  | c :: r =>
      let e := ev_of_code c in
      if negb (enabled s e) then (s, (1000 + i)%N)
      else
        let '(s', o) := step fx T s e in
        match e with
        | Adv => replay fx T s' r os (i + 1)%N
        | _ => match os with
               | [] => (s', 3%N)
               | o' :: os' => if N.eqb o o' then replay fx T s' r os' (i + 1)%N else (s', (2000 + i)%N)
               end
        end
  end.

Definition list_N_eqb (a b : list N) : bool :=
  (length a =? length b)%nat && forallb (fun p => N.eqb (fst p) (snd p)) (combine a b).

Definition check_case (fx : bool) (c : case) : N :=
  let T := topo_of_kids (c_kids c) in
  let '(s, r) := replay fx T (init T (trace_of (c_trace c))) (c_events c) (c_obs c) 0%N in
  if negb (N.eqb r 0) then r
  else if negb (list_N_eqb (map node_digest (nodes s)) (c_final c)) then 1%N
  else if c_stopped c && negb (quiescent s) then 2%N
  else 0%N.

Fixpoint mismatches_from (fx : bool) (i : nat) (cs : list case) : list (nat * N) :=
  match cs with
  | [] => []
  | c :: r => let k := check_case fx c in
              if N.eqb k 0 then mismatches_from fx (S i) r else (i, k) :: mismatches_from fx (S i) r
  end.

(** ** Decidable well-formedness of a platform topology (a tree numbered so
    that parents come before children, driver at 0, sub-cores at the leaves,
    every other unit with at least one child) *)

Definition kind_eqb (a b : kind) : bool :=
  match a, b with
  | KDriver, KDriver | KGpu, KGpu | KSm, KSm | KSub, KSub => true
  | _, _ => false
  end.

Fixpoint nodupb (l : list nat) : bool :=
  match l with
  | [] => true
  | x :: r => negb (existsb (Nat.eqb x) r) && nodupb r
  end.

Definition wf_topob (T : topo) : bool :=
  let n := sizeT T in
  (0 <? n)%nat && (length (t_kind T) =? n)%nat && (length (t_parent T) =? n)%nat &&
  kind_eqb (kindT T O) KDriver &&
  forallb (fun p =>
    nodupb (kidsT T p) &&
    forallb (fun c => (p <? c)%nat && (c <? n)%nat && (parentT T c =? p)%nat) (kidsT T p) &&
    (if kind_eqb (kindT T p) KSub then is_empty (kidsT T p) else negb (is_empty (kidsT T p))) &&
    (if (p =? 0)%nat then true
     else negb (kind_eqb (kindT T p) KDriver) && existsb (Nat.eqb p) (kidsT T (parentT T p))))
    (seq 0 n).

(** ** One concrete engine schedule (used for examples): handle the queued
    component ticks in node order, then the queued connection ticks, then move
    to the next cycle; stop when nothing is queued. *)

Fixpoint first_true (l : list bool) (i : nat) : option nat :=
  match l with
  | [] => None
  | b :: r => if b then Some i else first_true r (S i)
  end.

Definition next_event (s : sys) : option ev :=
  match first_true (cur s) O with
  | Some u => Some (Tick u)
  | None => match first_true (cpend s) O with
            | Some p => Some (Conn p)
            | None => if enabled s Adv then Some Adv else None
            end
  end.

Fixpoint sched (fuel : nat) (fx : bool) (T : topo) (s : sys) : list ev :=
  match fuel with
  | O => []
  | S k => match next_event s with
           | Some e => e :: sched k fx T (step1 fx T s e)
           | None => []
           end
  end.

(** every event of the list was queued when it was handled *)
Fixpoint run_ok (fx : bool) (T : topo) (s : sys) (es : list ev) : bool :=
  match es with
  | [] => true
  | e :: r => enabled s e && run_ok fx T (step1 fx T s e) r
  end.

(** checker entry points of the correspondence run *)
Definition check_case_wf (fx : bool) (c : case) : N :=
  if wf_topob (topo_of_kids (c_kids c)) then check_case fx c else 4%N.
Fixpoint mismatches_wf (fx : bool) (i : nat) (cs : list case) : list (nat * N) :=
  match cs with
  | [] => []
  | c :: r => let k := check_case_wf fx c in
              if N.eqb k 0 then mismatches_wf fx (S i) r else (i, k) :: mismatches_wf fx (S i) r
  end.
Definition mismatches (cs : list case) : list (nat * N) := mismatches_wf true O cs.
Definition mismatches_orig (cs : list case) : list (nat * N) := mismatches_wf false O cs.
