(** * C20 - layouts of a kernel trace file (model only, no proofs)

    [NvTrace.print_kernel] writes ONE layout: the one of accel-sim's tracer
    (a [#traces format] line after the header, every thread block between a
    [#BEGIN_TB] and an [#END_TB] line, fixed blank lines).  The reader
    (nvidia/tracereader/reader.go) accepts many more files.  Reading the code:

    - [moveScannerToNextLine] skips empty lines everywhere;
    - [readTraceHeader] stops on the first non-empty line that does not start
      with "-" and leaves it as the scanner's current line;
    - [readThreadblocks] looks for the next line with prefix "thread block"
      with [goToNextlineWithPrefixIncludingNow], which tests the CURRENT line
      first and skips every other line: so any lines that are no thread-block
      lines are tolerated between the header and the first block, between the
      last warp of a block and the next block, and at the end of the file -
      provided the first of them (blank lines aside) ends the header loop /
      the warp loop, i.e. starts neither with "-" nor with "warp";
    - after a [warp = n] line the same search looks for "insts": any lines
      are tolerated between the warp line and its insts line;
    - nothing but blank lines is tolerated between the thread-block line and
      its first warp (any other line ends the warp loop), between the insts
      line and the instructions or between instructions (it would be read as
      an instruction), between a warp's instructions and the next warp line
      (it ends the warp loop).

    A LAYOUT fixes, per position, the comment lines (text starting with [#],
    or blank) in the tolerated places and the number of blank lines in the
    others.  Marker lines are comment lines: the accel-sim layout is the
    instance [accel_layout]; the compact serialisation has no comment line at
    all, so the line that ends the header loop / a warp loop IS the next
    thread-block line. *)

From Coq Require Import List ZArith NArith String Ascii Bool.
From VNv Require Import NvTrace.
Import ListNotations.
Local Open Scope Z_scope.

(** a blank line, or a line whose text starts with the character # *)
Definition is_comment (l : line) : bool :=
  match l with
  | LBlank => true
  | LOther (String c _ :: _) => Ascii.eqb c "#"%char
  | _ => false
  end.

Definition comments (ls : list line) : bool := forallb is_comment ls.

Definition blanks (n : nat) : list line := repeat LBlank n.

(** layout of one warp *)
Record wlayout := mkWL {
  wl_pre : list line;        (* comment lines between "warp = n" and "insts = n" *)
  wl_gap : nat -> nat;       (* blank lines before instruction j *)
  wl_post : nat              (* blank lines after the warp's instructions *)
}.

(** layout of one thread block *)
Record blayout := mkBL {
  bl_pre : list line;        (* comment lines before "thread block = ..." (#traces format, #BEGIN_TB) *)
  bl_after_tb : nat;         (* blank lines after the thread-block line *)
  bl_warp : nat -> wlayout;  (* layout of warp j *)
  bl_post : list line        (* comment lines after the last warp (#END_TB) *)
}.

(** layout of a file: per thread block, and the comment lines at the end.
    The lines between the header and the first block are [l_head] followed by
    [bl_pre] of block 0. *)
Record layout := mkL {
  l_head : list line;        (* comment lines after the header (#traces format) *)
  l_block : nat -> blayout;
  l_tail : list line
}.

Definition shift {A} (f : nat -> A) : nat -> A := fun j => f (S j).

Fixpoint print_insts_lay (g : nat -> nat) (is : list inst) : list line :=
  match is with
  | [] => []
  | i :: r => blanks (g O) ++ LInst (print_inst i) :: print_insts_lay (shift g) r
  end.

Definition print_warp_lay (wl : wlayout) (w : warp) : list line :=
  LWarp (w_id w) :: wl_pre wl
  ++ LInsts (zlen (w_insts w)) :: print_insts_lay (wl_gap wl) (w_insts w)
  ++ blanks (wl_post wl).

Fixpoint print_warps_lay (f : nat -> wlayout) (ws : list warp) : list line :=
  match ws with
  | [] => []
  | w :: r => print_warp_lay (f O) w ++ print_warps_lay (shift f) r
  end.

Definition print_block_lay (bl : blayout) (b : tblock) : list line :=
  let '(x, y, z) := b_id b in
  bl_pre bl ++ LTb x y z :: blanks (bl_after_tb bl)
  ++ print_warps_lay (bl_warp bl) (b_warps b) ++ bl_post bl.

Fixpoint print_blocks_lay (f : nat -> blayout) (bs : list tblock) : list line :=
  match bs with
  | [] => []
  | b :: r => print_block_lay (f O) b ++ print_blocks_lay (shift f) r
  end.

Definition print_layout (lay : layout) (k : kernel) : list line :=
  print_header (k_hdr k) ++ l_head lay ++ print_blocks_lay (l_block lay) (k_blocks k) ++ l_tail lay.

(** the only demand on a layout: what it puts into the tolerated places are
    comment lines *)
Definition wf_wlayout (wl : wlayout) : Prop := comments (wl_pre wl) = true.
Definition wf_blayout (bl : blayout) : Prop :=
  comments (bl_pre bl) = true /\ comments (bl_post bl) = true /\
  forall j, wf_wlayout (bl_warp bl j).
Definition wf_layout (lay : layout) : Prop :=
  comments (l_head lay) = true /\ comments (l_tail lay) = true /\ forall i, wf_blayout (l_block lay i).

(** ** the layouts the harness always writes *)

Definition accel_wl : wlayout := mkWL [] (fun _ => O) 1.

(** nvidia/data/simple-trace-example: [print_layout accel_layout = print_kernel] *)
Definition accel_layout : layout :=
  mkL [LBlank; format_line; LBlank; LBlank; LBlank]
      (fun _ => mkBL [begin_tb; LBlank] 1 (fun _ => accel_wl) [end_tb; LBlank])
      [].

(** no comment line, no blank line *)
Definition compact_layout : layout :=
  mkL [] (fun _ => mkBL [] 0 (fun _ => mkWL [] (fun _ => O) 0) []) [].

(** no comment line, [n] blank lines wherever a blank line may stand *)
Definition compact_blanks_layout (n : nat) : layout :=
  mkL (blanks n) (fun _ => mkBL (blanks n) n (fun _ => mkWL (blanks n) (fun _ => n) n) (blanks n)) (blanks n).

(** ** the "advance first" variant of the line search (NOT what the code does;
    used for the refutation example only) *)
Definition goto_prefix_adv (pfx : line -> bool) (st : sstate) : bool * sstate :=
  match seek pfx (snd st) with
  | Some st' => (true, st')
  | None => (false, eof)
  end.

Fixpoint read_warps_adv (fuel : nat) (tb : dim3) (st : sstate) : option (list pwarp * sstate) :=
  match fuel with
  | O => Some ([], st)
  | S f =>
      let (ok, st1) := move_next st in
      if negb ok then Some ([], st1)
      else if is_warp (fst st1) then
        let wid := warp_id (fst st1) in
        let (found, st2) := goto_prefix_adv is_insts st1 in
        if negb found then None
        else
          let cnt := insts_count (fst st2) in
          match read_insts (S (List.length (snd st2))) cnt tb wid st2 with
          | None => None
          | Some (ps, st3) =>
              match read_warps_adv f tb st3 with
              | None => None
              | Some (ws, st4) => Some ((wid, cnt, ps) :: ws, st4)
              end
          end
      else Some ([], st1)
  end.

Fixpoint read_blocks_adv (fuel : nat) (st : sstate) : option (list pblock) :=
  match fuel with
  | O => Some []
  | S f =>
      let (found, st1) := goto_prefix_adv is_tb st in
      if negb found then Some []
      else
        let id := tb_id (fst st1) in
        match read_warps_adv (S (List.length (snd st1))) id st1 with
        | None => None
        | Some (ws, st2) =>
            match read_blocks_adv f st2 with
            | None => None
            | Some bs => Some ((id, ws) :: bs)
            end
        end
  end.

Definition parse_kernel_adv (ls : list line) : option (header * list pblock) :=
  match read_header ls header0 with
  | None => None
  | Some (h, st) =>
      match read_blocks_adv (S (S (List.length ls))) st with
      | None => None
      | Some bs => Some (h, bs)
      end
  end.
