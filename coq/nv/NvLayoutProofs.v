(** * C20 - the reader parses every layout of a kernel file to what was
    serialised (proofs for NvLayout.v) *)

From Coq Require Import List ZArith NArith String Ascii Bool Lia.
From VNv Require Import NvTrace NvTraceProofs NvLayout.
Import ListNotations.
Local Open Scope Z_scope.

(* ------------------------------------------------------------------ *)
(** * Comment lines *)

Lemma comment_not_tb l : is_comment l = true -> is_tb l = false.
Proof. destruct l; simpl; congruence. Qed.
Lemma comment_not_warp l : is_comment l = true -> is_warp l = false.
Proof. destruct l; simpl; congruence. Qed.
Lemma comment_not_insts l : is_comment l = true -> is_insts l = false.
Proof. destruct l; simpl; congruence. Qed.

Lemma comments_app a b : comments (a ++ b) = comments a && comments b.
Proof. apply forallb_app. Qed.

Lemma comments_blanks n : comments (blanks n) = true.
Proof. induction n; simpl; auto. Qed.

(** the search loop runs over comment lines *)
Lemma seek_comments (pfx : line -> bool) :
  (forall l, is_comment l = true -> pfx l = false) ->
  forall J R, comments J = true -> seek pfx (J ++ R) = seek pfx R.
Proof.
  intros Hp. induction J as [|l J IH]; intros R H; [reflexivity|].
  simpl in H. apply andb_prop in H. destruct H as [Hl HJ].
  simpl. destruct (is_blank l); [apply IH; exact HJ|].
  rewrite (Hp l Hl). apply IH. exact HJ.
Qed.

Lemma seek_hit (pfx : line -> bool) l R : is_blank l = false -> pfx l = true ->
  seek pfx (l :: R) = Some (l, R).
Proof. intros Hb Hp. simpl. rewrite Hb, Hp. reflexivity. Qed.

Lemma seek_comments_only (pfx : line -> bool) :
  (forall l, is_comment l = true -> pfx l = false) ->
  forall J, comments J = true -> seek pfx J = None.
Proof.
  intros Hp J H. rewrite <- (app_nil_r J). rewrite seek_comments by assumption. reflexivity.
Qed.

(* ------------------------------------------------------------------ *)
(** * Blank lines *)

Lemma next_nonblank_blanks n R : next_nonblank (blanks n ++ R) = next_nonblank R.
Proof. induction n; simpl; auto. Qed.

Lemma move_next_blanks c n R : move_next (c, blanks n ++ R) = move_next (c, R).
Proof. unfold move_next. simpl snd. rewrite next_nonblank_blanks. reflexivity. Qed.

Lemma move_next_cur c c' R : move_next (c, R) = move_next (c', R).
Proof. reflexivity. Qed.

Lemma read_warps_blanks f tb c n R :
  read_warps (S f) tb (c, blanks n ++ R) = read_warps (S f) tb (c, R).
Proof. rewrite !read_warps_step. rewrite move_next_blanks. reflexivity. Qed.

(* ------------------------------------------------------------------ *)
(** * Where a loop that is ended by its first non-blank line lands *)

(** the first non-blank line, if any, satisfies [p] *)
Definition first_ok (p : line -> bool) (L : list line) : bool :=
  match next_nonblank L with
  | None => true
  | Some (l, _) => p l
  end.

Definition ct (l : line) : bool := is_comment l || is_tb l.

Lemma first_ok_comments_app p J R :
  (forall l, is_comment l = true -> p l = true) ->
  comments J = true -> first_ok p R = true -> first_ok p (J ++ R) = true.
Proof.
  intros Hp. induction J as [|l J IH]; intros HJ HR; [exact HR|].
  simpl in HJ. apply andb_prop in HJ. destruct HJ as [Hl HJ].
  unfold first_ok. simpl. destruct (is_blank l) eqn:E.
  - apply IH; assumption.
  - apply Hp. exact Hl.
Qed.

Lemma first_ok_nil p : first_ok p [] = true.
Proof. reflexivity. Qed.

Lemma first_ok_tb x y z R : first_ok ct (LTb x y z :: R) = true.
Proof. reflexivity. Qed.

(** after the loop [for moveScannerToNextLine() { ... break }] ended on the
    first non-blank line of [L], the search for the next thread-block line
    finds what it finds from before [L]: the line that ended the loop is
    tested first *)
Lemma move_next_tb_equiv cur L :
  goto_prefix is_tb (snd (move_next (cur, L))) = goto_prefix is_tb (LBlank, L).
Proof.
  unfold move_next. simpl snd. induction L as [|l L IH]; [reflexivity|].
  simpl next_nonblank. destruct (is_blank l) eqn:E.
  - rewrite IH. unfold goto_prefix. simpl fst. simpl snd. simpl seek. rewrite E. reflexivity.
  - unfold goto_prefix. simpl fst. simpl snd. simpl seek. rewrite E.
    destruct (is_tb l); reflexivity.
Qed.

Lemma read_blocks_equiv fuel st st' :
  goto_prefix is_tb st = goto_prefix is_tb st' -> read_blocks fuel st = read_blocks fuel st'.
Proof. intros H. destruct fuel; [reflexivity|]. rewrite !read_blocks_step. rewrite H. reflexivity. Qed.

Lemma move_next_not_warp cur L :
  first_ok ct L = true ->
  let r := move_next (cur, L) in fst r = false \/ is_warp (fst (snd r)) = false.
Proof.
  unfold first_ok, move_next. simpl snd. destruct (next_nonblank L) as [[l r]|]; simpl.
  - intros H. right. unfold ct in H. destruct l; simpl in *; congruence.
  - intros _. left. reflexivity.
Qed.

(** readTraceHeader on lines that hold no header line up to the first
    non-blank one *)
Lemma read_header_lands L h :
  first_ok ct L = true -> read_header L h = Some (h, snd (move_next (LBlank, L))).
Proof.
  unfold move_next. simpl snd. induction L as [|l L IH]; intros H; [reflexivity|].
  unfold first_ok in *. simpl in *. destruct (is_blank l) eqn:E.
  - apply IH. exact H.
  - destruct l; simpl in H; try discriminate; reflexivity.
Qed.

(* ------------------------------------------------------------------ *)
(** * Instructions, warps, blocks *)

Lemma print_insts_lay_length g is : (List.length is <= List.length (print_insts_lay g is))%nat.
Proof.
  revert g. induction is as [|i is IH]; intros g; [simpl; lia|].
  simpl. rewrite app_length. simpl. specialize (IH (shift g)). lia.
Qed.

Lemma read_insts_lay tb wid : forall (is : list inst) g fuel cur tail,
  (List.length is <= fuel)%nat -> forallb validb is = true ->
  exists c, read_insts fuel (zlen is) tb wid (cur, print_insts_lay g is ++ tail)
            = Some (map (fun i => stamp tb wid (expected i)) is, (c, tail)).
Proof.
  induction is as [|i is IH]; intros g fuel cur tail Hf Hv.
  - exists cur. destruct fuel; reflexivity.
  - destruct fuel as [|f]; [simpl in Hf; lia|].
    simpl in Hv. apply andb_prop in Hv. destruct Hv as [Hi Hv].
    rewrite read_insts_step.
    pose proof (zlen_nonneg is).
    replace (zlen (i :: is) <=? 0) with false by (symmetry; apply Z.leb_gt; rewrite zlen_cons; lia).
    simpl print_insts_lay. rewrite <- app_assoc. rewrite move_next_blanks. simpl app.
    rewrite move_next_nonblank by apply is_blank_inst.
    simpl negb. cbv iota. simpl fst. simpl line_toks.
    rewrite parse_print_roundtrip by exact Hi.
    replace (zlen (i :: is) - 1) with (zlen is) by (rewrite zlen_cons; lia).
    destruct (IH (shift g) f (LInst (print_inst i)) tail) as [c Hc]; [simpl in Hf; lia | exact Hv |].
    rewrite Hc. exists c. reflexivity.
Qed.

Lemma print_warps_lay_length f ws : (List.length ws <= List.length (print_warps_lay f ws))%nat.
Proof.
  revert f. induction ws as [|w ws IH]; intros f; [simpl; lia|].
  simpl. rewrite app_length. simpl. specialize (IH (shift f)). lia.
Qed.

(** the warp loop over the printed warps of a block: it parses every warp and
    ends on the first non-blank line of what follows *)
Lemma read_warps_lay tb : forall (ws : list warp) g fuel cur X,
  (List.length ws < fuel)%nat ->
  (forall j, wf_wlayout (g j)) ->
  first_ok ct X = true ->
  forallb valid_warpb ws = true ->
  read_warps fuel tb (cur, print_warps_lay g ws ++ X)
  = Some (map (expected_warp tb) ws, snd (move_next (cur, X))).
Proof.
  induction ws as [|w ws IH]; intros g fuel cur X Hf Hg HX Hv.
  - destruct fuel as [|f]; [lia|].
    rewrite read_warps_step. simpl print_warps_lay. simpl app.
    pose proof (move_next_not_warp cur X HX) as HW. simpl in HW.
    destruct (move_next (cur, X)) as [ok st1] eqn:E. simpl in HW. simpl snd.
    destruct ok; simpl negb; cbv iota; [|reflexivity].
    destruct HW as [HW|HW]; [discriminate|]. rewrite HW. reflexivity.
  - destruct fuel as [|f]; [lia|].
    simpl in Hv. apply andb_prop in Hv. destruct Hv as [Hw1 Hv].
    unfold valid_warpb in Hw1. apply andb_prop in Hw1. destruct Hw1 as [Hw1 Hwi].
    apply andb_prop in Hw1. destruct Hw1 as [Hid Hlen].
    change (map (expected_warp tb) (w :: ws))
      with (expected_warp tb w :: map (expected_warp tb) ws).
    simpl print_warps_lay. unfold print_warp_lay.
    pose proof (Hg O) as Hpre. unfold wf_wlayout in Hpre.
    set (wl := g O) in *.
    simpl app. rewrite <- !app_assoc. simpl app. rewrite <- !app_assoc.
    rewrite read_warps_step.
    rewrite move_next_nonblank by reflexivity.
    simpl negb. cbv iota. simpl fst. simpl is_warp. cbv iota.
    unfold goto_prefix. simpl fst. simpl is_insts. cbv iota. simpl snd.
    rewrite (seek_comments is_insts comment_not_insts) by exact Hpre.
    rewrite seek_hit by reflexivity.
    simpl negb. cbv iota beta zeta. simpl fst. simpl snd.
    unfold warp_id, insts_count.
    rewrite (into32_fits (w_id w)) by exact Hid.
    rewrite (into32_fits (zlen (w_insts w))) by (apply fits32_len; [apply zlen_nonneg | exact Hlen]).
    match goal with |- context [read_insts (S ?n) _ _ _ (_, print_insts_lay _ _ ++ ?T)] =>
      destruct (read_insts_lay tb (w_id w) (w_insts w) (wl_gap wl) (S n)
                  (LInsts (zlen (w_insts w))) T) as [c Hc];
        [ rewrite app_length; pose proof (print_insts_lay_length (wl_gap wl) (w_insts w)); lia
        | exact Hwi | rewrite Hc ]
    end.
    destruct f as [|f]; [simpl in Hf; lia|].
    rewrite read_warps_blanks.
    rewrite (IH (shift g) (S f) c X); auto;
      solve [simpl in Hf; lia | intros j; apply Hg].
Qed.

Definition wf_blocks (f : nat -> blayout) : Prop := forall i, wf_blayout (f i).

Lemma first_ok_blocks f bs tail :
  wf_blocks f -> comments tail = true -> first_ok ct (print_blocks_lay f bs ++ tail) = true.
Proof.
  intros Hf Ht. assert (Hc: forall l, is_comment l = true -> ct l = true)
    by (intros l H; unfold ct; rewrite H; reflexivity).
  destruct bs as [|b bs].
  - simpl. rewrite <- (app_nil_r tail). apply first_ok_comments_app; auto.
  - simpl. unfold print_block_lay. destruct (b_id b) as [[x y] z].
    rewrite <- !app_assoc. apply first_ok_comments_app; auto.
    apply (Hf O).
Qed.

Lemma print_blocks_lay_length f bs : (List.length bs <= List.length (print_blocks_lay f bs))%nat.
Proof.
  revert f. induction bs as [|b bs IH]; intros f; [simpl; lia|].
  simpl. rewrite app_length. specialize (IH (shift f)).
  unfold print_block_lay. destruct (b_id b) as [[x y] z].
  rewrite app_length. simpl. lia.
Qed.

(** the outer loop of readThreadblocks, started before comment lines [J]
    (what the previous block left behind) and the printed blocks *)
Lemma read_blocks_lay : forall (bs : list tblock) f fuel J tail,
  (List.length bs < fuel)%nat -> wf_blocks f ->
  comments J = true -> comments tail = true ->
  forallb valid_blockb bs = true ->
  read_blocks fuel (LBlank, J ++ print_blocks_lay f bs ++ tail) = Some (map expected_block bs).
Proof.
  induction bs as [|b bs IH]; intros f fuel J tail Hfu Hf HJ Ht Hv.
  - destruct fuel as [|fu]; [lia|]. rewrite read_blocks_step.
    unfold goto_prefix. simpl fst. simpl is_tb. cbv iota. simpl snd. simpl app.
    rewrite (seek_comments_only is_tb comment_not_tb)
      by (rewrite comments_app, HJ, Ht; reflexivity).
    reflexivity.
  - destruct fuel as [|fu]; [lia|].
    simpl in Hv. apply andb_prop in Hv. destruct Hv as [Hb Hv].
    unfold valid_blockb in Hb. apply andb_prop in Hb. destruct Hb as [Hid Hws].
    change (map expected_block (b :: bs)) with (expected_block b :: map expected_block bs).
    unfold expected_block at 1.
    simpl print_blocks_lay. unfold print_block_lay.
    destruct (Hf O) as [Hpre [Hpost Hwl]].
    set (bl := f O) in *.
    destruct (b_id b) as [[x y] z] eqn:Eid.
    rewrite <- !app_assoc. simpl app. rewrite <- !app_assoc.
    rewrite read_blocks_step. unfold goto_prefix. simpl fst. simpl is_tb. cbv iota. simpl snd.
    rewrite app_assoc.
    rewrite (seek_comments is_tb comment_not_tb)
      by (rewrite comments_app, HJ, Hpre; reflexivity).
    rewrite seek_hit by reflexivity.
    simpl negb. cbv iota beta zeta. simpl fst. simpl snd.
    rewrite tb_id_fits by exact Hid.
    rewrite read_warps_blanks.
    rewrite read_warps_lay; auto.
    2:{ pose proof (print_warps_lay_length (bl_warp bl) (b_warps b)).
        rewrite !app_length. lia. }
    2:{ apply first_ok_comments_app; auto.
        - intros l H; unfold ct; rewrite H; reflexivity.
        - apply first_ok_blocks; auto. intros i. apply Hf. }
    destruct fu as [|fu]; [simpl in Hfu; lia|].
    rewrite (read_blocks_equiv (S fu) _ _ (move_next_tb_equiv _ _)).
    rewrite (IH (shift f) (S fu) (bl_post bl) tail); auto;
      solve [simpl in Hfu; lia | intros i; apply Hf].
Qed.

(* ------------------------------------------------------------------ *)
(** * The header, followed by anything *)

Lemma read_header_print_any h rest :
  valid_headerb h = true ->
  read_header (print_header h ++ rest) header0 = read_header rest h.
Proof.
  destruct h as [name kid grid block shmem nregs binver stream shbase lbase nvbit tracer li].
  unfold valid_headerb.
  cbn [h_name h_kid h_grid h_block h_shmem h_nregs h_binver h_stream h_shbase h_localbase
       h_nvbit h_tracer h_lineinfo].
  intros H.
  do 10 (apply andb_prop in H; let H' := fresh "V" in destruct H as [H H']).
  apply Z.leb_le in V2, V0. apply Z.ltb_lt in V1, V.
  destruct grid as [[gx gy] gz]. destruct block as [[bx by_] bz].
  unfold print_header. simpl app.
  cbn [h_name h_kid h_grid h_block h_shmem h_nregs h_binver h_stream h_shbase h_localbase
       h_nvbit h_tracer h_lineinfo hdim].
  rewrite read_header_step. unfold update_header at 1.
  change (key_index key_name) with (Some 0%nat). cbv iota beta zeta.
  rewrite read_header_step. unfold update_header at 1.
  change (key_index key_kid) with (Some 1%nat). cbv iota beta zeta.
  rewrite scan_d32_print by assumption.
  rewrite read_header_step. unfold update_header at 1.
  change (key_index key_grid) with (Some 2%nat). cbv iota beta zeta.
  rewrite scan_dim3_print by assumption.
  rewrite read_header_step. unfold update_header at 1.
  change (key_index key_block) with (Some 3%nat). cbv iota beta zeta.
  rewrite scan_dim3_print by assumption.
  rewrite read_header_step. unfold update_header at 1.
  change (key_index key_shmem) with (Some 4%nat). cbv iota beta zeta.
  rewrite scan_d32_print by assumption.
  rewrite read_header_step. unfold update_header at 1.
  change (key_index key_nregs) with (Some 5%nat). cbv iota beta zeta.
  rewrite scan_d32_print by assumption.
  rewrite read_header_step. unfold update_header at 1.
  change (key_index key_binver) with (Some 6%nat). cbv iota beta zeta.
  rewrite scan_d32_print by assumption.
  rewrite read_header_step. unfold update_header at 1.
  change (key_index key_stream) with (Some 7%nat). cbv iota beta zeta.
  rewrite scan_d32_print by assumption.
  rewrite read_header_step. unfold update_header at 1.
  change (key_index key_shbase) with (Some 8%nat). cbv iota beta zeta.
  rewrite scan_v64_print by lia.
  rewrite read_header_step. unfold update_header at 1.
  change (key_index key_localbase) with (Some 9%nat). cbv iota beta zeta.
  rewrite scan_v64_print by lia.
  rewrite read_header_step. unfold update_header at 1.
  change (key_index key_nvbit) with (Some 10%nat). cbv iota beta zeta.
  rewrite read_header_step. unfold update_header at 1.
  change (key_index key_tracer) with (Some 11%nat). cbv iota beta zeta.
  rewrite read_header_step. unfold update_header at 1.
  change (key_index key_lineinfo) with (Some 12%nat). cbv iota beta zeta.
  rewrite lineinfo_print.
  reflexivity.
Qed.

(* ------------------------------------------------------------------ *)
(** * Every layout round-trips *)

Theorem parse_print_layout_roundtrip (lay : layout) (k : kernel) :
  wf_layout lay -> valid_kernel k ->
  parse_kernel (print_layout lay k) = Some (k_hdr k, map expected_block (k_blocks k)).
Proof.
  intros [Hhead [Htail Hbl]]. unfold valid_kernel, valid_kernelb. intros H.
  apply andb_prop in H. destruct H as [Hh Hb].
  unfold parse_kernel, print_layout.
  rewrite read_header_print_any by exact Hh.
  assert (Hc: forall l, is_comment l = true -> ct l = true)
    by (intros l H; unfold ct; rewrite H; reflexivity).
  rewrite read_header_lands
    by (apply first_ok_comments_app; auto; apply first_ok_blocks; auto).
  match goal with |- context [read_blocks (S (S ?n))] =>
    assert (Hn: (List.length (k_blocks k) <= n)%nat)
      by (pose proof (print_blocks_lay_length (l_block lay) (k_blocks k));
          rewrite !app_length; lia);
    revert Hn; generalize n
  end.
  intros n Hn.
  rewrite (read_blocks_equiv _ _ _ (move_next_tb_equiv _ _)).
  rewrite read_blocks_lay; auto. lia.
Qed.

(** the layouts the harness always writes are layouts *)
Lemma wf_accel_layout : wf_layout accel_layout.
Proof. repeat split. Qed.

Lemma wf_compact_layout : wf_layout compact_layout.
Proof. repeat split. Qed.

Lemma wf_compact_blanks_layout n : wf_layout (compact_blanks_layout n).
Proof.
  unfold wf_layout, wf_blayout, wf_wlayout. cbn [compact_blanks_layout l_head l_tail l_block bl_pre bl_post bl_warp wl_pre].
  repeat split; intros; apply comments_blanks.
Qed.

(** the accel-sim layout is [print_kernel] *)
Lemma print_insts_lay_accel is :
  print_insts_lay (fun _ => O) is = map (fun i => LInst (print_inst i)) is.
Proof. induction is as [|i is IH]; [reflexivity|]. simpl. f_equal. exact IH. Qed.

Lemma print_warps_lay_accel ws :
  print_warps_lay (fun _ => accel_wl) ws = List.concat (map print_warp ws).
Proof.
  induction ws as [|w ws IH]; [reflexivity|].
  simpl. unfold shift. rewrite IH. f_equal.
  unfold print_warp_lay, print_warp. simpl. rewrite print_insts_lay_accel. reflexivity.
Qed.

Lemma print_blocks_lay_accel bs :
  print_blocks_lay (l_block accel_layout) bs = print_blocks bs.
Proof.
  unfold print_blocks. induction bs as [|b bs IH]; [reflexivity|].
  simpl. unfold shift. simpl in IH. rewrite IH. f_equal.
  unfold print_block_lay, print_block. simpl. destruct (b_id b) as [[x y] z].
  simpl. rewrite print_warps_lay_accel. reflexivity.
Qed.

Theorem print_layout_accel k : print_layout accel_layout k = print_kernel k.
Proof.
  unfold print_layout, print_kernel. rewrite print_blocks_lay_accel.
  simpl l_tail. rewrite app_nil_r. reflexivity.
Qed.

(** the existing theorem is the instance for the accel-sim layout *)
Corollary parse_print_kernel_roundtrip_from_layout (k : kernel) :
  valid_kernel k ->
  parse_kernel (print_kernel k) = Some (k_hdr k, map expected_block (k_blocks k)).
Proof.
  intros H. rewrite <- print_layout_accel.
  apply parse_print_layout_roundtrip; [apply wf_accel_layout | exact H].
Qed.

(** parse o print_layout is injective on valid kernels, for any two layouts *)
Theorem parse_print_layout_exact lay1 lay2 k1 k2 :
  wf_layout lay1 -> wf_layout lay2 -> valid_kernel k1 -> valid_kernel k2 ->
  parse_kernel (print_layout lay1 k1) = parse_kernel (print_layout lay2 k2) -> k1 = k2.
Proof.
  intros W1 W2 V1 V2 H.
  rewrite (parse_print_layout_roundtrip lay1 k1 W1 V1), (parse_print_layout_roundtrip lay2 k2 W2 V2) in H.
  apply parse_print_kernel_exact; [exact V1 | exact V2 |].
  rewrite (NvTraceProofs.parse_print_kernel_roundtrip k1 V1), (NvTraceProofs.parse_print_kernel_roundtrip k2 V2).
  exact H.
Qed.

(* ------------------------------------------------------------------ *)
(** * The "advance first" line search loses blocks on a compact layout *)

Definition demo_inst : inst := mkInst 16 4294967295 [1] "MOV"%string [2] None 0.

Definition demo_kernel : kernel :=
  mkKernel header0
    [mkBlock (0, 0, 0) [mkWarp 0 [demo_inst]];
     mkBlock (1, 0, 0) [mkWarp 0 [demo_inst]];
     mkBlock (2, 0, 0) [mkWarp 0 [demo_inst]]].

(** three thread blocks, written without any marker or blank line: the reader
    as it is returns three blocks; a reader whose line search advances before
    it tests the prefix returns only the second one *)
Theorem advance_first_refuted :
  exists k, valid_kernel k /\
    parse_kernel (print_layout compact_layout k) = Some (k_hdr k, map expected_block (k_blocks k)) /\
    parse_kernel_adv (print_kernel k) = parse_kernel (print_kernel k) /\
    parse_kernel_adv (print_layout compact_layout k)
      = Some (k_hdr k, map expected_block (firstn 1 (skipn 1 (k_blocks k)))).
Proof. exists demo_kernel. repeat split; vm_compute; reflexivity. Qed.
