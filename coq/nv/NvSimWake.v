(** Wake-up invariants of the model NvSim.v, the shape of a state with empty
    event queues, and the bound on the length of runs (continues NvSimProofs.v). *)
From Coq Require Import List NArith ZArith Bool Arith Lia.
From VNv Require Import NvSim NvSimProofs.
Import ListNotations.
Open Scope Z_scope.

(** * Part F: wake-up invariants *)

Definition awk (cu nx : list bool) (u : nat) : bool := nth u cu false || nth u nx false.

Definition head_blocked (ns : list node) (p : nat) : Prop :=
  match dn_out (getn ns p) with
  | [] => True
  | (c, _) :: _ => full (up_in (getn ns c)) = true
  end.

Definition conn_ok (T : topo) (ns : list node) (p : nat) : Prop :=
  head_blocked ns p /\
  forall c, In c (kidsT T p) -> up_out (getn ns c) = [] \/ full (dn_in (getn ns p)) = true.

Record score (T : topo) (ns : list node) (cu nx : list bool) : Prop := {
  sc_in : forall u, awk cu nx u = false -> up_in (getn ns u) = [] /\ dn_in (getn ns u) = [];
  sc_disp : forall p, kindT T p <> KSub -> awk cu nx p = false ->
       undisp (getn ns p) = [] \/ free (getn ns p) = [] \/ full (dn_out (getn ns p)) = true
       \/ (length (free (getn ns p)) < length (kidsT T p))%nat;
  sc_fin : forall u, awk cu nx u = false -> fin (getn ns u) = 0 \/ full (up_out (getn ns u)) = true;
  sc_run : forall u, kindT T u = KSub -> awk cu nx u = false -> unfin (getn ns u) = 0
}.

Record sinv (T : topo) (s : sys) : Prop := {
  s_len : length (cur s) = sizeT T /\ length (nxt s) = sizeT T /\ length (cpend s) = sizeT T;
  s_core : score T (nodes s) (cur s) (nxt s);
  s_conn : forall p, nth p (cpend s) false = false -> conn_ok T (nodes s) p
}.

Lemma full_after_pop {A} (x : A) l : full (x :: l) = true -> just_freed l = false -> full l = true.
Proof.
  unfold full, just_freed, PORT_CAP. intros H1 H2.
  apply Nat.leb_le in H1. apply Nat.eqb_neq in H2. apply Nat.leb_le. simpl length in H1. lia.
Qed.

Lemma nth_false_setl_true i j l : nth j (setl i true l) false = false -> nth j l false = false.
Proof. intros H. destruct (nth j l false) eqn:E; auto. rewrite nth_setl_true in H; auto. Qed.

Lemma nth_false_set_many is j l : nth j (set_many is l) false = false -> nth j l false = false.
Proof. intros H. destruct (nth j l false) eqn:E; auto. rewrite set_many_mono in H; auto. Qed.

Lemma apply_eff_len T u e nx cp :
  length (fst (apply_eff T u e nx cp)) = length nx /\ length (snd (apply_eff T u e nx cp)) = length cp.
Proof.
  unfold apply_eff. destruct (e_send_up e), (e_send_dn e), (e_avail_up e), (e_avail_dn e); simpl;
    rewrite ?set_many_length, ?setl_length; simpl; rewrite ?set_many_length, ?setl_length; auto.
Qed.

Lemma apply_eff_mono T u e nx cp v :
  (nth v (fst (apply_eff T u e nx cp)) false = false -> nth v nx false = false) /\
  (nth v (snd (apply_eff T u e nx cp)) false = false -> nth v cp false = false).
Proof.
  unfold apply_eff. destruct (e_send_up e), (e_send_dn e), (e_avail_up e), (e_avail_dn e); simpl; split; intros H;
    repeat first [ apply nth_false_setl_true in H | apply nth_false_set_many in H ]; auto.
Qed.

Lemma apply_eff_dn T u e nx cp :
  (u < length cp)%nat -> nth u (snd (apply_eff T u e nx cp)) false = false ->
  e_send_dn e = false /\ e_avail_dn e = false.
Proof.
  unfold apply_eff. intros L.
  destruct (e_send_up e), (e_send_dn e), (e_avail_up e), (e_avail_dn e); simpl; intros H; auto; exfalso;
    repeat match type of H with
           | nth u (setl u true _) false = false => rewrite nth_setl_same in H by (rewrite ?setl_length; auto); discriminate
           | _ => apply nth_false_setl_true in H
           end.
Qed.

Lemma apply_eff_up T u e nx cp :
  (parentT T u < length cp)%nat -> nth (parentT T u) (snd (apply_eff T u e nx cp)) false = false ->
  e_send_up e = false /\ e_avail_up e = false.
Proof.
  unfold apply_eff. intros L.
  destruct (e_send_up e), (e_send_dn e), (e_avail_up e), (e_avail_dn e); simpl; intros H; auto; exfalso;
    repeat match type of H with
           | nth ?p (setl ?p true _) false = false => rewrite nth_setl_same in H by (rewrite ?setl_length; auto); discriminate
           | _ => apply nth_false_setl_true in H
           end.
Qed.

Lemma head_app {A} (l : list A) m d : l <> [] -> hd d (l ++ [m]) = hd d l.
Proof. destruct l; simpl; congruence. Qed.

Lemma sinv_tick T s u :
  wf_topo T -> dinv T (nodes s) -> sinv T s -> (u < sizeT T)%nat -> sinv T (step_tick true T s u).
Proof.
  intros W D S L. pose proof S as [(L1 & L2 & L3) SC SK].
  pose proof (d_len T _ D) as LN.
  unfold step_tick.
  destruct (tick_node true (kindT T u) u (nd s u)) as [[n' pr] e] eqn:TN.
  pose proof (tick_node_facts _ _ _ _ _ _ TN) as F.
  set (nx0 := if pr then setl u true (nxt s) else nxt s).
  destruct (apply_eff T u e nx0 (cpend s)) as [nx' cp'] eqn:AE.
  pose proof (apply_eff_len T u e nx0 (cpend s)) as (AL1 & AL2).
  pose proof (apply_eff_mono T u e nx0 (cpend s)) as AM.
  rewrite AE in *. simpl in *.
  assert (LX : length nx0 = sizeT T) by (unfold nx0; destruct pr; rewrite ?setl_length; auto).
  assert (G : forall v, getn (setl u n' (nodes s)) v = fupd (getn (nodes s)) u n' v)
    by (intros; apply getn_setl; lia).
  assert (AW : forall v, v <> u -> awk (setl u false (cur s)) nx' v = false -> awk (cur s) (nxt s) v = false).
  { intros v Nv H. unfold awk in *. rewrite nth_setl_other in H by auto.
    apply orb_false_elim in H. destruct H as [-> H]. simpl. apply (proj1 (AM v)) in H.
    unfold nx0 in H. destruct pr; auto. apply nth_false_setl_true in H; auto. }
  assert (AU : awk (setl u false (cur s)) nx' u = false -> pr = false).
  { intros H. unfold awk in H. apply orb_false_elim in H. destruct H as [_ H].
    apply (proj1 (AM u)) in H. unfold nx0 in H. destruct pr; auto.
    rewrite nth_setl_same in H by lia. discriminate. }
  unfold nd in *. fold (getn (nodes s) u) in *. set (n := getn (nodes s) u) in *.
  constructor; simpl.
  - rewrite setl_length. lia.
  - constructor; intros v.
    + intros H. rewrite G. destruct (Nat.eq_dec v u) as [->|Nv].
      * rewrite fupd_same. pose proof (AU H) as ->. split.
        -- destruct (kindT T u) eqn:K; try (apply (tf_ui_np _ _ _ _ _ _ F); congruence).
           assert (u = O) by (eapply kind_root; eauto). subst u.
           destruct (tf_root _ _ _ _ _ _ F eq_refl) as (-> & _). apply (d_root T _ D).
        -- destruct (kindT T u) eqn:K; try (apply (tf_di_np _ _ _ _ _ _ F); congruence).
           destruct (tf_leaf _ _ _ _ _ _ F eq_refl) as (_ & _ & _ & ->). apply (d_leaf T _ D u K).
      * rewrite fupd_other by auto. apply (sc_in _ _ _ _ SC). auto.
    + intros K H. rewrite G. destruct (Nat.eq_dec v u) as [->|Nv].
      * rewrite fupd_same. pose proof (AU H) as ->.
        destruct (tf_disp_np _ _ _ _ _ _ F eq_refl K) as [X|[X|[X|(c & X)]]]; auto.
        right; right; right.
        pose proof (d_link T _ D u L K) as LK.
        pose proof (NoDup_incl_length (k_nodup _ _ _ LK) (k_incl _ _ _ LK)) as Q.
        fold n in Q. rewrite X in Q. simpl in Q. lia.
      * rewrite fupd_other by auto. apply (sc_disp _ _ _ _ SC); auto.
    + intros H. rewrite G. destruct (Nat.eq_dec v u) as [->|Nv].
      * rewrite fupd_same. pose proof (AU H) as ->.
        destruct (kindT T u) eqn:K; try (apply (tf_fin_np _ _ _ _ _ _ F); congruence).
        assert (u = O) by (eapply kind_root; eauto). subst u.
        destruct (tf_root _ _ _ _ _ _ F eq_refl) as (_ & _ & -> & _). left. apply (d_root T _ D).
      * rewrite fupd_other by auto. apply (sc_fin _ _ _ _ SC). auto.
    + intros K H. rewrite G. destruct (Nat.eq_dec v u) as [->|Nv].
      * rewrite fupd_same. pose proof (AU H) as ->. apply (tf_run_np _ _ _ _ _ _ F); auto.
      * rewrite fupd_other by auto. apply (sc_run _ _ _ _ SC); auto.
  - intros q Hq. pose proof (proj2 (AM q) Hq) as Hq0. destruct (SK q Hq0) as (HB & HU).
    unfold conn_ok, head_blocked in *.
    destruct (Nat.eq_dec q u) as [->|Nq].
    + (* the connection below u *)
      assert (ED : e_send_dn e = false /\ e_avail_dn e = false)
        by (apply (apply_eff_dn T u e nx0 (cpend s)); [lia | rewrite AE; auto]).
      destruct ED as (E1 & E2).
      rewrite G, fupd_same. split.
      * fold n in HB. destruct (tf_do _ _ _ _ _ _ F) as [->|(m & -> & Hm)].
        -- destruct (dn_out n) as [|[c it] r] eqn:DO; auto.
           rewrite G, fupd_other; auto.
           intros ->. destruct (Nat.lt_ge_cases u (sizeT T)); try lia.
           assert (Ku : kindT T u <> KSub).
           { intros K. destruct (d_leaf T _ D u K) as (_ & _ & X & _). fold n in X. congruence. }
           pose proof (k_dst _ _ _ (d_link T _ D u L Ku) (u, it)) as X. fold n in X. rewrite DO in X.
           eapply not_own_kid; eauto. apply X. left; auto.
        -- destruct (dn_out n) as [|[c it] r] eqn:DO.
           { rewrite Hm in E1 by auto. discriminate. }
           simpl. rewrite G, fupd_other; auto.
           intros ->.
           assert (Ku : kindT T u <> KSub).
           { intros K. destruct (d_leaf T _ D u K) as (_ & _ & X & _). fold n in X. congruence. }
           pose proof (k_dst _ _ _ (d_link T _ D u L Ku) (u, it)) as X. fold n in X. rewrite DO in X.
           eapply not_own_kid; eauto. apply X. left; auto.
      * intros c Hc. rewrite G, fupd_other by (intros ->; eapply not_own_kid; eauto).
        destruct (HU c Hc) as [X|X]; auto. fold n in X. right.
        destruct (tf_di _ _ _ _ _ _ F) as [->|(x & Hx & Hf)]; auto.
        rewrite Hx in X. apply (full_after_pop x); auto.
        destruct (just_freed (dn_in n')); auto. rewrite Hf in E2; auto.
    + rewrite G, fupd_other by auto. split.
      * destruct (dn_out (getn (nodes s) q)) as [|[c it] r] eqn:DO; auto.
        rewrite G. destruct (Nat.eq_dec c u) as [->|Nc].
        -- rewrite fupd_same. fold n in HB.
           destruct (tf_ui _ _ _ _ _ _ F) as [->|(x & Hx & Hf)]; auto.
           rewrite Hx in HB. apply (full_after_pop x); auto.
           destruct (just_freed (up_in n')) eqn:J; auto. exfalso.
           (* q is u's parent, so its connection was woken *)
           assert (Kq : kindT T q <> KSub).
           { intros K. destruct (d_leaf T _ D q K) as (_ & _ & X & _). congruence. }
           destruct (Nat.lt_ge_cases q (sizeT T)) as [Lq|Gq].
           2:{ unfold getn in DO. rewrite nth_overflow in DO by lia. discriminate. }
           pose proof (k_dst _ _ _ (d_link T _ D q Lq Kq) (u, it)) as X. rewrite DO in X.
           specialize (X (or_introl eq_refl)). simpl in X.
           destruct (w_kids T W q u X) as (_ & _ & PQ).
           assert (EU : e_send_up e = false /\ e_avail_up e = false)
             by (apply (apply_eff_up T u e nx0 (cpend s)); [rewrite PQ; lia | rewrite AE; simpl; rewrite PQ; auto]).
           destruct EU as (_ & E2).
           rewrite Hf in E2; auto. discriminate.
        -- rewrite fupd_other; auto.
      * intros c Hc. rewrite G. destruct (Nat.eq_dec c u) as [->|Nc].
        -- rewrite fupd_same. destruct (w_kids T W q u Hc) as (Lqu & _ & PQ).
           assert (EU : e_send_up e = false /\ e_avail_up e = false)
             by (apply (apply_eff_up T u e nx0 (cpend s)); [rewrite PQ; lia | rewrite AE; simpl; rewrite PQ; auto]).
           destruct EU as (E1 & _).
           destruct (HU u Hc) as [X|X]; auto. fold n in X.
           destruct (tf_uo _ _ _ _ _ _ F) as [->|(m & -> & Hm)]; auto.
           rewrite Hm in E1; auto. discriminate.
        -- rewrite fupd_other by auto. apply HU; auto.
Qed.

Lemma nth_map_false (l : list bool) v : nth v (map (fun _ => false) l) false = false.
Proof. revert v; induction l; destruct v; simpl; auto. Qed.

Lemma forallb_negb_nth (l : list bool) v : forallb negb l = true -> nth v l false = false.
Proof.
  revert v; induction l; destruct v; simpl; auto; intros H; apply andb_prop in H; destruct H as [A B]; auto.
  destruct a; auto; discriminate.
Qed.

Lemma sinv_adv T s : sinv T s -> forallb negb (cur s) = true -> sinv T (step_adv s).
Proof.
  intros [(L1 & L2 & L3) SC SK] E.
  assert (AW : forall v, awk (nxt s) (map (fun _ => false) (nxt s)) v = awk (cur s) (nxt s) v).
  { intros v. unfold awk. rewrite nth_map_false, (forallb_negb_nth _ v E). simpl. apply orb_false_r. }
  constructor; simpl; auto.
  - rewrite map_length. auto.
  - destruct SC. constructor; intros v; rewrite ?AW; auto.
Qed.

(** ** connection ticks *)

(** a message moved: which fields may differ, seen from the wake-up invariants *)
Lemma score_move T ns ns' cu nx nx' :
  score T ns cu nx ->
  (forall v, undisp (getn ns' v) = undisp (getn ns v) /\ free (getn ns' v) = free (getn ns v) /\
             fin (getn ns' v) = fin (getn ns v) /\ unfin (getn ns' v) = unfin (getn ns v)) ->
  (forall v, awk cu nx' v = false ->
             awk cu nx v = false /\
             up_in (getn ns' v) = up_in (getn ns v) /\ dn_in (getn ns' v) = dn_in (getn ns v) /\
             (full (dn_out (getn ns v)) = true -> full (dn_out (getn ns' v)) = true) /\
             (full (up_out (getn ns v)) = true -> full (up_out (getn ns' v)) = true)) ->
  score T ns' cu nx'.
Proof.
  intros [] HS HV. constructor; intros v.
  - intros H. destruct (HV v H) as (A & -> & -> & _). auto.
  - intros K H. destruct (HV v H) as (A & _ & _ & B & _). destruct (HS v) as (-> & -> & _ & _).
    destruct (sc_disp0 v K A) as [X|[X|[X|X]]]; auto.
  - intros H. destruct (HV v H) as (A & _ & _ & _ & B). destruct (HS v) as (_ & _ & -> & _).
    destruct (sc_fin0 v A) as [X|X]; auto.
  - intros K H. destruct (HV v H) as (A & _). destruct (HS v) as (_ & _ & _ & ->). auto.
Qed.

(** fields a connection tick below [p] never touches *)
Definition conn_frame (T : topo) (p : nat) (ns0 ns : list node) : Prop :=
  forall v,
    (v <> p -> dn_out (getn ns v) = dn_out (getn ns0 v) /\ dn_in (getn ns v) = dn_in (getn ns0 v)) /\
    (~ In v (kidsT T p) -> up_in (getn ns v) = up_in (getn ns0 v) /\ up_out (getn ns v) = up_out (getn ns0 v)).

Record cinv (T : topo) (s : sys) (p : nat) (st : loop_st) : Prop := {
  ci_d : dinv T (fst (fst st));
  ci_len : length (snd (fst st)) = sizeT T;
  ci_sc : score T (fst (fst st)) (cur s) (snd (fst st));
  ci_fr : conn_frame T p (nodes s) (fst (fst st));
  ci_np : snd st = false -> fst (fst st) = nodes s /\ snd (fst st) = nxt s
}.

Lemma awk_setl_mono cu nx i v : awk cu (setl i true nx) v = false -> awk cu nx v = false.
Proof.
  unfold awk. intros H. apply orb_false_elim in H. destruct H as [-> H]. simpl.
  apply nth_false_setl_true in H; auto.
Qed.
Lemma awk_setl_same cu nx i : (i < length nx)%nat -> awk cu (setl i true nx) i = true.
Proof. intros. unfold awk. rewrite nth_setl_same; auto. apply orb_true_r. Qed.

Lemma full_pop_eq {A} (x : A) l : full (x :: l) = true -> full l = true \/ just_freed l = true.
Proof.
  unfold full, just_freed, PORT_CAP. intros H. apply Nat.leb_le in H. simpl length in H.
  destruct (Nat.eq_dec (length l) 3) as [E|N].
  - right. apply Nat.eqb_eq. auto.
  - left. apply Nat.leb_le. lia.
Qed.

Lemma getn_setl2 ns p c P' C' v :
  (p < length ns)%nat -> (c < length ns)%nat ->
  getn (setl p P' (setl c C' ns)) v = fupd (fupd (getn ns) c C') p P' v.
Proof.
  intros. rewrite getn_setl by (rewrite setl_length; lia).
  unfold fupd at 1 2. destruct (v =? p)%nat; auto. rewrite getn_setl by lia. auto.
Qed.

Lemma cinv_fwd_down T s p fuel st :
  wf_topo T -> cinv T s p st -> cinv T s p (fwd_down fuel p st).
Proof.
  intros W. revert st. induction fuel; intros [[ns nx] pr] CI; simpl in *; auto.
  destruct (dn_out (nth p ns dnode)) as [|[c it] rest] eqn:E; simpl; auto.
  destruct (full (up_in (nth c ns dnode))) eqn:F; simpl; auto.
  apply IHfuel. pose proof CI as [D LX SC FR NP]. simpl in *.
  fold (getn ns p) in *. fold (getn ns c) in *.
  destruct (dinv_down_step T ns p c it rest W D E) as (D' & Ic & Lp & EQ).
  destruct (w_kids T W p c Ic) as (Lpc & Lc & Par).
  pose proof (d_len T _ D) as LN.
  match goal with |- cinv T s p (?a, ?b, true) =>
    change a with (upd p (set_dn_out rest) (upd c (push_up_in it) ns)); set (nx' := b) end.
  assert (G : forall v, getn (upd p (set_dn_out rest) (upd c (push_up_in it) ns)) v =
                        fupd (fupd (getn ns) c (push_up_in it (getn ns c))) p (set_dn_out rest (getn ns p)) v).
  { intros v. rewrite EQ. apply getn_setl2; lia. }
  assert (MONO : forall v, awk (cur s) nx' v = false -> awk (cur s) nx v = false).
  { intros v. unfold nx'. destruct (is_empty (up_in (getn ns c))), (just_freed rest); intros H;
      repeat apply awk_setl_mono in H; auto. }
  assert (AWc : awk (cur s) nx' c = true).
  { destruct (awk (cur s) nx' c) eqn:Q; auto. exfalso.
    pose proof (MONO c Q) as Q0. destruct (sc_in _ _ _ _ SC c Q0) as (X & _).
    unfold nx' in Q. rewrite X in Q. simpl in Q.
    destruct (just_freed rest).
    - apply awk_setl_mono in Q. rewrite awk_setl_same in Q by lia. discriminate.
    - rewrite awk_setl_same in Q by lia. discriminate. }
  constructor; simpl; auto.
  - unfold nx'. destruct (is_empty (up_in (getn ns c))), (just_freed rest); rewrite ?setl_length; auto.
  - eapply score_move; eauto.
    + intros v. rewrite G. unfold fupd. destruct (v =? p)%nat eqn:Q1; [apply Nat.eqb_eq in Q1; subst; simpl; auto|].
      destruct (v =? c)%nat eqn:Q2; [apply Nat.eqb_eq in Q2; subst; simpl; auto|]. auto.
    + intros v H. split; [apply MONO; auto|]. rewrite G. unfold fupd.
      destruct (v =? p)%nat eqn:Q1; [apply Nat.eqb_eq in Q1; subst v|].
      * simpl. repeat split; auto. rewrite E. intros X.
        destruct (full_pop_eq _ _ X) as [Y|Y]; auto. exfalso.
        unfold nx' in H. rewrite Y in H.
        rewrite awk_setl_same in H; [discriminate|].
        destruct (is_empty (up_in (getn ns c))); rewrite ?setl_length; lia.
      * destruct (v =? c)%nat eqn:Q2; [apply Nat.eqb_eq in Q2; subst v; congruence|]. auto.
  - intros v. destruct (FR v) as (A & B). rewrite G. unfold fupd. split.
    + intros Nv. rewrite (proj2 (Nat.eqb_neq v p) Nv).
      destruct (v =? c)%nat eqn:Q2; [apply Nat.eqb_eq in Q2; subst v; simpl|]; auto.
    + intros Nv. destruct (v =? p)%nat eqn:Q1; [apply Nat.eqb_eq in Q1; subst v; simpl; auto|].
      destruct (v =? c)%nat eqn:Q2; [apply Nat.eqb_eq in Q2; subst v; tauto|]. auto.
  - discriminate.
Qed.

Lemma cinv_fwd_up T s p c fuel st :
  wf_topo T -> In c (kidsT T p) -> cinv T s p st -> cinv T s p (fwd_up fuel c p st).
Proof.
  intros W Ic. revert st. induction fuel; intros [[ns nx] pr] CI; simpl in *; auto.
  destruct (up_out (nth c ns dnode)) as [|m rest] eqn:E; simpl; auto.
  destruct (full (dn_in (nth p ns dnode))) eqn:F; simpl; auto.
  apply IHfuel. pose proof CI as [D LX SC FR NP]. simpl in *.
  fold (getn ns p) in *. fold (getn ns c) in *.
  destruct (dinv_up_step T ns p c m rest W D Ic E) as (D' & EQ).
  destruct (w_kids T W p c Ic) as (Lpc & Lc & Par).
  pose proof (d_len T _ D) as LN.
  match goal with |- cinv T s p (?a, ?b, true) =>
    change a with (upd c (set_up_out rest) (upd p (push_dn_in m) ns)); set (nx' := b) end.
  assert (G : forall v, getn (upd c (set_up_out rest) (upd p (push_dn_in m) ns)) v =
                        fupd (fupd (getn ns) c (set_up_out rest (getn ns c))) p (push_dn_in m (getn ns p)) v).
  { intros v. rewrite EQ. apply getn_setl2; lia. }
  assert (MONO : forall v, awk (cur s) nx' v = false -> awk (cur s) nx v = false).
  { intros v. unfold nx'. destruct (is_empty (dn_in (getn ns p))), (just_freed rest); intros H;
      repeat apply awk_setl_mono in H; auto. }
  assert (AWp : awk (cur s) nx' p = true).
  { destruct (awk (cur s) nx' p) eqn:Q; auto. exfalso.
    pose proof (MONO p Q) as Q0. destruct (sc_in _ _ _ _ SC p Q0) as (_ & X).
    unfold nx' in Q. rewrite X in Q. simpl in Q.
    destruct (just_freed rest).
    - apply awk_setl_mono in Q. rewrite awk_setl_same in Q by lia. discriminate.
    - rewrite awk_setl_same in Q by lia. discriminate. }
  constructor; simpl; auto.
  - unfold nx'. destruct (is_empty (dn_in (getn ns p))), (just_freed rest); rewrite ?setl_length; auto.
  - eapply score_move; eauto.
    + intros v. rewrite G. unfold fupd. destruct (v =? p)%nat eqn:Q1; [apply Nat.eqb_eq in Q1; subst; simpl; auto|].
      destruct (v =? c)%nat eqn:Q2; [apply Nat.eqb_eq in Q2; subst; simpl; auto|]. auto.
    + intros v H. split; [apply MONO; auto|]. rewrite G. unfold fupd.
      destruct (v =? p)%nat eqn:Q1; [apply Nat.eqb_eq in Q1; subst v; congruence|].
      destruct (v =? c)%nat eqn:Q2; [apply Nat.eqb_eq in Q2; subst v|]; auto.
      simpl. repeat split; auto. rewrite E. intros X.
      destruct (full_pop_eq _ _ X) as [Y|Y]; auto. exfalso.
      unfold nx' in H. rewrite Y in H.
      rewrite awk_setl_same in H; [discriminate|].
      destruct (is_empty (dn_in (getn ns p))); rewrite ?setl_length; lia.
  - intros v. destruct (FR v) as (A & B). rewrite G. unfold fupd. split.
    + intros Nv. rewrite (proj2 (Nat.eqb_neq v p) Nv).
      destruct (v =? c)%nat eqn:Q2; [apply Nat.eqb_eq in Q2; subst v; simpl|]; auto.
    + intros Nv. destruct (v =? p)%nat eqn:Q1; [apply Nat.eqb_eq in Q1; subst v; simpl; auto|].
      destruct (v =? c)%nat eqn:Q2; [apply Nat.eqb_eq in Q2; subst v; tauto|]. auto.
  - discriminate.
Qed.

Lemma cinv_fwd_port T s p j st :
  wf_topo T -> cinv T s p st -> cinv T s p (fwd_port p (kidsT T p) j st).
Proof.
  intros W CI. destruct j; simpl.
  - apply cinv_fwd_down; auto.
  - destruct (nth_error (kidsT T p) j) eqn:E; auto.
    apply cinv_fwd_up; auto. eapply nth_error_In; eauto.
Qed.

(** progress is sticky; without progress a port is blocked *)
Lemma fwd_down_pr fuel p st : snd st = true -> snd (fwd_down fuel p st) = true.
Proof.
  revert st; induction fuel; intros [[ns nx] pr]; simpl; auto. intros ->.
  destruct (dn_out (nth p ns dnode)) as [|[c it] rest]; auto.
  destruct (full (up_in (nth c ns dnode))); auto.
Qed.
Lemma fwd_up_pr fuel c p st : snd st = true -> snd (fwd_up fuel c p st) = true.
Proof.
  revert st; induction fuel; intros [[ns nx] pr]; simpl; auto. intros ->.
  destruct (up_out (nth c ns dnode)) as [|m rest]; auto.
  destruct (full (dn_in (nth p ns dnode))); auto.
Qed.
Lemma fwd_port_pr p ks j st : snd st = true -> snd (fwd_port p ks j st) = true.
Proof.
  intros H. destruct j; simpl.
  - apply fwd_down_pr; auto.
  - destruct (nth_error ks j); auto. apply fwd_up_pr; auto.
Qed.

Lemma fwd_down_np ns nx p :
  snd (fwd_down (length (dn_out (nth p ns dnode))) p (ns, nx, false)) = false ->
  head_blocked ns p.
Proof.
  unfold head_blocked, getn. destruct (dn_out (nth p ns dnode)) as [|[c it] rest] eqn:E; simpl; auto.
  rewrite E. destruct (full (up_in (nth c ns dnode))) eqn:F; auto.
  intros H. rewrite fwd_down_pr in H by reflexivity. discriminate.
Qed.
Lemma fwd_up_np ns nx c p :
  snd (fwd_up (length (up_out (nth c ns dnode))) c p (ns, nx, false)) = false ->
  up_out (getn ns c) = [] \/ full (dn_in (getn ns p)) = true.
Proof.
  unfold getn. destruct (up_out (nth c ns dnode)) as [|m rest] eqn:E; simpl; auto.
  rewrite E. destruct (full (dn_in (nth p ns dnode))) eqn:F; auto.
  intros H. rewrite fwd_up_pr in H by reflexivity. discriminate.
Qed.

(** every port of the connection is visited by the round robin *)
Lemma rr_covers (len r j : nat) : (j < len)%nat -> exists i, (i < len)%nat /\ ((i + r) mod len = j)%nat.
Proof.
  intros L. set (r' := (r mod len)%nat).
  assert (r' < len)%nat by (apply Nat.mod_upper_bound; lia).
  exists (if (r' <=? j)%nat then j - r' else j + len - r')%nat.
  destruct (Nat.leb_spec r' j); split; try lia.
  - rewrite Nat.add_mod by lia. fold r'. rewrite (Nat.mod_small (j - r')) by lia.
    replace (j - r' + r')%nat with j by lia. apply Nat.mod_small; auto.
  - rewrite Nat.add_mod by lia. fold r'. rewrite (Nat.mod_small (j + len - r')) by lia.
    replace (j + len - r' + r')%nat with (j + 1 * len)%nat by lia.
    rewrite Nat.mod_add by lia. apply Nat.mod_small; auto.
Qed.

Lemma sinv_conn T s p :
  wf_topo T -> dinv T (nodes s) -> sinv T s -> sinv T (step_conn T s p).
Proof.
  intros W D SI. pose proof SI as [(L1 & L2 & L3) SC SK].
  unfold step_conn.
  set (ks := kidsT T p). set (len := S (length ks)). set (r := nth p (crr s) 0%nat).
  set (f := fun st i => fwd_port p ks ((i + r) mod len)%nat st).
  assert (CI0 : cinv T s p (nodes s, nxt s, false)).
  { constructor; simpl; auto. intros v; split; auto. }
  assert (FOLD : forall l st, cinv T s p st ->
            cinv T s p (fold_left f l st) /\
            (snd (fold_left f l st) = false ->
             forall i, In i l -> snd (f (nodes s, nxt s, false) i) = false)).
  { induction l; simpl; intros st CI.
    - split; auto. intros _ i [].
    - assert (CI' : cinv T s p (f st a)) by (apply cinv_fwd_port; auto).
      destruct (IHl _ CI') as (A & B). split; auto.
      intros NP i [<-|Hi]; auto.
      destruct (snd (f st a)) eqn:Q.
      + exfalso. clear - NP Q. revert NP. generalize (f st a) Q. induction l; simpl; intros st' Q' NP.
        * congruence.
        * apply IHl in NP; auto. apply fwd_port_pr; auto.
      + destruct st as [[ns nx] pr]. destruct pr.
        * unfold f in Q. rewrite fwd_port_pr in Q; auto. discriminate.
        * destruct (ci_np _ _ _ _ CI eq_refl) as (E1 & E2). simpl in *. subst. auto. }
  destruct (FOLD (seq 0 len) _ CI0) as (CI & NP).
  destruct (fold_left f (seq 0 len) (nodes s, nxt s, false)) as [[ns nx] pr] eqn:FE.
  pose proof CI as [D' LX SC' FR NP']. simpl in D', LX, SC', FR, NP'.
  constructor; simpl.
  - rewrite !setl_length. auto.
  - auto.
  - intros q Hq. destruct (Nat.eq_dec q p) as [->|Nq].
    + (* no progress: nothing moved and every port is blocked *)
      destruct (Nat.lt_ge_cases p (sizeT T)) as [Lp|Gp].
      2:{ unfold conn_ok, head_blocked, getn. rewrite nth_overflow by (rewrite (d_len T _ D'); auto).
          simpl. split; auto. intros c Hc. unfold kidsT in Hc. rewrite nth_overflow in Hc by auto. destruct Hc. }
      destruct pr. { rewrite nth_setl_same in Hq by lia. discriminate. }
      destruct (NP' eq_refl) as (-> & ->). specialize (NP eq_refl).
      split.
      * destruct (rr_covers len r 0) as (i & Li & Ei); [unfold len; lia|].
        specialize (NP i). rewrite in_seq in NP. specialize (NP ltac:(lia)).
        unfold f in NP. rewrite Ei in NP. simpl in NP. apply fwd_down_np in NP. auto.
      * intros c Hc. destruct (In_nth_error _ _ Hc) as (j & Hj).
        assert (j < length ks)%nat by (apply nth_error_Some; fold ks in Hj; congruence).
        destruct (rr_covers len r (S j)) as (i & Li & Ei); [unfold len; lia|].
        specialize (NP i). rewrite in_seq in NP. specialize (NP ltac:(lia)).
        unfold f in NP. rewrite Ei in NP. simpl in NP. fold ks in Hj. rewrite Hj in NP.
        apply fwd_up_np in NP. auto.
    + rewrite nth_setl_other in Hq by auto. destruct (SK q Hq) as (HB & HU).
      unfold conn_ok, head_blocked in *. destruct (FR q) as (Fq & _). destruct (Fq Nq) as (-> & ->).
      split.
      * destruct (dn_out (getn (nodes s) q)) as [|[c it] r0] eqn:DO; auto.
        destruct (FR c) as (_ & Fc). destruct Fc as (-> & _); auto.
        intros Ic.
        assert (Kq : kindT T q <> KSub).
        { intros K. destruct (d_leaf T _ D q K) as (_ & _ & X & _). congruence. }
        destruct (Nat.lt_ge_cases q (sizeT T)) as [Lq|Gq].
        2:{ unfold getn in DO. rewrite nth_overflow in DO; [discriminate|]. rewrite (d_len T _ D); auto. }
        pose proof (k_dst _ _ _ (d_link T _ D q Lq Kq) (c, it)) as X. rewrite DO in X.
        specialize (X (or_introl eq_refl)). simpl in X.
        destruct (w_kids T W q c X) as (_ & _ & P1). destruct (w_kids T W p c Ic) as (_ & _ & P2). congruence.
      * intros c Hc. destruct (FR c) as (_ & Fc). destruct Fc as (_ & ->); auto.
        intros Ic. destruct (w_kids T W q c Hc) as (_ & _ & P1). destruct (w_kids T W p c Ic) as (_ & _ & P2).
        congruence.
Qed.

(** * Part G: initial state, reachable states *)

Lemma init_fields T trace v :
  let n := getn (nodes (init T trace)) v in
  up_in n = [] /\ up_out n = [] /\ dn_in n = [] /\ dn_out n = [] /\ fin n = 0 /\
  (v <> O -> undisp n = [] /\ unfin n = 0).
Proof.
  destruct (Nat.lt_ge_cases v (sizeT T)) as [L|G].
  - rewrite getn_init by auto. destruct v; simpl; repeat split; auto; congruence.
  - unfold getn. rewrite nth_overflow; [simpl; repeat split; auto|].
    unfold init; simpl. rewrite map_length, seq_length; auto.
Qed.

Lemma nth_repeat_false n v : nth v (repeat false n) false = false.
Proof. revert v; induction n; destruct v; simpl; auto. Qed.

Lemma sinv_init T trace : wf_topo T -> sinv T (init T trace).
Proof.
  intros W. pose proof (w_size T W) as SZ.
  assert (AW : forall v, awk (cur (init T trace)) (nxt (init T trace)) v = false -> v <> O).
  { intros v H ->. unfold awk, init in H; simpl in H.
    destruct (sizeT T) eqn:E; [lia|]. simpl in H. discriminate. }
  constructor.
  - unfold init; simpl. rewrite !repeat_length, map_length, seq_length. auto.
  - constructor; intros v.
    + intros H. destruct (init_fields T trace v) as (A & B & C0 & _). auto.
    + intros _ H. destruct (init_fields T trace v) as (_ & _ & _ & _ & _ & X).
      left. apply X. auto.
    + intros H. destruct (init_fields T trace v) as (_ & _ & _ & _ & X & _). auto.
    + intros _ H. destruct (init_fields T trace v) as (_ & _ & _ & _ & _ & X). apply X. auto.
  - intros p _. unfold conn_ok, head_blocked.
    destruct (init_fields T trace p) as (_ & _ & _ & -> & _). split; auto.
    intros c _. destruct (init_fields T trace c) as (_ & -> & _). auto.
Qed.

Definition inv (T : topo) (s : sys) : Prop := dinv T (nodes s) /\ sinv T s.

Lemma enabled_tick_lt T s u : sinv T s -> enabled s (Tick u) = true -> (u < sizeT T)%nat.
Proof.
  intros [(L1 & _) _ _] H. simpl in H.
  destruct (Nat.lt_ge_cases u (sizeT T)); auto. rewrite nth_overflow in H by lia. discriminate.
Qed.

Theorem inv_step T s e : wf_topo T -> inv T s -> enabled s e = true -> inv T (step1 true T s e).
Proof.
  intros W [D S] En. split.
  - apply dinv_step; auto.
  - destruct e; simpl.
    + apply sinv_adv; auto. simpl in En. apply andb_prop in En. tauto.
    + apply sinv_tick; auto. eapply enabled_tick_lt; eauto.
    + apply sinv_conn; auto.
Qed.

(** a run of the engine: every event handled was in its queue *)
Inductive runs (T : topo) : sys -> list ev -> sys -> Prop :=
| runs_nil s : runs T s [] s
| runs_cons s e es s' : enabled s e = true -> runs T (step1 true T s e) es s' -> runs T s (e :: es) s'.

Lemma inv_runs T s es s' : wf_topo T -> inv T s -> runs T s es s' -> inv T s'.
Proof. intros W I R. induction R; auto. apply IHR. apply inv_step; auto. Qed.

Lemma inv_init T trace : wf_topo T -> inv T (init T trace).
Proof. intros W; split; [apply dinv_init | apply sinv_init]; auto. Qed.

(** * Part H: a state with empty event queues is idle and complete *)

Definition idle_node (T : topo) (n : node) (u : nat) : Prop :=
  undisp n = [] /\ unfin n = 0 /\ fin n = 0 /\
  up_in n = [] /\ up_out n = [] /\ dn_in n = [] /\ dn_out n = [] /\
  NoDup (free n) /\ incl (free n) (kidsT T u) /\ length (free n) = length (kidsT T u).

Definition has_kids (T : topo) : Prop :=
  forall u, (u < sizeT T)%nat -> kindT T u <> KSub -> kidsT T u <> [].

Lemma forallb_negb_all (l : list bool) : forallb negb l = true -> forall v, nth v l false = false.
Proof. intros H v. apply forallb_negb_nth; auto. Qed.

Theorem quiescent_idle T s :
  wf_topo T -> has_kids T -> inv T s -> quiescent s = true ->
  forall u, (u < sizeT T)%nat -> idle_node T (nd s u) u.
Proof.
  intros W HK [D [(L1 & L2 & L3) SC SK]] Q.
  unfold quiescent in Q. apply andb_prop in Q. destruct Q as [Q Q3]. apply andb_prop in Q. destruct Q as [Q1 Q2].
  assert (AW : forall v, awk (cur s) (nxt s) v = false).
  { intros v. unfold awk. rewrite (forallb_negb_nth _ v Q1), (forallb_negb_nth _ v Q2). auto. }
  assert (CP : forall p, nth p (cpend s) false = false) by (apply forallb_negb_all; auto).
  (* no message is buffered anywhere *)
  assert (IN : forall v, up_in (getn (nodes s) v) = [] /\ dn_in (getn (nodes s) v) = []).
  { intros v. apply (sc_in _ _ _ _ SC). auto. }
  assert (EMPTY_IN : forall v, full (up_in (getn (nodes s) v)) = false /\ full (dn_in (getn (nodes s) v)) = false).
  { intros v. destruct (IN v) as (-> & ->). auto. }
  assert (OUTD : forall p, dn_out (getn (nodes s) p) = []).
  { intros p. destruct (SK p (CP p)) as (HB & _). unfold head_blocked in HB.
    destruct (dn_out (getn (nodes s) p)) as [|[c it] r]; auto.
    destruct (EMPTY_IN c). congruence. }
  assert (OUTU : forall c, (0 < c < sizeT T)%nat -> up_out (getn (nodes s) c) = []).
  { intros c Hc. pose proof (w_par T W c Hc) as I.
    destruct (SK _ (CP (parentT T c))) as (_ & HU). destruct (HU c I) as [X|X]; auto.
    destruct (EMPTY_IN (parentT T c)). congruence. }
  assert (OUTU0 : forall c, (c < sizeT T)%nat -> up_out (getn (nodes s) c) = []).
  { intros c Hc. destruct c; [apply (d_root T _ D)|apply OUTU; lia]. }
  (* bottom-up: all nodes with larger numbers are idle *)
  intros u. remember (sizeT T - u)%nat as k eqn:Ek. revert u Ek.
  induction k as [k IH] using lt_wf_ind. intros u Ek Lu.
  assert (KIDS : forall c, In c (kidsT T u) -> idle_node T (getn (nodes s) c) c).
  { intros c Hc. destruct (w_kids T W u c Hc) as (A & B & _).
    apply (IH (sizeT T - c)%nat); auto; lia. }
  unfold nd. fold (getn (nodes s) u).
  destruct (IN u) as (UI & DI). pose proof (OUTD u) as DO. pose proof (OUTU0 u Lu) as UO.
  assert (FIN : fin (getn (nodes s) u) = 0).
  { destruct (sc_fin _ _ _ _ SC u (AW u)) as [X|X]; auto. rewrite UO in X. discriminate. }
  destruct (kindT T u) eqn:K.
  1-3: assert (Ku : kindT T u <> KSub) by congruence;
       pose proof (d_link T _ D u Lu Ku) as LK;
       assert (FREE : forall c, In c (kidsT T u) -> In c (free (getn (nodes s) u)));
       [ intros c Hc; pose proof (k_tok _ _ _ LK c Hc) as TK;
         destruct (KIDS c Hc) as (_ & c2 & c3 & c4 & c5 & _);
         unfold tokens, hold in TK; rewrite DO, DI, c2, c3, c4, c5 in TK; simpl in TK;
         destruct (expect_cases c (free (getn (nodes s) u))) as [[_ X]|[X _]]; auto;
         rewrite X in TK; discriminate
       | assert (LEN : length (free (getn (nodes s) u)) = length (kidsT T u));
         [ apply Nat.le_antisymm;
           [ apply NoDup_incl_length; [apply (k_nodup _ _ _ LK)|apply (k_incl _ _ _ LK)]
           | apply NoDup_incl_length; [apply (w_nodup T W)|intros c Hc; apply FREE; auto] ]
         | assert (UD : undisp (getn (nodes s) u) = []);
           [ destruct (sc_disp _ _ _ _ SC u Ku (AW u)) as [X|[X|[X|X]]]; auto;
             [ exfalso; apply (HK u Lu Ku); rewrite X in LEN; simpl in LEN;
               destruct (kidsT T u); auto; discriminate
             | rewrite DO in X; discriminate
             | lia ]
           | pose proof (k_unfin _ _ _ LK) as UF; rewrite UD, LEN in UF; simpl in UF;
             unfold idle_node; repeat split; auto;
             [ lia | apply (k_nodup _ _ _ LK) | apply (k_incl _ _ _ LK) ] ] ] ].
  destruct (d_leaf T _ D u K) as (l1 & l2 & l3 & l4).
  pose proof (sc_run _ _ _ _ SC u K (AW u)) as UF.
  unfold idle_node. rewrite l4, (w_leaf T W u K). repeat split; auto.
  - constructor.
  - intros x [].
Qed.

(** * Part I: conservation of work across the levels of the platform *)

Fixpoint level_nodes (T : topo) (d : nat) : list nat :=
  match d with O => [O] | S d' => flat_map (kidsT T) (level_nodes T d') end.
Fixpoint level_items (d : nat) (tr : list item) : list item :=
  match d with O => tr | S d' => flat_map isub (level_items d' tr) end.

(** weight [f] of everything received so far by the nodes of level [d] *)
Definition received (T : topo) (ns : list node) (f : item -> nat) (d : nat) : nat :=
  sumf (fun u => sumf f (rlog (getn ns u))) (level_nodes T d).
Definition root_items (ns : list node) : list item := flat_map isub (rlog (getn ns O)).

Lemma level_nodes_lt T d u : wf_topo T -> In u (level_nodes T d) -> (u < sizeT T)%nat.
Proof.
  intros W. revert u. induction d; simpl; intros u H.
  - destruct H as [<-|[]]. apply (w_size T W).
  - apply in_flat_map in H. destruct H as (p & _ & Hp). apply (w_kids T W p u Hp).
Qed.

Lemma sumf_le {A} (f g : A -> nat) l : (forall x, In x l -> (f x <= g x)%nat) -> (sumf f l <= sumf g l)%nat.
Proof.
  induction l; simpl; auto. intros H.
  pose proof (H a (or_introl eq_refl)). assert (sumf f l <= sumf g l)%nat by (apply IHl; intros; apply H; right; auto).
  lia.
Qed.

Definition kid_logs (T : topo) (ns : list node) (f : item -> nat) (p : nat) : nat :=
  sumf (fun c => sumf f (rlog (getn ns c))) (kidsT T p).

Lemma kid_logs_le T ns f p :
  wf_topo T -> dinv T ns -> (p < sizeT T)%nat ->
  (kid_logs T ns f p <= sumf f (flat_map isub (rlog (getn ns p))))%nat.
Proof.
  intros W D L. unfold kid_logs. destruct (kindT T p) eqn:K.
  1-3: assert (Kp : kindT T p <> KSub) by congruence;
       rewrite <- (k_cons _ _ _ (d_link T ns D p L Kp) f);
       match goal with |- (_ <= _ + _ + sumf ?g _)%nat =>
         assert (sumf (fun c => sumf f (rlog (getn ns c))) (kidsT T p) <= sumf g (kidsT T p))%nat
           by (apply sumf_le; intros; lia) end; lia.
  rewrite (w_leaf T W p K). simpl. lia.
Qed.

Theorem received_le T ns d f :
  wf_topo T -> dinv T ns -> (received T ns f (S d) <= sumf f (level_items d (root_items ns)))%nat.
Proof.
  intros W D. revert f. induction d; intros f.
  - unfold received. simpl. rewrite app_nil_r. apply (kid_logs_le T ns f O W D (w_size T W)).
  - unfold received. simpl level_nodes. rewrite sumf_flat_map.
    eapply Nat.le_trans.
    + apply sumf_le. intros p Hp. apply (kid_logs_le T ns f p W D). apply (level_nodes_lt T (S d)); auto.
    + simpl level_items. rewrite (sumf_flat_map isub f (level_items d (root_items ns))).
      eapply Nat.le_trans; [|apply (IHd (fun x => sumf f (isub x)))].
      unfold received. apply Nat.eq_le_incl. apply sumf_ext. intros p _. apply sumf_flat_map.
Qed.

(** nothing is waiting to be dispatched or delivered *)
Definition all_delivered (T : topo) (ns : list node) : Prop :=
  forall v, undisp (getn ns v) = [] /\ dn_out (getn ns v) = [] /\ up_in (getn ns v) = [].
Definition nonleaf_upto (T : topo) (d : nat) : Prop :=
  forall d' p, (d' <= d)%nat -> In p (level_nodes T d') -> kindT T p <> KSub.

Lemma kid_logs_eq T ns f p :
  wf_topo T -> dinv T ns -> all_delivered T ns -> (p < sizeT T)%nat -> kindT T p <> KSub ->
  kid_logs T ns f p = sumf f (flat_map isub (rlog (getn ns p))).
Proof.
  intros W D A L Kp. unfold kid_logs.
  rewrite <- (k_cons _ _ _ (d_link T ns D p L Kp) f).
  destruct (A p) as (-> & -> & _). simpl.
  apply sumf_ext. intros c _. destruct (A c) as (_ & _ & ->). reflexivity.
Qed.

Theorem received_eq T ns d f :
  wf_topo T -> dinv T ns -> all_delivered T ns -> nonleaf_upto T d ->
  received T ns f (S d) = sumf f (level_items d (root_items ns)).
Proof.
  intros W D A. revert f. induction d; intros f NL.
  - unfold received. simpl. rewrite app_nil_r.
    apply (kid_logs_eq T ns f O W D A (w_size T W)). apply (NL O O); simpl; auto.
  - unfold received. simpl level_nodes. rewrite sumf_flat_map.
    transitivity (sumf (fun p => sumf f (flat_map isub (rlog (getn ns p)))) (level_nodes T (S d))).
    + apply sumf_ext. intros p Hp. apply (kid_logs_eq T ns f p W D A).
      * apply (level_nodes_lt T (S d)); auto.
      * apply (NL (S d) p); auto.
    + simpl level_items. rewrite (sumf_flat_map isub f (level_items d (root_items ns))).
      rewrite <- (IHd (fun x => sumf f (isub x))).
      * unfold received. apply sumf_ext. intros p _. apply sumf_flat_map.
      * intros d' p Hd. apply NL. lia.
Qed.

(** the driver's log never changes *)
Lemma rlog_upd i f (l : list node) v :
  (forall x, rlog (f x) = rlog x) -> rlog (getn (upd i f l) v) = rlog (getn l v).
Proof.
  intros H. unfold getn. destruct (Nat.eq_dec i v) as [->|N].
  - destruct (Nat.lt_ge_cases v (length l)).
    + rewrite nth_upd_same; auto.
    + rewrite upd_overflow; auto.
  - rewrite nth_upd_other; auto.
Qed.

Lemma rlog_fwd_down fuel p st v :
  rlog (getn (fst (fst (fwd_down fuel p st))) v) = rlog (getn (fst (fst st)) v).
Proof.
  revert st; induction fuel; intros [[ns nx] pr]; simpl; auto.
  destruct (dn_out (nth p ns dnode)) as [|[c it] rest]; auto.
  destruct (full (up_in (nth c ns dnode))); auto.
  rewrite IHfuel. simpl. rewrite !rlog_upd; auto.
Qed.
Lemma rlog_fwd_up fuel c p st v :
  rlog (getn (fst (fst (fwd_up fuel c p st))) v) = rlog (getn (fst (fst st)) v).
Proof.
  revert st; induction fuel; intros [[ns nx] pr]; simpl; auto.
  destruct (up_out (nth c ns dnode)) as [|m rest]; auto.
  destruct (full (dn_in (nth p ns dnode))); auto.
  rewrite IHfuel. simpl. rewrite !rlog_upd; auto.
Qed.

Lemma root_items_step T s e : wf_topo T -> dinv T (nodes s) ->
  root_items (nodes (step1 true T s e)) = root_items (nodes s).
Proof.
  intros W D. unfold root_items. f_equal. destruct e; simpl; auto.
  - rewrite nodes_step_tick. unfold napply.
    destruct (Nat.eq_dec u 0) as [->|N].
    + destruct (tick_node true (kindT T 0) 0 (getn (nodes s) 0)) as [[n' pr] e] eqn:TN.
      apply tick_node_facts in TN. simpl.
      rewrite getn_setl by (rewrite (d_len T _ D); apply (w_size T W)). rewrite fupd_same.
      apply (tf_root _ _ _ _ _ _ TN (w_root T W)).
    + unfold getn at 1. rewrite nth_setl_other; auto.
  - unfold step_conn.
    set (f := fun st i => fwd_port p (kidsT T p) ((i + nth p (crr s) 0%nat) mod S (length (kidsT T p)))%nat st).
    assert (forall l st, rlog (getn (fst (fst (fold_left f l st))) O) = rlog (getn (fst (fst st)) O)) as H.
    { induction l; simpl; auto. intros st. rewrite IHl. unfold f, fwd_port.
      destruct ((a + nth p (crr s) 0%nat) mod S (length (kidsT T p)))%nat.
      - apply rlog_fwd_down.
      - destruct (nth_error (kidsT T p) n); auto. apply rlog_fwd_up. }
    specialize (H (seq 0 (S (length (kidsT T p)))) (nodes s, nxt s, false)).
    destruct (fold_left f (seq 0 (S (length (kidsT T p)))) (nodes s, nxt s, false)) as [[ns nx] pr].
    simpl in *. auto.
Qed.

Lemma root_items_init T trace : wf_topo T -> root_items (nodes (init T trace)) = trace.
Proof.
  intros W. unfold root_items. rewrite getn_init by (apply (w_size T W)). simpl. apply app_nil_r.
Qed.

Lemma root_items_runs T s es s' : wf_topo T -> dinv T (nodes s) -> runs T s es s' ->
  root_items (nodes s') = root_items (nodes s).
Proof.
  intros W D R. induction R; auto. rewrite IHR.
  - apply root_items_step; auto.
  - apply dinv_step; auto.
Qed.

(** * Part J: the decidable well-formedness test is sound *)

Lemma nodupb_sound l : nodupb l = true -> NoDup l.
Proof.
  induction l; simpl; intros H; constructor.
  - apply andb_prop in H. destruct H as [H _]. apply negb_true_iff in H.
    intros I. assert (existsb (Nat.eqb a) l = true); [|congruence].
    apply existsb_exists. exists a. split; auto. apply Nat.eqb_refl.
  - apply andb_prop in H. tauto.
Qed.

Lemma kind_eqb_spec a b : kind_eqb a b = true <-> a = b.
Proof. destruct a, b; simpl; split; intros; congruence. Qed.

Lemma kidsT_overflow T p : (sizeT T <= p)%nat -> kidsT T p = [].
Proof. intros. unfold kidsT. apply nth_overflow. auto. Qed.

Theorem wf_topob_sound T : wf_topob T = true -> wf_topo T /\ has_kids T.
Proof.
  unfold wf_topob. intros H.
  repeat (apply andb_prop in H; destruct H as [H ?]).
  apply Nat.ltb_lt in H. apply Nat.eqb_eq in H3, H2. apply kind_eqb_spec in H1.
  rename H0 into F. rewrite forallb_forall in F.
  assert (P : forall p, (p < sizeT T)%nat ->
     NoDup (kidsT T p) /\
     (forall c, In c (kidsT T p) -> (p < c)%nat /\ (c < sizeT T)%nat /\ parentT T c = p) /\
     (kindT T p = KSub -> kidsT T p = []) /\ (kindT T p <> KSub -> kidsT T p <> []) /\
     (p <> O -> kindT T p <> KDriver /\ In p (kidsT T (parentT T p)))).
  { intros p Lp. specialize (F p). rewrite in_seq in F. specialize (F ltac:(lia)).
    repeat (apply andb_prop in F; destruct F as [F ?]).
    split; [apply nodupb_sound; auto|]. split; [|split; [|split]].
    - intros c Hc. rewrite forallb_forall in H5. specialize (H5 c Hc).
      apply andb_prop in H5. destruct H5 as [H5 H7]. apply andb_prop in H5. destruct H5 as [H5 H6].
      apply Nat.ltb_lt in H5, H6. apply Nat.eqb_eq in H7. auto.
    - intros K. rewrite K in H4. simpl in H4. destruct (kidsT T p); auto; discriminate.
    - intros K E. destruct (kind_eqb (kindT T p) KSub) eqn:Q.
      + apply kind_eqb_spec in Q. tauto.
      + rewrite E in H4. discriminate.
    - intros N. rewrite (proj2 (Nat.eqb_neq p 0) N) in H0.
      apply andb_prop in H0. destruct H0 as [A B]. split.
      + intros K. apply kind_eqb_spec in K. rewrite K in A. discriminate.
      + apply existsb_exists in B. destruct B as (x & Hx & E). apply Nat.eqb_eq in E. subst; auto. }
  split.
  - constructor; auto.
    + intros p c Hc. destruct (Nat.lt_ge_cases p (sizeT T)) as [L|G].
      * apply (P p L); auto.
      * rewrite kidsT_overflow in Hc by auto. destruct Hc.
    + intros p. destruct (Nat.lt_ge_cases p (sizeT T)) as [L|G].
      * apply (P p L).
      * rewrite kidsT_overflow by auto. constructor.
    + intros u Hu. apply (P u); lia.
    + intros u Hu. destruct (Nat.lt_ge_cases u (sizeT T)) as [L|G].
      * apply (P u L). lia.
      * unfold kindT. rewrite nth_overflow by lia. discriminate.
    + intros u K. destruct (Nat.lt_ge_cases u (sizeT T)) as [L|G].
      * apply (P u L); auto.
      * apply kidsT_overflow; auto.
  - intros u L K. apply (P u L); auto.
Qed.
