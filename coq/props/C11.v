(** C11 — host-device copies move exactly the requested bytes.
    Statements only; proofs are short calls into VLib.ChunksProofs,
    VDrv.MemCopyProofs, VMem.StorageAccessorProofs, VCp.DmaProofs.

    Vocabulary.  [exact_pieces look addr len l]: the pieces are contiguous from
    offset 0, their lengths add up to [len], every offset below [len] lies in
    exactly one piece and none above, each piece is non-empty, starts at virtual
    address [addr + offset], ends inside [0,len), carries the translation of its
    first byte and does not leave that byte's unit (page / line).
    Memories and host buffers are total functions index -> byte; [h2d]/[d2h]
    apply the pieces in order exactly as the Go loops do. *)
From Coq Require Import List NArith Bool Arith Lia ZifyN ZifyNat ZifyBool Permutation.
From VLib Require Import Chunks ChunksProofs.
From VMem Require Import StorageAccessor StorageAccessorProofs.
From VDrv Require Import MemCopy MemCopyProofs FlushHist FlushHistProofs CopyCmd CopyCmdProofs CopySeq CopySeqProofs.
From VCp Require Import Dma DmaProofs DmaDataProofs.
From VCp Require CpRelay CpRelayProofs.
Import ListNotations.
Open Scope N_scope.

(** * Page-wise splitting (both driver middlewares) *)

Theorem split_pages_exact : forall lg pt addr len l,
  pt_wf lg pt -> split_pages lg pt addr len = Ok l ->
  exact_pieces (look_drv lg pt) addr len l /\
  Forall (fun p => p_va p mod 2 ^ lg + p_len p <= 2 ^ lg /\
                   exists pg, pt (align lg (p_va p)) = Some pg /\
                              p_pa p = pg_p pg + (p_va p - align lg (p_va p))) l.
Proof.
  intros lg pt addr len l Hw Hs. apply split_tiles in Hs.
  pose proof (tiles_exact _ (look_drv_pos lg pt Hw) _ _ _ Hs) as He. split; [exact He|].
  destruct He as (_ & _ & _ & _ & Hf). eapply Forall_impl; [|exact Hf].
  intros p (_ & _ & _ & room & Hl & Hr). destruct (look_drv_inv lg pt Hw _ _ _ Hl) as (pg & A & B & C).
  pose proof (align_spec lg (p_va p)). split; [lia|]. exists pg. auto.
Qed.
Print Assumptions split_pages_exact.

(** The loop succeeds exactly when every byte of the range is mapped; otherwise
    the Go code panics ("page not found") — it never loops forever on a
    well-formed table. *)
Theorem split_pages_defined : forall lg pt addr len, pt_wf lg pt ->
  ((forall v, addr <= v < addr + len -> pt (align lg v) <> None) <->
   exists l, split_pages lg pt addr len = Ok l) /\
  split_pages lg pt addr len <> Diverge.
Proof.
  intros lg pt addr len Hw. split; [split|].
  - intros Hm. apply split_total; [apply look_drv_pos; assumption|].
    intros a Ha. specialize (Hm a Ha). unfold look_drv. destruct (pt (align lg a)); congruence.
  - intros [l Hs] v Hv. apply split_tiles in Hs.
    pose proof (tiles_mapped _ (look_drv_linear lg pt Hw) _ _ _ _ Hs v Hv) as Hm.
    unfold look_drv in Hm. destruct (pt (align lg v)); congruence.
  - assert (G : forall fuel off a left, (N.to_nat left <= fuel)%nat ->
                chunks (look_drv lg pt) fuel off a left <> Diverge).
    { induction fuel as [|f IH]; intros off a left Hf; cbn [chunks].
      - replace left with 0 by lia. cbn. discriminate.
      - destruct (left =? 0) eqn:E; [discriminate|]. apply N.eqb_neq in E.
        destruct (look_drv lg pt a) as [[pa room]|] eqn:L; [|discriminate].
        pose proof (look_drv_pos lg pt Hw _ _ _ L). cbv zeta.
        specialize (IH (off + N.min left room) (a + N.min left room) (left - N.min left room)).
        destruct (chunks _ f _ _ _); cbn; try discriminate. apply IH. lia. }
    unfold split_pages, split. apply G. lia.
Qed.
Print Assumptions split_pages_defined.

(** * Line-wise splitting (DMA engine) *)

Theorem split_lines_exact : forall lg addr len,
  exists l, split_lines lg addr len = Ok l /\
  exact_pieces (look_unit lg) addr len l /\
  Forall (fun p => p_pa p = p_va p /\ p_va p mod 2 ^ lg + p_len p <= 2 ^ lg) l.
Proof.
  intros lg addr len. destruct (split_unit_ok lg addr len) as [l Hs]. exists l.
  split; [exact Hs|]. apply split_tiles in Hs.
  pose proof (tiles_exact _ (look_unit_pos lg) _ _ _ Hs) as He. split; [exact He|].
  destruct He as (_ & _ & _ & _ & Hf). eapply Forall_impl; [|exact Hf].
  intros p (_ & _ & _ & room & Hl & Hr). unfold look_unit in Hl. cbv zeta in Hl.
  injection Hl as <- <-. pose proof (pow2_pos lg). pose proof (N.mod_lt (p_va p) (2 ^ lg)). split; [reflexivity|lia].
Qed.
Print Assumptions split_lines_exact.

(** Transferring a page piece line by line (write requests of the DMA engine
    applied in any tiling order of the model: here program order) is the
    transfer of the piece; likewise for reads. *)
Theorem dma_lines_equal_piece : forall lg pa n l, split_lines lg pa n = Ok l ->
  (forall data m x, h2d data l m x = blit m pa n data x) /\
  (forall m buf i, d2h m l buf i = blit buf 0 n (fun k => m (pa + k)) i).
Proof. intros lg pa n l Hs. split; [apply (lines_equal_piece lg)|apply (lines_read_piece lg)]; exact Hs. Qed.
Print Assumptions dma_lines_equal_piece.

(** * Round trip and frame over a flat byte memory *)

Theorem roundtrip_h2d_d2h : forall lg pt addr len l,
  pt_wf lg pt -> frames_disjoint lg pt -> split_pages lg pt addr len = Ok l ->
  forall data m buf i, i < len -> d2h (h2d data l m) l buf i = data i.
Proof.
  intros lg pt addr len l Hw Hd Hs data m buf i Hi. apply split_tiles in Hs.
  eapply copy_roundtrip; eauto using look_drv_linear, inj_on_drv.
Qed.
Print Assumptions roundtrip_h2d_d2h.

(** Bytes that are not the image of a byte of the range keep their value; the
    bytes that are, hold the host data; the host buffer of a D2H is only
    written inside [0,len). *)
Theorem frame_outside_range : forall lg pt addr len l,
  pt_wf lg pt -> split_pages lg pt addr len = Ok l ->
  (forall data m x, (forall v, addr <= v < addr + len -> tr (look_drv lg pt) v <> x) ->
                    h2d data l m x = m x) /\
  (frames_disjoint lg pt -> forall data m v, addr <= v < addr + len ->
                    h2d data l m (tr (look_drv lg pt) v) = data (v - addr)) /\
  (forall m buf i, len <= i -> d2h m l buf i = buf i).
Proof.
  intros lg pt addr len l Hw Hs. apply split_tiles in Hs. split; [|split].
  - intros. eapply copy_frame; eauto using look_drv_linear.
  - intros Hd data m v Hv.
    rewrite (h2d_hit _ (look_drv_linear lg pt Hw) _ _ _ _ Hs); eauto using inj_on_drv.
  - intros m buf i Hi. eapply d2h_frame; eauto; lia.
Qed.
Print Assumptions frame_outside_range.

(** * Batches of copies and page moves

    [seq_run] executes copies one after the other on the physical memory, each
    through the page table current at that moment (a batch enqueued on the
    queues of a context and drained once: per queue in enqueue order; the
    harness gives the queues disjoint footprints).  [flat_run] is the reference
    the monitor uses: one byte array over virtual addresses, H2D = write,
    D2H = read.  For every sequence of copies, every well-formed page table with
    disjoint frames and every memory whose virtual view is [f]: the bytes every
    D2H returns are those the flat array holds at its place in the sequence, and
    the virtual view afterwards is the flat array afterwards. *)
Theorem batch_refines_flat_reference : forall lg ops s f s' outs,
  only_copies ops -> pt_wf lg (pt_of_list (s_pt s)) -> frames_disjoint lg (pt_of_list (s_pt s)) ->
  views lg (pt_of_list (s_pt s)) (s_mem s) f ->
  seq_run lg s ops = Some (s', outs) ->
  outs = snd (flat_run f ops) /\ s_pt s' = s_pt s /\
  views lg (pt_of_list (s_pt s)) (s_mem s') (fst (flat_run f ops)).
Proof. exact seq_refines_flat. Qed.
Print Assumptions batch_refines_flat_reference.

(** A page move replaces the page-table entry; a copy issued afterwards is
    translated with the new entry: the round trip holds through the new frame
    and every physical byte that is not an image of the range under the NEW
    table — every byte of the old frame, unless the new table still maps it —
    keeps its value. *)
Theorem copy_after_remap_uses_current_mapping : forall lg s k pg a data s1,
  let s' := mkS ((k, pg) :: s_pt s) (s_mem s) in
  pt_wf lg (pt_of_list (s_pt s')) -> frames_disjoint lg (pt_of_list (s_pt s')) ->
  exec lg s (SRemap k pg) = Some (s', []) /\
  (exec lg s' (SH2D a data) = Some (s1, []) ->
     exec lg s1 (SD2H a (MemCopy.len data)) = Some (s1, data) /\
     (forall x, (forall v, a <= v < a + MemCopy.len data -> tr (look_drv lg (pt_of_list (s_pt s'))) v <> x) ->
                s_mem s1 x = s_mem s x)).
Proof. exact remap_then_copy. Qed.
Print Assumptions copy_after_remap_uses_current_mapping.

(** Non-vacuity: the page at 48 moves from frame 512 to frame 4096; the copy
    issued afterwards fills the new frame, the old one keeps its bytes. *)
Example demo_remap :
  match seq_run 4 (mkS [(32, mkPage 32 1024 16); (48, mkPage 48 512 16)] (fun _ => 0))
                [SH2D 44 [1;2;3;4;5;6;7;8]; SRemap 48 (mkPage 48 4096 16); SD2H 44 8;
                 SH2D 44 [11;12;13;14;15;16;17;18]; SD2H 44 8] with
  | Some (s, outs) => outs = [[]; []; [1;2;3;4;0;0;0;0]; []; [11;12;13;14;15;16;17;18]] /\
                      to_list (s_mem s) 512 4 = [5;6;7;8] /\ to_list (s_mem s) 4096 4 = [15;16;17;18]
  | None => False
  end.
Proof. vm_compute. repeat split; reflexivity. Qed.

(** * Routing of the copy requests

    The default middleware sends one request per page piece to
    GPUs[GetDeviceIDByPAddr(pAddr) - 1].  The model's page record has no device
    field at all: whatever the page table entry says about its device (the
    physical owner, as the allocator records it today — also for buffers
    allocated while a unified device is selected or re-spread by Distribute /
    Remap), the target of each request is the registered device whose address
    range holds the translated address of the piece; the request carries that
    address and the length of the piece; the host (device 0) is never a target. *)
Theorem chunk_routed_to_frame_owner : forall lg pt devs addr n l rs,
  pt_wf lg pt -> split_pages lg pt addr n = Ok l -> reqs_of devs l = Some rs ->
  length rs = length l /\
  forall k p, nth_error l k = Some p ->
    exists id lo sz, nth_error rs k = Some (id, p_pa p, p_len p) /\ id <> 0 /\
                     In (id, lo, sz) devs /\ lo <= p_pa p < lo + sz /\
                     exists pg, pt (align lg (p_va p)) = Some pg /\
                                p_pa p = pg_p pg + (p_va p - align lg (p_va p)).
Proof.
  intros lg pt devs addr n l rs Hw Hs Hr. destruct (reqs_of_spec devs l rs Hr) as [Hl Hn].
  split; [exact Hl|]. intros k p Hk. destruct (Hn k p Hk) as (id & A & B & C).
  destruct (device_of_range _ _ _ B) as (lo & sz & Hin & Hrange).
  destruct (split_pages_exact lg pt addr n l Hw Hs) as [_ Hf]. rewrite Forall_forall in Hf.
  destruct (Hf p (nth_error_In _ _ Hk)) as (_ & pg & Hpg & Hpa).
  exists id, lo, sz. repeat split; auto; try lia. exists pg. auto.
Qed.
Print Assumptions chunk_routed_to_frame_owner.

(** * The emulator's storage accessor *)

Theorem accessor_rw_exact : forall lg pt addr len,
  pt_wf lg pt -> frames_disjoint lg pt ->
  (forall v, addr <= v < addr + len -> pt (align lg v) <> None) ->
  forall data m, exists m' b,
    acc_write lg pt addr data len m = Some m' /\ acc_read lg pt addr len m' = Some b /\
    (forall i, i < len -> b i = data i) /\
    (forall x, (forall v, addr <= v < addr + len -> tr (look_acc lg pt) v <> x) -> m' x = m x) /\
    (exists l, split_acc lg pt addr len = Ok l /\ exact_pieces (look_acc lg pt) addr len l).
Proof.
  intros lg pt addr len Hw Hd Hm data m.
  destruct (split_total _ (look_acc_pos lg pt) addr len) as [l Hs].
  { intros a Ha. specialize (Hm a Ha). unfold look_acc. destruct (pt (align lg a)); congruence. }
  unfold acc_write, acc_read, split_acc. rewrite Hs. do 2 eexists. split; [reflexivity|]. split; [reflexivity|].
  pose proof (split_tiles _ _ _ _ Hs) as HT. split; [|split].
  - intros i Hi. eapply copy_roundtrip; eauto using look_acc_linear, inj_on_acc.
  - intros x Hx. eapply copy_frame; eauto using look_acc_linear.
  - exists l. split; [reflexivity|]. apply tiles_exact; [apply look_acc_pos|exact HT].
Qed.
Print Assumptions accessor_rw_exact.

(** * The flush decision *)

Theorem overlap_iff_intersect : forall s1 e1 s2 e2, s1 < e1 -> s2 < e2 ->
  (mem_range_overlap s1 e1 s2 e2 = true <-> exists x, s1 <= x < e1 /\ s2 <= x < e2).
Proof. exact overlap_iff. Qed.
Print Assumptions overlap_iff_intersect.

(** The function as found in the repository does not satisfy the statement
    (memRangeOverlap(100,200,50,300) = false) ... *)
Theorem overlap_iff_intersect_refuted_before_fix :
  ~ (forall s1 e1 s2 e2, s1 < e1 -> s2 < e2 ->
     (mem_range_overlap_old s1 e1 s2 e2 = true <-> exists x, s1 <= x < e1 /\ s2 <= x < e2)).
Proof. exact overlap_old_refuted. Qed.
Print Assumptions overlap_iff_intersect_refuted_before_fix.

(** ... it is sound, and complete except when the second range strictly contains the first. *)
Theorem overlap_iff_intersect_partial_before_fix : forall s1 e1 s2 e2, s1 < e1 -> s2 < e2 ->
  (mem_range_overlap_old s1 e1 s2 e2 = true -> exists x, s1 <= x < e1 /\ s2 <= x < e2) /\
  (~ (s2 < s1 /\ e1 < e2) -> (exists x, s1 <= x < e1 /\ s2 <= x < e2) -> mem_range_overlap_old s1 e1 s2 e2 = true).
Proof. exact overlap_old_partial. Qed.
Print Assumptions overlap_iff_intersect_partial_before_fix.

(** A flush is requested exactly when a dirty buffer shares a byte with the copy range. *)
Theorem need_flushing_exact : forall bufs a n, 0 < n -> Forall (fun b => 0 < b_size b) bufs ->
  (need_flushing bufs a n = true <->
   exists b x, In b bufs /\ b_dirty b = true /\ b_start b <= x < b_start b + b_size b /\ a <= x < a + n).
Proof. exact need_flushing_iff. Qed.
Print Assumptions need_flushing_exact.

(** * The flush decision over histories of a context

    Events: allocations, kernels taken from any queue of the context (every
    buffer existing then may be written until the kernel completes), kernel
    completions, copies taken from any queue — in every interleaving.  Ghost:
    [g_need] lists the buffers written by kernels that completed after the last
    flush was issued.  Whenever a copy range shares a byte with such a buffer
    the code's decision is "flush": no required flush is skipped. *)
Theorem needs_flush_sound : forall bufs0 evs a n,
  let s := hrun (hinit bufs0) evs in
  0 < n -> must_flush s a n ->
  need_flushing (h_bufs s) a n = true /\ snd (hstep s (HCopy a n)) = true.
Proof.
  intros bufs0 evs a n s Hn Hm.
  assert (E : need_flushing (h_bufs s) a n = true)
    by (apply inv_flushes; auto; apply hrun_inv, hinit_inv).
  split; [exact E|]. cbn. rewrite E. reflexivity.
Qed.
Print Assumptions needs_flush_sound.

(** The same statement fails for the variant that resets the marks whenever a
    flush is sent: kernel on queue 1 in flight, a copy of another buffer flushes
    and clears, the kernel completes, the copy of its output does not flush. *)
Definition hist_two_queues : list hev := [HLaunch 1; HCopy 8192 64; HComplete 1].
Theorem needs_flush_sound_refuted_if_flush_clears_marks :
  let s := hrun_gen true (hinit [mkBuf 4096 100 false; mkBuf 8192 100 false]) hist_two_queues in
  must_flush s 4096 16 /\ snd (hstep_gen true s (HCopy 4096 16)) = false.
Proof.
  split; [|reflexivity].
  exists 2%nat, 0%nat, (mkBuf 4096 100 false). cbn.
  split; [auto|]. split; [lia|]. split; [reflexivity|]. split; [reflexivity|]. exists 4096. lia.
Qed.
Print Assumptions needs_flush_sound_refuted_if_flush_clears_marks.

(** Non-vacuity: on the same history the code as it is owes a flush and sends it. *)
Example demo_hist :
  let s := hrun (hinit [mkBuf 4096 100 false; mkBuf 8192 100 false]) hist_two_queues in
  g_need s = [2%nat] /\ snd (hstep s (HCopy 4096 16)) = true /\ snd (hstep s (HCopy 20000 16)) = false.
Proof. vm_compute. repeat split; reflexivity. Qed.

(** * The driver's copy command: one completion, after the last response of any kind

    After processMemCopyH2D/D2HCommand a command waits for its requests (a flush
    per GPU when needed, one copy request per page piece).  For every set of
    requests with distinct IDs and every sequence of responses and ticks that
    does not run into the "cannot find command" panic (i.e. no response for an
    unknown or already answered request): the command is completed at most
    once, and it is completed exactly when every request has been answered —
    whichever response, flush or copy, comes last — and, for a command without
    any request (zero bytes, nothing to flush), when the driver has ticked. *)
Theorem driver_copy_completes_once : forall reqs evs, NoDup (map fst reqs) ->
  let s := crun (cstart reqs) evs in
  cc_crashed s = false ->
  (cc_done s <= 1)%nat /\
  (cc_done s = 1%nat <->
     (forall r, In r reqs -> In (fst r) (rsp_ids evs)) /\ (reqs = [] -> has_tick evs = true)) /\
  NoDup (rsp_ids evs) /\ incl (rsp_ids evs) (map fst reqs).
Proof. exact completes_iff. Qed.
Print Assumptions driver_copy_completes_once.

(** The global-storage ("magic") middleware after 98dbab99: a flush per GPU
    when needed, then the storage copy.  For every number of flushes and every
    sequence of flush answers and ticks that does not hit the "cannot find
    command" panic: the command completes — and the storage is read or written —
    at most once, exactly when every flush has been answered (at once when no
    flush is needed).  Until then the storage is untouched; afterwards it is the
    result of the page-wise copy, for which the round trip and the frame hold. *)
Theorem magic_copy_completes_once : forall nflush evs,
  let s := crun (cstart_magic nflush) evs in
  cc_crashed s = false ->
  (cc_done s <= 1)%nat /\
  (cc_done s = 1%nat <-> forall i, (i < nflush)%nat -> In (N.of_nat i) (rsp_ids evs)).
Proof. exact magic_completes_iff. Qed.
Print Assumptions magic_copy_completes_once.

Theorem magic_copy_after_flush : forall lg pt addr len l nflush evs data (m : bytes),
  pt_wf lg pt -> frames_disjoint lg pt -> split_pages lg pt addr len = Ok l ->
  let s := crun (cstart_magic nflush) evs in
  cc_crashed s = false ->
  let storage := magic_storage s m (h2d data l m) in
  ((exists i, (i < nflush)%nat /\ ~ In (N.of_nat i) (rsp_ids evs)) -> forall x, storage x = m x) /\
  ((forall i, (i < nflush)%nat -> In (N.of_nat i) (rsp_ids evs)) ->
     (forall buf i, i < len -> d2h storage l buf i = data i) /\
     (forall x, (forall v, addr <= v < addr + len -> tr (look_drv lg pt) v <> x) -> storage x = m x)).
Proof.
  intros lg pt addr len l nflush evs data m Hw Hd Hs s Hc storage.
  destruct (magic_completes_iff nflush evs Hc) as [Hle Hiff]. fold s in Hle, Hiff.
  unfold storage, magic_storage. split.
  - intros (i & Hi & Hn) x. destruct (Nat.ltb_spec 0 (cc_done s)); [|reflexivity].
    exfalso. apply Hn. apply Hiff; [lia|exact Hi].
  - intros Hall. apply Hiff in Hall. rewrite Hall. cbn. split.
    + intros buf i Hi. eapply roundtrip_h2d_d2h; eauto.
    + intros x Hx. destruct (frame_outside_range lg pt addr len l Hw Hs) as [Hf _]. apply Hf. exact Hx.
Qed.
Print Assumptions magic_copy_after_flush.

(** Before the two repairs the statement was false: a flush response arriving
    last, and a command without requests, never completed. *)
Theorem driver_copy_completes_once_refuted_before_fix :
  (let s := crun_gen false (cstart [(0, QFlush); (1, QCopy)]) [CTick; CRsp 1; CTick; CRsp 0; CTick] in
   cc_crashed s = false /\ cc_reqs s = [] /\ cc_done s = 0%nat) /\
  (let s := crun_gen false (cstart []) [CTick; CTick] in cc_crashed s = false /\ cc_done s = 0%nat) /\
  (let s := crun (cstart [(0, QFlush); (1, QCopy)]) [CTick; CRsp 1; CTick; CRsp 0; CTick] in cc_done s = 1%nat) /\
  (let s := crun (cstart []) [CTick; CTick] in cc_done s = 1%nat).
Proof. vm_compute. repeat split; reflexivity. Qed.
Print Assumptions driver_copy_completes_once_refuted_before_fix.

(** ** The empty-copy bookkeeping (emptyCopies, completion by Tick) with the flush phase

    [kstep] is the middleware as coded: rememberIfEmpty notes a command that
    waits for no request at all (flush requests count), Tick completes every
    noted command without looking at its requests, and a response for a command
    that already left its queue panics in findCommandByReq.  For every request
    set (flush requests included) with distinct IDs and every sequence of
    responses and ticks: (a) in an environment that answers each request of the
    command at most once and nothing else, no panic; (b) without a panic the
    command completes at most once, and exactly when every request — flush
    requests included — has been answered (and the driver ticked, when there is
    no request at all). *)
Theorem driver_copy_completes_once_with_empty_copies : forall reqs evs, NoDup (map fst reqs) ->
  let s := krun (kstart false reqs) evs in
  (NoDup (rsp_ids evs) -> incl (rsp_ids evs) (map fst reqs) -> cc_crashed s = false) /\
  (cc_crashed s = false ->
   (cc_done s <= 1)%nat /\
   (cc_done s = 1%nat <->
      (forall r, In r reqs -> In (fst r) (rsp_ids evs)) /\ (reqs = [] -> has_tick evs = true)) /\
   NoDup (rsp_ids evs) /\ incl (rsp_ids evs) (map fst reqs)).
Proof. intros reqs evs H. split; [exact (k_no_panic reqs evs H)|exact (k_completes_iff reqs evs H)]. Qed.
Print Assumptions driver_copy_completes_once_with_empty_copies.

(** A zero-byte copy whose address lies inside an L2-dirty buffer has flush
    requests and no copy request: it is NOT noted as empty, any number of ticks
    leaves it in its queue, the flush acknowledgements (any order, any delay) do
    not panic, and it completes exactly once, exactly when the last of them has
    been processed. *)
Theorem zero_byte_copy_waits_for_flush : forall nflush evs, (0 < nflush)%nat ->
  let s := krun (kstart false (zero_byte_reqs nflush)) evs in
  cc_empty (kstart false (zero_byte_reqs nflush)) = false /\
  ((NoDup (rsp_ids evs) /\ (forall id, In id (rsp_ids evs) -> exists i, (i < nflush)%nat /\ id = N.of_nat i)) ->
     cc_crashed s = false) /\
  (cc_crashed s = false ->
     (cc_done s <= 1)%nat /\
     (cc_done s = 1%nat <-> forall i, (i < nflush)%nat -> In (N.of_nat i) (rsp_ids evs))).
Proof. exact k_zero_byte. Qed.
Print Assumptions zero_byte_copy_waits_for_flush.

(** The statement is false when "empty" is decided by the byte count (no COPY
    request) instead of "no request at all": the first tick completes the
    command with both flush requests unanswered, and the first acknowledgement
    panics.  The coded decision on the same history: one completion, after the
    last acknowledgement. *)
Theorem zero_byte_copy_waits_for_flush_refuted_if_empty_by_byte_count :
  let s0 := kstart true (zero_byte_reqs 2) in
  cc_empty s0 = true /\
  (let s := krun s0 [CTick] in cc_crashed s = false /\ cc_done s = 1%nat /\ cc_ans s = []) /\
  (let s := krun s0 [CTick; CRsp 0] in cc_crashed s = true) /\
  (let s := krun (kstart false (zero_byte_reqs 2)) [CTick; CRsp 1; CTick; CTick] in cc_done s = 0%nat) /\
  (let s := krun (kstart false (zero_byte_reqs 2)) [CTick; CRsp 1; CTick; CTick; CRsp 0; CTick] in
   cc_crashed s = false /\ cc_done s = 1%nat).
Proof. vm_compute. repeat split; reflexivity. Qed.
Print Assumptions zero_byte_copy_waits_for_flush_refuted_if_empty_by_byte_count.

(** * The DMA engine: one completion per command, after all its sub-requests *)

(** For every configuration and every finite sequence of environment events
    (deliveries accepted or refused by the bounded ports, replies in any order
    — also duplicated, unknown or of the wrong kind: those end in the crashed
    state —, ticks, retrievals):
    - the completions retrieved, waiting in the port and queued are exactly the
      completions produced, in order;
    - every completion belongs to a distinct accepted command (its position in
      the acceptance order), names that command, and is produced only when all
      of that command's sub-requests have been answered (a command of zero
      bytes has none and is answered when it is accepted);
    - no sub-request is answered twice;
    - never more than maxRequestCount commands are in progress. *)
Theorem copy_completes_once : forall l mx evs,
  let s := run (init l mx) evs in
  g_retr s ++ cp_out s ++ to_cp s = map snd (g_done s) /\
  NoDup (map fst (g_done s)) /\
  Forall (fun d => exists c0 ids, nth_error (g_acc s) (fst d) = Some (c0, ids) /\
                   same_cmd c0 (snd d) /\ incl ids (g_ans s)) (g_done s) /\
  NoDup (g_ans s) /\
  (length (processing s) <= mx)%nat.
Proof.
  intros l mx evs s. pose proof (run_inv evs _ (init_inv l mx)) as H.
  destruct (run_cfg evs (init l mx)) as [Hc _]. destruct H. subst s.
  rewrite Hc in *. cbn [maxreq init] in *. auto.
Qed.
Print Assumptions copy_completes_once.

(** Data placement of D2H commands.  Assumption on the environment, stated as a
    predicate over the event sequence ([respects m]): every response delivered
    to the engine answers an existing sub-request with the matching kind, and a
    read is answered with the bytes the image [m] holds at the requested range
    (replies in any order, any interleaving with ticks, deliveries and
    retrievals, any number of concurrent commands).  Then every completion of a
    D2H command that the engine queues, offers or has handed over carries in its
    destination buffer exactly m[addr .. addr+len): each reply was written at
    the offset of its sub-request and nowhere else. *)
Theorem dma_d2h_data_exact : forall m l mx evs,
  respects m (init l mx) evs ->
  let s := run (init l mx) evs in
  forall c, In c (g_retr s ++ cp_out s ++ to_cp s) -> c_kind c = CD2H ->
  forall i, i < len (c_data c) -> nth (N.to_nat i) (c_data c) 0 = m (c_addr c + i).
Proof. intros m l mx evs Hr s c Hin. exact (d2h_data_exact m l mx evs Hr c Hin). Qed.
Print Assumptions dma_d2h_data_exact.

(** The sub-requests of an accepted command are the line pieces of its range,
    numbered consecutively, each write carrying its slice of the source. *)
Theorem dma_accept_splits_by_line : forall s s',
  parse_from_cp s = (s', true) ->
  exists c rest l, cp_in s = c :: rest /\ split_lines (lg s) (c_addr c) (len (c_data c)) = Ok l /\
    g_sent s' = g_sent s ++ mk_subs c (next_id s) l /\ to_mem s' = to_mem s ++ mk_subs c (next_id s) l /\
    g_acc s' = g_acc s ++ [(c, map s_id (mk_subs c (next_id s) l))] /\
    (forall k p, nth_error l k = Some p ->
       nth_error (mk_subs c (next_id s) l) k =
       Some (match c_kind c with
             | CH2D => mkSub (next_id s + N.of_nat k) true (p_va p) (p_len p) (slice (c_data c) (p_off p) (p_len p))
             | _ => mkSub (next_id s + N.of_nat k) false (p_va p) (p_len p) []
             end)).
Proof.
  intros s s' H. unfold parse_from_cp in H.
  destruct (Nat.leb (maxreq s) (length (processing s))); [inversion H|].
  destruct (cp_in s) as [|c rest] eqn:Ein; [inversion H|].
  assert (Hnth : forall l n k p, nth_error l k = Some p ->
            nth_error (mk_subs c n l) k = Some (mk_sub c (n + N.of_nat k) p)).
  { induction l as [|x r IH]; intros n [|k] p Hk; cbn in *; try discriminate.
    - inversion Hk; subst. f_equal. f_equal. lia.
    - rewrite (IH (n + 1) k p Hk). f_equal. f_equal. lia. }
  destruct (split_lines (lg s) (c_addr c) (len (c_data c))) as [l| |] eqn:Es;
    destruct (c_kind c) eqn:Ek; try (inversion H; fail);
    match type of H with context [if ?b then _ else _] => destruct b end;
    inversion H; subst; clear H;
    exists c, rest, l; cbn; repeat split; auto;
    intros k p Hk; rewrite (Hnth _ _ _ _ Hk); unfold mk_sub; rewrite Ek; reflexivity.
Qed.
Print Assumptions dma_accept_splits_by_line.

(** * The command processor between driver, DMA engine and caches

    Event-exact model of the CP's flush / copy bookkeeping (numCacheACK, the head
    of ToDriver held back, clone IDs and the two maps), for every cache count,
    every ToDriver capacity and every finite sequence of deliveries on the three
    ports, ticks and retrievals.  [g_issued] / [g_acked] count the cache flush
    requests sent and the cache answers processed; [g_wrapped] records a cache
    answer that nobody asked for (numCacheACK decremented at 0). *)
Module CP.
Import CpRelay CpRelayProofs.

(** No copy request (H2D or D2H) is cloned and handed to the DMA port while a
    cache flush issued before is unacknowledged, and a flush is answered to the
    driver only when every cache has acknowledged. *)
Theorem cp_copy_waits_for_flush : forall n cap evs,
  let s := run (init n cap) evs in
  g_wrapped s = false ->
  Forall (fun e => f_issued e = f_acked e) (g_fwd s) /\
  Forall (fun e => p_kind (r_rsp e) = DFlush -> r_issued e = r_acked e) (g_rsp s) /\
  acks s + g_acked s = g_issued s.
Proof.
  intros n cap evs s Hw. pose proof (run_rinv evs _ (init_rinv n cap)) as H. fold s in H.
  destruct H as [_ _ Hacks Hfwd Hrspf _ _ _]. repeat split; auto.
  - eapply Forall_impl; [|exact Hfwd]. cbn. auto.
  - eapply Forall_impl; [|exact Hrspf]. cbn. auto.
Qed.

(** Every request taken from the driver port is accounted for exactly once:
    the copies are cloned once each, in order ([g_fwd]); the answered ones
    (responses built, sent or dropped) together with those still waiting in the
    two maps are a permutation of the copies taken; responses carry the ID,
    kind and source of the original; with distinct request IDs no copy is
    answered twice.  The responses the driver side sees are exactly the
    responses built whose Send succeeded, in order — a response built while
    ToDriver's outgoing buffer is full is dropped by the code ([r_sent] =
    false); with [Forall r_sent] (the outgoing_not_full premise) none is. *)
Theorem cp_relay_exactly_once : forall n cap evs,
  let s := run (init n cap) evs in
  g_cons s ++ drv_in s = g_deliv s /\
  map (fun e => cl_orig (f_clone e)) (g_fwd s) = map q_id (filter is_copy (g_cons s)) /\
  Permutation (map (fun e => p_orig (r_rsp e)) (filter is_copy_rsp (g_rsp s)) ++
               map (fun e => q_id (snd e)) (tab_h2d s ++ tab_d2h s))
              (map q_id (filter is_copy (g_cons s))) /\
  g_retr s ++ drv_out s = map r_rsp (filter r_sent (g_rsp s)) /\
  (NoDup (map q_id (g_deliv s)) ->
   NoDup (map (fun e => p_orig (r_rsp e)) (filter is_copy_rsp (g_rsp s)))) /\
  (forallb r_sent (g_rsp s) = true -> g_retr s ++ drv_out s = map r_rsp (g_rsp s)).
Proof.
  intros n cap evs s. pose proof (run_rinv evs _ (init_rinv n cap)) as H. fold s in H.
  pose proof (once_nodup s H) as Hn. destruct H as [Hs Hc _ _ _ _ Ho Hf].
  repeat split; auto. intros Hall. rewrite Hs. f_equal.
  clear - Hall. induction (g_rsp s) as [|x r IH]; cbn in *; [reflexivity|].
  apply andb_true_iff in Hall as [Hx Hr]. rewrite Hx. f_equal. auto.
Qed.

(** Non-vacuity: two caches; flush 1, H2D 2 and D2H 3 queued behind it.  The
    copies stay in the port until both caches have answered; then flush
    response, clones, DMA answers in reverse order, copy responses. *)
Definition demo : list ev :=
  [EDrv (mkDReq 1 DFlush 10); EDrv (mkDReq 2 DH2D 10); EDrv (mkDReq 3 DD2H 11);
   ETick; ETick; ERetrCache; ERetrCache; ERetrDma; ECache CAck; ETick; ERetrDma; ECache CAck; ETick; ETick; ETick;
   ERetrDrv; ERetrDma; ERetrDma; EDma (MRsp 1000001); EDma (MRsp 1000000); ETick; ETick; ERetrDrv; ERetrDrv].
Example demo_cp :
  let s := run (init 2 4096) demo in
  g_retr s = [mkDRsp 1 DFlush 10; mkDRsp 3 DD2H 11; mkDRsp 2 DH2D 10] /\
  map f_clone (g_fwd s) = [mkClone 1000000 2 DH2D; mkClone 1000001 3 DD2H] /\
  map (fun e => (f_issued e, f_acked e)) (g_fwd s) = [(2, 2); (2, 2)] /\
  g_wrapped s = false /\ panicked s = false /\
  run_obs (init 2 4096) (firstn 11 demo) =
    [OAcc true; OAcc true; OAcc true; OTick true; OTick false; OCache (Some 0); OCache (Some 1);
     OClone None; OAcc true; OTick true; OClone None].
Proof. vm_compute. repeat split; reflexivity. Qed.

(** A response built while ToDriver's one-entry outgoing buffer is occupied is lost. *)
Example demo_cp_loss :
  let s := run (init 0 1) [EDrv (mkDReq 1 DFlush 10); ETick; EDrv (mkDReq 2 DFlush 10); ETick; ERetrDrv; ERetrDrv] in
  g_retr s = [mkDRsp 1 DFlush 1] /\ map r_sent (g_rsp s) = [true; false].
Proof. vm_compute. split; reflexivity. Qed.
End CP.
Print Assumptions CP.cp_copy_waits_for_flush.
Print Assumptions CP.cp_relay_exactly_once.

(** * Non-vacuity *)

(** Two pages of 16 bytes mapped to frames in swapped order: a 20-byte copy
    starting 5 bytes before the page boundary is cut in three. *)
Definition demo_pt : ptable := pt_of_list [(32, mkPage 32 1024 16); (48, mkPage 48 512 16); (64, mkPage 64 2048 16)].
Example demo_split :
  split_pages 4 demo_pt 43 24 =
  Ok [mkPiece 0 43 1035 5; mkPiece 5 48 512 16; mkPiece 21 64 2048 3].
Proof. reflexivity. Qed.

Example demo_wf : pt_wf 4 demo_pt /\ frames_disjoint 4 demo_pt.
Proof.
  assert (K : forall a, exists k, align 4 a = k * 16) by (intros a; exists (a / 16); reflexivity).
  assert (D : forall a pg, demo_pt (align 4 a) = Some pg ->
            (align 4 a = 32 /\ pg = mkPage 32 1024 16) \/ (align 4 a = 48 /\ pg = mkPage 48 512 16) \/
            (align 4 a = 64 /\ pg = mkPage 64 2048 16)).
  { intros a pg. unfold demo_pt, pt_of_list. cbn [find fst snd].
    destruct (32 =? align 4 a) eqn:E1; [apply N.eqb_eq in E1; intros H; inversion H; auto|].
    destruct (48 =? align 4 a) eqn:E2; [apply N.eqb_eq in E2; intros H; inversion H; auto|].
    destruct (64 =? align 4 a) eqn:E3; [apply N.eqb_eq in E3; intros H; inversion H; auto|].
    discriminate. }
  split.
  - intros a pg H. destruct (D a pg H) as [[E ->]|[[E ->]|[E ->]]]; rewrite E; split; reflexivity.
  - intros a b pa pb Ha Hb Hne.
    destruct (D a pa Ha) as [[Ea ->]|[[Ea ->]|[Ea ->]]]; destruct (D b pb Hb) as [[Eb ->]|[[Eb ->]|[Eb ->]]];
      cbn; try lia; exfalso; apply Hne; congruence.
Qed.

Example demo_roundtrip :
  let data := of_list [1;2;3;4;5;6;7;8;9;10;11;12;13;14;15;16;17;18;19;20;21;22;23;24] in
  match split_pages 4 demo_pt 43 24 with
  | Ok l => to_list (d2h (h2d data l (fun _ => 99)) l (fun _ => 0)) 0 24 = to_list data 0 24 /\
            to_list (h2d data l (fun _ => 99)) 1033 8 = [99; 99; 1; 2; 3; 4; 5; 99]
  | _ => False
  end.
Proof. vm_compute. split; reflexivity. Qed.

(** A DMA history: an H2D of 100 bytes at 60 (three lines) and a D2H of 8
    bytes; the memory answers out of order; both complete once. *)
Definition demo_dma : list ev :=
  [EDeliverCP (mkCopy 1 CH2D 10 60 (repeat 7 100)); EDeliverCP (mkCopy 2 CD2H 11 128 (repeat 0 8));
   ETick; ETick; ETick; ETick; ETick; ERetrMem; ERetrMem; ERetrMem; ERetrMem;
   EDeliverMem (mkRsp RData 1000003 [1;2;3;4;5;6;7;8]); EDeliverMem (mkRsp RDone 1000002 []);
   EDeliverMem (mkRsp RDone 1000000 []); ETick; ETick; ETick; ERetrCP;
   EDeliverMem (mkRsp RDone 1000001 []); ETick; ETick; ERetrCP; ERetrCP].
Example demo_dma_completes :
  let s := run (init 6 4) demo_dma in
  map c_id (g_retr s) = [2; 1] /\ map c_data (firstn 1 (g_retr s)) = [[1;2;3;4;5;6;7;8]] /\
  map fst (g_done s) = [1%nat; 0%nat] /\ g_ans s = [1000003; 1000002; 1000000; 1000001] /\
  processing s = [] /\ crashed s = false /\
  map (fun q => (s_addr q, s_size q)) (g_sent s) = [(60, 4); (64, 64); (128, 32); (128, 8)].
Proof. vm_compute. repeat split; reflexivity. Qed.


