(** C05 — simulations are reproducible (partial: the Go scheduler itself is
    outside the kernel's reach).  Statements only; proofs are in
    VSys.EngineProofs and VSys.MapRangeProofs.

    (i)   the order in which akita's serial engine hands events to their
          handlers is a function of the sequence of Schedule calls' keys
          (time, secondary flag) interleaved with the loop iterations;
    (ii)  every syntactic source of nondeterminism that the translator finds in
          the Go sources is accounted for, and the map-range loops on
          simulation paths are order-irrelevant;
    (iii) the time at which the driver picks up the next command is NOT
          independent of the host schedule (refuted, known finding), but it is
          when the engine has drained before the hand-off. *)
From Coq Require Import List NArith Bool String Permutation Sorted.
From VSys Require Import Engine EngineProofs EngineConserve EngineOrder Handoff MapRange MapRangeProofs SiteTypes.
From VGen Require Import MapRanges.
Import ListNotations.

(** * (i) serial engine *)

(** Two engines that receive operation sequences with the same keys -- whatever
    the events are (payload type, handler, identity) -- agree on the current
    time, on the panic flag, and handle "the same" events in the same order:
    the k-th handled event is, in both, the event of Schedule call number
    [order keys]_k.  [ops] ranges over all interleavings of Schedule calls (by
    handlers or by other threads while the engine is paused) and loop iterations. *)
Theorem serial_engine_function : forall (A B : Type) (ops1 : list (op A)) (ops2 : list (op B)),
  map (@op_key A) ops1 = map (@op_key B) ops2 ->
  let ks := map (@op_key A) ops1 in
  now (exec ops1) = now (exec ops2) /\
  crashed (exec ops1) = crashed (exec ops2) /\
  Forall2 (fun e i => nth_error (pushes ops1) i = Some e) (handled (exec ops1)) (order ks) /\
  Forall2 (fun e i => nth_error (pushes ops2) i = Some e) (handled (exec ops2)) (order ks).
Proof.
  intros A B ops1 ops2 H ks.
  pose proof (exec_parametric (@ev_rel_key A B (fun _ _ => True)) (key_rel ops1 ops2 H)) as (Hn & _ & _ & _ & Hc).
  repeat split; auto.
  - apply handled_follow_order.
  - unfold ks. rewrite H. apply handled_follow_order.
Qed.
Print Assumptions serial_engine_function.

(** The general (relational) form: the engine is parametric in the events. *)
Theorem serial_engine_parametric : forall (A B : Type) (R : A -> B -> Prop) ops1 ops2,
  Forall2 (op_rel (ev_rel R)) ops1 ops2 ->
  eng_rel (ev_rel R) (exec ops1) (exec ops2).
Proof. intros A B R ops1 ops2 H. exact (exec_parametric (@ev_rel_key A B R) H). Qed.
Print Assumptions serial_engine_parametric.

(** What the order of equal-time events depends on: NOT first-come-first-served.
    Three events scheduled for the same instant in the order 0,1,2 are handled
    in the order 0,2,1 (container/heap moves the last leaf to the root). *)
Theorem equal_time_order_is_heap_order_not_fifo :
  order [KSched 5 false; KSched 5 false; KSched 5 false; KStep; KStep; KStep] = [0; 2; 1]%nat.
Proof. vm_compute. reflexivity. Qed.
Print Assumptions equal_time_order_is_heap_order_not_fifo.

(** The queues neither create nor lose events. *)
Theorem heap_push_pop_conserve : forall (A : Type) (e : event A) l,
  Permutation (hpush e l) (e :: l) /\
  (forall e' r, hpop l = Some (e', r) -> Permutation (e' :: r) l).
Proof. intros A e l. split; [apply hpush_perm|apply hpop_perm]. Qed.
Print Assumptions heap_push_pop_conserve.

(** heap.Pop returns events[0]: the event nextEvent peeked at is the one it pops. *)
Theorem heap_pop_returns_root : forall (A : Type) (d : event A) l, exists r, hpop (d :: l) = Some (d, r).
Proof. exact hpop_returns_root. Qed.
Print Assumptions heap_pop_returns_root.

(** For all operation sequences: handled and still-queued events together are a
    sub-multiset of the Schedule calls -- every handled event was scheduled and
    none is handled more often than it was scheduled ([rest]: calls that
    panicked or came after a panic). *)
Theorem engine_conserves_events : forall (A : Type) (ops : list (op A)),
  exists rest, Permutation (handled (exec ops) ++ q (exec ops) ++ sq (exec ops) ++ rest) (pushes ops).
Proof. exact engine_conserves_events. Qed.
Print Assumptions engine_conserves_events.

(** Both event queues are binary min-heaps (parent of slot k is slot (k-1)/2)
    after every Push and Pop, for all histories. *)
Theorem event_queue_is_min_heap : forall (A : Type),
  (forall (e : event A) l, heap_ok l -> heap_ok (hpush e l)) /\
  (forall (l : list (event A)) e r, heap_ok l -> hpop l = Some (e, r) -> heap_ok r) /\
  (forall ops : list (op A), heap_ok (q (exec ops)) /\ heap_ok (sq (exec ops))).
Proof.
  intros A. split; [apply hpush_heap|]. split; [apply hpop_heap|].
  intros ops. destruct (exec_inv ops). split; assumption.
Qed.
Print Assumptions event_queue_is_min_heap.

(** For all histories: events are handled in non-decreasing time order, nothing
    queued lies in the past, and what nextEvent picks is a minimum of both
    queues; it picks from the secondary queue (the primary queue is returned
    unchanged) only when every queued primary event is strictly later -- primary
    events go first at equal time. *)
Theorem engine_handles_in_time_order : forall (A : Type) (ops : list (op A)),
  let s := exec ops in
  StronglySorted N.le (map (@ev_time A) (handled s)) /\
  (forall x, In x (handled s) -> (ev_time x <= now s)%N) /\
  (forall x, In x (q s ++ sq s) -> (now s <= ev_time x)%N) /\
  (forall e q' sq', next_event s = Some (e, q', sq') ->
     (forall x, In x (q s ++ sq s) -> (ev_time e <= ev_time x)%N) /\
     (q' = q s -> forall p, In p (q s) -> (ev_time e < ev_time p)%N)).
Proof.
  intros A ops s. destruct (exec_inv ops) as [Iq Is If Ih Ip]. fold s in Iq, Is, If, Ih, Ip.
  repeat split; auto; destruct (next_event_min s Iq Is H) as (_ & _ & H1 & H2); auto.
Qed.
Print Assumptions engine_handles_in_time_order.

(** * (ii) sources of nondeterminism in the Go sources *)

(** Checked against the current source tree on every run: the translator
    regenerates VGen.MapRanges, and this theorem stops compiling when a site
    appears that tools/checks/c05_sites.json does not classify. *)
Theorem every_site_accounted : unaccounted sites classes = [] /\ proved_only_on_mapranges sites classes = true.
Proof. vm_compute. split; reflexivity. Qed.
Print Assumptions every_site_accounted.

(** A range loop whose body commutes on the entries present in the map has the
    same effect for every iteration order Go may choose. *)
Theorem fold_perm_invariant : forall (S E : Type) (f : S -> E -> S) (l l' : list E),
  Permutation l l' ->
  (forall s a b, In a l -> In b l -> f (f s a) b = f (f s b) a) ->
  forall s, range_loop f l s = range_loop f l' s.
Proof. intros. unfold range_loop. now apply fold_perm_invariant_in. Qed.
Print Assumptions fold_perm_invariant.

(** deviceIDByPAddr: devices registered with distinct ids; any iteration order. *)
Theorem map_iteration_irrelevant_deviceIDByPAddr : forall regs p devs',
  NoDup (map fst regs) -> Permutation (layout regs 0) devs' ->
  device_id_by_paddr p (layout regs 0) = device_id_by_paddr p devs'.
Proof. exact device_lookup_order_irrelevant. Qed.
Print Assumptions map_iteration_irrelevant_deviceIDByPAddr.

(** GetCPIStack / GetSIMDCPIStack: the resulting map (observed by lookups). *)
Theorem map_iteration_irrelevant_GetCPIStack : forall (conv : N -> N) (total : N) (entries entries' : list (string * N)),
  NoDup (map fst entries) -> Permutation entries entries' ->
  forall k, alookup String.eqb k (build_stack conv "total"%string total entries) =
            alookup String.eqb k (build_stack conv "total"%string total entries').
Proof. intros. apply map_build_order_irrelevant; auto. apply String.eqb_eq. Qed.
Print Assumptions map_iteration_irrelevant_GetCPIStack.

(** reportCPIStackEntries: keys are sorted before rows are written. *)
Theorem map_iteration_irrelevant_sorted_keys : forall (A : Type) (le : A -> A -> Prop),
  (forall a b, le a b -> le b a -> a = b) ->
  forall l1 l2, StronglySorted le l1 -> StronglySorted le l2 -> Permutation l1 l2 -> l1 = l2.
Proof. exact sorted_perm_unique. Qed.
Print Assumptions map_iteration_irrelevant_sorted_keys.

(** counters *)
Theorem map_iteration_irrelevant_sum : forall (E : Type) (w : E -> N) l l' s,
  Permutation l l' -> sum_loop w l s = sum_loop w l' s.
Proof. exact sum_order_irrelevant. Qed.
Print Assumptions map_iteration_irrelevant_sum.

(** * (iii) hand-off time *)

(** Full-strength statement (what C05 needs): the pick-up time does not depend
    on how many loop iterations the host schedule lets the engine run. *)
Definition handoff_time_deterministic : Prop :=
  forall ntt tbl s k1 k2, pickup_time ntt k1 tbl s = pickup_time ntt k2 tbl s.

(** It is false: pause before / after two trailing events. *)
Theorem handoff_time_refuted : exists ntt tbl s k1 k2,
  pickup_time ntt k1 tbl s <> pickup_time ntt k2 tbl s.
Proof. exists 0%N, [], trailing_witness, 0%nat, 2%nat. vm_compute. discriminate. Qed.
Print Assumptions handoff_time_refuted.

Theorem handoff_time_not_deterministic : ~ handoff_time_deterministic.
Proof.
  intros H. destruct handoff_time_refuted as (ntt & tbl & s & k1 & k2 & Hne). apply Hne, H.
Qed.
Print Assumptions handoff_time_not_deterministic.

(** It holds when the engine has drained before the signal arrives (which is
    what a single host thread, GOMAXPROCS=1, produces). *)
Theorem handoff_time_partial : forall ntt tbl s k1 k2,
  drained k1 tbl s = true -> drained k2 tbl s = true ->
  pickup_time ntt k1 tbl s = pickup_time ntt k2 tbl s.
Proof.
  intros ntt tbl s k1 k2 H1 H2. unfold pickup_time, pause_at.
  now rewrite (run_all_drained_eq k1 k2 tbl s H1 H2).
Qed.
Print Assumptions handoff_time_partial.

(** * Non-vacuity *)

(** a non-trivial schedule: mixed primary/secondary, ties, handled order *)
Example order_example :
  order [KSched 3 false; KSched 1 true; KSched 1 false; KSched 3 true; KStep; KStep; KSched 2 false; KStep; KStep; KStep]
  = [2; 1; 4; 0; 3]%nat.
Proof. vm_compute. reflexivity. Qed.

(** the hypotheses of the device lemma are satisfiable and the lookup finds a device *)
Example device_example :
  device_id_by_paddr 5000 (layout [(1, 4096); (2, 4096); (3, 0)] 0) = Some 2%N /\
  device_id_by_paddr 5000 (rev (layout [(1, 4096); (2, 4096); (3, 0)] 0)) = Some 2%N.
Proof. vm_compute. split; reflexivity. Qed.

Example drained_example : drained 2 [] trailing_witness = true /\ drained 5 [] trailing_witness = true /\
  pickup_time 0 2 [] trailing_witness = 3%N.
Proof. vm_compute. repeat split; reflexivity. Qed.

Example sites_nonempty : (10 <= List.length sites)%nat /\ (3 <= count_class is_proved sites classes)%nat.
Proof. vm_compute. split; repeat constructor. Qed.
