(** C01 — simulated kernels compute what the host reference computes (PARTIAL).

    No theorem here carries the end-to-end claim (it depends on ~50 kLoC of Go
    and 131 compiled kernels; that part is validated by running the real
    workloads over a configuration matrix, see tools/checks/c01.py).  What is
    proved is the glue named by the property's anchors:

    1. VSys.KernArg   — amd/driver/kernel.go: argument marshalling, LDS-pointer
                        patching, dispatch-packet fields and byte layout;
    2. VSys.EmuLoop   — amd/emu/computeunit.go runWG: the barrier loop of the
                        functional emulator over an abstract instruction step.

    Statements only; proofs are [exact]/[apply] into the *Proofs files. *)
From Coq Require Import List NArith Lia.
From VSys Require Import KernArg KernArgProofs EmuLoop EmuLoopProofs EmuToy.
Import ListNotations.
Open Scope N_scope.

(** ** 1. kernel arguments *)

(** For every argument struct [fs] (any number and mix of fields), every
    static LDS size, geometry and addresses: the byte stream copied to the
    kernarg buffer has exactly the struct's packed size; field [i] occupies
    exactly the bytes from its sequential offset on; a little-endian load there
    returns the caller's value for a scalar (for a float32 its bit pattern,
    except that a signalling NaN arrives as the quiet NaN with the same
    payload — reflect/encoding-binary convert through float64), and for an LDS
    pointer the running offset static + (sizes requested by the LDS pointers
    before it) (uint32);
    the packet's GroupSegmentSize is static + all requested sizes (uint32) and
    the packet is otherwise the one createAQLPacket builds. *)
Theorem kernarg_layout_exact : forall static fs grid wg dco dk,
  let s := static mod two32 in
  let bs := fst (marshal static fs grid wg dco dk) in
  let p := snd (marshal static fs grid wg dco dk) in
  length bs = struct_size fs /\
  (forall i f, nth_error fs i = Some f ->
     (field_offset fs i + field_size f <= struct_size fs)%nat /\
     firstn (field_size f) (skipn (field_offset fs i) bs) = field_bytes (expected_field s fs i f)) /\
  (forall i w v, nth_error fs i = Some (FInt w v) ->
     read_le bs (field_offset fs i) w = v mod 256 ^ N.of_nat w) /\
  (forall i r, nth_error fs i = Some (FLocal r) ->
     read_le bs (field_offset fs i) 4 = (s + sum_local (firstn i fs)) mod two32) /\
  (forall i v, nth_error fs i = Some (FF32 v) ->
     read_le bs (field_offset fs i) 4 = quiet32 v /\
     (v < two32 -> ((v / 8388608) mod 256 <> 255 \/ v mod 8388608 = 0) -> quiet32 v = v)) /\
  p_group p = (s + sum_local fs) mod two32 /\
  p = create_packet grid wg dco dk (p_group p).
Proof.
  intros static fs grid wg dco dk.
  destruct (marshal_exact static fs grid wg dco dk) as (A & B & C & D & E & F & G).
  repeat split; auto.
  - apply B; auto.
  - apply B; auto.
  - intros. apply quiet32_not_nan; auto.
Qed.
Print Assumptions kernarg_layout_exact.

(** Nothing else changes: the patched struct has the same number of fields,
    the same sizes and offsets, and every field that is not an LDS pointer is
    the caller's field. *)
Theorem kernarg_other_fields_untouched : forall l fs,
  length (fst (patch l fs)) = length fs /\
  (forall i, field_offset (fst (patch l fs)) i = field_offset fs i) /\
  (forall i f, nth_error fs i = Some f -> (forall r, f <> FLocal r) ->
               nth_error (fst (patch l fs)) i = Some f).
Proof.
  intros l fs. split; [apply patch_length|]. split; [intros; apply patch_offset|].
  intros i f; apply patch_preserves.
Qed.
Print Assumptions kernarg_other_fields_untouched.

(** The 64 bytes copied to the packet buffer carry the work-group size, grid
    size, group segment size, code-object and kernarg addresses at the AQL
    offsets 4/6/8, 12/16/20, 28, 32, 40 (what a kernel reads through its
    dispatch pointer), for every packet. *)
Theorem dispatch_packet_layout : forall p,
  length (packet_bytes p) = 64%nat /\
  read_le (packet_bytes p) 4 2 = p_wgx p mod 65536 /\
  read_le (packet_bytes p) 6 2 = p_wgy p mod 65536 /\
  read_le (packet_bytes p) 8 2 = p_wgz p mod 65536 /\
  read_le (packet_bytes p) 12 4 = p_gx p mod two32 /\
  read_le (packet_bytes p) 16 4 = p_gy p mod two32 /\
  read_le (packet_bytes p) 20 4 = p_gz p mod two32 /\
  read_le (packet_bytes p) 28 4 = p_group p mod two32 /\
  read_le (packet_bytes p) 32 8 = p_kobj p mod 2 ^ 64 /\
  read_le (packet_bytes p) 40 8 = p_kernarg p mod 2 ^ 64.
Proof. exact packet_layout. Qed.
Print Assumptions dispatch_packet_layout.

(** ** 2. the emulator's work-group loop (code after the repair "a wavefront
       that already ended counts as arrived at a barrier") *)

(** For every instruction step function, every list of wavefronts and shared
    state: if the work-group has a barrier-phase execution — [n] phases in
    which every wavefront that has not ended, taken in index order, runs (at
    most [m] instructions) to its next barrier or to its end, until all have
    ended — then runWG, given at least [n] loop iterations and [m] instructions
    of fuel per wavefront and phase, terminates normally in exactly that final
    state with every wavefront completed and no barrier flag left set; and
    conversely every normal termination of runWG is such an execution. *)
Theorem emu_loop_refines_wg_semantics :
  forall (W S : Type) (wf_step : W -> S -> W * S * outcome) (ws : list W) (s : S),
  (forall m n rs' s', wg_sem wf_step m n (fresh ws) s rs' s' ->
     forall R F, (n <= R)%nat -> (m <= F)%nat ->
     run_wg wf_step R F ws s = Finished (map emb rs', s') /\ all_ended rs' = true) /\
  (forall R F xs s', run_wg wf_step R F ws s = Finished (xs, s') ->
     exists n rs', (n <= R)%nat /\ wg_sem wf_step F n (fresh ws) s rs' s' /\
                   xs = map emb rs' /\ all_ended rs' = true).
Proof.
  intros W S wf_step ws s. split.
  - intros m n rs' s' H R F HR HF. rewrite run_wg_fresh. split.
    + exact (loop_complete wf_step m n _ s rs' s' H R F HR HF).
    + exact (wg_sem_ended wf_step _ _ _ _ _ _ H).
  - intros R F xs s' H. rewrite run_wg_fresh in H. exact (loop_sound wf_step R F _ s xs s' H).
Qed.
Print Assumptions emu_loop_refines_wg_semantics.

(** What the emulator does otherwise: nothing else.  For every program,
    also one in which wavefronts leave before a barrier others wait at, the
    loop never reaches log.Panic("not all wavefronts at barrier"); its only
    outcomes are the result above or running out of the given fuel. *)
Theorem emu_loop_never_panics :
  forall (W S : Type) (wf_step : W -> S -> W * S * outcome) (ws : list W) (s : S) R F r,
  run_wg wf_step R F ws s <> Panicked r.
Proof.
  intros W S wf_step ws s R F r. rewrite run_wg_fresh. apply loop_never_panics.
Qed.
Print Assumptions emu_loop_never_panics.

(** The reference semantics has at most one result, so the result of the loop
    does not depend on how much spare fuel was given. *)
Theorem wg_semantics_deterministic :
  forall (W S : Type) (wf_step : W -> S -> W * S * outcome) rs s m1 n1 m2 n2 a1 b1 a2 b2,
  wg_sem wf_step m1 n1 rs s a1 b1 -> wg_sem wf_step m2 n2 rs s a2 b2 -> a1 = a2 /\ b1 = b2.
Proof. intros W S wf_step rs s m1 n1 m2 n2 a1 b1 a2 b2. apply wg_sem_det. Qed.
Print Assumptions wg_semantics_deterministic.

(** ** non-vacuity *)

(** the GCN3 argument struct of matrixtranspose (two pointers, one LDS
    pointer asking for 4096 bytes, eight uint32), static LDS size 128 *)
Definition ex_args : kstruct :=
  [FInt 8 4294971392; FInt 8 4295036928; FLocal 4096; FInt 4 16; FInt 4 16; FInt 4 1;
   FF32 1065353216; FF32 4287670992; FLocal 64; FInt 8 0; FInt 8 0].

Example ex_kernarg :
  let bs := fst (marshal 128 ex_args (16, 16, 1) (16, 16, 1) 8192 12288) in
  let p := snd (marshal 128 ex_args (16, 16, 1) (16, 16, 1) 8192 12288) in
  length bs = 60%nat /\ read_le bs 0 8 = 4294971392 /\ read_le bs 16 4 = 128 /\
  read_le bs 20 4 = 16 /\ read_le bs 32 4 = 1065353216 /\ read_le bs 36 4 = 4291865296 /\
  read_le bs 40 4 = 4224 /\ p_group p = 4288 /\
  read_le (packet_bytes p) 28 4 = 4288 /\ read_le (packet_bytes p) 40 8 = 12288.
Proof. vm_compute. repeat split; reflexivity. Qed.

(** two wavefronts, one barrier: wavefront 0 updates cell 0 before wavefront 1
    in each phase *)
Definition ex_prog : tprog :=
  [(4, TAddL 0 7); (8, TBarrier); (4, TAcc 0); (4, TStoreL 1); (4, TEnd)].

Definition ex_s0 : ts := mkTs [0; 0] [] [].
Definition ex_res := Eval vm_compute in run_wg (toy_step ex_prog) 5 50 (init_ws 2) ex_s0.
Definition ex_fin : list (wf tw) * ts :=
  match ex_res with Finished r => r | _ => ([], ex_s0) end.

Lemma ex_run : run_wg (toy_step ex_prog) 5 50 (init_ws 2) ex_s0 = Finished (fst ex_fin, snd ex_fin).
Proof. vm_compute. reflexivity. Qed.

Example ex_loop_finishes :
  t_lds (snd ex_fin) = [29; 29] /\ length (t_trace (snd ex_fin)) = 10%nat /\
  exists n rs', wg_sem (toy_step ex_prog) 50 n (fresh (init_ws 2)) ex_s0 rs' (snd ex_fin) /\
                fst ex_fin = map emb rs'.
Proof.
  split; [vm_compute; reflexivity|]. split; [vm_compute; reflexivity|].
  destruct (proj2 (emu_loop_refines_wg_semantics tw ts (toy_step ex_prog) (init_ws 2) ex_s0)
              5%nat 50%nat _ _ ex_run) as (n & rs' & _ & H & E & _).
  exists n, rs'. split; [exact H|exact E].
Qed.

(** wavefront 0 leaves before the barrier that wavefront 1 waits at: the
    repaired loop releases wavefront 1 and finishes (two phases) *)
Definition ex_bad : tprog :=
  [(4, TSkipWfLt 1 8); (8, TBarrier); (4, TAddL 0 1); (4, TEnd)].
Definition ex_b0 : ts := mkTs [0] [] [].
Definition ex_bres := Eval vm_compute in run_wg (toy_step ex_bad) 5 50 (init_ws 2) ex_b0.
Definition ex_bfin : list (wf tw) * ts :=
  match ex_bres with Finished r => r | _ => ([], ex_b0) end.

Lemma ex_brun : run_wg (toy_step ex_bad) 5 50 (init_ws 2) ex_b0 = Finished (fst ex_bfin, snd ex_bfin).
Proof. vm_compute. reflexivity. Qed.

Example ex_early_exit_finishes :
  length (fst ex_bfin) = 2%nat /\ length (t_trace (snd ex_bfin)) = 7%nat /\
  exists n rs', wg_sem (toy_step ex_bad) 50 n (fresh (init_ws 2)) ex_b0 rs' (snd ex_bfin).
Proof.
  split; [vm_compute; reflexivity|]. split; [vm_compute; reflexivity|].
  destruct (proj2 (emu_loop_refines_wg_semantics tw ts (toy_step ex_bad) (init_ws 2) ex_b0)
              5%nat 50%nat _ _ ex_brun) as (n & rs' & _ & H & _).
  exists n, rs'. exact H.
Qed.
