(** C16 — the address translator forwards every access faithfully, exactly once,
    and routes every response back exactly once.
    Statements only; every proof is a short appeal to VMem.AddrTransProofs.
    [run (init c) evs] ranges over every configuration [c] (page size, width =
    per-cycle width and buffer size, number of memory / translation providers,
    device) and every finite sequence of environment events: deliveries on the
    four ports (accepted or refused by the bounded buffers), ticks, retrievals
    from the four ports.  Nothing is assumed about the environment except what
    is written as an explicit premise of the theorem concerned.
    Ghost logs read by the statements (never by the transition function):
    [g_deliv] top requests whose Deliver was accepted; [g_seen] requests taken
    out of the top port (accepted by translate / dropped by a restart);
    [g_treq] lookups sent; [g_trdel] lookup replies delivered; [g_fwd] forwards
    (request, lookup, reply used, bottom request); [g_disc]/[g_idisc] waiting
    requests / in-flight pairs discarded by a flush; [g_ans] answers. *)
From Coq Require Import Permutation.
From VLib Require Import Akita ListX.
From VMem Require Import AddrTrans AddrTransProofs AddrTransLive AddrTransSleep.
Open Scope N_scope.

(** Accounting.  The requests taken by the translator are, as a multiset, exactly:
    those forwarded (one [g_fwd] entry each) + those discarded by a flush while
    waiting + those still waiting in a transaction.  Nothing is invented, nothing
    is lost, nothing is in two places.  Everything ever pushed to the bottom port
    is the bottom request of exactly one [g_fwd] entry, with a fresh ID.  Hence
    with distinct requester IDs no request is forwarded twice. *)
Theorem at_forward_exactly_once : forall c evs,
  let s := run (init c) evs in
  Permutation (accepted (g_seen s)) (map f_top (g_fwd s) ++ g_disc s ++ waiting (txs s)) /\
  map fst (g_seen s) ++ top_in s = g_deliv s /\
  g_bretr s ++ bot_out s = map f_bot (g_fwd s) /\
  NoDup (map bid_f (g_fwd s)) /\
  (NoDup (map m_id (g_deliv s)) ->
     NoDup (map m_id (map f_top (g_fwd s) ++ g_disc s ++ waiting (txs s)))).
Proof.
  intros c evs s. pose proof (run_inv evs _ (init_inv c)) as H. fold s in H.
  pose proof (owed_ids_nodup s H) as Ho. inv_split H. repeat split; auto.
Qed.
Print Assumptions at_forward_exactly_once.

(** Physical address and copied fields.  If the translation service answers
    each lookup with the page its table [oracle] holds for (PID, page), then every
    bottom request is the translation of its top request under [oracle]:
    address = (PAddr + addr mod 2^log2PageSize) mod 2^64, kind/size/data/mask/
    Info/CanWaitForCoalesce copied, PID 0, destination chosen by physical page. *)
Theorem at_paddr_correct : forall c evs oracle f,
  let s := run (init c) evs in
  env_ok oracle s -> In f (g_fwd s) ->
  is_req (f_top f) = true /\
  f_bot f = xlate c (m_id (f_bot f))
                  (oracle (m_pid (f_top f)) (page_of (log2ps c) (m_addr (f_top f)))) (f_top f).
Proof.
  intros c evs oracle f s Henv Hin.
  pose proof (fwd_paddr s oracle f (run_inv evs _ (init_inv c)) Henv Hin) as H.
  pose proof (run_cfg evs (init c)) as Hc. fold s in Hc. cbn in Hc. rewrite Hc in H. exact H.
Qed.
Print Assumptions at_paddr_correct.

Theorem at_xlate_fields : forall c id p r,
  is_req r = true ->
  let b := xlate c id p r in
  m_id b = id /\ m_kind b = m_kind r /\ m_src b = P_BOT /\
  m_addr b = (p + m_addr r mod 2 ^ log2ps c) mod 2 ^ 64 /\ m_dst b = mem_dst c (m_addr b) /\
  m_pid b = 0 /\ m_rspto b = m_rspto r /\ m_flags b = N.land (m_flags r) F_CANWAIT /\
  (m_kind r = KRead -> m_size b = m_size r) /\
  (m_kind r = KWrite -> m_data b = m_data r /\ m_mask b = m_mask r).
Proof. exact xlate_fields. Qed.
Print Assumptions at_xlate_fields.

Theorem at_paddr_nowrap : forall c p a,
  p + 2 ^ log2ps c <= 2 ^ 64 -> xaddr c p a = p + a mod 2 ^ log2ps c.
Proof. exact xaddr_nowrap. Qed.
Print Assumptions at_paddr_nowrap.

(** Coalescing.  Lookup IDs are distinct; every lookup was issued for an accepted
    request of its own page and PID (with the configured device ID); every
    request waiting on or forwarded by means of a lookup has that lookup's page
    and PID.  So two requests share a lookup only if same page and same PID. *)
Theorem at_coalesce_sound : forall c evs,
  let s := run (init c) evs in
  NoDup (map q_id (g_treq s)) /\ g_qretr s ++ tr_out s = g_treq s /\
  Forall (treq_ok c (accepted (g_seen s))) (g_treq s) /\
  Forall (fun t => In (t_q t) (g_treq s) /\ Forall (req_ok (log2ps c) (t_q t)) (t_reqs t)) (txs s) /\
  (forall f, In f (g_fwd s) -> In (f_q f) (g_treq s) /\ req_ok (log2ps c) (f_q f) (f_top f)) /\
  (forall f1 f2, In f1 (g_fwd s) -> In f2 (g_fwd s) -> q_id (f_q f1) = q_id (f_q f2) ->
     page_of (log2ps c) (m_addr (f_top f1)) = page_of (log2ps c) (m_addr (f_top f2)) /\
     m_pid (f_top f1) = m_pid (f_top f2)).
Proof.
  intros c evs s. pose proof (run_inv evs _ (init_inv c)) as H. fold s in H.
  pose proof (fwd_share s) as Hsh. pose proof (run_cfg evs (init c)) as Hc. fold s in Hc.
  cbn in Hc. rewrite Hc in Hsh. pose proof H as H0. inv_split H0. rewrite Hc in *.
  rewrite Forall_forall in Htxs, Hfwd.
  split; [|split; [|split; [|split; [|split]]]]; auto.
  - apply Forall_forall. intros t Ht. split.
    + apply Htxq. now apply in_map.
    + apply (Htxs t Ht).
  - intros f Hf. split; [apply Hfwq; now apply in_map|apply (Hfwd f Hf)].
Qed.
Print Assumptions at_coalesce_sound.

(** Responses.  Everything ever pushed to the top port is the answer of one
    [g_ans] entry; the (top request, bottom request) pairs of the forwards are,
    as a multiset, those answered + those discarded by a flush + those in flight;
    each response is built from a bottom response addressed to the bottom request
    of a forward of a delivered request, carries that request's ID and source and
    the returned data; with distinct requester IDs no request is answered twice. *)
Theorem at_rsp_routed_once : forall c evs,
  let s := run (init c) evs in
  g_tretr s ++ top_out s = map a_out (g_ans s) /\
  Permutation (map pair_f (g_fwd s)) (map pair_a (g_ans s) ++ g_idisc s ++ inflight s) /\
  (forall o, In o (g_tretr s ++ top_out s) ->
     exists a f, In a (g_ans s) /\ In f (g_fwd s) /\ a_top a = f_top f /\ a_bot a = f_bot f /\
                 o = answer (f_top f) (a_brsp a) /\ m_rspto (a_brsp a) = m_id (f_bot f) /\
                 is_rsp (a_brsp a) = true /\ In (f_top f) (g_deliv s)) /\
  (NoDup (map m_id (g_deliv s)) -> NoDup (map m_rspto (g_tretr s ++ top_out s))).
Proof.
  intros c evs s. pose proof (run_inv evs _ (init_inv c)) as H. fold s in H.
  pose proof (rsp_origin s) as Ho. pose proof (rsp_once s H) as Hn.
  pose proof H as H0. inv_split H0. repeat split; auto.
Qed.
Print Assumptions at_rsp_routed_once.

Theorem at_answer_fields : forall r x,
  m_rspto (answer r x) = m_id r /\ m_dst (answer r x) = m_src r /\ m_src (answer r x) = P_TOP /\
  (is_rsp x = true -> m_kind (answer r x) = m_kind x) /\
  (m_kind x = KDataReady -> m_data (answer r x) = m_data x).
Proof.
  intros r x. repeat split;
    auto using answer_rspto, answer_dst, answer_src, answer_kind, answer_data.
Qed.
Print Assumptions at_answer_fields.

(** Flush.  Taking a discard request empties both tables into the discard logs
    and touches neither port; the logs only grow; a request discarded while
    waiting is never forwarded nor answered, a forwarded request whose in-flight
    entry was discarded is never answered, at any later time. *)
Theorem at_flush_step : forall s c rest,
  ctl_in s = c :: rest -> m_kind c = KCtrl -> has_flag c F_DISCARD = true -> ctl_out s = [] ->
  let s' := fst (handle_ctrl s) in
  txs s' = [] /\ inflight s' = [] /\ flushing s' = true /\
  g_disc s' = g_disc s ++ waiting (txs s) /\ g_idisc s' = g_idisc s ++ inflight s /\
  ctl_out s' = [ctl_ack c] /\ g_fwd s' = g_fwd s /\ g_ans s' = g_ans s /\
  bot_out s' = bot_out s /\ top_out s' = top_out s.
Proof. exact discard_effect. Qed.
Print Assumptions at_flush_step.

Theorem at_flush_discards : forall c evs1 evs2,
  let s1 := run (init c) evs1 in
  let s2 := run s1 evs2 in
  NoDup (map m_id (g_deliv s2)) ->
  (flushing s2 = true -> txs s2 = [] /\ inflight s2 = []) /\
  (forall r, In r (g_disc s1) ->
     In r (g_disc s2) /\ ~ In (m_id r) (map m_id (map f_top (g_fwd s2))) /\
     ~ In (m_id r) (map m_rspto (g_tretr s2 ++ top_out s2))) /\
  (forall p, In p (g_idisc s1) ->
     In p (g_idisc s2) /\ ~ In (m_id (fst p)) (map m_rspto (g_tretr s2 ++ top_out s2))).
Proof.
  intros c evs1 evs2 s1 s2 Hn.
  assert (H2 : Inv s2) by (subst s2 s1; rewrite <- run_app; apply run_inv, init_inv).
  destruct (run_grows evs2 s1) as (G1 & G2 & _). fold s2 in G1, G2.
  split; [pose proof H2 as H3; inv_split H3; auto|]. split.
  - intros r Hr. pose proof (ext_In _ _ _ G1 Hr) as Hr2.
    split; auto. now apply discarded_never_forwarded.
  - intros p Hp. pose proof (ext_In _ _ _ G2 Hp) as Hp2.
    split; auto. now apply discarded_never_answered.
Qed.
Print Assumptions at_flush_discards.

(** While the translator is flushing (between the discard and the restart)
    a tick without control traffic forwards nothing and answers nothing. *)
Theorem at_flushing_inert : forall c evs,
  let s := run (init c) evs in
  flushing s = true -> ctl_in s = [] ->
  let s' := fst (tick s) in
  g_fwd s' = g_fwd s /\ g_ans s' = g_ans s /\ bot_out s' = bot_out s /\ top_out s' = top_out s /\
  txs s' = [] /\ inflight s' = [] /\ flushing s' = true.
Proof. intros c evs s. exact (flushing_inert s (run_inv evs _ (init_inv c))). Qed.
Print Assumptions at_flushing_inert.

(** No silent loss.  A completed lookup with a waiting request sends that request
    down in the very next tick when the bottom port has room (and no memory
    response is queued in front of it); a memory response for an in-flight request
    is answered in the very next tick when the top port has room. *)
Theorem at_progress_forward : forall s a t b r rs rsp,
  crashed s = false -> flushing s = false -> bot_in s = [] -> (1 <= width (cfg s))%nat ->
  split_first drainable (txs s) = Some (a, t, b) ->
  t_reqs t = r :: rs -> t_rsp t = Some rsp -> is_req r = true ->
  room (width (cfg s)) (bot_out s) = true ->
  ext (g_fwd s ++ [mkFwd r (t_q t) rsp (xlate (cfg s) (next_bid s) (r_paddr rsp) r)])
      (g_fwd (fst (tick s))).
Proof. exact forward_progress. Qed.
Print Assumptions at_progress_forward.

Theorem at_progress_respond : forall s x rest a p b,
  crashed s = false -> flushing s = false -> (1 <= width (cfg s))%nat ->
  bot_in s = x :: rest -> is_rsp x = true ->
  split_first (fun p => m_id (snd p) =? m_rspto x) (inflight s) = Some (a, p, b) ->
  room (width (cfg s)) (top_out s) = true ->
  ext (g_ans s ++ [mkAns (fst p) (snd p) x (answer (fst p) x)]) (g_ans (fst (tick s))).
Proof. exact respond_progress. Qed.
Print Assumptions at_progress_respond.

(** At most one open lookup per (page, PID): the (page, PID) keys of the
    transactions whose reply has not been taken are pairwise distinct, and so are
    the lookup IDs of all transactions (DESIGN Appendix A.2 (5)). *)
Theorem at_one_open_lookup : forall c evs,
  let s := run (init c) evs in
  NoDup (okeys (txs s)) /\ NoDup (map tid (txs s)).
Proof.
  intros c evs s. pose proof (run_inv evs _ (init_inv c)) as H. fold s in H.
  inv_split H. auto.
Qed.
Print Assumptions at_one_open_lookup.

(** Liveness, end to end.  [polite_run]: the environment respects the protocol —
    requests on Top, responses on Bottom only for bottom requests it has retrieved,
    translation replies only for lookups it has retrieved, control messages are
    discards, or restarts delivered while the translator is flushing.  From any
    state reached that way which is not flushing and has no control message pending,
    the fair environment [fair_evs] (empty the outgoing ports, answer an unanswered
    lookup, answer an unanswered memory request, else tick; no new request) needs at
    most [rank s] actions — [rank] weighs every message by the stages it still has
    to pass, each action strictly decreases it ([fair_next_lt]) — after which both
    tables and all data ports are empty, every request that was accepted or waiting
    in the top port has been accepted, and every accepted request has been answered
    with the answer retrieved by the requester, unless a flush before [s] discarded it. *)
Theorem at_every_request_answered : forall c evs oracle,
  polite_run (init c) evs ->
  let s := run (init c) evs in
  flushing s = false -> ctl_in s = [] -> (1 <= width c)%nat ->
  let tail := fair_evs oracle (rank s) s in
  let s' := run s tail in
  (length tail <= rank s)%nat /\ polite_run s tail /\
  top_in s' = [] /\ txs s' = [] /\ inflight s' = [] /\ top_out s' = [] /\ bot_out s' = [] /\
  (forall r, In r (accepted (g_seen s) ++ top_in s) -> In r (accepted (g_seen s'))) /\
  (forall r, In r (accepted (g_seen s')) ->
     In r (g_disc s) \/ (exists b, In (r, b) (g_idisc s)) \/
     (exists a, In a (g_ans s') /\ a_top a = r /\ In (a_out a) (g_tretr s'))).
Proof.
  intros c evs oracle Hp s Hf Hctl Hw.
  pose proof (run_inv evs _ (init_inv c)) as H.
  pose proof (run_live evs _ (init_inv c) (init_live c) Hp) as L. fold s in H, L.
  apply every_request_answered; auto.
  pose proof (run_cfg evs (init c)) as Hc. fold s in Hc. cbn in Hc. now rewrite Hc.
Qed.
Print Assumptions at_every_request_answered.

(** The ranking function: every action of the fair environment strictly decreases
    it while it is positive, and no fair action in any order ever increases it. *)
Theorem at_rank_decreases : forall c evs oracle,
  polite_run (init c) evs ->
  let s := run (init c) evs in
  flushing s = false -> (1 <= width c)%nat -> (0 < rank s)%nat ->
  (rank (fst (step s (fair_next oracle s))) < rank s)%nat.
Proof.
  intros c evs oracle Hp s Hf Hw Hpos.
  pose proof (run_inv evs _ (init_inv c)) as H.
  pose proof (run_live evs _ (init_inv c) (init_live c) Hp) as L. fold s in H, L.
  apply fair_next_lt; auto.
  pose proof (run_cfg evs (init c)) as Hc. fold s in Hc. cbn in Hc. now rewrite Hc.
Qed.
Print Assumptions at_rank_decreases.

Theorem at_rank_never_increases : forall s e,
  fair_action s e -> (rank (fst (step s e)) <= rank s)%nat.
Proof. exact rank_monotone. Qed.
Print Assumptions at_rank_never_increases.

(** The guard "restart only while flushing" is exact.  [polite_weak] allows a
    restart at any time and is otherwise [polite].  Witness (width 1): answer 1 sits
    unretrieved in the top port, so the memory response for request 2 waits in the
    bottom port; a restart without a preceding discard drops it but keeps the
    in-flight table.  The environment has answered every lookup and every memory
    request exactly once, the fair drain reaches rank 0, and request 2 is never
    answered (its in-flight entry stays for ever). *)
Definition stuck_witness : list ev :=
  [EDeliverTop (mkMsg 1 KRead 10 P_TOP 1 4100 4 1 [] [] 0); ETick; ERetrTr;
   EDeliverTr (mkTrsp 2000000 8192); ETick; ERetrBot;
   EDeliverBot (mkMsg 0 KDataReady P_MEM0 P_BOT 1000000 0 0 0 [1] [] 0); ETick;
   EDeliverTop (mkMsg 2 KRead 10 P_TOP 2 4104 4 1 [] [] 0); ETick; ERetrTr;
   EDeliverTr (mkTrsp 2000001 8192); ETick; ERetrBot;
   EDeliverBot (mkMsg 0 KDataReady P_MEM0 P_BOT 1000001 0 0 0 [2] [] 0);
   EDeliverCtl (mkMsg 9 KCtrl 20 P_CTL 0 0 0 0 [] [] F_RESTART); ETick; ERetrCtl].

Theorem at_restart_without_discard_refuted :
  exists c evs oracle,
    polite_weak_run (init c) evs /\
    let s := run (init c) evs in
    flushing s = false /\ ctl_in s = [] /\ (1 <= width c)%nat /\
    rank (run s (fair_evs oracle (rank s) s)) = 0%nat /\
    inflight (run s (fair_evs oracle (rank s) s)) <> [] /\
    ~ drained_and_answered oracle s.
Proof.
  exists (mkCfg 12 1%nat 1 1 1), stuck_witness, (fun _ _ => 8192).
  split.
  { vm_compute. repeat split; auto. }
  vm_compute. repeat split; try reflexivity; try discriminate; try lia.
  intros Hd.
  specialize (Hd (mkMsg 2 KRead 10 1 2 4104 4 1 [] [] 0) (or_intror (or_introl eq_refl))).
  destruct Hd as [[]|[(b & [])|(a & [Ha|[]] & Et & _)]].
  subst a. discriminate.
Qed.
Print Assumptions at_restart_without_discard_refuted.

(** Sleep safety.  The event engine stops ticking a component whose Tick reports no
    progress.  For every state (reachable or not): the state left by a tick that
    reported no progress (and did not panic) is a fixpoint of [tick] — another tick
    changes nothing and reports no progress — and differs from the state before at
    most in the transaction table ([only_txs]: the done-mark set by parseTranslation
    before a refused send).  So nothing is left behind a sleeping translator: only a
    delivery or a retrieval (both wake the component) can enable further work. *)
Theorem at_sleep_fixpoint : forall s,
  snd (tick s) = false -> crashed (fst (tick s)) = false ->
  tick (fst (tick s)) = (fst (tick s), false) /\ only_txs s (fst (tick s)).
Proof. exact tick_sleep_fix. Qed.
Print Assumptions at_sleep_fixpoint.

Theorem at_no_progress_stays : forall s,
  snd (tick s) = false -> crashed (fst (tick s)) = false ->
  snd (tick (fst (tick s))) = false /\ fst (tick (fst (tick s))) = fst (tick s).
Proof. exact no_progress_stays. Qed.
Print Assumptions at_no_progress_stays.

(** The full-strength statement "no progress implies nothing changed" is false of the
    code: a translation reply whose forward is refused by the full bottom port marks
    its transaction done (addresstranslator.go:210-211) and the tick reports false. *)
Theorem at_tick_state_preserving_refuted :
  exists c evs, let s := run (init c) evs in
    snd (tick s) = false /\ crashed (fst (tick s)) = false /\ fst (tick s) <> s /\
    map is_done (txs s) = [false] /\ map is_done (txs (fst (tick s))) = [true].
Proof. exact tick_state_preserving_refuted. Qed.
Print Assumptions at_tick_state_preserving_refuted.

(** Back-pressure: the outgoing buffers never exceed their capacity. *)
Theorem at_capacity : forall c evs,
  let s := run (init c) evs in
  (length (top_out s) <= width c)%nat /\ (length (bot_out s) <= width c)%nat /\
  (length (tr_out s) <= width c)%nat /\ (length (ctl_out s) <= 1)%nat.
Proof.
  intros c evs s. pose proof (run_inv evs _ (init_inv c)) as H. fold s in H.
  pose proof (run_cfg evs (init c)) as Hc. fold s in Hc. cbn in Hc.
  inv_split H. rewrite Hc in *. auto.
Qed.
Print Assumptions at_capacity.

(** No Go panic (index out of range, "translation not found", "req to bottom not
    found", failed type assertions, panic("never")) is reachable as long as the
    top port only receives read/write requests, the bottom port only data-ready /
    write-done responses and the control port only discard / restart messages. *)
Theorem at_no_panic : forall c evs,
  forallb benign evs = true -> crashed (run (init c) evs) = false.
Proof.
  intros c evs Hb. apply (run_safe evs (init c) (init_inv c) (init_safe c) Hb).
Qed.
Print Assumptions at_no_panic.

(** Non-vacuity: two processes touch the same virtual page (different lookups,
    different physical pages), a third request coalesces with the first; the
    reply of the first lookup arrives while the bottom port (width 1) is full;
    memory answers out of order; then a flush discards a waiting request. *)
Definition cfg0 : config := mkCfg 12 1%nat 2 1 1.
Definition rd (id a pid : N) : msg := mkMsg id KRead 10 P_TOP id a 4 pid [] [] 0.
Definition wr (id a pid : N) : msg := mkMsg id KWrite 11 P_TOP id a 0 pid [7; 8] [true; false] F_CANWAIT.
Definition dr (to : N) (d : list N) : msg := mkMsg 0 KDataReady P_MEM0 P_BOT to 0 0 0 d [] 0.
Definition wd (to : N) : msg := mkMsg 0 KWriteDone P_MEM0 P_BOT to 0 0 0 [] [] 0.
Definition table (pid vpage : N) : N := (vpage / 4096 * 7 + pid * 1000 + 13) * 4096.
Definition demo : list ev :=
  [EDeliverTop (rd 1 4100 1); ETick; ERetrTr;          (* lookup 2000000: page 4096, PID 1 *)
   EDeliverTop (rd 2 4104 2); ETick; ERetrTr;          (* lookup 2000001: page 4096, PID 2 *)
   EDeliverTop (wr 3 4160 1); ETick;                   (* coalesced with lookup 2000000 *)
   EDeliverTr (mkTrsp 2000001 (table 2 4096)); ETick;  (* request 2 goes down, port now full *)
   EDeliverTr (mkTrsp 2000000 (table 1 4096)); ETick;  (* reply taken, send refused *)
   ERetrBot; ETick; ERetrBot; ETick; ERetrBot;         (* requests 1 and 3 follow *)
   EDeliverBot (wd 1000002); ETick; ERetrTop;
   EDeliverBot (dr 1000000 [2; 2; 2; 2]); ETick; ERetrTop;
   EDeliverTop (rd 4 8192 1); ETick;
   EDeliverCtl (mkMsg 9 KCtrl 20 P_CTL 0 0 0 0 [] [] F_DISCARD); ETick].

Example demo_run :
  let s := run (init cfg0) demo in
  map (fun f => (m_id (f_top f), q_id (f_q f), m_addr (f_bot f))) (g_fwd s) =
    [(2, 2000001, table 2 4096 + 8); (1, 2000000, table 1 4096 + 4); (3, 2000000, table 1 4096 + 64)] /\
  map m_rspto (g_tretr s) = [3; 2] /\ map m_data (g_tretr s) = [[]; [2; 2; 2; 2]] /\
  map m_id (g_disc s) = [4] /\ map (fun p => m_id (fst p)) (g_idisc s) = [1] /\
  txs s = [] /\ flushing s = true /\ crashed s = false /\
  env_ok table s /\ NoDup (map m_id (g_deliv s)) /\ forallb benign demo = true.
Proof.
  vm_compute. repeat split; try reflexivity.
  - intros rsp q [<-|[<-|[]]] [<-|[<-|[<-|[]]]]; vm_compute; intros E;
      first [reflexivity | discriminate].
  - repeat constructor; cbn; intuition discriminate.
Qed.

(** Non-vacuity of the liveness statements: the demo history is polite; cut before
    the discard it leaves request 1 in flight and request 4 waiting for its lookup;
    the fair environment then needs 9 actions (rank 11) and all four requests are
    answered. *)
Definition demo_live : list ev := firstn (length demo - 2) demo.
Example demo_drain :
  polite_run (init cfg0) demo /\
  let s := run (init cfg0) demo_live in
  flushing s = false /\ ctl_in s = [] /\ rank s = 11%nat /\
  length (fair_evs table (rank s) s) = 9%nat /\
  map m_rspto (g_tretr (run s (fair_evs table (rank s) s))) = [3; 2; 1; 4].
Proof. vm_compute. repeat split; auto. Qed.
