(** C07 — architectural registers are independent cells with ISA-defined
    aliasing.  Statements only; proofs are [exact <lemma>] into VIsa.RegProofs.

    Specification (VIsa.RegSpec): one flat array of cells per wavefront —
    s0..s101 and v0..v255 of each of the 64 lanes are dword cells, VCC and EXEC
    two dword cells each, M0 a dword cell, SCC a byte cell; an operand
    (register, RegCount) designates the list [cells_of] of cells.
    Implementations (VIsa.RegModel): [emu_run] transcribes emu/wavefront.go,
    [timing_run] transcribes timing/wavefront/wavefront.go +
    timing/cu/regfileaccessor.go + registerfile.go over register files shared
    by all co-resident wavefronts.  Histories [h] are arbitrary finite lists of
    accesses (wavefront, API function, register, RegCount, lane). *)
From Coq Require Import NArith List Bool.
From VIsa Require Import RegSpec RegModel RegProofs RegProofs2 RegProofs3.
Import ListNotations.
Open Scope N_scope.

(** ** the cell array: read-back, independence, aliasing *)

(** a value written to an operand is read back unchanged at the same width *)
Theorem cells_write_read_back : forall cs w r cnt lane data,
  length data = op_bytes r cnt lane -> bytes_ok data ->
  snd (spec_run cs [mkAcc w (AWrite data) r cnt lane; mkAcc w (ARead (lenN data)) r cnt lane]) = [ODone; OBytes data].
Proof. exact spec_write_then_read. Qed.
Print Assumptions cells_write_read_back.

(** a write changes no cell outside the operand, no other lane, no other wavefront *)
Theorem cells_write_changes_nothing_else : forall cs w r cnt lane data w' id,
  w' <> w \/ ~ In id (cells_of r cnt lane) ->
  fst (spec_step cs (mkAcc w (AWrite data) r cnt lane)) w' id = cs w' id.
Proof. exact spec_write_changes_nothing_else. Qed.
Print Assumptions cells_write_changes_nothing_else.

(** a multi-register operand aliases exactly its constituent registers (of the
    addressed lane); the 64-bit pairs alias exactly their two halves *)
Theorem cells_alias_exactly : forall i cnt lane,
  (forall j, In (CS j) (cells_of (RS i) cnt lane) <-> i <= j < i + width cnt) /\
  (forall l j, In (CV l j) (cells_of (RV i) cnt lane) <-> l = lane /\ i <= j < i + width cnt) /\
  cells_of RVcc cnt lane = [CVccLo; CVccHi] /\ cells_of RVccLo 2 lane = [CVccLo; CVccHi] /\
  cells_of RExec cnt lane = [CExecLo; CExecHi] /\ cells_of RExecLo 2 lane = [CExecLo; CExecHi] /\
  cells_of RVccLo 0 lane = [CVccLo] /\ cells_of RVccHi 0 lane = [CVccHi] /\
  cells_of RExecLo 0 lane = [CExecLo] /\ cells_of RExecHi 0 lane = [CExecHi] /\
  NoDup (cells_of (RS i) cnt lane) /\ NoDup (cells_of (RV i) cnt lane).
Proof.
  intros. split; [intros; apply in_cells_S|]. split; [intros; apply in_cells_V|].
  repeat split; auto using cells_of_nodup.
Qed.
Print Assumptions cells_alias_exactly.

(** ** emulation mode *)

(** every history of well-formed accesses on the emulator's wavefronts gives
    exactly the answers of the cell array, and the final states are related
    again (so the statement composes over any continuation) *)
Theorem emu_regs_refine_cells : forall h ws cs,
  emu_world_R ws cs -> Forall (wf_acc (fun _ => 102) (fun _ => 256)) h ->
  snd (emu_run ws h) = snd (spec_run cs h) /\ emu_world_R (fst (emu_run ws h)) (fst (spec_run cs h)).
Proof. exact emu_run_ok. Qed.
Print Assumptions emu_regs_refine_cells.

(** the abstraction function: every emulator state whose fields are in the
    range of their Go types is related to the cells it encodes *)
Theorem emu_abstraction : forall ws, (forall w, emu_ok (ws w)) -> emu_world_R ws (fun w => emu_abs (ws w)).
Proof. intros ws H w. apply emu_abs_R, H. Qed.
Print Assumptions emu_abstraction.

(** in particular no well-formed access panics *)
Theorem emu_never_panics : forall h ws cs,
  emu_world_R ws cs -> Forall (wf_acc (fun _ => 102) (fun _ => 256)) h -> ~ In OPanic (snd (emu_run ws h)).
Proof. intros h ws cs R H. rewrite (proj1 (emu_run_ok h ws cs R H)). apply spec_run_no_panic. Qed.
Print Assumptions emu_never_panics.

(** ** timing mode: co-resident wavefronts 0..nw-1 at disjoint offsets of shared files *)

Theorem timing_regs_refine_cells : forall h st nw cs,
  timing_R st nw cs -> Forall (twf (t_waves st) nw) h ->
  snd (timing_run st h) = snd (spec_run cs h) /\ timing_R (fst (timing_run st h)) nw (fst (spec_run cs h)).
Proof. exact timing_run_ok. Qed.
Print Assumptions timing_regs_refine_cells.

Theorem timing_abstraction : forall st nw, timing_ok st nw -> timing_R st nw (timing_abs st).
Proof. exact timing_abs_R. Qed.
Print Assumptions timing_abstraction.

Theorem timing_never_panics : forall h st nw cs,
  timing_R st nw cs -> Forall (twf (t_waves st) nw) h -> ~ In OPanic (snd (timing_run st h)).
Proof. intros h st nw cs R H. rewrite (proj1 (timing_run_ok h st nw cs R H)). apply spec_run_no_panic. Qed.
Print Assumptions timing_never_panics.

(** ** both modes give identical answers for every access of every history *)
Theorem emu_timing_regs_agree : forall h ws st nw cs,
  emu_world_R ws cs -> timing_R st nw cs -> (forall w, w < nw -> nsgpr (t_waves st w) <= 102) ->
  Forall (twf (t_waves st) nw) h ->
  snd (emu_run ws h) = snd (timing_run st h).
Proof. exact emu_timing_agree. Qed.
Print Assumptions emu_timing_regs_agree.

(** ** register release at wavefront end (SchedulerImpl.resetRegisterValue) *)

(** byte level: the release zeroes exactly the bytes of the released wavefront's
    allocation (scalar range; vector range in all 64 lanes of its SIMD file) and
    changes no other byte of any file, no special register, no layout field —
    for every layout satisfying [layout_ok], adjacent allocations included *)
Theorem timing_release_zeroes_exactly_own_bytes : forall st nw w, layout_ok st nw -> w < nw ->
  exists st', timing_reset st w = (st', false) /\
    t_sp st' = t_sp st /\ t_waves st' = t_waves st /\ t_bpl st' = t_bpl st /\ t_vlen st' = t_vlen st /\
    t_slen st' = t_slen st /\ t_nsimd st' = t_nsimd st /\
    (forall a, own_s (t_waves st w) a -> t_sreg st' a = 0) /\
    (forall a, ~ own_s (t_waves st w) a -> t_sreg st' a = t_sreg st a) /\
    (forall k a, own_v (t_waves st w) k a -> t_vreg st' k a = 0) /\
    (forall k a, ~ own_v (t_waves st w) k a -> t_vreg st' k a = t_vreg st k a).
Proof. exact timing_reset_char. Qed.
Print Assumptions timing_release_zeroes_exactly_own_bytes.

(** cell level: afterwards the released wavefront's s/v registers read zero, its
    special registers and every cell of every co-resident wavefront are unchanged *)
Theorem timing_release_refines_cells : forall st nw cs w, timing_R st nw cs -> w < nw ->
  exists st', timing_reset st w = (st', false) /\ t_waves st' = t_waves st /\
    timing_R st' nw (wupd cs w (reset_cells (nsgpr (t_waves st w)) (nvgpr (t_waves st w)) (cs w))).
Proof. exact timing_reset_ok. Qed.
Print Assumptions timing_release_refines_cells.

(** all histories of well-formed accesses interleaved with releases *)
Theorem timing_regs_refine_cells_with_release : forall h st nw cs,
  timing_R st nw cs -> Forall (twf_r (t_waves st) nw) h ->
  let ns := fun w => nsgpr (t_waves st w) in let nv := fun w => nvgpr (t_waves st w) in
  snd (timing_run st h) = snd (tspec_run ns nv cs h) /\
  timing_R (fst (timing_run st h)) nw (fst (tspec_run ns nv cs h)) /\
  t_waves (fst (timing_run st h)) = t_waves st.
Proof. exact timing_trun_ok. Qed.
Print Assumptions timing_regs_refine_cells_with_release.

(** ** frame property on storage bytes *)

(** over any such history, a byte of the shared files that is not inside the
    allocation of a wavefront acting in the history keeps its value ... *)
Theorem timing_bytes_of_non_acting_wavefronts_unchanged : forall h st nw cs,
  timing_R st nw cs -> Forall (twf_r (t_waves st) nw) h ->
  (forall b, (forall a, In a h -> ~ own_s (t_waves st (a_w a)) b) -> t_sreg (fst (timing_run st h)) b = t_sreg st b) /\
  (forall k b, (forall a, In a h -> ~ own_v (t_waves st (a_w a)) k b) -> t_vreg (fst (timing_run st h)) k b = t_vreg st k b).
Proof. exact timing_run_bytes. Qed.
Print Assumptions timing_bytes_of_non_acting_wavefronts_unchanged.

(** ... in particular every byte outside all allocations *)
Theorem timing_bytes_outside_allocations_unchanged : forall h st nw cs,
  timing_R st nw cs -> Forall (twf_r (t_waves st) nw) h ->
  (forall b, (forall w, w < nw -> ~ own_s (t_waves st w) b) -> t_sreg (fst (timing_run st h)) b = t_sreg st b) /\
  (forall k b, (forall w, w < nw -> ~ own_v (t_waves st w) k b) -> t_vreg (fst (timing_run st h)) k b = t_vreg st k b).
Proof.
  intros h st nw cs R H. destruct (timing_run_bytes h st nw cs R H) as [A B].
  rewrite Forall_forall in H. split.
  - intros b Hb. apply A. intros a Ha. apply Hb. apply (H a Ha).
  - intros k b Hb. apply B. intros a Ha. apply Hb. apply (H a Ha).
Qed.
Print Assumptions timing_bytes_outside_allocations_unchanged.

(** ** the accessor is a pure view of the register files *)

(** no hidden state: whatever wrote the files (the accessor, a scalar- or
    vector-load reply, the dispatcher, a release), a read returns what the
    wavefront's own bytes and special registers hold NOW — two states that
    agree on them give the same answer.  (The answers of the models are values:
    an answer a caller holds cannot change afterwards, and distinct answers
    cannot alias; the harness checks this of the real slices by comparing every
    answer at the end of the history.) *)
Theorem timing_read_depends_only_on_storage : forall st1 st2 nw w r cnt lane,
  layout_ok st1 nw -> w < nw ->
  t_waves st2 w = t_waves st1 w -> t_slen st2 = t_slen st1 -> t_vlen st2 = t_vlen st1 ->
  t_nsimd st2 = t_nsimd st1 -> t_bpl st2 = t_bpl st1 -> t_sp st2 w = t_sp st1 w ->
  (forall a, own_s (t_waves st1 w) a -> t_sreg st2 a = t_sreg st1 a) ->
  (forall a, own_v (t_waves st1 w) (simd (t_waves st1 w)) a ->
             t_vreg st2 (simd (t_waves st1 w)) a = t_vreg st1 (simd (t_waves st1 w)) a) ->
  wf_operand (nsgpr (t_waves st1 w)) (nvgpr (t_waves st1 w)) r cnt lane = true ->
  timing_read_reg st2 w r cnt lane = timing_read_reg st1 w r cnt lane.
Proof. exact timing_read_only_storage. Qed.
Print Assumptions timing_read_depends_only_on_storage.

(** a read of s/v registers is literally the bytes of the file at the operand's address *)
Theorem timing_read_is_view : forall st w i cnt lane,
  (i * 4 + soff (t_waves st w) + 4 * width cnt <= t_slen st ->
   timing_read_reg st w (RS i) cnt lane = Some (mem_read (t_sreg st) (i * 4 + soff (t_waves st w)) (4 * width cnt))) /\
  (simd (t_waves st w) < t_nsimd st ->
   i * 4 + lane * t_bpl st + voff (t_waves st w) + 4 * width cnt <= t_vlen st ->
   timing_read_reg st w (RV i) cnt lane =
   Some (mem_read (t_vreg st (simd (t_waves st w))) (i * 4 + lane * t_bpl st + voff (t_waves st w)) (4 * width cnt))).
Proof. intros. split; [apply timing_read_is_view_s | apply timing_read_is_view_v]. Qed.
Print Assumptions timing_read_is_view.

(** ** wavefront lifetimes *)

(** emulation: the wavefront object ComputeUnit.initWfs creates (NewWavefront +
    initWfRegs) holds exactly [fresh_cells]: zero everywhere except EXEC and v0 *)
Theorem emu_dispatch_refines_fresh_cells : forall exec0 ids, exec0 < 2 ^ 64 ->
  emu_R (emu_dispatch exec0 ids) (fresh_cells exec0 ids).
Proof. exact emu_dispatch_fresh. Qed.
Print Assumptions emu_dispatch_refines_fresh_cells.

(** timing: release of the previous occupant + WfDispatcherImpl.DispatchWf on a
    new wavefront object at the same offsets gives the same [fresh_cells], and
    every co-resident wavefront keeps its cells *)
Theorem timing_redispatch_refines_fresh_cells : forall st nw cs w exec0 ids,
  timing_R st nw cs -> w < nw -> 1 <= nvgpr (t_waves st w) -> exec0 < 2 ^ 64 ->
  timing_R (timing_redispatch st w exec0 ids) nw (wupd cs w (fresh_cells exec0 ids)) /\
  t_waves (timing_redispatch st w exec0 ids) = t_waves st.
Proof. exact timing_redispatch_fresh. Qed.
Print Assumptions timing_redispatch_refines_fresh_cells.

(** the state a newly dispatched wavefront starts from does not depend on what
    any earlier wavefront (any history of accesses, releases) did: M0, SCC, VCC
    and all registers the dispatcher does not initialise read zero *)
Theorem fresh_wavefront_state_independent_of_history :
  (forall h1 h2 ws1 ws2 w exec0 ids,
     emu_newgen (fst (emu_run ws1 h1)) w exec0 ids w = emu_newgen (fst (emu_run ws2 h2)) w exec0 ids w) /\
  (forall h1 h2 st nw cs w exec0 ids r cnt lane,
     timing_R st nw cs -> Forall (twf_r (t_waves st) nw) h1 -> Forall (twf_r (t_waves st) nw) h2 ->
     w < nw -> 1 <= nvgpr (t_waves st w) -> exec0 < 2 ^ 64 ->
     wf_operand (nsgpr (t_waves st w)) (nvgpr (t_waves st w)) r cnt lane = true ->
     timing_read_reg (timing_redispatch (fst (timing_run st h1)) w exec0 ids) w r cnt lane
     = Some (read_bytes (fresh_cells exec0 ids) r cnt lane) /\
     timing_read_reg (timing_redispatch (fst (timing_run st h1)) w exec0 ids) w r cnt lane
     = timing_read_reg (timing_redispatch (fst (timing_run st h2)) w exec0 ids) w r cnt lane).
Proof. split; [exact emu_fresh_independent | exact timing_fresh_independent]. Qed.
Print Assumptions fresh_wavefront_state_independent_of_history.

(** ** outside the operand set: exactly which accesses panic, for every state,
    every register designator, RegCount, lane and data length *)

Theorem emu_panics_iff : forall s a r cnt lane,
  snd (emu_access s a r cnt lane) = OPanic <-> emu_panics a r cnt lane = true.
Proof.
  intros. rewrite <- (emu_panics_exact s). destruct (snd (emu_access s a r cnt lane)); cbn; split; congruence.
Qed.
Print Assumptions emu_panics_iff.

Theorem timing_panics_iff : forall st a,
  snd (timing_step st a) = OPanic <-> timing_panics st a = true.
Proof.
  intros. rewrite <- timing_panics_exact. destruct (snd (timing_step st a)); cbn; split; congruence.
Qed.
Print Assumptions timing_panics_iff.

(** what a panicking access leaves behind *)
Theorem emu_panic_leaves_state : forall s a r cnt lane, snd (emu_access s a r cnt lane) = OPanic ->
  let s' := fst (emu_access s a r cnt lane) in
  e_sreg s' = e_sreg s /\ e_vreg s' = e_vreg s /\ e_scc s' = e_scc s /\ e_m0 s' = e_m0 s /\
  (e_vcc s' = e_vcc s \/ e_vcc s' = keep_hi (e_vcc s) \/ e_vcc s' = keep_lo (e_vcc s)) /\
  (e_exec s' = e_exec s \/ e_exec s' = keep_hi (e_exec s) \/ e_exec s' = keep_lo (e_exec s)).
Proof. intros s a r cnt lane H. apply emu_panic_state. now rewrite H. Qed.
Print Assumptions emu_panic_leaves_state.

Theorem timing_panic_leaves_state : forall st a, a_api a <> AReset -> snd (timing_step st a) = OPanic ->
  fst (timing_step st a) = st.
Proof. intros st a Hr H. apply timing_panic_state; auto. now rewrite H. Qed.
Print Assumptions timing_panic_leaves_state.

(** WriteOperand (uint64) on an operand of three or more dwords panics in both modes *)
Theorem wide_write_operand_panics : forall v r cnt lane st w, 3 <= cnt -> bytesize r = 4 ->
  emu_panics (AWriteU v) r cnt lane = true /\ timing_panics st (mkAcc w (AWriteU v) r cnt lane) = true.
Proof.
  intros v r cnt lane st w Hc Hb.
  assert (E : (8 <? num_bytes r cnt) = true).
  { unfold num_bytes. rewrite Hb. destruct (2 <=? cnt) eqn:X; apply N.ltb_lt; apply N.leb_le in X || apply N.leb_gt in X; Lia.lia. }
  unfold emu_panics, timing_panics. cbn [a_api a_reg a_cnt]. rewrite E. auto.
Qed.
Print Assumptions wide_write_operand_panics.

(** ** written data longer than the operand: the surplus is ignored (emulation:
    always; timing: unless a 32-bit half of vcc/exec is handed 8 or more bytes) *)
Theorem emu_regs_refine_cells_long : forall h ws cs, emu_world_R ws cs ->
  Forall (wf_acc_long false (fun _ => 102) (fun _ => 256)) h ->
  snd (emu_run ws h) = snd (spec_run cs h) /\ emu_world_R (fst (emu_run ws h)) (fst (spec_run cs h)).
Proof. exact emu_run_ok_long. Qed.
Print Assumptions emu_regs_refine_cells_long.

Theorem timing_regs_refine_cells_long : forall h st nw cs, timing_R st nw cs ->
  Forall (fun a => a_w a < nw /\ wf_acc_long true (fun w => nsgpr (t_waves st w)) (fun w => nvgpr (t_waves st w)) a) h ->
  snd (timing_run st h) = snd (spec_run cs h) /\ timing_R (fst (timing_run st h)) nw (fst (spec_run cs h)).
Proof. exact timing_run_ok_long. Qed.
Print Assumptions timing_regs_refine_cells_long.

(** ** the operand set: every (register, RegCount) shape the real disassembler
    attaches to the registers the property names is covered by [wf_shape]
    (list recomputed from amd/insts by the harness on every run and compared) *)
Definition decoder_shapes : list (reg * N) :=
  [(RS 0, 0); (RS 0, 1); (RS 0, 2); (RS 0, 4); (RS 0, 8); (RS 0, 16);
   (RV 0, 0); (RV 0, 1); (RV 0, 2); (RV 0, 3); (RV 0, 4);
   (RVccLo, 0); (RVccLo, 1); (RVccLo, 2); (RVccHi, 0); (RVccHi, 1);
   (RExecLo, 0); (RExecLo, 1); (RExecLo, 2); (RExecHi, 0); (RExecHi, 1);
   (RScc, 0); (RM0, 0); (RM0, 1)].
Example decoder_shapes_covered : forallb (fun p => wf_shape (fst p) (snd p)) decoder_shapes = true.
Proof. vm_compute. reflexivity. Qed.

(** ** non-vacuity: three wavefronts with adjacent allocations, a history that
    writes pairs, halves, a lane and the last register of an allocation *)
Definition demo_waves : list wave := [mkWave 0 0 0 16 4; mkWave 64 16 0 32 8; mkWave 192 0 1 102 64].
Definition demo_st : tstate :=
  mkT (fun _ => 7) 12800 (fun _ _ => 9) 65536 2 1024 (fun _ => mkSp 5 6 1 3)
      (fun w => nth (N.to_nat w) demo_waves (mkWave 0 0 0 0 0)).
Definition demo_ws : emu_world := fun _ => mkEmu (fun _ => 7) (fun _ => 9) 5 6 1 3.
Definition demo : list acc :=
  [mkAcc 0 (AWrite [1;2;3;4;5;6;7;8]) (RS 14) 2 0;       (* last two SGPRs of wavefront 0 *)
   mkAcc 1 (ARead 4) (RS 0) 0 0;                          (* first SGPR of the adjacent wavefront 1: untouched *)
   mkAcc 0 (ARead 4) (RS 15) 1 0;                         (* the high dword alone *)
   mkAcc 1 (AWriteU 2863311530) RVccHi 0 0;               (* vcc_hi := 0xAAAAAAAA *)
   mkAcc 1 AReadU RVccLo 2 0;                             (* the pair *)
   mkAcc 0 AReadU RVcc 0 0;                               (* VCC of another wavefront: untouched *)
   mkAcc 1 (AWrite [9;9;9;9]) (RV 7) 0 63;                (* last VGPR of wavefront 1, last lane *)
   mkAcc 1 (ARead 4) (RV 7) 1 62;                         (* same register, other lane *)
   mkAcc 0 (ARead 4) (RV 3) 1 63;                         (* wavefront 0 shares the SIMD file *)
   mkAcc 2 (AWriteU 5) RExecLo 0 0; mkAcc 2 AReadU RExecHi 0 0; mkAcc 2 (ARead 8) RExecLo 2 0;
   mkAcc 1 (ARead 4) (RV 7) 0 63].
Example demo_answers :
  snd (timing_run demo_st demo) =
  [ODone; OBytes [7;7;7;7]; OBytes [5;6;7;8]; ODone; OVal (2863311530 * 4294967296 + 5); OVal 5; ODone;
   OBytes [9;9;9;9]; OBytes [9;9;9;9]; ODone; OVal 0; OBytes [5;0;0;0;0;0;0;0]; OBytes [9;9;9;9]]
  /\ snd (emu_run demo_ws demo) = snd (timing_run demo_st demo).
Proof. vm_compute. split; reflexivity. Qed.

Example demo_hypotheses :
  timing_ok demo_st 3 /\ (forall w, emu_ok (demo_ws w)) /\ Forall (twf (t_waves demo_st) 3) demo.
Proof.
  assert (C : forall w, w < 3 -> w = 0 \/ w = 1 \/ w = 2) by (intros; Lia.lia).
  split; [|split].
  - split; [constructor|split; [|split]].
    + reflexivity.
    + vm_compute. discriminate.
    + intros w Hw. destruct (C w Hw) as [E|[E|E]]; subst w; vm_compute; repeat split; discriminate.
    + intros w w' Hw Hw' Hne.
      destruct (C w Hw) as [E|[E|E]]; destruct (C w' Hw') as [E'|[E'|E']]; subst w w'; try congruence; vm_compute;
        (split; [first [left; discriminate | right; discriminate] | first [left; discriminate | right; left; discriminate | right; right; discriminate]]).
    + intros; reflexivity.
    + intros; reflexivity.
    + intros; vm_compute; repeat split; reflexivity.
  - intros w. vm_compute. repeat split; reflexivity.
  - unfold demo. repeat constructor; vm_compute; try reflexivity; try discriminate; intuition discriminate.
Qed.

(** the excluded case: 8 bytes written to vcc_lo with RegCount 0 — the emulator
    replaces the low half, the timing store (its [len(data) >= 8] test) the pair *)
Example overlong_half_modes_differ :
  let h := [mkAcc 0 (AWrite [1;2;3;4;5;6;7;8]) RVccLo 0 0; mkAcc 0 AReadU RVcc 0 0] in
  snd (emu_run demo_ws h) = [ODone; OVal 67305985] /\
  snd (timing_run demo_st h) = [ODone; OVal 578437695752307201].
Proof. vm_compute. split; reflexivity. Qed.

(** release next to adjacent allocations: wavefront 0 ends where wavefront 1
    begins, in the scalar file and in every lane of SIMD 0 *)
Definition demo_release : list acc :=
  [mkAcc 0 (AWrite [1;2;3;4]) (RS 15) 0 0; mkAcc 1 (AWrite [5;6;7;8]) (RS 0) 0 0;
   mkAcc 0 (AWrite [1;1;1;1]) (RV 3) 0 63; mkAcc 1 (AWrite [2;2;2;2]) (RV 0) 0 63; mkAcc 1 (AWriteU 9) RVccLo 0 0;
   mkAcc 0 AReset RScc 0 0;
   mkAcc 0 (ARead 4) (RS 15) 0 0; mkAcc 1 (ARead 4) (RS 0) 0 0; mkAcc 0 (ARead 4) (RV 3) 0 63; mkAcc 1 (ARead 4) (RV 0) 0 63;
   mkAcc 0 (ARead 4) (RS 0) 0 0; mkAcc 0 AReadU RVcc 0 0; mkAcc 1 AReadU RVccLo 0 0; mkAcc 2 (ARead 4) (RS 0) 0 0].
Example demo_release_answers :
  snd (timing_run demo_st demo_release) =
  [ODone; ODone; ODone; ODone; ODone; ODone;
   OBytes [0;0;0;0]; OBytes [5;6;7;8]; OBytes [0;0;0;0]; OBytes [2;2;2;2];
   OBytes [0;0;0;0]; OVal 5; OVal 9; OBytes [7;7;7;7]]
  /\ t_sreg (fst (timing_run demo_st demo_release)) 63 = 0
  /\ t_sreg (fst (timing_run demo_st demo_release)) 64 = 5
  /\ t_sreg (fst (timing_run demo_st demo_release)) 5000 = 7
  /\ Forall (twf_r (t_waves demo_st) 3) demo_release.
Proof.
  split; [vm_compute; reflexivity|]. repeat (split; [vm_compute; reflexivity|]).
  unfold demo_release.
  repeat (apply Forall_cons;
          [ split; [vm_compute; reflexivity
                   | first [ left; reflexivity
                           | right; unfold wf_acc, wf_access; cbn [a_w a_api a_reg a_cnt a_lane];
                             split; [vm_compute; reflexivity
                                    | first [ exact I
                                            | split; [vm_compute; reflexivity | repeat (constructor; [reflexivity|]); constructor]
                                            | split; [vm_compute; repeat constructor | vm_compute; reflexivity] ] ] ] ]
          | ]).
  apply Forall_nil.
Qed.

(** the panic predicates on a few accesses of the hostile stream *)
Example demo_panics :
  emu_panics (ARead 8) (RS 101) 2 0 = true /\            (* s[101:102] runs over the 102 SGPRs *)
  emu_panics (ARead 8) (RV 255) 2 62 = false /\          (* v[255:256] of lane 62 spills into lane 63 ... *)
  emu_panics (ARead 8) (RV 255) 2 63 = true /\           (* ... and over the end of the file in lane 63 *)
  emu_panics (AWrite [1;2;3]) RM0 0 0 = true /\
  emu_panics (ARead 4) ROther 0 0 = true /\
  emu_panics (ARead 8) RScc 2 0 = false /\
  timing_panics demo_st (mkAcc 0 (ARead 8) (RS 15) 2 0) = false /\   (* reaches into wavefront 1: no panic in timing *)
  timing_panics demo_st (mkAcc 0 (ARead 4) ROther 0 0) = true /\
  timing_panics demo_st (mkAcc 0 (AWriteU 1) (RV 0) 3 0) = true /\
  timing_panics demo_st (mkAcc 1 AReset RScc 0 0) = false.
Proof. vm_compute. repeat split; reflexivity. Qed.

(** a wavefront dispatched after junk was left behind: m0, vcc, s, v read zero, v0 the work-item id *)
Example demo_redispatch :
  let st := fst (timing_run demo_st [mkAcc 1 (AWriteU 42) RM0 0 0; mkAcc 1 (AWrite [9;9;9;9]) (RV 7) 0 63;
                                     mkAcc 1 (AWriteU 77) RVccLo 2 0; mkAcc 1 (AWrite [5;6;7;8]) (RS 3) 0 0]) in
  let st' := timing_redispatch st 1 18446744073709551615 (fun l => 64 + l) in
  snd (timing_run st' [mkAcc 1 AReadU RM0 0 0; mkAcc 1 (ARead 4) (RV 7) 0 63; mkAcc 1 AReadU RVccLo 2 0;
                       mkAcc 1 (ARead 4) (RS 3) 0 0; mkAcc 1 AReadU (RV 0) 0 5; mkAcc 1 AReadU RExecLo 2 0;
                       mkAcc 0 (ARead 4) (RV 3) 1 63])
  = [OVal 0; OBytes [0;0;0;0]; OVal 0; OBytes [0;0;0;0]; OVal 69; OVal 18446744073709551615; OBytes [9;9;9;9]]
  /\ e_m0 (emu_dispatch 18446744073709551615 (fun l => 64 + l)) = 0.
Proof. vm_compute. split; reflexivity. Qed.
