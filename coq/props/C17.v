(** C17 — the DRAM model behaves as a memory: one response per request, and
    every read returns, byte by byte, the most recent earlier-arrived write.
    Statements only; the proofs are lemmas of VMem.DramProofs.

    [run (init c) evs] ranges over every builder configuration [c] (banks,
    pipeline width/depth/stage latency, buffer sizes, interleaving, row size,
    row-miss delay, capacity, address converters — including the ones the
    builder would reject) and every finite sequence [evs] of environment events
    on the Top port: deliveries (accepted or refused by the bounded buffer),
    ticks, retrievals.  [c_early c = true] is the component after the repair
    (commit 'fix: simplebankedmemory performs the storage access in arrival
    order'); [c_early c = false] is the component as it was before.

    Scope of the arithmetic: the model computes addresses in unbounded [N]; it
    coincides with Go's uint64 arithmetic as long as nothing wraps around, i.e.
    for configurations and requests satisfying the no-wrap clauses of [wf_cfg] /
    [wf_req] (capacity + 4096 < 2^64, converter products < 2^64, address +
    length <= 2^64; see [dram_wf_means_no_wrap]).  The safety theorems below
    hold for every history of the model; they speak about the Go component for
    the histories in that range.  The no-panic and liveness theorems carry the
    hypothesis explicitly. *)
From Coq Require Import Permutation.
From VLib Require Import Akita ListX.
From VMem Require Import Pipeline Dram DramProofs DramLive DramSleep.
Open Scope N_scope.

(** ** Exactly one response per accepted request, none spurious — both before
    and after the repair.  Every response produced so far answers (identifier,
    routing, kind) the request at a position of the delivery log that no other
    response uses; the items in flight (pending list, delay queues, pipelines,
    post-pipeline buffers) together with the answered ones are, as a multiset,
    exactly the requests taken from the port, each once (so none is lost or
    duplicated inside the banks); the requests not yet taken are still in the
    port, in order; the responses are those of the answered items, in order. *)
Theorem dram_one_rsp_each : forall c evs,
  let s := run (init c) evs in
  one_rsp_each s /\
  Permutation (map key (items s ++ g_done s)) (keys_of (g_drained s)) /\
  g_drained s ++ top_in s = g_deliv s /\
  g_retr s ++ top_out s = map rsp_of (g_done s).
Proof.
  intros c evs s. pose proof (run_inv evs _ (init_inv c)) as I. fold s in I.
  split; [exact (inv_one_rsp_each s I)|]. destruct I; auto.
Qed.
Print Assumptions dram_one_rsp_each.

(** ** Linearizable by arrival (repaired component).  Every response answers the
    request at its own position [k] of the delivery log, and a read response
    carries exactly what reading the flat byte array yields after the requests
    delivered before position [k] — whatever the number of banks, interleaving,
    pipeline shape and row-buffer timing. *)
Theorem dram_linearizable_by_arrival : forall c evs,
  c_early c = true ->
  linearizable_by_arrival (run (init c) evs).
Proof.
  intros c evs He. apply inv_linearizable.
  - apply run_inv, init_inv.
  - apply run_invE, init_invE, He.
Qed.
Print Assumptions dram_linearizable_by_arrival.

(** What "reading the flat byte array" means, byte by byte: a successful read
    returns [size] bytes, byte [i] being the content of storage address [a+i]; *)
Theorem dram_read_bytes : forall c st r d,
  commit_read c st r = Some d ->
  exists a, saddr c r = Some a /\ length d = N.to_nat (m_size r) /\
    forall i, (i < N.to_nat (m_size r))%nat -> nth i d 0 = st (a + N.of_nat i).
Proof.
  intros c st r d H. destruct (commit_read_spec _ _ _ _ H) as (a & A & _ & L & B). eauto.
Qed.
Print Assumptions dram_read_bytes.

(** ... the content of a byte after the requests [rs] is the value of the most
    recent write among [rs] that covers the byte with its mask bit enabled, and
    zero if there is none; *)
Theorem dram_flat_array_bytes : forall c rs x,
  mem_of c rs x = match last_write c rs x with Some v => v | None => 0 end.
Proof. exact mem_of_byte. Qed.
Print Assumptions dram_flat_array_bytes.

(** ... and a write touches a byte only inside its range and only where its mask
    (if it has one) is enabled: everywhere else the array keeps its content. *)
Theorem dram_masked_write_only_enabled : forall c st r x,
  apply_req c st r x = match byte_written c r x with Some v => v | None => st x end.
Proof. exact apply_req_byte. Qed.
Print Assumptions dram_masked_write_only_enabled.

Theorem dram_byte_written_enabled : forall c r x v,
  byte_written c r x = Some v ->
  m_kind r = KWrite /\
  exists a, saddr c r = Some a /\ a <= x < a + N.of_nat (length (m_data r)) /\
    (m_mask r = [] \/ nth (N.to_nat (x - a)) (m_mask r) false = true) /\
    v = nth (N.to_nat (x - a)) (m_data r) 0.
Proof. exact byte_written_spec. Qed.
Print Assumptions dram_byte_written_enabled.

(** ** The component before the repair is not linearizable by arrival: a write
    that misses the open row waits in the bank's delay queue while a read of the
    same address, delivered after it, hits the row just opened and completes
    first with stale data. *)
(** (the witness history [witness] and its configuration [cfg_witness] are defined in DramProofs) *)
Theorem dram_order_refuted_before_repair :
  exists c evs, cfg_ok c = true /\ c_early c = false /\ ~ linearizable_by_arrival (run (init c) evs).
Proof. exact order_refuted_before_repair. Qed.
Print Assumptions dram_order_refuted_before_repair.

(** ** Panic freedom.  For every configuration the builder accepts (with a
    representable interleave size and no wrap-around, [wf_cfg]) and every history
    whose delivered messages are well-formed requests ([wf_req]: read or write,
    real requester as source, inside the capacity, accepted by the configured
    address converters, mask absent or at least as long as the data, no
    wrap-around), the component never panics: [tick] never returns [None]. *)
Theorem dram_no_panic : forall c evs,
  wf_cfg c = true -> Forall (fun e => wf_ev c e = true) evs ->
  crashed (run (init c) evs) = false /\ ~ In OCrash (run_obs (init c) evs).
Proof. exact no_panic. Qed.
Print Assumptions dram_no_panic.

Theorem dram_wf_means_no_wrap : forall c r,
  (wf_req c r = true -> m_addr r + req_len r <= two64) /\
  (wf_cfg c = true -> c_log2ilv c < 64 /\ c_capacity c + unit_size < two64 /\
                      ilv_fits (c_aconv c) = true /\ ilv_fits (c_bconv c) = true).
Proof. intros c r. split; [apply wf_req_no_wrap|apply wf_cfg_no_wrap]. Qed.
Print Assumptions dram_wf_means_no_wrap.

(** ** Liveness.  A fair round = the requester retrieves everything that waits
    in the Top port, then the memory ticks once ([round]).  [mu] is the remaining
    work: a request still in the port weighs [missdelay + cps*depth + 4], a
    pending one one less, one in a delay queue [cyclesLeft + cps*depth + 2], one
    in a pipeline stage [cycleLeft + stagesBehind*cps + 2], one in a
    post-pipeline buffer 1.  In every reachable state a fair round never
    increases [mu] and strictly decreases it while anything is in flight, and
    [mu] is at most (number of requests in flight) * (missdelay + cps*depth + 4). *)
Theorem dram_fair_round_decreases : forall c evs,
  wf_cfg c = true -> Forall (fun e => wf_ev c e = true) evs ->
  let s := run (init c) evs in
  (mu (round s) <= mu s)%nat /\ (busy s -> (mu (round s) < mu s)%nat) /\
  (mu s <= (length (top_in s) + length (items s)) * (c_missdelay c + c_cps c * c_depth c + 4))%nat.
Proof. exact fair_round_decreases. Qed.
Print Assumptions dram_fair_round_decreases.

(** Hence from every reachable state, after at most
    (requests in flight) * (row-miss delay + stage latency * depth + 4) fair
    rounds without further deliveries nothing is in flight any more, the
    component has not panicked, and every request ever delivered - including
    those that were still waiting in the port - has its response (the answered
    items are exactly the delivered requests, each once). *)
Theorem dram_every_request_answered : forall c evs,
  wf_cfg c = true -> Forall (fun e => wf_ev c e = true) evs ->
  let s := run (init c) evs in
  exists n, (n <= (length (top_in s) + length (items s)) * (c_missdelay c + c_cps c * c_depth c + 4))%nat /\
    let s' := rounds n s in
    crashed s' = false /\ g_deliv s' = g_deliv s /\ top_in s' = [] /\ items s' = [] /\
    Permutation (map key (g_done s')) (keys_of (g_deliv s)) /\
    forall k r, nth_error (g_deliv s) k = Some r ->
      exists m, In m (g_retr s' ++ top_out s') /\ answers m r.
Proof. exact every_request_answered. Qed.
Print Assumptions dram_every_request_answered.

(** ** Sleep safety.  The event engine stops ticking a component whose Tick
    reports no progress until a message arrives or a port frees up.  For the
    repaired code a tick that reports no progress leaves the state - every bank,
    pipeline stage, delay counter, buffer, the pending list, the storage and the
    port - exactly as it was, in every state (reachable or not): each of the five
    parts of Tick is proved to return its input unchanged when it reports no
    progress (finalizeBanks: nothing to send or port full; tickPipelines: every
    occupied stage blocked; tickDelayQueues: all delay queues empty;
    dispatchPending: every pending request found its pipeline full;
    drainTopPort: port empty).  The converse does not hold for tickDelayQueues,
    which reports progress whenever a delay queue is non-empty - that only costs
    an extra tick. *)
Theorem dram_sleep_safe : forall s s',
  c_early (cf s) = true -> tick s = Some (s', false) -> s' = s.
Proof. exact tick_quiet. Qed.
Print Assumptions dram_sleep_safe.

(** Observable corollary: after a tick that reported no progress, any number of
    further ticks with no delivery or retrieval in between report no progress
    either (and do not panic); the state stays the same. *)
Theorem dram_quiet_stays_quiet : forall s n,
  c_early (cf s) = true -> crashed s = false -> snd (step s ETick) = OTick false ->
  run_obs s (repeat ETick n) = repeat (OTick false) n /\ run s (repeat ETick n) = s.
Proof. intros s n He Hc H. apply quiet_stays_quiet; auto. Qed.
Print Assumptions dram_quiet_stays_quiet.

(** The code before the repair was not sleep-safe: with the Top port full of
    unretrieved responses, the tick in which a write reaches the head of a
    post-pipeline buffer performs the storage access and reports no progress. *)
Theorem dram_sleep_unsafe_before_repair :
  let s := run (init (sleep_cfg false)) sleep_witness in
  exists s', tick s = Some (s', false) /\ stor s 256 = 0 /\ stor s' 256 = 7.
Proof. exact sleep_unsafe_before_repair. Qed.
Print Assumptions dram_sleep_unsafe_before_repair.

(** ** Non-vacuity: the same history on the repaired component answers both
    requests, the read with the bytes just written; a masked write changes
    only its enabled bytes; 16 banks, depth 5, row-miss delay 52 (MI300A). *)
Example witness_repaired :
  let s := run (init (cfg_witness true)) witness in
  map m_rspto (g_retr s ++ top_out s) = [2; 1] /\
  map m_data (g_retr s ++ top_out s) = [[1;2;3;4]; []] /\ crashed s = false.
Proof. vm_compute. repeat split; reflexivity. Qed.

Definition cfg_mi300a : cfg := mkCfg true 16 1 5 1 16 128 6 11 52 4294967296 None None.
Definition demo : list ev :=
  [EDeliver (wr 1 4352 [1;2;3;4;5;6;7;8] []);
   EDeliver (wr 2 4354 [9;9;9;9] [true;false;false;true]);
   EDeliver (rd 3 4352 8); EDeliver (wr 4 20736 [7;7] []); EDeliver (rd 5 4350 4)]
  ++ repeat ETick 70 ++ [ERetr; ERetr; ERetr].
Example demo_masked :
  let s := run (init cfg_mi300a) demo in
  (* the first write misses the row and is overtaken by the four row hits behind
     it - the responses are reordered, the data is that of the arrival order *)
  map m_rspto (g_retr s) = [2; 3; 4] /\
  map m_data (g_retr s) = [[]; [1;2;9;4;5;9;7;8]; []] /\
  map m_rspto (top_out s) = [5; 1] /\ map m_data (top_out s) = [[0;0;1;2]; []] /\
  items s = [] /\ crashed s = false.
Proof. vm_compute. repeat split; reflexivity. Qed.

(** the hypotheses of the no-panic and liveness theorems hold for this history;
    its five requests are all in flight after the deliveries and two ticks, the
    bound of [dram_every_request_answered] is 5 * (52 + 1*5 + 4) = 305 rounds,
    the ranking function says 244, the last response is produced in round 58 *)
Example demo_wf :
  wf_cfg cfg_mi300a = true /\ forallb (wf_ev cfg_mi300a) demo = true /\
  let s := run (init cfg_mi300a) (firstn 7 demo) in
  length (items s) = 5%nat /\ mu s = 244%nat /\ length (items (rounds 57 s)) = 2%nat /\
  items (rounds 58 s) = [] /\ map m_rspto (g_retr (rounds 58 s) ++ top_out (rounds 58 s)) = [2; 3; 4; 5; 1].
Proof. vm_compute. repeat split; reflexivity. Qed.
