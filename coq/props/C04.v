(** C04 — instruction decoding is total, deterministic and inverse to encoding.
    Statements only; proofs are in VIsa.DecodeProofs, EncodeProofs, RoundTrip,
    RoundTripV, RoundTripM, PrefixProofs.
    Model: VIsa.Decode (insts.Disassembler.Decode with the fix: commits of
    branches work-c04 / work2-c04) over the tables regenerated from the Go
    sources (VGen.FormatTable, VGen.DecodeTable, VGen.RegTable).
    Encoder and specification: VIsa.Encode ([words]/[encode] from the ISA bit
    layouts, [spec_inst] = the insts.Inst a description denotes, [wf]). *)
From Coq Require Import NArith ZArith List String Bool Permutation Sorted Lia ZifyN ZifyNat.
From VIsa Require Import InstTypes Decode DecodeProofs Encode EncodeProofs DecodeCases RoundTrip RoundTripV RoundTripM PrefixProofs RefTable RefProofs.
From VGen Require Import FormatTable DecodeTable RegTable.
Import ListNotations.
Open Scope N_scope.

(** initFormatList fills formatList by ranging over a Go map and sorting by
    mask (descending, not stable).  Whatever permutation of the generated
    format table results, every 32-bit (indeed every) first dword selects the
    same format. *)
Theorem format_match_unambiguous : forall fl1 fl2 w,
  Permutation fl1 format_table -> StronglySorted (fun f g => f_mask g <= f_mask f) fl1 ->
  Permutation fl2 format_table -> StronglySorted (fun f g => f_mask g <= f_mask f) fl2 ->
  match_format fl1 w = match_format fl2 w.
Proof. intros fl1 fl2 w P1 S1 P2 S2. apply match_format_order_independent; split; assumption. Qed.
Print Assumptions format_match_unambiguous.

(** the reason: formats of equal mask never match the same word (VOP3b, which
    matchFormat skips, aside) *)
Theorem equal_mask_formats_exclusive : forall w f g,
  In f format_table -> In g format_table ->
  candidate w f = true -> candidate w g = true -> f_mask f = f_mask g -> f = g.
Proof. exact candidates_exclusive. Qed.
Print Assumptions equal_mask_formats_exclusive.

(** two decoder instances, whatever order their format lists were built in,
    return the same result on every buffer *)
Theorem decoders_agree : forall fl1 fl2 cdna3 buf,
  possible_format_list fl1 -> possible_format_list fl2 ->
  decode_with fl1 cdna3 buf = decode_with fl2 cdna3 buf.
Proof.
  intros. unfold decode_with. f_equal. apply decode_core_order_independent; assumption.
Qed.
Print Assumptions decoders_agree.

(** the list the model evaluates with is one of the possible lists *)
Theorem model_format_list_possible : possible_format_list format_list.
Proof. exact format_list_possible. Qed.
Print Assumptions model_format_list_possible.

(** for every byte string (every length, every content, both architectures)
    the repaired decoder returns an instruction, an error or the
    not-implemented diagnostic; it never panics otherwise *)
Theorem decode_total_no_fault : forall cdna3 buf, decode cdna3 buf <> Fault.
Proof.
  intros cdna3 buf. unfold decode, decode_with.
  pose proof (decode_core_no_fault format_list cdna3 (N.of_nat (List.length buf)) (le32 buf)
                (le32 (skipn 4 buf)) format_list_in) as H.
  unfold nofault in H. destruct (decode_core _ _ _ _ _); simpl; congruence.
Qed.
Print Assumptions decode_total_no_fault.

(** ... for any possible format list, too *)
Theorem decode_total_no_fault_any_list : forall fl cdna3 buf,
  possible_format_list fl -> decode_with fl cdna3 buf <> Fault.
Proof.
  intros fl cdna3 buf [P _]. unfold decode_with.
  pose proof (decode_core_no_fault fl cdna3 (N.of_nat (List.length buf)) (le32 buf) (le32 (skipn 4 buf))) as H.
  unfold nofault in H. destruct (decode_core _ _ _ _ _); simpl; try congruence.
  exfalso. apply H; auto. intros g Hg. eapply Permutation_in; eauto.
Qed.
Print Assumptions decode_total_no_fault_any_list.

(** buffers shorter than one dword are rejected by an error *)
Theorem decode_short_buffer_is_error : forall cdna3 buf, (List.length buf < 4)%nat -> decode cdna3 buf = Err.
Proof.
  intros cdna3 buf H. unfold decode, decode_with, decode_core.
  destruct (N.ltb_spec (N.of_nat (List.length buf)) 4); [reflexivity|]. exfalso. lia.
Qed.
Print Assumptions decode_short_buffer_is_error.

(** decode ∘ encode = id, for every well-formed description of each of the 13
    supported formats — SOP2, SOPK, SOP1, SOPC, SOPP, SMEM, VOP1, VOP2 (plain,
    32-bit literal, v_madmk/v_madak constant, SDWA), VOPC, VOP3a (incl. the
    VOP3P op_sel fields), VOP3b, DS, FLAT (both architectures) — with all
    operand and modifier fields symbolic, every row of the regenerated decode
    table, and any bytes following the encoding: the decoder returns exactly the
    instruction the description denotes and its true byte length. *)
Theorem decode_encode : forall cdna3 d tail,
  wf d = true -> wf_sdwa_s0_vgpr d = true ->
  decode cdna3 (encode d ++ tail) = Ok (spec_inst cdna3 d) (dsize d).
Proof.
  intros c d tail W S. destruct d.
  - apply decode_encode_sop2; exact W.
  - apply decode_encode_sopk; exact W.
  - apply decode_encode_sop1; exact W.
  - apply decode_encode_sopc; exact W.
  - apply decode_encode_sopp; exact W.
  - apply decode_encode_smem; exact W.
  - apply decode_encode_vop1; exact W.
  - apply decode_encode_vop2; exact W.
  - destruct s0; [discriminate S|]. apply decode_encode_vop2_sdwa; exact W.
  - apply decode_encode_vopc; exact W.
  - apply decode_encode_vop3a; exact W.
  - apply decode_encode_vop3b; exact W.
  - apply decode_encode_ds; exact W.
  - apply decode_encode_flat; exact W.
Qed.
Print Assumptions decode_encode.

(** the one excluded class (finding, by reading the GFX9 ISA): the SDWA dword
    has the "SRC0 is an SGPR" flag S0 in bit 23 (S1 in bit 31); the decoder
    reads it from bit 30, so an SDWA instruction with an SGPR SRC0 is decoded
    with a VGPR SRC0 *)
Theorem decode_encode_sdwa_s0_refuted :
  exists d, wf d = true /\ wf_sdwa_s0_vgpr d = false /\
            outcome_eqb (decode false (encode d)) (Ok (spec_inst false d) (dsize d)) = false.
Proof. exists (DVop2Sdwa (row_of VOP2 25) 1 2 3 6 0 6 6 true false). vm_compute. auto. Qed.
Print Assumptions decode_encode_sdwa_s0_refuted.

(** bytes beyond the reported size never influence the result: any buffer that
    agrees with [b] on the first [n] bytes (and has at least [n] bytes) decodes
    to the same instruction with the same size; for every byte string, every
    format, both architectures *)
Theorem decode_prefix_independent : forall cdna3 b b' i n,
  decode cdna3 b = Ok i n ->
  firstn (N.to_nat n) b = firstn (N.to_nat n) b' -> n <= N.of_nat (List.length b') ->
  decode cdna3 b' = Ok i n.
Proof. intros c b b' i n. apply prefix_independent. exact format_list_in. Qed.
Print Assumptions decode_prefix_independent.

(** ... in the form  decode (b[:n] ++ anything) = decode b *)
Theorem decode_prefix_then_anything : forall cdna3 b i n t,
  decode cdna3 b = Ok i n -> decode cdna3 (firstn (N.to_nat n) b ++ t) = Ok i n.
Proof.
  intros c b i n t H. pose proof (size_within_buffer _ _ _ _ _ format_list_in H) as [_ Hl].
  apply (prefix_independent format_list c b _ i n format_list_in H).
  - rewrite firstn_app, firstn_firstn, Nat.min_id, firstn_length.
    replace (N.to_nat n - Nat.min (N.to_nat n) (List.length b))%nat with 0%nat by lia.
    rewrite firstn_O, app_nil_r. reflexivity.
  - rewrite app_length, firstn_length. lia.
Qed.
Print Assumptions decode_prefix_then_anything.

(** no mis-sized instruction: the reported size is at least 4 and lies within
    the buffer (this was refuted before fix 608ebca2: ByteSize 12 on 8 bytes) *)
Theorem decode_size_within_buffer : forall cdna3 b i n,
  decode cdna3 b = Ok i n -> 4 <= n <= N.of_nat (List.length b).
Proof. intros c b i n. apply size_within_buffer. exact format_list_in. Qed.
Print Assumptions decode_size_within_buffer.

(** ingredients of decode∘encode, each for all field values *)
(** a field packed at bit [lo] with width [k] is what extractBits returns *)
Theorem extract_packed_field : forall fs lo hi v k r,
  fields_ok fs -> drop fs lo = Some ((v, k) :: r) -> hi = lo + k - 1 -> 0 < k ->
  extract_bits (pack fs) lo hi = v.
Proof. exact extract_field. Qed.
Print Assumptions extract_packed_field.

(** little-endian bytes of a dword read back as that dword, whatever follows *)
Theorem le32_of_encoded_word : forall w tl, w < 4294967296 -> le32 (bytes_of_word w ++ tl) = w.
Proof. exact le32_bytes. Qed.
Print Assumptions le32_of_encoded_word.

(** the format is selected by the nine most significant bits alone *)
Theorem format_selected_by_top9 : forall w t,
  w / 2 ^ 23 = t -> find (candidate w) format_list = find (candidate (2 ^ 23 * t)) format_list.
Proof. exact find_candidate_cut. Qed.
Print Assumptions format_selected_by_top9.

(** the operand code the ISA assigns to an operand is decoded by getOperand to
    exactly that operand (register kind and index, inline integer, inline
    float, literal marker) *)
Theorem operand_code_roundtrip : forall p,
  opnd_wf p = true ->
  get_operand (code_of p) = Some (match p with PLit _ => lit_operand 255 | _ => spec_operand p 0 end).
Proof. exact get_operand_spec. Qed.
Print Assumptions operand_code_roundtrip.

(** the regenerated decode table contains every row of the committed reference
    table VIsa.RefTable unchanged (mnemonic, opcode, format, unit, widths): a
    renumbered, renamed or re-sized row breaks this theorem; [decode_encode] is
    therefore also a statement about the reference rows *)
Theorem table_agrees_with_reference : forall r,
  In r ref_table -> lookup (r_fmt r) (r_opcode r) = Some r /\ In r decode_table.
Proof. exact ref_rows_present. Qed.
Print Assumptions table_agrees_with_reference.

(** known finding (feature gap): VOP3a opcode 499, used by the shipped kernel
    rotate_tensor (operator_gfx942.hsaco), has no row, so the word D1F30008 is
    not decodable and sequential decode of that kernel stops there *)
Theorem shipped_kernels_consumed_refuted :
  exists w0 w1, decode true (bytes_of_word w0 ++ bytes_of_word w1) = Err /\ lookup VOP3a 499 = None
                /\ retrieve_opcode (fmt_format VOP3a) w0 = 499.
Proof. exists 3522363400, 0. vm_compute. auto. Qed.
Print Assumptions shipped_kernels_consumed_refuted.

(** non-vacuity: a well-formed description of every format with wf defined, its
    encoding, and the model decoding it back to the instruction it denotes *)
Example wf_satisfiable :
  forallb (fun d => wf d && match decode false (encode d ++ [1; 2; 3]) with
                            | Ok j n => outcome_eqb (Ok j n) (Ok (spec_inst false d) (dsize d))
                            | _ => false
                            end)
    [ DSop2 (row_of SOP2 0) (PS 3) (PS 101) (PLit 305419896);
      DSopk (row_of SOPK 0) (PSpecial 106) 65535;
      DSop1 (row_of SOP1 1) (PSpecial 126) (PInt (-16));
      DSopc (row_of SOPC 0) (PFloat 248) (PS 0);
      DSopp (row_of SOPP 12) 3952;
      DVop1 (row_of VOP1 1) 255 (PV 7);
      DVop2 (row_of VOP2 1) 1 (PLit 1065353216) 2 0;
      DVopc (row_of VOPC 65) (PV 255) 0 ] = true.
Proof. vm_compute. reflexivity. Qed.
