(** C03 — instruction execution conforms to the GCN3/CDNA3 ISA.
    Statements only; proofs are in VIsa.ExecProofs / VIsa.ExecRefute.
    [exec_scalar a] is the transcription of the Go handlers of ALU [a]
    (VIsa.ExecImpl, tied to the real ALUs by ./check C03), [exec_spec a] the
    transcription of the manuals (VIsa.ExecSpec).  [agree a st i]: both are
    defined on (st, i) and leave extensionally equal states - destination, SCC,
    VCC, EXEC, M0, PC, every other SGPR/VGPR, memory and LDS. *)
From Coq Require Import ZArith List Bool Lia.
Import ListNotations.
From VIsa Require Import IsaState ExecImpl ExecSpec ExecImplV ExecSpecV ExecProofs ExecRows ExecVProofs ExecVRowsA ExecBrev ExecVProofs64 ExecVRows64 ExecVThm ExecRefute.
From VIsa Require Import ExecImplM ExecSpecM ExecMProofs ExecMFlat ExecMDs ExecMThm.
(* binary32 part (last section of this file): Flocq; these imports do not change the assumptions of the theorems above *)
From VIsa Require Import IsaFloat ExecImplF ExecSpecF ExecFRows ExecFCvt ExecVProofs64 ExecFRows64 ExecFThm ExecFThm64.
Open Scope Z_scope.

(** SOP2, 32-bit rows: every opcode either ALU implements (after the repairs of
    this round), every well-formed state, every covered operand kind including
    negative inline constants (which ReadOperand delivers as 64-bit values). *)
Theorem impl_eq_spec_sop2 : forall a st i,
  In (i_op i) (sop2_rows32 a) -> wf st -> i_fmt i = F_SOP2 -> 0 <= i_lit i < W32 ->
  adm32 true (i_src0 i) -> adm32 true (i_src1 i) -> admd32 (i_dst i) -> agree a st i.
Proof. exact sop2_32_agree. Qed.
Print Assumptions impl_eq_spec_sop2.

(** SOP2, 64-bit rows (logic, shifts, S_CSELECT_B64). *)
Theorem impl_eq_spec_sop2_b64 : forall a st i,
  In (i_op i) (sop2_rows64 a) -> wf st -> i_fmt i = F_SOP2 -> 0 <= i_lit i < W32 ->
  adm64 (i_src0 i) -> adm64 (i_src1 i) -> admd64 (i_dst i) -> agree a st i.
Proof. exact sop2_64_agree. Qed.
Print Assumptions impl_eq_spec_sop2_b64.

(** SOP1: S_MOV_B32, S_NOT_B32, S_ABS_I32 (GCN3); S_MOV_B64; S_GETPC_B64; the
    eight S_*_SAVEEXEC_B64. *)
Theorem impl_eq_spec_sop1 : forall a st i,
  In (i_op i) (sop1_rows32 a) -> wf st -> i_fmt i = F_SOP1 -> 0 <= i_lit i < W32 ->
  adm32 true (i_src0 i) -> admd32 (i_dst i) -> agree a st i.
Proof. exact sop1_32_agree. Qed.
Print Assumptions impl_eq_spec_sop1.
Theorem impl_eq_spec_sop1_mov64 : forall a st i, wf st -> i_fmt i = F_SOP1 -> i_op i = 1 ->
  0 <= i_lit i < W32 -> adm64 (i_src0 i) -> admd64 (i_dst i) -> agree a st i.
Proof. exact sop1_mov64_agree. Qed.
Print Assumptions impl_eq_spec_sop1_mov64.
Theorem impl_eq_spec_sop1_getpc : forall a st i, wf st -> i_fmt i = F_SOP1 -> i_op i = 28 ->
  admd64 (i_dst i) -> agree a st i.
Proof. exact sop1_getpc_agree. Qed.
Print Assumptions impl_eq_spec_sop1_getpc.
Theorem impl_eq_spec_sop1_saveexec : forall a st i, wf st -> i_fmt i = F_SOP1 ->
  In (i_op i) saveexec_ops -> 0 <= i_lit i < W32 -> adm64 (i_src0 i) -> admd64 (i_dst i) -> agree a st i.
Proof. exact sop1_saveexec_agree. Qed.
Print Assumptions impl_eq_spec_sop1_saveexec.

Theorem impl_eq_spec_sop1_brev : forall a st i, i_op i = 8 -> wf st -> i_fmt i = F_SOP1 ->
  0 <= i_lit i < W32 -> adm32 true (i_src0 i) -> admd32 (i_dst i) -> agree a st i.
Proof. exact sop1_brev_agree. Qed.
Print Assumptions impl_eq_spec_sop1_brev.

(** SOPK: S_MOVK_I32, S_CMOVK_I32, S_CMPK_EQ_I32, S_CMPK_LG_I32, S_MULK_I32, every
    immediate, every destination kind. *)
Theorem impl_eq_spec_sopk : forall a st i, wf st -> i_fmt i = F_SOPK -> In (i_op i) sopk_ops ->
  admd32 (i_dst i) -> agree a st i.
Proof. exact sopk_agree. Qed.
Print Assumptions impl_eq_spec_sopk.

(** SOPC: every compare either ALU implements, every operand kind. *)
Theorem impl_eq_spec_sopc : forall a st i,
  wf st -> i_fmt i = F_SOPC -> In (i_op i) (sopc_ops a) -> 0 <= i_lit i < W32 ->
  adm32 true (i_src0 i) -> adm32 true (i_src1 i) -> agree a st i.
Proof. exact sopc_agree. Qed.
Print Assumptions impl_eq_spec_sopc.

(** SOPP: S_NOP, S_WAITCNT, S_BRANCH and the six conditional branches, every
    16-bit immediate, every PC. *)
Theorem impl_eq_spec_sopp : forall a st i,
  wf st -> i_fmt i = F_SOPP -> In (i_op i) sopp_ops -> agree a st i.
Proof. exact sopp_agree. Qed.
Print Assumptions impl_eq_spec_sopp.

(** Both ALUs obey the same specification: where both agree with the manual
    they leave equal states. *)
Theorem gcn3_cdna3_agree : forall st i,
  (i_fmt i = F_SOP2 -> i_op i <> 44) -> agree GCN3 st i -> agree CDNA3 st i ->
  exists s1 s2, exec_scalar GCN3 st i = Some s1 /\ exec_scalar CDNA3 st i = Some s2 /\ state_eq s1 s2.
Proof. exact agree_both. Qed.
Print Assumptions gcn3_cdna3_agree.

Corollary gcn3_cdna3_agree_sopc : forall st i,
  wf st -> i_fmt i = F_SOPC -> In (i_op i) (sopc_ops GCN3) -> 0 <= i_lit i < W32 ->
  adm32 true (i_src0 i) -> adm32 true (i_src1 i) ->
  exists s1 s2, exec_scalar GCN3 st i = Some s1 /\ exec_scalar CDNA3 st i = Some s2 /\ state_eq s1 s2.
Proof.
  intros st i Hwf Hf Hop Hl H0 H1. apply agree_both.
  - intros E; rewrite Hf in E; discriminate.
  - apply sopc_agree; auto.
  - apply sopc_agree; auto. unfold sopc_ops in *. cbn [In] in *. intuition.
Qed.
Print Assumptions gcn3_cdna3_agree_sopc.

Corollary gcn3_cdna3_agree_sop2 : forall st i,
  In (i_op i) (sop2_rows32 GCN3) -> wf st -> i_fmt i = F_SOP2 -> 0 <= i_lit i < W32 ->
  adm32 true (i_src0 i) -> adm32 true (i_src1 i) -> admd32 (i_dst i) ->
  exists s1 s2, exec_scalar GCN3 st i = Some s1 /\ exec_scalar CDNA3 st i = Some s2 /\ state_eq s1 s2.
Proof.
  intros st i Hop Hwf Hf Hl H0 H1 Hd. apply agree_both.
  - intros _ E. rewrite E in Hop. unfold sop2_rows32 in Hop. cbn [In] in Hop. intuition discriminate.
  - apply sop2_32_agree; auto.
  - apply sop2_32_agree; auto. unfold sop2_rows32 in *. cbn [In] in *.
    repeat (destruct Hop as [Hop|Hop]; [rewrite <- Hop; tauto|]). contradiction.
Qed.
Print Assumptions gcn3_cdna3_agree_sop2.

(** * Vector integer instructions (VOP2 / VOP1 / VOPC / VOP3a / VOP3b).
    [exec_vector a] transcribes the sequential 64-lane loops of the Go handlers,
    [exec_spec_v a] the per-lane rows of the manuals with the frame: lanes whose
    EXEC bit is clear keep their VGPRs, the mask destination (VCC or an SGPR
    pair) receives 0 for them, nothing else changes.  [vrows a]: 65 (GCN3) / 72
    (CDNA3) (format, opcode) rows - v_cndmask, v_mul_*24, v_min/max, shifts,
    logic, v_add/sub/subrev/addc/subb/subbrev (VOP2 and VOP3b, carry through
    VCC or an SGPR pair), v_mov, v_not, v_ffbh, every 32-bit integer compare
    (VOPC and VOP3a), v_mad_*24, v_bfe_u32/i32, v_min3/max3/med3, v_mul_lo/hi_u32
    and the gfx9 three-operand adds/shifts.  [vadm]: sources are VGPRs or the
    scalar kinds of [adm32 true], a carry-in mask operand is of kind [adm64],
    the destination is a VGPR, the mask destination of kind [admd64]. *)
Theorem impl_eq_spec_vector : forall a st i,
  In (i_fmt i, i_op i) (vrows a) -> wf st -> 0 <= i_lit i < W32 ->
  (forall d r, vdesc_of a (i_fmt i) (i_op i) = Some d -> vrow_of a (i_fmt i) (i_op i) = Some r -> vadm d r i) ->
  agree_v a st i.
Proof. exact vector_agree. Qed.
Print Assumptions impl_eq_spec_vector.

(** Rows with 64-bit operands or destination (both ALUs): v_cmp_*_u64 (VOPC and
    the VOP3a v_cmp_lt_u64), v_mad_u64_u32 (value; the carry-out SGPR pair of
    the hardware instruction is not modelled), v_lshlrev_b64, v_ashrrev_i64.
    [modes_of] says how each operand is read; a 64-bit operand is a VGPR pair
    v[n:n+1] (n <= 254) or of kind [adm64]. *)
Theorem impl_eq_spec_vector64 : forall a st i,
  In (i_fmt i, i_op i) vrows64 -> wf st -> 0 <= i_lit i < W32 ->
  (forall d r, vdesc_of a (i_fmt i) (i_op i) = Some d -> vrow_of a (i_fmt i) (i_op i) = Some r ->
     let '(m0, m1, m2) := modes_of (i_fmt i) (i_op i) in vadm64 m0 m1 m2 d r i) ->
  agree_v a st i.
Proof. exact vector_agree64. Qed.
Print Assumptions impl_eq_spec_vector64.

Theorem impl_eq_spec_readfirstlane : forall a st i, i_fmt i = F_VOP1 -> i_op i = 2 -> wf st ->
  0 <= i_lit i < W32 -> admv (i_src0 i) -> admd32 (i_dst i) -> agree_v a st i.
Proof. exact readfirstlane_agree. Qed.
Print Assumptions impl_eq_spec_readfirstlane.

Theorem gcn3_cdna3_agree_vector : forall st i,
  In (i_fmt i, i_op i) (vrows GCN3) -> wf st -> 0 <= i_lit i < W32 ->
  (forall a d r, vdesc_of a (i_fmt i) (i_op i) = Some d -> vrow_of a (i_fmt i) (i_op i) = Some r -> vadm d r i) ->
  exists s1 s2, exec_vector GCN3 st i = Some s1 /\ exec_vector CDNA3 st i = Some s2 /\ state_eq s1 s2.
Proof. exact vector_both. Qed.
Print Assumptions gcn3_cdna3_agree_vector.

(** The lane loop itself: what the sequential Go loop computes is the lane-wise
    map (this is the local version of the discipline C06 proves generically). *)
Theorem lane_loop_is_map : forall e d dcnt g st valof flagof,
  (forall l v, valof l = Some v -> is_vgpr d = true) ->
  (forall l s, lane_agree st s l -> g l s = Some (valof l, flagof l)) ->
  exists s', vloop e d dcnt g st =
      Some (s', fold_left (fm_impl (fun l => bit e l && flagof l)) lanes 0) /\
    scal_agree st s' /\
    forall l r, vgpr s' l r =
      if memz l lanes && bit e l then newv d dcnt (valof l) (vgpr st l) r else vgpr st l r.
Proof.
  intros e d dcnt g st valof flagof H1 H2. rewrite vloop_fold.
  apply (vloop_gen e d dcnt g st valof flagof H1 H2).
  - rewrite lanes_eq. apply nodup_lanes_upto.
  - apply scal_agree_refl.
  - reflexivity.
Qed.
Print Assumptions lane_loop_is_map.

(** * Full-strength statement and its refutations.
    [conforms a f op wide]: the handler of (ALU a, format f, opcode op) agrees
    with the manual on every well-formed state and all covered operands. *)
Definition conforms (a : arch) (f : format) (op : Z) (wide : bool) : Prop :=
  forall st i, wf st -> i_fmt i = f -> i_op i = op -> 0 <= i_lit i < W32 ->
    (i_src0 i = -1 \/ adm32 wide (i_src0 i) \/ adm64 (i_src0 i)) ->
    (i_src1 i = -1 \/ adm32 wide (i_src1 i)) ->
    (admd32 (i_dst i) \/ admd64 (i_dst i)) -> agree a st i.

Lemma refuted_not_conforms : forall a f op wide, refuted a f op wide -> ~ conforms a f op wide.
Proof.
  intros a f op wide (st & i & Hwf & Hf & Hop & Hl & H0 & H1 & Hd & Hn) Hc.
  apply Hn. apply Hc; auto.
Qed.

(** The one handler deviation that remains: CDNA3 s_abs_i32 (the repository's
    pinned test asserts SCC = (S0 < 0)). *)
Theorem cdna3_deviations_refuted : ~ conforms CDNA3 F_SOP1 48 false.
Proof. apply refuted_not_conforms. exact c_abs_i32. Qed.
Print Assumptions cdna3_deviations_refuted.

(** Operand kinds: s_mov_b32 s2, vccz and s_mov_b32 s2, execz panic. *)
Theorem special_operand_refuted :
  operand_refuted GCN3 251 2 /\ operand_refuted CDNA3 251 2 /\
  operand_refuted GCN3 252 2 /\ operand_refuted CDNA3 252 2.
Proof. repeat split. exact g_vccz_src. exact c_vccz_src. exact g_execz_src. exact c_execz_src. Qed.
Print Assumptions special_operand_refuted.

(** * Non-vacuity: the hypotheses are satisfiable on a concrete non-trivial
    state, and the conclusion is the expected architectural effect. *)
Example ex_state : state := wst [(0, 4294967295); (1, 1)] 0 5 7.
Example ex_wf : wf ex_state.
Proof. apply wf_wst; [reflexivity|auto|unfold W64; lia|unfold W64; lia]. Qed.
Example ex_add_carry :     (* s_add_u32 s2, s0, s1 with s0 = 0xffffffff, s1 = 1: D = 0, SCC = 1 *)
  match exec_scalar CDNA3 ex_state (i2 0 0 1 2), exec_spec CDNA3 ex_state (i2 0 0 1 2) with
  | Some s1, Some s2 => sgpr s1 2 = 0 /\ scc s1 = 1 /\ sgpr s2 2 = 0 /\ scc s2 = 1 /\ sgpr s1 0 = 4294967295
  | _, _ => False
  end.
Proof. vm_compute. repeat split. Qed.
Example ex_hyp_sop2 : In (i_op (i2 0 0 1 2)) (sop2_rows32 GCN3) /\ adm32 true 0 /\ adm32 true 106 /\ adm32 false 107 /\ admd32 126.
Proof. repeat split; cbn; unfold adm32, admd32; auto; lia. Qed.
Example ex_branch_taken :  (* s_cbranch_scc0 -2 from pc = 1024 *)
  match exec_scalar GCN3 ex_state (mkInst F_SOPP 4 (-1) (-1) (-1) (-1) 65534 0) with
  | Some s => pc s = 1016 | None => False end.
Proof. vm_compute. reflexivity. Qed.

Example ex_vector_hyp :   (* v_addc_u32 v5, v1, v2 : a row of both ALUs, admissible operands *)
  let i := mkInst F_VOP2 28 257 258 (-1) 261 0 0 in
  In (i_fmt i, i_op i) (vrows GCN3) /\ In (i_fmt i, i_op i) (vrows CDNA3) /\
  forall a d r, vdesc_of a (i_fmt i) (i_op i) = Some d -> vrow_of a (i_fmt i) (i_op i) = Some r -> vadm d r i.
Proof.
  cbv zeta. split; [unfold vrows; cbn [In]; tauto|]. split; [unfold vrows; cbn [In]; tauto|].
  intros a d r Hd Hr. destruct a; cbn in Hd, Hr; inversion Hd; inversion Hr; subst;
    unfold vadm, admv, is_vgpr; cbn; repeat split; auto; intros; try lia; left; reflexivity.
Qed.


(** * Memory instructions (SMEM / FLAT-GLOBAL / DS) over the byte maps [mem] and [lds].
    [exec_mem] transcribes the Go handlers (sequential lane loop, storage
    accessor = byte map modulo 2^64, LDS = slice of [lsz] bytes); [exec_spec_mem]
    the manuals (address computation, EXEC masking, frame).  [agree_m]: both are
    defined and the resulting states are extensionally equal, memory included. *)
Theorem impl_eq_spec_smem : forall a lsz st i k, i_fmt i = F_SMEM ->
  In (i_op i, k) [(0, 1); (1, 2); (2, 4); (3, 8); (4, 16)] ->      (* s_load_dword, x2, x4, x8, x16 *)
  0 <= i_src0 i <= 100 -> 0 <= i_dst i -> i_dst i + k <= 102 ->
  (i_src1 i = 255 \/ 0 <= i_src1 i <= 101) -> agree_m a lsz st i.
Proof. exact smem_agree. Qed.
Print Assumptions impl_eq_spec_smem.

(** flat/global loads: ubyte, sbyte, ushort, dword, x2, x3, x4 *)
Theorem impl_eq_spec_flat_load : forall a lsz st i k val, i_fmt i = F_FLAT -> wf st ->
  flat_load_row (i_op i) = Some (k, val) -> flat_ok a i = true -> vrange_ok (i_dst i) k = true ->
  agree_m a lsz st i.
Proof. exact flat_load_agree. Qed.
Print Assumptions impl_eq_spec_flat_load.

(** flat/global stores: dword, x2, x3, x4 *)
Theorem impl_eq_spec_flat_store : forall a lsz st i k, i_fmt i = F_FLAT -> wf st ->
  flat_store_row (i_op i) = Some k -> flat_ok a i = true -> vrange_ok (i_src1 i) k = true ->
  agree_m a lsz st i.
Proof. exact flat_store_agree. Qed.
Print Assumptions impl_eq_spec_flat_store.

Theorem impl_eq_spec_ds_read : forall a lsz st i k, i_fmt i = F_DS ->
  In (i_op i, k) [(54, 1); (118, 2); (255, 4)] -> (i_op i = 255 -> a = CDNA3) ->
  vrange_ok (i_src0 i) 1 = true -> vrange_ok (i_dst i) k = true ->
  ds_inside st lsz (fun l => ds_ea st i l (ds_off0 i)) (4 * k) = true ->
  agree_m a lsz st i.
Proof. exact ds_read_agree. Qed.
Print Assumptions impl_eq_spec_ds_read.

Theorem impl_eq_spec_ds_read2 : forall a lsz st i k, i_fmt i = F_DS ->
  In (i_op i, k) [(55, 1); (119, 2)] ->
  vrange_ok (i_src0 i) 1 = true -> vrange_ok (i_dst i) (2 * k) = true ->
  ds_inside st lsz (fun l => ds_ea st i l (ds_off0 i * (4 * k))) (4 * k) = true ->
  ds_inside st lsz (fun l => ds_ea st i l (ds_off1 i * (4 * k))) (4 * k) = true ->
  agree_m a lsz st i.
Proof. exact ds_read2_agree. Qed.
Print Assumptions impl_eq_spec_ds_read2.

Theorem impl_eq_spec_ds_write : forall a lsz st i k, i_fmt i = F_DS ->
  In (i_op i, k) [(13, 1); (223, 4)] -> (i_op i = 223 -> a = CDNA3) ->
  vrange_ok (i_src0 i) 1 = true -> vrange_ok (i_src1 i) k = true ->
  ds_inside st lsz (fun l => ds_ea st i l (ds_off0 i)) (4 * k) = true ->
  agree_m a lsz st i.
Proof. exact ds_write_agree. Qed.
Print Assumptions impl_eq_spec_ds_write.

Theorem impl_eq_spec_ds_write2 : forall a lsz st i k, i_fmt i = F_DS ->
  In (i_op i, k) [(14, 1); (78, 2)] ->
  vrange_ok (i_src0 i) 1 = true -> vrange_ok (i_src1 i) k = true -> vrange_ok (i_src2 i) k = true ->
  ds_inside st lsz (fun l => ds_ea st i l (ds_off0 i * (4 * k))) (4 * k) = true ->
  ds_inside st lsz (fun l => ds_ea st i l (ds_off1 i * (4 * k))) (4 * k) = true ->
  agree_m a lsz st i.
Proof. exact ds_write2_agree. Qed.
Print Assumptions impl_eq_spec_ds_write2.

(** non-vacuity: global_load_dword v3, v[0:1], off offset:4 with EXEC = 1 reads
    the little-endian dword at v[0:1] + 4 of lane 0 into v3 of lane 0 *)
Example ex_mem_state : state :=
  mkState (fun _ => 0) (fun l r => if (l =? 0) && (r =? 0) then 4096 else 0) 1 0 0 0 1024
          (fun x => if x =? 4100 then 120 else if x =? 4101 then 86 else if x =? 4102 then 52 else if x =? 4103 then 18 else 0)
          (fun _ => 0).
Example ex_mem_load :
  let i := mkInst F_FLAT 20 256 256 127 259 4 0 in
  flat_ok CDNA3 i = true /\ vrange_ok (i_dst i) 1 = true /\
  match exec_mem CDNA3 256 ex_mem_state i, exec_spec_mem CDNA3 256 ex_mem_state i with
  | Some s1, Some s2 => vgpr s1 0 3 = 305419896 /\ vgpr s2 0 3 = 305419896 /\ vgpr s1 1 3 = 0
  | _, _ => False
  end.
Proof. vm_compute. repeat split; reflexivity. Qed.

(** * Binary32 instructions (Flocq).
    Everything above this line is closed under the global context.  The
    theorems of this section speak about IEEE 754 binary32 as formalised by
    Flocq 4 ([IsaFloat]); Flocq's definitions rest on the classical real numbers of
    Coq's standard library, so Print Assumptions lists the four assumptions of
    that library (this development introduces none).  NaN payloads are not part
    of the model: the differential check compares NaN results as a class.

    [exec_vector_f] / [exec_spec_vf] are the complete vector transcriptions
    (float rows first, the integer tables of the previous section otherwise);
    they are what ./check C03 evaluates on the recorded runs. *)
Theorem impl_eq_spec_float : forall a st i,
  In (i_fmt i, i_op i) (frows a) -> wf st -> 0 <= i_lit i < W32 ->
  (forall d r, vdesc_f a (i_fmt i) (i_op i) = Some d -> vrow_f a (i_fmt i) (i_op i) = Some r -> vadm d r i) ->
  agree_vf a st i.
Proof. exact float_agree. Qed.
Print Assumptions impl_eq_spec_float.

(** The float range tests of the v_cvt_u32_f32 / v_cvt_i32_f32 handlers (NaN,
    src <= 0, src >= 2^32; src >= 2^31, src <= -2^31; otherwise the in-range Go
    conversion) are truncation toward zero followed by saturation on the
    integers, for every bit pattern (rows (VOP1, 7) and (VOP1, 8) of [frows]). *)
Theorem cvt_range_tests_are_saturation : forall x, 0 <= x < W32 ->
  go_cvt_u32 x = cvt_u32_f32 x /\ u32 (go_cvt_i32 x) = cvt_i32_f32 x mod W32.
Proof. intros x Hx. split; [apply (cvt_u32_eq x Hx)|apply (cvt_i32_eq x Hx)]. Qed.
Print Assumptions cvt_range_tests_are_saturation.

(** binary64 arithmetic and the conversions that read or write a register pair
    ([frows64]: v_cvt_f64_i32, v_cvt_f32_f64, v_cvt_f64_f32, v_add_f64,
    v_mul_f64, both ALUs; v_cvt_f64_u32 on CDNA3); [fmodes_of] says how each operand is read. *)
Theorem impl_eq_spec_float64 : forall a st i,
  In (i_fmt i, i_op i) (frows64 a) -> wf st -> 0 <= i_lit i < W32 ->
  (forall d r, vdesc_f a (i_fmt i) (i_op i) = Some d -> vrow_f a (i_fmt i) (i_op i) = Some r ->
     let '(m0, m1, m2) := fmodes_of (i_fmt i) (i_op i) in vadm64 m0 m1 m2 d r i) ->
  agree_vf a st i.
Proof. exact float_agree64. Qed.
Print Assumptions impl_eq_spec_float64.

(** CDNA3 v_cvt_f64_u32 is an ordinary row of [frows64 CDNA3] since the repair of
    the decode table (DSTWidth 64).  Before the repair WriteOperand stored only
    the low dword: the old descriptor leaves the high dword of the destination
    pair untouched (0 here), the manual and the repaired handler write
    0x41d00000 = high dword of 1065353217.0. *)
Example cvt_f64_u32_refuted_before_fix :
  match run_d vd_cvt_f64_u32_before_fix (fst0 0) cvt_f64_u32_witness, exec_spec_vf CDNA3 (fst0 0) cvt_f64_u32_witness,
        exec_vector_f CDNA3 (fst0 0) cvt_f64_u32_witness with
  | Some s1, Some s2, Some s3 => vgpr s1 0 4 = 0 /\ vgpr s2 0 4 = 1104134144 /\ vgpr s3 0 4 = 1104134144
  | _, _, _ => False
  end.
Proof. exact c_cvt_f64_u32_before_fix. Qed.

(** The integer theorems are statements about the complete model as well. *)
Theorem complete_model_on_integer_rows : forall a st i,
  In (i_fmt i, i_op i) ((F_VOP1, 2) :: vrows a ++ vrows64) ->
  exec_vector_f a st i = exec_vector a st i /\ exec_spec_vf a st i = exec_spec_v a st i.
Proof.
  intros a st i Hin. destruct (int_rows_not_float a _ _ Hin) as [H1 H2].
  unfold exec_vector_f, exec_spec_vf. rewrite H1, H2. split; reflexivity.
Qed.
Print Assumptions complete_model_on_integer_rows.

(** CDNA3 v_fma_f32, v_fmac_f32, v_fmaak_f32, v_fmamk_f32: the manual prescribes
    a fused multiply-add (one rounding); the handlers compute
    float32(src0*src1) + src2 with two roundings.  Witness: a = b = 1 + 2^-23,
    c = -RN(a*b); fused result 2^-46, handler result +0. *)
Theorem cdna3_fused_refuted :
  fused_refuted F_VOP3A 459 (mkInst F_VOP3A 459 256 257 258 259 0 0) 0 /\
  fused_refuted F_VOP2 59 (mkInst F_VOP2 59 256 257 259 259 0 0) 3212836866 /\
  fused_refuted F_VOP2 24 (mkInst F_VOP2 24 256 257 255 259 0 3212836866) 0 /\
  fused_refuted F_VOP2 23 (mkInst F_VOP2 23 256 258 255 259 0 1065353217) 0.
Proof. repeat split; try apply c_fma_f32; try apply c_fmac_f32; try apply c_fmaak_f32; try apply c_fmamk_f32. Qed.
Print Assumptions cdna3_fused_refuted.

Example ex_float_hyp :    (* v_mac_f32 v3, v0, v1 on GCN3: a float row with admissible operands *)
  let i := mkInst F_VOP2 22 256 257 259 259 0 0 in
  In (i_fmt i, i_op i) (frows GCN3) /\
  forall d r, vdesc_f GCN3 (i_fmt i) (i_op i) = Some d -> vrow_f GCN3 (i_fmt i) (i_op i) = Some r -> vadm d r i.
Proof.
  cbv zeta. split; [unfold frows; cbn [In]; tauto|].
  intros d r Hd Hr. cbn in Hd, Hr; inversion Hd; inversion Hr; subst;
    unfold vadm, admv, is_vgpr; cbn; repeat split; auto; intros; try lia; left; reflexivity.
Qed.
Example ex_float_value :  (* 1.0 + 2.0 = 3.0; 0.1f * 3.0f rounds to 0x3e99999a *)
  f32_add 1065353216 1073741824 = 1077936128 /\ f32_mul 1036831949 1077936128 = 1050253722.
Proof. vm_compute. split; reflexivity. Qed.

Example ex_float64_value :  (* 1.0 + 2.0 = 3.0 in binary64; float32(0.1) = 0x3dcccccd; float64(1.5f) *)
  f64_add 4607182418800017408 4611686018427387904 = 4613937818241073152 /\
  f32_of_f64 4591870180066957722 = 1036831949 /\ f64_of_f32 1069547520 = 4609434218613702656 /\
  f32_truncf 3217031168 = 3212836864 /\ f32_rndne 1075838976 = 1073741824 /\   (* trunc(-1.5) = -1; rndne(2.5) = 2 *)
  go_cvt_u32 1333788672 = 4294967295 /\ go_cvt_i32 3472883713 = 2147483648.  (* 2^32 saturates; -2^31-256 -> MinInt32 *)
Proof. vm_compute. repeat split; reflexivity. Qed.
