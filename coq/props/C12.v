(** C12 — command queues are FIFO and waiting on them always terminates.
    Statements only; proofs are in VDrv.QueueSafety / QueueInv / QueueLive.

    The model (VDrv.Queue, VDrv.Handoff) is a labelled transition system with
    one transition per yield point of amd/driver: any number of application
    threads running any sequence of Enqueue / DrainCommandQueue calls on any
    number of queues in any number of contexts ([cs] = the context of each
    queue, context by context as Driver.Tick and findCommandByReqID visit them),
    the runAsync goroutine, the engine goroutines.  A schedule is a list of
    thread steps; [run c (init_ctx cs ps) sched] ranges over every interleaving.  [cfg_orig] is the code as found, [cfg_fixed] the code
    after the two repairs (listener channel of capacity 1; engineRerun).

    PARTIAL by nature: the theorems speak about interleavings of atomic steps
    (sequential consistency).  The Go scheduler and the Go memory model — data
    races on CommandQueue.IsRunning, Context.buffers, Driver.codeObjGPUAddrs —
    are not expressible here. *)
From Coq Require Import List NArith Bool Arith.
Import ListNotations.
From VDrv Require Import Queue Handoff QueueSafety QueueInv QueueLive QueueRank QueueTerm QueueStop.
From VDrv Require MultiReq MultiReqProofs MultiReqCheck.

(** ** Safety (both configurations) *)

(** Per queue: what was submitted = what completed ++ what is still queued
    (completion order is submission order); what was started = what completed
    plus, while IsRunning, exactly the head (one command at a time, and only
    after all its predecessors completed). *)
Theorem queue_fifo : forall c cs ps sched s,
  run c (init_ctx cs ps) sched = Some s ->
  forall q qq, nth_error (queues s) q = Some qq ->
    q_enq qq = q_done qq ++ map c_id (q_cmds qq) /\
    q_start qq = q_done qq ++ (if q_running qq then firstn 1 (map c_id (q_cmds qq)) else []) /\
    (q_running qq = true -> q_cmds qq <> []).
Proof.
  intros c cs ps sched s H q qq Hq.
  exact (Forall_nth_error _ _ _ _ (run_fifo c sched _ _ (init_ctx_fifo cs ps) H) Hq).
Qed.
Print Assumptions queue_fifo.

(** A queue without commands is never marked as running, and every transition that
    completes a command (q_done grows: a no-op executed, a response matched)
    leaves its queue not running - so the next command of that queue can start
    (processNewCommandFromCmdQueue skips a queue only while IsRunning).  On the
    real driver the same state invariant is read after every quiet point of the
    copy-mode runs (zero-byte copies, copies without flush, no-ops, kernels). *)
Theorem idle_queue_not_running : forall c cs ps sched s q qq,
  run c (init_ctx cs ps) sched = Some s ->
  nth_error (queues s) q = Some qq -> q_cmds qq = [] -> q_running qq = false.
Proof.
  intros c cs ps sched s q qq H Hq E.
  destruct (queue_fifo c cs ps sched s H q qq Hq) as (_ & _ & R).
  destruct (q_running qq); [exfalso; apply (R eq_refl); exact E|reflexivity].
Qed.
Print Assumptions idle_queue_not_running.

Theorem completion_clears_running : forall c cs ps sched s l s' q qq qq',
  run c (init_ctx cs ps) sched = Some s -> step c s l = Some s' ->
  nth_error (queues s) q = Some qq -> nth_error (queues s') q = Some qq' ->
  q_done qq' <> q_done qq -> q_running qq' = false.
Proof.
  intros c cs ps sched s l s' q qq qq' H Hs Hq Hq' D.
  exact (step_completion_clears_running c s l s' q qq qq' (run_fifo c sched _ _ (init_ctx_fifo cs ps) H) Hs Hq Hq' D).
Qed.
Print Assumptions completion_clears_running.

(** Queues do not disturb each other: the history of queue q consists of
    exactly the Enqueue calls addressed to q, in the order they were made;
    each thread's calls appear in its program order; a transition changes
    at most the one queue it is about (for a response: the queue
    findCommandByReqID returns); and queues never change their context. *)
Theorem queues_isolated : forall c cs ps sched s,
  run c (init_ctx cs ps) sched = Some s ->
  map q_ctx (queues s) = cs /\
  (forall q qq, nth_error (queues s) q = Some qq -> q_enq qq = log_for q (g_log s)) /\
  (forall t a p, nth_error (apps s) t = Some a -> nth_error ps t = Some p ->
                 enqs_of t p = thread_log t (g_log s) ++ enqs_of t (a_prog a)) /\
  (forall l s', step c s l = Some s' ->
                forall q, touched s l <> Some q -> nth_error (queues s') q = nth_error (queues s) q).
Proof.
  intros c cs ps sched s H. split; [|split; [|split]].
  - rewrite (run_ctx c sched _ _ H). simpl. rewrite map_map. simpl. apply map_id.
  - exact (run_log c sched _ _ (init_ctx_log cs ps) H).
  - exact (proj2 (run_prog ps c sched _ _ (init_ctx_prog cs ps) H)).
  - intros l s' Hs. exact (step_frame c s l s' Hs).
Qed.
Print Assumptions queues_isolated.

(** ** Liveness *)

(** Full-strength statement: in no reachable state is every thread blocked
    while an application thread still has calls to finish. *)
Definition drain_returns_in (c : cfg) : Prop :=
  forall cs ps sched s,
    progs_ok (length cs) ps = true -> run c (init_ctx cs ps) sched = Some s -> deadlocked c s = false.

(** FALSE of the code as found.  (1) Lost wake-up: one thread, one queue,
    Enqueue; Drain — the waiter is parked on an empty queue forever. *)
Theorem drain_returns_refuted :
  exists nq ps sched s,
    progs_ok nq ps = true /\ run cfg_orig (init nq ps) sched = Some s /\
    deadlocked cfg_orig s = true /\ lost_waiter s = true.
Proof. exists 1, prog_lost, sched_lost. eexists. vm_compute. repeat split; reflexivity. Qed.
Print Assumptions drain_returns_refuted.

(** (2) Engine-exit race: Enqueue; Drain; Enqueue; Drain — a tick is pending,
    engineRunning was true when runAsync looked, nobody runs the engine. *)
Theorem drain_returns_refuted_exit :
  exists nq ps sched s,
    progs_ok nq ps = true /\ run cfg_orig (init nq ps) sched = Some s /\
    deadlocked cfg_orig s = true /\ tick s = true /\ eng s = None /\ ewait s = 0.
Proof. exists 1, prog_exit, sched_exit. eexists. vm_compute. repeat split; reflexivity. Qed.
Print Assumptions drain_returns_refuted_exit.

Corollary drain_returns_orig_false : ~ drain_returns_in cfg_orig.
Proof.
  intros H. specialize (H [0] prog_lost sched_lost).
  destruct (run cfg_orig (init_ctx [0] prog_lost) sched_lost) as [s|] eqn:E; [|vm_compute in E; discriminate].
  specialize (H s eq_refl eq_refl). revert E H. vm_compute. intros E. injection E as <-. discriminate.
Qed.
Print Assumptions drain_returns_orig_false.

(** Each repair alone is not enough: the same two schedules. *)
Theorem one_repair_is_not_enough :
  ~ drain_returns_in (mkCfg true false) /\ ~ drain_returns_in (mkCfg false true).
Proof.
  split; intros H.
  - specialize (H [0] prog_exit sched_exit).
    destruct (run (mkCfg true false) (init_ctx [0] prog_exit) sched_exit) as [s|] eqn:E; [|vm_compute in E; discriminate].
    specialize (H s eq_refl eq_refl). revert E H. vm_compute. intros E. injection E as <-. discriminate.
  - specialize (H [0] prog_lost sched_lost).
    destruct (run (mkCfg false true) (init_ctx [0] prog_lost) sched_lost) as [s|] eqn:E; [|vm_compute in E; discriminate].
    specialize (H s eq_refl eq_refl). revert E H. vm_compute. intros E. injection E as <-. discriminate.
Qed.
Print Assumptions one_repair_is_not_enough.

(** TRUE of the repaired code, for every number of threads, queues and
    commands and every schedule (inductive invariant [inv]). *)
Theorem drain_returns : drain_returns_in cfg_fixed.
Proof.
  intros cs ps sched s Hp Hr. apply inv_not_deadlocked.
  exact (run_inv sched _ _ (init_ctx_inv cs ps Hp) Hr).
Qed.
Print Assumptions drain_returns.

(** Responses and contexts: whatever the number and the order of the contexts, a
    response waiting in the driver's port is matched by findCommandByReqID (first
    hit, context by context, queue by queue, on the request ID) to the queue that
    issued the request - which is running, not empty, and the only one with
    that ID - so that by [queues_isolated] processing it changes no queue of
    any other context, and no other queue of its own. *)
Theorem response_matched_to_issuer : forall cs ps sched s q r,
  progs_ok (length cs) ps = true -> run cfg_fixed (init_ctx cs ps) sched = Some s ->
  resp s = q :: r ->
  match_response s q = Some q /\
  exists qq, nth_error (queues s) q = Some qq /\ q_running qq = true /\ q_cmds qq <> [] /\
             forall q' qq', nth_error (queues s) q' = Some qq' -> q_running qq' = true ->
                            q_req qq' = q_req qq -> q' = q.
Proof.
  intros cs ps sched s q r Hp Hr Hq.
  pose proof (run_inv sched _ _ (init_ctx_inv cs ps Hp) Hr) as I.
  split; [exact (resp_matched s I q r Hq)|].
  destruct (i_flight s I) as (_ & Hf). destruct (Hf q) as (qq & E & R & C).
  { unfold flight. rewrite Hq. rewrite !in_app_iff. simpl. tauto. }
  exists qq. repeat split; auto. intros q' qq' E' R' Q'. exact (proj2 (i_req s I) q' q qq' qq E' E R' R Q').
Qed.
Print Assumptions response_matched_to_issuer.

(** ... and it always returns.  The ranking function [rank] (VDrv.QueueRank)
    strictly decreases on every transition of the repaired protocol, so: every
    schedule has at most [rank (init nq ps)] steps; from any reachable state
    [s] at most [rank s] further steps are possible, under ANY scheduler (no
    fairness assumption is needed, hence in particular under weak fairness);
    and when no further step is possible every DrainCommandQueue has returned. *)
Theorem drain_returns_progress : forall cs ps sched s,
  progs_ok (length cs) ps = true -> run cfg_fixed (init_ctx cs ps) sched = Some s ->
  length sched + rank s <= rank (init_ctx cs ps) /\
  (forall sched2 s2, run cfg_fixed s sched2 = Some s2 -> length sched2 + rank s2 <= rank s) /\
  (stuck cfg_fixed s = true -> all_done s = true).
Proof. exact schedules_finite_and_complete_ctx. Qed.
Print Assumptions drain_returns_progress.

Theorem rank_decreases : forall s l s',
  inv s -> step cfg_fixed s l = Some s' -> rank s' < rank s.
Proof. exact step_rank. Qed.
Print Assumptions rank_decreases.

(** What the invariant says about a waiter: whoever is blocked in <-signal
    (or about to block without a buffered token) waits on a queue that still
    holds a command or whose Dequeue has not notified yet; and it never panics. *)
Theorem waiter_not_lost : forall cs ps sched s,
  progs_ok (length cs) ps = true -> run cfg_fixed (init_ctx cs ps) sched = Some s ->
  lost_waiter s = true -> exists q, ebool (epc_notifies q) (eng s) = true.
Proof.
  intros cs ps sched s Hp Hr Hl.
  pose proof (run_inv sched _ _ (init_ctx_inv cs ps Hp) Hr) as I.
  unfold lost_waiter in Hl. apply existsb_exists in Hl. destruct Hl as (a & Hin & Ha).
  apply In_nth_error in Hin. destruct Hin as (t & Ht).
  destruct (i_apps s I t a Ht) as (_ & _ & W & _).
  destruct (a_pc a) eqn:P; try discriminate. destruct W as (_ & qq & E & [C|N]).
  - rewrite E in Ha. destruct (q_cmds qq); [contradiction|discriminate].
  - eauto.
Qed.
Print Assumptions waiter_not_lost.

Theorem never_panics : forall cs ps sched s,
  progs_ok (length cs) ps = true -> run cfg_fixed (init_ctx cs ps) sched = Some s -> crashed s = false.
Proof.
  intros cs ps sched s Hp Hr. exact (i_crash s (run_inv sched _ _ (init_ctx_inv cs ps Hp) Hr)).
Qed.
Print Assumptions never_panics.

(** ** Shutdown
    Driver.Terminate (repaired) hands runAsync its stop signal while runAsync is in
    its select and then waits until engineRunning is false.  From any reachable
    state in which it can return ([erunning s = false]), whatever the engine
    goroutines still do (runAsync is gone, the application has stopped calling),
    nothing of the driver's state changes: the only step left is the release of
    engineMutex by a goroutine that has already given up the engine.  So the
    caller may tear down tracers and recorders.  (On the code before the repair
    Terminate could return with an engine goroutine in the middle of Driver.Tick:
    C01 finding teardown-race.) *)
Theorem after_terminate_engine_idle : forall cs ps sched s sched2 s2,
  progs_ok (length cs) ps = true -> run cfg_fixed (init_ctx cs ps) sched = Some s ->
  erunning s = false ->
  forallb engine_label sched2 = true -> run cfg_fixed s sched2 = Some s2 ->
  ewait s = 0 /\ (eng s = None \/ eng s = Some EExit) /\ driver_view s2 = driver_view s.
Proof.
  intros cs ps sched s sched2 s2 Hp Hr R L H2.
  pose proof (run_inv sched _ _ (init_ctx_inv cs ps Hp) Hr) as I.
  destruct (idle_engine s I R) as (W & E). repeat split; auto.
  exact (run_after_terminate sched2 s s2 I R L H2).
Qed.
Print Assumptions after_terminate_engine_idle.

(** ** The hypotheses are satisfiable on non-trivial states *)

Definition prog_two : list (list op) :=
  [[OEnq 0 (noop 1); OEnq 1 (mkCmd 2 Async); OEnq 0 (mkCmd 5 Empty); ODrain 0; ODrain 1];
   [OEnq 1 (noop 3); ODrain 1; OEnq 0 (mkCmd 4 Async); OEnq 0 (mkCmd 6 Empty); ODrain 0]].

(** Two threads, two queues, no-op, asynchronous and empty-copy commands: the first-enabled
    scheduler drives the repaired protocol to the state where every call has
    returned and both queues completed their commands in submission order. *)
Example fixed_runs_to_completion :
  progs_ok 2 prog_two = true /\
  let (sched, s) := auto_run 600 cfg_fixed (init 2 prog_two) in
  run cfg_fixed (init 2 prog_two) sched = Some s /\ all_done s = true /\
  map q_done (queues s) = [[1; 5; 4; 6]; [2; 3]]%N /\ map a_ret (apps s) = [2; 2].
Proof. vm_compute. repeat split; reflexivity. Qed.

(** ... while the same scheduler, on the code as found, after the lost
    wake-up prefix, ends in the deadlock. *)
(** The bound is not vacuous: 679 for that program, and the run above uses 190 steps. *)
Example rank_of_example :
  rank (init 2 prog_two) = 679 /\ length (fst (auto_run 600 cfg_fixed (init 2 prog_two))) = 190 /\
  rank (snd (auto_run 600 cfg_fixed (init 2 prog_two))) = 0.
Proof. vm_compute. repeat split; reflexivity. Qed.

Example orig_deadlocks :
  match run cfg_orig (init 1 prog_lost) sched_lost with
  | Some s => deadlocked cfg_orig s = true /\ map a_pc (apps s) = [AParked 0] /\ map q_cmds (queues s) = [[]]
  | None => False
  end.
Proof. vm_compute. repeat split; reflexivity. Qed.

(** ** Commands with several outstanding requests (unified multi-GPU kernel launch)
    [coq/drv/MultiReq.v]: one queue; a command [c] is started by one pass of
    processNewCommandFromCmdQueue, which sends [c_n c >= 1] requests (one per member
    GPU of the unified device) and appends them to the command's request list;
    [EReply k] = the answer to the k-th request still in that list is processed by
    processLaunchKernelReturn - the replies of one command arrive in any order and
    in different ticks, interleaved with any number of attempts [EStart] to start
    the next command.  Disabled events are skipped by [run], so EVERY list of events
    is a schedule.  Ghost: [sent] logs (position of the command in the submitted
    list, member), [nstarted]/[ndone] count starts and Dequeues.

    [multi_request_fifo]: for every schedule the queue is the submitted list minus
    its first [ndone] commands; the commands started are those done plus the running
    head - so each command is started once, in order; the requests sent are EXACTLY
    one per (command, member) of the started commands, in order ([expected_sent]);
    the queue is marked running precisely while a request of the head is outstanding. *)
Theorem multi_request_fifo : forall q0 evs, MultiReqProofs.all_pos q0 ->
  let s := MultiReq.run MultiReq.LastReply (MultiReq.init q0) evs in
  MultiReq.queue s = skipn (MultiReq.ndone s) q0 /\ (MultiReq.ndone s <= length q0)%nat
  /\ MultiReq.nstarted s = (MultiReq.ndone s + (if MultiReq.running s then 1 else 0))%nat
  /\ MultiReq.sent s = MultiReq.expected_sent q0 (MultiReq.nstarted s)
  /\ (MultiReq.running s = true <-> MultiReq.reqs s <> [])
  /\ (MultiReq.running s = true -> MultiReq.queue s <> []).
Proof. exact MultiReqProofs.multi_fifo. Qed.
Print Assumptions multi_request_fifo.

(** [multi_request_one_at_a_time]: in any reachable state, while a request of the head
    command is outstanding the only enabled events are replies - nothing is started,
    nothing is sent (no request of a later command, no second copy of the same
    command); a start leaves the queue as it is; a reply removes the command from the
    queue exactly when it was the last one, and until then the queue stays running. *)
Theorem multi_request_one_at_a_time : forall q0 evs e s', MultiReqProofs.all_pos q0 ->
  let s := MultiReq.run MultiReq.LastReply (MultiReq.init q0) evs in
  MultiReq.step MultiReq.LastReply s e = Some s' ->
  (MultiReq.reqs s <> [] ->
     MultiReq.sent s' = MultiReq.sent s /\ MultiReq.nstarted s' = MultiReq.nstarted s /\ exists k, e = MultiReq.EReply k)
  /\ (e = MultiReq.EStart ->
     MultiReq.reqs s = [] /\ MultiReq.queue s' = MultiReq.queue s /\ MultiReq.ndone s' = MultiReq.ndone s)
  /\ (forall k, e = MultiReq.EReply k ->
       (MultiReq.reqs s' = [] ->
          MultiReq.queue s' = tl (MultiReq.queue s) /\ MultiReq.ndone s' = S (MultiReq.ndone s) /\ MultiReq.running s' = false)
       /\ (MultiReq.reqs s' <> [] ->
          MultiReq.queue s' = MultiReq.queue s /\ MultiReq.ndone s' = MultiReq.ndone s /\ MultiReq.running s' = true)).
Proof. exact MultiReqProofs.multi_step. Qed.
Print Assumptions multi_request_one_at_a_time.

(** [multi_request_drained]: whenever a schedule has emptied the queue, every command
    was started once and the requests sent are exactly one per (command, member). *)
Theorem multi_request_drained : forall q0 evs, MultiReqProofs.all_pos q0 ->
  let s := MultiReq.run MultiReq.LastReply (MultiReq.init q0) evs in
  MultiReq.queue s = [] ->
  MultiReq.ndone s = length q0 /\ MultiReq.nstarted s = length q0 /\ MultiReq.running s = false
  /\ MultiReq.reqs s = [] /\ MultiReq.sent s = MultiReq.expected_sent q0 (length q0).
Proof. exact MultiReqCheck.multi_drained. Qed.
Print Assumptions multi_request_drained.

(** [multi_request_terminates]: [measure] = outstanding requests + (requests + 1) of
    every command not yet started; it drops by exactly one on every enabled event, so
    no schedule has more than [measure (init q0)] effective events and a queue that
    is not empty always has an enabled event left (a start or a reply). *)
Theorem multi_request_terminates : forall q0 evs e s', MultiReqProofs.all_pos q0 ->
  let s := MultiReq.run MultiReq.LastReply (MultiReq.init q0) evs in
  MultiReq.step MultiReq.LastReply s e = Some s' -> S (MultiReqCheck.measure s') = MultiReqCheck.measure s.
Proof. exact MultiReqCheck.multi_measure_decreases. Qed.
Print Assumptions multi_request_terminates.

(** The rule "the queue is idle again after the FIRST reply" (IsRunning cleared next to
    RemoveReq) is refuted: two members, the first one answers, the next pass over the
    queue starts the same command again - both members get the kernel a second time
    although nothing was dequeued. *)
Theorem multi_request_idle_on_first_reply_refuted : exists q0 evs, MultiReqProofs.all_pos q0 /\
  let s := MultiReq.run MultiReq.FirstReply (MultiReq.init q0) evs in
  MultiReq.sent s <> MultiReq.expected_sent q0 (length q0) /\ (MultiReq.nstarted s > MultiReq.ndone s + 1)%nat
  /\ (forall x, ~ (In x (MultiReq.sent s) /\ (fst x >= 1)%nat))
  /\ ~ NoDup (MultiReq.sent s) /\ MultiReq.nstarted s = 2%nat /\ MultiReq.ndone s = 0%nat.
Proof. exact MultiReqProofs.multi_first_reply_refuted. Qed.
Print Assumptions multi_request_idle_on_first_reply_refuted.

(** Non-vacuity: three commands with 3, 1 and 2 requests, replies out of order, idle
    start attempts in between: all complete, six requests, one per (command, member). *)
Example multi_request_example :
  MultiReqProofs.all_pos [MultiReq.mkCmd 1 3; MultiReq.mkCmd 2 1; MultiReq.mkCmd 3 2] /\
  let s := MultiReq.run MultiReq.LastReply (MultiReq.init [MultiReq.mkCmd 1 3; MultiReq.mkCmd 2 1; MultiReq.mkCmd 3 2])
             [MultiReq.EStart; MultiReq.EReply 1; MultiReq.EStart; MultiReq.EReply 1; MultiReq.EReply 0; MultiReq.EStart;
              MultiReq.EReply 0; MultiReq.EStart; MultiReq.EReply 1; MultiReq.EReply 0]%nat in
  MultiReq.queue s = [] /\ MultiReq.ndone s = 3%nat
  /\ MultiReq.sent s = [(0,0);(0,1);(0,2);(1,0);(2,0);(2,1)]%nat.
Proof. split; [repeat constructor | exact MultiReqProofs.multi_example]. Qed.
