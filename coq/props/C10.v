(** C10 - device memory management never aliases pages or corrupts mappings.
    Statements only; the proofs are in drv/AllocProofs.v (list allocator,
    mirror, page table, contexts) and drv/BuddyProofs.v (buddy allocator).
    The model drv/Alloc.v follows amd/driver after the repairs listed in
    docs/C10.md; every theorem quantifies over ALL finite histories of API
    calls with arbitrary arguments issued through any number of contexts and
    processes, for every page size 2^l (l <= 32) and every list of GPU sizes. *)
From Coq Require Import List NArith Bool Lia.
Import ListNotations.
From VDrv Require Import Alloc AllocProofs Buddy BuddyProofs.
Open Scope N_scope.

(** a history is admissible when migration preparation (not a public API: it
    is triggered by a GPU's page-migration request) targets an ordinary device *)
Definition admissible (l : N) (gpus : list N) (ops : list op) : Prop := guarded (init l gpus) ops.

(** The state invariant, spelled out. *)
Record MemSafe (s : st) : Prop := {
  (* every live page: key = its (PID, vaddr); vaddr and paddr page aligned; paddr inside the memory of
     the device recorded in the page, among the pages that device handed out; not on any free list *)
  ms_pages : forall k pg, In (k, pg) (pt s) ->
     k = (p_pid pg, p_va pg) /\ (psz s | p_va pg) /\ (psz s | p_pa pg) /\
     (exists di d, p_dev pg = N.of_nat di /\ nth_error (devs s) di = Some d /\
                   d_base d <= p_pa pg < d_base d + d_size d /\ d_base d <= p_pa pg < d_lo d /\
                   ~ In (p_pa pg) (d_tail d)) /\
     ~ avail (psz s) (devs s) (p_pa pg);
  (* physical pages of live virtual pages are pairwise distinct; one entry per virtual page *)
  ms_distinct : NoDup (pas (pt s)) /\ NoDup (map fst (pt s));
  (* the page table the hardware uses and the allocator's own mirror agree *)
  ms_mirror : mirror s = pt s;
  (* free lists: duplicate free, page aligned, inside their device *)
  ms_free : forall i d, nth_error (devs s) i = Some d ->
     NoDup (d_tail d) /\ forall p, is_free (psz s) d p -> (psz s | p) /\ d_base d <= p < d_base d + d_size d;
  (* every buffer ever returned is page aligned; two buffers returned to one process never overlap *)
  ms_buffers : (forall b, In b (g_bufs s) -> (psz s | buf_lo b)) /\
     (forall i j a b, i <> j -> nth_error (g_bufs s) i = Some a -> nth_error (g_bufs s) j = Some b ->
        buf_pid a = buf_pid b -> buf_hi (psz s) a <= buf_lo b \/ buf_hi (psz s) b <= buf_lo a)
}.

Theorem alloc_inv_preserved : forall l gpus ops, l <= 32 -> admissible l gpus ops ->
  let s := run (init l gpus) ops in
  crashed s = false -> MemSafe s.
Proof.
  intros l gpus ops Hl Hadm s Hnc.
  destruct (run_good ops (init l gpus) (or_intror (proj1 (init_Inv l gpus Hl))) Hadm) as [Hc|HI];
    [fold s in Hc; congruence|]. fold s in HI.
  constructor.
  - intros k pg. apply Inv_pages; auto.
  - apply Inv_distinct; auto.
  - apply HI.
  - intros i d. apply Inv_free_lists; auto.
  - apply Inv_buffers; auto.
Qed.
Print Assumptions alloc_inv_preserved.

(** Freeing a buffer (of n pages, as recorded at allocation) unmaps every one
    of its pages from the page table and the mirror, leaves every other
    mapping of every process untouched, and makes exactly the physical pages
    of the buffer reusable. *)
Theorem free_unmaps_all : forall l gpus ops c x ptr, l <= 32 -> admissible l gpus ops ->
  let s := run (init l gpus) ops in
  let s' := fst (step s (OFree c ptr)) in
  crashed s' = false -> nth_error (ctxs s) (N.to_nat c) = Some x ->
  exists n, alookup keqb (c_pid x, ptr) (allocs s) = Some n /\
    (forall i, i < n -> exists pg,
        alookup keqb (c_pid x, ptr + i * psz s) (pt s) = Some pg /\
        alookup keqb (c_pid x, ptr + i * psz s) (pt s') = None /\
        alookup keqb (c_pid x, ptr + i * psz s) (mirror s') = None /\
        avail (psz s) (devs s') (p_pa pg)) /\
    (forall k, (forall i, i < n -> k <> (c_pid x, ptr + i * psz s)) ->
        alookup keqb k (pt s') = alookup keqb k (pt s)) /\
    (forall q, avail (psz s) (devs s') q <->
        avail (psz s) (devs s) q \/
        exists i pg, i < n /\ alookup keqb (c_pid x, ptr + i * psz s) (pt s) = Some pg /\ q = p_pa pg).
Proof.
  intros l gpus ops c x ptr Hl Hadm s s' Hnc Hx.
  assert (Hc : crashed s = false).
  { destruct (crashed s) eqn:E; auto. subst s'. unfold step in Hnc. rewrite E in Hnc. cbn in Hnc. congruence. }
  destruct (run_good ops (init l gpus) (or_intror (proj1 (init_Inv l gpus Hl))) Hadm) as [Hc'|HI];
    [fold s in Hc'; congruence|]. fold s in HI.
  apply free_spec; auto.
Qed.
Print Assumptions free_unmaps_all.

(** No physical page is handed out while it is live: after any call, every
    physical page in the page table either was already there or was on a free
    list (hence, by the invariant, not live) before the call; and no physical
    page is mapped twice afterwards. *)
Theorem no_double_handout : forall l gpus ops o, l <= 32 -> admissible l gpus (ops ++ [o]) ->
  let s := run (init l gpus) ops in
  let s' := fst (step s o) in
  crashed s' = false ->
  NoDup (pas (pt s')) /\
  forall pa, In pa (pas (pt s')) ->
    In pa (pas (pt s)) \/ (avail (psz s) (devs s) pa /\ ~ In pa (pas (pt s))).
Proof.
  intros l gpus ops o Hl Hadm s s' Hnc.
  assert (Hc : crashed s = false).
  { destruct (crashed s) eqn:E; auto. subst s'. unfold step in Hnc. rewrite E in Hnc. cbn in Hnc. congruence. }
  assert (Hg : guarded (init l gpus) ops /\ op_guard s o).
  { unfold admissible in Hadm. clear -Hadm. subst s. revert Hadm. generalize (init l gpus).
    induction ops as [|a r IH]; cbn; intros s0 H; [tauto|]. destruct H as [H1 H2].
    apply IH in H2. tauto. }
  destruct Hg as [Hg1 Hg2].
  destruct (run_good ops (init l gpus) (or_intror (proj1 (init_Inv l gpus Hl))) Hg1) as [Hc'|HI];
    [fold s in Hc'; congruence|]. fold s in HI.
  destruct (step_spec s o HI Hc Hg2 Hnc) as [HI' Hh]. fold s' in HI', Hh.
  split; [apply Inv_distinct; auto|].
  intros pa Hpa. destruct (Hh pa Hpa) as [H|H]; auto. right. split; auto.
  destruct HI as ((P & _) & _). intros Hin. eapply avail_not_live; eauto. apply in_app_iff. auto.
Qed.
Print Assumptions no_double_handout.

(** Calls inside the API contract and the capacity of an ordinary target
    device never crash the driver: Init, InitWithExistingPID, SelectGPU of an
    existing device, CreateUnifiedGPU over real GPUs, removeFreedBuffers,
    AllocateMemory / AllocateUnifiedMemory of b > 0 bytes on an ordinary device
    with at least ceil(b / page size) free pages, FreeMemory of a pointer
    returned by an allocation of that process and not yet freed.  (Distribute,
    Remap, migration preparation and unified targets: monitored on sampled
    histories only, see docs/C10.md.) *)
Theorem no_crash_within_capacity : forall l gpus ops o, l <= 32 -> admissible l gpus ops ->
  let s := run (init l gpus) ops in
  crashed s = false -> op_ok s o -> crashed (fst (step s o)) = false.
Proof.
  intros l gpus ops o Hl Hadm s Hc Hok.
  destruct (run_good2 ops (init l gpus) (or_intror (init_Inv2 l gpus Hl)) Hadm) as [Hc'|H2];
    [fold s in Hc'; congruence|]. fold s in H2.
  apply step_no_crash; auto.
Qed.
Print Assumptions no_crash_within_capacity.

(** "a pointer returned by an allocation and not yet freed": the allocation
    record is exactly that - Allocate adds the entry, Free removes it, nothing
    else touches it. *)
Theorem alloc_then_free_ok : forall l gpus ops c x bytes, l <= 32 -> admissible l gpus ops ->
  let s := run (init l gpus) ops in
  let s1 := fst (step s (OAlloc c bytes)) in
  crashed s1 = false -> nth_error (ctxs s) (N.to_nat c) = Some x ->
  exists ptr, snd (step s (OAlloc c bytes)) = ORet [ptr] /\ op_ok s1 (OFree c ptr).
Proof.
  intros l gpus ops c x bytes Hl Hadm s s1 Hnc Hx.
  assert (Hc : crashed s = false).
  { destruct (crashed s) eqn:E; auto. subst s1. unfold step in Hnc. rewrite E in Hnc. cbn in Hnc. congruence. }
  subst s1. unfold step in *. rewrite Hc in *. unfold with_ctx in *. rewrite Hx in *.
  destruct (allocate (c_pid x) bytes (c_cur x) false s) as [[ptr s']|] eqn:E; [|cbn in Hnc; congruence].
  cbn [fst snd] in *. exists ptr. split; auto. cbn. intros y Hy.
  unfold allocate in E. destruct (bytes =? 0); [congruence|]. unfold alloc_pages in E.
  destruct (alloc_loop _ _ _ _ _ s) as [s2|] eqn:E2; [|congruence]. inversion E; subst; clear E.
  assert (Hpid : c_pid y = c_pid x).
  { cbn in Hy. assert (Hcx : ctxs s2 = ctxs s).
    { destruct (run_good ops (init l gpus) (or_intror (proj1 (init_Inv l gpus Hl))) Hadm) as [Hc'|HI];
        [fold s in Hc'; congruence|]. fold s in HI. pose proof HI as (I1 & I2 & I3 & _).
      apply alloc_loop_grow in E2; auto; [|apply next_va_aligned; auto].
      destruct (grow_fields _ _ E2) as (_ & _ & _ & F & _). exact F. }
    rewrite Hcx in Hy. rewrite nth_upd_nth_same in Hy by (eapply nth_error_lt; eauto). inversion Hy. reflexivity. }
  rewrite Hpid. cbn. unfold amem. rewrite (alookup_aset keqb keqb_eq). rewrite keqb_refl. reflexivity.
Qed.
Print Assumptions alloc_then_free_ok.

(** Conservation: every page of every device is, at any time, exactly one of
    free (on the device's free list), live (mapped in the page table), or
    dropped by a migration preparation (the previous copy of a migrated page,
    which the driver never gives back: it is the source of the migration copy).
    In histories without migration preparation nothing is ever dropped:
    free + live = all pages of the device.  (Before the repair of Remap every
    Remap/Distribute lost the previous pages of the range.) *)
Theorem pages_conserved : forall l gpus ops i d q, l <= 32 -> admissible l gpus ops ->
  let s := run (init l gpus) ops in
  crashed s = false ->
  nth_error (devs s) i = Some d -> (psz s | q) -> d_base d <= q < d_base d + d_size d ->
  (is_free (psz s) d q \/ In q (pas (pt s)) \/ In q (g_leaked s)) /\
  (is_free (psz s) d q -> ~ In q (pas (pt s)) /\ ~ In q (g_leaked s)) /\
  (In q (pas (pt s)) -> ~ In q (g_leaked s)) /\
  (forallb (fun o => negb (is_mig o)) ops = true -> g_leaked s = []).
Proof.
  intros l gpus ops i d q Hl Hadm s Hnc Hn Hq Hr.
  destruct (run_good ops (init l gpus) (or_intror (proj1 (init_Inv l gpus Hl))) Hadm) as [Hc|HI];
    [fold s in Hc; congruence|]. fold s in HI.
  destruct (Inv_conservation s i d q HI Hn Hq Hr) as (C1 & C2 & C3). splits; auto.
  intros Hm. subst s. rewrite run_leak; auto.
  destruct (init_ok l gpus Hl) as (_ & _ & _ & _ & _ & _ & _ & H8). exact H8.
Qed.
Print Assumptions pages_conserved.

(** * The buddy allocator (after the repair of allocateMultiplePages) *)

(** No history of allocations (of any number of pages) and frees (of arbitrary
    page lists, including pages never handed out and double frees) on a device
    of 2^k pages hands out a page that is still live. *)
Theorem buddy_no_overlap : forall base k ops, k < 64 ->
  double_handout (binit base (2 ^ k * 4096)) [] ops = false.
Proof. exact buddy_no_overlap_all. Qed.
Print Assumptions buddy_no_overlap.

(** In every state such a history reaches, the blocks on the free lists and
    the allocated blocks tile the device: every page lies in one of them, and
    two of them are never nested. *)
Theorem buddy_blocks_tile : forall base k ops b live outs, k < 64 ->
  brun (binit base (2 ^ k * 4096)) [] ops = Some (b, live, outs) ->
  (forall x, x < 2 ^ k -> exists l, l <= k /\
     let j := x / 2 ^ (k - l) in
     (In (addr b k l j) (get_level b l) \/ exists id, In (addr b k l j, l, id) (b_blocks b))) /\
  (forall l j l' j', l < l' -> l' <= k -> j' < 2 ^ l' -> j = j' / 2 ^ (l' - l) ->
     (In (addr b k l j) (get_level b l) \/ exists id, In (addr b k l j, l, id) (b_blocks b)) ->
     (In (addr b k l' j') (get_level b l') \/ exists id, In (addr b k l' j', l', id) (b_blocks b)) -> False).
Proof.
  intros base k ops b live outs Hk H. apply buddy_tiles.
  apply (brun_Binv k Hk ops _ [] (b, live, outs) (binit_Binv base k Hk) H).
Qed.
Print Assumptions buddy_blocks_tile.

(** the histories that made the unrepaired allocator hand out a live page are
    safe now (regressions; the same inputs are in corpus/C10) *)
Definition buddy_witness : list bop :=
  [BAlloc 1; BAlloc 1; BAlloc 1; BFree [4294979584]; BAlloc 1].

Example buddy_former_witness_safe :
  double_handout (binit 4294971392 (4 * 4096)) [] buddy_witness = false /\
  option_map (fun r => snd r) (brun (binit 4294971392 (4 * 4096)) [] buddy_witness) =
  Some [[4294971392]; [4294975488]; [4294979584]; []; [4294979584]].
Proof. vm_compute. split; reflexivity. Qed.

(** Non-vacuity: two processes, multi-page buffers, frees, a remap onto a
    unified device, a distribution and a migration preparation - the history
    is admissible, does not crash, and the first allocations of the two
    processes (same virtual address 0x1000) stay apart. *)
Definition demo : list op :=
  [OInit; OInit; OAlloc 0 100; OAlloc 1 100; OAlloc 0 12288; OFree 0 4096;
   OUnify [1; 2]; ORemap 1 4096 4096 3; OAlloc 1 20000; ODist 1 8192 20000 [1; 2];
   OMig 0 8192 1; OFree 0 8192; OSelect 0 3; OAlloc 0 8192].

Example demo_admissible : admissible 12 [16; 16] demo.
Proof. apply guardedb_ok. vm_compute. reflexivity. Qed.

Example demo_runs :
  let s := run (init 12 [16; 16]) demo in
  crashed s = false /\
  map (fun e => (fst e, p_pa (snd e), p_dev (snd e))) (pt s) =
    [(2, 4096, 4294991872, 1); (2, 8192, 4295016448, 1); (2, 12288, 4295020544, 1);
     (2, 16384, 4295036928, 2); (2, 20480, 4295041024, 2); (2, 24576, 4295045120, 2);
     (1, 20480, 4295024640, 1); (1, 24576, 4295053312, 2)] /\
  map fst (g_bufs s) = [(1, 4096); (2, 4096); (1, 8192); (2, 8192); (1, 20480)] /\
  map d_tail (devs s) = [[]; [4294971392; 4294975488; 4294995968; 4295000064; 4295004160; 4295008256;
                              4295012352; 4294983680; 4294987776]; [4295049216]; []] /\
  g_leaked s = [4294979584].
Proof. vm_compute. repeat split; reflexivity. Qed.
