(** C15 — the reorder buffer returns responses in request order, exactly once.
    Statements only; every proof is [exact <lemma>] into VMem.RobProofs / VMem.RobCtl / VMem.RobLive.
    [run (init c w) evs] ranges over every configuration (capacity c, width w)
    and every finite sequence of environment events: deliveries on the three
    ports (accepted or refused by the bounded buffers), ticks, retrievals. *)
From VLib Require Import Akita ListX.
From VMem Require Import Rob RobProofs RobCtl RobLive.
Open Scope N_scope.

(** All responses ever pushed to the requester (retrieved or still in the top
    port) are exactly the answers of the transactions that retired, in the
    order in which their requests were accepted; retired + pending transactions
    are the accepted requests in acceptance order; accepted requests are the
    delivered ones minus those dropped by a restart. *)
Theorem rob_in_order_exactly_once : forall c w evs,
  let s := run (init c w) evs in
  g_retr s ++ top_out s = resp_of (g_fate s) /\
  map t_top (map fst (g_fate s) ++ txs s) = accepted (g_seen s) /\
  map fst (g_seen s) ++ top_in s = g_deliv s /\
  Forall fate_ok (g_fate s).
Proof.
  intros c w evs s. pose proof (run_inv evs _ (init_inv c w)) as H.
  destruct H. subst s. repeat split; try assumption. congruence.
Qed.
Print Assumptions rob_in_order_exactly_once.

(** Hence the RspTo sequence seen by the requester is an order-preserving
    sub-sequence of the IDs it delivered: no reordering, no foreign ID, and no
    duplicate when the requester's IDs are distinct. *)
Theorem rob_responses_follow_request_order : forall c w evs,
  let s := run (init c w) evs in
  subseq (map m_rspto (g_retr s ++ top_out s)) (map m_id (g_deliv s)) /\
  (NoDup (map m_id (g_deliv s)) -> NoDup (map m_rspto (g_retr s ++ top_out s))).
Proof.
  intros c w evs s. pose proof (responses_in_request_order s (run_inv evs _ (init_inv c w))) as H.
  split; [exact H|]. intros Hn. eapply subseq_NoDup; eauto.
Qed.
Print Assumptions rob_responses_follow_request_order.

(** Each response carries the requester's ID and source, and the payload of
    the bottom response that answered the forwarded copy of that request. *)
Theorem rob_response_payload : forall c w evs m,
  let s := run (init c w) evs in
  In m (g_retr s ++ top_out s) ->
  exists t r, In (t, true) (g_fate s) /\ t_rsp t = Some r /\ m_rspto r = t_bid t /\
              is_rsp r = true /\ m = answer t r /\ In (fwd_of t) (g_bretr s ++ bot_out s).
Proof. intros c w evs m s. exact (response_payload s m (run_inv evs _ (init_inv c w))). Qed.
Print Assumptions rob_response_payload.

(** Every request sent down is a faithful copy of an accepted request. *)
Theorem rob_forward_faithful : forall c w evs,
  let s := run (init c w) evs in
  g_bretr s ++ bot_out s = map fwd_of (map fst (g_fate s) ++ txs s) /\
  (forall id r, is_req r = true ->
     m_id (fwd_req id r) = id /\ m_kind (fwd_req id r) = m_kind r /\
     m_addr (fwd_req id r) = m_addr r /\ m_pid (fwd_req id r) = m_pid r /\
     (m_kind r = KRead -> m_size (fwd_req id r) = m_size r) /\
     (m_kind r = KWrite -> m_data (fwd_req id r) = m_data r /\ m_mask (fwd_req id r) = m_mask r)).
Proof.
  intros c w evs s. pose proof (run_inv evs _ (init_inv c w)) as H. destruct H.
  subst s. split; [congruence|exact fwd_req_faithful].
Qed.
Print Assumptions rob_forward_faithful.

(** Never more than the configured capacity, and bottom IDs are unique. *)
Theorem rob_capacity : forall c w evs,
  let s := run (init c w) evs in
  (length (txs s) <= c)%nat /\ NoDup (map t_bid (txs s)) /\
  (length (top_out s) <= 2 * w)%nat /\ (length (bot_out s) <= 2 * w)%nat.
Proof.
  intros c w evs s. pose proof (run_inv evs _ (init_inv c w)) as H.
  destruct (run_cfg evs (init c w)) as [Hc Hw]. destruct H. subst s.
  unfold pcap in *. rewrite Hc, Hw in *. cbn [cap width init] in *. auto.
Qed.
Print Assumptions rob_capacity.

(** Flush: taking a discard request empties the buffer and marks every pending
    transaction discarded; the fate log only grows afterwards; a discarded
    request is never answered (IDs distinct), at any later time. *)
Theorem rob_flush_discards : forall c w evs1 evs2 t,
  let s1 := run (init c w) evs1 in
  let s2 := run s1 evs2 in
  In (t, false) (g_fate s1) ->
  NoDup (map m_id (g_deliv s2)) ->
  In (t, false) (g_fate s2) /\ ~ In (m_id (t_top t)) (map m_rspto (g_retr s2 ++ top_out s2)).
Proof.
  intros c w evs1 evs2 t s1 s2 Hin Hn.
  assert (Hin2 : In (t, false) (g_fate s2)).
  { destruct (run_grows evs2 s1) as [[l E] _]. fold s2 in E. rewrite E, in_app_iff; auto. }
  split; [exact Hin2|]. apply discarded_never_answered; auto.
  subst s2 s1. rewrite <- run_app. apply run_inv, init_inv.
Qed.
Print Assumptions rob_flush_discards.

Theorem rob_discard_step : forall s c rest,
  crashed s = false -> ctl_in s = c :: rest -> has_flag c F_DISCARD = true -> ctl_out s = [] ->
  let s' := fst (tick s) in
  txs s' = [] /\ flushing s' = true /\
  g_fate s' = g_fate s ++ map (fun t => (t, false)) (txs s) /\
  ctl_out s' = [ctl_ack c] /\ g_out s' = g_out s /\ top_out s' = top_out s.
Proof. exact discard_effect. Qed.
Print Assumptions rob_discard_step.

(** No silent loss: once the oldest transaction has its response, one tick
    with room in the top port answers it. *)
Theorem rob_progress : forall s t rest r,
  crashed s = false -> flushing s = false -> ctl_in s = [] ->
  txs s = t :: rest -> t_rsp t = Some r -> is_rsp r = true ->
  (length (top_out s) < pcap s)%nat -> (1 <= width s)%nat ->
  ext (g_out s ++ [answer t r]) (g_out (fst (tick s))).
Proof. exact head_retires. Qed.
Print Assumptions rob_progress.

(** Control protocol: every accepted control message (discard / restart) is acknowledged exactly once and in
    order, under any back-pressure on the control port: the acknowledgements collected so far, those waiting in
    the port and those owed for messages not yet processed are, in this order, exactly the acknowledgements of
    the accepted control messages. *)
Theorem rob_control_acknowledged_exactly_once : forall c w evs,
  let s := run (init c w) evs in
  g_cretr s ++ ctl_out s ++ map ctl_ack (ctl_in s) = map ctl_ack (g_cdeliv s).
Proof. exact ctl_ack_exactly_once. Qed.
Print Assumptions rob_control_acknowledged_exactly_once.

(** ... and a refused acknowledgement is retried: with room in the control port the next tick consumes the
    message at the head and sends its acknowledgement. *)
Theorem rob_control_retry : forall s c rest,
  crashed s = false -> ctl_in s = c :: rest ->
  (has_flag c F_DISCARD || has_flag c F_RESTART)%bool = true -> ctl_out s = [] ->
  let s' := fst (tick s) in ctl_in s' = rest /\ ctl_out s' = [ctl_ack c].
Proof. exact ctl_progress. Qed.
Print Assumptions rob_control_retry.

(** Sleep safety (the engine stops ticking a component that reports no progress): a tick that reports no
    progress leaves the buffer exactly as it was - nothing is consumed, dropped or sent unreported - so the next
    tick, with no delivery or retrieval in between, reports no progress either. *)
Theorem rob_no_progress_means_no_change : forall s,
  snd (tick s) = false -> crashed (fst (tick s)) = false -> fst (tick s) = s.
Proof. exact tick_quiet. Qed.
Print Assumptions rob_no_progress_means_no_change.

Theorem rob_no_progress_stays : forall s,
  crashed s = false -> snd (tick s) = false -> crashed (fst (tick s)) = false ->
  step (fst (tick s)) ETick = (s, OTick false).
Proof. exact no_progress_stays. Qed.
Print Assumptions rob_no_progress_stays.

(** Liveness.  [Good s pend] (VMem.RobLive): [s] has not crashed, is not flushing, its control queue is empty,
    width and capacity are at least 1, the queued top messages are requests, the queued bottom messages and the
    stored responses are responses (the bottom unit's contract), and every transaction without a response is
    still on its way: its forwarded request waits in the bottom port, or is held by the bottom unit ([pend], the
    environment's state), or its response waits in the bottom port.
    [round rf]: one ETick; ERetrTop until the top port is empty; ERetrBot until the bottom port is empty (the
    bottom unit now holds those requests too); the bottom unit answers what it holds, oldest first, with
    [EDeliverBot (rf b)] for as long as the port accepts.  No new request, no control message.
    [rank s pend = 6*|top_in| + 2*|txs| + 3*|bot_out| + |bot_in| + |top_out| + 2*|pend|] (remaining hops).
    Every round keeps the invariants and strictly decreases the rank while it is positive ... *)
Theorem rob_round_decreases : forall rf s pend,
  bottom_contract rf -> Inv s -> Good s pend ->
  Inv (fst (round rf (s, pend))) /\
  Good (fst (round rf (s, pend))) (snd (round rf (s, pend))) /\
  (rank (fst (round rf (s, pend))) (snd (round rf (s, pend))) <= pred (rank s pend))%nat.
Proof. intros rf s pend Hrf. exact (round_ok rf Hrf s pend). Qed.
Print Assumptions rob_round_decreases.

(** ... hence from ANY reachable state that satisfies [Good], for ANY bottom unit obeying its contract, after
    [rank s pend] rounds (or more) nothing is left anywhere: no transaction, no queued request, all ports and the
    bottom unit empty, not crashed; every response has been retrieved, and the retrieved RspTo sequence is exactly
    the IDs of the accepted requests that were not discarded by a flush, in acceptance order (one answer each);
    every delivered request has been taken from the top port. *)
Theorem rob_liveness : forall c w evs rf pend n,
  let s := run (init c w) evs in
  bottom_contract rf -> Good s pend -> (rank s pend <= n)%nat ->
  let s' := fst (rounds rf n (s, pend)) in
  let pend' := snd (rounds rf n (s, pend)) in
  crashed s' = false /\ flushing s' = false /\
  txs s' = [] /\ top_in s' = [] /\ top_out s' = [] /\ bot_out s' = [] /\ bot_in s' = [] /\
  pend' = [] /\
  g_retr s' = resp_of (g_fate s') /\
  map t_top (map fst (g_fate s')) = accepted (g_seen s') /\
  map fst (g_seen s') = g_deliv s' /\
  map m_rspto (g_retr s') = map req_id (filter snd (g_fate s')).
Proof.
  intros c w evs rf pend n s Hrf G Hn.
  exact (drain_liveness rf s pend n Hrf (run_inv evs _ (init_inv c w)) G Hn).
Qed.
Print Assumptions rob_liveness.

(** ... and the drain serves: it discards nothing and drops nothing - the fate log grows by exactly the
    transactions buffered at the start followed by the requests queued at the start, every one answered. *)
Theorem rob_drain_serves : forall c w evs rf pend n,
  let s := run (init c w) evs in
  bottom_contract rf -> Good s pend -> (rank s pend <= n)%nat ->
  let s' := fst (rounds rf n (s, pend)) in
  exists k, g_fate s' = g_fate s ++ map (fun t => (t, true)) k /\
            map t_top k = map t_top (txs s) ++ top_in s.
Proof.
  intros c w evs rf pend n s Hrf G Hn.
  exact (drain_serves rf s pend n Hrf (run_inv evs _ (init_inv c w)) G Hn).
Qed.
Print Assumptions rob_drain_serves.

(** Non-vacuity: a concrete history (two reads answered out of order, then a
    discard that drops a third one) reaches the states the theorems speak of. *)
Definition rd (id a src : N) : msg := mkMsg id KRead src P_TOP 0 a 4 1 [] [] 0.
Definition dr (to : N) (d : list N) : msg := mkMsg 0 KDataReady P_BOTTOM_UNIT P_BOT to 0 0 0 d [] 0.
Definition demo : list ev :=
  [EDeliverTop (rd 1 64 10); EDeliverTop (rd 2 128 10); ETick;
   EDeliverBot (dr 1000001 [2;2;2;2]); ETick; ERetrTop;
   EDeliverBot (dr 1000000 [1;1;1;1]); ETick; ETick; ERetrTop; ERetrTop;
   EDeliverTop (rd 3 192 10); ETick;
   EDeliverCtl (mkMsg 9 KCtrl 20 P_CTL 0 0 0 0 [] [] F_DISCARD); ETick].
Example demo_in_order :
  let s := run (init 4 2) demo in
  map m_rspto (g_retr s) = [1; 2] /\ map m_data (g_retr s) = [[1;1;1;1]; [2;2;2;2]] /\
  map (fun p => (m_id (t_top (fst p)), snd p)) (g_fate s) = [(1, true); (2, true); (3, false)] /\
  txs s = [] /\ flushing s = true /\
  length (g_cdeliv s) = 1%nat /\ length (ctl_out s) = 1%nat /\ ctl_in s = [].
Proof. vm_compute. repeat split; reflexivity. Qed.

(** Non-vacuity of the liveness theorem: two transactions buffered (one forward already with the bottom unit,
    one still in the port), two more requests queued; the hypotheses hold, the rank is 21, and the drain
    answers all four in order. *)
Definition live_evs : list ev :=
  [EDeliverTop (rd 1 64 10); EDeliverTop (rd 2 128 10); EDeliverTop (rd 3 192 10); ETick; ERetrBot;
   EDeliverTop (rd 4 256 10)].
Definition live_pend : list msg := [fwd_req 1000000 (rd 1 64 10)].
Definition live_rf (b : msg) : msg := dr (m_id b) [7].
Example live_contract : bottom_contract live_rf.
Proof. intros b. split; reflexivity. Qed.
Definition live_state : rob := Eval vm_compute in run (init 4 2) live_evs.
Example live_state_eq : run (init 4 2) live_evs = live_state.
Proof. vm_compute. reflexivity. Qed.
Example live_good : Good (run (init 4 2) live_evs) live_pend.
Proof.
  rewrite live_state_eq. unfold live_state, live_pend.
  constructor; cbn [crashed flushing ctl_in width cap top_in bot_in txs]; try reflexivity; try lia.
  - repeat constructor.
  - repeat constructor.
  - repeat constructor; intros r H; discriminate H.
  - intros t [<-|[<-|[]]] _; unfold cover; cbn; auto.
Qed.
Example live_demo :
  let s := run (init 4 2) live_evs in
  let s' := fst (rounds live_rf (rank s live_pend) (s, live_pend)) in
  length (txs s) = 2%nat /\ length (top_in s) = 2%nat /\ rank s live_pend = 21%nat /\
  txs s' = [] /\ top_in s' = [] /\ map m_rspto (g_retr s') = [1; 2; 3; 4].
Proof. vm_compute. repeat split; reflexivity. Qed.
