(** C14 - barriers, wait counts and wavefront termination (partial).
    Statements only; proofs are in VCu.SchedProofs.

    [run true init evs] ranges over every finite sequence of environment
    events of the repaired scheduler automaton of VCu.Sched: any number of
    work-groups with any number of wavefronts mapped at any time, any order in
    which Ready wavefronts issue instructions of any kind (this over-approximates
    fetch, decode, the issue arbiter and the scoreboard), any delay of the
    execution units and of memory, and any back-pressure on the dispatch port
    (the budget of each evaluation pass).  What is proved is therefore about the
    scheduler's decisions, not about pipeline timing. *)
From Coq Require Import List Arith NArith Bool Lia.
From VCu Require Import Sched SchedProofs SchedEmuTie Smem.
From VSys Require EmuLoop.
Import ListNotations.

(** No wavefront is released from its k-th barrier (w_pass = k, which is what
    makes it Ready, i.e. able to issue the instruction after the barrier)
    before every other unfinished wavefront of its group has executed its k-th
    s_barrier (w_arr >= k); a Ready wavefront has been released from every
    barrier it executed; all unfinished wavefronts of a group have passed the
    same number of barriers. *)
Theorem barrier_safety : forall evs i j wi wj,
  let s := run true init evs in
  get s i = Some wi -> get s j = Some wj -> w_wg wi = w_wg wj ->
  w_st wj <> WCompleted ->
  w_pass wi <= w_arr wj /\
  w_pass wj <= w_arr wj <= S (w_pass wj) /\
  (w_st wj = WReady -> w_arr wj = w_pass wj) /\
  (w_st wi <> WCompleted -> w_pass wi = w_pass wj).
Proof. intros evs i j wi wj s. exact (safety_of_inv s (inv_reach evs) i j wi wj). Qed.
Print Assumptions barrier_safety.

(** Progress, part 1: between scheduler passes a group is never left with all
    of its unfinished wavefronts waiting: if a wavefront is AtBarrier, another
    wavefront of the same group has still to arrive or to end. *)
Theorem barrier_never_stuck : forall evs i w,
  let s := run true init evs in
  get s i = Some w -> w_st w = WAtBarrier ->
  exists j u, get s j = Some u /\ w_wg u = w_wg w /\ (w_st u = WReady \/ w_st u = WRunning).
Proof. intros evs i w s. exact (never_stuck_of_inv s (inv_reach evs) i w). Qed.
Print Assumptions barrier_never_stuck.

(** Progress, part 2: once every unfinished wavefront of a group has executed
    its s_barrier (it is Running or AtBarrier with s_barrier as its
    instruction), the next EvaluateInternalInst pass - whatever else is in
    internalExecuting, whatever the state of the barrier buffer and of the
    dispatch port - makes all of them Ready, each with one more barrier passed. *)
Theorem barrier_progress : forall evs g b,
  let s := run true init evs in
  (exists i w, get s i = Some w /\ w_wg w = g /\ w_st w <> WCompleted) ->
  (forall i w, get s i = Some w -> w_wg w = g -> w_st w <> WCompleted ->
     w_inst w = KBar /\ (w_st w = WRunning \/ w_st w = WAtBarrier)) ->
  forall i w, get s i = Some w -> w_wg w = g -> w_st w <> WCompleted ->
    exists w', get (step true s (EEval b)) i = Some w' /\ w_st w' = WReady /\
               w_pass w' = S (w_pass w) /\ w_arr w' = w_arr w.
Proof. exact progress_run. Qed.
Print Assumptions barrier_progress.

(** The step that does it: when the last one arrives (every other wavefront of
    the group is AtBarrier or Completed), evaluating its s_barrier releases all
    of them at once. *)
Theorem barrier_release_step : forall s j u,
  get s j = Some u ->
  (forall k v, get s k = Some v -> w_wg v = w_wg u -> k <> j -> w_st v = WAtBarrier \/ w_st v = WCompleted) ->
  exists s', eval_barrier true s j u = (s', true, true) /\
    forall k v, get s k = Some v -> w_wg v = w_wg u -> w_st v <> WCompleted ->
      exists v', get s' k = Some v' /\ w_st v' = WReady /\ w_pass v' = S (w_pass v) /\ w_arr v' = w_arr v.
Proof. exact barrier_release. Qed.
Print Assumptions barrier_release_step.

(** The code as found: after "wavefront 0 ends, then wavefront 1 executes
    s_barrier" the group consists of a Completed and an AtBarrier wavefront,
    nothing is left in internalExecuting, and no number of further scheduler
    passes changes the state: the barrier is never passed. *)
Theorem barrier_progress_refuted_before_fix :
  exists evs, let s := run false init evs in
    map w_st (wfs s) = [WCompleted; WAtBarrier] /\ internal s = [] /\
    forall budgets, run false s (map EEval budgets) = s.
Proof.
  exists early_exit_trace. intros s. destruct old_stuck_state as (H1 & H2 & _).
  split; [exact H1|]. split; [exact H2|]. exact old_stuck_forever.
Qed.
Print Assumptions barrier_progress_refuted_before_fix.

(** The same event sequence on the repaired automaton releases wavefront 1. *)
Theorem early_exit_released_after_fix :
  let s := run true init early_exit_trace in
  map w_st (wfs s) = [WCompleted; WReady] /\ bbuf s = [].
Proof. exact new_not_stuck. Qed.
Print Assumptions early_exit_released_after_fix.

(** A wavefront executing s_waitcnt vm lgkm moves past it (its PC is advanced
    by UpdatePCAndSetReady; [w_pc] counts these calls) only in a step in which
    its outstanding scalar (+flat) count is <= lgkm and its outstanding vector
    count is <= vm.  [e] ranges over all events, including the pipeline flush
    and restart sent by the command processor during a TLB shootdown: a flush
    makes the waiting wavefront Ready without moving its PC (the s_waitcnt is
    executed again after the restart) and leaves the counters alone (next
    theorem), so it never lets a wavefront get past an s_waitcnt early.
    Holds for both variants of the code. *)
Theorem waitcnt_sound : forall fx evs e i w w1 vm lgkm,
  let s := run fx init evs in
  get s i = Some w -> w_inst w = KWait vm lgkm -> w_st w = WRunning ->
  get (step fx s e) i = Some w1 -> w_pc w1 <> w_pc w ->
  (out_s w <= lgkm)%N /\ (out_v w <= vm)%N.
Proof.
  intros fx evs e i w w1 vm lgkm s. apply waitcnt_transition.
  apply done_ok_run, done_ok_init.
Qed.
Print Assumptions waitcnt_sound.

(** A scalar load is cut into one read request per 64-byte line it touches
    (executeSMEMLoad).  For every address and size: every request but the one
    generated last carries CanWaitForCoalesce and the last one does not, so
    that - the scalar memory answering in order - the reply that decrements
    the wait counter (the scalar [ERsp] of the automaton) is the reply to the
    last request: an instruction counts as complete only when all of its line
    requests have been answered.  The requests cover exactly the requested
    bytes and none crosses a line. *)
Theorem smem_closing_request_is_last : forall addr size,
  (0 < size)%N ->
  closing_last (map flag (smem_reqs addr size)) /\
  fold_right (fun r n => (bytes r + n)%N) 0%N (smem_reqs addr size) = size /\
  Forall (fun r => (0 < bytes r)%N /\ (fst (fst r) mod 64 + bytes r <= 64)%N) (smem_reqs addr size).
Proof. exact Smem.smem_closing_request_is_last. Qed.
Print Assumptions smem_closing_request_is_last.

(** Pipeline flush (ComputeUnit.flushPipeline): the outstanding-access counts,
    the PC and the barrier generation of every wavefront are unchanged (the
    in-flight accesses move to the shadow buffers and are replayed after the
    restart, their replies still decrement the counters); no wavefront ends;
    every wavefront that has not ended becomes Ready. *)
Theorem flush_keeps_counters : forall evs i w,
  let s := run true init evs in
  get s i = Some w ->
  exists w1, get (step true s EFlush) i = Some w1 /\
    w_wg w1 = w_wg w /\ w_ns w1 = w_ns w /\ w_nv w1 = w_nv w /\ w_pc w1 = w_pc w /\ w_pass w1 = w_pass w /\
    (w_st w = WCompleted -> w1 = w) /\ (w_st w <> WCompleted -> w_st w1 = WReady).
Proof. intros evs i w s. apply flush_effect. exact (no_crash_of_inv _ (inv_reach evs)). Qed.
Print Assumptions flush_keeps_counters.

(** A wavefront becomes Completed only by its own s_endpgm, in a step in which
    both outstanding counts are zero; and a Completed wavefront has no memory
    operation in flight at any later time.  [evs] and [e] include pipeline
    flushes and restarts. *)
Theorem endpgm_after_mem : forall fx evs,
  let s := run fx init evs in
  (forall i w, get s i = Some w -> w_st w = WCompleted ->
     w_inst w = KEnd /\ w_ns w = 0%N /\ w_nv w = 0%N) /\
  (forall e i w w1, get s i = Some w -> w_st w <> WCompleted ->
     get (step fx s e) i = Some w1 -> w_st w1 = WCompleted ->
     w_inst w = KEnd /\ out_s w = 0%N /\ out_v w = 0%N).
Proof.
  intros fx evs s. assert (Hd : done_ok s) by apply done_ok_run, done_ok_init.
  split; [exact Hd|]. intros e i w w1. apply endpgm_transition; auto.
Qed.
Print Assumptions endpgm_after_mem.

(** The completion message of a work-group is sent exactly once, and exactly
    when all of its wavefronts are Completed (the last s_endpgm completes only
    if the Send succeeds). *)
Theorem wg_completion_once : forall evs,
  let s := run true init evs in
  NoDup (sent s) /\
  forall g, In g (sent s) <->
    ((exists i w, get s i = Some w /\ w_wg w = g) /\
     (forall i w, get s i = Some w -> w_wg w = g -> w_st w = WCompleted)).
Proof. intros evs s. exact (once_of_inv s (inv_reach evs)). Qed.
Print Assumptions wg_completion_once.

(** panic("never") of evalSEndPgm is unreachable. *)
Theorem scheduler_never_panics : forall evs, crashed (run true init evs) = false.
Proof. intros evs. exact (no_crash_of_inv _ (inv_reach evs)). Qed.
Print Assumptions scheduler_never_panics.

(** Emulator: the loop as found panics on the early-exit program; the repaired
    resolveBarrier never panics after a round in which no wavefront ran off
    its program, for any number of wavefronts and any programs. *)
Theorem emu_panics_before_fix : fst (emu_run false [[SEnd]; [SBar; SEnd]]) = EPanic.
Proof. exact emu_old_panics. Qed.
Print Assumptions emu_panics_before_fix.

Theorem emu_resolve_never_panics : forall l l1 lg,
  Forall (fun w => e_completed w = true \/ e_atbarrier w = false) l ->
  run_all 0 l = (l1, lg, false) ->
  exists l2, resolve true l1 = Some l2 /\
    Forall (fun w => e_completed w = true \/ e_atbarrier w = false) l2.
Proof. exact emu_round_no_panic. Qed.
Print Assumptions emu_resolve_never_panics.

(** Emulator-side work-group completion: if every wavefront's program reaches
    an s_endpgm (after any number of barriers, wavefronts may leave at
    different barriers), runWG - with the explicit fuel bound 1 + total number
    of segments built into [emu_run] - leaves its loop normally: no panic, no
    wavefront runs off its program, and every wavefront has executed its
    s_endpgm. For any number of wavefronts. *)
Theorem emu_wg_completion : forall progs,
  (forall p, In p progs -> In SEnd p) ->
  exists lg, emu_run true progs = (EOk, lg) /\
    forall j, j < length progs -> In (LEnd j) lg.
Proof. exact emu_completes. Qed.
Print Assumptions emu_wg_completion.

(** The segment-level loop is an instance of C01's model of the same Go loop
    (VSys.EmuLoop, generic in the instruction step): whenever it completes a
    work-group, C01's [run_wg] with the same number of rounds finishes with
    every wavefront completed. *)
Theorem emu_agrees_with_C01_loop : forall progs lg,
  emu_run true progs = (EOk, lg) ->
  exists xs, EmuLoop.run_wg seg_step (emu_fuel progs) 1 progs tt = EmuLoop.Finished (xs, tt) /\
             EmuLoop.all_completed xs = true.
Proof. exact tie_run. Qed.
Print Assumptions emu_agrees_with_C01_loop.

(** Non-vacuity: a concrete history with two groups, a load, a wait count, a
    barrier, an early exit and a refused completion message reaches the states
    the theorems speak about. *)
Definition demo : list ev :=
  [EMap 0 2; EMap 1 1;
   EIssue 0 KFlat; EDone 0; EIssue 0 (KWait 0 15); EEval 0;   (* waits: one flat access in flight *)
   EIssue 1 KBar; EEval 0;                                    (* wavefront 1 waits at the barrier *)
   ERsp 0 true; EEval 0;                                      (* the wait count completes *)
   EIssue 2 KEnd; EEval 0;                                    (* group 1: port busy, not completed *)
   EIssue 0 KEnd; EEval 1].                                   (* wavefront 0 ends: releases wavefront 1; group 1 completes *)
Example demo_states :
  let s := run true init demo in
  map w_st (wfs s) = [WCompleted; WReady; WCompleted] /\
  map w_pass (wfs s) = [1; 1; 0] /\ map w_arr (wfs s) = [0; 1; 0] /\
  sent s = [1] /\ internal s = [] /\ bbuf s = [] /\ crashed s = false.
Proof. vm_compute. repeat split; reflexivity. Qed.

(** a flush while wavefront 0 waits in s_waitcnt with a flat access in flight
    and wavefront 1 waits at a barrier: both are rolled back to Ready, the
    access stays outstanding, nothing is left in the scheduler's lists *)
Example demo_flush :
  let s := run true init (firstn 8 demo ++ [EFlush; ERestart]) in
  map w_st (wfs s) = [WReady; WReady; WReady] /\ map out_v (wfs s) = [1%N; 0%N; 0%N] /\
  map w_arr (wfs s) = [0; 0; 0] /\ internal s = [] /\ bbuf s = [].
Proof. vm_compute. repeat split; reflexivity. Qed.

Example emu_demo :
  emu_run true [[SBar; SEnd]; [SEnd]; [SBar; SBar; SEnd]; [SBar; SEnd]] =
  (EOk, [LBar 0; LEnd 1; LBar 2; LBar 3; LEnd 0; LBar 2; LEnd 3; LEnd 2]).
Proof. vm_compute. reflexivity. Qed.

Example demo_wait_blocks :
  let s := run true init (firstn 6 demo) in
  map w_st (wfs s) = [WRunning; WReady; WReady] /\ internal s = [0] /\ map out_v (wfs s) = [1%N; 0%N; 0%N].
Proof. vm_compute. repeat split; reflexivity. Qed.
