(** Property C20 - NVIDIA trace-driven simulation conserves work and terminates;
    parsing a serialised trace returns exactly the structure that was serialised.

    Model: VNv.NvSim (driver / GPUs / SMs / sub-cores / akita connections and
    event queues), VNv.NvTrace (trace file grammar and tracereader).
    Proofs: NvSimProofs, NvSimWake, NvSimThm, NvSimPot, NvSimTerm, NvUniform, NvTraceProofs,
    NvLayout (layouts of a kernel file), NvLayoutProofs.
    Statements only; every proof is an [exact]. *)
From Coq Require Import List NArith ZArith Bool Arith String.
From VNv Require Import NvSim NvSimProofs NvSimWake NvSimThm NvSimPot NvSimTerm NvUniform NvTrace NvTraceProofs NvLayout NvLayoutProofs.
Import ListNotations.
Open Scope Z_scope.

(** ** Simulation (the repaired code: [step1 true]) *)

(** [runs T s es s']: the engine, started in [s], handled the events [es]
    (each was in its queue when handled) and is now in [s'].  [T] is any
    platform tree: any number of devices, of SMs per device, of sub-cores per
    SM ([wf_topo]: a tree with the driver at the root and the sub-cores at the
    leaves; [wf_topob] decides it).  The trace is any list of kernels, each any
    list of thread blocks, each any list of warps with any instruction count >= 0.

    Conservation.  [received T ns f d] is the total weight [f] of all work items
    the units of level [d] (1 = GPUs, 2 = SMs, 3 = sub-cores) have received;
    [level_items d trace] are the items of the trace at depth [d] (0 kernels,
    1 thread blocks, 2 warps).  With [f] the indicator of one item this says
    that no kernel, thread block or warp is handed out more often than it occurs
    in the trace, in every reachable state of every schedule; once nothing is
    queued or in flight any more, exactly as often.  The statistics counters
    (SM.warpsCount, Subcore.instsCount) are the weights of what was received. *)
Theorem nv_conservation : forall T trace es s,
  wf_topo T -> runs T (init T trace) es s ->
  (forall d f, (received T (nodes s) f (S d) <= sumf f (level_items d trace))%nat) /\
  (forall d f, all_delivered T (nodes s) -> nonleaf_upto T d ->
               received T (nodes s) f (S d) = sumf f (level_items d trace)) /\
  (forall u, total (nd s u) = total_of (kindT T u) (rlog (nd s u))).
Proof. exact conservation_thm. Qed.
Print Assumptions nv_conservation.

(** The test-suite's totals: sum of SM.GetTotalWarpsCount over all SMs <= warps
    of the trace, sum of Subcore.GetTotalInstsCount <= instructions of the
    trace, with equality when the engine has run out of events. *)
Theorem nv_counts : forall T trace es s,
  wf_topo T -> three_levels T -> runs T (init T trace) es s ->
  level_total T s 2 <= Z.of_nat (n_warps trace) /\
  level_total T s 3 <= Z.of_nat (n_insts trace) /\
  (has_kids T -> quiescent s = true ->
   level_total T s 2 = Z.of_nat (n_warps trace) /\ level_total T s 3 = Z.of_nat (n_insts trace)).
Proof. exact counts_thm. Qed.
Print Assumptions nv_counts.

(** Termination in the idle state.  Every run of the engine is finite: its
    length is bounded by [mu T (init T trace)], a number that depends only on
    the platform size and the trace.  A run that cannot be extended (no event
    left in the queues) ends with every unit - driver, every GPU, SM and
    sub-core - idle: all counters zero (no unfinished or unreported kernel /
    block / warp / instruction), empty work queue and port buffers, and all its
    children back in its free list.  For every schedule and every platform
    shape; this includes the absence of lost wake-ups (a unit with work to do
    always has a tick queued or is waited for). *)
Theorem nv_terminates_idle : forall T trace es s,
  wf_topo T -> has_kids T -> runs T (init T trace) es s ->
  Z.of_nat (List.length es) <= mu T (init T trace) /\
  ((forall e, enabled s e = false) -> forall u, (u < sizeT T)%nat -> idle_node T (nd s u) u).
Proof. exact terminates_thm. Qed.
Print Assumptions nv_terminates_idle.

(** the same for a state in which the queues are merely observed to be empty *)
Theorem nv_quiescent_idle : forall T trace es s,
  wf_topo T -> has_kids T -> runs T (init T trace) es s -> quiescent s = true ->
  forall u, (u < sizeT T)%nat -> idle_node T (nd s u) u.
Proof. exact quiescent_thm. Qed.
Print Assumptions nv_quiescent_idle.

(** every handled event lowers the measure *)
Theorem nv_measure_decreases : forall T s e,
  wf_topo T -> inv T s -> enabled s e = true -> mu T (step1 true T s e) + 1 <= mu T s.
Proof. exact mu_step. Qed.
Print Assumptions nv_measure_decreases.

(** the inductive invariants themselves (data + wake-up), for every event the engine can handle *)
Theorem nv_invariant_step : forall T s e,
  wf_topo T -> inv T s -> enabled s e = true -> inv T (step1 true T s e).
Proof. exact inv_step. Qed.
Print Assumptions nv_invariant_step.

(** the decision procedure for platform shapes is sound *)
Theorem nv_wf_topob_sound : forall T, wf_topob T = true -> wf_topo T /\ has_kids T.
Proof. exact wf_topob_sound. Qed.
Print Assumptions nv_wf_topob_sound.

(** The platforms the Go builders produce - D devices x S SMs x C sub-cores,
    any D, S, C >= 1 - are well-formed trees with the three levels GPU / SM /
    sub-core, so all theorems above apply to them. *)
Theorem nv_uniform_platform_wf : forall D S C : nat,
  (1 <= D)%nat -> (1 <= S)%nat -> (1 <= C)%nat ->
  wf_topo (uniform_topo D S C) /\ has_kids (uniform_topo D S C) /\ three_levels (uniform_topo D S C).
Proof. exact uniform_topo_wf. Qed.
Print Assumptions nv_uniform_platform_wf.

(** The property in one statement for these platforms: every run is bounded;
    warps / instructions counted never exceed the trace; and when the engine
    has nothing left to do every unit is idle and the counts are exact. *)
Theorem nv_uniform_property : forall (D S C : nat) trace es s,
  (1 <= D)%nat -> (1 <= S)%nat -> (1 <= C)%nat ->
  let T := uniform_topo D S C in
  runs T (init T trace) es s ->
  Z.of_nat (List.length es) <= mu T (init T trace) /\
  level_total T s 2 <= Z.of_nat (n_warps trace) /\
  level_total T s 3 <= Z.of_nat (n_insts trace) /\
  ((forall e, enabled s e = false) ->
   (forall u, (u < sizeT T)%nat -> idle_node T (nd s u) u) /\
   level_total T s 2 = Z.of_nat (n_warps trace) /\ level_total T s 3 = Z.of_nat (n_insts trace)).
Proof. exact uniform_property. Qed.
Print Assumptions nv_uniform_property.

(** The same statement is false of the code before the repair ([step1 false]):
    one GPU, one SM, two sub-cores; a kernel whose first block has a warp
    with 0 instructions.  The engine stops with the kernel unfinished, one
    thread block never dispatched and only 2 of 3 warps ever seen by the SM. *)
Definition T112 : topo := uniform_topo 1 1 2.
Definition degenerate_trace : list item := trace_of [[[3; 0]; [1]]]%N.
Definition es_orig : list ev := sched 500 false T112 (init T112 degenerate_trace).

Theorem nv_terminates_idle_original_refuted :
  let s := run false T112 (init T112 degenerate_trace) es_orig in
  wf_topob T112 = true /\ run_ok false T112 (init T112 degenerate_trace) es_orig = true /\
  quiescent s = true /\
  unfin (nd s 0) = 1 /\ List.length (undisp (nd s 1)) = 1%nat /\ total (nd s 2) = 2.
Proof. vm_compute. repeat split; reflexivity. Qed.
Print Assumptions nv_terminates_idle_original_refuted.

(** ** Non-vacuity: the repaired code on the same input, and on a ragged
    platform with a ragged trace containing every degenerate shape *)
Example repaired_on_degenerate_trace :
  let es := sched 500 true T112 (init T112 degenerate_trace) in
  let s := run true T112 (init T112 degenerate_trace) es in
  run_ok true T112 (init T112 degenerate_trace) es = true /\ quiescent s = true /\
  unfin (nd s 0) = 0 /\ total (nd s 2) = 3 /\ total (nd s 3) + total (nd s 4) = 4 /\
  n_warps degenerate_trace = 3%nat /\ n_insts degenerate_trace = 4%nat.
Proof. vm_compute. repeat split; reflexivity. Qed.

Definition T_ragged : topo :=
  topo_of_kids [[1; 2]; [3; 4; 5]; [6]; [7; 8]; [9]; [10; 11; 12]; [13; 14]; []; []; []; []; []; []; []; []]%nat.
Definition ragged_trace : list item :=
  trace_of [[[2; 0; 5]; []; [1]]; []; [[0]; [3; 3; 3; 3; 3; 1]]; [[4]]]%N.

Example ragged_run :
  let es := sched 3000 true T_ragged (init T_ragged ragged_trace) in
  let s := run true T_ragged (init T_ragged ragged_trace) es in
  wf_topob T_ragged = true /\
  run_ok true T_ragged (init T_ragged ragged_trace) es = true /\ quiescent s = true /\
  (40 <? List.length es)%nat = true /\
  level_total T_ragged s 2 = 12 /\ level_total T_ragged s 3 = 28 /\
  n_warps ragged_trace = 12%nat /\ n_insts ragged_trace = 28%nat /\
  forallb (fun n => (unfin n =? 0) && (fin n =? 0)) (nodes s) = true.
Proof. vm_compute. repeat split; reflexivity. Qed.

Example bound_on_degenerate_trace :
  mu T112 (init T112 degenerate_trace) = 905 /\
  List.length (sched 2000 true T112 (init T112 degenerate_trace)) = 88%nat.
Proof. vm_compute. split; reflexivity. Qed.

Example three_levels_uniform : wf_topob (uniform_topo 3 4 4) = true /\ wf_topob (uniform_topo 1 1 1) = true.
Proof. vm_compute. split; reflexivity. Qed.

(** ** Trace files (the repaired reader) *)

(** Parsing the printed line of an instruction returns the instruction: PC,
    mask, destination and source registers, opcode, memory width,
    address-compression mode, base address with stride or deltas, or the whole
    list of addresses of an uncompressed access, and the immediate. *)
Theorem parse_print_roundtrip : forall i : inst,
  valid i -> parse_inst (print_inst i) = Some (expected i).
Proof. exact NvTraceProofs.parse_print_roundtrip. Qed.
Print Assumptions parse_print_roundtrip.

(** Full strength: what the reader returns determines the serialised
    instruction - nothing that was serialised is lost. *)
Theorem parse_print_exact : forall i j : inst,
  valid i -> valid j -> parse_inst (print_inst i) = parse_inst (print_inst j) -> i = j.
Proof. exact NvTraceProofs.parse_print_exact. Qed.
Print Assumptions parse_print_exact.

(** Whole kernel files: header, thread-block ids, warp ids, instruction counts
    and every instruction record, for any number of blocks, warps (also 0) and
    instructions (also 0). *)
Theorem parse_print_kernel_roundtrip : forall k : kernel,
  valid_kernel k -> parse_kernel (print_kernel k) = Some (k_hdr k, map expected_block (k_blocks k)).
Proof. exact NvLayoutProofs.parse_print_kernel_roundtrip_from_layout. Qed.
Print Assumptions parse_print_kernel_roundtrip.

(** EVERY layout of the file, not only the one accel-sim's tracer writes.  A
    layout ([NvLayout.layout]) fixes per position: the comment lines (text
    starting with the character #, or blank; [#traces format], [#BEGIN_TB],
    [#END_TB] are such lines) after the header, before each thread-block line,
    between a warp line and its insts line, after the last warp of each block
    and at the end of the file; and the number of blank lines after each
    thread-block line, before each instruction and after each warp's
    instructions.  These are exactly the places where the reader tolerates
    such lines.  [wf_layout] only says that the lines put there are comment
    lines.  Whatever the layout - in particular the compact one without any
    marker or blank line, where the line that ends the header or a block's
    warps is the next thread-block line - the parse returns every field that
    was serialised. *)
Theorem parse_print_layout_roundtrip : forall (lay : layout) (k : kernel),
  wf_layout lay -> valid_kernel k ->
  parse_kernel (print_layout lay k) = Some (k_hdr k, map expected_block (k_blocks k)).
Proof. exact NvLayoutProofs.parse_print_layout_roundtrip. Qed.
Print Assumptions parse_print_layout_roundtrip.

(** the accel-sim layout is the printer of the theorems above; it, the compact
    layout and the compact layout with [n] blank lines everywhere (the three
    the harness always writes) are layouts *)
Theorem print_layout_accel : forall k : kernel, print_layout accel_layout k = print_kernel k.
Proof. exact NvLayoutProofs.print_layout_accel. Qed.
Print Assumptions print_layout_accel.

Theorem layouts_written_wf :
  wf_layout accel_layout /\ wf_layout compact_layout /\ forall n, wf_layout (compact_blanks_layout n).
Proof. exact (conj wf_accel_layout (conj wf_compact_layout wf_compact_blanks_layout)). Qed.
Print Assumptions layouts_written_wf.

(** nothing is lost, whichever two layouts the files were written in *)
Theorem parse_print_layout_exact : forall (lay1 lay2 : layout) (k1 k2 : kernel),
  wf_layout lay1 -> wf_layout lay2 -> valid_kernel k1 -> valid_kernel k2 ->
  parse_kernel (print_layout lay1 k1) = parse_kernel (print_layout lay2 k2) -> k1 = k2.
Proof. exact NvLayoutProofs.parse_print_layout_exact. Qed.
Print Assumptions parse_print_layout_exact.

(** The line search must test the current line first
    ([goToNextlineWithPrefixIncludingNow]).  With a search that advances
    before testing ([parse_kernel_adv]) the accel-sim layout still parses, but
    of three thread blocks written compactly only the second is returned. *)
Theorem advance_first_refuted :
  exists k, valid_kernel k /\
    parse_kernel (print_layout compact_layout k) = Some (k_hdr k, map expected_block (k_blocks k)) /\
    parse_kernel_adv (print_kernel k) = parse_kernel (print_kernel k) /\
    parse_kernel_adv (print_layout compact_layout k)
      = Some (k_hdr k, map expected_block (firstn 1 (skipn 1 (k_blocks k)))).
Proof. exact NvLayoutProofs.advance_first_refuted. Qed.
Print Assumptions advance_first_refuted.

Theorem parse_print_kernel_exact : forall k1 k2 : kernel,
  valid_kernel k1 -> valid_kernel k2 -> parse_kernel (print_kernel k1) = parse_kernel (print_kernel k2) -> k1 = k2.
Proof. exact NvTraceProofs.parse_print_kernel_exact. Qed.
Print Assumptions parse_print_kernel_exact.

(** Kernel lists: every launch of a trace directory parses to its own
    structure - also when several launches share kernel name and launch
    configuration and differ only in their bodies - and the result for one file
    does not depend on the files read before or after it. *)
Theorem parse_dir_roundtrip : forall ks : list kernel,
  Forall valid_kernel ks ->
  parse_dir (map print_kernel ks) = map (fun k => Some (k_hdr k, map expected_block (k_blocks k))) ks.
Proof. exact NvTraceProofs.parse_dir_roundtrip. Qed.
Print Assumptions parse_dir_roundtrip.

Theorem parse_dir_independent : forall (before after : list (list line)) (f : list line),
  nth (List.length before) (parse_dir (before ++ f :: after)) None = parse_kernel f.
Proof. exact NvTraceProofs.parse_dir_independent. Qed.
Print Assumptions parse_dir_independent.
