(** C08 — the dispatch grid is partitioned exactly into work-groups, wavefronts
    and lanes.  Statements only; proofs are in VGrid.GridProofs.

    [good_geom g] : every grid extent and every work-group size is >= 1.
    There is no other bound on the geometry (in particular no power-of-two or
    divisibility assumption, no bound on the work-group product). *)
From Coq Require Import ZArith List Bool Lia.
From VGrid Require Import Grid GridProofs.
Import ListNotations.
Open Scope Z_scope.

(** [covered g] lists, for every work-group NextWG produces (no filter), every
    wavefront formWavefronts builds, every lane whose bit is set in
    InitExecMask, the global coordinates (IDX*SX + x, IDY*SY + y, IDZ*SZ + z)
    where (x,y,z) are the lane IDs both register initialisers compute from
    FirstWiFlatID + lane.  Every work-item of the grid occurs exactly once and
    nothing outside the grid occurs. *)
Theorem grid_partition_exact : forall g, good_geom g ->
  NoDup (covered g) /\ forall p, In p (covered g) <-> in_box g p.
Proof. exact partition_exact. Qed.
Print Assumptions grid_partition_exact.

(** Per lane, under any filter: an enabled lane of a produced wavefront
    decodes to a work-item of its own (possibly partial) work-group, its global
    coordinate lies in the grid, and the registers written by the emulator
    (V2/V3 objects: v0,v1,v2; V5 objects: packed v0, for group sizes <= 1024)
    and by the timing dispatcher (v0,v1,v2) hold exactly these IDs. *)
Theorem lane_registers_hold_item_ids : forall g f w v l vgpr, good_geom g ->
  sx g < 4294967296 -> sy g < 4294967296 -> sz g < 4294967296 ->
  In w (all_produced g f) -> In v (form g w) -> 0 <= l -> Z.testbit (mask_of (lanes v)) l = true ->
  let i := first v + l in
  let it := decode g i in
  l < 64 /\ In it (items w) /\ flat_id g it = i /\ in_box g (glob g w it) /\
  emu_lane_regs 3 2 g i = it /\ tim_lane_regs 2 g i = it /\
  (sx g <= 1024 -> sy g <= 1024 -> sz g <= 1024 -> unpack_v5 (fst3 (emu_lane_regs 5 vgpr g i)) = it).
Proof. exact lane_regs. Qed.
Print Assumptions lane_registers_hold_item_ids.

(** The exec mask says exactly which lanes hold a work-item. *)
Theorem exec_mask_bit_iff_lane : forall ls l, 0 <= l -> Forall (fun a => 0 <= a) ls ->
  (Z.testbit (mask_of ls) l = true <-> In l ls).
Proof. exact testbit_mask_of. Qed.
Print Assumptions exec_mask_bit_iff_lane.

(** The wavefronts of a work-group hold its work-items, in spawn order, each at
    lane (flat id - FirstWiFlatID) < 64. *)
Theorem wavefronts_hold_the_items : forall ids,
  flat_map wf_ids (form_ids ids) = ids /\ Forall lane_ok (form_ids ids).
Proof. exact form_ids_spec. Qed.
Print Assumptions wavefronts_hold_the_items.

(** NumWG equals the number of work-groups NextWG hands out before nil, and
    those are exactly the accepted work-groups of the grid in dispatch order —
    for every filter that looks at the work-group IDs only (countWG passes a
    WorkGroup in which nothing else is set). *)
Theorem numwg_eq_produced : forall g f, good_geom g -> (forall h, f = Some h -> id_only h) ->
  count_wg g f = Z.of_nat (length (all_produced g f)) /\
  all_produced g f = filter (acc f) (all_wgs g).
Proof. intros g f Hg Hid. split; [apply count_wg_spec; auto|apply all_produced_spec; auto]. Qed.
Print Assumptions numwg_eq_produced.

(** ... and the ID-only side condition is needed. *)
Theorem numwg_needs_id_only_filter :
  exists g f, good_geom g /\ count_wg g f <> Z.of_nat (length (all_produced g f)).
Proof.
  exists (mkGeom 5 1 1 2 1 1), (filter_of (mkGeom 5 1 1 2 1 1) FFull).
  split; [unfold good_geom; simpl; lia|]. vm_compute. discriminate.
Qed.
Print Assumptions numwg_needs_id_only_filter.

(** The filter loop of NextWG terminates (the model's fuel is never exhausted)
    and NextWG keeps returning nil once the grid is exhausted. *)
Theorem nextwg_terminates : forall g f c, good_geom g -> valid g c ->
  (length (rest g c) < wg_fuel g)%nat -> next_wg (wg_fuel g) g f c <> OutOfFuel.
Proof. intros. eapply next_wg_fuel_enough; eauto. Qed.
Print Assumptions nextwg_terminates.

Theorem nextwg_nil_is_stable : forall g f c fuel, good_geom g -> valid g c -> rest g c = [] ->
  next_wg (S fuel) g f c = Nil c.
Proof. exact nil_is_stable. Qed.
Print Assumptions nextwg_nil_is_stable.

(** Skip(n) drops exactly the first n accepted work-groups. *)
Theorem skip_drops_n : forall g h n, good_geom g ->
  produce (wg_fuel g) (wg_fuel g) g (Some h) (skip n (wg_fuel g) g (Some h) (0, 0, 0)) =
  skipn n (filter h (all_wgs g)).
Proof.
  intros g h n Hg. apply skip_spec; auto using valid_origin, rest_origin;
    rewrite length_all_wgs by auto; unfold wg_fuel; lia.
Qed.
Print Assumptions skip_drops_n.

(** ** The defect this property found (regression guard for the repair)

    formWavefronts as it was before the repair ([form_old]: a new wavefront only
    when the work-item with inWGID mod 64 = 0 is present) does NOT partition
    the grid: for grid (13,10,1) with work-groups (10,10,1) an enabled lane
    carries the coordinate (16,0,0) outside the grid, and work-item (10,7,0)
    is never executed. *)
Definition form_old' (g : geom) (w : wg) : list wf :=
  match form_old g w with Some l => l | None => [] end.

Theorem grid_partition_refuted_before_fix :
  exists g, good_geom g /\
    ~ (forall p, In p (covered_by g form_old' (all_produced g None)) <-> in_box g p).
Proof.
  exists (mkGeom 13 10 1 10 10 1). split; [unfold good_geom; simpl; lia|].
  intros H. destruct (H (16, 0, 0)) as [H1 _].
  assert (Hin : In (16, 0, 0) (covered_by (mkGeom 13 10 1 10 10 1) form_old' (all_produced (mkGeom 13 10 1 10 10 1) None))).
  { apply existsb_In with (e := t3_eqb).
    - intros [[a b] c] [[a' b'] c'] E. unfold t3_eqb in E.
      apply andb_true_iff in E. destruct E as [E E3]. apply andb_true_iff in E. destruct E as [E1 E2].
      apply Z.eqb_eq in E1, E2, E3. congruence.
    - vm_compute. reflexivity. }
  apply H1 in Hin. unfold in_box in Hin. simpl in Hin. lia.
Qed.
Print Assumptions grid_partition_refuted_before_fix.

Example old_misses_work_item :
  existsb (t3_eqb (10, 7, 0)) (covered_by (mkGeom 13 10 1 10 10 1) form_old' (all_produced (mkGeom 13 10 1 10 10 1) None)) = false
  /\ existsb (t3_eqb (10, 7, 0)) (covered (mkGeom 13 10 1 10 10 1)) = true.
Proof. vm_compute. auto. Qed.

(** The timing dispatcher never packs the IDs of V5 objects (recorded here for
    the reader; the emu/timing disagreement is owned by property C02). *)
Theorem timing_does_not_pack_v5_ids :
  exists g i, good_geom g /\ unpack_v5 (fst3 (tim_lane_regs 2 g i)) <> decode g i.
Proof.
  exists (mkGeom 16 16 1 16 16 1), 17. split; [unfold good_geom; simpl; lia|]. vm_compute. discriminate.
Qed.
Print Assumptions timing_does_not_pack_v5_ids.

(** Non-vacuity: concrete geometries satisfy the hypotheses, and the objects
    the theorems speak about are the expected non-trivial ones. *)
Example witness_geometry_after_fix :
  let g := mkGeom 13 10 1 10 10 1 in
  map (model_wg g) (all_produced g None) =
    [((0, 0, 0), (10, 10, 1), 100, [(0, 18446744073709551615, 64); (64, 68719476735, 36)]);
     ((1, 0, 0), (3, 10, 1), 30, [(0, 8078339535700761607, 21); (64, 470221248, 9)])]
  /\ length (covered g) = 130%nat /\ count_wg g None = 2.
Proof. vm_compute. auto. Qed.

Example three_d_partial :
  let g := mkGeom 7 5 3 3 3 2 in
  good_geom g /\ length (all_produced g None) = 12%nat /\ length (covered g) = 105%nat /\
  count_wg g (filter_of g (FRange 3 9)) = 6 /\
  map (fun w => (idx w, idy w, idz w)) (all_produced g (filter_of g (FRange 3 9))) =
    [(0, 1, 0); (1, 1, 0); (2, 1, 0); (0, 0, 1); (1, 0, 1); (2, 0, 1)].
Proof. unfold good_geom. vm_compute. repeat split; auto; discriminate. Qed.

(** ** Sequences of unified multi-GPU launches

    For ANY list of launches (each with its own geometry and the CU counts of
    the GPUs of its unified device; extents and the work-group count below
    2^32, at least one CU) that are in flight together, and for every launch i
    of the list: what the GPUs announce and produce for launch i is
    [run_launch] of launch i alone — the WGFilter closures of a launch are a
    function of that launch's own work-group count and CU counts, whatever
    else was launched before or after it — and these requests partition
    launch i's grid: every GPU produces exactly the NumWG it announces, the
    announced numbers add up to the number of work-groups of the grid, and
    every work-group of the grid is produced exactly once over all GPUs.
    (The check ties this to driver.go by enqueuing 2-3 launches with different
    grids on two queues and evaluating the captured closures interleaved.) *)
From VGrid Require Import Launches LaunchesProofs.

Theorem launches_partition_their_own_grids : forall ls i l,
  nth_error ls i = Some l -> launch_ok l ->
  exists rs, nth_error (run_launches ls) i = Some (run_launch l) /\ run_launch l = Some rs /\
    Forall (fun r => snd (fst r) = Z.of_nat (length (snd r))) rs /\
    sum_counts rs = nx (fst l) * ny (fst l) * nz (fst l) /\
    Permutation.Permutation (all_of rs) (all_wgs (fst l)).
Proof. exact run_launches_partition. Qed.
Print Assumptions launches_partition_their_own_grids.

Example two_overlapping_launches :
  let cus := [4; 4; 4] in
  let a := mkGeom 640 1 1 16 1 1 in
  let b := mkGeom 56 12 1 8 4 1 in
  launch_ok (a, cus) /\ launch_ok (b, cus) /\
  map (option_map (map (fun r : nat * Z * list wg => (fst (fst r), snd (fst r)))))
      (run_launches [(a, cus); (b, cus)]) =
    [Some [(0%nat, 16); (1%nat, 16); (2%nat, 8)]; Some [(0%nat, 8); (1%nat, 8); (2%nat, 5)]].
Proof.
  assert (Hc : Forall (fun c => 0 <= c) [4; 4; 4]) by (repeat constructor; lia).
  split; [|split]; [| |vm_compute; reflexivity];
    (unfold launch_ok, good_geom; cbn [gx gy gz sx sy sz];
     repeat match goal with |- _ /\ _ => split end; try lia; try exact Hc; vm_compute; congruence).
Qed.

(** ** SGPR slots of the work-group IDs

    Both initialisers walk the same sequence of INDEPENDENT enables (private
    segment buffer 4 dwords, dispatch ptr 2, queue ptr 2, kernarg segment ptr
    2, dispatch id 2, flat scratch init 2, private segment size 1, grid
    work-group count X/Y/Z 1 each, work-group ID X/Y/Z 1 each).
    [sgpr_slot_rule]: for EVERY list of inputs and EVERY combination of their
    enables, an enabled input is found at the dword offset that equals the
    dwords of the enabled inputs before it.  [work_group_id_sgprs]: for every
    enable mask (all 2^13 combinations), each enabled work-group ID is in the
    SGPR the ABI assigns and holds IDX / IDY / IDZ of the work-group. *)
Theorem sgpr_slot_rule : forall ins k ptr f i v j,
  Forall sized ins -> nth_error ins k = Some i -> in_en i = true -> in_val i = Some v -> (j < in_size i)%nat ->
  place ptr ins f (ptr + slot_of k ins + j) = nth j v 0.
Proof. exact place_slot. Qed.
Print Assumptions sgpr_slot_rule.

Theorem work_group_id_sgprs : forall m g w,
  let ins := sgpr_inputs m g w PACKET_ADDR KERNARG_ADDR in
  (Z.testbit m 10 = true -> nth (slot_of 10 ins) (sgpr_file m g w) 0 = u32 (idx w)) /\
  (Z.testbit m 11 = true -> nth (slot_of 11 ins) (sgpr_file m g w) 0 = u32 (idy w)) /\
  (Z.testbit m 12 = true -> nth (slot_of 12 ins) (sgpr_file m g w) 0 = u32 (idz w)).
Proof. exact wg_id_sgprs. Qed.
Print Assumptions work_group_id_sgprs.

(** X and Z enabled, Y disabled, after a kernarg pointer: Z is in s3 *)
Example id_z_follows_id_x_when_y_is_disabled :
  let m := 5128 (* bits 3, 10, 12 *) in
  let w := mkWG 7 8 9 1 1 1 in
  let g := mkGeom 20 20 20 1 1 1 in
  slot_of 12 (sgpr_inputs m g w PACKET_ADDR KERNARG_ADDR) = 3%nat /\
  firstn 5 (sgpr_file m g w) = [19088640; 2; 7; 9; UNWRITTEN].
Proof. vm_compute. auto. Qed.

(** ** Field widths of the packed V5 work-item IDs

    v0 = x | y<<10 | z<<20 with 10 bits per field: EVERY id below 1024 — the
    largest a work-group of at most 1024 items can have — round-trips in each
    of the three positions, whatever the other two ids are. *)
Theorem v5_packing_round_trips : forall x y z,
  0 <= x < 1024 -> 0 <= y < 1024 -> 0 <= z < 1024 -> unpack_v5 (pack_v5 x y z) = (x, y, z).
Proof. exact unpack_pack_v5. Qed.
Print Assumptions v5_packing_round_trips.

Example v5_extreme_ids :
  unpack_v5 (pack_v5 1023 0 0) = (1023, 0, 0) /\ unpack_v5 (pack_v5 0 1023 0) = (0, 1023, 0) /\
  unpack_v5 (pack_v5 0 0 1023) = (0, 0, 1023) /\ unpack_v5 (pack_v5 1 0 299) = (1, 0, 299) /\
  pack_v5 0 0 256 = 268435456 /\ pack_v5 1023 1023 1023 = 1073741823.
Proof. vm_compute. repeat split; reflexivity. Qed.
