(** C13 -- loading a kernel yields exactly its code and metadata from the file.
    Statements only; every proof is [exact <lemma>] into VHsaco.HsacoProofs.
    The model [load] (VHsaco.Hsaco) is the loader after debug/elf: it takes the
    section list and symbol table of ANY file (no well-formedness assumed unless
    a theorem says so) and a kernel name, and returns what the Go code returns,
    including its panics and log.Fatal exits. *)
From Coq Require Import PeanoNat NArith List String Bool Permutation.
From RecordUpdate Require Import RecordSet.
From VHsaco Require Import Hsaco HsacoSpec HsacoProofs.
Import ListNotations RecordSetNotations.
Open Scope N_scope.

(** 1. The result does not depend on the other symbols, nor on the symbol order.
    [relevant name] are the symbols called name, name.kd, name.numbered_sgpr,
    name.num_vgpr.  Any two symbol tables whose relevant symbols are the same
    up to order give the same outcome (object, panic or fatal exit alike),
    provided those symbols have distinct names. *)
Theorem load_independent_of_other_symbols : forall secs l1 l2 name,
  name <> ""%string ->
  Permutation (filter (relevant name) l1) (filter (relevant name) l2) ->
  NoDup (map y_name (filter (relevant name) l1)) ->
  load (mkView secs (Some l1)) name = load (mkView secs (Some l2)) name.
Proof. exact load_perm_relevant. Qed.
Print Assumptions load_independent_of_other_symbols.

(** ... and without any uniqueness assumption when the relevant symbols keep
    their relative order (adding / removing / moving unrelated symbols). *)
Theorem load_independent_of_unrelated_symbols : forall secs l1 l2 name,
  name <> ""%string ->
  filter (relevant name) l1 = filter (relevant name) l2 ->
  load (mkView secs (Some l1)) name = load (mkView secs (Some l2)) name.
Proof. exact load_same_relevant. Qed.
Print Assumptions load_independent_of_unrelated_symbols.

(** 2. Adding kernels: material appended to the contents of any section (code
    to .text, descriptors to .rodata, ...) together with arbitrary new
    unrelated symbols does not change what an existing kernel loads as.
    (Guard: the kernel's own descriptor, if any, was inside .rodata.) *)
Theorem load_independent_of_appended_kernels : forall secs secs' l1 l2 name o,
  name <> ""%string ->
  Forall2 sec_ext secs secs' ->
  filter (relevant name) l1 = filter (relevant name) l2 ->
  kd_oob (mkView secs (Some l1)) name = false ->
  load (mkView secs (Some l1)) name = Loaded o ->
  load (mkView secs' (Some l2)) name = Loaded o.
Proof.
  intros secs secs' l1 l2 name o Hn HF HR Hoob HL.
  rewrite <- (load_same_relevant secs' l1 l2 name Hn HR).
  exact (load_appended secs secs' l1 name o Hn HF Hoob HL).
Qed.
Print Assumptions load_independent_of_appended_kernels.

(** The loader reads section names and addresses, and the contents of the
    sections called .text and .rodata only (this is why the correspondence
    check ships only those contents to Coq). *)
Theorem load_reads_only_text_and_rodata : forall secs secs' sy name,
  Forall2 sec_same secs secs' -> load (mkView secs sy) name = load (mkView secs' sy) name.
Proof. exact load_sec_same. Qed.
Print Assumptions load_reads_only_text_and_rodata.

(** 3. The instruction bytes are exactly the symbol's slice of .text (first
    symbol of that name with positive size in a section called .text); with a
    descriptor the whole slice (version 5, descriptor metadata + register-count
    overrides), otherwise the slice minus 256 bytes iff [is_v2v3_header] holds of
    it (version 3, header metadata with entry offset 0), else the whole slice
    with empty metadata. *)
Theorem bytes_are_symbol_slice : forall secs syms name o,
  name <> ""%string ->
  load (mkView secs (Some syms)) name = Loaded o ->
  exists text y sl,
    find_section ".text" secs = Some text /\
    find (has_name name) (filter (is_kernel_sym secs) syms) = Some y /\
    slice (s_data text) (sub64 (y_value y) (s_addr text))
          (w64 (sub64 (y_value y) (s_addr text) + y_size y)) = Some sl /\
    o_sym o = Some y /\
    match find_kd name syms secs (find_section ".rodata" secs) with
    | KdMeta m => o_version o = 5 /\ o_data o = sl /\ o_meta o = override name syms m
    | _ => if is_v2v3_header sl
           then o_version o = 3 /\ o_data o = skipn 256 sl /\
                o_meta o = parse_hdr sl <| entry_off := 0 |>
           else o_version o = 5 /\ o_data o = sl /\ o_meta o = zero_meta
    end.
Proof. exact load_result. Qed.
Print Assumptions bytes_are_symbol_slice.

(** For a symbol inside its section the slice is text[value-addr, +size]. *)
Theorem slice_of_well_placed_symbol : forall (text : section) (y : symbol),
  s_addr text <= y_value y -> y_value y < 18446744073709551616 ->
  y_value y - s_addr text + y_size y <= lenN (s_data text) ->
  lenN (s_data text) < 18446744073709551616 ->
  slice (s_data text) (sub64 (y_value y) (s_addr text))
        (w64 (sub64 (y_value y) (s_addr text) + y_size y)) =
  Some (firstn (N.to_nat (y_size y)) (skipn (N.to_nat (y_value y - s_addr text)) (s_data text))).
Proof. exact slice_in_bounds. Qed.
Print Assumptions slice_of_well_placed_symbol.

(** The header test looks at exactly these five fields. *)
Theorem header_test_fields : forall d,
  is_v2v3_header d = true <->
  256 <= lenN d /\ le d 0 4 = 1 /\ le d 4 4 <= 2 /\ le d 8 2 = 1 /\
  7 <= le d 10 2 <= 9 /\ le d 16 8 = 256.
Proof. exact is_v2v3_header_spec. Qed.
Print Assumptions header_test_fields.

(** 4. Descriptor metadata takes precedence over header sniffing: with a valid
    descriptor nothing is stripped, whatever the code bytes look like. *)
Theorem v5_takes_precedence : forall secs syms name o m,
  name <> ""%string ->
  load (mkView secs (Some syms)) name = Loaded o ->
  find_kd name syms secs (find_section ".rodata" secs) = KdMeta m ->
  o_version o = 5 /\ o_meta o = override name syms m /\
  exists text y,
    find_section ".text" secs = Some text /\
    find (has_name name) (filter (is_kernel_sym secs) syms) = Some y /\ o_sym o = Some y /\
    slice (s_data text) (sub64 (y_value y) (s_addr text))
          (w64 (sub64 (y_value y) (s_addr text) + y_size y)) = Some (o_data o).
Proof.
  intros secs syms name o m Hn HL Hk.
  destruct (load_result secs syms name o Hn HL) as (text & y & sl & Ht & Hy & Hs & Hsym & H).
  rewrite Hk in H. destruct H as (Hv & Hd & Hm). repeat split; try assumption.
  exists text, y. rewrite Hd. auto.
Qed.
Print Assumptions v5_takes_precedence.

(** 5. Round trips against encoders written from the documented layouts:
    every field the parsers extract is recovered, for all field values within
    their bit widths, whatever follows the header / whatever the reserved
    bytes contain. *)
Theorem parse_hdr_roundtrip : forall h code,
  hdr_wf h -> parse_hdr (encode_hdr h ++ code) = meta_of_hdr h.
Proof. exact parse_hdr_encode. Qed.
Print Assumptions parse_hdr_roundtrip.

(** Descriptor: sizes, entry offset, rsrc1, rsrc3 as stored; register counts
    (granulated count + 1) * 4 resp. * 8; kernarg pointer iff kernarg size > 0;
    all other enable flags cleared; rsrc2 rewritten as [rsrc2_spec] says. *)
Theorem parse_kd_roundtrip : forall k,
  kd_wf k ->
  parse_kd (encode_kd k) = meta_of_kd k (fix_rsrc2 (0 <? k_kernarg k) (k_rsrc2 k)) /\
  forall n, N.testbit (fix_rsrc2 (0 <? k_kernarg k) (k_rsrc2 k)) n =
            rsrc2_spec (0 <? k_kernarg k) (N.testbit (k_rsrc2 k)) n.
Proof. intros k W. split; [exact (parse_kd_encode k W)|intros n; apply fix_rsrc2_spec]. Qed.
Print Assumptions parse_kd_roundtrip.

(** 6. "A 256-byte header is stripped only when it genuinely is one."
    [content] is what the producer of the file put at the kernel symbol.  The
    full-strength claim for kernels without descriptor: *)
Definition strip_only_genuine_stmt : Prop :=
  forall c y, o_data (from_entire (bytes_of c) y) = code_of c.

(** It is false: instructions that satisfy the five-field test lose their
    first 256 bytes (six v_cndmask_b32 encodings do). *)
Definition mimic_code : bytes :=
  [1;0;0;0; 2;0;0;0; 1;0;8;0; 0;0;0;0; 0;1;0;0;0;0;0;0] ++ repeat 0 232 ++ [129;0;129;191].

Theorem strip_only_genuine_refuted : exists c y,
  o_data (from_entire (bytes_of c) y) <> code_of c.
Proof. exists (CCode mimic_code), None. vm_compute. discriminate. Qed.
Print Assumptions strip_only_genuine_refuted.

(** It holds for genuine headers whose five signature fields are in range and
    for code that does not pass the five-field test; and, by
    [v5_takes_precedence], for every kernel that has a descriptor. *)
Theorem strip_only_genuine_partial : forall c y,
  match c with
  | CHeader h _ => hdr_wf h /\ hdr_sig_ok h
  | CCode code => is_v2v3_header code = false
  end ->
  from_entire (bytes_of c) y =
  match c with
  | CHeader h code => mkObj 3 code y (meta_of_hdr h <| entry_off := 0 |>)
  | CCode code => mkObj 5 code y zero_meta
  end.
Proof.
  intros [h code|code] y H.
  - destruct H. apply from_entire_header; assumption.
  - apply from_entire_code; assumption.
Qed.
Print Assumptions strip_only_genuine_partial.

(** 7. History independence.  The result of a load is a function of the bytes
    (view) and the name given to THAT call: in any sequence of loads performed
    by one process, the k-th result is [load] of the k-th image alone, whatever
    was loaded before or after, from whatever buffer.  (In the model this is
    immediate -- [load] has no state; the content of the statement is that the
    real loader is compared against it load by load inside histories, see
    tools/checks/c13.py.) *)
Theorem load_is_function_of_bytes : forall l k v name,
  nth_error l k = Some (v, name) -> nth_error (load_seq l) k = Some (load v name).
Proof. exact load_seq_nth. Qed.
Print Assumptions load_is_function_of_bytes.

Theorem load_history_independent : forall pre1 pre2 post1 post2 v name,
  nth_error (load_seq (pre1 ++ (v, name) :: post1)) (List.length pre1) =
  nth_error (load_seq (pre2 ++ (v, name) :: post2)) (List.length pre2).
Proof.
  intros. rewrite !(load_seq_nth _ _ v name); [reflexivity| |];
    rewrite nth_error_app2, Nat.sub_diag by auto; reflexivity.
Qed.
Print Assumptions load_history_independent.

(** 8. Decoys.  Only the [effective] symbols count: kernel symbols of that name
    (positive size, in .text), symbols called name.kd of size 64, the metadata
    symbols.  Same-named symbols of other sizes or sections (zero-sized labels,
    a local name.kd of size 0 in front of the real descriptor, ...) may be
    added, removed or moved freely, before or after the real ones. *)
Theorem load_ignores_decoys : forall secs l1 l2 name,
  name <> ""%string ->
  filter (effective secs name) l1 = filter (effective secs name) l2 ->
  load (mkView secs (Some l1)) name = load (mkView secs (Some l2)) name.
Proof. exact load_same_effective. Qed.
Print Assumptions load_ignores_decoys.

(** 9. Empty name: when the object has exactly one kernel symbol, loading with
    the empty name is loading that kernel by its name (so every theorem above
    applies to it through this equation). *)
Theorem load_empty_name_single_kernel : forall secs syms k,
  filter (is_kernel_sym secs) syms = [k] ->
  load (mkView secs (Some syms)) "" = load (mkView secs (Some syms)) (y_name k).
Proof. exact load_auto_single. Qed.
Print Assumptions load_empty_name_single_kernel.

(** ------------------------------------------------------------ non-vacuity *)
Definition demo_hdr : hdr :=
  mkHdr 1 1 1 8 0 3 256 0 0 0 11272256 144 true false false true false false false false false false
        0 0 64 0 24 0 16 12 (repeat 0 168).
Definition demo_kd : kdesc := mkKd 128 0 24 0 4096 0 2 2 1 44800 4484 8 0 0.
(** kernel "a": V2 header + one instruction; kernel "b": descriptor, code that
    mimics a header, metadata symbols; shuffled symbols, non-zero addresses *)
Definition demo_view (order : bool) : view :=
  let text := (encode_hdr demo_hdr ++ [0;0;129;191]) ++ mimic_code in
  let syms := [mkSym "b.num_vgpr" 16 0 65521 9 0; mkSym "b" 18 0 2 (4096 + 260) 260;
               mkSym "a" 26 0 2 4096 260; mkSym "b.kd" 17 0 1 (512 + 8) 64;
               mkSym "b.numbered_sgpr" 16 0 65521 30 0] in
  mkView [mkSec "" 0 []; mkSec ".rodata" 512 (repeat 7 8 ++ encode_kd demo_kd);
          mkSec ".text" 4096 text; mkSec ".symtab" 0 []]
         (Some (if order then syms else rev syms ++ [mkSym "c" 18 0 2 4096 4])).

Example demo_loads :
  (forall ord, exists o, load (demo_view ord) "a" = Loaded o /\ o_version o = 3 /\
     o_data o = [0;0;129;191] /\ o_meta o = meta_of_hdr demo_hdr <| entry_off := 0 |>) /\
  (forall ord, exists o, load (demo_view ord) "b" = Loaded o /\ o_version o = 5 /\
     o_data o = mimic_code /\ is_v2v3_header (o_data o) = true /\
     wi_vgpr_count (o_meta o) = 12 /\ wf_sgpr_count (o_meta o) = 32 /\
     kernarg_size (o_meta o) = 24 /\ en_kernarg_segment_ptr (o_meta o) = true /\
     rsrc2 (o_meta o) = 4484) /\
  hdr_wf demo_hdr /\ hdr_sig_ok demo_hdr /\ kd_wf demo_kd.
Proof.
  split; [|split].
  - intros []; eexists; vm_compute; repeat split; reflexivity.
  - intros []; eexists; vm_compute; repeat split; reflexivity.
  - vm_compute. repeat split; try reflexivity; discriminate.
Qed.

(** a zero-sized local label b.kd in front of the real descriptor, a label "b"
    and the empty name on a one-kernel object change nothing *)
Example demo_decoys_and_auto :
  let v := demo_view true in
  let secs := v_secs v in
  let syms := match v_syms v with Some l => filter (fun y => negb (has_name "a" y)) l | None => [] end in
  let decoys := [mkSym "b.kd" 0 0 1 520 0; mkSym "b" 0 0 2 4356 0] in
  load (mkView secs (Some (decoys ++ syms))) "b" = load v "b" /\
  load (mkView secs (Some (decoys ++ syms))) "" = load v "b" /\
  exists o, load v "b" = Loaded o /\ kernarg_size (o_meta o) = 24.
Proof. vm_compute. repeat split. eexists. split; reflexivity. Qed.

(** without unique names the symbol order does matter (first match wins) *)
Example order_matters_when_names_collide :
  let secs := [mkSec "" 0 []; mkSec ".text" 0 [1;2;3;4;5;6;7;8]] in
  let y1 := mkSym "k" 18 0 1 0 4 in let y2 := mkSym "k" 18 0 1 4 4 in
  load (mkView secs (Some [y1; y2])) "k" <> load (mkView secs (Some [y2; y1])) "k".
Proof. vm_compute. discriminate. Qed.

(** a genuine header of a generation outside 7..9 is not recognised (the
    "only when" direction of the property is about stripping, not about this) *)
Example header_of_other_generation_kept :
  let h := mkHdr 1 1 1 10 0 3 256 0 0 0 0 0 false false false false false false false false false false
                 0 0 0 0 0 0 0 0 (repeat 0 168) in
  hdr_wf h /\ o_version (from_entire (bytes_of (CHeader h [0;0;129;191])) None) = 5.
Proof. vm_compute. repeat split; try reflexivity. Qed.
