(** C02 — timing mode is functionally transparent (PARTIAL).
    Statements only.  What is proved are the mechanisms where timing mode
    re-implements something the emulator also implements; no theorem here says
    that pipelines, caches, TLBs and DRAM deliver every byte (the whole-program
    claim is checked differentially by tools/checks/c02.py, not proved).
    Models: VCu.InitRegs, VCu.Coalescer ([fixed] = the working tree with the
    three C02 repairs, [as_found] = the code before them). *)
From Coq Require Import List NArith Bool Lia.
From VCu Require Import InitRegs Coalescer C02Proofs C02Addr.
Import ListNotations.
Open Scope N_scope.

(** Mechanism 1.  For every code-object flag combination, every dispatch packet
    and every wavefront geometry the two initialisers perform the same register
    writes in the same order (or both panic). *)
Theorem init_regs_agree : forall f p w, emu_init fixed f p w = timing_init fixed f p w.
Proof. exact init_agree_fixed. Qed.
Print Assumptions init_regs_agree.

(** The same statement about the code as found is false, in three ways. *)
Definition fl (ver : N) (q ps : bool) (rsrc2 : N) : flags :=
  mkFlags ver 0 false false q true false false ps false false false rsrc2.
Definition pk : packet := mkPacket 4096 8192 64 64 1 16 16 1.
Definition wv : wave := mkWave 12288 18446744073709551615 64 3 5 0 16 16.

Theorem init_regs_agree_as_found_refuted_v5 :
  exists f p w, observe_opt (emu_init as_found f p w) <> observe_opt (timing_init as_found f p w).
Proof. exists (fl 5 false false 2432), pk, wv. intro H. vm_compute in H. discriminate H. Qed.
Print Assumptions init_regs_agree_as_found_refuted_v5.

Theorem init_regs_agree_as_found_refuted_queue_ptr :
  exists f p w, observe_opt (emu_init as_found f p w) <> observe_opt (timing_init as_found f p w).
Proof. exists (fl 3 true false 2432), pk, wv. intro H. vm_compute in H. discriminate H. Qed.
Print Assumptions init_regs_agree_as_found_refuted_queue_ptr.

Theorem init_regs_agree_as_found_refuted_private_segment_size :
  exists f p w, observe_opt (emu_init as_found f p w) <> observe_opt (timing_init as_found f p w).
Proof. exists (fl 3 false true 2432), pk, wv. intro H. vm_compute in H. discriminate H. Qed.
Print Assumptions init_regs_agree_as_found_refuted_private_segment_size.

(** ... and true under the weakest guard: not V5 and neither flag set. *)
Theorem init_regs_agree_as_found_partial : forall f p w,
  f_version f <> 5 -> f_queue_ptr f = false -> f_priv_seg_size f = false ->
  emu_init as_found f p w = timing_init as_found f p w.
Proof. exact init_agree_as_found. Qed.
Print Assumptions init_regs_agree_as_found_partial.

(** Mechanism 2, address mode: the mode bit the coalescer reads off the decoded
    operand is the one the emulator ALU of the same architecture computes. *)
Theorem flat_addr_mode_agree : forall cdna3 saddr,
  timing_has_saddr (decode_addr_regcount cdna3 saddr) = emu_has_saddr cdna3 saddr.
Proof. intros [] saddr; unfold timing_has_saddr, decode_addr_regcount, emu_has_saddr;
       destruct (saddr =? 127), (saddr =? 0); reflexivity. Qed.
Print Assumptions flat_addr_mode_agree.

(** Mechanism 2, effective address.  FLAT / GLOBAL accesses in OFF mode (64-bit
    VGPR pair) and in SAddr mode (SGPR-pair base + 32-bit VGPR offset), signed
    13-bit immediate, everything modulo 2^64: for every architecture, every
    SADDR field (the coalescer sees only the operand size the decoder derived from
    it), every value of the SGPR pair and of the two lane registers (any naturals:
    both sides truncate them the same way) and every immediate field, the address
    the timing coalescer computes for the lane (readFlatAddr) is the address the
    emulator ALU of that architecture computes (alu_flat.go, cdna3/flat.go). *)
Theorem flat_addr_timing_eq_emu : forall cdna3 saddr sbase vlo vhi raw13,
  timing_flat_addr (decode_addr_regcount cdna3 saddr) sbase vlo vhi (decode_off13 raw13) =
  emu_flat_addr cdna3 saddr sbase vlo vhi (decode_off13 raw13).
Proof. intros. apply flat_addr_agree. Qed.
Print Assumptions flat_addr_timing_eq_emu.

(** ... and that address is base + lane part + sign-extended immediate (mod 2^64);
    in SAddr mode the lane part is the LOW register zero-extended, and it is
    extended BEFORE the (possibly negative) immediate is added. *)
Theorem flat_addr_closed_form : forall regcount sbase vlo vhi raw13,
  timing_flat_addr regcount sbase vlo vhi (decode_off13 raw13) =
  u64 ((if regcount =? 1 then u64 sbase + u32 vlo else u32 vlo + 4294967296 * u32 vhi) +
       (if raw13 mod 8192 <? 4096 then raw13 mod 8192 else 18446744073709551616 - (8192 - raw13 mod 8192))).
Proof. intros. rewrite timing_flat_addr_spec, sext32_decode_off13. reflexivity. Qed.
Print Assumptions flat_addr_closed_form.

(** Coverage, loads: for every line size, EXEC mask, opcode, register contents
    [vs] (pairs low / high register per lane) and instruction fields, a byte is
    selected by the lane information of some read transaction built from the
    TIMING addresses iff it belongs to the access of an active lane at the
    EMULATOR address. *)
Theorem coalesced_load_covers_emu_bytes : forall lg cdna3 saddr sbase raw13 op exec (vs : list (N * N)) rc dst b,
  load_txn_byte op
    (read_txns lg exec (map (fun v => timing_flat_addr (decode_addr_regcount cdna3 saddr) sbase (fst v) (snd v)
                                                       (decode_off13 raw13)) vs) rc dst) b
  <-> lane_byte op exec (map (fun v => emu_flat_addr cdna3 saddr sbase (fst v) (snd v) (decode_off13 raw13)) vs) rc b.
Proof. intros. rewrite addr_maps_agree. apply load_cover. Qed.
Print Assumptions coalesced_load_covers_emu_bytes.

(** Mechanism 2, loads.  For every FLAT load opcode both modes implement
    (16 ubyte, 17 sbyte, 18 ushort, 20/21/23 dword x1/x2/x4), every cache-line
    size 2^lg, every EXEC mask, every per-lane address vector such that no
    accessed dword (short) crosses a line, every memory and every register file:
    whatever order the read responses come back in ([ts] = the transactions as a
    set), the write-back leaves the VGPRs the emulator leaves. *)
Theorem coalesced_load_eq_emu : forall lg op exec addrs dst m rf rc ts,
  emu_load_op op = true -> reg_count op = Some rc ->
  no_straddle lg op exec addrs rc ->
  (forall t, In t ts <-> In t (read_txns lg exec addrs rc dst)) ->
  exists we wt, emu_load op exec addrs dst m = Some we /\
                timing_load_on lg fixed op m ts = Some wt /\
                forall k, apply_v wt rf k = apply_v we rf k.
Proof. intros. eapply load_eq; eauto. Qed.
Print Assumptions coalesced_load_eq_emu.

(** As found: flat_load_sbyte / flat_load_ushort on bytes 80 91 A2 B3. *)
Definition m4 : mem := win_mem 256 [128; 145; 162; 179].
Theorem coalesced_load_as_found_refuted_sbyte :
  exists we wt, emu_load 17 1 [256] 1 m4 = Some we /\ timing_load 6 as_found 17 1 [256] 1 m4 = Some wt /\
    apply_v we vsentinel (0, 1) = 4294967168 /\ apply_v wt vsentinel (0, 1) = 3013775744.
Proof. eexists; eexists. split; [reflexivity|]. split; [vm_compute; reflexivity|]. vm_compute. auto. Qed.
Print Assumptions coalesced_load_as_found_refuted_sbyte.

Theorem coalesced_load_as_found_refuted_ushort :
  exists we wt, emu_load 18 1 [256] 1 m4 = Some we /\ timing_load 6 as_found 18 1 [256] 1 m4 = Some wt /\
    apply_v we vsentinel (0, 1) = 37248 /\ apply_v wt vsentinel (0, 1) = 128.
Proof. eexists; eexists. split; [reflexivity|]. split; [vm_compute; reflexivity|]. vm_compute. auto. Qed.
Print Assumptions coalesced_load_as_found_refuted_ushort.

(** The guard [no_straddle] cannot be dropped: a dword that begins two bytes
    before the end of a line makes the timing write-back panic (slice bounds in
    the register file) while the emulator completes.  Known finding. *)
Theorem coalesced_load_straddle_refuted :
  exists lg op exec addrs dst m, emu_load_op op = true /\
    emu_load op exec addrs dst m <> None /\ timing_load lg fixed op exec addrs dst m = None.
Proof. exists 6, 20, 1, [318], 1, m4. split; [reflexivity|]. split; [discriminate|]. vm_compute. reflexivity. Qed.
Print Assumptions coalesced_load_straddle_refuted.

(** Mechanism 2, stores (28..31 dword x1..x4): the coalescer never panics, emits
    at most one masked write per cache line, and applying those writes to any
    memory gives the memory the emulator's lane-by-lane stores give (later lanes
    overwrite earlier ones in both). *)
Theorem coalesced_store_eq_emu : forall lg op exec addrs data m rc,
  emu_store_op op = true -> reg_count op = Some rc ->
  no_straddle lg op exec addrs rc ->
  exists reqs me, timing_store lg op exec addrs data = Some reqs /\
                  emu_store op exec addrs data m = Some me /\
                  NoDup (map wq_addr reqs) /\
                  forall x, apply_wreqs reqs m x = me x.
Proof. intros. eapply store_eq; eauto. Qed.
Print Assumptions coalesced_store_eq_emu.

(** The same with the addresses computed by each side from the registers: the
    masked writes built from the timing addresses change memory exactly as the
    emulator's stores at the emulator addresses do (so they dirty exactly the
    bytes the emulator writes, for every memory). *)
Theorem coalesced_store_eq_emu_from_registers : forall lg cdna3 saddr sbase raw13 op exec (vs : list (N * N)) data m rc,
  let ta := map (fun v => timing_flat_addr (decode_addr_regcount cdna3 saddr) sbase (fst v) (snd v) (decode_off13 raw13)) vs in
  let ea := map (fun v => emu_flat_addr cdna3 saddr sbase (fst v) (snd v) (decode_off13 raw13)) vs in
  emu_store_op op = true -> reg_count op = Some rc ->
  no_straddle lg op exec ea rc ->
  exists reqs me, timing_store lg op exec ta data = Some reqs /\
                  emu_store op exec ea data m = Some me /\
                  NoDup (map wq_addr reqs) /\
                  forall x, apply_wreqs reqs m x = me x.
Proof. intros until rc. intros ta ea. subst ta ea. rewrite addr_maps_agree. intros. eapply store_eq; eauto. Qed.
Print Assumptions coalesced_store_eq_emu_from_registers.

Theorem coalesced_store_straddle_refuted :
  exists lg op exec addrs data m, emu_store_op op = true /\
    emu_store op exec addrs data m <> None /\ timing_store lg op exec addrs data = None.
Proof. exists 6, 28, 1, [318], [[7]], m4. split; [reflexivity|]. split; [discriminate|]. vm_compute. reflexivity. Qed.
Print Assumptions coalesced_store_straddle_refuted.

(** Mechanism 3, scalar loads (s_load_dword, x2, x4, x8, x16): for every line size
    of at least one dword, every start address (both modes drop its two low
    bits), every memory and SGPR file: the cache-line pieces the timing scalar
    unit requests, written back piece by piece, leave the SGPRs the emulator's
    single read leaves. *)
Theorem smem_split_eq_emu : forall lg op start dst m rf sz,
  2 <= lg -> smem_size op = Some sz ->
  exists wt we, timing_smem lg op start dst m = Some wt /\ emu_smem op start dst m = Some we /\
    forall k, apply_s wt rf k = apply_s we rf k.
Proof. intros. eapply smem_eq; eauto. Qed.
Print Assumptions smem_split_eq_emu.

Example smem_demo :
  map (fun p => (fst (fst p), snd (fst p))) (smem_pieces 6 33 56 56 32 8) = [(56, 8); (64, 24)] /\
  omap (fun ws => map (apply_s ws ssentinel) [8; 9; 10; 15; 16])
       (timing_smem 6 3 58 8 (fun a => a mod 256)) =
  omap (fun ws => map (apply_s ws ssentinel) [8; 9; 10; 15; 16])
       (emu_smem 3 58 8 (fun a => a mod 256)).
Proof. vm_compute. auto. Qed.

(** Non-vacuity: a two-lane x2 load over two cache lines satisfies the
    hypotheses, produces two transactions, and both sides write four registers. *)
Example load_demo :
  let addrs := [312; 320] in
  no_straddle 6 21 3 addrs 2 /\
  map fst (read_txns 6 3 addrs 2 10) = [256; 320] /\
  omap (fun ws => map (fun k => apply_v ws vsentinel k) [(0, 10); (0, 11); (1, 10); (1, 11)])
       (timing_load 6 fixed 21 3 addrs 10 (fun a => a mod 256)) =
  omap (fun ws => map (fun k => apply_v ws vsentinel k) [(0, 10); (0, 11); (1, 10); (1, 11)])
       (emu_load 21 3 addrs 10 (fun a => a mod 256)) /\
  length (match emu_load 21 3 addrs 10 (fun a => a mod 256) with Some w => w | None => [] end) = 4%nat.
Proof.
  split.
  - intros l j x H. apply in_accesses in H. destruct H as (Hl & Hb & (j' & Hj & ->) & ->).
    assert (Hl2 : l = 0 \/ l = 1).
    { destruct l as [|[p|p|]]; auto; destruct p; simpl in Hb; try discriminate; auto. }
    assert (Hj2 : (j' = 0 \/ j' = 1)%nat) by lia.
    destruct Hl2 as [-> | ->]; destruct Hj2 as [-> | ->]; vm_compute; discriminate.
  - vm_compute. auto.
Qed.

Example store_demo :
  omap (fun rs => apply_wreqs rs (fun _ => 0) 321) (timing_store 6 29 3 [312; 320] [[1; 2]; [772; 4]]) = Some 3 /\
  omap (fun m => m 321) (emu_store 29 3 [312; 320] [[1; 2]; [772; 4]] (fun _ => 0)) = Some 3.
Proof. vm_compute. auto. Qed.

(** Non-vacuity of the address theorems: global_load ..., v, s[4:5] offset:-64 with
    a lane offset of 16 (< 64) and a base just above a 4 GiB boundary: the address
    lies BELOW the boundary (base - 48), not 4 GiB above it; OFF mode with the
    same registers reads the pair; offsets near 2^32 carry into bit 32. *)
Example addr_demo :
  timing_flat_addr 1 8589934624 16 7 (decode_off13 (8192 - 64)) = 8589934576 /\
  emu_flat_addr false 4 8589934624 16 7 (decode_off13 (8192 - 64)) = 8589934576 /\
  emu_flat_addr true 0 8589934624 16 7 (decode_off13 (8192 - 64)) = 8589934576 /\
  emu_flat_addr false 0 8589934624 16 7 (decode_off13 (8192 - 64)) = 7 * 4294967296 + 16 - 64 /\
  timing_flat_addr 1 4096 4294967295 0 (decode_off13 4095) = 4096 + 4294967295 + 4095 /\
  timing_flat_addr 2 0 0 0 (decode_off13 8191) = 18446744073709551615 /\
  decode_off13 (8192 - 64) = 4294967232.
Proof. vm_compute. repeat split. Qed.
