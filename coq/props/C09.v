(** C09 — work-groups are dispatched exactly once within compute-unit resources.
    Statements only; proofs are in VCp.ResourceProofs / VCp.DispatcherProofs.

    Layer 1 (VCp.Resource): one CUResourceImpl under every finite sequence of
    ReserveResourceForWG / FreeResourcesForWG calls ([run (init_cu c) h]; [None]
    = the Go code panicked), for every reported capacity [c] (finite masks).
    Layer 2 (VCp.Dispatcher): the command processor's launch path under every
    finite sequence of environment events (launch requests, completion messages
    in any order/grouping/delay, ticks, retrievals = back-pressure), for every
    number of CUs and dispatchers. *)
From Coq Require Import List NArith Bool Arith Lia Permutation.
From VCp Require Import Resource ResourceProofs Dispatcher DispatcherSteps DispatcherProofs.
Import ListNotations.
Open Scope nat_scope.

(** * Layer 1 *)

(** The invariant of a CU resource after any history whose reservations are for
    work-groups with at least one wavefront: per resource the mask has the
    registered size, every cell is Free or Reserved (no ToReserve mark survives
    a call), a cell is Reserved iff exactly one recorded region of a resident
    work-group covers it and Free iff none does, every recorded region lies
    inside the mask, free wavefront slots + resident wavefronts = pool size on
    every SIMD, keys are unique, every resident work-group has one location per
    wavefront on an existing SIMD and one LDS region. *)
Theorem resources_disjoint_inv : forall c h s,
  Forall op_ok h -> Resource.run (init_cu c) h = Some s -> Inv c s.
Proof. intros c h s Hh Hr. exact (ResourceProofs.run_inv c h _ _ (init_inv c) Hh Hr). Qed.
Print Assumptions resources_disjoint_inv.

(** Readable consequences: (1) status of every cell, (2) regions inside the
    capacity, (3) any two recorded regions of a resource are disjoint — SGPR
    regions of all resident wavefronts, LDS regions of resident work-groups,
    VGPR regions of the wavefronts on one SIMD — (4) slot accounting. *)
Theorem resources_disjoint_spelled_out : forall c h s,
  Forall op_ok h -> Resource.run (init_cu c) h = Some s ->
  let res := resident s in
  (forall i st, nth_error (smask s) i = Some st ->
     (st = SReserved /\ cover (sregs res) i = 1) \/ (st = SFree /\ cover (sregs res) i = 0)) /\
  (forall i st, nth_error (lmask s) i = Some st ->
     (st = SReserved /\ cover (lregs res) i = 1) \/ (st = SFree /\ cover (lregs res) i = 0)) /\
  Forall (in_range (N.to_nat (cfg_sregs c / SREG_GRAN))) (sregs res) /\
  Forall (in_range (N.to_nat (cfg_lds c / LDS_GRAN))) (lregs res) /\
  (forall l1 r1 l2 r2 l3 i, sregs res = l1 ++ r1 :: l2 ++ r2 :: l3 ->
     inreg r1 i = true -> inreg r2 i = true -> False) /\
  (forall l1 r1 l2 r2 l3 i, lregs res = l1 ++ r1 :: l2 ++ r2 :: l3 ->
     inreg r1 i = true -> inreg r2 i = true -> False) /\
  (forall j sd p, nth_error (simds s) j = Some sd -> nth_error (cfg_simds c) j = Some p ->
     (forall i st, nth_error (vmask sd) i = Some st ->
        (st = SReserved /\ cover (vregs j res) i = 1) \/ (st = SFree /\ cover (vregs j res) i = 0)) /\
     Forall (in_range (N.to_nat (fst p / VREG_GRAN / 64))) (vregs j res) /\
     (forall l1 r1 l2 r2 l3 i, vregs j res = l1 ++ r1 :: l2 ++ r2 :: l3 ->
        inreg r1 i = true -> inreg r2 i = true -> False) /\
     (wf_free sd + N.of_nat (wf_on j res) = snd p)%N).
Proof.
  intros c h s Hh Hr res. pose proof (resources_disjoint_inv c h s Hh Hr) as HI.
  assert (Hrange : forall m rs, mask_ok m rs [] -> Forall (in_range (length m)) rs).
  { intros m rs [_ H]. rewrite app_nil_r in H. exact H. }
  split; [intros; eapply mask_ok_status; eauto; apply (inv_s _ _ HI)|].
  split; [intros; eapply mask_ok_status; eauto; apply (inv_l _ _ HI)|].
  split; [rewrite <- (inv_slen _ _ HI); apply Hrange, (inv_s _ _ HI)|].
  split; [rewrite <- (inv_llen _ _ HI); apply Hrange, (inv_l _ _ HI)|].
  split; [intros; eapply mask_ok_disjoint; eauto; apply (inv_s _ _ HI)|].
  split; [intros; eapply mask_ok_disjoint; eauto; apply (inv_l _ _ HI)|].
  intros j sd p Hj Hp. destruct (inv_v _ _ HI j sd p Hj Hp) as [Hm [Hl Hw]].
  split; [intros; eapply mask_ok_status; eauto|].
  split; [rewrite <- Hl; apply Hrange; auto|].
  split; [intros; eapply mask_ok_disjoint; eauto|exact Hw].
Qed.
Print Assumptions resources_disjoint_spelled_out.

(** Freeing a work-group right after it was reserved restores every mask and
    every free-slot count (only nextSIMD may have moved). *)
Theorem free_restores : forall c h s k d s1 locs,
  Forall op_ok h -> Resource.run (init_cu c) h = Some s -> 1 <= d_nwf d ->
  reserve s k d = Ret s1 (Some locs) ->
  exists s2, free s1 k = Some s2 /\
    smask s2 = smask s /\ lmask s2 = lmask s /\ simds s2 = simds s /\ resident s2 = resident s.
Proof.
  intros c h s k d s1 locs Hh Hr Hn He.
  exact (free_restores_lemma c s k d s1 locs (resources_disjoint_inv c h s Hh Hr) Hn He).
Qed.
Print Assumptions free_restores.

(** The guard [1 <= d_nwf d] is needed: the code frees the LDS region inside
    the loop over wavefront locations, so an (impossible in practice) empty
    work-group would leak its LDS region. *)
Theorem free_restores_refuted_for_empty_workgroup :
  exists c k d s1 s2 locs,
    reserve (init_cu c) k d = Ret s1 (Some locs) /\ free s1 k = Some s2 /\
    lmask s2 <> lmask (init_cu c).
Proof.
  exists (mkCfg 16 256 [(256, 1)%N]), (1, 0)%N, (mkDemand 0 0 0 256).
  eexists. eexists. eexists. split; [vm_compute; reflexivity|]. split; [vm_compute; reflexivity|].
  vm_compute. discriminate.
Qed.
Print Assumptions free_restores_refuted_for_empty_workgroup.

(** A reservation succeeds only into free resources: one location per
    wavefront, every SGPR/VGPR/LDS region it returns was entirely Free (and
    inside the mask) before the call, and no SIMD receives more wavefronts than
    it had free slots. *)
Theorem reserve_only_if_fits : forall c h s k d s' locs,
  Forall op_ok h -> Resource.run (init_cu c) h = Some s -> 1 <= d_nwf d ->
  reserve s k d = Ret s' (Some locs) ->
  length locs = d_nwf d /\
  (forall l, In l locs -> all_free (smask s) (sreg_of d l)) /\
  (forall l, In l locs -> all_free (lmask s) (lreg_of d l)) /\
  (forall l, In l locs -> exists sd, nth_error (simds s) (l_simd l) = Some sd /\
                                     all_free (vmask sd) (vreg_of d l)) /\
  (forall i sd, nth_error (simds s) i = Some sd ->
     (N.of_nat (length (filter (on_simd i) locs)) <= wf_free sd)%N).
Proof.
  intros c h s k d s' locs Hh Hr Hn He.
  exact (reserve_only_if_fits_lemma c s k d s' locs (resources_disjoint_inv c h s Hh Hr) Hn He).
Qed.
Print Assumptions reserve_only_if_fits.

(** A refused reservation changes nothing but nextSIMD (all temporary
    ToReserve marks are cleared). *)
Theorem reserve_refused_leaves_occupancy : forall c h s k d s',
  Forall op_ok h -> Resource.run (init_cu c) h = Some s -> 1 <= d_nwf d ->
  reserve s k d = Ret s' None ->
  smask s' = smask s /\ lmask s' = lmask s /\ simds s' = simds s /\ resident s' = resident s.
Proof.
  intros c h s k d s' Hh Hr Hn He.
  exact (reserve_refused_unchanged c s k d s' (resources_disjoint_inv c h s Hh Hr) Hn He).
Qed.
Print Assumptions reserve_refused_leaves_occupancy.

(** nextRegion is a first-fit search that is sound and complete: it fails
    exactly when the mask has no run of [len] cells in the requested status. *)
Theorem next_region_sound_complete : forall m len st,
  (forall o, next_region m len st = Some o ->
     o + len <= length m /\ forall j, o <= j < o + len -> nth_error m j = Some st) /\
  (next_region m len st = None ->
     forall o, o + len <= length m -> ~ (forall j, o <= j < o + len -> nth_error m j = Some st)).
Proof. intros. split; [apply next_region_spec|apply next_region_none]. Qed.
Print Assumptions next_region_sound_complete.

(** The code panics only when the caller breaks the protocol: freeing a
    work-group that is not resident; reserving one that is (or a CU without SIMDs). *)
Theorem panics_only_on_protocol_violation : forall s k d,
  (free s k = None <-> lookup k (resident s) = None) /\
  (simds s <> [] -> lookup k (resident s) = None -> reserve s k d <> Crash).
Proof. intros. split; [apply free_panics_iff|apply reserve_no_panic]. Qed.
Print Assumptions panics_only_on_protocol_violation.

(** * Layer 2 *)

(** Every work-group of a launch is mapped exactly once.  When the
    LaunchKernelRsp of a launch is sent, the MapWGReqs sent for it carry exactly
    the work-groups of its grid (key and demand), each once (a permutation of the
    grid; for round-robin and greedy even in grid order), each with the CU and the
    locations of a reservation that succeeded; while a launch is in progress the
    MapWGReqs sent so far are a duplicate-free part (for round-robin and greedy: a
    prefix) of the grid.  Holds for the three placement algorithms. *)
Theorem wg_mapped_exactly_once : forall c cus n evs,
  let s := Dispatcher.run (init_cp c cus n) evs in
  crashed (sh s) = false ->
  (forall f, In f (g_hist (sh s)) ->
     Permutation (grid_of (f_launch f)) (map kd_of_sent (f_sent f)) /\
     (is_partition (c_alg c) = false -> map kd_of_sent (f_sent f) = grid_of (f_launch f)) /\
     Forall mr_ok (f_sent f)) /\
  (forall d l, In d (disps s) -> dispatching d = Some l ->
     Forall mr_ok (g_sent d) /\
     exists rest, Permutation (grid_of l) (map kd_of_sent (g_sent d) ++ rest) /\
                  (is_partition (c_alg c) = false -> grid_of l = map kd_of_sent (g_sent d) ++ rest)).
Proof.
  intros c cus n evs s Hc.
  pose proof (DispatcherProofs.run_inv c cus n evs Hc) as HI. fold s in HI.
  pose proof (run_cfg c cus n evs Hc) as Hcfg. fold s in Hcfg.
  destruct HI as [HD HH _ _]. rewrite Hcfg in *. split.
  - intros f Hf. rewrite Forall_forall in HH. destruct (HH f Hf) as [Hg [Hm _]].
    split; [apply (gridrel_perm _ _ _ Hg)|]. split; auto.
    intros Hp. unfold gridrel in Hg. rewrite Hp in Hg. auto.
  - intros d l Hd El. rewrite Forall_forall in HD. destruct (HD d Hd) as [_ [Hs [_ Hm]]].
    rewrite El in Hm. destruct Hm as [Hg _]. split; auto.
    exists (map pl_kd (opt_list (g_cur d)) ++ alg_pending (c_alg c) d).
    unfold placed in Hg. rewrite <- app_assoc in Hg.
    split; [apply (gridrel_perm _ _ _ Hg)|]. intros Hp. unfold gridrel in Hg. rewrite Hp in Hg. exact Hg.
Qed.
Print Assumptions wg_mapped_exactly_once.

(** Exactly one LaunchKernelRsp per launch, only after everything completed:
    the responses ever sent (retrieved ++ still in the port) are, in order, the
    ids of the finished launches; the launches handed to dispatchers are, as a
    multiset, the finished ones plus those still running (so a launch is never
    answered twice and never dropped); and each response was sent in a state
    with completed = dispatched = number of work-groups of the grid. *)
Theorem launch_rsp_exactly_once_after_all : forall c cus n evs,
  let s := Dispatcher.run (init_cp c cus n) evs in
  crashed (sh s) = false ->
  g_rretr s ++ drv_out (sh s) = map (fun f => lr_id (f_launch f)) (g_hist (sh s)) /\
  Permutation (g_started s) (map f_launch (g_hist (sh s)) ++ running (disps s)) /\
  (forall f, In f (g_hist (sh s)) ->
     f_ndisp f = N.of_nat (length (lr_wgs (f_launch f))) /\ f_ncomp f = f_ndisp f /\
     length (f_sent f) = length (lr_wgs (f_launch f))).
Proof.
  intros c cus n evs s Hc.
  pose proof (DispatcherProofs.run_inv c cus n evs Hc) as HI. fold s in HI.
  destruct HI as [_ HH HS HR]. split; auto. split; auto.
  intros f Hf. rewrite Forall_forall in HH. destruct (HH f Hf) as [Hg [_ [? ?]]].
  split; auto. split; auto.
  apply gridrel_perm, Permutation_length in Hg. rewrite map_length in Hg. rewrite <- Hg.
  apply enum_from_length.
Qed.
Print Assumptions launch_rsp_exactly_once_after_all.

(** Resource safety of the whole pool: whatever the dispatchers (any number,
    overlapping launches) and the environment do, every CU of the shared pool
    satisfies the Layer-1 invariant at all times (disjoint regions inside the
    capacity, exact masks, slot accounting). *)
Theorem cp_pool_resources_safe : forall c cus n evs,
  Forall ev_ok evs ->
  Forall2 Inv cus (pool (sh (Dispatcher.run (init_cp c cus n) evs))).
Proof.
  intros c cus n evs He. exact (pi_pool _ _ (run_pool cus evs _ (init_pool c cus n) He)).
Qed.
Print Assumptions cp_pool_resources_safe.

(** * Non-vacuity *)

(** a CU with 2 SIMDs (1 and 2 wavefront slots, 8 VGPR units each), 4 SGPR
    units, 2 LDS units: two work-groups become resident, a third is refused,
    after a free it fits. *)
Definition demo_cfg : cucfg := mkCfg 64 512 [(2048, 1)%N; (2048, 2)%N].
Definition demo_hist : list op :=
  [OReserve (1, 0)%N (mkDemand 2 16 8 256); OReserve (1, 1)%N (mkDemand 1 17 12 200);
   OReserve (1, 2)%N (mkDemand 1 16 4 0); OFree (1, 0)%N; OReserve (1, 2)%N (mkDemand 1 16 4 0)].
Example demo_resource :
  exists s, Resource.run (init_cu demo_cfg) demo_hist = Some s /\ Forall op_ok demo_hist /\
    map fst (resident s) = [(1, 2)%N; (1, 1)%N] /\
    smask s = [SReserved; SFree; SReserved; SReserved] /\
    lmask s = [SFree; SReserved] /\ map wf_free (simds s) = [0%N; 1%N].
Proof.
  eexists. split; [vm_compute; reflexivity|]. split.
  - repeat constructor.
  - vm_compute. repeat split; reflexivity.
Qed.

(** two CUs, two dispatchers, two overlapping launches (3 and 2 work-groups);
    completions reported out of order; both launches are answered once. *)
Definition demo_cp_cfg : cpcfg := mkCpCfg RoundRobin 1 0 2 4096.
Definition demo_cus : list cucfg := [mkCfg 64 512 [(1024, 1)%N]; mkCfg 64 512 [(1024, 2)%N]].
Definition demo_l1 : launch := mkLaunch 1 [mkDemand 1 16 4 256; mkDemand 1 16 4 256; mkDemand 1 16 4 256].
Definition demo_l2 : launch := mkLaunch 2 [mkDemand 2 8 8 0; mkDemand 1 8 8 0].
Definition demo_evs : list ev :=
  [ELaunch demo_l1; ELaunch demo_l2; ETick; ETick; ETick; ERetrCU; ERetrCU; ERetrCU;
   EComplete [1000001%N]; ETick; ERetrCU; EComplete [1000000%N]; EComplete [1000002%N]; ETick; ETick;
   ERetrCU; ERetrCU; EComplete [1000004%N]; EComplete [1000003%N]; ETick; ETick; ETick; ETick; ETick; ETick;
   ERetrCU; EComplete [1000005%N]; ETick; ETick; ETick; ETick; ERetrDrv; ERetrDrv].
Example demo_cp :
  let s := Dispatcher.run (init_cp demo_cp_cfg demo_cus 2) demo_evs in
  crashed (sh s) = false /\ Forall ev_ok demo_evs /\
  length (g_hist (sh s)) = 2 /\ length (g_rretr s) = 2 /\ NoDup (g_rretr s) /\
  map (fun f => length (f_sent f)) (g_hist (sh s)) = [3; 2] /\ running (disps s) = [].
Proof.
  vm_compute. split; [reflexivity|]. split; [repeat constructor|].
  split; [reflexivity|]. split; [reflexivity|]. split; [|split; reflexivity].
  repeat constructor; simpl; intuition discriminate.
Qed.

(** * The emulation compute unit's completion path (VCp.CuCompletion) *)
From VCp Require Import CuCompletion CuCompletionProofs.

(** Every accepted MapWGReq is reported complete at most once and is never
    lost: for every sequence of deliveries (distinct IDs), CU ticks, emulation
    events, WGCompleteEvents (including the retries after a refused Send) and
    retrievals, each accepted ID is in exactly one of the stages "in the port",
    "resident", "finished, not yet reported", "reported"; the finished and the
    reported IDs are duplicate-free and were all accepted; the messages taken by
    the network followed by those still in the port are exactly the messages sent. *)
Theorem cu_completion_exactly_once : forall ic oc evs,
  NoDup (deliv_ids evs) ->
  let s := crun (init_cust ic oc) evs in
  NoDup (finished s ++ concat (g_sent s)) /\
  (forall x, In x (finished s ++ concat (g_sent s)) -> In x (g_deliv s)) /\
  (forall x, In x (g_deliv s) ->
     cnt x (q_in s) + cnt x (wfs s) + cnt x (finished s) + cnt x (concat (g_sent s)) = 1) /\
  g_retr s ++ q_out s = g_sent s.
Proof.
  intros ic oc evs Hn s.
  assert (HI : CInv s).
  { apply crun_inv; auto. apply init_cinv. }
  destruct HI as [Hst Ho _ _ Hp].
  assert (Hle : forall x, cnt x (finished s ++ concat (g_sent s)) <= cnt x (g_deliv s)).
  { intros x. rewrite cnt_app. specialize (Hst x). unfold stages in Hst. lia. }
  split; [apply cnt_le1_NoDup; intros x; specialize (Hle x); specialize (Ho x); lia|].
  split; [intros x Hx; apply cnt_in in Hx; apply cnt_in; specialize (Hle x); lia|].
  split; [|exact Hp].
  intros x Hx. apply cnt_in in Hx. specialize (Hst x). specialize (Ho x). unfold stages in Hst. lia.
Qed.
Print Assumptions cu_completion_exactly_once.

(** non-vacuity: the second work-group finishes while the first completion
    message still occupies the one-entry port; its event is retried twice. *)
Example demo_cu_retry :
  let s := crun (init_cust 1 1)
    [CDeliver 1%N; CTick; CEmu; CHandle; CDeliver 2%N; CTick; CEmu; CHandle; CHandle; CHandle; CRetr; CHandle; CRetr] in
  g_retr s = [[1%N]; [2%N]] /\ pending s = [] /\ finished s = [].
Proof. vm_compute. repeat split; reflexivity. Qed.
