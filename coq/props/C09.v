(** C09 — work-groups are dispatched exactly once within compute-unit resources.
    Statements only; proofs are in VCp.ResourceProofs / VCp.DispatcherProofs.

    Layer 1 (VCp.Resource): one CUResourceImpl under every finite sequence of
    ReserveResourceForWG / FreeResourcesForWG calls ([run (init_cu c) h]; [None]
    = the Go code panicked), for every reported capacity [c] (finite masks).
    Layer 2 (VCp.Dispatcher): the command processor's launch path under every
    finite sequence of environment events (launch requests, completion messages
    in any order/grouping/delay, ticks, retrievals = back-pressure), for every
    number of CUs and dispatchers. *)
From Coq Require Import List NArith Bool Arith Lia Permutation.
From VCp Require Import Resource ResourceProofs Dispatcher DispatcherSteps DispatcherProofs DispatcherSafety DispatcherLive.
Import ListNotations.
Open Scope nat_scope.

(** * Layer 1 *)

(** The invariant of a CU resource after any history whose reservations are for
    work-groups with at least one wavefront: per resource the mask has the
    registered size, every cell is Free or Reserved (no ToReserve mark survives
    a call), a cell is Reserved iff exactly one recorded region of a resident
    work-group covers it and Free iff none does, every recorded region lies
    inside the mask, free wavefront slots + resident wavefronts = pool size on
    every SIMD, keys are unique, every resident work-group has one location per
    wavefront on an existing SIMD and one LDS region. *)
Theorem resources_disjoint_inv : forall c h s,
  Forall op_ok h -> Resource.run (init_cu c) h = Some s -> Inv c s.
Proof. intros c h s Hh Hr. exact (ResourceProofs.run_inv c h _ _ (init_inv c) Hh Hr). Qed.
Print Assumptions resources_disjoint_inv.

(** Readable consequences: (1) status of every cell, (2) regions inside the
    capacity, (3) any two recorded regions of a resource are disjoint — SGPR
    regions of all resident wavefronts, LDS regions of resident work-groups,
    VGPR regions of the wavefronts on one SIMD — (4) slot accounting. *)
Theorem resources_disjoint_spelled_out : forall c h s,
  Forall op_ok h -> Resource.run (init_cu c) h = Some s ->
  let res := resident s in
  (forall i st, nth_error (smask s) i = Some st ->
     (st = SReserved /\ cover (sregs res) i = 1) \/ (st = SFree /\ cover (sregs res) i = 0)) /\
  (forall i st, nth_error (lmask s) i = Some st ->
     (st = SReserved /\ cover (lregs res) i = 1) \/ (st = SFree /\ cover (lregs res) i = 0)) /\
  Forall (in_range (N.to_nat (cfg_sregs c / SREG_GRAN))) (sregs res) /\
  Forall (in_range (N.to_nat (cfg_lds c / LDS_GRAN))) (lregs res) /\
  (forall l1 r1 l2 r2 l3 i, sregs res = l1 ++ r1 :: l2 ++ r2 :: l3 ->
     inreg r1 i = true -> inreg r2 i = true -> False) /\
  (forall l1 r1 l2 r2 l3 i, lregs res = l1 ++ r1 :: l2 ++ r2 :: l3 ->
     inreg r1 i = true -> inreg r2 i = true -> False) /\
  (forall j sd p, nth_error (simds s) j = Some sd -> nth_error (cfg_simds c) j = Some p ->
     (forall i st, nth_error (vmask sd) i = Some st ->
        (st = SReserved /\ cover (vregs j res) i = 1) \/ (st = SFree /\ cover (vregs j res) i = 0)) /\
     Forall (in_range (N.to_nat (fst p / VREG_GRAN / 64))) (vregs j res) /\
     (forall l1 r1 l2 r2 l3 i, vregs j res = l1 ++ r1 :: l2 ++ r2 :: l3 ->
        inreg r1 i = true -> inreg r2 i = true -> False) /\
     (wf_free sd + N.of_nat (wf_on j res) = snd p)%N).
Proof.
  intros c h s Hh Hr res. pose proof (resources_disjoint_inv c h s Hh Hr) as HI.
  assert (Hrange : forall m rs, mask_ok m rs [] -> Forall (in_range (length m)) rs).
  { intros m rs [_ H]. rewrite app_nil_r in H. exact H. }
  split; [intros; eapply mask_ok_status; eauto; apply (inv_s _ _ HI)|].
  split; [intros; eapply mask_ok_status; eauto; apply (inv_l _ _ HI)|].
  split; [rewrite <- (inv_slen _ _ HI); apply Hrange, (inv_s _ _ HI)|].
  split; [rewrite <- (inv_llen _ _ HI); apply Hrange, (inv_l _ _ HI)|].
  split; [intros; eapply mask_ok_disjoint; eauto; apply (inv_s _ _ HI)|].
  split; [intros; eapply mask_ok_disjoint; eauto; apply (inv_l _ _ HI)|].
  intros j sd p Hj Hp. destruct (inv_v _ _ HI j sd p Hj Hp) as [Hm [Hl Hw]].
  split; [intros; eapply mask_ok_status; eauto|].
  split; [rewrite <- Hl; apply Hrange; auto|].
  split; [intros; eapply mask_ok_disjoint; eauto|exact Hw].
Qed.
Print Assumptions resources_disjoint_spelled_out.

(** Freeing a work-group right after it was reserved restores every mask and
    every free-slot count (only nextSIMD may have moved). *)
Theorem free_restores : forall c h s k d s1 locs,
  Forall op_ok h -> Resource.run (init_cu c) h = Some s -> 1 <= d_nwf d ->
  reserve s k d = Ret s1 (Some locs) ->
  exists s2, free s1 k = Some s2 /\
    smask s2 = smask s /\ lmask s2 = lmask s /\ simds s2 = simds s /\ resident s2 = resident s.
Proof.
  intros c h s k d s1 locs Hh Hr Hn He.
  exact (free_restores_lemma c s k d s1 locs (resources_disjoint_inv c h s Hh Hr) Hn He).
Qed.
Print Assumptions free_restores.

(** The guard [1 <= d_nwf d] is needed: the code frees the LDS region inside
    the loop over wavefront locations, so an (impossible in practice) empty
    work-group would leak its LDS region. *)
Theorem free_restores_refuted_for_empty_workgroup :
  exists c k d s1 s2 locs,
    reserve (init_cu c) k d = Ret s1 (Some locs) /\ free s1 k = Some s2 /\
    lmask s2 <> lmask (init_cu c).
Proof.
  exists (mkCfg 16 256 [(256, 1)%N]), (1, 0)%N, (mkDemand 0 0 0 256 0).
  eexists. eexists. eexists. split; [vm_compute; reflexivity|]. split; [vm_compute; reflexivity|].
  vm_compute. discriminate.
Qed.
Print Assumptions free_restores_refuted_for_empty_workgroup.

(** Conservation, with the LDS size requested by the dispatch packet as a field
    of the demand ([d_dyn], static + dynamically sized LDS; reserve and free
    both use [lds_bytes] = max of static and packet size): whatever the dynamic
    sizes were, once every work-group has been freed the masks and the free-slot
    counts of the CU are the initial ones ... *)
Theorem resources_conserved : forall c h s,
  Forall op_ok h -> Resource.run (init_cu c) h = Some s -> resident s = [] ->
  smask s = smask (init_cu c) /\ lmask s = lmask (init_cu c) /\ simds s = simds (init_cu c).
Proof.
  intros c h s Hh Hr He. exact (conserved_when_empty c s (resources_disjoint_inv c h s Hh Hr) He).
Qed.
Print Assumptions resources_conserved.

(** ... and the capacity statement holds with the dynamic part included: at
    every reachable state the LDS units of the resident work-groups, each
    counted with the larger of its static size and the size in its dispatch
    packet (static + dynamic, what the compute unit allocates), add up to at
    most the LDS units of the compute unit.  (On the pinned code, which
    accounted for the static size only, this was false: see the witness in
    corpus/C09/dynamic_lds_oversubscribed.json.) *)
Theorem lds_capacity_with_dynamic : forall c h s,
  Forall op_ok h -> Resource.run (init_cu c) h = Some s ->
  lds_in_use (resident s) <= N.to_nat (cfg_lds c / LDS_GRAN).
Proof.
  intros c h s Hh Hr. exact (lds_capacity c s (resources_disjoint_inv c h s Hh Hr)).
Qed.
Print Assumptions lds_capacity_with_dynamic.

(** non-vacuity: a work-group whose packet asks for 1024 bytes (static 0) takes
    the whole LDS of a 1024-byte unit; the next one is refused until it is freed *)
Example demo_dynamic_lds :
  let c := mkCfg 64 1024 [(1024, 4)%N] in
  exists s1 l1 s2 s3 s4 l4,
    reserve (init_cu c) (1, 0)%N (mkDemand 1 16 4 0 1024) = Ret s1 (Some l1) /\
    reserve s1 (1, 1)%N (mkDemand 1 16 4 0 256) = Ret s2 None /\
    free s2 (1, 0)%N = Some s3 /\
    reserve s3 (1, 1)%N (mkDemand 1 16 4 0 256) = Ret s4 (Some l4) /\
    lds_in_use (resident s1) = 4 /\ lds_in_use (resident s4) = 1.
Proof.
  do 6 eexists. repeat (split; [vm_compute; reflexivity|]). vm_compute. reflexivity.
Qed.

(** A reservation succeeds only into free resources: one location per
    wavefront, every SGPR/VGPR/LDS region it returns was entirely Free (and
    inside the mask) before the call, and no SIMD receives more wavefronts than
    it had free slots. *)
Theorem reserve_only_if_fits : forall c h s k d s' locs,
  Forall op_ok h -> Resource.run (init_cu c) h = Some s -> 1 <= d_nwf d ->
  reserve s k d = Ret s' (Some locs) ->
  length locs = d_nwf d /\
  (forall l, In l locs -> all_free (smask s) (sreg_of d l)) /\
  (forall l, In l locs -> all_free (lmask s) (lreg_of d l)) /\
  (forall l, In l locs -> exists sd, nth_error (simds s) (l_simd l) = Some sd /\
                                     all_free (vmask sd) (vreg_of d l)) /\
  (forall i sd, nth_error (simds s) i = Some sd ->
     (N.of_nat (length (filter (on_simd i) locs)) <= wf_free sd)%N).
Proof.
  intros c h s k d s' locs Hh Hr Hn He.
  exact (reserve_only_if_fits_lemma c s k d s' locs (resources_disjoint_inv c h s Hh Hr) Hn He).
Qed.
Print Assumptions reserve_only_if_fits.

(** A refused reservation changes nothing but nextSIMD (all temporary
    ToReserve marks are cleared). *)
Theorem reserve_refused_leaves_occupancy : forall c h s k d s',
  Forall op_ok h -> Resource.run (init_cu c) h = Some s -> 1 <= d_nwf d ->
  reserve s k d = Ret s' None ->
  smask s' = smask s /\ lmask s' = lmask s /\ simds s' = simds s /\ resident s' = resident s.
Proof.
  intros c h s k d s' Hh Hr Hn He.
  exact (reserve_refused_unchanged c s k d s' (resources_disjoint_inv c h s Hh Hr) Hn He).
Qed.
Print Assumptions reserve_refused_leaves_occupancy.

(** nextRegion is a first-fit search that is sound and complete: it fails
    exactly when the mask has no run of [len] cells in the requested status. *)
Theorem next_region_sound_complete : forall m len st,
  (forall o, next_region m len st = Some o ->
     o + len <= length m /\ forall j, o <= j < o + len -> nth_error m j = Some st) /\
  (next_region m len st = None ->
     forall o, o + len <= length m -> ~ (forall j, o <= j < o + len -> nth_error m j = Some st)).
Proof. intros. split; [apply next_region_spec|apply next_region_none]. Qed.
Print Assumptions next_region_sound_complete.

(** The code panics only when the caller breaks the protocol: freeing a
    work-group that is not resident; reserving one that is (or a CU without SIMDs). *)
Theorem panics_only_on_protocol_violation : forall s k d,
  (free s k = None <-> lookup k (resident s) = None) /\
  (simds s <> [] -> lookup k (resident s) = None -> reserve s k d <> Crash).
Proof. intros. split; [apply free_panics_iff|apply reserve_no_panic]. Qed.
Print Assumptions panics_only_on_protocol_violation.

(** * Layer 2 *)

(** Every work-group of a launch is mapped exactly once.  When the
    LaunchKernelRsp of a launch is sent, the MapWGReqs sent for it carry exactly
    the work-groups of its grid (key and demand), each once (a permutation of the
    grid; for round-robin and greedy even in grid order), each with the CU and the
    locations of a reservation that succeeded; while a launch is in progress the
    MapWGReqs sent so far are a duplicate-free part (for round-robin and greedy: a
    prefix) of the grid.  Holds for the three placement algorithms. *)
Theorem wg_mapped_exactly_once : forall c cus n evs,
  let s := Dispatcher.run (init_cp c cus n) evs in
  crashed (sh s) = false ->
  (forall f, In f (g_hist (sh s)) ->
     Permutation (grid_of (f_launch f)) (map kd_of_sent (f_sent f)) /\
     (is_partition (c_alg c) = false -> map kd_of_sent (f_sent f) = grid_of (f_launch f)) /\
     Forall mr_ok (f_sent f)) /\
  (forall d l, In d (disps s) -> dispatching d = Some l ->
     Forall mr_ok (g_sent d) /\
     exists rest, Permutation (grid_of l) (map kd_of_sent (g_sent d) ++ rest) /\
                  (is_partition (c_alg c) = false -> grid_of l = map kd_of_sent (g_sent d) ++ rest)).
Proof.
  intros c cus n evs s Hc.
  pose proof (DispatcherProofs.run_inv c cus n evs Hc) as HI. fold s in HI.
  pose proof (run_cfg c cus n evs Hc) as Hcfg. fold s in Hcfg.
  destruct HI as [HD HH _ _]. rewrite Hcfg in *. split.
  - intros f Hf. rewrite Forall_forall in HH. destruct (HH f Hf) as [Hg [Hm _]].
    split; [apply (gridrel_perm _ _ _ Hg)|]. split; auto.
    intros Hp. unfold gridrel in Hg. rewrite Hp in Hg. auto.
  - intros d l Hd El. rewrite Forall_forall in HD. destruct (HD d Hd) as [_ [Hs [_ Hm]]].
    rewrite El in Hm. destruct Hm as [Hg _]. split; auto.
    exists (map pl_kd (opt_list (g_cur d)) ++ alg_pending (c_alg c) d).
    unfold placed in Hg. rewrite <- app_assoc in Hg.
    split; [apply (gridrel_perm _ _ _ Hg)|]. intros Hp. unfold gridrel in Hg. rewrite Hp in Hg. exact Hg.
Qed.
Print Assumptions wg_mapped_exactly_once.

(** Exactly one LaunchKernelRsp per launch, only after everything completed:
    the responses ever sent (retrieved ++ still in the port) are, in order, the
    ids of the finished launches; the launches handed to dispatchers are, as a
    multiset, the finished ones plus those still running (so a launch is never
    answered twice and never dropped); and each response was sent in a state
    with completed = dispatched = number of work-groups of the grid. *)
Theorem launch_rsp_exactly_once_after_all : forall c cus n evs,
  let s := Dispatcher.run (init_cp c cus n) evs in
  crashed (sh s) = false ->
  g_rretr s ++ drv_out (sh s) = map (fun f => lr_id (f_launch f)) (g_hist (sh s)) /\
  Permutation (g_started s) (map f_launch (g_hist (sh s)) ++ running (disps s)) /\
  (forall f, In f (g_hist (sh s)) ->
     f_ndisp f = N.of_nat (length (lr_wgs (f_launch f))) /\ f_ncomp f = f_ndisp f /\
     length (f_sent f) = length (lr_wgs (f_launch f))).
Proof.
  intros c cus n evs s Hc.
  pose proof (DispatcherProofs.run_inv c cus n evs Hc) as HI. fold s in HI.
  destruct HI as [_ HH HS HR]. split; auto. split; auto.
  intros f Hf. rewrite Forall_forall in HH. destruct (HH f Hf) as [Hg [_ [? ?]]].
  split; auto. split; auto.
  apply gridrel_perm, Permutation_length in Hg. rewrite map_length in Hg. rewrite <- Hg.
  apply enum_from_length.
Qed.
Print Assumptions launch_rsp_exactly_once_after_all.

(** A launch whose work-group filter selects NO work-group (lr_wgs = []) is
    covered by the theorems above without any side condition (launch_ok and
    ev_ok hold vacuously for it): it is started, occupies its dispatcher, and
    is answered exactly once like any other launch; spelled out, its response
    is sent with no MapWGReq ever sent for it.  (That it IS answered, within
    the bound, is [launches_answered_within_bound] / [dispatch_progress], whose
    ranking function does not depend on the launch being non-empty; see also
    [demo_empty_launch].) *)
Theorem empty_launch_answered_without_mapping : forall c cus n evs f,
  let s := Dispatcher.run (init_cp c cus n) evs in
  crashed (sh s) = false -> In f (g_hist (sh s)) -> lr_wgs (f_launch f) = [] ->
  f_sent f = [] /\ f_ndisp f = 0%N /\ f_ncomp f = 0%N /\
  In (lr_id (f_launch f)) (g_rretr s ++ drv_out (sh s)).
Proof.
  intros c cus n evs f s Hc Hf He.
  destruct (launch_rsp_exactly_once_after_all c cus n evs Hc) as [Hr [_ Hall]]. fold s in Hr, Hall.
  destruct (Hall f Hf) as [Hd [Hcm Hl]]. rewrite He in *. simpl in *.
  split; [destruct (f_sent f); [reflexivity|discriminate]|].
  split; [exact Hd|]. split; [rewrite Hcm; exact Hd|].
  rewrite Hr. apply (in_map (fun f0 => lr_id (f_launch f0))). exact Hf.
Qed.
Print Assumptions empty_launch_answered_without_mapping.

(** Resource safety of the whole pool: whatever the dispatchers (any number,
    overlapping launches) and the environment do, every CU of the shared pool
    satisfies the Layer-1 invariant at all times (disjoint regions inside the
    capacity, exact masks, slot accounting). *)
Theorem cp_pool_resources_safe : forall c cus n evs,
  Forall ev_ok evs ->
  Forall2 Inv cus (pool (sh (Dispatcher.run (init_cp c cus n) evs))).
Proof.
  intros c cus n evs He. exact (pi_pool _ _ (run_pool cus evs _ (init_pool c cus n) He)).
Qed.
Print Assumptions cp_pool_resources_safe.

(** Every run is a sequence of the small steps of VCp.DispatcherSteps as long as
    it has not panicked.  In particular every placement is made by a [DS_place]
    step: the reservation recorded with a MapWGReq was computed on the CU of the
    shared pool as it was at that moment ([pl_before] = that pool entry), and
    its result became the pool entry. *)
Theorem run_refines_small_steps : forall c cus n evs,
  crashed (sh (Dispatcher.run (init_cp c cus n) evs)) = false ->
  cpsteps (init_cp c cus n) (Dispatcher.run (init_cp c cus n) evs).
Proof.
  intros c cus n evs Hc.
  assert (H0 : crashed (sh (init_cp c cus n)) = false) by reflexivity.
  exact (proj1 (run_refines evs _ H0 (init_CInt c cus n) Hc)).
Qed.
Print Assumptions run_refines_small_steps.

(** No panic under the contract of the environment: every CU has at least one
    SIMD (and there is at least one CU when the partition algorithm is used),
    launches have distinct IDs and work-groups of 1..16 wavefronts, and no
    completion message lists an ID twice.  (IDs that were never sent, or were
    completed before, do not make the code panic: they stay in the port.) *)
Theorem no_crash_under_contract : forall c cus n evs,
  Forall (fun c0 => cfg_simds c0 <> []) cus -> (is_partition (c_alg c) = true -> cus <> []) ->
  Forall ev16 evs -> NoDup (launch_ids evs) ->
  crashed (sh (Dispatcher.run (init_cp c cus n) evs)) = false.
Proof.
  intros c cus n evs Hs Hp He Hn.
  apply (sf_nc dem16 cus). apply (run_Safe dem16 dem16_id); auto; try apply init_Safe; try apply init_CInt;
    try (simpl; intros l []).
Qed.
Print Assumptions no_crash_under_contract.

(** The link between MapWGReqs and the pool, spelled out: under the same
    contract, for every MapWGReq ever sent (of finished and of running
    launches) the reservation behind it was made on a state of the addressed CU
    that satisfied the resource invariant, and therefore (reserve_only_if_fits)
    every region it names was free and every SIMD had the wavefront slots. *)
Theorem mapped_wg_fits : forall c cus n evs,
  Forall (fun c0 => cfg_simds c0 <> []) cus -> (is_partition (c_alg c) = true -> cus <> []) ->
  Forall ev16 evs -> NoDup (launch_ids evs) ->
  let s := Dispatcher.run (init_cp c cus n) evs in
  forall mp,
    ((exists f, In f (g_hist (sh s)) /\ In mp (f_sent f)) \/ (exists d, In d (disps s) /\ In mp (g_sent d))) ->
    let p := snd mp in
    mr_cu (fst mp) = pl_cu p /\ mr_key (fst mp) = pl_key p /\ mr_locs (fst mp) = pl_locs p /\
    exists c0 c', nth_error cus (pl_cu p) = Some c0 /\ Inv c0 (pl_before p) /\
      reserve (pl_before p) (pl_key p) (pl_dem p) = Ret c' (Some (pl_locs p)) /\
      length (pl_locs p) = d_nwf (pl_dem p) /\
      (forall l, In l (pl_locs p) -> all_free (smask (pl_before p)) (sreg_of (pl_dem p) l)) /\
      (forall l, In l (pl_locs p) -> all_free (lmask (pl_before p)) (lreg_of (pl_dem p) l)) /\
      (forall l, In l (pl_locs p) -> exists sd, nth_error (simds (pl_before p)) (l_simd l) = Some sd /\
                                               all_free (vmask sd) (vreg_of (pl_dem p) l)) /\
      (forall i sd, nth_error (simds (pl_before p)) i = Some sd ->
         (N.of_nat (length (filter (on_simd i) (pl_locs p))) <= wf_free sd)%N).
Proof.
  intros c cus n evs Hs Hp He Hn s mp Hin p.
  assert (HS : Safe dem16 cus s).
  { apply (run_Safe dem16 dem16_id); auto; try apply init_Safe; try apply init_CInt; try (simpl; intros l []). }
  assert (Hboth : mr_ok mp /\ pl_link cus dem16 p).
  { destruct Hin as [[f [Hf Hm]]|[d [Hd Hm]]].
    - pose proof (ci_hist _ (sf_cp _ _ _ HS)) as HH. pose proof (sf_hist _ _ _ HS) as HL.
      rewrite Forall_forall in HH, HL. destruct (HH f Hf) as [_ [Hok _]].
      specialize (HL f Hf). rewrite Forall_forall in Hok, HL. split; [apply Hok|apply HL]; auto.
    - pose proof (ci_disps _ (sf_cp _ _ _ HS)) as HD. pose proof (sf_k _ _ _ HS) as HK.
      rewrite Forall_forall in HD, HK. destruct (HD d Hd) as [_ [Hok _]]. destruct (HK d Hd) as [_ [HL _]].
      rewrite Forall_forall in Hok, HL. split; [apply Hok|apply HL]; auto. }
  destruct Hboth as [[Hk [Hcu [Hlocs [c' Hres]]]] [c0 [Hc0 [HI0 Hd16]]]].
  split; auto. split; auto. split; auto. exists c0, c'. split; auto. split; auto. split; auto.
  apply (reserve_only_if_fits_lemma c0 _ _ _ _ _ HI0 (dem16_ok _ Hd16) Hres).
Qed.
Print Assumptions mapped_wg_fits.

(** Liveness (round-robin and greedy).  [mu] is a ranking function: per
    dispatcher (K+1)*(work-groups of its launch not yet completed + pending
    response) + countdown + work-groups not yet mapped, plus a term for every
    launch still waiting in the port.  In a state whose ports the environment
    has served ([GoodEnv]: MapWGReqs taken, room for a response, a completion
    message waiting for every work-group in flight and only for those), with
    every work-group fitting an empty CU of the pool and at least one
    dispatcher, a tick strictly decreases [mu] unless every launch has been
    answered. *)
Theorem dispatch_progress : forall cus s,
  Safe (PL cus) cus s -> CInt s ->
  is_partition (c_alg (cfg s)) = false -> Forall (fun c0 => cfg_simds c0 <> []) cus ->
  0 < c_cap (cfg s) -> disps s <> [] -> GoodEnv s -> ~ done s ->
  mu (fst (cp_tick s)) < mu s.
Proof. exact tick_progress. Qed.
Print Assumptions dispatch_progress.

(** Hence, under a fair completion schedule (rounds: a tick, then the
    environment retrieves and completes so that [GoodEnv] holds again), the
    number of rounds during which some launch is still unanswered is at most
    [mu] of the starting state; and when nothing is running or waiting every
    accepted launch has been answered exactly once. *)
Theorem launches_answered_within_bound : forall cus k s s',
  Forall (fun c0 => cfg_simds c0 <> []) cus -> Live cus s -> busy_rounds cus k s s' ->
  Live cus s' /\ mu s' + k <= mu s.
Proof. exact busy_rounds_bound. Qed.
Print Assumptions launches_answered_within_bound.

Theorem done_means_all_answered : forall c cus n evs,
  let s := Dispatcher.run (init_cp c cus n) evs in
  crashed (sh s) = false -> done s ->
  Permutation (g_started s) (map f_launch (g_hist (sh s))) /\
  g_rretr s ++ drv_out (sh s) = map (fun f => lr_id (f_launch f)) (g_hist (sh s)).
Proof.
  intros c cus n evs s Hc Hd. apply done_all_answered; auto. apply DispatcherProofs.run_inv. exact Hc.
Qed.
Print Assumptions done_means_all_answered.

(** * Non-vacuity *)

(** a CU with 2 SIMDs (1 and 2 wavefront slots, 8 VGPR units each), 4 SGPR
    units, 2 LDS units: two work-groups become resident, a third is refused,
    after a free it fits. *)
Definition demo_cfg : cucfg := mkCfg 64 512 [(2048, 1)%N; (2048, 2)%N].
Definition demo_hist : list op :=
  [OReserve (1, 0)%N (mkDemand 2 16 8 256 0); OReserve (1, 1)%N (mkDemand 1 17 12 200 256);
   OReserve (1, 2)%N (mkDemand 1 16 4 0 0); OFree (1, 0)%N; OReserve (1, 2)%N (mkDemand 1 16 4 0 0)].
Example demo_resource :
  exists s, Resource.run (init_cu demo_cfg) demo_hist = Some s /\ Forall op_ok demo_hist /\
    map fst (resident s) = [(1, 2)%N; (1, 1)%N] /\
    smask s = [SReserved; SFree; SReserved; SReserved] /\
    lmask s = [SFree; SReserved] /\ map wf_free (simds s) = [0%N; 1%N].
Proof.
  eexists. split; [vm_compute; reflexivity|]. split.
  - repeat constructor.
  - vm_compute. repeat split; reflexivity.
Qed.

(** one dispatcher: an ordinary launch, two launches whose filter selects no
    work-group, an ordinary one again: all four are answered, in order, once. *)
Definition demo_empty_evs : list ev :=
  [ELaunch (mkLaunch 1 [mkDemand 1 16 4 256 0; mkDemand 1 16 4 256 0]); ETick; ETick; ETick; ERetrCU; ETick; ERetrCU;
   EComplete [1000000%N]; EComplete [1000001%N]; ETick; ETick; ETick; ERetrDrv;
   ELaunch (mkLaunch 2 []); ETick; ETick; ETick; ETick; ERetrDrv;
   ELaunch (mkLaunch 3 []); ETick; ETick; ETick; ETick; ERetrDrv;
   ELaunch (mkLaunch 4 [mkDemand 1 16 4 256 0]); ETick; ETick; ETick; ERetrCU; EComplete [1000002%N]; ETick; ETick; ETick; ERetrDrv].
Example demo_empty_launch :
  let s := Dispatcher.run (init_cp (mkCpCfg RoundRobin 0 0 1 4096) [mkCfg 128 1024 [(1024, 4)%N]] 1) demo_empty_evs in
  crashed (sh s) = false /\ Forall ev_ok demo_empty_evs /\
  g_rretr s = [1; 2; 3; 4]%N /\
  map (fun f => length (f_sent f)) (g_hist (sh s)) = [2; 0; 0; 1] /\ running (disps s) = [].
Proof.
  vm_compute. split; [reflexivity|]. split; [repeat constructor|]. repeat split; reflexivity.
Qed.

(** two CUs, two dispatchers, two overlapping launches (3 and 2 work-groups);
    completions reported out of order; both launches are answered once. *)
Definition demo_cp_cfg : cpcfg := mkCpCfg RoundRobin 1 0 2 4096.
Definition demo_cus : list cucfg := [mkCfg 64 512 [(1024, 1)%N]; mkCfg 64 512 [(1024, 2)%N]].
Definition demo_l1 : launch := mkLaunch 1 [mkDemand 1 16 4 256 0; mkDemand 1 16 4 256 0; mkDemand 1 16 4 256 0].
Definition demo_l2 : launch := mkLaunch 2 [mkDemand 2 8 8 0 0; mkDemand 1 8 8 0 0].
Definition demo_evs : list ev :=
  [ELaunch demo_l1; ELaunch demo_l2; ETick; ETick; ETick; ERetrCU; ERetrCU; ERetrCU;
   EComplete [1000001%N]; ETick; ERetrCU; EComplete [1000000%N]; EComplete [1000002%N]; ETick; ETick;
   ERetrCU; ERetrCU; EComplete [1000004%N]; EComplete [1000003%N]; ETick; ETick; ETick; ETick; ETick; ETick;
   ERetrCU; EComplete [1000005%N]; ETick; ETick; ETick; ETick; ERetrDrv; ERetrDrv].
Example demo_cp :
  let s := Dispatcher.run (init_cp demo_cp_cfg demo_cus 2) demo_evs in
  crashed (sh s) = false /\ Forall ev_ok demo_evs /\
  length (g_hist (sh s)) = 2 /\ length (g_rretr s) = 2 /\ NoDup (g_rretr s) /\
  map (fun f => length (f_sent f)) (g_hist (sh s)) = [3; 2] /\ running (disps s) = [].
Proof.
  vm_compute. split; [reflexivity|]. split; [repeat constructor|].
  split; [reflexivity|]. split; [reflexivity|]. split; [|split; reflexivity].
  repeat constructor; simpl; intuition discriminate.
Qed.

(** * The emulation compute unit's completion path (VCp.CuCompletion) *)
From VCp Require Import CuCompletion CuCompletionProofs.

(** Every accepted MapWGReq is reported complete at most once and is never
    lost: for every sequence of deliveries (distinct IDs), CU ticks, emulation
    events, WGCompleteEvents (including the retries after a refused Send) and
    retrievals, each accepted ID is in exactly one of the stages "in the port",
    "resident", "finished, not yet reported", "reported"; the finished and the
    reported IDs are duplicate-free and were all accepted; the messages taken by
    the network followed by those still in the port are exactly the messages sent. *)
Theorem cu_completion_exactly_once : forall ic oc evs,
  NoDup (deliv_ids evs) ->
  let s := crun (init_cust ic oc) evs in
  NoDup (finished s ++ concat (g_sent s)) /\
  (forall x, In x (finished s ++ concat (g_sent s)) -> In x (g_deliv s)) /\
  (forall x, In x (g_deliv s) ->
     cnt x (q_in s) + cnt x (wfs s) + cnt x (finished s) + cnt x (concat (g_sent s)) = 1) /\
  g_retr s ++ q_out s = g_sent s.
Proof.
  intros ic oc evs Hn s.
  assert (HI : CInv s).
  { apply crun_inv; auto. apply init_cinv. }
  destruct HI as [Hst Ho _ _ Hp].
  assert (Hle : forall x, cnt x (finished s ++ concat (g_sent s)) <= cnt x (g_deliv s)).
  { intros x. rewrite cnt_app. specialize (Hst x). unfold stages in Hst. lia. }
  split; [apply cnt_le1_NoDup; intros x; specialize (Hle x); specialize (Ho x); lia|].
  split; [intros x Hx; apply cnt_in in Hx; apply cnt_in; specialize (Hle x); lia|].
  split; [|exact Hp].
  intros x Hx. apply cnt_in in Hx. specialize (Hst x). specialize (Ho x). unfold stages in Hst. lia.
Qed.
Print Assumptions cu_completion_exactly_once.

(** non-vacuity: the second work-group finishes while the first completion
    message still occupies the one-entry port; its event is retried twice. *)
Example demo_cu_retry :
  let s := crun (init_cust 1 1)
    [CDeliver 1%N; CTick; CEmu; CHandle; CDeliver 2%N; CTick; CEmu; CHandle; CHandle; CHandle; CRetr; CHandle; CRetr] in
  g_retr s = [[1%N]; [2%N]] /\ pending s = [] /\ finished s = [].
Proof. vm_compute. repeat split; reflexivity. Qed.

(** non-vacuity of the liveness premises: after two launch requests were
    delivered to the demo command processor all of [Live] holds, some launch is
    unanswered, and the bound is 32 rounds. *)
Lemma demo_fits : forall dm, In dm (lr_wgs demo_l1 ++ lr_wgs demo_l2) -> PL demo_cus dm.
Proof.
  assert (Hform : forall c0 cu, Inv c0 cu -> resident cu = [] -> length (cfg_simds c0) = 1 ->
            cu = mkCU (smask (init_cu c0)) (lmask (init_cu c0)) (simds (init_cu c0)) 0 []).
  { intros c0 cu HI Hr Hl.
    destruct (inv_determined c0 cu (init_cu c0) HI (init_inv c0) Hr) as [E1 [E2 E3]].
    pose proof (inv_next _ _ HI) as Hn. pose proof (inv_nsimd _ _ HI) as Hns.
    destruct cu as [sm lm0 sims ns res]. simpl in *. subst. f_equal.
    destruct Hn as [Hn|[_ Hn]]; [rewrite Hns, Hl in Hn; lia|auto]. }
  intros dm Hin. simpl in Hin.
  destruct Hin as [<-|[<-|[<-|[<-|[<-|[]]]]]]; (split; [unfold dem16; simpl; lia|]).
  - exists 0, (mkCfg 64 512 [(1024, 1)%N]). split; [reflexivity|]. intros cu k HI Hr.
    rewrite (Hform _ _ HI Hr eq_refl). eexists. eexists. vm_compute. reflexivity.
  - exists 0, (mkCfg 64 512 [(1024, 1)%N]). split; [reflexivity|]. intros cu k HI Hr.
    rewrite (Hform _ _ HI Hr eq_refl). eexists. eexists. vm_compute. reflexivity.
  - exists 0, (mkCfg 64 512 [(1024, 1)%N]). split; [reflexivity|]. intros cu k HI Hr.
    rewrite (Hform _ _ HI Hr eq_refl). eexists. eexists. vm_compute. reflexivity.
  - exists 1, (mkCfg 64 512 [(1024, 2)%N]). split; [reflexivity|]. intros cu k HI Hr.
    rewrite (Hform _ _ HI Hr eq_refl). eexists. eexists. vm_compute. reflexivity.
  - exists 1, (mkCfg 64 512 [(1024, 2)%N]). split; [reflexivity|]. intros cu k HI Hr.
    rewrite (Hform _ _ HI Hr eq_refl). eexists. eexists. vm_compute. reflexivity.
Qed.

Example demo_live :
  let s0 := Dispatcher.run (init_cp demo_cp_cfg demo_cus 2) [ELaunch demo_l1; ELaunch demo_l2] in
  Live demo_cus s0 /\ ~ done s0 /\ mu s0 = 32.
Proof.
  intros s0.
  assert (Hev : Forall (evP (PL demo_cus)) [ELaunch demo_l1; ELaunch demo_l2]).
  { constructor; [|constructor; [|constructor]]; simpl; apply Forall_forall; intros dm Hd;
      apply demo_fits; apply in_or_app; auto. }
  assert (Hsim : Forall (fun c0 => cfg_simds c0 <> []) demo_cus) by (repeat constructor; discriminate).
  assert (HS : Safe (PL demo_cus) demo_cus s0).
  { apply (run_Safe (PL demo_cus) (PL16 demo_cus)); auto; try apply init_Safe; try apply init_CInt;
      try discriminate; try (simpl; intros l []).
    vm_compute. repeat constructor; simpl; intuition discriminate. }
  split; [|split].
  - constructor; auto.
    + assert (H0 : crashed (sh (init_cp demo_cp_cfg demo_cus 2)) = false) by reflexivity.
      apply (proj2 (run_refines _ _ H0 (init_CInt demo_cp_cfg demo_cus 2) (sf_nc _ _ _ HS))).
    + vm_compute. lia.
    + vm_compute. discriminate.
    + split; [reflexivity|]. split; [vm_compute; lia|]. split.
      * intros d id Hd Hid. vm_compute in Hd. destruct Hd as [<-|[<-|[]]]; inversion Hid.
      * intros m Hm. vm_compute in Hm. inversion Hm.
  - intros [_ Hd]. vm_compute in Hd. discriminate.
  - vm_compute. reflexivity.
Qed.
