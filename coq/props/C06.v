(** C06 - vector lanes are independent and obey the EXEC mask; scalar
    instructions are unaffected by EXEC.
    Statements only; proofs are [exact]/[apply] into VIsa.LanesProofs.

    [d] ranges over every descriptor of a vector instruction: an arbitrary
    per-lane function [d_f d] (uniform operands, memory, LDS, the lane's own
    register row and its own mask bit  ->  writes to the lane's own registers,
    its bit of the mask destination, byte stores, loads), the place of the
    per-lane input bit (none / VCC / an SGPR pair), the mask destination (none /
    VCC / an SGPR pair / EXEC) and whether inactive lanes keep or clear their
    destination bit.  [st] ranges over all states, [exec st] over all numbers
    (in particular all 2^64 masks), [p]/[p'] over all lane permutations. *)
From Coq Require Import List NArith Bool Arith.
From VIsa Require Import Lanes LanesCorr LanesProofs LanesTable.
Import ListNotations.
Open Scope N_scope.

(** A lane whose EXEC bit is clear (and any lane index beyond the wavefront)
    keeps all its vector registers; its bit of the mask destination is the bit
    of the initial accumulator - 0 for compare/carry style handlers, the old
    value where the code preserves ([d_keep]); no memory or LDS access is
    logged for it; a memory / LDS byte can only change if an ACTIVE lane
    stores to it. *)
Theorem lane_lift_respects_exec : forall d st i,
  active (exec st) i = false ->
  (forall r, vgpr (vec_lift d st) i r = vgpr st i r) /\
  N.testbit (lift_mask d st) (N.of_nat i) = N.testbit (acc0 d st) (N.of_nat i) /\
  (forall x, In x (trace (vec_lift d st)) -> a_lane x = i -> In x (trace st)) /\
  (forall a, (forall j, (j < NL)%nat -> active (exec st) j = true -> ~ In a (addrs (lo_gst (out_at d st j)))) ->
             gmem (vec_lift d st) a = gmem st a) /\
  (forall a, (forall j, (j < NL)%nat -> active (exec st) j = true -> ~ In a (addrs (lo_lst (out_at d st j)))) ->
             lds (vec_lift d st) a = lds st a).
Proof.
  intros d st i H. split; [intros r; apply vec_lift_vgpr_inactive; exact H|].
  split; [apply lift_mask_inactive; exact H|].
  split; [|split; [apply vec_lift_gmem_frame|apply vec_lift_lds_frame]].
  intros x Hx Hl. destruct (vec_lift_trace d st x Hx) as [Hin|[_ Ha]]; [exact Hin|].
  rewrite Hl, H in Ha. discriminate.
Qed.
Print Assumptions lane_lift_respects_exec.

(** The mask written by the instruction is exactly [lift_mask]; an active lane
    contributes its own result bit and nothing else; bits 64.. are untouched. *)
Theorem lane_lift_mask_destination : forall d st,
  (d_dst d <> DNone -> dst_val d (vec_lift d st) = lift_mask d st) /\
  (forall i, (i < NL)%nat -> active (exec st) i = true ->
     N.testbit (lift_mask d st) (N.of_nat i) =
     match lo_bit (out_at d st i) with Some b => b | None => N.testbit (acc0 d st) (N.of_nat i) end) /\
  (forall m, N.of_nat NL <= m -> N.testbit (lift_mask d st) m = N.testbit (acc0 d st) m).
Proof.
  intros d st. split; [|split].
  - intros H. unfold vec_lift. apply wd_dst_val. exact H.
  - apply lift_mask_active.
  - apply lift_mask_high.
Qed.
Print Assumptions lane_lift_mask_destination.

(** With EXEC = 0 a vector instruction is a no-op on registers, memory and LDS. *)
Theorem lane_lift_exec_zero : forall d st, exec st = 0 ->
  (forall i r, vgpr (vec_lift d st) i r = vgpr st i r) /\
  (forall a, gmem (vec_lift d st) a = gmem st a) /\ (forall a, lds (vec_lift d st) a = lds st a) /\
  trace (vec_lift d st) = trace st.
Proof.
  intros d st H. assert (Hn : forall i, active (exec st) i = false) by (intros; unfold active; rewrite H; apply N.bits_0).
  split; [intros; apply vec_lift_vgpr_inactive; apply Hn|].
  split; [intros; apply vec_lift_gmem_frame; intros j _ Hj; rewrite Hn in Hj; discriminate|].
  split; [intros; apply vec_lift_lds_frame; intros j _ Hj; rewrite Hn in Hj; discriminate|].
  unfold vec_lift. rewrite wd_trace. cbn [trace].
  assert (Hf : forall l, flat_map (lift_tr d st) l = []).
  { induction l as [|x l IH]; [reflexivity|]. cbn. rewrite IH. unfold lift_tr. rewrite Hn. reflexivity. }
  rewrite Hf. apply app_nil_r.
Qed.
Print Assumptions lane_lift_exec_zero.

(** Equivariance, stated pointwise.  [st'] is any state whose lanes are those
    of [st] permuted by [p] (registers, EXEC, VCC and the mask source).  Then
    the results are permuted in the same way: registers of lane [p i] after
    the run on [st'] are those of lane [i] after the run on [st]; EXEC, VCC
    and the mask destination are bitwise permuted; other scalars agree. *)
Theorem lane_lift_equivariant : forall p p' d st st',
  is_perm p p' -> fn_ext (d_f d) -> perm_rel p d st st' ->
  perm_out p d (vec_lift d st) (vec_lift d st').
Proof. exact vec_lift_perm_out. Qed.
Print Assumptions lane_lift_equivariant.

(** Stores: memory and LDS after the two runs agree when active lanes target
    pairwise distinct addresses (loads never need the premise: they store nothing). *)
Theorem lane_lift_equivariant_stores : forall p p' d st st',
  is_perm p p' -> fn_ext (d_f d) -> perm_rel p d st st' ->
  (distinct_stores (lift_gst d st) -> forall a, gmem (vec_lift d st') a = gmem (vec_lift d st) a) /\
  (distinct_stores (lift_lst d st) -> forall a, lds (vec_lift d st') a = lds (vec_lift d st) a).
Proof.
  intros p p' d st st' Hp He Hr. split.
  - apply (vec_lift_perm_gmem p p' d st st' Hp He Hr).
  - apply (vec_lift_perm_lds p p' d st st' Hp He Hr).
Qed.
Print Assumptions lane_lift_equivariant_stores.

(** The same with the permutation applied by a function:
    vec_lift d (perm_state p' d st)  =  "perm" (vec_lift d st), pointwise. *)
Theorem lane_lift_equivariant_perm_state : forall p p' d st,
  is_perm p p' -> fn_ext (d_f d) ->
  (d_keep d = true -> d_dst d = DVcc \/ d_dst d = DExec \/ exists n, d_dst d = DSgpr n /\ d_src d = MSgpr n) ->
  perm_out p d (vec_lift d st) (vec_lift d (perm_state p' d st)) /\
  (forall i r, (i < NL)%nat -> vgpr (vec_lift d (perm_state p' d st)) (p i) r = vgpr (vec_lift d st) i r).
Proof.
  intros p p' d st Hp He Hk.
  assert (H : perm_out p d (vec_lift d st) (vec_lift d (perm_state p' d st))).
  { apply (vec_lift_perm_out p p'); auto. apply perm_state_rel; auto. }
  split; [exact H|]. intros i r Hi. apply (po_vgpr _ _ _ _ H). exact Hi.
Qed.
Print Assumptions lane_lift_equivariant_perm_state.

(** The Go handlers are sequential loops with a running register file, running
    memory and a mask accumulator.  For an extensional per-lane function that
    is a load or a store, the loop computes exactly the parallel lift - for
    every state and every EXEC value. *)
Theorem seq_loop_eq_lift : forall d st,
  fn_ext (d_f d) -> ld_or_st (d_f d) -> (d_from_acc d = true -> acc0 d st = src_val d st) ->
  veq (seq_loop d st) (vec_lift d st).
Proof. exact seq_loop_veq_lift. Qed.
Print Assumptions seq_loop_eq_lift.

(** All transcribed handlers (LanesCorr.v, the ones the correspondence check
    runs against the Go code) are such instances, whatever their operands. *)
Theorem representative_handlers_are_lifts : forall h o st,
  fn_ext (d_f (hdesc h o)) /\ ld_or_st (d_f (hdesc h o)) /\ veq (seq_loop (hdesc h o) st) (vec_lift (hdesc h o) st).
Proof.
  intros. rewrite hdesc_f. split; [apply hfn_ext|]. split; [apply hfn_ld_or_st|]. apply hdesc_seq_loop_is_lift.
Qed.
Print Assumptions representative_handlers_are_lifts.

(** The registration table [LanesTable.handler_table] (generated by the harness
    from the handlers it finds in the real ALUs; the correspondence check
    replays every entry against the Go code) lists each implemented vector
    handler that has a per-lane function in Coq.  Every entry, for all values
    of the abs / neg fields, all operands, run as the sequential loop the Go
    code is: inactive lanes untouched (registers, mask-destination bit, no
    access, memory frame) and equivariance under every lane permutation
    ([Lanes.lane_independent]) - by instantiation of the generic theorems. *)
Theorem handler_table_lane_independent :
  Forall (fun e => forall ab ng o, lane_independent (hdesc (t_h e ab ng) o)) handler_table.
Proof. apply Forall_forall. intros e _ ab ng o. exact (hdesc_lane_independent (t_h e ab ng) o). Qed.
Print Assumptions handler_table_lane_independent.

(** The same for any sequential loop whose per-lane function is extensional and
    a load or a store (not only the tabulated ones). *)
Theorem seq_loop_is_lane_independent : forall d,
  fn_ext (d_f d) -> ld_or_st (d_f d) -> (forall st, d_from_acc d = true -> acc0 d st = src_val d st) ->
  lane_independent d.
Proof. exact seq_loop_lane_independent. Qed.
Print Assumptions seq_loop_is_lane_independent.

(** A scalar handler that never asks for EXEC computes the same results under
    any two EXEC values: all other state components agree afterwards, and EXEC
    itself is either overwritten with the same value in both runs or left as
    it was in each. *)
Theorem scalar_ignores_exec : forall p, no_exec_read p -> forall s e,
  seq_mod_exec (srun p s) (srun p (set_exec e s)) /\
  (swrote p s = true -> s_exec (srun p s) = s_exec (srun p (set_exec e s))) /\
  (swrote p s = false -> s_exec (srun p s) = s_exec s /\ s_exec (srun p (set_exec e s)) = e).
Proof.
  intros p Hp s e.
  assert (Hs : seq_mod_exec s (set_exec e s)) by (unfold seq_mod_exec, set_exec; cbn; repeat split; auto).
  destruct (srun_mod_exec p Hp s (set_exec e s) Hs) as (A & B & C & D). auto.
Qed.
Print Assumptions scalar_ignores_exec.

(** ** Non-vacuity and the documented exceptions *)

(** a concrete wavefront: lane l holds (l, 2^32-1-l, 7, ..) in v0, v1, v2 *)
Definition demo_state (e v : N) : vstate :=
  mkV (fun l r => match r with 0%nat => N.of_nat l | 1%nat => 4294967295 - N.of_nat l | _ => 7 end)
      (fun r => N.of_nat r) e v 0 0 (fun a => a mod 256) (fun a => (a * 3) mod 256) [].
Definition demo_ops : ops :=
  mkOps (OV 2 0) ONone (OV 0 0) (OC 4294967295) ONone (OV 0 1) (OV 1 1) ONone 0 0 None.

(** v_addc_u32 v2, v0, 0xffffffff on lanes 1, 2, 5 with VCC bits 0, 1, 5, 63 set:
    1+(2^32-1)+1, 2+(2^32-1)+0 and 5+(2^32-1)+1 all carry; lane 0 keeps v2 = 7.
    As both ALUs implement it today the VCC bits of inactive lanes are cleared: *)
Example demo_addc :
  let r := seq_loop (hdesc H_addc demo_ops) (demo_state 38 (9223372036854775808 + 35)) in
  map (fun l => vgpr r l 2%nat) [0; 1; 2; 5]%nat = [7; 1; 1; 5] /\ vcc r = 38.
Proof. vm_compute. split; reflexivity. Qed.

(** The combinator also covers the form the CDNA3 handler had before commit
    ae21b7de (carry-in read from the running accumulator, inactive lanes keep
    their VCC bit): bit 0 (lane 0 inactive) and bit 63 survive, bit 2 is set. *)
Definition demo_keep_desc : desc := mkD (hfn H_addc demo_ops) MVcc true DVcc true.
Example demo_addc_keep :
  let r := seq_loop demo_keep_desc (demo_state 38 (9223372036854775808 + 35)) in
  map (fun l => vgpr r l 2%nat) [0; 1; 2; 5]%nat = [7; 1; 1; 5] /\ vcc r = 9223372036854775808 + 39.
Proof. vm_compute. split; reflexivity. Qed.
Example demo_keep_is_lift : forall st, veq (seq_loop demo_keep_desc st) (vec_lift demo_keep_desc st).
Proof. intros. apply seq_loop_veq_lift; [apply hfn_ext|apply hfn_ld_or_st|reflexivity]. Qed.

(** the table is not empty (one entry per handler and Coq term) *)
Example handler_table_size : Nat.leb 240 (length handler_table) = true.
Proof. vm_compute. reflexivity. Qed.

(** a float compare of the table on a concrete wavefront: v0 = lane number (a
    denormal), the constant 0xffffffff is a NaN.  v_cmp_nlt_f32 sets the VCC bit
    of every ACTIVE lane (lanes 1, 2, 5) and clears the others; v_cmp_lt_f32
    clears all; v_cmp_gt_f32 against +0 (lane 0 holds +0 and is inactive) *)
Example demo_fcmp :
  let st := demo_state 38 (9223372036854775808 + 35) in
  let zero := mkOps ONone ONone (OV 0 0) (OC 0) ONone ONone ONone ONone 0 0 None in
  vcc (seq_loop (hdesc (H_fcmp FNlt 0 0 false) demo_ops) st) = 38 /\
  vcc (seq_loop (hdesc (H_fcmp FLt 0 0 false) demo_ops) st) = 0 /\
  vcc (seq_loop (hdesc (H_fcmp FGt 0 0 false) zero) (demo_state 39 0)) = 38 /\
  (* with neg on source 0 the lanes hold -0, -1e-45, ..: nothing is > +0 *)
  vcc (seq_loop (hdesc (H_fcmp FGt 0 1 false) zero) (demo_state 39 0)) = 0 /\
  (* class: lane 0 is +0 (bit 6), the others positive denormals (bit 7) *)
  vcc (seq_loop (hdesc (H_fclass true 0 0 false) (mkOps ONone ONone (OV 0 0) (OC 128) ONone ONone ONone ONone 0 0 None)) (demo_state 39 0)) = 38.
Proof. vm_compute. repeat split; reflexivity. Qed.

(** the hypotheses of the equivariance theorem are satisfiable: rotation by 3 *)
Definition rot3 (i : nat) : nat := Nat.modulo (i + 3) 64.
Definition rot3' (i : nat) : nat := Nat.modulo (i + 61) 64.
Example demo_perm : is_perm rot3 rot3'.
Proof.
  assert (H : forallb (fun i => Nat.ltb (rot3 i) 64 && Nat.eqb (rot3' (rot3 i)) i &&
                                Nat.ltb (rot3' i) 64 && Nat.eqb (rot3 (rot3' i)) i) (seq 0 64) = true) by (vm_compute; reflexivity).
  rewrite forallb_forall in H.
  assert (E : NL = 64%nat) by reflexivity.
  split; intros i Hi; rewrite E in *; assert (Hin : In i (seq 0 64)) by (apply in_seq; auto with arith);
    specialize (H i Hin); repeat (apply andb_prop in H; destruct H as [H ?]);
    repeat match goal with X : Nat.ltb _ _ = true |- _ => apply Nat.ltb_lt in X
                         | X : Nat.eqb _ _ = true |- _ => apply Nat.eqb_eq in X end; auto.
Qed.

Example demo_equivariant :
  let d := demo_keep_desc in
  let st := demo_state 38 (9223372036854775808 + 35) in
  let o := vec_lift d st in let o' := vec_lift d (perm_state rot3' d st) in
  map (fun l => vgpr o' (rot3 l) 2%nat) [0; 1; 2; 5]%nat = map (fun l => vgpr o l 2%nat) [0; 1; 2; 5]%nat /\
  map (fun l => N.testbit (vcc o') (N.of_nat (rot3 l))) (seq 0 64) = map (fun l => N.testbit (vcc o) (N.of_nat l)) (seq 0 64).
Proof. vm_compute. split; reflexivity. Qed.

(** a store with colliding lanes shows why the distinctness premise is needed:
    lanes 0 and 1 both write byte address 0 of the LDS; the higher lane wins,
    and which lane is higher changes under a permutation *)
Example demo_store_collision :
  let o := mkOps ONone ONone ONone ONone ONone (OC 0) (OV 0 1) ONone 0 0 None in
  let d := hdesc (H_ds_write 4) o in let st := demo_state 3 0 in
  let swap := fun i => match i with 0%nat => 1%nat | 1%nat => 0%nat | _ => i end in
  lds (vec_lift d st) 0 = 1 /\ lds (vec_lift d (perm_state swap d st)) 0 = 0.
Proof. vm_compute. split; reflexivity. Qed.

(** Documented cross-lane instruction, modelled outside the combinator:
    v_readfirstlane_b32 is not equivariant (the scalar result is the value of
    the lowest active lane). *)
Example readfirstlane_is_cross_lane :
  let st := demo_state 6 0 in
  let swap := fun i => match i with 1%nat => 2%nat | 2%nat => 1%nat | _ => i end in
  let d0 := mkD (fun _ _ _ _ => mkLO [] None [] [] [] []) MNone false DNone false in
  sgpr (readfirstlane 0 5 st) 5%nat = 1 /\ sgpr (readfirstlane 0 5 (perm_state swap d0 st)) 5%nat = 2.
Proof. vm_compute. split; reflexivity. Qed.

(** Scalar side: s_add_u32 as an access pattern never reads EXEC ... *)
Definition p_s_add_u32 (a b dst : nat) : sprog :=
  SRdSgpr a (fun x => SRdSgpr b (fun y =>
    SWrSgpr dst ((x + y) mod 4294967296) (SWrScc (if N.leb 4294967296 (x + y) then 1 else 0) SRet))).
Example s_add_no_exec : forall a b dst, no_exec_read (p_s_add_u32 a b dst).
Proof. intros. unfold p_s_add_u32. repeat (constructor; intros). Qed.

(** ... while s_and_saveexec_b64 does, and its result depends on it (the
    documented exceptions: s_*_saveexec_b64, s_cbranch_execz/execnz). *)
Definition p_s_and_saveexec (src dst : nat) : sprog :=
  SRdSgpr src (fun lo => SRdSgpr (S src) (fun hi => SRdExec (fun e =>
    SWrSgpr dst (e mod 4294967296) (SWrSgpr (S dst) (e / 4294967296)
      (SWrExec (N.land (lo + 4294967296 * hi) e) SRet))))).
Example saveexec_depends_on_exec :
  let s := mkS (fun _ => 255) 0 0 15 0 0 (fun _ => 0) in
  s_sgpr (srun (p_s_and_saveexec 2 4) s) 4%nat <> s_sgpr (srun (p_s_and_saveexec 2 4) (set_exec 3 s)) 4%nat.
Proof. vm_compute. discriminate. Qed.
