(** C18 — results do not depend on how work and data are spread over GPUs.
    Statements only; every proof is an [exact]/[apply] into VMem.RdmaProofs and
    VDrv.DistributeProofs.

    Part (i): the RDMA engine (amd/timing/rdma/comp.go).  [run c init evs]
    ranges over every configuration [c] (port buffer size, the four per-cycle
    widths, both address tables as arbitrary functions) and every finite
    sequence of environment events: deliveries on the five ports (accepted or
    refused by the bounded buffers), ticks, retrievals.
    Part (ii): the page distributor and the work-group split of the driver,
    as pure functions, for all sizes / GPU counts / CU counts. *)
From Coq Require Import Permutation ZArith.
From VLib Require Import Akita ListX.
From VMem Require Import Rdma RdmaProofs RdmaLive.
From VDrv Require Import Distribute DistributeProofs.
From VSys Require Import Routing RoutingProofs.
Open Scope N_scope.

(** * (i) RDMA engine *)

(** What "exactly once" means on one data path with address table [find],
    forwarding port [pf] and answering port [pa]:
    - the forwarded requests (retrieved or still queued) are, in order, the
      clones of the transactions created, which are the accepted prefix of
      the delivered requests: one clone per request, none invented;
    - the answers pushed to the requester are, in order, the clones of the
      responses that completed a transaction;
    - every transaction ever created is either still pending or completed
      exactly once (permutation + distinct forwarded IDs);
    - the responses consumed are the delivered ones, in order, and each was
      matched to the transaction whose forwarded ID it names. *)
Definition path_exactly_once (find : N -> N) (pf pa : N) (ch : chan) : Prop :=
  g_fretr ch ++ f_out ch = map (fwd_of find pf) (g_all ch) /\
  map t_orig (g_all ch) ++ q_in ch = g_deliv ch /\
  Forall (fun t => is_req (t_orig t) = true) (g_all ch) /\
  g_aretr ch ++ a_out ch = map (answer_of pa) (g_done ch) /\
  Permutation (map fst (g_done ch) ++ txs ch) (g_all ch) /\
  NoDup (map t_fid (g_all ch)) /\
  map snd (g_done ch) ++ r_in ch = g_rsp ch /\
  Forall (fun p => m_rspto (snd p) = t_fid (fst p) /\ is_rsp (snd p) = true) (g_done ch).

Theorem rdma_exactly_once : forall c evs,
  let s := run c init evs in
  path_exactly_once (remote_find c) P_RO P_RI (ch_in s) /\
  path_exactly_once (local_find c) P_DI P_DO (ch_out s).
Proof.
  intros c evs s. pose proof (run_inv c evs init (init_inv c)) as H. fold s in H.
  destruct H as [[] [] _ _ _ _ _ _]. split; repeat split; assumption.
Qed.
Print Assumptions rdma_exactly_once.

(** The forwarded clone goes to the port the address table gives, from the
    engine's own port, with the same kind, address, size, data and mask and a
    fresh ID; the answer goes to the original requester with the original ID
    and the payload of the response.  (The clone carries PID 0: cloneReq does
    not copy PID — the address translator above the RDMA engine has already
    replaced the PID by 0.) *)
Theorem rdma_forward_faithful : forall find pf t,
  is_req (t_orig t) = true ->
  let r := t_orig t in let f := fwd_of find pf t in
  m_id f = t_fid t /\ m_kind f = m_kind r /\ m_src f = pf /\ m_dst f = find (m_addr r) /\
  m_addr f = m_addr r /\ m_pid f = 0 /\
  (m_kind r = KRead -> m_size f = m_size r) /\
  (m_kind r = KWrite -> m_data f = m_data r /\ m_mask f = m_mask r).
Proof. intros find pf t H. exact (clone_req_faithful _ _ _ _ H). Qed.
Print Assumptions rdma_forward_faithful.

Theorem rdma_answer_faithful : forall pa t r,
  is_rsp r = true ->
  let a := answer_of pa (t, r) in
  m_kind a = m_kind r /\ m_src a = pa /\ m_dst a = m_src (t_orig t) /\
  m_rspto a = m_id (t_orig t) /\ (m_kind r = KDataReady -> m_data a = m_data r).
Proof. intros pa t r H. exact (clone_rsp_faithful _ _ _ _ H). Qed.
Print Assumptions rdma_answer_faithful.

(** Seen from the requester: every answer names a request that was delivered,
    and no request is answered twice when the requester's IDs are distinct. *)
Theorem rdma_answered_at_most_once : forall c evs,
  let s := run c init evs in
  (incl (map m_rspto (g_aretr (ch_in s) ++ a_out (ch_in s))) (map m_id (g_deliv (ch_in s))) /\
   (NoDup (map m_id (g_deliv (ch_in s))) ->
    NoDup (map m_rspto (g_aretr (ch_in s) ++ a_out (ch_in s))))) /\
  (incl (map m_rspto (g_aretr (ch_out s) ++ a_out (ch_out s))) (map m_id (g_deliv (ch_out s))) /\
   (NoDup (map m_id (g_deliv (ch_out s))) ->
    NoDup (map m_rspto (g_aretr (ch_out s) ++ a_out (ch_out s))))).
Proof.
  intros c evs s. pose proof (run_inv c evs init (init_inv c)) as H. fold s in H.
  split; [exact (answers_once _ _ _ _ _ (i_in _ _ H))|exact (answers_once _ _ _ _ _ (i_out _ _ H))].
Qed.
Print Assumptions rdma_answered_at_most_once.

(** No silent loss: a queued request whose destination is valid is taken as
    soon as the outgoing buffer has room, and a queued response that names a
    pending transaction completes it as soon as the answer buffer has room. *)
Theorem rdma_request_progress : forall find pf cap c r rest,
  q_in c = r :: rest -> is_req r = true -> bad_dst pf (find (m_addr r)) = false ->
  (length (f_out c) < cap)%nat ->
  exists c', accept find pf cap c = ROk c' /\ q_in c' = rest /\
             f_out c' = f_out c ++ [clone_req (nid c) pf (find (m_addr r)) r] /\
             txs c' = txs c ++ [mkTx r (nid c)].
Proof. exact accept_progress. Qed.
Print Assumptions rdma_request_progress.

Theorem rdma_response_progress : forall pa cap c r rest t l1 l2,
  r_in c = r :: rest -> is_rsp r = true -> txs c = l1 ++ t :: l2 ->
  t_fid t = m_rspto r -> ~ In (m_rspto r) (map t_fid l1) ->
  bad_dst pa (m_src (t_orig t)) = false -> (length (a_out c) < cap)%nat ->
  exists c', complete pa cap c = ROk c' /\ r_in c' = rest /\ txs c' = l1 ++ l2 /\
             a_out c' = a_out c ++ [clone_rsp pa (m_src (t_orig t)) (m_id (t_orig t)) r].
Proof. exact complete_progress. Qed.
Print Assumptions rdma_response_progress.

(** Drain soundness.  Every DrainRsp ever pushed was pushed in a state where
    both transaction lists were empty, every transaction ever created on
    either path had completed, and intake from inside was paused; and the
    log has one entry per DrainRsp sent. *)
Theorem rdma_drain_sound : forall c evs,
  let s := run c init evs in
  Forall ack_ok (g_acks s) /\
  nctl FL_DRAIN_RSP (g_ctretr s ++ ct_out s) = length (g_acks s).
Proof.
  intros c evs s. pose proof (run_inv c evs init (init_inv c)) as H. fold s in H.
  split; [exact (i_acks _ _ H)|exact (i_nack _ _ H)].
Qed.
Print Assumptions rdma_drain_sound.

(** ... and conversely a pending drain IS acknowledged as soon as nothing is in
    flight: the drain stage of the next tick pushes the DrainRsp when the
    control port has room. *)
Theorem rdma_drain_progress : forall c s d,
  draining s = true -> fully_drained s = true -> cur s = Some d ->
  bad_dst P_CT (m_src d) = false -> (length (ct_out s) < bufsz c)%nat ->
  let s' := fst (drain c s) in
  ct_out s' = ct_out s ++ [ctl_rsp FL_DRAIN_RSP d] /\ draining s' = false /\
  txs (ch_in s') = [] /\ txs (ch_out s') = [].
Proof. exact drain_progress. Qed.
Print Assumptions rdma_drain_progress.

(** While paused — from any reachable state with the pause flag set until the
    next RestartRsp is pushed — no request from inside is accepted: the list
    of transactions created from inside does not grow (hence nothing new is
    forwarded), whatever the environment does. *)
Theorem rdma_paused_accepts_nothing : forall c evs1 evs2,
  let s1 := run c init evs1 in
  let s2 := run c s1 evs2 in
  pause s1 = true -> g_nrestart s2 = g_nrestart s1 ->
  pause s2 = true /\ g_all (ch_in s2) = g_all (ch_in s1) /\
  g_fretr (ch_in s2) ++ f_out (ch_in s2) = g_fretr (ch_in s1) ++ f_out (ch_in s1).
Proof.
  intros c evs1 evs2 s1 s2 Hp Hn.
  destruct (run_PR c evs2 s1) as [_ H]. destruct (H Hp Hn) as [H1 H2].
  split; [exact H1|]. split; [exact H2|].
  pose proof (run_inv c evs1 init (init_inv c)) as I1. fold s1 in I1.
  pose proof (run_inv c evs2 s1 I1) as I2. fold s2 in I2.
  rewrite (ci_fwd _ _ _ _ _ (i_in _ _ I1)), (ci_fwd _ _ _ _ _ (i_in _ _ I2)). f_equal. exact H2.
Qed.
Print Assumptions rdma_paused_accepts_nothing.

(** The drain request pauses intake in the very tick that takes it. *)
Theorem rdma_drain_pauses : forall c s m rest,
  ct_in s = m :: rest -> is_ctl FL_DRAIN_REQ m = true ->
  let s' := fst (process_ctl c s) in
  pause s' = true /\ draining s' = true /\ cur s' = Some m.
Proof. intros c s m rest E K. unfold process_ctl. rewrite E, K. cbn. auto. Qed.
Print Assumptions rdma_drain_pauses.

(** Protocol-respecting environments ([respects], defined only in terms of
    what the environment itself sent and retrieved: requests with a non-empty
    source that the tables can route; responses only to forwarded requests it
    has retrieved, at most one each; DrainReq only when idle, RestartReq only
    after it retrieved the DrainRsp) never crash the engine. *)
Theorem rdma_no_crash : forall c evs,
  respects c init evs -> crashed (run c init evs) = None.
Proof. intros c evs H. exact (gd_up _ _ (run_good c evs init (init_good c) H)). Qed.
Print Assumptions rdma_no_crash.

(** Hence a crash is only reachable by violating the protocol; it can only
    happen in a tick, and afterwards the engine is stuck. *)
Theorem rdma_crash_needs_violation : forall c evs,
  crashed (run c init evs) <> None -> ~ respects c init evs.
Proof. intros c evs H R. apply H. now apply rdma_no_crash. Qed.
Print Assumptions rdma_crash_needs_violation.

Theorem rdma_crash_only_in_tick : forall c s e,
  crashed s = None -> crashed (fst (step c s e)) <> None -> e = ETick.
Proof. exact crash_only_in_tick. Qed.
Print Assumptions rdma_crash_only_in_tick.

Theorem rdma_crashed_stuck : forall c evs s, crashed s <> None -> run c s evs = s.
Proof. exact crashed_stuck. Qed.
Print Assumptions rdma_crashed_stuck.

(** Port buffers never exceed the configured size. *)
Theorem rdma_buffers_bounded : forall c evs,
  let s := run c init evs in
  (length (f_out (ch_in s)) <= bufsz c /\ length (a_out (ch_in s)) <= bufsz c /\
   length (f_out (ch_out s)) <= bufsz c /\ length (a_out (ch_out s)) <= bufsz c /\
   length (ct_out s) <= bufsz c)%nat.
Proof.
  intros c evs s. pose proof (run_inv c evs init (init_inv c)) as H. fold s in H.
  destruct H as [[] [] _ _ _ _ _ ?]. auto.
Qed.
Print Assumptions rdma_buffers_bounded.

(** ** End-to-end liveness (RdmaLive.v)

    Fair environment.  Its state [env] is the two lists of forwarded requests
    it has retrieved but not answered yet ([env_of s] computes them for any
    reachable state from the engine's ghost logs).  One [round c q] is: one
    tick; then k_ro / k_ri / k_di / k_do retrievals from the out-buffers of
    RDMARequestOutside / RDMARequestInside / RDMADataInside / RDMADataOutside
    (each retrieved forwarded request joins the unanswered list of its side);
    then k_aro / k_adi times "deliver the response to the oldest unanswered
    request if the port accepts it" on RDMARequestOutside / RDMADataInside.
    No new requests and no control messages.  A quota is fair ([quota_ok]) when
    all six counts are at least 1; a count of bufferSize or more serves the
    whole buffer.  Every round may use a different quota.

    Rank of (engine state, environment state):
      5·queued requests (inside path: only while L1 intake is not paused)
      + 4·forwarded requests still in an out-buffer + 3·retrieved but unanswered
      + 2·responses queued in the engine + 1·answers still in an out-buffer
      (both paths) + 1 if a drain is pending.
    [bound s] is the rank of [s] with the environment state [env_of s].

    From ANY state reachable by protocol-respecting events (hence not crashed)
    with no control request still queued in the control port's in-buffer —
    including states with a drain pending and intake paused — and with widths
    and buffer size at least 1: after any [bound s] or more fair rounds both
    transaction tables and all data buffers are empty (the inside request
    queue too unless intake is paused), the environment owes no response, the
    engine has not crashed, the pause flag is what it was, and a drain that was
    pending has been acknowledged: the DrainRsp sits in the control out-buffer. *)
Theorem rdma_liveness : forall c evs,
  widths_ok c -> respects c init evs ->
  let s := run c init evs in
  ct_in s = [] ->
  forall qs, Forall quota_ok qs -> (bound s <= length qs)%nat ->
  let s' := fst (rounds c qs (s, env_of s)) in
  let e' := snd (rounds c qs (s, env_of s)) in
  quiescent s' e' /\ Good c s' /\ pause s' = pause s /\
  (draining s = true -> exists d, cur s' = Some d /\ ct_out s' = [ctl_rsp FL_DRAIN_RSP d]).
Proof. exact liveness. Qed.
Print Assumptions rdma_liveness.

(** ... combined with the exactly-once invariants: at that point, on both
    paths, the forwarded requests the environment took are exactly the clones
    of all transactions ever created, the answers the requesters took are
    exactly the clones of the responses that completed them, every
    transaction completed exactly once (permutation), every delivered response
    was used, and every request the port accepted became a transaction (inside
    path: when intake is not paused). *)
Theorem rdma_liveness_all_answered : forall c evs,
  widths_ok c -> respects c init evs ->
  let s := run c init evs in
  ct_in s = [] ->
  forall qs, Forall quota_ok qs -> (bound s <= length qs)%nat ->
  let s' := fst (rounds c qs (s, env_of s)) in
  path_all_answered (remote_find c) P_RO P_RI (ch_in s') /\
  path_all_answered (local_find c) P_DI P_DO (ch_out s') /\
  map t_orig (g_all (ch_out s')) = g_deliv (ch_out s') /\
  (pause s = false -> map t_orig (g_all (ch_in s')) = g_deliv (ch_in s')).
Proof. exact liveness_answered. Qed.
Print Assumptions rdma_liveness_all_answered.

(** the fair rounds are nothing but protocol-respecting events of the model
    without new requests and without control messages: the state they reach is
    [run c init (evs ++ evs')], so every theorem above applies to it *)
Theorem rdma_liveness_rounds_are_runs : forall c evs,
  widths_ok c -> respects c init evs ->
  let s := run c init evs in
  ct_in s = [] ->
  forall qs, Forall quota_ok qs ->
  exists evs', fst (rounds c qs (s, env_of s)) = run c init (evs ++ evs') /\
               respects c init (evs ++ evs') /\ Forall quiet_ev evs'.
Proof. exact liveness_reachable. Qed.
Print Assumptions rdma_liveness_rounds_are_runs.

(** the rank is a ranking function: every fair round that starts with work
    left lowers it; with no work left it stays 0 *)
Theorem rdma_rank_decreases : forall c evs,
  widths_ok c -> respects c init evs ->
  let s := run c init evs in
  ct_in s = [] ->
  forall qs q, Forall quota_ok qs -> quota_ok q ->
  let x := rounds c qs (s, env_of s) in
  (rank (round c q x) < rank x)%nat \/ (rank (round c q x) = 0%nat /\ rank x = 0%nat).
Proof. exact rank_decreases. Qed.
Print Assumptions rdma_rank_decreases.

(** ** Non-vacuity and the crash paths, on concrete histories *)
Definition cfg0 : cfg :=
  mkCfg 2 1 1 1 1 (banked 4096 [0; 100; 101]) (banked 4096 [200; 201]).
Definition rd (id src dst a : N) : msg := mkMsg id KRead src dst 0 a 4 1 [] [] 0.
Definition wr (id src dst a : N) (d : list N) : msg := mkMsg id KWrite src dst 0 a 0 1 d [] 0.
Definition dr (src dst to : N) (d : list N) : msg := mkMsg 0 KDataReady src dst to 0 0 0 d [] 0.
Definition wd (src dst to : N) : msg := mkMsg 0 KWriteDone src dst to 0 0 0 [] [] 0.
Definition ctl (fl : N) : msg := mkMsg 0 KCtrl 30 P_CT 0 0 0 0 [] [] fl.

(** two reads from inside answered out of order, one write from outside,
    then a complete drain / restart handshake *)
Definition demo : list ev :=
  [EDeliver RI (rd 1 10 P_RI 4100); EDeliver RI (rd 2 11 P_RI 8200); ETick; ETick;
   ERetr RO; ERetr RO;
   EDeliver DO (wr 3 20 P_DO 64 [7; 8]); ETick; ERetr DI;
   EDeliver CT (ctl FL_DRAIN_REQ); ETick;
   EDeliver RO (dr 101 P_RO 1000001 [2; 2; 2; 2]); ETick; ERetr RI;
   EDeliver RO (dr 100 P_RO 1000000 [1; 1; 1; 1]); ETick; ERetr RI;
   EDeliver DI (wd 200 P_DI 2000000); ETick; ERetr DO;
   ETick; ERetr CT;
   EDeliver CT (ctl FL_RESTART_REQ); ETick; ERetr CT].

Example demo_result :
  let s := run cfg0 init demo in
  crashed s = None /\
  map m_dst (g_fretr (ch_in s)) = [100; 101] /\
  map (fun m => (m_dst m, m_rspto m, m_data m)) (g_aretr (ch_in s)) =
    [(11, 2, [2; 2; 2; 2]); (10, 1, [1; 1; 1; 1])] /\
  map (fun m => (m_dst m, m_addr m, m_data m)) (g_fretr (ch_out s)) = [(200, 64, [7; 8])] /\
  map (fun m => (m_dst m, m_rspto m)) (g_aretr (ch_out s)) = [(20, 3)] /\
  length (g_acks s) = 1%nat /\ g_nrestart s = 1%nat /\ pause s = false /\ g_env s = Idle /\
  map m_flags (g_ctretr s) = [FL_DRAIN_RSP; FL_RESTART_RSP].
Proof. vm_compute. repeat split; reflexivity. Qed.

Example demo_respects : respects cfg0 init demo.
Proof.
  vm_compute.
  repeat match goal with
         | |- _ /\ _ => split
         | |- True => exact I
         | |- _ = _ => reflexivity
         | |- _ \/ _ => first [left; repeat split; reflexivity | right; repeat split; reflexivity
                              | left; reflexivity | right; left; reflexivity | right; right; left; reflexivity ]
         | |- _ -> False => let H := fresh in intro H; repeat destruct H as [H|H]; try discriminate H; try contradiction
         end.
Qed.

(** liveness is not vacuous: after the first eleven events of [demo] two reads
    from inside and a write from outside have been forwarded and retrieved,
    none is answered, a drain is pending and intake is paused; the bound is
    3·3 + 1 = 10, and ten fair rounds (one service per port) answer all three
    and push the DrainRsp; the rank falls 10, 8, 3, 1, 0 (the bound is an upper
    bound: a round usually moves several messages) *)
Definition demo_busy : list ev := firstn 11 demo.
Definition q1 : quota := mkQ 1 1 1 1 1 1.

Example liveness_demo_hyps :
  widths_ok cfg0 /\ quota_ok q1 /\ ct_in (run cfg0 init demo_busy) = [] /\
  draining (run cfg0 init demo_busy) = true /\ pause (run cfg0 init demo_busy) = true /\
  bound (run cfg0 init demo_busy) = 10%nat /\
  map m_id (p_in (env_of (run cfg0 init demo_busy))) = [1000000; 1000001] /\
  map m_id (p_out (env_of (run cfg0 init demo_busy))) = [2000000].
Proof. vm_compute. repeat split; try reflexivity; lia. Qed.

Example liveness_demo_respects : respects cfg0 init demo_busy.
Proof.
  vm_compute.
  repeat match goal with
         | |- _ /\ _ => split
         | |- True => exact I
         | |- _ = _ => reflexivity
         | |- _ \/ _ => first [left; repeat split; reflexivity | right; repeat split; reflexivity
                              | left; reflexivity | right; left; reflexivity | right; right; left; reflexivity ]
         | |- _ -> False => let H := fresh in intro H; repeat destruct H as [H|H]; try discriminate H; try contradiction
         end.
Qed.

Example liveness_demo_result :
  let s := run cfg0 init demo_busy in
  let x := rounds cfg0 (repeat q1 10) (s, env_of s) in
  rank x = 0%nat /\ txs (ch_in (fst x)) = [] /\ txs (ch_out (fst x)) = [] /\
  map (fun m => (m_dst m, m_rspto m)) (g_aretr (ch_in (fst x))) = [(10, 1); (11, 2)] /\
  map (fun m => (m_dst m, m_rspto m)) (g_aretr (ch_out (fst x))) = [(20, 3)] /\
  map m_flags (ct_out (fst x)) = [FL_DRAIN_RSP] /\
  map (fun k => rank (rounds cfg0 (repeat q1 k) (s, env_of s))) [0; 1; 2; 3; 4]%nat = [10; 8; 3; 1; 0]%nat.
Proof. vm_compute. repeat split; reflexivity. Qed.

(** the five ways to crash are all reachable, each by a protocol violation *)
Example crash_restart_without_drain :
  crashed (run cfg0 init [EDeliver CT (ctl FL_RESTART_REQ); ETick]) = Some CRestartNoDrain.
Proof. reflexivity. Qed.

Example crash_restart_overtakes_drain :
  crashed (run cfg0 init [EDeliver RI (rd 1 10 P_RI 4100); ETick;
                          EDeliver CT (ctl FL_DRAIN_REQ); ETick;
                          EDeliver CT (ctl FL_RESTART_REQ); ETick;
                          EDeliver RO (dr 100 P_RO 1000000 [1]); ETick; ETick]) = Some CAckNoDrain.
Proof. reflexivity. Qed.

Example crash_unknown_rspto :
  crashed (run cfg0 init [EDeliver RO (dr 100 P_RO 77 [1]); ETick]) = Some CUnknownRspTo.
Proof. reflexivity. Qed.

Example crash_wrong_kind :
  crashed (run cfg0 init [EDeliver RI (wd 10 P_RI 5); ETick]) = Some CBadKind.
Proof. reflexivity. Qed.

Example crash_unroutable_address :
  crashed (run cfg0 init [EDeliver RI (rd 1 10 P_RI 64); ETick]) = Some CBadDst.
Proof. reflexivity. Qed.

(** quirk: the RestartReq is retrieved before the engine knows whether it can
    acknowledge it; with the control port full it is dropped and the engine
    stays paused (not reachable by a protocol-respecting environment, which
    retrieves the DrainRsp first). *)
Example restart_lost_when_ctrl_port_full :
  let c1 := mkCfg 1 1 1 1 1 (banked 4096 [0; 100]) (banked 4096 [200]) in
  let s := run c1 init [EDeliver CT (ctl FL_DRAIN_REQ); ETick;
                        EDeliver CT (ctl FL_RESTART_REQ); ETick; ERetr CT; ETick; ETick] in
  crashed s = None /\ pause s = true /\ ct_in s = [] /\ ct_out s = [] /\ g_nrestart s = 0%nat.
Proof. vm_compute. repeat split; reflexivity. Qed.

(** * (ii) page distributor and work-group split *)

(** distributorImpl.Distribute: for every page size 2^k, aligned address,
    1 <= byteSize < 2^64 and every non-empty GPU list (including more GPUs
    than pages) the Remap calls tile the pages [0, numPages) of the buffer in
    order — every page exactly once, nothing outside —, each call is aligned,
    non-empty and targets a listed GPU, and the returned byte counts are what
    was remapped to each GPU: numPages/n pages each plus the remainder on the
    last one, or everything on the first GPU when numPages < n. *)
Theorem distribute_covers_once : forall log2ps addr bytes ngpu,
  addr mod 2 ^ log2ps = 0 -> (0 < ngpu)%nat -> 1 <= bytes < Pages.W64 ->
  let ps := 2 ^ log2ps in
  let np := (bytes - 1) / ps + 1 in
  let n := N.of_nat ngpu in
  exists rs per, Pages.distribute log2ps addr bytes ngpu = Some (rs, per) /\
    flat_map (Pages.pages_of ps addr) rs = Pages.upto np /\
    Forall (fun r => addr <= Pages.r_addr r /\ (Pages.r_addr r - addr) mod ps = 0 /\
                     Pages.r_size r mod ps = 0 /\ 0 < Pages.r_size r /\
                     (Pages.r_idx r < ngpu)%nat) rs /\
    length per = ngpu /\
    (forall i, (i < ngpu)%nat ->
       nth i per 0 = PagesP.sumN (map Pages.r_size (filter (fun r => Nat.eqb (Pages.r_idx r) i) rs))) /\
    PagesP.sumN per = np * ps /\
    (n <= np -> forall i, (i < ngpu)%nat ->
       nth i per 0 = (np / n + (if Nat.eqb i (ngpu - 1) then np mod n else 0)) * ps) /\
    (np < n -> forall i, (i < ngpu)%nat -> nth i per 0 = if Nat.eqb i 0 then np * ps else 0).
Proof. exact PagesP.distribute_covers_once_proof. Qed.
Print Assumptions distribute_covers_once.

Theorem distribute_panics_iff : forall log2ps addr bytes ngpu,
  Pages.distribute log2ps addr bytes ngpu = None <-> (addr mod 2 ^ log2ps <> 0 \/ ngpu = 0%nat).
Proof. exact PagesP.distribute_panics_iff. Qed.
Print Assumptions distribute_panics_iff.

(** distributeWGToGPUs + WGFilter: for every grid and work-group size whose
    work-group count fits uint32, and every list of CU counts (>= 0) with at
    least one CU in total, the table is a monotone list of boundaries starting
    at 0 with ranges proportional to the CU counts, it covers all work-groups,
    and every work-group is accepted by the filter of exactly one GPU, which is
    one that is actually launched. *)
Open Scope Z_scope.
Theorem gpu_split_partition : forall g cus,
  1 <= Split.gx g < Split.W32 -> 1 <= Split.gy g < Split.W32 -> 1 <= Split.gz g < Split.W32 ->
  1 <= Split.wx g -> 1 <= Split.wy g -> 1 <= Split.wz g ->
  Split.nx g * Split.ny g * Split.nz g < Split.W32 ->
  Forall (fun c => 0 <= c) cus -> 1 <= Split.sumZ cus ->
  exists d, Split.wg_dist g cus = Some d /\ length d = S (length cus) /\ nth 0 d 0 = 0 /\
    (forall i, (i < length cus)%nat ->
        nth (S i) d 0 - nth i d 0 = nth i cus 0 * Split.wg_per_cu g cus /\ nth i d 0 <= nth (S i) d 0) /\
    Split.total_wg g <= last d 0 /\
    forall x y z, 0 <= x < Split.nx g -> 0 <= y < Split.ny g -> 0 <= z < Split.nz g ->
      0 <= Split.flat_id g x y z < Split.total_wg g /\
      exists i, (i < length cus)%nat /\ Split.wg_filter g d i x y z = true /\ Split.launched d i = true /\
        forall j, (j < length cus)%nat -> Split.wg_filter g d j x y z = true -> j = i.
Proof. exact SplitP.gpu_split_partition_proof. Qed.
Print Assumptions gpu_split_partition.

(** distinct work-groups have distinct flattened ids *)
Theorem flat_id_injective : forall g x y z x' y' z',
  0 <= x < Split.nx g -> 0 <= y < Split.ny g -> 0 <= z ->
  0 <= x' < Split.nx g -> 0 <= y' < Split.ny g -> 0 <= z' ->
  Split.flat_id g x y z = Split.flat_id g x' y' z' -> x = x' /\ y = y' /\ z = z'.
Proof. exact SplitP.flat_id_injective. Qed.
Print Assumptions flat_id_injective.

(** Work partition of the benchmarks that split their own work over discrete
    GPUs.  For EVERY number of items n >= 0 and EVERY number of GPUs g >= 1 —
    including n < g, where some GPUs get nothing — the slices are consecutive,
    start at 0 and end at n: concatenated they are exactly 0..n-1 in order, so
    they are disjoint and cover [0,n) (a list equal to [upto n] has no
    duplicates).  [bal_slice]: fir, relu ([i*n/g, (i+1)*n/g)); [ceil_slice]:
    matrixtranspose (ceil(n/g) work-group columns per GPU).  The check ties
    them to the code by comparing [Bench.launches] with the kernel launches the
    real benchmarks make (observed on the driver's GPU port) for sizes 1, 2,
    3, 5, 7, g*k-1, g*k+1 on 2, 3, 4 GPUs; the position of each slice (kernel
    argument offset) is validated by the byte-for-byte comparison of all
    device buffers with the 1-GPU run. *)
Open Scope N_scope.
Theorem bench_balanced_partition : forall n g,
  1 <= g ->
  flat_map Bench.cells (Bench.slices (Bench.bal_slice n g) g) = Pages.upto n /\
  (forall i, i < g -> fst (Bench.bal_slice n g i) + snd (Bench.bal_slice n g i) =
                      fst (Bench.bal_slice n g (i + 1))) /\
  fst (Bench.bal_slice n g 0) = 0 /\ fst (Bench.bal_slice n g g) = n.
Proof. exact BenchP.balanced_partition_proof. Qed.
Print Assumptions bench_balanced_partition.

Theorem bench_ceil_partition : forall n g,
  1 <= g -> flat_map Bench.cells (Bench.slices (Bench.ceil_slice n g) g) = Pages.upto n.
Proof. exact BenchP.ceil_partition_proof. Qed.
Print Assumptions bench_ceil_partition.

Theorem partition_exactly_once : forall n, NoDup (Pages.upto n).
Proof. exact BenchP.upto_nodup. Qed.
Print Assumptions partition_exactly_once.

Example bench_fewer_items_than_gpus :
  Bench.slices (Bench.bal_slice 2 4) 4 = [(0, 0); (0, 1); (1, 0); (1, 1)] /\
  Bench.launches (Bench.bal_slice 2 4) 4 = [(2, 1); (4, 1)] /\
  Bench.launches (Bench.ceil_slice 3 4) 4 = [(1, 1); (2, 1); (3, 1)] /\
  Bench.launches (Bench.ceil_slice 6 4) 4 = [(1, 2); (2, 2); (3, 2)].
Proof. vm_compute. repeat split; reflexivity. Qed.
Open Scope Z_scope.

(** The RDMA address table of the timing platform, [CPU; GPU 1; ...; GPU n]
    with banks of the DRAM size B, against the physical ranges the driver
    assigns (device k owns [k*B + ps, (k+1)*B + ps), ps = page size, because
    the allocator starts one page above 0): every address of device k's range
    is routed to device k, except its last page, which lies in bank k+1 — the
    next GPU's, or outside the table (lookup panics) for the last GPU
    (finding (e) of docs/C10.md; only reached when a device is completely
    full).  The check compares [table n] with the table found in platforms
    built by the real timingconfig builder for n = 1..4. *)
Open Scope N_scope.
Theorem routing_table_correct : forall B ps n k a,
  0 < ps -> ps <= B -> (k <= n)%nat ->
  N.of_nat k * B + ps <= a < (N.of_nat k + 1) * B + ps ->
  (a < (N.of_nat k + 1) * B -> route B n a = owner k) /\
  ((N.of_nat k + 1) * B <= a -> route B n a = if (k <? n)%nat then owner (S k) else 0).
Proof. exact routing_table_correct_proof. Qed.
Print Assumptions routing_table_correct.
Open Scope Z_scope.

(** non-vacuity / quirks *)
Example distribute_demo :
  Pages.distribute 12 4294967296 16416 3 =
  Some ([Pages.mkRemap 4294967296 4096 0; Pages.mkRemap 4294971392 4096 1;
         Pages.mkRemap 4294975488 4096 2; Pages.mkRemap 4294979584 4096 2;
         Pages.mkRemap 4294983680 4096 2], [4096; 4096; 12288]%N).
Proof. vm_compute. reflexivity. Qed.

Example split_demo :
  Split.wg_dist (Split.mkGeom 1024 1 1 64 1 1) [64; 64; 36] = Some [0; 64; 128; 164].
Proof. vm_compute. reflexivity. Qed.

(** byteSize = 0 wraps to 2^52 pages; 2^32 work-groups wrap to 0 *)
Example distribute_zero_bytes_quirk : Pages.num_pages 4096 0 = 4503599627370496%N.
Proof. exact PagesP.distribute_zero_bytes_quirk. Qed.
Example split_uint32_overflow_quirk :
  let g := Split.mkGeom 65536 65536 1 1 1 1 in
  Split.total_wg g = 0 /\
  exists d, Split.wg_dist g [64] = Some d /\ Split.wg_filter g d 0 64 0 0 = false.
Proof. exact SplitP.split_uint32_overflow_quirk. Qed.
