From VMem Require Import Pmc.
