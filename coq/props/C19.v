(** C19 — page migration preserves page contents; completion is reported
    exactly once; requests arriving meanwhile are served afterwards.
    Statements only; the proofs are in VMem.PmcProofs (controller pair) and
    VDrv.MigrationProofs (driver side).

    The system ([VMem.Pmc]): two page-migration controllers A and B, each a
    transcription of pmc.go with its three capacity-1 akita ports; the memories
    of the two GPUs; a network between the remote ports; per memory a list of
    requests that arrived and a list of replies on their way back.
    [run (s_init ...) evs] ranges over every finite sequence of environment
    events: ticks of either controller in any interleaving, transfers out of
    port buffers (or none: arbitrary delay), deliveries of ANY pending network
    message / memory reply (arbitrary reordering) that the destination buffer
    may refuse (back-pressure), memory serving ANY pending request, migration
    requests offered to A's control port at any time, completions taken at any
    time.  [ok_ev] is the only restriction: requests go to A (one puller per
    source at a time - the driver keeps one PageMigrationReqToCP in flight),
    name B as the page's owner, have a page size that is a multiple of the
    64-byte transfer unit and a sender the completion can be returned to; and
    no third party talks on the network.  Port names are arbitrary but distinct
    where akita requires it. *)
From VMem Require Import Pmc PmcLemmas PmcProofs PmcLive PmcBi PmcBi7 PmcExamples PmcBank PmcBankProofs PmcBankExamples.
From Coq Require Import Permutation.
From VDrv Require Import Migration MigrationProofs MigrationPages Handshake HandshakeProofs HandshakePages HandshakeMMU HandshakeExamples.
Open Scope N_scope.

(** [completed s]: the accepted requests for which a completion response has
    been created (sent, or waiting for the control port).  Whenever A is not in
    the middle of a transfer, A's memory is EXACTLY the initial memory with the
    completed pages copied in order: inside each destination range the source
    bytes as they were ([sb0]; B's memory never changes), every other byte
    untouched.  During a transfer the only deviation is inside that page's
    destination range, each byte still old or already new.  No panic. *)
Theorem pmc_copies_page : forall ra ca la ma rb cb lb mb sa0 sb0,
  names_ok ra la ma rb lb mb ->
  forall evs, Forall (ok_ev ca rb) evs ->
  let s := run (s_init ra ca la ma rb cb lb mb sa0 sb0) evs in
  crashed (pa s) = false /\ crashed (pb s) = false /\
  (forall a, stb s a = sb0 a) /\
  match cur_mig (pa s) with
  | None => forall a, sta s a = fold_left (copy_req sb0) (completed s) sa0 a
  | Some r => forall a,
      sta s a = fold_left (copy_req sb0) (completed s) sa0 a \/
      (mg_wr r <= a < mg_wr r + mg_size r /\ sta s a = sb0 (mg_rd r + (a - mg_wr r)))
  end.
Proof.
  intros ra ca la ma rb cb lb mb sa0 sb0 (Hra & Hrb & Hrab & Hma & Hmb) evs Hok s.
  pose proof (reach ra ca la ma rb cb lb mb sa0 sb0 Hra Hrb Hrab Hma Hmb evs Hok) as H.
  fold s in H.
  destruct (store_of_inv ra ca la ma rb cb lb mb sa0 sb0 Hra Hrb Hrab Hma Hmb s H) as [Hb Ha].
  split; [apply H|]. split; [apply H|]. split; assumption.
Qed.
Print Assumptions pmc_copies_page.

(** what [copy_req] does: destination range := source range, nothing else *)
Theorem copy_req_is_a_page_copy : forall sb0 st r a,
  (mg_wr r <= a < mg_wr r + mg_size r -> copy_req sb0 st r a = sb0 (mg_rd r + (a - mg_wr r))) /\
  (a < mg_wr r \/ mg_wr r + mg_size r <= a -> copy_req sb0 st r a = st a).
Proof. exact copy_spec. Qed.
Print Assumptions copy_req_is_a_page_copy.

(** The special case of one request: once its completion exists, the page has
    arrived and nothing else moved, in either memory. *)
Theorem pmc_copies_one_page : forall ra ca la ma rb cb lb mb sa0 sb0,
  names_ok ra la ma rb lb mb ->
  forall evs r, Forall (ok_ev ca rb) evs ->
  let s := run (s_init ra ca la ma rb cb lb mb sa0 sb0) evs in
  g_acc s = [r] -> ndone s = 1%nat ->
  (forall a, mg_wr r <= a < mg_wr r + mg_size r -> sta s a = sb0 (mg_rd r + (a - mg_wr r))) /\
  (forall a, a < mg_wr r \/ mg_wr r + mg_size r <= a -> sta s a = sa0 a) /\
  (forall a, stb s a = sb0 a).
Proof.
  intros ra ca la ma rb cb lb mb sa0 sb0 (Hra & Hrb & Hrab & Hma & Hmb) evs r Hok.
  exact (one_page ra ca la ma rb cb lb mb sa0 sb0 Hra Hrb Hrab Hma Hmb evs r Hok).
Qed.
Print Assumptions pmc_copies_one_page.

(** ** Banked local memories ([VMem.PmcBank])
    MemCtrlFinder is an arbitrary address-to-port mapper; the local memory of a
    controller is a set of banks, and the bank NAMED IN A REQUEST serves it (a
    bank stores what it is sent).  [bview finder bs] reads every address
    through the bank that owns it.

    Stages 10 and 12 with an arbitrary finder: every read / write request they
    create is addressed to the owner of ITS OWN address, and apart from that
    destination ([stamp]) they are the stages of the controller model. *)
Theorem pmc_requests_routed_by_own_address : forall finder loc memc l m s q,
  Forall (fun w => routed finder (MWrReq w)) (fst (fst (pull_rsps_f finder loc l m))) /\
  map MWrReq (fst (fst (pull_rsps_f finder loc l m))) =
    map (stamp finder) (map MWrReq (fst (fst (pull_rsps loc memc l m)))) /\
  routed finder (MRdReq (mk_read_f finder s q)) /\
  MRdReq (mk_read_f finder s q) = stamp finder (MRdReq (mk_read s q)).
Proof.
  intros. split; [apply pull_rsps_f_routed|]. split; [apply pull_rsps_f_stamp|].
  split; [apply mk_read_f_routed | apply mk_read_f_stamp].
Qed.
Print Assumptions pmc_requests_routed_by_own_address.

(** One request, any finder, any banks: if it is addressed to the owner of its
    address and its bytes have one owner, the named bank's service is - seen
    through the owning banks - the service of a flat memory: same data read,
    same bytes written, and no bank changes at an address it does not own. *)
Theorem bank_service_through_owner : forall finder bs m,
  routed finder m -> piece_local finder m ->
  match bank_serve bs m, mem_serve (bview finder bs) m with
  | Some (bs', r1), Some (st', r2) =>
    (forall x, bview finder bs' x = st' x) /\
    (forall b x, finder x <> b -> bs' b x = bs b x) /\
    match r1, r2 with
    | MDReady d1, MDReady d2 => dr_data d1 = dr_data d2 /\ dr_rspto d1 = dr_rspto d2 /\ dr_dst d1 = dr_dst d2
    | MWDone w1, MWDone w2 => wd_dst w1 = wd_dst w2
    | _, _ => False
    end
  | None, None => True
  | _, _ => False
  end.
Proof. exact bank_serve_flat. Qed.
Print Assumptions bank_service_through_owner.

(** [pmc_copies_page] lifted through the banked view.  [brun fa fb]: the system
    of [pmc_copies_page] in which A's memory is a set of banks behind the
    finder [fa] and B's behind [fb]; every request a memory serves carries the
    destination stages 10/12 stamped on it and is served by that bank.  For
    EVERY pair of finders, every initial banks whose views are [sa0]/[sb0] and
    every run in which the 64-byte pieces of the requested pages have one
    owner each ([ok_ev_local]; any page size that is a multiple of 64): read
    through the owning banks, A's memory is the initial memory with the
    completed pages copied in order (during a transfer: each byte of that
    page's destination old or new), B's memory is unchanged, and NO bank - on
    either side - was written at an address it does not own. *)
Theorem pmc_copies_page_banked : forall ra ca la ma rb cb lb mb sa0 sb0 fa fb bka0 bkb0,
  names_ok ra la ma rb lb mb ->
  (forall x, bview fa bka0 x = sa0 x) -> (forall x, bview fb bkb0 x = sb0 x) ->
  forall evs, Forall (ok_ev_local ca rb fa fb) evs ->
  let b := brun fa fb (mkB (s_init ra ca la ma rb cb lb mb sa0 sb0) bka0 bkb0) evs in
  let s := flat b in
  s = run (s_init ra ca la ma rb cb lb mb sa0 sb0) evs /\
  crashed (pa s) = false /\ crashed (pb s) = false /\
  (forall x, bview fb (bkb b) x = sb0 x) /\
  (forall bk x, fa x <> bk -> bka b bk x = bka0 bk x) /\
  (forall bk x, fb x <> bk -> bkb b bk x = bkb0 bk x) /\
  match cur_mig (pa s) with
  | None => forall x, bview fa (bka b) x = fold_left (copy_req sb0) (completed s) sa0 x
  | Some r => forall x,
      bview fa (bka b) x = fold_left (copy_req sb0) (completed s) sa0 x \/
      (mg_wr r <= x < mg_wr r + mg_size r /\ bview fa (bka b) x = sb0 (mg_rd r + (x - mg_wr r)))
  end.
Proof.
  intros ra ca la ma rb cb lb mb sa0 sb0 fa fb bka0 bkb0 (Hra & Hrb & Hrab & Hma & Hmb) Hva Hvb evs Hok.
  exact (banked_copies_page_local ra ca la ma rb cb lb mb sa0 sb0 fa fb Hra Hrb Hrab Hma Hmb
           bka0 bkb0 Hva Hvb evs Hok).
Qed.
Print Assumptions pmc_copies_page_banked.

(** mem.InterleavedAddressPortMapper (bank = address / granularity mod number
    of banks): any number of banks, any granularity that is a multiple of 64 -
    smaller than, equal to or larger than the page -, 64-aligned pages. *)
Theorem interleaved_mapper_pieces_have_one_owner : forall ka na kb nb r,
  ka <> 0 -> kb <> 0 -> mg_wr r mod 64 = 0 -> mg_rd r mod 64 = 0 ->
  req_local (interleaved (64 * ka) na) (interleaved (64 * kb) nb) r.
Proof. exact interleaved_req_local. Qed.
Print Assumptions interleaved_mapper_pieces_have_one_owner.

(** The destination looked up once per page ([stamp_page]) instead of per
    request: the byte lands in a bank that does not own it and is not there
    when the address is read through its owner. *)
Example lookup_once_per_page_loses_bytes :
  let finder := interleaved 1024 2 in
  let bs : banks := fun _ _ => 0 in
  let q := mkWrReq 3 0 1024 [7] in
  match bank_serve bs (stamp_page finder 0 (MWrReq q)) with
  | Some (bs', _) => bview finder bs' 1024 = 0 /\ bs' 0 1024 = 7 /\ finder 1024 = 1
  | None => False
  end.
Proof. exact page_stamp_loses_bytes. Qed.

(** non-vacuity: two migrations over 2 and 3 banks interleaved at 64 bytes; the
    128-byte page ends up half in bank 0 and half in bank 1 of A *)
Example banked_demo :
  let b := brun demo_fa demo_fb
             (mkB (std_sys (gen_store 3 1) (gen_store 5 2))
                  (demo_banks demo_fa (gen_store 3 1)) (demo_banks demo_fb (gen_store 5 2)))
             demo_schedule in
  Forall (ok_ev_local CA RB demo_fa demo_fb) demo_schedule /\
  cur_mig (pa (flat b)) = None /\ length (completed (flat b)) = 2%nat /\
  read (bview demo_fa (bka b)) 2048 128 = read (gen_store 5 2) 1024 128 /\
  read (bka b 0) 2048 64 = read (gen_store 5 2) 1024 64 /\ bka b 1 2048 = 99 /\
  read (bka b 1) 2112 64 = read (gen_store 5 2) 1088 64 /\ bka b 0 2112 = 99.
Proof. exact demo_banked_ok. Qed.

(** Completion responses: everything A ever put (or is about to put) on its
    control port is exactly one response per completed request, in request
    order, addressed to the request's sender; never more responses than
    accepted requests; B reports nothing. *)
Theorem pmc_completion_once : forall ra ca la ma rb cb lb mb sa0 sb0,
  names_ok ra la ma rb lb mb ->
  forall evs, Forall (ok_ev ca rb) evs ->
  let s := run (s_init ra ca la ma rb cb lb mb sa0 sb0) evs in
  g_done s ++ ctl_out (pa s) ++ map MMigRsp (olist (to_ctrl (pa s))) =
    map (fun r => MMigRsp (mkMigRsp ca (mg_src r))) (completed s) /\
  length (completed s) = ndone s /\ (ndone s <= length (g_acc s))%nat /\
  ctl_out (pb s) = [].
Proof.
  intros ra ca la ma rb cb lb mb sa0 sb0 (Hra & Hrb & Hrab & Hma & Hmb) evs Hok.
  exact (completion_once ra ca la ma rb cb lb mb sa0 sb0 Hra Hrb Hrab Hma Hmb evs Hok).
Qed.
Print Assumptions pmc_completion_once.

(** Requests are neither lost nor duplicated nor reordered: the accepted
    requests are, in order, the completed ones, then the one being served (if
    any), then those still waiting in the control port. *)
Theorem pmc_requests_queue : forall ra ca la ma rb cb lb mb sa0 sb0,
  names_ok ra la ma rb lb mb ->
  forall evs, Forall (ok_ev ca rb) evs ->
  let s := run (s_init ra ca la ma rb cb lb mb sa0 sb0) evs in
  exists waiting,
    ctl_in (pa s) = map MMigReq waiting /\
    g_acc s = completed s ++ olist (cur_mig (pa s)) ++ waiting.
Proof.
  intros ra ca la ma rb cb lb mb sa0 sb0 (Hra & Hrb & Hrab & Hma & Hmb) evs Hok.
  exact (requests_queue ra ca la ma rb cb lb mb sa0 sb0 Hra Hrb Hrab Hma Hmb evs Hok).
Qed.
Print Assumptions pmc_requests_queue.

(** Liveness.  [mu] is a ranking function (PmcLive.v): the remaining pipeline
    stages of every chunk in flight, 22 per chunk of every request not yet
    started, plus the bookkeeping steps of each request.  No environment event
    raises it and every event that changes the state lowers it; when none of
    the twelve canonical actions [round12] (tick A, tick B, take the head of
    each remote/local out buffer, deliver the oldest network message, serve the
    oldest request of each memory, deliver the oldest reply of each memory,
    take the head of A's control out buffer) changes the state, the rank is 0.
    A schedule is [fair k] if it starts with k consecutive segments in each of
    which every canonical action occurs at least once - in any order, with
    anything else (ticks, out-of-order deliveries, refusals) in between.
    From ANY reachable state whose accepted requests have at least one chunk
    (PageSize >= 64; see small_page_hangs for why), every schedule without new
    requests that is fair for [mu] rounds ends with every accepted request
    completed, exactly one completion per request taken by the command
    processor in request order, the controller idle and its control port empty. *)
Theorem pmc_liveness : forall ra ca la ma rb cb lb mb sa0 sb0,
  names_ok ra la ma rb lb mb ->
  forall evs0 evs,
  Forall (ok_ev ca rb) evs0 ->
  Forall quiet evs ->
  let s0 := run (s_init ra ca la ma rb cb lb mb sa0 sb0) evs0 in
  Forall (fun r => 64 <= mg_size r) (g_acc s0) ->
  fair (mu s0) evs ->
  let s := run s0 evs in
  g_acc s = g_acc s0 /\
  g_done s = map (fun r => MMigRsp (mkMigRsp ca (mg_src r))) (g_acc s) /\
  completed s = g_acc s /\ cur_mig (pa s) = None /\ ctl_in (pa s) = [] /\ ctl_out (pa s) = [].
Proof. exact liveness. Qed.
Print Assumptions pmc_liveness.

(** the rank never grows, and a state-changing event lowers it (any event but a new request) *)
Theorem pmc_rank_decreases : forall ra ca la ma rb cb lb mb sa0 sb0,
  names_ok ra la ma rb lb mb ->
  forall evs0 e, Forall (ok_ev ca rb) evs0 -> quiet e ->
  let s := run (s_init ra ca la ma rb cb lb mb sa0 sb0) evs0 in
  fst (step s e) = s \/ (mu (fst (step s e)) < mu s)%nat.
Proof.
  intros ra ca la ma rb cb lb mb sa0 sb0 (Hra & Hrb & Hrab & Hma & Hmb) evs0 e Hok Hq s.
  apply (step_dich ra ca la ma rb cb lb mb sa0 sb0 Hra Hrb Hrab Hma Hmb); auto.
  apply (run_inv ra ca la ma rb cb lb mb sa0 sb0 Hra Hrb Hrab Hma Hmb); auto.
  apply (init_inv2 ra ca la ma rb cb lb mb sa0 sb0); auto.
Qed.
Print Assumptions pmc_rank_decreases.

(** non-vacuity of the fairness premise: repeating the demo round is fair, and
    the rank after accepting one 128-byte request is 49 *)
Example fair_is_satisfiable : fair 49 (repeat_ev 49 demo_round) /\
  mu (run (std_sys (gen_store 3 1) (gen_store 5 2)) [ECtrlReq PA (mkMigReq CP_A CA 1024 2048 RB 128)]) = 49%nat.
Proof. split; [apply repeat_fair|exact demo_rank]. Qed.

(** ** Both directions at the same time (round 3)

    A pulls pages from B while B pulls pages from A, in any interleaving: every
    buffer, the network and both memories then carry the traffic of both
    directions mixed.  [cf] bundles the port names, the initial memories and, per
    memory, the region [nRO] that pages are only read from.  [ok_evb]: requests
    may be offered to EITHER controller at any time; a request to [w] names the
    other controller, has a page size that is a multiple of 64, reads inside the
    other memory's read-only region and writes outside [w]'s own read-only
    region (so a page is never read while the opposite direction overwrites it;
    without this "the source range as it was" has no meaning).  With exactly two
    controllers the single [requestingPMCtrlPort] field is harmless: each source
    has one puller.  Then, for each direction [w] separately, everything the
    one-direction theorems say holds: no panic; the read-only region of the
    source memory is intact; the puller's memory is exactly the completed pages
    copied in order (only the page in transfer may be partly old, partly new);
    one completion per completed request, in order; accepted = completed ++
    current ++ waiting.  A third puller breaks this: misrouting_witness. *)
Theorem pmc_bidirectional : forall cf, names_okb cf ->
  forall evs, Forall (PmcBi7.ok_evb cf) evs ->
  let s := run (sb_init cf) evs in
  crashed (pa s) = false /\ crashed (pb s) = false /\
  forall w,
    (forall a, nRO cf (other w) a -> getst (other w) s a = nS0 cf (other w) a) /\
    match cur_mig (getp w s) with
    | None => forall a, getst w s a = fold_left (copy_req (nS0 cf (other w))) (completedw w s) (nS0 cf w) a
    | Some r => forall a,
        getst w s a = fold_left (copy_req (nS0 cf (other w))) (completedw w s) (nS0 cf w) a \/
        (mg_wr r <= a < mg_wr r + mg_size r /\ getst w s a = nS0 cf (other w) (mg_rd r + (a - mg_wr r)))
    end /\
    gdone w s ++ ctl_out (getp w s) ++ map MMigRsp (olist (to_ctrl (getp w s))) =
      map (fun r => MMigRsp (mkMigRsp (nC cf w) (mg_src r))) (completedw w s) /\
    (ndonew w s <= length (gacc w s))%nat /\
    exists waiting, ctl_in (getp w s) = map MMigReq waiting /\
                    gacc w s = completedw w s ++ olist (cur_mig (getp w s)) ++ waiting.
Proof. exact bidirectional. Qed.
Print Assumptions pmc_bidirectional.

(** non-vacuity: both directions migrate concurrently on the model and both complete *)
Example bidirectional_demo :
  names_okb cf_std /\ Forall (PmcBi7.ok_evb cf_std) bidir_schedule /\
  let s := run (sb_init cf_std) bidir_schedule in
  g_done s = [MMigRsp (mkMigRsp CA CP_A)] /\ g_doneb s = [MMigRsp (mkMigRsp CB CP_B)] /\
  read (sta s) 2048 128 = read (gen_store 5 2) 0 128 /\
  read (stb s) 4096 64 = read (gen_store 3 1) 512 64.
Proof. split; [exact cf_std_ok|]. split; [exact bidir_ok|exact bidir_result]. Qed.

(** ** Observations about the code, outside the property's premises *)

(** The source side remembers ONE requester: every pull request overwrites
    [requestingPMCtrlPort], and data read for earlier requests is then sent to
    the latest requester.  With the driver's one-request-at-a-time handshake
    there is one puller per source, which the theorems assume. *)
Theorem requester_is_overwritten : forall p q rest,
  rem_in p = MPullReq q :: rest ->
  requester (fst (processFromOutside p)) = pq_src q.
Proof. exact requester_overwritten. Qed.
Print Assumptions requester_is_overwritten.

(** Witness on the model (the same schedule is corpus case misroute.json and
    behaves identically on the real controllers): a third controller's pull
    request reaches B while A's migration is in flight; B's answer to A's
    request is addressed to the third party (port 11), and A never completes. *)
Example misrouting_witness :
  let s := run (std_sys (gen_store 3 1) (gen_store 5 2)) misroute_schedule in
  exists p, In (MPullRsp p) (net s) /\ pr_id p = (RA, 0) /\ pr_dst p = 11 /\
            g_done s = [] /\ cur_mig (pa s) <> None.
Proof. exact misroute_ok. Qed.

(** A page size below the transfer unit (including 0) generates no pull request
    and the controller stays busy forever; the property excludes such sizes. *)
Example small_page_hangs :
  let s := run (std_sys (gen_store 3 1) (gen_store 5 2))
               (ECtrlReq PA (mkMigReq CP_A CA 0 0 RB 32) :: repeat_ev 50 demo_round) in
  handling (pa s) = true /\ g_done s = [] /\ to_pull (pa s) = [] /\ net s = [].
Proof. vm_compute. repeat split; reflexivity. Qed.

(** ** Non-vacuity: a concrete schedule satisfies the premises and completes *)
Example demo_completes :
  let s := run (std_sys (gen_store 3 1) (gen_store 5 2)) demo_schedule in
  Forall (ok_ev CA RB) demo_schedule /\
  g_done s = [MMigRsp (mkMigRsp CA CP_A); MMigRsp (mkMigRsp CA CP_A)] /\
  length (g_acc s) = 2%nat /\ cur_mig (pa s) = None /\
  read (sta s) 2048 128 = read (gen_store 5 2) 1024 128 /\
  read (sta s) 4096 64 = read (gen_store 5 2) 64 64.
Proof. exact demo_ok. Qed.

(** ** Driver side: Driver.preparePageForMigration *)

(** For a page-aligned virtual address that is mapped, and a target device
    with a free page: no panic; the old physical address is returned; the
    virtual page now maps to a page of the target device (gpu+1), marked
    migrating, whose physical address was the head of that device's free list
    and has left it; every other (process, page) lookup is unchanged; every
    other device's free list is unchanged.  (The old physical page is NOT
    returned to its device: see docs/C19.md.) *)
Theorem migration_updates_only_target : forall d pid va gpu pg,
  pt_align d va = va ->
  pt_find_in d (d_pt d) pid va = Some pg ->
  dev_can_alloc d (gpu + 1) = true ->
  match prepare_page_for_migration d pid va gpu with
  | None => False
  | Some (d', newpage, old) =>
    old = pg_paddr pg /\
    pt_find_in d' (d_pt d') pid va = Some newpage /\
    pg_device newpage = gpu + 1 /\ pg_migrating newpage = true /\
    pg_vaddr newpage = va /\ pg_pid newpage = pid /\ pg_valid newpage = true /\
    d_alloc d (gpu + 1) = pg_paddr newpage :: d_alloc d' (gpu + 1) /\
    (forall pid' va', (pid', pt_align d va') <> (pid, va) ->
       pt_find_in d' (d_pt d') pid' va' = pt_find_in d (d_pt d) pid' va') /\
    (forall dev, dev <> gpu + 1 -> d_alloc d' dev = d_alloc d dev) /\
    d_log2 d' = d_log2 d
  end.
Proof. exact migration_only_target. Qed.
Print Assumptions migration_updates_only_target.

(** The driver keeps at most one page request in flight (sendMigrationReqToCP /
    processPageMigrationRspFromCP): the premise "one puller per source". *)
Theorem driver_one_request_in_flight : forall evs,
  let d := drv_run drv_init evs in
  (dq_inflight d <= 1)%nat /\
  (dq_inflight d = 1%nat <-> dq_busy d = true).
Proof. exact one_in_flight. Qed.
Print Assumptions driver_one_request_in_flight.

(** ** The drain - shootdown - migrate - restart handshake of the driver

    [VDrv.Handshake] transcribes the migration part of Driver.Tick (send one
    queued command, send the MMU answer, send one page request unless one is in
    flight, process one response from the GPU port, take the next MMU request
    when idle).  [hvalid]: the environment is any sequence of ticks, MMU
    requests (GPU numbers in range), takes from the two ports, and responses of
    command processors - a response of a kind only if more commands of that
    kind were sent than responses of it delivered.  Then, for the request being
    handled: what was sent plus what is queued is a prefix of
    drains(all GPUs) ++ shootdowns(accessing GPUs) ++ page requests ++ GPU
    restarts(accessing GPUs) ++ RDMA restarts(all GPUs), in exactly that order;
    a shootdown is sent only after every drain acknowledgement; a page request
    only after every drain and shootdown acknowledgement; at most one page
    request is unanswered; GPU restarts only after every page completion; RDMA
    restarts only after every GPU restart acknowledgement; no panic. *)
Theorem handshake_order : forall n evs,
  hvalid (hs_init n) evs ->
  let s := hrun (hs_init n) evs in
  h_crashed s = false /\
  match h_cur s with
  | None => h_tosend s = [] /\ h_migq s = [] /\ h_gpu_in s = []
  | Some q =>
    let full := bD n ++ bS n q ++ bM n q ++ bR q ++ bRR n in
    (exists rest, (Handshake.g_sent s ++ h_tosend s ++ h_migq s) ++ rest = full) /\
    ((0 < sentk RShoot (Handshake.g_sent s))%nat -> A s RDrain = n) /\
    ((0 < sentk RMig (Handshake.g_sent s))%nat -> A s RDrain = n /\ A s RShoot = LN (mr_accessing q)) /\
    (N.of_nat (sentk RMig (Handshake.g_sent s)) <= A s RMig + 1) /\
    ((0 < sentk RRestart (Handshake.g_sent s))%nat -> A s RMig = LN (bM n q) /\ sentk RMig (Handshake.g_sent s) = length (bM n q)) /\
    ((0 < sentk RRdmaRestart (Handshake.g_sent s))%nat -> A s RRestart = LN (mr_accessing q))
  end.
Proof. exact HandshakeProofs.handshake_order. Qed.
Print Assumptions handshake_order.

(** non-vacuity: a complete valid handshake on the model *)
Example handshake_demo :
  hvalid (hs_init 2) demo_hs /\
  let s := hrun (hs_init 2) demo_hs in
  h_cur s = None /\ h_crashed s = false /\
  Handshake.g_sent s = [CDrain 0; CDrain 1; CShoot 0 [4096; 8192] 7; CShoot 1 [4096; 8192] 7;
              CMig 1 1 4096 4096; CMig 1 1 4096 8192; CRestart 0; CRestart 1;
              CRdmaRestart 0; CRdmaRestart 1] /\
  h_mmu_out s = [mkMRsp 50 [4096; 8192] true].
Proof. split; [exact demo_hs_valid|exact demo_hs_result]. Qed.

(** ** A request with several pages, for several requesting GPUs

    GPUReqToVAddrMap is a Go map from requesting GPU to a list of virtual
    pages; processShootdownCompleteRsp walks it with `range`, so the order of
    the groups is not determined ([mr_order q] is the order the iteration
    happened to use; [map_order_ok]: it lists every group once).  Whatever the
    order: when the first GPU restart leaves the driver, the page requests it
    has sent are, as a multiset, exactly one per (requesting GPU, page) of the
    request - none missing, none twice. *)
Theorem handshake_every_page_once : forall n evs,
  hvalid (hs_init n) evs ->
  let s := hrun (hs_init n) evs in
  match h_cur s with
  | None => True
  | Some q =>
    (0 < sentk RRestart (Handshake.g_sent s))%nat ->
    NoDup (map fst (groups_of n q)) /\ Permutation (mr_order q) (map fst (groups_of n q)) ->
    Permutation (filter is_mig (Handshake.g_sent s))
                (flat_map (fun gp => map (fun va => CMig (fst gp - 1) (mr_host q) (mr_pagesize q) va) (snd gp))
                          (groups_of n q))
  end.
Proof. exact HandshakePages.every_page_once. Qed.
Print Assumptions handshake_every_page_once.

Example every_page_once_demo :
  hvalid (hs_init 3) demo_hs2 /\
  let s := hrun (hs_init 3) demo_hs2 in
  h_cur s = Some demo_q2 /\ (0 < sentk RRestart (Handshake.g_sent s))%nat /\
  NoDup (map fst (groups_of 3 demo_q2)) /\ Permutation (mr_order demo_q2) (map fst (groups_of 3 demo_q2)) /\
  filter is_mig (Handshake.g_sent s) = [CMig 2 1 4096 12288; CMig 1 1 4096 4096; CMig 1 1 4096 8192].
Proof.
  split; [exact demo_hs2_valid|]. cbv zeta. split; [apply demo_hs2_result|].
  split; [vm_compute; lia|]. split; [vm_compute; repeat constructor; cbn; intuition discriminate|].
  split; [vm_compute; apply perm_swap|]. vm_compute. reflexivity.
Qed.

(** The page-table and memory side of the same loop ([VDrv.MigrationPages]):
    [prepare_pages] is preparePageForMigration called for every (GPU index,
    virtual page) of the request in turn, producing one PageMigrationReqToCP
    ([copy]: read from the old physical page, write to the new one) per page;
    [exec_copies] performs the copies one after the other, as the driver has
    them done.  [hygiene]: what the allocator guarantees - a free physical page
    is listed once, on one device, and is not mapped.  Then for every page of
    the request: its request goes to the requesting GPU, reads the physical
    page the table held before, writes a page that was free on that GPU, and
    the table afterwards maps the virtual page to that new page on that GPU;
    after the copies every new page holds what the old page held (for every
    memory), no other physical page changed, and entries of other virtual
    pages are untouched. *)
Theorem migration_every_page_copied_and_remapped : forall l d pid d' cs,
  hygiene d -> NoDup (map snd l) -> (forall gv, In gv l -> pt_align d (snd gv) = snd gv) ->
  prepare_pages d pid l = Some (d', cs) ->
  Forall2 (fun gv c =>
    cp_gpu c = fst gv /\
    (exists pg, pt_find_in d (d_pt d) pid (snd gv) = Some pg /\ cp_read c = pg_paddr pg) /\
    In (cp_write c) (d_alloc d (fst gv + 1)) /\
    (exists np, pt_find_in d' (d_pt d') pid (snd gv) = Some np /\ pg_paddr np = cp_write c /\
                pg_device np = fst gv + 1 /\ pg_migrating np = true /\ pg_valid np = true)) l cs /\
  (forall m c, In c cs -> exec_copies m cs (cp_write c) = m (cp_read c)) /\
  (forall m a, ~ In a (map cp_write cs) -> exec_copies m cs a = m a) /\
  (forall pid' va', (forall gv, In gv l -> (pid', pt_align d va') <> (pid, snd gv)) ->
     pt_find_in d' (d_pt d') pid' va' = pt_find_in d (d_pt d) pid' va').
Proof. exact every_page_copied_and_remapped. Qed.
Print Assumptions migration_every_page_copied_and_remapped.

(** non-vacuity: two pages for GPU index 1 and one for GPU index 2 in one request; a fourth page stays *)
Example every_page_demo :
  hygiene ex_d /\ NoDup (map snd ex_request) /\
  (forall gv, In gv ex_request -> pt_align ex_d (snd gv) = snd gv) /\
  exists d', prepare_pages ex_d 7 ex_request =
    Some (d', [mkCopy 1 4096 1048576; mkCopy 1 8192 1052672; mkCopy 2 12288 2097152]) /\
  option_map pg_paddr (pt_find_in d' (d_pt d') 7 4096) = Some 1048576 /\
  option_map pg_paddr (pt_find_in d' (d_pt d') 7 8192) = Some 1052672 /\
  option_map pg_paddr (pt_find_in d' (d_pt d') 7 12288) = Some 2097152 /\
  option_map pg_paddr (pt_find_in d' (d_pt d') 7 16384) = Some 16384.
Proof.
  split; [exact ex_hygiene|]. split; [repeat constructor; cbn; intuition discriminate|].
  split; [|exact ex_prepare].
  intros gv [<-|[<-|[<-|[]]]]; reflexivity.
Qed.

(** ** The answer to the MMU under back-pressure

    The driver's MMU port holds one outgoing message.  [h_tommu] is the slot
    Driver.toSendToMMU.  A tick with a pending answer [m]: if the port has room
    the answer is sent (appended to what the port holds); if the port is full
    nothing is sent and the answer is STILL in the slot afterwards - the only
    exception being a tick that processes the last page acknowledgement of the
    next request, whose answer then occupies the single slot.  No other event
    touches the slot. *)
Theorem completion_retried_until_sent : forall s m,
  h_crashed s = false -> h_tommu s = Some m ->
  let s' := htick s in
  ((length (h_mmu_out s) < 1)%nat -> h_mmu_out s' = h_mmu_out s ++ [m]) /\
  ((1 <= length (h_mmu_out s))%nat ->
     h_mmu_out s' = h_mmu_out s /\
     (h_tommu s' = Some m \/
      exists q rest, h_cur s = Some q /\ h_gpu_in s = RMig :: rest /\ h_nmig s - 1 = 0)).
Proof. exact HandshakeMMU.completion_retried_until_sent. Qed.
Print Assumptions completion_retried_until_sent.

Theorem completion_slot_only_changed_by_tick : forall s e,
  e <> HTick -> h_tommu (fst (hstep s e)) = h_tommu s.
Proof. exact slot_only_changed_by_tick. Qed.
Print Assumptions completion_slot_only_changed_by_tick.

(** non-vacuity: a valid run in which the first answer stays in the port during
    the whole second migration; the second answer waits in the slot, then both
    reach the MMU, once each *)
Example backpressure_demo :
  hvalid (hs_init 2) (demo_hs3a ++ demo_hs3b) /\
  (let s := hrun (hs_init 2) demo_hs3a in
   h_tommu s = Some (mkMRsp 51 [12288] false) /\ h_mmu_out s = [mkMRsp 50 [4096; 8192] true]) /\
  filter (fun o => match o with HRsp _ => true | _ => false end) (hrun_obs (hs_init 2) (demo_hs3a ++ demo_hs3b)) =
  [HRsp (Some (mkMRsp 50 [4096; 8192] true)); HRsp (Some (mkMRsp 51 [12288] false)); HRsp None].
Proof. split; [exact demo_hs3_valid|]. split; [exact demo_hs3_waiting|exact demo_hs3_answers]. Qed.
